module verifharness

go 1.19

require 6502profiler v0.0.0

require github.com/yuin/gopher-lua v1.1.0

replace 6502profiler => /repo
