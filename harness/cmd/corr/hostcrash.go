package main

import (
	"6502profiler/commands"
	"6502profiler/emuconfig"
	"6502profiler/memory"
	"bufio"
	"fmt"
	"os"
	"os/exec"
	"runtime/debug"
	"strings"
	"time"
	"verifharness/internal/rng"
)

// ---------------------------------------------------------------------------------------
// C11: no program can crash the host — on the real memory models
//
// Small generated programs run through cpu.RunExt on every MemSpec machine built by emuconfig.  A Go `panic` is
// recovered by RunExt, but a fatal runtime error (unbounded recursion, concurrent map write, ...) kills the
// process and cannot be recovered; so the cases run in CHILD processes of this binary, in batches, and when a
// child dies the batch is re-run case by case to name the program that killed it.

type crashCase struct {
	spec  string
	model string
	code  []uint8
}

func (c crashCase) String() string {
	h := hexOf(c.code)
	if h == "" {
		h = "-"
	}
	return fmt.Sprintf("%s %s %s", c.spec, c.model, h)
}

var crashAddrs = []uint16{0x0000, 0x0001, 0x0002, 0x0007, 0x0008, 0x000F, 0x0010, 0x00FF, 0x0100, 0x01FF, 0x3FFF, 0x4000, 0x7FFF, 0x8000,
	0x9EFF, 0x9F00, 0x9FFF, 0xA000, 0xBFFF, 0xC000, 0xDDFF, 0xDE00, 0xDEFF, 0xDF00, 0xDFFE, 0xDFFF, 0xE000, 0xFFFE, 0xFFFF}

func genCrashCase(r *rng.R, spec string) crashCase {
	c := crashCase{spec: spec, model: []string{"6502", "65C02"}[r.Intn(2)]}
	// one case in eight does not run a program but hands bytes to the loader paths: a PreLoad image of the
	// configuration, or CopyAndRun, placed so that it may not fit (end of a small memory, $FFFF wrap)
	if r.Chance(12) {
		at := []uint16{0x3FFE, 0x7FFD, 0xBFFF, 0xFFFE, 0x0000, 0x9EFE, 0x00F0}[r.Intn(7)]
		n := 1 + r.Intn(8)
		c.code = make([]uint8, n)
		c.model = fmt.Sprintf("%s:%04x", []string{"preload", "copyrun", "trapcopy", "traprun"}[r.Intn(4)], at)
		if r.Chance(30) {
			// a program FILE of 0..4 bytes (or more) handed to Load / LoadAndRun
			c.code = make([]uint8, r.Intn(5))
			c.model = "loadfile:0000"
		}
		return c
	}
	p := []uint8{}
	n := 1 + r.Intn(6)
	for i := 0; i < n; i++ {
		a := rng.PickU16(r, crashAddrs)
		if r.Chance(20) {
			a = r.Word()
		}
		v := r.BByte()
		switch r.Intn(12) {
		case 0:
			p = append(p, 0xAD, lo(a), hi(a)) // LDA abs
		case 1:
			p = append(p, 0xA9, v, 0x8D, lo(a), hi(a)) // STA abs
		case 2:
			p = append(p, 0xEE, lo(a), hi(a)) // INC abs
		case 3:
			p = append(p, 0xA2, v, 0xBD, lo(a), hi(a)) // LDA abs,X
		case 4:
			p = append(p, 0xA0, v, 0x99, lo(a), hi(a)) // STA abs,Y
		case 5:
			p = append(p, 0xA9, lo(a), 0x85, 0x40, 0xA9, hi(a), 0x85, 0x41, 0xA0, v, 0xB1, 0x40) // LDA (zp),Y
		case 6:
			p = append(p, 0xA9, lo(a), 0x85, 0x40, 0xA9, hi(a), 0x85, 0x41, 0xA0, v, 0xA9, v, 0x91, 0x40) // STA (zp),Y
		case 7:
			p = append(p, 0xA2, v, 0x9A, 0x48, 0x08, 0x68) // TXS PHA PHP PLA
		case 8:
			p = append(p, 0xA5, lo(a)) // LDA zp
		case 9:
			p = append(p, 0xA9, v, 0x85, lo(a)) // STA zp
		case 10:
			p = append(p, 0x4C, lo(a), hi(a)) // JMP abs (often into nowhere)
		case 11:
			p = append(p, r.Byte()) // any byte as an opcode
		}
	}
	p = append(p, 0x00)
	c.code = p
	return c
}

// runCrashCase executes one case in THIS process and returns its result word
func runCrashCase(c crashCase) string {
	cfg := emuconfig.DefaultConfig()
	cfg.MemSpec = c.spec
	if strings.HasPrefix(c.model, "loadfile:") {
		res := "halt"
		if protect(func() {
			f, err := os.CreateTemp("", "verif-loadfile")
			if err != nil {
				panic(err)
			}
			f.Write(c.code)
			f.Close()
			defer os.Remove(f.Name())
			p, err := cfg.NewCpu()
			if err != nil {
				res = "builderr"
				return
			}
			if _, _, err := p.LoadAndRun(f.Name()); err != nil {
				res = "error"
			}
		}) {
			res = "hostcrash"
		}
		return res
	}
	if strings.HasPrefix(c.model, "trapcopy:") || strings.HasPrefix(c.model, "traprun:") {
		// a trap address INSIDE the image that is loaded: the loader's store to it happens before (verify) or after
		// (run/profile) a trap function is installed — either way the host must survive
		var at uint16
		fmt.Sscanf(c.model[strings.Index(c.model, ":")+1:], "%04x", &at)
		res := "halt"
		if protect(func() {
			p, err := cfg.NewCpu()
			if err != nil {
				res = "builderr"
				return
			}
			if strings.HasPrefix(c.model, "trapcopy:") {
				ph := memory.NewPlaceholderWrapper(p.Mem, at+1)
				p.Mem = ph.Wrapper
				if err := p.CopyAndRun(c.code, at); err != nil {
					res = "error"
				}
				return
			}
			dir, err := os.MkdirTemp("", "verif-traprun")
			if err != nil {
				panic(err)
			}
			defer os.RemoveAll(dir)
			bin := writeFile(dir, "p.bin", append([]byte{uint8(at), uint8(at >> 8)}, c.code...))
			script := writeFile(dir, "t.lua", []byte("function trap(c) end\n"))
			ta := uint(at + 1)
			var e error
			if _, panicked := captureStdout(func() { _, _, e = commands.LoadAndRunBinary(p, &bin, &ta, &script, true) }); panicked {
				panic("panic in LoadAndRunBinary")
			}
			if e != nil {
				res = "error"
			}
		}) {
			res = "hostcrash"
		}
		return res
	}
	if strings.HasPrefix(c.model, "preload:") || strings.HasPrefix(c.model, "copyrun:") {
		var at uint16
		fmt.Sscanf(c.model[8:], "%04x", &at)
		res := "halt"
		if protect(func() {
			if strings.HasPrefix(c.model, "preload:") {
				f, err := os.CreateTemp("", "verif-preload")
				if err != nil {
					panic(err)
				}
				f.Write(c.code)
				f.Close()
				defer os.Remove(f.Name())
				cfg.PreLoad = map[uint16]string{at: f.Name()}
				if _, err := cfg.NewCpu(); err != nil {
					res = "error"
				}
			} else {
				p, err := cfg.NewCpu()
				if err != nil {
					res = "builderr"
					return
				}
				if err := p.CopyAndRun(c.code, at); err != nil {
					res = "error"
				}
			}
		}) {
			res = "hostcrash"
		}
		return res
	}
	cfg.Model = c.model
	if len(c.code)%3 == 0 {
		// a third of the programs on a machine with the coprocessor units enabled (registers at $DE00..)
		cfg.F256MCoprocFlags = []uint8{1, 4, 5}[len(c.code)%9/3]
		cfg.F256MCoprocBase = 0xDE00
	}
	p, err := cfg.NewCpu()
	if err != nil {
		return "builderr"
	}
	res := "halt"
	if protect(func() {
		// the program sits at $0400 (plain RAM on every machine); the run is bounded by wall-clock time in the parent
		for i, b := range c.code {
			p.Mem.Store(0x0400+uint16(i), b)
		}
		done := make(chan error, 1)
		go func() {
			defer func() {
				if r := recover(); r != nil {
					done <- fmt.Errorf("panic %v", r)
				}
			}()
			done <- p.RunExt(0x0400, true)
		}()
		select {
		case e := <-done:
			if e != nil {
				res = "error"
				if strings.HasPrefix(e.Error(), "panic ") {
					res = "hostcrash"
				}
			}
		case <-time.After(2 * time.Second):
			res = "running" // an endless loop of the simulated program is not a host crash
		}
	}) {
		res = "hostcrash"
	}
	return res
}

func parseCrashCase(line string) (crashCase, bool) {
	f := strings.Fields(line)
	if len(f) != 3 {
		return crashCase{}, false
	}
	code := []uint8{}
	if f[2] == "-" {
		f[2] = ""
	}
	for i := 0; i+1 < len(f[2]); i += 2 {
		var b uint8
		fmt.Sscanf(f[2][i:i+2], "%02x", &b)
		code = append(code, b)
	}
	return crashCase{spec: f[0], model: f[1], code: code}, true
}

// crashChild: `corr crashchild <file>` runs the cases of the file, one result word per line on stdout
func crashChild(file string) {
	debug.SetMaxStack(32 << 20) // an unbounded recursion dies at once instead of eating a gigabyte first
	data, err := os.ReadFile(file)
	if err != nil {
		os.Exit(3)
	}
	w := bufio.NewWriter(os.Stdout)
	for _, line := range strings.Split(strings.TrimSpace(string(data)), "\n") {
		c, ok := parseCrashCase(line)
		if !ok {
			continue
		}
		fmt.Fprintln(w, runCrashCase(c))
		w.Flush()
	}
}

func runChild(dir string, cases []crashCase) ([]string, bool) {
	file := writeFile(dir, "crash_batch.txt", []byte(strings.Join(func() []string {
		s := []string{}
		for _, c := range cases {
			s = append(s, c.String())
		}
		return s
	}(), "\n")+"\n"))
	cmd := exec.Command(os.Args[0], "crashchild", file)
	cmd.Env = append(os.Environ(), "GOMEMLIMIT=1GiB")
	outb, err := cmd.Output()
	lines := strings.Fields(string(outb))
	return lines, err == nil && len(lines) == len(cases)
}

func hostCrashStream(seed uint64, n int) {
	r := rng.New(seed + 1111)
	dir := tmpDir()
	defer os.RemoveAll(dir)
	for _, spec := range memSpecs {
		cases := []crashCase{}
		for i := 0; i < n; i++ {
			cases = append(cases, genCrashCase(r, spec))
		}
		res, ok := runChild(dir, cases)
		if !ok {
			// the child died: find out on which case(s), one child per case from the first unanswered one on
			if len(res) > len(cases) {
				res = res[:len(cases)]
			}
			for i := len(res); i < len(cases); i++ {
				one, ok1 := runChild(dir, cases[i:i+1])
				if ok1 {
					res = append(res, one[0])
				} else {
					res = append(res, "died")
				}
			}
		}
		for i, c := range cases {
			count("hostcrash." + spec + "." + res[i])
			emit(fmt.Sprintf("crash %s => %s", c.String(), res[i]))
		}
	}
}
