package main

import (
	"6502profiler/commands"
	"6502profiler/emuconfig"
	"6502profiler/memory"
	"bufio"
	"fmt"
	"os"
	"os/exec"
	"runtime/debug"
	"strings"
	"time"
	"verifharness/internal/rng"
)

// ---------------------------------------------------------------------------------------
// C11: no program can crash the host — on the real memory models
//
// Small generated programs run through cpu.RunExt on every MemSpec machine built by emuconfig.  A Go `panic` is
// recovered by RunExt, but a fatal runtime error (unbounded recursion, concurrent map write, ...) kills the
// process and cannot be recovered; so the cases run in CHILD processes of this binary, in batches, and when a
// child dies the batch is re-run case by case to name the program that killed it.

type crashCase struct {
	spec  string
	model string
	code  []uint8
}

func (c crashCase) String() string {
	h := hexOf(c.code)
	if h == "" {
		h = "-"
	}
	return fmt.Sprintf("%s %s %s", c.spec, c.model, h)
}

var crashAddrs = []uint16{0x0000, 0x0001, 0x0002, 0x0007, 0x0008, 0x000F, 0x0010, 0x00FF, 0x0100, 0x01FF, 0x3FFF, 0x4000, 0x7FFF, 0x8000,
	0x9EFF, 0x9F00, 0x9FFF, 0xA000, 0xBFFF, 0xC000, 0xDDFF, 0xDE00, 0xDEFF, 0xDF00, 0xDFFE, 0xDFFF, 0xE000, 0xFFFE, 0xFFFF}

func genCrashCase(r *rng.R, spec string) crashCase {
	c := crashCase{spec: spec, model: []string{"6502", "65C02"}[r.Intn(2)]}
	// one case in eight does not run a program but hands bytes to the loader paths: a PreLoad image of the
	// configuration, or CopyAndRun, placed so that it may not fit (end of a small memory, $FFFF wrap)
	if r.Chance(12) {
		at := []uint16{0x3FFE, 0x7FFD, 0xBFFF, 0xFFFE, 0x0000, 0x9EFE, 0x00F0}[r.Intn(7)]
		n := 1 + r.Intn(8)
		c.code = make([]uint8, n)
		c.model = fmt.Sprintf("%s:%04x", []string{"preload", "copyrun", "trapcopy", "traprun"}[r.Intn(4)], at)
		if r.Chance(30) {
			// a program FILE of 0..4 bytes (or more) handed to Load / LoadAndRun
			c.code = make([]uint8, r.Intn(5))
			c.model = "loadfile:0000"
		}
		return c
	}
	p := []uint8{}
	n := 1 + r.Intn(6)
	for i := 0; i < n; i++ {
		a := rng.PickU16(r, crashAddrs)
		if r.Chance(20) {
			a = r.Word()
		}
		v := r.BByte()
		switch r.Intn(12) {
		case 0:
			p = append(p, 0xAD, lo(a), hi(a)) // LDA abs
		case 1:
			p = append(p, 0xA9, v, 0x8D, lo(a), hi(a)) // STA abs
		case 2:
			p = append(p, 0xEE, lo(a), hi(a)) // INC abs
		case 3:
			p = append(p, 0xA2, v, 0xBD, lo(a), hi(a)) // LDA abs,X
		case 4:
			p = append(p, 0xA0, v, 0x99, lo(a), hi(a)) // STA abs,Y
		case 5:
			p = append(p, 0xA9, lo(a), 0x85, 0x40, 0xA9, hi(a), 0x85, 0x41, 0xA0, v, 0xB1, 0x40) // LDA (zp),Y
		case 6:
			p = append(p, 0xA9, lo(a), 0x85, 0x40, 0xA9, hi(a), 0x85, 0x41, 0xA0, v, 0xA9, v, 0x91, 0x40) // STA (zp),Y
		case 7:
			p = append(p, 0xA2, v, 0x9A, 0x48, 0x08, 0x68) // TXS PHA PHP PLA
		case 8:
			p = append(p, 0xA5, lo(a)) // LDA zp
		case 9:
			p = append(p, 0xA9, v, 0x85, lo(a)) // STA zp
		case 10:
			p = append(p, 0x4C, lo(a), hi(a)) // JMP abs (often into nowhere)
		case 11:
			p = append(p, r.Byte()) // any byte as an opcode
		}
	}
	p = append(p, 0x00)
	c.code = p
	return c
}

// ---------------------------------------------------------------------------------------
// Judged stops.  The cases above only ask whether the host survives.  The cases below are terminating programs that
// stay inside the documented behaviour of their machine, so the specification's own run of the same program (Lean
// driver: Spec.step over the documented memory map) says how the run must end, and the result names the complete
// final state: `kind@pc:sp:a:x:y:p:prev:mem` (prev = the byte in front of the final PC, mem = program bytes and the
// four topmost stack bytes after the run).  Mode word `spec-<cpu>:<addr>`: the program is stored at <addr> and started
// with RunExt; `lar-<cpu>:<addr>`: it is written to a program FILE with load address <addr> and handed to
// CPU6502.LoadAndRun (the entry point of the -prexec set-up program).
//   * self-modifying programs that overwrite an instruction they have ALREADY EXECUTED (in the loop, in a subroutine,
//     by STA abs / abs,Y / (zp),Y) with an unimplemented opcode and run into it again: the run must end with an error,
//     PC at that opcode, registers and memory as before it;
//   * on the banked machines the same with a bank switch under the program counter: a valid routine is executed in the
//     window, another bank / block / LUT entry / I/O bank holding an unimplemented opcode at the same address is
//     selected and the window is entered again;
//   * straight-line programs that end in an unimplemented opcode (RTI, STP, WAI, undocumented, 65C02-only on a 6502),
//     a memory fault (past the end of a small memory, a RAM bank the machine does not have), invalid BCD, or a BRK.

var stopIllegalBoth = []uint8{0x40, 0xDB, 0xCB, 0x02, 0x03, 0x13, 0x0B, 0x1B, 0x2B}
var stopIllegalNmos = []uint8{0x80, 0x1A, 0x3A, 0xDA, 0x5A, 0x64, 0x9C, 0x04, 0x12, 0x89, 0x7C, 0xB2}

func stopIllegal(r *rng.R, cpuModel string) uint8 {
	if cpuModel == "6502" && r.Bool() {
		return rng.PickU8(r, stopIllegalNmos)
	}
	return rng.PickU8(r, stopIllegalBoth)
}

// storeTo appends `LDA #v` and a store of A to a in one of three forms (X and the zero page pointer $40/$41 are free)
func storeTo(r *rng.R, p []uint8, v uint8, a uint16, form int) []uint8 {
	switch form % 3 {
	case 1:
		d := uint8(r.Intn(int(lo(a)) + 1))
		return append(p, 0xA0, d, 0xA9, v, 0x99, lo(a-uint16(d)), hi(a-uint16(d))) // LDY #d; LDA #v; STA abs,Y
	case 2:
		return append(p, 0xA9, lo(a), 0x85, 0x40, 0xA9, hi(a), 0x85, 0x41, 0xA0, 0x00, 0xA9, v, 0x91, 0x40) // pointer; STA (zp),Y
	}
	return append(p, 0xA9, v, 0x8D, lo(a), hi(a)) // LDA #v; STA abs
}

func genStopCase(r *rng.R, spec string, idx int) crashCase {
	cpuModel := []string{"6502", "65C02"}[r.Intn(2)]
	mode := []string{"spec", "lar"}[idx%2]
	limit := machLimit(spec)
	at := []uint16{0x0400, 0x0800, 0x2000, 0x3E00, uint16(limit - 0x80)}[r.Intn(5)]
	ill := stopIllegal(r, cpuModel)
	one := []uint8{0xEA, 0xC8, 0x18, 0x38, 0xB8, 0x88, 0x98, 0xA8}[r.Intn(8)] // NOP INY CLC SEC CLV DEY TYA TAY
	p := []uint8{}
	kind := idx % 8 / 2 // 0: loop, 1: subroutine, 2: bank switch (banked machines) / loop, 3: straight line
	if idx < 2 {
		kind, at = 0, 0x0800
	}
	banked := limit == 0x9F00
	switch {
	case kind == 0 || (kind == 2 && !banked):
		// at: V ; INX ; CPX #2 ; BEQ done ; <overwrite V's opcode> ; JMP at ; done: BRK
		form := r.Intn(3)
		if idx < 2 {
			form = 0
		}
		st := storeTo(r, nil, ill, at, form)
		p = append(p, one, 0xE8, 0xE0, 0x02, 0xF0, uint8(len(st)+3))
		p = append(p, st...)
		p = append(p, 0x4C, lo(at), hi(at), 0x00)
	case kind == 1:
		// JSR sub ; <overwrite the instruction in sub> ; JSR sub ; BRK ; sub: V ; RTS
		form := r.Intn(3)
		sub := at + uint16(3+[]int{5, 7, 14}[form]+3+1)
		p = append(p, 0x20, lo(sub), hi(sub))
		p = storeTo(r, p, ill, sub, form)
		p = append(p, 0x20, lo(sub), hi(sub), 0x00, one, 0x60)
	case kind == 2:
		// a valid routine in one bank, an unimplemented opcode at the same window address in another one
		var sel func(b int)
		var w uint16
		var nb int
		sta := func(v uint8, a uint16) { p = append(p, 0xA9, v, 0x8D, lo(a), hi(a)) }
		switch {
		case strings.HasPrefix(spec, "XSixteen"):
			nb = 64
			if spec == "XSixteen2048K" {
				nb = 256
			}
			sel = func(b int) { sta(uint8(b), 0x0000) }
			w = uint16(0xA000 + r.Intn(0x1FF0))
		case strings.HasPrefix(spec, "GeoRam"):
			nb = 32
			if spec == "GeoRam_2048K" {
				nb = 128
			}
			sel = func(b int) { sta(uint8(b), 0xDFFF) }
			sta(uint8(r.Intn(64)), 0xDFFE)
			w = uint16(0xDE00 + r.Intn(0xF0))
		default: // F256
			if r.Bool() {
				nb = 56 // slot 5 of the active LUT 0 through the edit window; physical banks 8.. (not the ones the program lives in)
				sta(0x80, 0x0000)
				sel = func(b int) { sta(uint8(8+b), 0x000D) }
				w = uint16(0xA000 + r.Intn(0x1FF0))
			} else {
				nb = 4
				sel = func(b int) { sta(uint8(b), 0x0001) }
				w = uint16(0xC000 + r.Intn(0x1FF0))
			}
		}
		b0 := r.Intn(nb)
		b1 := (b0 + 1 + r.Intn(nb-1)) % nb
		k := uint16(r.Intn(2)) // the routine: [V] RTS resp. [V] <unimplemented>
		sel(b0)
		if k == 1 {
			sta(one, w)
		}
		sta(0x60, w+k)
		sel(b1)
		if k == 1 {
			sta(one, w)
		}
		sta(ill, w+k)
		sel(b0)
		p = append(p, 0x20, lo(w), hi(w))
		sel(b1)
		p = append(p, 0x20, lo(w), hi(w), 0x00)
	default:
		// straight line: a few harmless instructions, then the way the program stops
		for i := r.Intn(4); i > 0; i-- {
			switch r.Intn(4) {
			case 0:
				p = append(p, 0xA2, 1+uint8(r.Intn(255))) // LDX #
			case 1:
				p = append(p, one)
			case 2:
				p = append(p, 0xA9, 1+uint8(r.Intn(255)), 0x85, uint8(0x20+r.Intn(0xC0))) // LDA # ; STA zp
			case 3:
				p = append(p, 0x48, 0x68) // PHA PLA
			}
		}
		switch r.Intn(6) {
		case 0, 1:
			p = append(p, ill, 0x00)
		case 2:
			// memory fault where the machine has one: past the end of a small memory, a RAM bank that does not exist
			switch {
			case limit < 0x10000 && !banked:
				a := uint16(limit + r.Intn(0x10000-limit))
				p = append(p, []uint8{0xAD, 0x8D, 0xEE}[r.Intn(3)], lo(a), hi(a), 0x00)
			case spec == "XSixteen512K":
				p = append(p, 0xA9, uint8(64+r.Intn(192)), 0x85, 0x00, 0xAD, 0x00, 0xA0, 0x00)
			default:
				p = append(p, ill, 0x00)
			}
		case 3:
			p = append(p, 0xF8, 0xA9, 0x0F, 0x69, 0x01, 0x00) // SED ; LDA #$0F ; ADC #$01: invalid BCD
		case 4:
			p = append(p, 0xF8, 0x38, 0xA9, 0x1B, 0xE9, 0x01, 0x00) // SED ; SEC ; LDA #$1B ; SBC #$01
		case 5:
			p = append(p, 0x00)
		}
	}
	return crashCase{spec: spec, model: fmt.Sprintf("%s-%s:%04x", mode, cpuModel, at), code: p}
}

// ---------------------------------------------------------------------------------------
// Judged stops, second family: where a run must NOT halt.  Property C11 says a run that stops halts AT A BRK or
// returns an error.  The programs below contain instructions that a "helpful" implementation might treat as the end of
// the program although they are not a BRK; the specification's own run either never reaches a BRK (an endless loop:
// the machine must run until the harness's bus watchdog ends the run with an error, result kind `watchdog`) or reaches
// it only later, somewhere else:
//   0  JMP abs whose target is its own address (the classic "done" idiom), first thing in the program or after a prefix
//   1  JMP over unimplemented opcodes to a later BRK
//   2  a taken conditional branch / BRA to itself
//   3  RTS executed with SP = $FF / $FE / $00 / $01 / anything: the stack pointer wraps inside page one, the return
//      address comes from $0100/$0101 ($01FF/$0100, ...), execution continues there
//   4  RTS as the very first instruction, nothing planted: the return address is whatever $0100/$0101 hold
//   5  PLA / PLP / PLX / PLY with SP = $FF (reads $0100), the program goes on afterwards
//   6  a balanced JSR/RTS pair followed by an RTS at SP = $FF
//   7  loops that are not a JMP to itself: JMP (ind) through a pointer to itself, two JMPs to each other, a JMP to
//      itself that is reached by a jump
// Every case ends in one of: BRK, [V] BRK, an unimplemented opcode, or an endless loop.

type wdMem struct {
	memory.Memory
	left int
}

const wdMessage = "bus watchdog expired"

func (w *wdMem) tick() {
	w.left--
	if w.left < 0 {
		panic(wdMessage)
	}
}

func (w *wdMem) Load(address uint16) uint8 {
	w.tick()
	return w.Memory.Load(address)
}

func (w *wdMem) Store(address uint16, b uint8) {
	w.tick()
	w.Memory.Store(address, b)
}

const wdBudget = 60000

func genFlowCase(r *rng.R, spec string, idx int) crashCase {
	cpuModel := []string{"6502", "65C02"}[r.Intn(2)]
	mode := []string{"spec", "lar"}[(idx/8)%2]
	limit := machLimit(spec)
	at := []uint16{0x0400, 0x0800, 0x2000, 0x3E00, uint16(limit - 0x80)}[r.Intn(5)]
	ill := stopIllegal(r, cpuModel)
	one := []uint8{0xEA, 0xC8, 0x18, 0x38, 0xB8, 0x88, 0x98, 0xA8}[r.Intn(8)] // NOP INY CLC SEC CLV DEY TYA TAY
	kind := idx % 8
	first := idx < 8 // the first round: the barest form of each kind
	p := []uint8{}
	here := func() uint16 { return at + uint16(len(p)) }
	pre := func() {
		if first {
			return
		}
		for i := r.Intn(3); i > 0; i-- {
			switch r.Intn(3) {
			case 0:
				p = append(p, 0xA9, 1+uint8(r.Intn(255))) // LDA #
			case 1:
				p = append(p, one)
			case 2:
				p = append(p, 0xA0, r.BByte()) // LDY #
			}
		}
	}
	// the way the program ends once it has come through
	end := func() {
		switch r.Intn(5) {
		case 0, 1:
			p = append(p, 0x00)
		case 2:
			p = append(p, one, 0x00)
		case 3:
			p = append(p, ill, 0x00)
		case 4:
			h := here()
			p = append(p, 0x4C, lo(h), hi(h), 0x00)
		}
	}
	sta := func(v uint8, a uint16) { p = append(p, 0xA9, v, 0x8D, lo(a), hi(a)) }
	// plant the return address target-1 where an RTS executed with stack pointer sp finds it; returns the two
	// positions in p to be patched once the target is known
	plant := func(sp uint8) (int, int) {
		i := len(p)
		sta(0, 0x0100+uint16(sp+1))
		sta(0, 0x0100+uint16(sp+2))
		return i + 1, i + 6
	}
	patch := func(iLo, iHi int, target uint16) {
		p[iLo], p[iHi] = lo(target-1), hi(target-1)
	}
	switch kind {
	case 0:
		pre()
		h := here()
		p = append(p, 0x4C, lo(h), hi(h), 0x00)
	case 1:
		pre()
		gap := 1 + r.Intn(3)
		t := here() + 3 + uint16(gap)
		p = append(p, 0x4C, lo(t), hi(t))
		for i := 0; i < gap; i++ {
			p = append(p, ill)
		}
		if r.Bool() {
			p = append(p, one)
		}
		p = append(p, 0x00)
	case 2:
		pre()
		type br struct {
			op  uint8
			set []uint8
		}
		brs := []br{{0xD0, []uint8{0xA9, 0x01}}, {0xF0, []uint8{0xA9, 0x00}}, {0x90, []uint8{0x18}}, {0xB0, []uint8{0x38}},
			{0x10, []uint8{0xA9, 0x01}}, {0x30, []uint8{0xA9, 0x80}}, {0x50, []uint8{0xB8}},
			{0x70, []uint8{0x18, 0xA9, 0x7F, 0x69, 0x01}}, {0x80, nil}}
		b := brs[r.Intn(len(brs))]
		if first {
			b = brs[0]
		}
		p = append(p, b.set...)
		p = append(p, b.op, 0xFE, 0x00)
	case 3, 6:
		sp := []uint8{0xFF, 0xFF, 0xFE, 0x00, 0x01, 0xFD, r.Byte()}[r.Intn(7)]
		if first || kind == 6 {
			sp = 0xFF
		}
		iLo, iHi := plant(sp)
		if kind == 6 {
			// JSR sub ; RTS ; <unimplemented> ; sub: V ; RTS
			sub := here() + 5
			p = append(p, 0x20, lo(sub), hi(sub), 0x60, ill, one, 0x60)
		} else {
			if sp != 0xFF || (!first && r.Bool()) {
				p = append(p, 0xA2, sp, 0x9A) // LDX #sp ; TXS
			}
			pre()
			p = append(p, 0x60, ill)
		}
		patch(iLo, iHi, here())
		end()
	case 4:
		// nothing planted: on a fresh machine $0100/$0101 hold what the machine starts with
		if !first && r.Bool() {
			p = append(p, one)
		}
		if !first && r.Chance(30) {
			p = append(p, 0x48, 0x68) // PHA PLA: the stack has been used, the stack pointer is $FF again
		}
		p = append(p, 0x60, ill, 0x00)
	case 5:
		pull := []uint8{0x68, 0x28, 0xFA, 0x7A}[r.Intn(4)]
		if first {
			pull = 0x68
		}
		if !first && r.Bool() {
			sta(r.BByte()&^0x08, 0x0100) // (decimal mode stays off)
		}
		pre()
		p = append(p, pull)
		end()
	case 7:
		switch r.Intn(3) {
		case 0:
			// pointer at $40/$41 to the JMP (ind) itself
			j := here() + 8
			p = append(p, 0xA9, lo(j), 0x85, 0x40, 0xA9, hi(j), 0x85, 0x41, 0x6C, 0x40, 0x00, 0x00)
		case 1:
			a := here()
			b := a + 3 + uint16(r.Intn(2))
			p = append(p, 0x4C, lo(b), hi(b))
			for here() < b {
				p = append(p, ill)
			}
			p = append(p, 0x4C, lo(a), hi(a), 0x00)
		case 2:
			pre()
			t := here() + 4
			p = append(p, 0x4C, lo(t), hi(t), ill, 0x4C, lo(t), hi(t), 0x00)
		}
	}
	return crashCase{spec: spec, model: fmt.Sprintf("%s-%s:%04x", mode, cpuModel, at), code: p}
}

// runStopCase executes a judged case in THIS process and returns `kind@final state`
func runStopCase(c crashCase) string {
	cfg := emuconfig.DefaultConfig()
	cfg.MemSpec = c.spec
	dash, colon := strings.Index(c.model, "-"), strings.Index(c.model, ":")
	cfg.Model = c.model[dash+1 : colon]
	var at uint16
	fmt.Sscanf(c.model[colon+1:], "%04x", &at)
	p, err := cfg.NewCpu()
	if err != nil {
		return "builderr"
	}
	// every bus access of the run goes through a watchdog: an endless loop of the simulated program ends with the
	// watchdog's panic, which RunExt reports as an error (result kind `watchdog`)
	wd := &wdMem{Memory: p.Mem, left: 1 << 30}
	p.Mem = wd
	res := "halt"
	state := ""
	if protect(func() {
		wd.left = wdBudget
		done := make(chan error, 1)
		go func() {
			defer func() {
				if r := recover(); r != nil {
					done <- fmt.Errorf("panic %v", r)
				}
			}()
			if strings.HasPrefix(c.model, "lar-") {
				f, err := os.CreateTemp("", "verif-lar")
				if err != nil {
					panic(err)
				}
				f.Write(append([]byte{lo(at), hi(at)}, c.code...))
				f.Close()
				defer os.Remove(f.Name())
				_, _, e := p.LoadAndRun(f.Name())
				done <- e
				return
			}
			for i, b := range c.code {
				p.Mem.Store(at+uint16(i), b)
			}
			done <- p.RunExt(at, true)
		}()
		select {
		case e := <-done:
			if e != nil {
				res = "error"
				if strings.HasPrefix(e.Error(), "panic ") {
					res = "hostcrash"
					return
				}
				if strings.Contains(e.Error(), wdMessage) {
					res = "watchdog"
				}
			}
		case <-time.After(2 * time.Second):
			res = "running"
			return
		}
		wd.left = 1 << 30
		peek := func(a uint16) string {
			v := "!!"
			protect(func() { v = fmt.Sprintf("%02x", p.Mem.Load(a)) })
			return v
		}
		var sb strings.Builder
		for i := range c.code {
			sb.WriteString(peek(at + uint16(i)))
		}
		for a := uint16(0x01FC); a <= 0x01FF; a++ {
			sb.WriteString(peek(a))
		}
		state = fmt.Sprintf("@%04x:%02x:%02x:%02x:%02x:%02x:%s:%s", p.PC, p.SP, p.A, p.X, p.Y, p.Flags, peek(p.PC-1), sb.String())
	}) {
		return "hostcrash"
	}
	return res + state
}

// runCrashCase executes one case in THIS process and returns its result word
func runCrashCase(c crashCase) string {
	if strings.HasPrefix(c.model, "spec-") || strings.HasPrefix(c.model, "lar-") {
		return runStopCase(c)
	}
	cfg := emuconfig.DefaultConfig()
	cfg.MemSpec = c.spec
	if strings.HasPrefix(c.model, "loadfile:") {
		res := "halt"
		if protect(func() {
			f, err := os.CreateTemp("", "verif-loadfile")
			if err != nil {
				panic(err)
			}
			f.Write(c.code)
			f.Close()
			defer os.Remove(f.Name())
			p, err := cfg.NewCpu()
			if err != nil {
				res = "builderr"
				return
			}
			if _, _, err := p.LoadAndRun(f.Name()); err != nil {
				res = "error"
			}
		}) {
			res = "hostcrash"
		}
		return res
	}
	if strings.HasPrefix(c.model, "trapcopy:") || strings.HasPrefix(c.model, "traprun:") {
		// a trap address INSIDE the image that is loaded: the loader's store to it happens before (verify) or after
		// (run/profile) a trap function is installed — either way the host must survive
		var at uint16
		fmt.Sscanf(c.model[strings.Index(c.model, ":")+1:], "%04x", &at)
		res := "halt"
		if protect(func() {
			p, err := cfg.NewCpu()
			if err != nil {
				res = "builderr"
				return
			}
			if strings.HasPrefix(c.model, "trapcopy:") {
				ph := memory.NewPlaceholderWrapper(p.Mem, at+1)
				p.Mem = ph.Wrapper
				if err := p.CopyAndRun(c.code, at); err != nil {
					res = "error"
				}
				return
			}
			dir, err := os.MkdirTemp("", "verif-traprun")
			if err != nil {
				panic(err)
			}
			defer os.RemoveAll(dir)
			bin := writeFile(dir, "p.bin", append([]byte{uint8(at), uint8(at >> 8)}, c.code...))
			script := writeFile(dir, "t.lua", []byte("function trap(c) end\n"))
			ta := uint(at + 1)
			var e error
			if _, panicked := captureStdout(func() { _, _, e = commands.LoadAndRunBinary(p, &bin, &ta, &script, true) }); panicked {
				panic("panic in LoadAndRunBinary")
			}
			if e != nil {
				res = "error"
			}
		}) {
			res = "hostcrash"
		}
		return res
	}
	if strings.HasPrefix(c.model, "preload:") || strings.HasPrefix(c.model, "copyrun:") {
		var at uint16
		fmt.Sscanf(c.model[8:], "%04x", &at)
		res := "halt"
		if protect(func() {
			if strings.HasPrefix(c.model, "preload:") {
				f, err := os.CreateTemp("", "verif-preload")
				if err != nil {
					panic(err)
				}
				f.Write(c.code)
				f.Close()
				defer os.Remove(f.Name())
				cfg.PreLoad = map[uint16]string{at: f.Name()}
				if _, err := cfg.NewCpu(); err != nil {
					res = "error"
				}
			} else {
				p, err := cfg.NewCpu()
				if err != nil {
					res = "builderr"
					return
				}
				if err := p.CopyAndRun(c.code, at); err != nil {
					res = "error"
				}
			}
		}) {
			res = "hostcrash"
		}
		return res
	}
	cfg.Model = c.model
	if len(c.code)%3 == 0 {
		// a third of the programs on a machine with the coprocessor units enabled (registers at $DE00..)
		cfg.F256MCoprocFlags = []uint8{1, 4, 5}[len(c.code)%9/3]
		cfg.F256MCoprocBase = 0xDE00
	}
	p, err := cfg.NewCpu()
	if err != nil {
		return "builderr"
	}
	res := "halt"
	if protect(func() {
		// the program sits at $0400 (plain RAM on every machine); the run is bounded by wall-clock time in the parent
		for i, b := range c.code {
			p.Mem.Store(0x0400+uint16(i), b)
		}
		done := make(chan error, 1)
		go func() {
			defer func() {
				if r := recover(); r != nil {
					done <- fmt.Errorf("panic %v", r)
				}
			}()
			done <- p.RunExt(0x0400, true)
		}()
		select {
		case e := <-done:
			if e != nil {
				res = "error"
				if strings.HasPrefix(e.Error(), "panic ") {
					res = "hostcrash"
				}
			}
		case <-time.After(2 * time.Second):
			res = "running" // an endless loop of the simulated program is not a host crash
		}
	}) {
		res = "hostcrash"
	}
	return res
}

func parseCrashCase(line string) (crashCase, bool) {
	f := strings.Fields(line)
	if len(f) != 3 {
		return crashCase{}, false
	}
	code := []uint8{}
	if f[2] == "-" {
		f[2] = ""
	}
	for i := 0; i+1 < len(f[2]); i += 2 {
		var b uint8
		fmt.Sscanf(f[2][i:i+2], "%02x", &b)
		code = append(code, b)
	}
	return crashCase{spec: f[0], model: f[1], code: code}, true
}

// crashChild: `corr crashchild <file>` runs the cases of the file, one result word per line on stdout
func crashChild(file string) {
	debug.SetMaxStack(32 << 20) // an unbounded recursion dies at once instead of eating a gigabyte first
	data, err := os.ReadFile(file)
	if err != nil {
		os.Exit(3)
	}
	w := bufio.NewWriter(os.Stdout)
	for _, line := range strings.Split(strings.TrimSpace(string(data)), "\n") {
		c, ok := parseCrashCase(line)
		if !ok {
			continue
		}
		fmt.Fprintln(w, runCrashCase(c))
		w.Flush()
	}
}

func runChild(dir string, cases []crashCase) ([]string, bool) {
	file := writeFile(dir, "crash_batch.txt", []byte(strings.Join(func() []string {
		s := []string{}
		for _, c := range cases {
			s = append(s, c.String())
		}
		return s
	}(), "\n")+"\n"))
	cmd := exec.Command(os.Args[0], "crashchild", file)
	cmd.Env = append(os.Environ(), "GOMEMLIMIT=1GiB")
	outb, err := cmd.Output()
	lines := strings.Fields(string(outb))
	return lines, err == nil && len(lines) == len(cases)
}

func hostCrashStream(seed uint64, n int) {
	r := rng.New(seed + 1111)
	rs := rng.New(seed + 111111) // the judged stops draw from their own generator: the cases above stay what they were
	rf := rng.New(seed + 11111111) // and so does their second family
	dir := tmpDir()
	defer os.RemoveAll(dir)
	for _, spec := range memSpecs {
		cases := []crashCase{}
		for i := 0; i < n; i++ {
			cases = append(cases, genCrashCase(r, spec))
		}
		for i := 0; i < 8+n/10; i++ {
			cases = append(cases, genStopCase(rs, spec, i))
		}
		for i := 0; i < 16+n/15; i++ {
			cases = append(cases, genFlowCase(rf, spec, i))
		}
		res, ok := runChild(dir, cases)
		if !ok {
			// the child died: find out on which case(s), one child per case from the first unanswered one on
			if len(res) > len(cases) {
				res = res[:len(cases)]
			}
			for i := len(res); i < len(cases); i++ {
				one, ok1 := runChild(dir, cases[i:i+1])
				if ok1 {
					res = append(res, one[0])
				} else {
					res = append(res, "died")
				}
			}
		}
		for i, c := range cases {
			count("hostcrash." + spec + "." + strings.SplitN(res[i], "@", 2)[0])
			emit(fmt.Sprintf("crash %s => %s", c.String(), res[i]))
		}
	}
}
