package main

import (
	"6502profiler/commands"
	"6502profiler/emuconfig"
	"6502profiler/memory"
	"6502profiler/profiler"
	"encoding/hex"
	"fmt"
	"os"
	"path/filepath"
	"strings"
	"time"
	"verifharness/internal/rng"
)

// ---------------------------------------------------------------------------------------
// end-to-end: the real `profile` and `run` commands in-process (C14, C15, C20)
//
// The report written by ProfileCommand is judged by the same `report` verb as the unit-level stream, with
// the access counts taken from an independent run of the same program (so anything the command does
// between the end of the program and the report — e.g. a memory dump — must not show in the counts).
// The request also carries the program itself (`prog:<hex>`): the driver runs it through the specification and
// judges the numbers of the report against the ABSOLUTE counts of that run (fetches + reads + writes while the
// program ran) — the independent run above goes through the same command code and shares its mistakes.
// A dump specification that must be rejected is combined with a trap script that leaves a marker file:
// the marker tells whether the program ran before the specification was validated.

// e2eProgram: a small loop program copying a table, for a given load address (the same random choices — taken from a
// fork of the generator — for every base, so that the program can be relocated)
func e2eProgram(r *rng.R, trap bool, base int) []uint8 {
	n := uint8(1 + r.Intn(20))
	code := []uint8{0xA2, n, 0xBD, 0, 0, 0x9D, 0, 0, 0xCA, 0xD0, 0xF7}
	if trap {
		code = append(code, 0xA9, 0x07, 0x8D, 0x00, 0x7F)
	}
	code = append(code, 0x00)
	data := base + len(code)
	data2 := data + int(n) + 1
	code[3], code[4] = uint8(data), uint8(data>>8)
	code[6], code[7] = uint8(data2), uint8(data2>>8)
	for i := 0; i < 2*(int(n)+1); i++ {
		code = append(code, r.Byte())
	}
	return code
}

func e2eCase(r *rng.R, dir string) []string {
	lines := []string{}
	trap := r.Chance(50)
	// a quarter of the programs end exactly at $FFFF (on a 64K machine selected with -c)
	top := r.Chance(25)
	base := 0x0800
	pr := r.Fork()
	seedState := *pr
	code := e2eProgram(pr, trap, base)
	cfgArgs := []string{}
	cfg := emuconfig.DefaultConfig()
	if top {
		base = 0x10000 - len(code)
		again := seedState
		code = e2eProgram(&again, trap, base)
		cfg.MemSpec = "Linear64K"
		count("e2e.top")
	}
	// a third of the cases: the configuration names 64tass as the assembler, so -label takes a 64tass symbol list
	// (drawn from a generator of its own: the other choices of a case stay what they were)
	tass := e2eTass != nil && e2eTass.Chance(34)
	if tass {
		cfg.AsmType = emuconfig.Asm64Tass
	}
	if top || tass {
		cfgFile := filepath.Join(dir, "e2e_config.json")
		if err := cfg.Save(cfgFile); err != nil {
			panic(err)
		}
		cfgArgs = []string{"-c", cfgFile}
	}
	bin := writeFile(dir, "e2e.bin", prg(uint16(base), code...))
	marker := filepath.Join(dir, "ran.marker")
	script := writeFile(dir, "e2e.lua", []byte(fmt.Sprintf("function trap(c)\n  local f = io.open(%q, 'w')\n  f:write('ran')\n  f:close()\nend\n", marker)))
	trapArgs := []string{}
	ta := uint(emuconfig.IllegalTrapAddress)
	sc := ""
	if trap {
		trapArgs = []string{"-trapaddr", "32512", "-lua", script}
		ta, sc = 0x7F00, script
	}
	n := len(code)
	start := uint16(base)
	end := start + uint16(n-1)

	// ---- independent run: the counts "while the program ran"
	oc, err := cfg.NewCpu()
	if err != nil {
		panic(err)
	}
	if _, _, err := commands.LoadAndRunBinary(oc, &bin, &ta, &sc, true); err != nil {
		panic(err)
	}
	os.Remove(marker)
	raws := make([]string, n)
	for i := 0; i < n; i++ {
		raws[i] = fmt.Sprintf("%d", oc.Mem.GetStatistics(start+uint16(i)))
	}
	prcnt := []int{0, 10, 50, 100, r.Intn(101)}[r.Intn(5)]
	strategy := []string{"median", "abs"}[r.Intn(2)]
	p := float64(prcnt) / 100.0
	var cut uint64
	cutRes := ""
	pend("e2e cut-off %s p=%d range=%04x-%04x", strategy, prcnt, start, end)
	crashed := false
	if !withDeadline(func() {
		crashed = protect(func() {
			if strategy == "median" {
				cut = profiler.CutOffMedian(oc.Mem, start, end, p)
			} else {
				cut = profiler.CutOffAbsoluteValue(oc.Mem, start, end, p)
			}
		})
	}) {
		// the cut-off computation does not come back: reported like a crash of it; the stream ends here (the stuck
		// goroutine cannot be stopped, the process has to go)
		crashed, abortStream = true, true
		count("e2e.hang.cutoff")
	}
	if crashed {
		cutRes = "!"
	} else {
		cutRes = fmt.Sprintf("%d", cut)
	}
	vals := make([]byte, n)
	for i := 0; i < n; i++ {
		vals[i] = oc.Mem.Load(start + uint16(i))
	}

	// ---- labels
	labelArgs := []string{}
	labReq := "-"
	labFile := "-" // the label file itself, part of the request: `<format>:<hex>`
	if r.Chance(50) {
		var lf strings.Builder
		ls := []string{}
		if r.Bool() && start >= 0x0200 {
			// symbols below the load address (zero-page variables): defined in the file, not part of the report
			fmt.Fprintf(&lf, "\tzp_ptr\t= $%02x\n", 0x10+r.Intn(0xE0))
			fmt.Fprintf(&lf, "\tstack_top\t= $01ff\n")
		}
		for i := 0; i < n; i++ {
			if r.Chance(12) {
				names := []string{}
				for c := 0; c <= r.Intn(2); c++ {
					nm := fmt.Sprintf("l%d_%d", i, c)
					names = append(names, nm)
					fmt.Fprintf(&lf, "\t%s\t= $%04x\n", nm, int(start)+i)
				}
				ls = append(ls, fmt.Sprintf("%d:%s", i, strings.Join(names, ",")))
			}
		}
		if len(ls) > 0 {
			text := lf.String()
			if r.Bool() {
				// the last line of a label file need not end with a line feed
				text = strings.TrimSuffix(text, "\n")
			}
			labelArgs = []string{"-label", writeFile(dir, "e2e.labels", []byte(text))}
			labReq = strings.Join(ls, ";")
			labFile = "acme:" + hex.EncodeToString([]byte(text))
		}
	}
	if tass {
		text := ""
		text, labReq = tassLabelFile(e2eTass, int(start), n, e2eTassCases == 0)
		e2eTassCases++
		labelArgs = []string{"-label", writeFile(dir, "e2e.labels", []byte(text))}
		labFile = "64tass:" + hex.EncodeToString([]byte(text))
		count("e2e.labels.64tass")
	}

	// ---- the real command, with a dump that overlaps the program in half of the cases
	dumpArgs := []string{}
	dumpKind := "none"
	switch r.Intn(4) {
	case 0:
		dl := 1 + r.Intn(40)
		ds := base + r.Intn(n)
		if ds+dl > 0x10000 {
			dl = 0x10000 - ds
		}
		dumpArgs = []string{"-dump", fmt.Sprintf("%d:%d", ds, dl)}
		dumpKind = "overlap"
	case 1:
		dumpArgs = []string{"-dump", "12288:16"}
		dumpKind = "elsewhere"
	}
	outFile := filepath.Join(dir, "e2e.out")
	os.Remove(outFile)
	args := append([]string{"-prg", bin, "-out", outFile, "-prcnt", fmt.Sprintf("%d", prcnt), "-strategy", strategy, "-silent"}, dumpArgs...)
	args = append(args, labelArgs...)
	args = append(args, trapArgs...)
	args = append(args, cfgArgs...)
	var cerr error
	panicked := false
	pend("e2e profile %s (program %s at %04x)", strings.Join(args[2:], " "), hexOf(code), start)
	if abortStream {
		panicked = true // the cut-off computation hangs on this input: the command would hang in the same place
	} else if !withDeadline(func() { _, panicked = captureStdout(func() { cerr = commands.ProfileCommand(args) }) }) {
		panicked, abortStream = true, true
		count("e2e.hang.profile")
	}
	out := "!"
	if !panicked && cerr == nil {
		data, rerr := os.ReadFile(outFile)
		if rerr == nil {
			out = hex.EncodeToString(data)
			if out == "" {
				out = "-"
			}
		}
	}
	os.Remove(marker)
	count("e2e.profile." + dumpKind)
	lines = append(lines, fmt.Sprintf("report %s %d %04x | %s | %s | %s | %s | prog:%s => %s %s", strategy, prcnt, start, strings.Join(raws, ","), hex.EncodeToString(vals), labReq, labFile, hex.EncodeToString(code), cutRes, out))

	// ---- a dump specification that must be rejected before anything runs
	if trap && !abortStream {
		bad := []string{"0:0", "65535:2", "abc", "12:", ":12", "70000:1", "1:70000", "0x10:4", "16:4:1", "-1:5", "65000:1000"}[r.Intn(11)]
		for _, cmd := range []string{"profile", "profilenoout", "run"} {
			os.Remove(marker)
			os.Remove(outFile)
			var e error
			_, pk := captureStdout(func() {
				if cmd == "profile" {
					e = commands.ProfileCommand(append(append([]string{"-prg", bin, "-out", outFile, "-silent", "-dump", bad}, trapArgs...), cfgArgs...))
				} else if cmd == "profilenoout" {
					e = commands.ProfileCommand(append(append([]string{"-prg", bin, "-silent", "-dump", bad}, trapArgs...), cfgArgs...))
				} else {
					e = commands.RunCommand(append(append([]string{"-prg", bin, "-silent", "-dump", bad}, trapArgs...), cfgArgs...))
				}
			})
			_, merr := os.Stat(marker)
			_, oerr := os.Stat(outFile)
			lines = append(lines, fmt.Sprintf("e2edump %s %s => err=%v ran=%v report=%v panic=%v", cmd, hex.EncodeToString([]byte(bad)), e != nil, merr == nil, oerr == nil, pk))
			count("e2e.baddump." + cmd)
		}
		os.Remove(marker)
	}
	return lines
}

// e2eTass: the generator of the 64tass label files (nil: ACME files only); e2eTassCases: how many were written
var e2eTass *rng.R
var e2eTassCases = 0

// tassLabelFile writes a 64tass symbol list for a program of n bytes at start: well-formed definitions in every
// permitted spelling — `$` + 1..4 hex digits of either case or 1..5 DECIMAL digits, white space or none in front of
// the name and of the equal sign, an optional trailing comment which may itself contain `$`, `= $` or digits — one to
// three labels for an address (file order counts), addresses ascending or descending in the file, plus symbols and
// constants below the load address, which are defined in the file but are not part of the report.  The first file of a
// stream has a hex line, a plain decimal line and a decimal line whose comment mentions a hex number.
// Returns the text and the labels per program offset in the notation of the `report` request.
func tassLabelFile(rt *rng.R, start int, n int, first bool) (string, string) {
	comments := []string{"", "", " ; loop counter", "\t; was $0805 before the rewrite", " ; old = $10", " $", " ;$c000", " ; 100% sure", "\t;=", " ; 2052"}
	render := func(name string, val int, form int, comment string) string {
		pre := []string{"", "", " ", "\t", "  \t"}[rt.Intn(5)]
		mid := []string{" ", " ", "\t", "", "  "}[rt.Intn(5)]
		v := ""
		switch form {
		case 0:
			v = fmt.Sprintf("$%04x", val)
		case 1:
			v = fmt.Sprintf("$%X", val)
		case 2:
			v = fmt.Sprintf("$%x", val)
		case 3:
			v = fmt.Sprintf("%d", val)
		default:
			v = fmt.Sprintf("%05d", val)
		}
		return pre + name + mid + "= " + v + comment + "\n"
	}
	type def struct {
		idx   int
		names []string
		lines []string
	}
	defs := []def{}
	forced := -1
	if !first {
		forced = rt.Intn(n)
	}
	for i := 0; i < n; i++ {
		fixed := first && (i == 0 || i == 2 || i == 4)
		if !(fixed || i == forced || rt.Chance(10)) {
			continue
		}
		d := def{idx: i}
		k := 1 + rt.Intn(3)
		if rt.Chance(60) {
			k = 1
		}
		for c := 0; c < k; c++ {
			nm := []string{"l%d_%d", "L%d_%d", "_%d_%dx", "%d_%d", "loop%dPart%d"}[rt.Intn(5)]
			nm = fmt.Sprintf(nm, i, c)
			form := rt.Intn(5)
			comment := comments[rt.Intn(len(comments))]
			if fixed && c == 0 {
				form = []int{0, 0, 3, 0, 3}[i]
				comment = []string{"", "", "", "", " ; was $0805 before the rewrite"}[i]
			}
			d.names = append(d.names, nm)
			d.lines = append(d.lines, render(nm, start+i, form, comment))
		}
		defs = append(defs, d)
	}
	var lf strings.Builder
	if rt.Bool() {
		// symbols and constants below the load address
		lf.WriteString(render("zp_ptr", 0x10+rt.Intn(0xE0), 3+rt.Intn(2), []string{"", " ; $fb on the C64"}[rt.Intn(2)]))
		lf.WriteString(render("COLS", 40, rt.Intn(5), comments[rt.Intn(len(comments))]))
	}
	ls := []string{}
	for _, d := range defs {
		ls = append(ls, fmt.Sprintf("%d:%s", d.idx, strings.Join(d.names, ",")))
	}
	if rt.Bool() {
		for i, j := 0, len(defs)-1; i < j; i, j = i+1, j-1 {
			defs[i], defs[j] = defs[j], defs[i]
		}
	}
	for _, d := range defs {
		for _, l := range d.lines {
			lf.WriteString(l)
		}
	}
	text := lf.String()
	if rt.Bool() {
		text = strings.TrimSuffix(text, "\n") // the last line of a label file need not end with a line feed
	}
	return text, strings.Join(ls, ";")
}

// abortStream: a call into the repository's code did not come back within the deadline; the case is reported as
// "no result" and the stream stops after it
var abortStream = false

// withDeadline runs f in a goroutine of its own and reports whether it came back within 20 seconds (the longest of
// these calls takes milliseconds)
func withDeadline(f func()) bool {
	done := make(chan struct{})
	go func() {
		defer close(done)
		f()
	}()
	select {
	case <-done:
		return true
	case <-time.After(20 * time.Second):
		return false
	}
}

func profileStream(seed uint64, n int) {
	r := rng.New(seed + 1420)
	e2eTass, e2eTassCases = rng.New(seed+142064), 0
	dir := tmpDir()
	defer os.RemoveAll(dir)
	for i := 0; i < n; i++ {
		for _, l := range e2eCase(r, dir) {
			emit(l)
		}
		if abortStream {
			break
		}
	}
}

var _ = memory.NewLinearMemory
