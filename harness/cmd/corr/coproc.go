package main

import (
	"6502profiler/emuconfig"
	"fmt"
	"strings"
	"verifharness/internal/rng"
)

func coprocCase(r *rng.R, spec string, flags uint8, base uint16, n int) string {
	cfg := emuconfig.DefaultConfig()
	cfg.MemSpec = spec
	cfg.F256MCoprocFlags = flags
	cfg.F256MCoprocBase = base
	if (flags+uint8(base>>3)+uint8(n))%3 == 0 {
		// with an output port layer configured as well (a page the coprocessor does not use)
		cfg.IoMask = uint8((base>>8)+1) & 0x3F
		cfg.IoAddrConfig = map[uint8]string{0x00: "stdout:bin"}
		count("coproc.withports")
	}
	// sometimes output ports sit INSIDE the register block (a result register, the divider results, an operand): the port
	// layer is the outermost one, so a program's store to such an address goes to the port and nowhere else, while the
	// units' own result stores are not program stores and reach the memory
	portTag := ""
	if base&0xFF <= 0xE8 && (int(flags)+n)%7 == 0 {
		lo := uint8(base)
		cfg.IoMask = uint8(base >> 8)
		cfg.IoAddrConfig = map[uint8]string{lo + 0x10: "stdout:bin", lo + 0x15: "stdout:bin", lo + 1: "stdout:bin"}
		portTag = fmt.Sprintf(" p=%04x,%04x,%04x", base+0x10, base+0x15, base+1)
		count("coproc.portsinside")
	}
	c, err := cfg.NewCpu()
	if err != nil {
		panic(err)
	}
	m := c.Mem
	var ops, outs []string
	pend("coproc %s %d %04x%s |", spec, flags, base, portTag)
	for i := 0; i < n; i++ {
		var a uint16
		switch r.Intn(10) {
		case 0, 1, 2, 3:
			a = base + uint16(r.Intn(4)) // multiplier operands
		case 4, 5, 6:
			a = base + 4 + uint16(r.Intn(4)) // divider operands
		case 7:
			a = base + 0x10 + uint16(r.Intn(8)) // result registers
		case 8:
			a = base + uint16(r.Intn(0x20)) - 4 // neighbours in and around the block
		default:
			a = (base ^ 0x0100) + uint16(r.Intn(8)) // same offsets, other page
		}
		v := r.BByte()
		if r.Chance(15) {
			v = 0
		}
		// a tenth of the stores (on the plain 64K machine, where linear address = address) reach the operand or result
		// registers NOT through the coprocessor layer but through the linear view of the memory below it — what
		// write_byte_long or a snapshot restore do: no unit reacts, and the next trigger computes from the bytes as they
		// are then
		direct := spec == "Linear64K" && r.Chance(10)
		tag := ""
		if direct {
			tag = "L"
		}
		pendAppend(fmt.Sprintf(" %s%04x=%02x", tag, a, v))
		fault := protect(func() {
			if direct {
				m.ToLargeMemory().StoreLarge(uint32(a), v)
			} else {
				m.Store(a, v)
			}
		})
		ops = append(ops, fmt.Sprintf("%s%04x=%02x", tag, a, v))
		var sb strings.Builder
		if fault {
			sb.WriteString("!")
		} else {
			if protect(func() {
				for k := 0; k < 8; k++ {
					fmt.Fprintf(&sb, "%02x", m.Load(base+0x10+uint16(k)))
				}
			}) {
				sb.Reset()
				sb.WriteString("!")
			}
		}
		outs = append(outs, sb.String())
	}
	count(fmt.Sprintf("coproc.flags%d", flags))
	return fmt.Sprintf("coproc %s %d %04x%s | %s => %s", spec, flags, base, portTag, strings.Join(ops, " "), strings.Join(outs, " "))
}

func coprocStream(seed uint64, n int) {
	r := rng.New(seed + 1616)
	bases := []uint16{0xDE00, 0xDE08, 0xDEE8, 0x0200, 0x02E8, 0x7F00, 0x1000, 0x10C0}
	for i := 0; i < n; i++ {
		spec := "Linear64K"
		if r.Chance(25) {
			spec = memSpecs[r.Intn(len(memSpecs))]
		}
		flags := []uint8{0, 1, 4, 5}[r.Intn(4)]
		if r.Chance(5) {
			flags = uint8(r.Intn(16))
		}
		base := bases[r.Intn(len(bases))]
		if r.Chance(30) {
			base = uint16(r.Intn(256))<<8 | uint16(r.Intn(0xE9))
		}
		emit(coprocCase(r, spec, flags, base, 10+r.Intn(40)))
	}
}
