package main

import (
	"6502profiler/commands"
	"6502profiler/cpu"
	"6502profiler/emuconfig"
	"6502profiler/memory"
	"6502profiler/verifier"
	"fmt"
	"os"
	"sort"
	"strings"
	"verifharness/internal/bus"
	"verifharness/internal/rng"
)

// ---------------------------------------------------------------------------------------
// C10: trap and port stores

const trapLogCount = 0x3DFF // number of trap calls so far; call k is logged at 0x3E00+k
const trapProgAt = 0x0800

// trapScript: the Lua trap function of kind k for trap address t.  The script keeps its state in simulated
// memory so that the Lean model (a pure function of code, registers and memory) can mirror it exactly.
func trapScript(kind int, t uint16) string {
	extra := ""
	switch kind {
	case 1:
		extra = "  set_xreg((get_xreg() + 1) % 256)\n"
	case 2:
		extra = "  set_accu(255 - c)\n  if c % 2 == 1 then set_flags('CZN') else set_flags('V') end\n"
	case 3:
		extra = fmt.Sprintf("  write_byte(%d, c)\n  write_byte(0x3DFE, read_byte(%d))\n", (t+1)&0xFFFF, t)
	case 4:
		extra = "  set_sp(0xE0)\n"
	case 5:
		extra = "  set_pc(get_pc() + 1)\n"
	case 6:
		extra = "  set_yreg(c)\n"
	}
	return "function trap(c)\n  local n = read_byte(0x3DFF) + 1\n  write_byte(0x3DFF, n)\n  write_byte(0x3E00 + n, c)\n" + extra + "end\n" +
		"function arrange() end\nfunction assert() return true end\n"
}

type progBuilder struct {
	code  []uint8
	lowZp bool // the program may store to $00 (plain memory there: no bank register / MMU cell)
	// intercepted zero-page cells on a machine where a pointer left half-written (its set-up store was intercepted)
	// could aim at a bank register, an I/O cell or at nothing: no pointer is placed there
	hot []uint8
}

// padTo appends NOPs until the next byte emitted lies at an address whose low byte is pos
func (p *progBuilder) padTo(pos uint8) {
	for lo(uint16(trapProgAt+len(p.code))) != pos {
		p.code = append(p.code, 0xEA)
	}
}

// jsrAt appends LDX #sp; TXS; JSR next, the JSR opcode placed at an address $xxPOS.  The pushed return address is
// the address of the last byte of the JSR (data sheet): for POS = $FE, $FF its high byte is one more than the page of the opcode.
// The high byte goes to $0100+sp, the low byte to $0100+((sp-1) mod 256).
func (p *progBuilder) jsrAt(sp, pos uint8) {
	p.code = append(p.code, 0xA2, sp, 0x9A)
	p.padTo(pos)
	at := uint16(trapProgAt + len(p.code) + 3)
	p.code = append(p.code, 0x20, lo(at), hi(at), 0xEA, 0xEA)
}

// setPtr stores the little endian pointer w in the zero page cells z and (z+1) mod 256
func (p *progBuilder) setPtr(z uint8, w uint16) {
	p.op(0xA9, lo(w))
	p.op(0x85, z)
	p.op(0xA9, hi(w))
	p.op(0x85, z+1)
}

func (p *progBuilder) op(b ...uint8) {
	p.code = append(p.code, b...)
	p.code = append(p.code, 0xEA, 0xEA) // landing pad for the set_pc script
}
func lo(a uint16) uint8 { return uint8(a) }
func hi(a uint16) uint8 { return uint8(a >> 8) }

// storeInstr appends one store-capable instruction (with its set-up) aimed at address a
func storeInstr(r *rng.R, p *progBuilder, a uint16, c02 bool, idx int) {
	v := r.BByte()
	d := uint8(r.Intn(5))
	if r.Chance(20) {
		d = uint8(r.Intn(256))
	}
	// geometry at the edges: a pointer cell at the end of the zero page (its high byte then lives in $00), an index that
	// makes the effective address wrap (page, zero page, 64K)
	ptrAt := func() uint8 {
		z := []uint8{0xFF, 0xFE, 0xFF, 0x80, 0x10, 0xFF}[r.Intn(6)]
		if z == 0xFF && !p.lowZp {
			z = 0xFE
		}
		for _, h := range p.hot {
			if h == z || h == z+1 {
				return 0x46
			}
		}
		return z
	}
	wrapD := func() uint8 { return []uint8{0xFF, 0x80, 0x01, lo(a) + 1, uint8(r.Intn(256))}[r.Intn(5)] }
	type alt func()
	alts := []alt{
		func() { p.op(0xA9, v); p.op(0x8D, lo(a), hi(a)) },
		func() { p.op(0xA2, v); p.op(0x8E, lo(a), hi(a)) },
		func() { p.op(0xA0, v); p.op(0x8C, lo(a), hi(a)) },
		func() {
			p.op(0xA9, v)
			p.code = append(p.code, 0xA2, d, 0x9D, lo(a-uint16(d)), hi(a-uint16(d)), 0xEA, 0xEA)
		},
		func() {
			p.op(0xA9, v)
			p.code = append(p.code, 0xA0, d, 0x99, lo(a-uint16(d)), hi(a-uint16(d)), 0xEA, 0xEA)
		},
		func() { // STA (zp),Y
			base := a - uint16(d)
			p.op(0xA9, lo(base))
			p.op(0x85, 0x40)
			p.op(0xA9, hi(base))
			p.op(0x85, 0x41)
			p.op(0xA9, v)
			p.code = append(p.code, 0xA0, d, 0x91, 0x40, 0xEA, 0xEA)
		},
		func() { // STA (zp,X)
			p.op(0xA9, lo(a))
			p.op(0x85, 0x42)
			p.op(0xA9, hi(a))
			p.op(0x85, 0x43)
			p.op(0xA9, v)
			p.code = append(p.code, 0xA2, d, 0x81, 0x42-d, 0xEA, 0xEA)
		},
		func() { p.op([]uint8{0xEE, 0xCE, 0x0E, 0x4E, 0x2E, 0x6E}[r.Intn(6)], lo(a), hi(a)) },
		func() {
			o := []uint8{0xFE, 0xDE, 0x1E, 0x5E, 0x3E, 0x7E}[r.Intn(6)]
			p.code = append(p.code, 0xA2, d, o, lo(a-uint16(d)), hi(a-uint16(d)), 0xEA, 0xEA)
		},
		func() { // a load of the address: never intercepted; keep what was read
			p.op(0xAD, lo(a), hi(a))
			p.op(0x8D, lo(0x0310+uint16(idx)), hi(0x0310+uint16(idx)))
		},
		func() { // STA (zp),Y: pointer at a zero-page edge, index that wraps
			z, e := ptrAt(), wrapD()
			p.setPtr(z, a-uint16(e))
			p.op(0xA9, v)
			p.code = append(p.code, 0xA0, e, 0x91, z, 0xEA, 0xEA)
		},
		func() { // STA (zp,X): pointer at a zero-page edge, operand + X wraps inside the zero page
			z, e := ptrAt(), wrapD()
			p.setPtr(z, a)
			p.op(0xA9, v)
			p.code = append(p.code, 0xA2, e, 0x81, z-e, 0xEA, 0xEA)
		},
		func() { // absolute indexed forms whose index carries into the next page / around $FFFF
			e := wrapD()
			os := []uint8{0x9D, 0x99, 0xFE, 0xDE, 0x1E, 0x5E, 0x3E, 0x7E}
			if c02 {
				os = append(os, 0x9E)
			}
			o := os[r.Intn(len(os))]
			ldi := uint8(0xA2)
			if o == 0x99 {
				ldi = 0xA0
			}
			p.op(0xA9, v)
			p.code = append(p.code, ldi, e, o, lo(a-uint16(e)), hi(a-uint16(e)), 0xEA, 0xEA)
		},
	}
	if c02 {
		alts = append(alts,
			func() { p.op(0x9C, lo(a), hi(a)) },
			func() { p.code = append(p.code, 0xA2, d, 0x9E, lo(a-uint16(d)), hi(a-uint16(d)), 0xEA, 0xEA) },
			func() { p.op(0xA9, v); p.op([]uint8{0x0C, 0x1C}[r.Intn(2)], lo(a), hi(a)) },
			func() { // STA (zp)
				p.op(0xA9, lo(a))
				p.op(0x85, 0x44)
				p.op(0xA9, hi(a))
				p.op(0x85, 0x45)
				p.op(0xA9, v)
				p.op(0x92, 0x44)
			},
			func() { // STA (zp), pointer at a zero-page edge: with operand $FF the high byte of the pointer is in $00
				z := ptrAt()
				p.setPtr(z, a)
				p.op(0xA9, v)
				p.op(0x92, z)
			},
			func() { // LDA (zp) through such a pointer: a load, never intercepted; keep what was read
				z := ptrAt()
				p.setPtr(z, a)
				p.op(0xB2, z)
				p.op(0x8D, lo(0x0310+uint16(idx)), hi(0x0310+uint16(idx)))
			},
		)
	}
	if a < 0x100 {
		z := lo(a)
		alts = append(alts,
			func() { p.op(0xA9, v); p.op(0x85, z) },
			func() { p.op(0xA2, v); p.op(0x86, z) },
			func() { p.op(0xA0, v); p.op(0x84, z) },
			func() { p.op([]uint8{0xE6, 0xC6, 0x06, 0x46, 0x26, 0x66}[r.Intn(6)], z) },
			func() { p.op(0xA9, v); p.code = append(p.code, 0xA2, d, 0x95, z-d, 0xEA, 0xEA) },
			func() { p.op(0xA0, v); p.code = append(p.code, 0xA2, d, 0x94, z-d, 0xEA, 0xEA) },
			func() { p.op(0xA2, v); p.code = append(p.code, 0xA0, d, 0x96, z-d, 0xEA, 0xEA) },
			func() {
				p.code = append(p.code, 0xA2, d, []uint8{0xF6, 0xD6, 0x16, 0x56, 0x36, 0x76}[r.Intn(6)], z-d, 0xEA, 0xEA)
			},
			func() { // zero page indexed forms whose index wraps inside the zero page
				e := wrapD()
				os := []uint8{0x95, 0x94, 0x96, 0xF6, 0xD6, 0x16, 0x56, 0x36, 0x76}
				if c02 {
					os = append(os, 0x74)
				}
				o := os[r.Intn(len(os))]
				ldi := uint8(0xA2)
				if o == 0x96 {
					ldi = 0xA0
				}
				p.op(0xA9, v)
				if o == 0x94 {
					p.op(0xA0, v)
				} else if o == 0x96 {
					p.op(0xA2, v)
				}
				p.code = append(p.code, ldi, e, o, z-e, 0xEA, 0xEA)
			},
		)
		if c02 {
			alts = append(alts,
				func() { p.op(0x64, z) },
				func() { p.op(uint8(0x07+0x10*r.Intn(8)), z) },
				func() { p.op(uint8(0x87+0x10*r.Intn(8)), z) },
				func() { p.op(0xA9, v); p.op([]uint8{0x04, 0x14}[r.Intn(2)], z) },
			)
		}
	}
	if a>>8 == 0x01 {
		s := lo(a)
		alts = append(alts,
			func() { p.op(0xA9, v); p.code = append(p.code, 0xA2, s, 0x9A, 0x48, 0xEA, 0xEA) }, // TXS; PHA
			func() { p.code = append(p.code, 0xA2, s, 0x9A, 0x08, 0xEA, 0xEA) },                // PHP
			func() { // JSR to the byte behind it: pushes two bytes at s, s-1
				at := uint16(trapProgAt + len(p.code) + 3 + 3)
				p.code = append(p.code, 0xA2, s, 0x9A, 0x20, lo(at), hi(at), 0xEA, 0xEA)
			},
		)
		// JSR whose opcode lies at $xxFD, $xxFE, $xxFF (the pushed return address is the address of the LAST byte of the
		// instruction, so its high byte carries for the latter two); the trap / port receives the high byte (SP = s) or
		// the low byte (SP = s+1; for s = $FF the stack pointer wraps between the two pushes)
		alts = append(alts, func() {
			sp := s
			if r.Intn(3) == 0 {
				sp = s + 1
			}
			p.jsrAt(sp, []uint8{0xFE, 0xFD, 0xFF, 0xFE}[r.Intn(4)])
		})
		if c02 {
			alts = append(alts, func() { p.op(0xA2, v); p.code = append(p.code, 0xA0, s, 0x5A, 0xEA, 0xEA) }) // PHY (SP unknown: wherever)
			alts = append(alts,
				func() { p.code = append(p.code, 0xA2, s, 0x9A, 0xA2, v, 0xDA, 0xEA, 0xEA) }, // TXS; PHX
				func() { p.code = append(p.code, 0xA2, s, 0x9A, 0xA0, v, 0x5A, 0xEA, 0xEA) }, // TXS; PHY
			)
		}
	}
	alts[r.Intn(len(alts))]()
}

var trapAddrChoices = []uint16{0x3C80, 0x00F0, 0x01F0, 0x2DDD, 0x3CFF, 0x3C00, 0x0100, 0x00FF, 0x01FF, 0xFFF0, 0xFF00, 0x8000, 0x80FF, 0xD0F0, 0xFFFF, 0x7FFF}

type trapCase struct {
	model int
	path  string // A = verify (PlaceholderWrapper + TestCase.Execute), B = run/profile (LoadAndRunBinary), N = placeholder without script
	t     uint16
	kind  int
	base  string // sparse | a MemSpec
	code  []uint8
	init  map[uint16]uint8
}

func genTrapCase(r *rng.R) *trapCase {
	c := &trapCase{model: r.Intn(2), kind: r.Intn(7), base: "sparse", init: map[uint16]uint8{}}
	c.path = []string{"A", "B", "A", "B", "N"}[r.Intn(5)]
	if r.Chance(25) {
		c.base = []string{"Linear16K", "Linear64K", "XSixteen512K", "GeoRam_512K", "F256_512K"}[r.Intn(5)]
	}
	if r.Chance(70) {
		c.t = rng.PickU16(r, trapAddrChoices)
	} else {
		c.t = 0x0200 + uint16(r.Intn(0x0500)) // 0x0200..0x06FF
	}
	if c.base != "sparse" && c.t < 0x10 {
		c.t = 0x00F0
	}
	if c.base != "sparse" && c.t >= 0x4000 {
		// a trap address in the last page: on a machine that has plain memory there
		c.base = "Linear64K"
	}
	t := c.t
	c.init[t], c.init[t-1], c.init[t+1], c.init[t^0x0100] = 0x5C, 0x11, 0x22, 0x33
	p := &progBuilder{lowZp: c.base == "sparse"}
	if c.base != "sparse" && c.base != "Linear64K" && t>>8 == 0 {
		p.hot = []uint8{lo(t)}
	}
	n := 3 + r.Intn(10)
	for i := 0; i < n; i++ {
		a := t
		switch r.Intn(8) {
		case 0:
			a = t - 1
		case 1:
			a = t + 1
		case 2:
			a = t ^ 0x0100
		case 3:
			a = 0x0300 + uint16(r.Intn(8))
		}
		if a < 0x10 && c.base != "sparse" {
			a = t
		}
		storeInstr(r, p, a, c.model == 1, i)
	}
	p.code = append(p.code, 0x00)
	c.code = p.code
	// rarely: thousands of traps in ONE run (a loop storing to the trap address 24 x 256 times)
	if r.Intn(300) == 0 && c.t >= 0x0200 {
		c.kind, c.base = 0, "sparse"
		if c.path == "N" {
			c.path = "A"
		}
		c.code = []uint8{0xA9, r.Byte(), 0xA0, 24, 0xA2, 0x00, 0x8D, lo(t), hi(t), 0xCA, 0xD0, 0xFA, 0x88, 0xD0, 0xF5, 0x00}
	}
	return c
}

func (c *trapCase) watch() []uint16 {
	t := c.t
	w := []uint16{t - 1, t, t + 1, t ^ 0x0100, 0x3DFE, 0x3DFF}
	for i := 1; i <= 16; i++ {
		w = append(w, 0x3E00+uint16(i))
	}
	for i := 0; i < 16; i++ {
		w = append(w, 0x0300+uint16(i), 0x0310+uint16(i))
	}
	return w
}

func (c *trapCase) run(dir string) string {
	pend("%s", c.request())
	model := cpu.Model6502
	if c.model == 1 {
		model = cpu.Model65C02
	}
	var base memory.Memory
	var sp *bus.Sparse
	if c.base == "sparse" {
		sp = bus.NewSparse(c.init, 200000)
		base = sp
	} else {
		cfg := emuconfig.DefaultConfig()
		cfg.MemSpec = c.base
		pc, err := cfg.NewCpu()
		if err != nil {
			panic(err)
		}
		base = pc.Mem
		keys := []int{}
		for a := range c.init {
			keys = append(keys, int(a))
		}
		sort.Ints(keys)
		for _, a := range keys {
			base.Store(uint16(a), c.init[uint16(a)])
		}
	}
	p := cpu.New6502(model)
	p.Init(base)
	if c.base == "Linear64K" && c.path == "B" && c.t >= 0x0400 {
		// the run/profile path on a machine that already carries a port layer and a coprocessor layer (other pages)
		cfg := emuconfig.DefaultConfig()
		cfg.MemSpec = "Linear64K"
		if c.model == 1 {
			cfg.Model = "65C02"
		}
		cfg.IoMask = 0x02
		cfg.IoAddrConfig = map[uint8]string{0xF0: "stdout:bin"}
		cfg.F256MCoprocFlags = 5
		cfg.F256MCoprocBase = 0x0380
		pc, err := cfg.NewCpu()
		if err != nil {
			panic(err)
		}
		for a, v := range c.init {
			pc.Mem.Store(a, v)
		}
		p = pc
		base = pc.Mem
		count("trap.B.layered")
	}
	bin := writeFile(dir, "trap.bin", prg(trapProgAt, c.code...))
	script := writeFile(dir, "trap.lua", []byte(trapScript(c.kind, c.t)))
	var err error
	crashed := protect(func() {
		switch c.path {
		case "B":
			ta := uint(c.t)
			_, panicked := captureStdout(func() { _, _, err = commands.LoadAndRunBinary(p, &bin, &ta, &script, true) })
			if panicked {
				panic("panic in LoadAndRunBinary")
			}
		case "A", "N":
			ph := memory.NewPlaceholderWrapper(base, c.t)
			p.Mem = ph.Wrapper
			if c.path == "A" {
				tc := &verifier.TestCase{Name: "trap", TestDriverSource: "trap.a", TestScript: "trap.lua"}
				err = tc.Execute(p, &fakeAsm{bins: map[string]string{"trap.a": bin}}, dir, nil, ph, "id")
			} else {
				var la uint16
				la, _, err = p.Load(bin)
				if err == nil {
					err = p.RunExt(la, true)
				}
			}
		}
	})
	kind := "halt"
	if crashed {
		kind = "hostcrash"
	} else if err != nil {
		kind = "error"
	}
	var obs strings.Builder
	if sp != nil {
		tr := sp.Trace
		if len(tr) >= len(c.code) {
			tr = tr[len(c.code):] // the stores of cpu.Load
		}
		obs.WriteString("T " + bus.TraceString(tr))
	} else {
		obs.WriteString("W")
		for _, a := range c.watch() {
			fmt.Fprintf(&obs, " %02x", base.Load(a))
		}
	}
	return fmt.Sprintf("%s %04x %02x %02x %02x %02x %02x %d | %s", kind, p.PC, p.SP, p.A, p.X, p.Y, p.Flags, p.NumCycles(), obs.String())
}

func (c *trapCase) request() string {
	keys := []int{}
	for a := range c.init {
		keys = append(keys, int(a))
	}
	sort.Ints(keys)
	ms := []string{}
	for _, a := range keys {
		ms = append(ms, fmt.Sprintf("%04x=%02x", a, c.init[uint16(a)]))
	}
	return fmt.Sprintf("trap %d %s %04x %d %s %s | %s", c.model, c.path, c.t, c.kind, c.base, hexOf(c.code), strings.Join(ms, " "))
}

func hexOf(b []uint8) string {
	var sb strings.Builder
	for _, x := range b {
		fmt.Fprintf(&sb, "%02x", x)
	}
	return sb.String()
}

// ---- ports

type portCase struct {
	spec   string
	ioMask uint8
	ports  map[uint8]string
	code   []uint8
}

func genPortCase(r *rng.R) *portCase {
	c := &portCase{ioMask: []uint8{0x2D, 0x3C, 0x02, 0x01, 0x00, 0xFF, 0x80, 0xD0, 0x7F}[r.Intn(9)], ports: map[uint8]string{}, spec: "Linear64K"}
	if r.Chance(40) && c.ioMask < 0x40 {
		// the port layer sits on top of every memory model (the last page only where every model has plain memory)
		c.spec = memSpecs[r.Intn(len(memSpecs))]
	}
	specs := []string{"stdout:16", "stdout:1", "stdout:3", "stdout:0", "stdout:bin", "printer:petscii", "stdout:2", "stdout:4294967296"}
	offs := []uint8{0xDD, 0xDE, 0x00, 0xFF, 0x80}
	np := 1 + r.Intn(3)
	for i := 0; i < np; i++ {
		c.ports[offs[r.Intn(len(offs))]] = specs[r.Intn(len(specs))]
	}
	used := []uint8{}
	for o := range c.ports {
		used = append(used, o)
	}
	sort.Slice(used, func(i, j int) bool { return used[i] < used[j] })
	p := &progBuilder{lowZp: c.spec == "Linear64K"}
	if c.spec != "Linear64K" && c.ioMask == 0 {
		p.hot = used
	}
	n := 2 + r.Intn(24)
	page := uint16(c.ioMask) << 8
	for i := 0; i < n; i++ {
		a := page | uint16(used[r.Intn(len(used))])
		switch r.Intn(8) {
		case 0:
			a ^= 0x0100
		case 1:
			a = page | uint16(uint8(a)+1)
		case 2:
			a = page | uint16(r.Intn(256))
		}
		if a < 0x10 {
			a = 0x0010
		}
		storeInstr(r, p, a, true, i)
	}
	p.code = append(p.code, 0x00)
	c.code = p.code
	return c
}

func (c *portCase) run(dir string) string {
	pend("%s", c.request())
	cfg := emuconfig.DefaultConfig()
	cfg.Model = "65C02"
	cfg.MemSpec = c.spec
	cfg.IoMask = c.ioMask
	cfg.IoAddrConfig = c.ports
	bin := writeFile(dir, "port.bin", prg(trapProgAt, c.code...))
	var err error
	var p *cpu.CPU6502
	out, panicked := captureStdout(func() {
		p, err = cfg.NewCpu()
		if err != nil {
			return
		}
		var la uint16
		la, _, err = p.Load(bin)
		if err == nil {
			err = p.RunExt(la, true)
		}
	})
	kind := "halt"
	if panicked {
		kind = "hostcrash"
	} else if err != nil {
		kind = "error"
	}
	regs := "-"
	if p != nil {
		regs = fmt.Sprintf("%04x %02x %02x %02x %02x %02x %d", p.PC, p.SP, p.A, p.X, p.Y, p.Flags, p.NumCycles())
	}
	o := hexOf(out)
	if o == "" {
		o = "-"
	}
	return fmt.Sprintf("%s %s | %s", kind, regs, o)
}

func (c *portCase) request() string {
	offs := []int{}
	for o := range c.ports {
		offs = append(offs, int(o))
	}
	sort.Ints(offs)
	ps := []string{}
	for _, o := range offs {
		ps = append(ps, fmt.Sprintf("%02x=%s", o, c.ports[uint8(o)]))
	}
	return fmt.Sprintf("port %02x %s %s %s", c.ioMask, strings.Join(ps, ","), hexOf(c.code), c.spec)
}

// fixedTrapCases: the boundary geometries that random placement reaches only now and then, through every trap
// implementation and both CPU models: a trap in the stack page hit by the pushes of JSRs located at $xxFD, $xxFE, $xxFF
// (high byte trapped, then low byte trapped with the stack pointer wrapping) and by PHA/PHP/PHX/PHY; a trap reached
// through pointers in $FF/$00 ((zp),Y, (zp,X) with a wrapping operand, 65C02 (zp)) and through wrapping indexes.
func fixedTrapCases() []*trapCase {
	cs := []*trapCase{}
	for _, path := range []string{"A", "B", "N"} {
		for model := 0; model < 2; model++ {
			c02 := model == 1
			// stack page
			p := &progBuilder{lowZp: true}
			for _, sp := range []uint8{0xFF, 0x00} {
				for _, pos := range []uint8{0xFD, 0xFE, 0xFF} {
					p.jsrAt(sp, pos)
				}
			}
			p.op(0xA9, 0x5A)
			p.code = append(p.code, 0xA2, 0xFF, 0x9A, 0x48, 0xEA, 0xEA)
			p.code = append(p.code, 0xA2, 0xFF, 0x9A, 0x08, 0xEA, 0xEA)
			if c02 {
				p.code = append(p.code, 0xA2, 0xFF, 0x9A, 0xA2, 0xA5, 0xDA, 0xEA, 0xEA)
				p.code = append(p.code, 0xA2, 0xFF, 0x9A, 0xA0, 0xC3, 0x5A, 0xEA, 0xEA)
			}
			p.code = append(p.code, 0x00)
			cs = append(cs, &trapCase{model: model, path: path, t: 0x01FF, kind: 0, base: "sparse", code: p.code,
				init: map[uint16]uint8{0x01FF: 0x5C, 0x01FE: 0x11, 0x0100: 0x22}})
			// pointers at the end of the zero page, wrapping indexes
			const t = 0x3C80
			p = &progBuilder{lowZp: true}
			p.setPtr(0xFF, t-0x90)
			p.op(0xA9, 0x61)
			p.code = append(p.code, 0xA0, 0x90, 0x91, 0xFF, 0xEA, 0xEA) // STA ($FF),Y
			p.setPtr(0xFF, t)
			p.op(0xA9, 0x62)
			p.code = append(p.code, 0xA2, 0x80, 0x81, 0x7F, 0xEA, 0xEA) // STA ($7F,X), X = $80
			p.op(0xA9, 0x63)
			p.code = append(p.code, 0xA2, 0xFF, 0x9D, lo(t-0xFF), hi(t-0xFF), 0xEA, 0xEA) // STA abs,X over the page boundary
			if c02 {
				p.op(0xA9, 0x64)
				p.op(0x92, 0xFF) // STA ($FF)
				p.setPtr(0xFE, t)
				p.op(0xA9, 0x65)
				p.op(0x92, 0xFE) // STA ($FE)
				p.setPtr(0xFF, t+1)
				p.op(0xA9, 0x66)
				p.op(0x92, 0xFF) // STA ($FF) aimed at the neighbour
				p.op(0xB2, 0xFF) // LDA ($FF)
				p.op(0x8D, 0x10, 0x03)
			}
			p.code = append(p.code, 0x00)
			cs = append(cs, &trapCase{model: model, path: path, t: t, kind: 0, base: "sparse", code: p.code,
				init: map[uint16]uint8{t: 0x5C, t - 1: 0x11, t + 1: 0x22, 0x0100: t>>8 + 1, 0x0101: t>>8 + 1}})
		}
	}
	return cs
}

// fixedPortCases: ports in the stack page receiving the two bytes pushed by a JSR at $xxFE; a port reached through ($FF)
func fixedPortCases() []*portCase {
	p := &progBuilder{lowZp: true}
	for _, pos := range []uint8{0xFD, 0xFE, 0xFF} {
		p.jsrAt(0xFF, pos)
	}
	p.code = append(p.code, 0x00)
	c1 := &portCase{spec: "Linear64K", ioMask: 0x01, ports: map[uint8]string{0xFF: "stdout:16", 0xFE: "stdout:bin"}, code: p.code}
	p = &progBuilder{lowZp: true}
	p.setPtr(0xFF, 0x2DDD)
	p.op(0xA9, 0x41)
	p.op(0x92, 0xFF)
	p.op(0xA9, 0x42)
	p.code = append(p.code, 0xA0, 0x01, 0x91, 0xFF, 0xEA, 0xEA)
	p.code = append(p.code, 0x00)
	c2 := &portCase{spec: "Linear64K", ioMask: 0x2D, ports: map[uint8]string{0xDD: "stdout:bin", 0xDE: "stdout:16"}, code: p.code}
	return []*portCase{c1, c2}
}

func trapStream(seed uint64, n int) {
	r := rng.New(seed + 1010)
	dir := tmpDir()
	defer os.RemoveAll(dir)
	for _, c := range fixedTrapCases() {
		count("trap.fixed." + c.path)
		emit(c.request() + " => " + c.run(dir))
	}
	for _, c := range fixedPortCases() {
		count("port.fixed")
		emit(c.request() + " => " + c.run(dir))
	}
	// always: one run with thousands of trap calls, through each of the two trap implementations
	for _, path := range []string{"A", "B"} {
		c := genTrapCase(r)
		c.kind, c.base, c.path, c.t = 0, "sparse", path, 0x3C80
		c.init = map[uint16]uint8{0x3C80: 0x5C}
		c.code = []uint8{0xA9, r.Byte(), 0xA0, 24, 0xA2, 0x00, 0x8D, 0x80, 0x3C, 0xCA, 0xD0, 0xFA, 0x88, 0xD0, 0xF5, 0x00}
		count("trap.loop." + path)
		emit(c.request() + " => " + c.run(dir))
	}
	for i := 0; i < n; i++ {
		if i%4 == 3 {
			c := genPortCase(r)
			count("port")
			emit(c.request() + " => " + c.run(dir))
		} else {
			c := genTrapCase(r)
			count("trap." + c.path + "." + c.base)
			emit(c.request() + " => " + c.run(dir))
		}
	}
}
