package main

import (
	"6502profiler/cpu"
	"6502profiler/emuconfig"
	"encoding/hex"
	"fmt"
	"os"
	"path/filepath"
	"sort"
	"strings"
	"verifharness/internal/rng"
)

// probeMachine: behavioural signature of a built machine
func probeMachine(c *cpu.CPU6502, cfg *emuconfig.Config) string {
	// instruction set: which of the 256 codes are implemented
	var isa strings.Builder
	for op := 0; op < 256; op++ {
		c.PC = 0x0300
		protect(func() {
			c.Mem.Store(0x0300, uint8(op))
			c.Mem.Store(0x0301, 0x00)
			c.Mem.Store(0x0302, 0x00)
			c.Mem.Store(0x0303, 0x00)
		})
		c.Flags = 0
		c.SP = 0xF0
		c.X, c.Y = 0, 0
		err := c.RunExt(0x0300, true)
		if err != nil { // one instruction with zero operands on plain RAM, D clear: the only possible error is "no such opcode"
			isa.WriteString("0")
		} else {
			isa.WriteString("1")
		}
	}
	// memory: the linear view ends where documented; Linear memories fault at their size
	spec := cfg.MemSpec
	total := linTotals[spec]
	lm := c.Mem.ToLargeMemory()
	memsig := ""
	if strings.HasPrefix(spec, "Linear") {
		okLast := !protect(func() { c.Mem.Load(uint16(total - 1)) })
		faultNext := total == 65536 || protect(func() { c.Mem.Load(uint16(total)) })
		memsig = fmt.Sprintf("%v%v", okLast, faultNext)
	} else {
		okLast := !protect(func() { lm.LoadLarge(total - 1) })
		faultNext := protect(func() { lm.LoadLarge(total) })
		memsig = fmt.Sprintf("%v%v", okLast, faultNext)
	}
	// ports: what appears on stdout when 260 bytes are stored to each configured port address, in key order
	keys := []int{}
	for k := range cfg.IoAddrConfig {
		keys = append(keys, int(k))
	}
	sort.Ints(keys)
	out, _ := captureStdout(func() {
		for _, k := range keys {
			a := uint16(cfg.IoMask)<<8 | uint16(k)
			for i := 0; i < 260; i++ {
				v := uint8(i*7 + 3)
				protect(func() { c.Mem.Store(a, v) })
			}
		}
	})
	// (the ports were probed first: the coprocessor probe below may store to an address that carries a port)
	// coprocessor units (base 0x0200..: plain RAM on every machine)
	b := cfg.F256MCoprocBase
	mul, div := "0", "0"
	protect(func() {
		c.Mem.Store(b+0x10, 0)
		c.Mem.Store(b, 3)
		c.Mem.Store(b+2, 5)
		if c.Mem.Load(b+0x10) == 15 {
			mul = "1"
		}
		c.Mem.Store(b+0x14, 0)
		c.Mem.Store(b+6, 20)
		c.Mem.Store(b+4, 4)
		if c.Mem.Load(b+0x14) == 5 {
			div = "1"
		}
	})
	ps := hex.EncodeToString(out)
	if ps == "" {
		ps = "-"
	}
	return fmt.Sprintf("isa=%s mem=%s mul=%s div=%s ports=%s", isa.String(), memsig, mul, div, ps)
}

var handWritten = 0

func configCase(model, memSpec, asm string, ioMask uint8, io map[uint8]string, flags uint8, base uint16) string {
	cfg := emuconfig.DefaultConfig()
	cfg.Model, cfg.MemSpec, cfg.AsmType = model, memSpec, asm
	cfg.IoMask, cfg.IoAddrConfig = ioMask, io
	cfg.F256MCoprocFlags, cfg.F256MCoprocBase = flags, base
	file := filepath.Join(tmpDir(), "config.json")
	if err := cfg.Save(file); err != nil {
		panic(err)
	}
	handWritten++
	if handWritten%2 == 0 {
		// every second file is written BY HAND with the key names of the README (not by Config.Save, which would follow
		// any change of the struct's JSON mapping); a key whose value is the empty string is left out altogether
		var b strings.Builder
		b.WriteString("{\n")
		kv := func(k, v string) {
			if v != "" {
				fmt.Fprintf(&b, "    %q: %q,\n", k, v)
			}
		}
		kv("Model", model)
		kv("MemSpec", memSpec)
		fmt.Fprintf(&b, "    \"IoMask\": %d,\n    \"IoAddrConfig\": {", ioMask)
		ks := []int{}
		for k := range io {
			ks = append(ks, int(k))
		}
		sort.Ints(ks)
		for i, k := range ks {
			if i > 0 {
				b.WriteString(", ")
			}
			fmt.Fprintf(&b, "\"%d\": %q", k, io[uint8(k)])
		}
		b.WriteString("},\n    \"PreLoad\": {},\n")
		fmt.Fprintf(&b, "    \"F256MCoprocFlags\": %d,\n    \"F256MCoprocBase\": %d,\n", flags, base)
		kv("AsmType", asm)
		b.WriteString("    \"AcmeBinary\": \"acme\",\n    \"AcmeSrcDir\": \"./\",\n    \"AcmeBinDir\": \"./test/bin\",\n    \"AcmeTestDir\": \"./test\"\n}\n")
		if err := os.WriteFile(file, []byte(b.String()), 0600); err != nil {
			panic(err)
		}
		count("config.handwritten")
	}
	keys := []int{}
	for k := range io {
		keys = append(keys, int(k))
	}
	sort.Ints(keys)
	ios := []string{}
	for _, k := range keys {
		ios = append(ios, fmt.Sprintf("%d:%s", k, hex.EncodeToString([]byte(io[uint8(k)]))))
	}
	iostr := strings.Join(ios, ",")
	if iostr == "" {
		iostr = "-"
	}
	hx := func(s string) string {
		if s == "" {
			return "-"
		}
		return hex.EncodeToString([]byte(s))
	}
	req := fmt.Sprintf("config %s %s %s %d %s %d %d", hx(model), hx(memSpec), hx(asm), ioMask, iostr, flags, base)
	pend("%s", req)
	loaded, err := emuconfig.NewConfigFromFile(file)
	if err != nil {
		return req + " => reject"
	}
	c, err := loaded.NewCpu()
	if err != nil {
		return req + " => builderr"
	}
	sig := probeMachine(c, loaded)
	// the machine built from the in-memory configuration (no Save/Load) must behave the same
	rt := "1"
	if c2, err2 := cfg.NewCpu(); err2 != nil || probeMachine(c2, cfg) != sig {
		rt = "0"
	}
	return req + " => ok " + sig + " rt=" + rt
}

func configStream(seed uint64, n int) {
	r := rng.New(seed + 1717)
	defer func() {
		if loadTmp != "" {
			os.RemoveAll(loadTmp)
		}
	}()
	models := []string{"6502", "65C02", "", "6510", "65c02", "65C02 "}
	specs := append(append([]string{}, memSpecs...), "Linear8K", "linear64k", "")
	asms := []string{"", "acme", "64tass", "ca65", "ACME", "nasm"}
	ports := []string{"stdout:16", "stdout:1", "stdout:4", "stdout:bin", "printer:petscii", "stdout:255", "stdout:256", "stdout:259", "stdout:300", "stdout:0", "printer:ascii", "stdout:", "stdout:1x", "stdin:4",
		"printer:", " stdout:16", "stdout:16 ", "stdout:00008", "STDOUT:16", "printer:petscii2", "stdout:bin2", "", " ", "\t"}
	// the acceptance grid
	for _, m := range models {
		for _, s := range specs {
			for _, a := range asms {
				if (m == "6502" || m == "65C02") && r.Chance(70) && a != "" && a != "nasm" {
					continue
				}
				emit(configCase(m, s, a, 0, map[uint8]string{}, 0, 0x0200))
				count("config.grid")
			}
		}
	}
	// the coprocessor's register block in page zero, base 0 included: the units sit exactly at the configured base
	// (every memory type; on the Linear16K..48K machines there is no memory at $DE00 at all)
	for _, s := range memSpecs {
		for _, fl := range []uint8{1, 4, 5} {
			emit(configCase(models[r.Intn(2)], s, "acme", 0, map[uint8]string{}, fl, 0x0000))
			count("config.zeropage")
		}
		emit(configCase(models[r.Intn(2)], s, "acme", 0, map[uint8]string{}, []uint8{1, 4, 5}[r.Intn(3)], []uint16{0x0020, 0x0040, 0x00E8, 0x0080}[r.Intn(4)]))
		count("config.zeropage")
	}
	for i := 0; i < n; i++ {
		m := models[r.Intn(2)]
		s := memSpecs[r.Intn(len(memSpecs))]
		io := map[uint8]string{}
		for k := 0; k < r.Intn(4); k++ {
			p := ports[r.Intn(len(ports))]
			if r.Chance(60) {
				p = ports[r.Intn(10)]
			}
			off := uint8(0xD0 + r.Intn(8))
			if r.Chance(25) {
				// a port on one of the coprocessor's RESULT registers (when the I/O page is the coprocessor's page):
				// the port layer is the outer one, the coprocessor writes its results to the memory below both
				off = uint8(0x10 + r.Intn(4))
			}
			io[off] = p
		}
		flags := []uint8{0, 1, 4, 5, 2, 8, 7}[r.Intn(7)]
		// the register block of the coprocessor starts at the configured address, wherever in its page that is
		base := uint16(0x0200)
		if r.Chance(40) {
			base = []uint16{0x0280, 0x02E8, 0x0340, 0x03A8}[r.Intn(4)]
		}
		if r.Chance(12) {
			// page zero, base 0 included
			base = []uint16{0x0000, 0x0000, 0x0020, 0x00E8}[r.Intn(4)]
		}
		emit(configCase(m, s, asms[r.Intn(4)], uint8([]int{0x2D, 0x10, 0x7F, 0x00, 0xFF, 0x02}[r.Intn(6)]), io, flags, base))
		count("config.random")
	}
}
