package main

import (
	"6502profiler/commands"
	"6502profiler/memory"
	"encoding/hex"
	"fmt"
	"io"
	"os"
	"strings"
	"verifharness/internal/rng"
)

// budgetMem panics after a number of loads: turns a loop that never terminates into a recovered panic
type budgetMem struct {
	memory.Memory
	left int
}

func (b *budgetMem) Load(a uint16) uint8 {
	if b.left <= 0 {
		panic("watchdog")
	}
	b.left--
	return b.Memory.Load(a)
}

// captureStdout runs f with os.Stdout redirected to a temporary file and returns what was written
func captureStdout(f func()) (out []byte, panicked bool) {
	tmp, err := os.CreateTemp("", "verif-stdout")
	if err != nil {
		panic(err)
	}
	defer os.Remove(tmp.Name())
	old := os.Stdout
	os.Stdout = tmp
	func() {
		defer func() {
			if r := recover(); r != nil {
				panicked = true
			}
		}()
		f()
	}()
	os.Stdout = old
	tmp.Seek(0, 0)
	out, _ = io.ReadAll(tmp)
	tmp.Close()
	return out, panicked
}

func dumpCase(start, end uint16, k, c int) string {
	m := memory.NewLinearMemory(65536)
	for a := 0; a < 65536; a++ {
		m.Store(uint16(a), uint8((a*k+c)&0xFF))
	}
	n := int(end) - int(start) + 1
	bm := &budgetMem{Memory: m, left: n + 16}
	out, panicked := captureStdout(func() { memory.Dump(bm, start, end) })
	res := hex.EncodeToString(out)
	if panicked {
		res = "!diverged"
	}
	return fmt.Sprintf("dump %04x %04x %d %d => %s", start, end, k, c, res)
}

var dumpEdges = []uint16{0x0000, 0x0001, 0x000F, 0x0010, 0x00FF, 0x0100, 0x7FFF, 0x8000, 0xFFEF, 0xFFF0, 0xFFF1, 0xFFF7, 0xFFF8, 0xFFFE, 0xFFFF}

func dumpStream(seed uint64, n int) {
	r := rng.New(seed + 2020)
	// every range ending at $FFFF from the edge set, every small length at a few starts
	for _, s := range dumpEdges {
		emit(dumpCase(s, 0xFFFF, 1, 0))
		count("dump.endFFFF")
	}
	for l := 1; l <= 40; l++ {
		for _, s := range []uint16{0x0000, 0x07F8, 0xFFD0} {
			emit(dumpCase(s, s+uint16(l-1), 7, l))
			count("dump.smalllen")
		}
	}
	for i := 0; i < n; i++ {
		var s, e uint16
		if r.Chance(50) {
			s = rng.PickU16(r, dumpEdges)
		} else {
			s = r.Word()
		}
		maxLen := 0x10000 - int(s)
		l := 1 + r.Intn(300)
		if r.Chance(5) {
			l = 1 + r.Intn(maxLen)
		}
		if l > maxLen {
			l = maxLen
		}
		e = s + uint16(l-1)
		emit(dumpCase(s, e, 1+2*r.Intn(100), r.Intn(256)))
		count("dump.random")
	}
	// specification strings
	parts := []string{"0", "1", "16", "255", "256", "65535", "65536", "65520", "99999", "007", "0000000000000000000001", "",
		"-1", "+5", " 5", "5 ", "0x10", "1e3", "18446744073709551616", "৩"}
	for _, a := range parts {
		for _, b := range parts {
			for _, sep := range []string{":", "", "::", ";"} {
				emit(dumpSpecCase(a + sep + b))
				count("dumpspec.grid")
			}
		}
	}
	for i := 0; i < n; i++ {
		a := r.Intn(70000)
		l := r.Intn(70000)
		if r.Chance(50) {
			l = 65536 - a + r.Intn(5) - 2
		}
		s := fmt.Sprintf("%d:%d", a, l)
		if r.Chance(10) {
			s = strings.Repeat("0", r.Intn(4)) + s
		}
		emit(dumpSpecCase(s))
		count("dumpspec.random")
	}
}

func dumpSpecCase(s string) string {
	if s == "" {
		s = ":"
	}
	a, l, err := commands.VerifParseDumpParams(s)
	res := "err"
	if err == nil {
		res = fmt.Sprintf("ok %d %d", a, l)
	}
	return fmt.Sprintf("dumpspec %s => %s", hex.EncodeToString([]byte(s)), res)
}
