// corr runs the real Go code of /repo on generated inputs and writes one line per case:
// "<request> => <what the Go code did>".  The Lean driver reads the same lines, runs the model
// and the specification on the request and compares.
package main

import (
	"bufio"
	"encoding/hex"
	"encoding/json"
	"flag"
	"fmt"
	"os"
	"path/filepath"
	"strings"
)

type stats struct {
	Cases int            `json:"cases"`
	Dist  map[string]int `json:"dist"`
}

var st = stats{Dist: map[string]int{}}

func count(key string) { st.Dist[key]++ }

var out *bufio.Writer

// pending request: what the harness is about to hand to the repository's code.  Written (unbuffered) to <out>.pending
// BEFORE the call; if the process is killed by a fatal runtime error inside the repository's code the file names
// the input that did it.  Removed on a normal end.
var pendingF *os.File

func pend(format string, a ...interface{}) {
	if pendingF == nil {
		return
	}
	pendingF.Truncate(0)
	pendingF.WriteAt([]byte(fmt.Sprintf(format, a...)), 0)
	pendingOff = -1
}

var pendingOff int64 = -1

// pendAppend adds to the pending request (histories: one operation at a time)
func pendAppend(s string) {
	if pendingF == nil {
		return
	}
	if pendingOff < 0 {
		st, err := pendingF.Stat()
		if err != nil {
			return
		}
		pendingOff = st.Size()
	}
	n, _ := pendingF.WriteAt([]byte(s), pendingOff)
	pendingOff += int64(n)
}

func emit(line string) {
	out.WriteString(line)
	out.WriteByte('\n')
	st.Cases++
}

func main() {
	// started through one of the links of the ca65 tool directory (see ca65ToolDir): this binary in the role of the
	// assembler or of the linker of the two step ca65 tool chain
	switch filepath.Base(os.Args[0]) {
	case "ca65":
		fakeCa65Main(os.Args[1:])
		return
	case "cl65":
		fakeCl65Main(os.Args[1:])
		return
	}
	if len(os.Args) < 2 {
		fmt.Fprintln(os.Stderr, "usage: corr <stream> [flags]")
		os.Exit(2)
	}
	stream := os.Args[1]
	if stream == "-I" {
		// invoked as the configured assembler binary: <bin> -I <srcdir> -o <out> -f cbm <source>
		fakeAssemblerMain(os.Args[1:])
		return
	}
	if stream == "isochild" && len(os.Args) >= 7 {
		isoChild(os.Args[2:])
		return
	}
	if stream == "crashchild" && len(os.Args) == 3 {
		crashChild(os.Args[2])
		return
	}
	fs := flag.NewFlagSet(stream, flag.ExitOnError)
	seed := fs.Uint64("seed", 1, "PRNG seed")
	n := fs.Int("n", 100, "size parameter of the stream")
	outFile := fs.String("out", "", "output file (default stdout)")
	statFile := fs.String("stats", "", "distribution file (json)")
	replay := fs.String("replay", "", "re-execute the requests of this file instead of generating")
	tier := fs.String("tier", "quick", "quick|thorough")
	fs.Parse(os.Args[2:])

	var f *os.File = os.Stdout
	if *outFile != "" {
		var err error
		f, err = os.Create(*outFile)
		if err != nil {
			fmt.Fprintln(os.Stderr, err)
			os.Exit(2)
		}
		defer f.Close()
	}
	out = bufio.NewWriterSize(f, 1<<20)
	defer out.Flush()
	if *outFile != "" {
		// the repository's port processors print to os.Stdout: where a stream does not capture that output itself it
		// must not end up (as raw bytes) in the harness's own stdout
		if devnull, err := os.OpenFile(os.DevNull, os.O_WRONLY, 0); err == nil {
			os.Stdout = devnull
		}
	}
	if *outFile != "" {
		pendingF, _ = os.Create(*outFile + ".pending")
		defer func() {
			if pendingF != nil {
				pendingF.Close()
				os.Remove(*outFile + ".pending")
			}
		}()
	}

	if *replay != "" {
		replayFile(*replay)
		out.Flush()
		return
	}
	switch stream {
	case "optable":
		out.Flush()
		optableDump(*outFile)
	case "cpu1":
		cpu1(*seed, *n, *tier)
	case "dump":
		dumpStream(*seed, *n)
	case "profile":
		profileStream(*seed, *n)
	case "luaapi":
		luaapiStream(*seed, *n)
	case "trap":
		trapStream(*seed, *n)
	case "isolation":
		isolationStream(*seed, *n)
	case "verdict":
		verdictStream(*seed, *n)
	case "config":
		configStream(*seed, *n)
	case "caserepo":
		caseRepoStream(*seed, *n)
	case "coproc":
		coprocStream(*seed, *n)
	case "labels":
		labelStream(*seed, *n)
	case "report":
		reportStream(*seed, *n)
	case "load":
		loadStream(*seed, *n, *tier)
	case "hostcrash":
		hostCrashStream(*seed, *n)
	case "cpuruns":
		cpuRuns(*seed, *n)
	case "machcount":
		machCountStream(*seed, *n)
	case "mem04", "mem05", "mem06", "mem07":
		memStream(*seed, *n, int(stream[4]-'0'))
	default:
		fmt.Fprintln(os.Stderr, "unknown stream", stream)
		os.Exit(2)
	}

	if *statFile != "" {
		data, _ := json.MarshalIndent(st, "", " ")
		os.WriteFile(*statFile, data, 0644)
	}
}

// replayFile re-executes the request part of every line of a file (any verb)
func replayFile(file string) {
	data, err := os.ReadFile(file)
	if err != nil {
		fmt.Fprintln(os.Stderr, err)
		os.Exit(2)
	}
	for _, line := range strings.Split(string(data), "\n") {
		req := strings.TrimSpace(strings.SplitN(line, "=>", 2)[0])
		f := strings.Fields(req)
		if len(f) == 0 {
			continue
		}
		pend("%s", req)
		switch f[0] {
		case "run":
			if c, ok := parseRequest(req); ok {
				emit(c.request() + " => " + runGo(c))
			}
		case "mem":
			memReplayLine(req)
		case "dump":
			if len(f) == 5 {
				var s, e uint64
				var k, c int
				fmt.Sscanf(f[1], "%x", &s)
				fmt.Sscanf(f[2], "%x", &e)
				fmt.Sscanf(f[3], "%d", &k)
				fmt.Sscanf(f[4], "%d", &c)
				emit(dumpCase(uint16(s), uint16(e), k, c))
			}
		case "dumpspec":
			if len(f) == 2 {
				b, _ := hex.DecodeString(f[1])
				emit(dumpSpecCase(string(b)))
			}
		default:
			if fn, ok := replayers[f[0]]; ok {
				fn(req)
			}
		}
	}
}

// further verbs register their replay function here
var replayers = map[string]func(req string){}
