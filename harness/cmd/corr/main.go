// corr runs the real Go code of /repo on generated inputs and writes one line per case:
// "<request> => <what the Go code did>".  The Lean driver reads the same lines, runs the model
// and the specification on the request and compares.
package main

import (
	"bufio"
	"encoding/json"
	"flag"
	"fmt"
	"os"
)

type stats struct {
	Cases int            `json:"cases"`
	Dist  map[string]int `json:"dist"`
}

var st = stats{Dist: map[string]int{}}

func count(key string) { st.Dist[key]++ }

var out *bufio.Writer

func emit(line string) {
	out.WriteString(line)
	out.WriteByte('\n')
	st.Cases++
}

func main() {
	if len(os.Args) < 2 {
		fmt.Fprintln(os.Stderr, "usage: corr <stream> [flags]")
		os.Exit(2)
	}
	stream := os.Args[1]
	fs := flag.NewFlagSet(stream, flag.ExitOnError)
	seed := fs.Uint64("seed", 1, "PRNG seed")
	n := fs.Int("n", 100, "size parameter of the stream")
	outFile := fs.String("out", "", "output file (default stdout)")
	statFile := fs.String("stats", "", "distribution file (json)")
	replay := fs.String("replay", "", "re-execute the requests of this file instead of generating")
	tier := fs.String("tier", "quick", "quick|thorough")
	fs.Parse(os.Args[2:])

	var f *os.File = os.Stdout
	if *outFile != "" {
		var err error
		f, err = os.Create(*outFile)
		if err != nil {
			fmt.Fprintln(os.Stderr, err)
			os.Exit(2)
		}
		defer f.Close()
	}
	out = bufio.NewWriterSize(f, 1<<20)
	defer out.Flush()

	switch stream {
	case "cpu1":
		if *replay != "" {
			cpuReplay(*replay)
		} else {
			cpu1(*seed, *n, *tier)
		}
	case "cpuruns":
		cpuRuns(*seed, *n)
	case "mem04", "mem05", "mem06", "mem07":
		if *replay != "" {
			memReplay(*replay)
		} else {
			memStream(*seed, *n, int(stream[4]-'0'))
		}
	default:
		fmt.Fprintln(os.Stderr, "unknown stream", stream)
		os.Exit(2)
	}

	if *statFile != "" {
		data, _ := json.MarshalIndent(st, "", " ")
		os.WriteFile(*statFile, data, 0644)
	}
}
