package main

import (
	"6502profiler/cpu"
	"6502profiler/emuconfig"
	"encoding/hex"
	"fmt"
	"os"
	"path/filepath"
	"strings"
	"verifharness/internal/rng"
)

var loadTmp string

func tmpDir() string {
	if loadTmp == "" {
		d, err := os.MkdirTemp("", "verif-load")
		if err != nil {
			panic(err)
		}
		loadTmp = d
	}
	return loadTmp
}

func loadCase(spec string, file []byte) string {
	pend("load %s %s", spec, hex.EncodeToString(file))
	p := filepath.Join(tmpDir(), "prog.bin")
	os.WriteFile(p, file, 0600)
	cfg := emuconfig.DefaultConfig()
	cfg.MemSpec = spec
	c, err := cfg.NewCpu()
	if err != nil {
		panic(err)
	}
	var a, l uint16
	crashed := protect(func() { a, l, err = c.Load(p) })
	res := fmt.Sprintf("ok %d %d", a, l)
	if err != nil {
		res = "err"
	}
	if crashed {
		res = "hostcrash"
	}
	fh := hex.EncodeToString(file)
	if fh == "" {
		fh = "-"
	}
	return fmt.Sprintf("load %s %s => %s | D%s", spec, fh, res, imageOf(spec, c.Mem))
}

func load2Case(spec string, fa, fb []byte) string {
	pend("load2 %s %s %s", spec, hex.EncodeToString(fa), hex.EncodeToString(fb))
	p := filepath.Join(tmpDir(), "prog.bin")
	cfg := emuconfig.DefaultConfig()
	cfg.MemSpec = spec
	c, err := cfg.NewCpu()
	if err != nil {
		panic(err)
	}
	res := []string{}
	for _, f := range [][]byte{fa, fb} {
		os.WriteFile(p, f, 0600)
		var a, l uint16
		var lerr error
		crashed := protect(func() { a, l, lerr = c.Load(p) })
		switch {
		case crashed:
			res = append(res, "hostcrash")
		case lerr != nil:
			res = append(res, "err")
		default:
			res = append(res, fmt.Sprintf("ok_%d_%d", a, l))
		}
	}
	return fmt.Sprintf("load2 %s %s %s => %s | D%s", spec, hex.EncodeToString(fa), hex.EncodeToString(fb), strings.Join(res, ";"), imageOf(spec, c.Mem))
}

func preloadCase(spec string, addr uint16, data []byte) string {
	p := filepath.Join(tmpDir(), "rom.bin")
	os.WriteFile(p, data, 0600)
	cfg := emuconfig.DefaultConfig()
	cfg.MemSpec = spec
	cfg.PreLoad = map[uint16]string{addr: p}
	var c *cpu.CPU6502
	var err error
	crashed := protect(func() { c, err = cfg.NewCpu() })
	if crashed {
		return fmt.Sprintf("preload %s %04x %s => hostcrash | D", spec, addr, hex.EncodeToString(data))
	}
	if err != nil {
		// the machine is not returned on error: only the verdict is observable
		return fmt.Sprintf("preload %s %04x %s => err | D", spec, addr, hex.EncodeToString(data))
	}
	return fmt.Sprintf("preload %s %04x %s => ok | D%s", spec, addr, hex.EncodeToString(data), imageOf(spec, c.Mem))
}

func loadStream(seed uint64, n int, tier string) {
	r := rng.New(seed + 1313)
	defer func() {
		if loadTmp != "" {
			os.RemoveAll(loadTmp)
		}
	}()
	headers := []uint16{0x0000, 0x00FF, 0x0800, 0x3FF0, 0x3FFC, 0x3FFE, 0x3FFF, 0x4000, 0x7FFC, 0x7FFF, 0x8000, 0xBFFE, 0xBFFF, 0xC000,
		0x9FFE, 0xA000, 0xDDFE, 0xDFFC, 0xFFF0, 0xFFFE, 0xFFFF}
	payload := func(n int) []byte {
		b := make([]byte, n)
		for i := range b {
			b[i] = r.Byte() | 1
			if r.Chance(10) {
				// programs contain zero bytes (BRK, operands, tables): they are stored like any other byte
				b[i] = 0
			}
		}
		return b
	}
	mk := func(h uint16, n int) []byte { return append([]byte{uint8(h), uint8(h >> 8)}, payload(n)...) }
	for _, spec := range memSpecs {
		// lengths 0..4 exhaustively (0..2 are "no program data")
		for l := 0; l <= 4; l++ {
			emit(loadCase(spec, payload(l)))
			count("load.tiny")
		}
		for _, h := range headers {
			for _, l := range []int{1, 2, 3, 4, 17, 300} {
				emit(loadCase(spec, mk(h, l)))
				count("load.edge")
			}
		}
		for i := 0; i < n; i++ {
			emit(loadCase(spec, mk(r.Word(), 1+r.Intn(500))))
			count("load.random")
		}
		for _, h := range []uint16{0x3FFE, 0xFFF0, 0x0800, 0x0000, 0x0010} {
			emit(preloadCase(spec, h, payload(40)))
			count("preload")
		}
		emit(preloadCase(spec, 0x0200, payload(700)))
		count("preload")
		// two files loaded one after the other into the same machine: the second is placed by the same rule, whatever
		// the first left behind
		for i := 0; i < 4+n/8; i++ {
			h := rng.PickU16(r, headers)
			if i%2 == 1 {
				h = r.Word()
			}
			fa := mk(h, 1+r.Intn(120))
			fb := mk(h+uint16(r.Intn(8)), 1+r.Intn(120))
			if i%4 == 0 {
				for j := 2; j < len(fb); j += 2 {
					fb[j] = 0
				}
			}
			emit(load2Case(spec, fa, fb))
			count("load2")
		}
	}
	// the largest file of the property's range: a payload of 65535 bytes (the most a 16-bit length can report)
	emit(loadCase("Linear64K", mk(0x0000, 65535)))
	emit(loadCase("Linear64K", mk(0x0801, 65535)))
	count("load.max")
	count("load.max")
	if tier == "thorough" {
		for _, spec := range []string{"Linear64K", "Linear32K", "XSixteen512K"} {
			for _, l := range []int{65535, 65534, 40000} {
				emit(loadCase(spec, mk(rng.PickU16(r, headers), l)))
				count("load.big")
			}
		}
	}
	_ = strings.Join
}
