package main

import (
	"6502profiler/assembler"
	"6502profiler/caseexec"
	"6502profiler/commands"
	"6502profiler/cpu"
	"6502profiler/emuconfig"
	"6502profiler/memory"
	"6502profiler/verifier"
	"fmt"
	"io"
	"os"
	"os/exec"
	"path/filepath"
	"regexp"
	"strings"
	"verifharness/internal/rng"
)

// fakeAsm: an assembler.Assembler whose Assemble returns the path of a binary the generator wrote
// (the repository's assemblers are external programs that do not exist in this sandbox)
type fakeAsm struct {
	bins  map[string]string // source name -> binary path ("" = assembling fails)
	onAsm func(name string)
}

func (f *fakeAsm) Assemble(fileName string) (string, error) {
	if f.onAsm != nil {
		f.onAsm(fileName)
	}
	p, ok := f.bins[fileName]
	if !ok || p == "" {
		return "", fmt.Errorf("unable to assemble '%s'", fileName)
	}
	return p, nil
}
func (f *fakeAsm) ParseLabelFile(string) (map[uint16][]string, error) { return nil, nil }
func (f *fakeAsm) GetErrorMessage() string                            { return "" }
func (f *fakeAsm) GetDefaultSrc() string                              { return "" }

type fakeAsmProv struct{ a assembler.Assembler }

func (p fakeAsmProv) GetAssembler() assembler.Assembler { return p.a }

func writeFile(dir, name string, data []byte) string {
	p := filepath.Join(dir, name)
	os.WriteFile(p, data, 0600)
	return p
}

func prg(addr uint16, code ...uint8) []byte {
	return append([]byte{uint8(addr), uint8(addr >> 8)}, code...)
}

// ---------------------------------------------------------------------------------------
// C09: verdicts

var numIterKinds = []string{"absent", "raise", "0", "1", "3", "2.5", "str3", "nil", "true", "table", "0.5", "0.999", "huge"}
var assertKinds = []string{"true", "false", "nil", "1", "strtrue", "nothing", "truemsg", "raise"}
var binKinds = []string{"brk", "brk", "brk", "illegal", "bcd", "unmapped", "short", "asmfail", "trapok", "trapraise", "trapmissing", "trapruntime", "trapfirstraise", "trapsecondraise", "toobig"}

// the codes the data sheets leave undefined (MOS MCS6500 family programming manual: 105 of 256; Rockwell/WDC 65C02 with the
// bit instructions: 44 of 256).  RTI and - on the 65C02 - STP ($DB) and WAI ($CB) are defined by the data sheets and are
// not in these lists.  The driver cross-checks every code it is sent against the specification's decoder.
var undef6502 = []uint8{
	0x02, 0x03, 0x04, 0x07, 0x0b, 0x0c, 0x0f, 0x12, 0x13, 0x14, 0x17, 0x1a, 0x1b, 0x1c, 0x1f, 0x22, 0x23, 0x27, 0x2b, 0x2f, 0x32, 0x33,
	0x34, 0x37, 0x3a, 0x3b, 0x3c, 0x3f, 0x42, 0x43, 0x44, 0x47, 0x4b, 0x4f, 0x52, 0x53, 0x54, 0x57, 0x5a, 0x5b, 0x5c, 0x5f, 0x62, 0x63,
	0x64, 0x67, 0x6b, 0x6f, 0x72, 0x73, 0x74, 0x77, 0x7a, 0x7b, 0x7c, 0x7f, 0x80, 0x82, 0x83, 0x87, 0x89, 0x8b, 0x8f, 0x92, 0x93, 0x97,
	0x9b, 0x9c, 0x9e, 0x9f, 0xa3, 0xa7, 0xab, 0xaf, 0xb2, 0xb3, 0xb7, 0xbb, 0xbf, 0xc2, 0xc3, 0xc7, 0xcb, 0xcf, 0xd2, 0xd3, 0xd4, 0xd7,
	0xda, 0xdb, 0xdc, 0xdf, 0xe2, 0xe3, 0xe7, 0xeb, 0xef, 0xf2, 0xf3, 0xf4, 0xf7, 0xfa, 0xfb, 0xfc, 0xff}
var undef65C02 = []uint8{
	0x02, 0x03, 0x0b, 0x13, 0x1b, 0x22, 0x23, 0x2b, 0x33, 0x3b, 0x42, 0x43, 0x44, 0x4b, 0x53, 0x54, 0x5b, 0x5c, 0x62, 0x63, 0x6b, 0x73,
	0x7b, 0x82, 0x83, 0x8b, 0x93, 0x9b, 0xa3, 0xab, 0xb3, 0xbb, 0xc2, 0xc3, 0xd3, 0xd4, 0xdc, 0xe2, 0xe3, 0xeb, 0xf3, 0xf4, 0xfb, 0xfc}

// undefWalk: all (model, undefined code) pairs in an order drawn from the stream's rng, handed out one after the other, so
// that the random cases of a stream cover the whole negative space of both decode tables as evenly as their number allows
var undefWalk []string

func nextUndef(r *rng.R) string {
	if len(undefWalk) == 0 {
		for _, o := range undef6502 {
			undefWalk = append(undefWalk, fmt.Sprintf("undef.6502.%02x", o))
		}
		for _, o := range undef65C02 {
			undefWalk = append(undefWalk, fmt.Sprintf("undef.65C02.%02x", o))
		}
		for i := len(undefWalk) - 1; i > 0; i-- {
			j := r.Intn(i + 1)
			undefWalk[i], undefWalk[j] = undefWalk[j], undefWalk[i]
		}
	}
	u := undefWalk[len(undefWalk)-1]
	undefWalk = undefWalk[:len(undefWalk)-1]
	return u
}

// fixed boundary drivers: the first and last undefined code of every column that has one, codes that are instructions
// on the other model only, on both models
var verdictFixed = []string{
	"undef.6502.02", "undef.6502.03", "undef.6502.0b", "undef.6502.80", "undef.6502.1a", "undef.6502.ff", "undef.6502.fc", "undef.6502.89",
	"undef.65C02.02", "undef.65C02.03", "undef.65C02.13", "undef.65C02.0b", "undef.65C02.33", "undef.65C02.fb", "undef.65C02.f3", "undef.65C02.5c",
	"undef.65C02.44", "undef.65C02.fc",
}

func luaNumIters(kind string) string {
	switch kind {
	case "absent":
		return ""
	case "raise":
		return "function num_iterations() error('boom') end\n"
	case "str3":
		return "function num_iterations() return '3' end\n"
	case "table":
		return "function num_iterations() return {} end\n"
	case "huge":
		// 2^63 iterations (the run ends at the first assert that does not return true: the generator plants one)
		return "function num_iterations() return 9223372036854775808 end\n"
	}
	return "function num_iterations() return " + kind + " end\n"
}

func luaReturn(kind string) string {
	switch kind {
	case "strtrue":
		return "return 'true'"
	case "nothing":
		return "return"
	case "truemsg":
		return "return true, 'fine'"
	case "raise":
		return "error('assert boom')"
	}
	return "return " + kind
}

// longDriver: three nested countdown loops, 82 * 256 * (256 * 5 + 5) + ... = about 27 million clock cycles, then the marker
// $5A at $0300, then the BRK
var longDriver = prg(0x0800,
	0xA9, 0x52, 0x85, 0x10, // LDA #82; STA $10
	0xA2, 0x00, 0xA0, 0x00, // LDX #0; LDY #0
	0xCA, 0xD0, 0xFD, // l: DEX; BNE l
	0x88, 0xD0, 0xFA, // DEY; BNE l
	0xC6, 0x10, 0xD0, 0xF6, // DEC $10; BNE l
	0xA9, 0x5A, 0x8D, 0x00, 0x03, 0x00) // LDA #$5A; STA $0300; BRK

func verdictCase(r *rng.R, dir string, fixedBin string) string {
	ni := numIterKinds[r.Intn(len(numIterKinds))]
	if r.Chance(60) {
		ni = []string{"absent", "1", "3", "2.5"}[r.Intn(4)]
	}
	bin := binKinds[r.Intn(len(binKinds))]
	if r.Chance(60) {
		bin = "brk"
	}
	n := 4
	asserts := make([]string, n)
	for i := range asserts {
		if r.Chance(85) {
			asserts[i] = []string{"true", "truemsg"}[r.Intn(2)]
		} else {
			asserts[i] = assertKinds[r.Intn(len(assertKinds))]
		}
	}
	if ni == "huge" {
		asserts[1] = "false"
	}
	arrangeErrAt := -1
	if r.Chance(12) {
		arrangeErrAt = r.Intn(3)
	}
	scriptBroken := r.Chance(5)
	// a driver that runs into an undefined opcode: `undef.<model>.<code>`; the case fails whatever the script says, so most of
	// these come with a script that leaves nothing else to fail the case
	model := "6502"
	if r.Chance(11) {
		// (a ninth of the cases: a quick run of 1500 walks once through all 149 pairs)
		bin = nextUndef(r)
	}
	if fixedBin != "" {
		bin = fixedBin
	}
	if bin == "long" || bin == "longmark" {
		// a driver that needs about 27 million clock cycles before it stores its marker and reaches its BRK: one iteration,
		// nothing else that could fail the case
		ni = []string{"absent", "1"}[r.Intn(2)]
		for i := range asserts {
			asserts[i] = []string{"true", "truemsg"}[r.Intn(2)]
		}
		arrangeErrAt, scriptBroken = -1, false
		count("verdict." + bin)
	}
	if strings.HasPrefix(bin, "undef.") {
		model = strings.Split(bin, ".")[1]
		count("verdict.undef." + model)
		if fixedBin != "" || r.Chance(70) {
			ni = []string{"absent", "1", "3"}[r.Intn(3)]
			for i := range asserts {
				asserts[i] = []string{"true", "truemsg"}[r.Intn(2)]
			}
			arrangeErrAt, scriptBroken = -1, false
		}
	}
	var sb strings.Builder
	sb.WriteString("iter = 0\n")
	sb.WriteString(luaNumIters(ni))
	fmt.Fprintf(&sb, "function arrange()\n  set_pc(load_address)\n  if iter == %d then error('arrange boom') end\nend\n", arrangeErrAt)
	sb.WriteString("function assert()\n  iter = iter + 1\n")
	if bin == "longmark" {
		// true only if the driver got as far as its last store
		sb.WriteString("  if read_byte(0x0300) ~= 0x5A then return false, 'marker missing' end\n")
	}
	for i, a := range asserts {
		fmt.Fprintf(&sb, "  if iter == %d then %s end\n", i+1, luaReturn(a))
	}
	sb.WriteString("  return true\nend\n")
	switch bin {
	case "trapok":
		sb.WriteString("function trap(c) set_yreg(c) end\n")
	case "trapraise":
		sb.WriteString("function trap(c) error('trap boom') end\n")
	case "trapruntime":
		sb.WriteString("function trap(c) local t = nil; t.x = c end\n")
	case "trapfirstraise":
		// the driver stores to the trap address twice per run: only the first call of a run raises
		sb.WriteString("tcalls = 0\nfunction trap(c) tcalls = tcalls + 1; if tcalls % 2 == 1 then error('first trap boom') end end\n")
	case "trapsecondraise":
		sb.WriteString("tcalls = 0\nfunction trap(c) tcalls = tcalls + 1; if tcalls % 2 == 0 then error('second trap boom') end end\n")
	}
	if scriptBroken {
		sb.WriteString("this is not lua\n")
	} else if r.Chance(25) {
		// a script may end with a chunk-level return: it has nothing to do with the verdict
		sb.WriteString([]string{"return true\n", "return false\n", "return 1, 2, 3\n"}[r.Intn(3)])
	}
	writeFile(dir, "case.lua", []byte(sb.String()))
	var code []byte
	switch bin {
	case "brk":
		code = prg(0x0800, 0xE8, 0x00)
	case "illegal":
		code = prg(0x0800, 0xE8, 0x02, 0x00)
	case "bcd":
		code = prg(0x0800, 0xF8, 0xA9, 0x1A, 0x69, 0x01, 0x00) // SED; LDA #$1A; ADC #1
	case "unmapped":
		code = prg(0x0800, 0xAD, 0x00, 0x90, 0x00) // LDA $9000 on a 32K machine
	case "short":
		code = []byte{0x00, 0x08}
	case "toobig":
		// a driver that does not fit into the memory of the machine (32K): loading faults, although what does fit is a BRK
		code = prg(0x7FFE, 0x00, 0x00, 0x00, 0x00)
	case "long", "longmark":
		code = longDriver
	case "trapok", "trapraise", "trapmissing", "trapruntime":
		code = prg(0x0800, 0xA9, 0x42, 0x8D, 0x00, 0x7F, 0xE8, 0x00) // LDA #$42; STA $7F00 (trap); INX
	case "trapfirstraise", "trapsecondraise":
		code = prg(0x0800, 0xA9, 0x42, 0x8D, 0x00, 0x7F, 0xE8, 0x8D, 0x00, 0x7F, 0x00) // two stores to the trap address
	}
	if strings.HasPrefix(bin, "undef.") {
		// INX; the undefined code; BRKs (whatever length something executing the code as an instruction gives it)
		var o uint8
		fmt.Sscanf(strings.Split(bin, ".")[2], "%02x", &o)
		code = prg(0x0800, 0xE8, o, 0x00, 0x00, 0x00, 0x00)
	}
	fa := &fakeAsm{bins: map[string]string{}}
	if bin != "asmfail" {
		fa.bins["drv.a"] = writeFile(dir, "drv.bin", code)
	}
	cfg := emuconfig.DefaultConfig() // 6502, Linear32K
	cfg.Model = model
	c, _ := cfg.NewCpu()
	tc := &verifier.TestCase{Name: "t", TestDriverSource: "drv.a", TestScript: "case.lua"}
	var err error
	var ph *memory.PlaceholderWrapper
	if strings.HasPrefix(bin, "trap") {
		ph = memory.NewPlaceholderWrapper(c.Mem, 0x7F00)
		c.Mem = ph.Wrapper
	}
	crashed := false
	viaCmd := r.Chance(40)
	if bin == "long" {
		// (the machine is looked at after the run: through Execute)
		viaCmd = false
	}
	if viaCmd {
		// through the real `verify` command: configuration file, case file, this binary as the assembler
		count("verdict.verifycommand")
		self, e := os.Executable()
		if e != nil {
			panic(e)
		}
		vcfg := emuconfig.DefaultConfig()
		vcfg.Model = model
		vcfg.AcmeBinary, vcfg.AcmeTestDir, vcfg.AcmeSrcDir, vcfg.AcmeBinDir = self, dir, dir, filepath.Join(dir, "bin")
		cfgDir, e := os.MkdirTemp("", "verif-verdictcfg")
		if e != nil {
			panic(e)
		}
		defer os.RemoveAll(cfgDir)
		cfgFile := filepath.Join(cfgDir, "config.json")
		if e := vcfg.Save(cfgFile); e != nil {
			panic(e)
		}
		src := "; driver\n;hex " + hexOf(code) + "\n"
		if bin == "asmfail" {
			src = "; driver\n;fail\n"
		}
		writeFile(dir, "drv.a", []byte(src))
		writeFile(dir, "t.json", []byte(`{"Name":"t","TestDriverSource":"drv.a","TestScript":"case.lua"}`))
		args := []string{"-c", cfgFile, "-t", "t"}
		if strings.HasPrefix(bin, "trap") {
			args = append(args, "-trapaddr", "32512")
		}
		_, crashed = captureStdout(func() { err = commands.VerifyCommand(args) })
		os.Remove(filepath.Join(dir, "t.json"))
	} else {
		crashed = protect(func() { err = tc.Execute(c, fa, dir, nil, ph, "id") })
	}
	res := "ok"
	if err != nil {
		res = "fail"
	}
	if crashed {
		res = "hostcrash"
	}
	if bin == "long" && res == "ok" && c.Mem.Load(0x0300) != 0x5A {
		// reported OK although the driver never got to its last store, let alone its BRK
		res = "cutshort"
	}
	sb2 := "0"
	if scriptBroken {
		sb2 = "1"
	}
	count("verdict." + res)
	return fmt.Sprintf("verdict %s %s %s %d %s => %s", bin, ni, strings.Join(asserts, ","), arrangeErrAt, sb2, res)
}

// fakeAssemblerMain: this binary in the role of the external assembler (configured as AcmeBinary).  A "source file"
// written by the generator holds the program as hex after `;hex `; a source containing `;fail` does not assemble.
func fakeAssemblerMain(args []string) {
	out, src := "", args[len(args)-1]
	for i := 0; i+1 < len(args); i++ {
		if args[i] == "-o" {
			out = args[i+1]
		}
	}
	data, err := os.ReadFile(src)
	if err != nil || out == "" {
		fmt.Println("fake assembler: cannot read source")
		os.Exit(1)
	}
	text := string(data)
	if strings.Contains(text, ";fail") {
		fmt.Println("fake assembler: error in line 1")
		os.Exit(1)
	}
	i := strings.Index(text, ";hex ")
	if i < 0 {
		fmt.Println("fake assembler: no program")
		os.Exit(1)
	}
	hx := strings.TrimSpace(strings.SplitN(text[i+5:], "\n", 2)[0])
	bin := []byte{}
	for k := 0; k+1 < len(hx); k += 2 {
		var b uint8
		fmt.Sscanf(hx[k:k+2], "%02x", &b)
		bin = append(bin, b)
	}
	os.MkdirAll(filepath.Dir(out), 0700)
	if err := os.WriteFile(out, bin, 0600); err != nil {
		fmt.Println("fake assembler: cannot write output")
		os.Exit(1)
	}
}

// ---------------------------------------------------------------------------------------
// the two step tool chain of AsmType ca65: `<dir>/ca65 -I <src> -o <obj> <source>` and then
// `<dir>/cl65 -C c64-asm.cfg --start-addr 0x.... -o <bin> <obj>`

// ca65ToolDir makes a directory with two entries `ca65` and `cl65` that are this executable (links, or copies where the
// file system has no links)
func ca65ToolDir(dir string) string {
	self, err := os.Executable()
	if err != nil {
		panic(err)
	}
	td := filepath.Join(dir, "ca65tools")
	os.RemoveAll(td)
	if err := os.MkdirAll(td, 0700); err != nil {
		panic(err)
	}
	for _, nm := range []string{"ca65", "cl65"} {
		p := filepath.Join(td, nm)
		if os.Symlink(self, p) == nil {
			continue
		}
		data, err := os.ReadFile(self)
		if err != nil {
			panic(err)
		}
		if err := os.WriteFile(p, data, 0700); err != nil {
			panic(err)
		}
	}
	return td
}

func toolArgs(args []string) (out string, last string) {
	for i := 0; i+1 < len(args); i++ {
		if args[i] == "-o" {
			out = args[i+1]
		}
	}
	if len(args) > 0 {
		last = args[len(args)-1]
	}
	return
}

// fakeCa65Main: the assembler step.  The object file is a header line followed by the source text; a source containing
// `;fail` does not assemble (no object file is written).
func fakeCa65Main(args []string) {
	out, src := toolArgs(args)
	data, err := os.ReadFile(src)
	if err != nil || out == "" || len(args) < 5 || args[0] != "-I" {
		fmt.Println("fake ca65: bad command line or unreadable source")
		os.Exit(1)
	}
	if strings.Contains(string(data), ";fail") {
		fmt.Println("fake ca65: drv.s(1): Error: Illegal addressing mode")
		os.Exit(1)
	}
	os.MkdirAll(filepath.Dir(out), 0700)
	if err := os.WriteFile(out, append([]byte("FAKEOBJ\n"), data...), 0600); err != nil {
		fmt.Println("fake ca65: cannot write object file")
		os.Exit(1)
	}
}

// fakeCl65Main: the link step.  An object whose source contained `;linkfail` does not link: the output file is left as
// it is (the real linker does not produce one either) and the exit status is 1.
func fakeCl65Main(args []string) {
	out, obj := toolArgs(args)
	data, err := os.ReadFile(obj)
	text := string(data)
	if err != nil || out == "" || !strings.HasPrefix(text, "FAKEOBJ\n") {
		fmt.Println("fake cl65: bad command line or not an object file")
		os.Exit(1)
	}
	start := ""
	for i := 0; i+1 < len(args); i++ {
		if args[i] == "--start-addr" {
			start = args[i+1]
		}
	}
	if strings.Contains(text, ";linkfail") {
		fmt.Println("ld65: Error: Unresolved external 'mul16' referenced in: drv.s(3)")
		os.Exit(1)
	}
	i := strings.Index(text, ";hex ")
	if i < 0 {
		fmt.Println("fake cl65: no program")
		os.Exit(1)
	}
	hx := strings.TrimSpace(strings.SplitN(text[i+5:], "\n", 2)[0])
	bin := []byte{}
	for k := 0; k+1 < len(hx); k += 2 {
		var b uint8
		fmt.Sscanf(hx[k:k+2], "%02x", &b)
		bin = append(bin, b)
	}
	// the program starts with its load address, which the linker is told on its command line
	if len(bin) < 2 || start != fmt.Sprintf("0x%02x%02x", bin[1], bin[0]) {
		fmt.Println("fake cl65: --start-addr does not name the load address of the program")
		os.Exit(1)
	}
	if err := os.WriteFile(out, bin, 0600); err != nil {
		fmt.Println("fake cl65: cannot write output")
		os.Exit(1)
	}
}

// ca65Kinds: the driver kinds of the cases that go through the real commands with AsmType ca65.  `.stale`: the binary
// directory (it is persistent between runs of the commands) still holds the binary of an earlier, successful build of the
// same driver: INX; BRK, which satisfies the script.  A case whose driver can not be built has failed all the same.
var ca65Kinds = []string{"ca65ok", "ca65ok.stale", "ca65asmfail", "ca65asmfail.stale", "ca65linkfail", "ca65linkfail.stale"}

// verdictCa65Case: one case through commands.VerifyCommand (or, a third of the time, VerifyAllCommand on a test directory
// that holds this case only) with a configuration of AsmType ca65 whose tool directory is toolDir
func verdictCa65Case(r *rng.R, dir, toolDir, kind string) string {
	td := filepath.Join(dir, "ca65case")
	os.RemoveAll(td)
	binDir := filepath.Join(td, "bin")
	if err := os.MkdirAll(binDir, 0700); err != nil {
		panic(err)
	}
	ni := []string{"absent", "1", "3", "2.5"}[r.Intn(4)]
	asserts := make([]string, 4)
	for i := range asserts {
		asserts[i] = []string{"true", "truemsg"}[r.Intn(2)]
	}
	if kind == "ca65ok" && r.Chance(25) {
		// the tool chain works: the verdict is the script's
		asserts[r.Intn(2)] = assertKinds[r.Intn(len(assertKinds))]
	}
	var sb strings.Builder
	sb.WriteString("iter = 0\n")
	sb.WriteString(luaNumIters(ni))
	sb.WriteString("function arrange()\n  set_pc(load_address)\nend\n")
	sb.WriteString("function assert()\n  iter = iter + 1\n")
	for i, a := range asserts {
		fmt.Fprintf(&sb, "  if iter == %d then %s end\n", i+1, luaReturn(a))
	}
	sb.WriteString("  return true\nend\n")
	writeFile(td, "case.lua", []byte(sb.String()))
	writeFile(td, "t.json", []byte(`{"Name":"t","TestDriverSource":"drv.s","TestScript":"case.lua"}`))

	vcfg := emuconfig.DefaultConfig()
	vcfg.AsmType = emuconfig.AsmCa65
	vcfg.AcmeBinary, vcfg.AcmeTestDir, vcfg.AcmeSrcDir, vcfg.AcmeBinDir = toolDir, td, td, binDir
	cfgDir, e := os.MkdirTemp("", "verif-ca65cfg")
	if e != nil {
		panic(e)
	}
	defer os.RemoveAll(cfgDir)
	cfgFile := filepath.Join(cfgDir, "config.json")
	if e := vcfg.Save(cfgFile); e != nil {
		panic(e)
	}
	viaAll := r.Chance(33)
	run := func() string {
		var err error
		var crashed bool
		if viaAll {
			_, crashed = captureStdout(func() { err = commands.VerifyAllCommand([]string{"-c", cfgFile}) })
		} else {
			_, crashed = captureStdout(func() { err = commands.VerifyCommand([]string{"-c", cfgFile, "-t", "t"}) })
		}
		switch {
		case crashed:
			return "hostcrash"
		case err != nil:
			return "fail"
		}
		return "ok"
	}
	good := "; driver\n;hex " + hexOf(prg(0x0800, 0xE8, 0x00)) + "\n"
	res := ""
	if strings.HasSuffix(kind, ".stale") {
		if r.Bool() {
			// an earlier build of the driver, through the same command, that went well
			writeFile(td, "drv.s", []byte(good))
			if first := run(); first != "ok" {
				res = "earlier-build-" + first
			}
		} else {
			// left there by whatever built the driver last
			writeFile(binDir, "drv.s.bin", prg(0x0800, 0xE8, 0x00))
		}
	}
	// the driver as it is now: two INX (the earlier build had one), and possibly something that one of the steps refuses
	src := "; driver\n"
	switch strings.TrimSuffix(kind, ".stale") {
	case "ca65asmfail":
		src += ";fail\n"
	case "ca65linkfail":
		src += ".import mul16 ;linkfail\n"
	}
	src += ";hex " + hexOf(prg(0x0800, 0xE8, 0xE8, 0x00)) + "\n"
	writeFile(td, "drv.s", []byte(src))
	pend("verdict %s %s %s -1 0", kind, ni, strings.Join(asserts, ","))
	if res == "" {
		res = run()
	}
	count("verdict." + strings.TrimSuffix(kind, ".stale"))
	if viaAll {
		count("verdict.ca65.verifyallcommand")
	} else {
		count("verdict.ca65.verifycommand")
	}
	count("verdict." + res)
	return fmt.Sprintf("verdict %s %s %s -1 0 => %s", kind, ni, strings.Join(asserts, ","), res)
}

// suiteViaCommand: the same suite through the real commands.VerifyAllCommand with a configuration file whose
// assembler binary is this program (see fakeAssemblerMain)
func suiteViaCommand(sub string, verbose bool, prexec, trap bool) string {
	self, err := os.Executable()
	if err != nil {
		panic(err)
	}
	cfg := emuconfig.DefaultConfig()
	cfg.AcmeBinary = self
	cfg.AcmeTestDir = sub
	cfg.AcmeSrcDir = sub
	cfg.AcmeBinDir = filepath.Join(sub, "bin")
	os.MkdirAll(cfg.AcmeBinDir, 0700)
	cfgDir, err := os.MkdirTemp("", "verif-suitecfg")
	if err != nil {
		panic(err)
	}
	defer os.RemoveAll(cfgDir)
	cfgFile := filepath.Join(cfgDir, "config.json")
	if err := cfg.Save(cfgFile); err != nil {
		panic(err)
	}
	args := []string{"-c", cfgFile}
	if verbose {
		args = append(args, "-verbose")
	}
	if trap {
		args = append(args, "-trapaddr", "32512")
	}
	if prexec {
		args = append(args, "-prexec", "setup.a")
	}
	var cerr error
	outb, panicked := captureStdout(func() { cerr = commands.VerifyAllCommand(args) })
	if panicked {
		return "hostcrash"
	}
	if cerr != nil {
		return "fail"
	}
	m := regexp.MustCompile(`(\d+) tests successfully executed`).FindStringSubmatch(string(outb))
	if m == nil {
		return "ok ?"
	}
	return "ok " + m[1]
}

// suiteSeq: number of the suite within the stream (the first two are fixed boundary suites)
var suiteSeq = 0

// suiteCase: verifyall through CaseExec and IterateTestCases: count and overall result
func suiteCase(r *rng.R, dir string) string {
	sub := filepath.Join(dir, "suite")
	os.RemoveAll(sub)
	os.MkdirAll(sub, 0700)
	n := 1 + r.Intn(5)
	verdicts := []string{}
	viaCmd := r.Chance(50)
	// case files that are symbolic links into another directory (a case shared between projects): every case file present
	// in the test directory counts, whatever kind of directory entry it is.  Fixed: three cases of which the linked one is the
	// only one that fails (through CaseExec), three passing cases one of which is linked (through the command: the count);
	// random: a fifth of the suites have one linked case (which fails half of the time) and possibly more
	suiteSeq++
	fixedLink := suiteSeq <= 2
	links := fixedLink || r.Chance(20)
	linkAt := -1
	if links {
		linkAt = r.Intn(n)
	}
	if fixedLink {
		n, viaCmd, linkAt = 3, suiteSeq == 2, 1
	}
	linkDir := filepath.Join(dir, "linked")
	os.RemoveAll(linkDir)
	os.MkdirAll(linkDir, 0700)
	fa := &fakeAsm{bins: map[string]string{}}
	fa.bins["ok.a"] = writeFile(sub, "ok.bin", prg(0x0800, 0xE8, 0x00))
	fa.bins["bad.a"] = writeFile(sub, "bad.bin", prg(0x0800, 0x02))
	// the "sources" for the fake assembler executable (command path)
	writeFile(sub, "ok.a", []byte("; driver\n;hex 0008e800\n"))
	writeFile(sub, "bad.a", []byte("; driver\n;hex 000802\n"))
	writeFile(sub, "noasm.a", []byte("; driver\n;fail\n"))
	writeFile(sub, "pass.lua", []byte("function arrange() end\nfunction assert() return true end\n"))
	writeFile(sub, "fail.lua", []byte("function arrange() end\nfunction assert() return false, 'no' end\n"))
	// command path only: a setup program (-prexec) that leaves $AB at $0200, a trap address (-trapaddr), and cases whose
	// verdict depends on them: one that needs the setup image, one that needs its trap function to be called, one that
	// passes but overwrites the setup image (the next case must not see that)
	prexec, trap := viaCmd && r.Chance(40), viaCmd && r.Chance(40)
	writeFile(sub, "setup.a", []byte("; setup\n;hex 0009a9ab8d000200\n"))
	writeFile(sub, "trapdrv.a", []byte("; driver\n;hex 0008a9428d007f00\n"))
	writeFile(sub, "needsetup.lua", []byte("function arrange() end\nfunction assert() return read_byte(0x0200) == 0xAB end\n"))
	writeFile(sub, "needtrap.lua", []byte("t = 0\nfunction trap(c) t = c end\nfunction arrange() end\nfunction assert() return t == 0x42 end\n"))
	writeFile(sub, "dirty.lua", []byte("function arrange() write_byte(0x0200, 0) end\nfunction assert() return true end\n"))
	repo, _ := verifier.NewCaseRepo(sub, "")
	for i := 0; i < n; i++ {
		k := r.Intn(10)
		isLink := links && (i == linkAt || r.Chance(30))
		switch {
		case fixedLink:
			k = 9
			if i == linkAt && suiteSeq == 1 {
				k = 0
			}
		case links && i == linkAt && r.Chance(50):
			k = r.Intn(2)
		case links && !isLink && r.Chance(70):
			k = 9
		}
		v := "1"
		tc := &verifier.TestCase{Name: fmt.Sprintf("c%d", i), TestDriverSource: "ok.a", TestScript: "pass.lua"}
		switch {
		case k == 3 && viaCmd:
			tc.TestScript = "needsetup.lua"
			if !prexec {
				v = "0"
			}
		case k == 4 && viaCmd:
			tc.TestDriverSource, tc.TestScript = "trapdrv.a", "needtrap.lua"
			if !trap {
				v = "0"
			}
		case k == 5 && viaCmd:
			tc.TestScript = "dirty.lua"
		case k == 0:
			tc.TestScript = "fail.lua"
			v = "0"
		case k == 1:
			tc.TestDriverSource = "bad.a"
			v = "0"
		case k == 2 && viaCmd:
			tc.TestDriverSource = "noasm.a"
			v = "0"
		}
		data := fmt.Sprintf("{\"Name\":%q,\"TestDriverSource\":%q,\"TestScript\":%q}", tc.Name, tc.TestDriverSource, tc.TestScript)
		// case file names with additional dots are case files like any other
		fname := fmt.Sprintf("c%d.json", i)
		if r.Chance(35) {
			fname = fmt.Sprintf("c%d.%s.json", i, []string{"signed", "v2", "a.b"}[r.Intn(3)])
		}
		if isLink {
			// the link names its target by an absolute path or relative to the test directory
			target := writeFile(linkDir, fname, []byte(data))
			if r.Bool() {
				target = filepath.Join("..", "linked", fname)
			}
			if os.Symlink(target, filepath.Join(sub, fname)) == nil {
				v += "l"
				count("suite.linkedcase")
			} else {
				isLink = false
			}
		}
		if !isLink {
			writeFile(sub, fname, []byte(data))
		}
		verdicts = append(verdicts, v)
	}
	res := ""
	if viaCmd {
		res = suiteViaCommand(sub, r.Bool(), prexec, trap)
		if prexec {
			count("suite.prexec")
		}
		if trap {
			count("suite.trapaddr")
		}
		count("suite.verifyallcommand")
	} else {
		cfg := emuconfig.DefaultConfig()
		ce := caseexec.NewCaseExec(cfg, fakeAsmProv{fa}, repo, false)
		ce.Outf = io.Discard
		cnt, err := repo.IterateTestCases(ce.ExecuteCase)
		res = fmt.Sprintf("ok %d", cnt)
		if err != nil {
			res = "fail"
		}
	}
	count("suite")
	return fmt.Sprintf("suite %s => %s", strings.Join(verdicts, ","), res)
}

func verdictStream(seed uint64, n int) {
	r := rng.New(seed + 909)
	dir := tmpDir()
	defer os.RemoveAll(dir)
	undefWalk, suiteSeq = nil, 0
	for _, fb := range verdictFixed {
		emit(verdictCase(r, dir, fb))
	}
	// the two step tool chain of AsmType ca65 through the real commands: every kind once, then a thirtieth of the cases
	toolDir := ca65ToolDir(dir)
	for _, k := range ca65Kinds {
		emit(verdictCa65Case(r, dir, toolDir, k))
	}
	// two long-running drivers per run (a few hundred milliseconds each): one whose assert needs the marker the driver
	// stores last, one whose assert returns true whatever happened and whose machine is looked at afterwards
	emit(verdictCase(r, dir, "longmark"))
	emit(verdictCase(r, dir, "long"))
	for i := 0; i < n; i++ {
		emit(verdictCase(r, dir, ""))
		if i%5 == 0 {
			emit(suiteCase(r, dir))
		}
		if i%30 == 7 {
			emit(verdictCa65Case(r, dir, toolDir, ca65Kinds[r.Intn(len(ca65Kinds))]))
		}
	}
}

var _ = cpu.Model6502

// ---------------------------------------------------------------------------------------
// C08: every test case starts from the same machine

// isoCoproc: the machines of the current isolation case carry the coprocessor layer (both units, registers at $0380)
var isoCoproc = false

// isoRom: the configuration of the current isolation case preloads ROM images (PreLoad): a routine at $3400 and the same
// file once more at $3600, a table at $3800.  They belong to the pristine image every case starts from.
var isoRom = false

var isoRomRoutine = []byte{0xA9, 0xC3, 0x8D, 0x70, 0x03, 0x60, 0x5A, 0xA5} // LDA #$C3; STA $0370; RTS; two data bytes
var isoRomTable = []byte{0x11, 0x22, 0x33, 0x44, 0x55, 0x66, 0x77, 0x88, 0x99}

type dirtyCase struct {
	name   string
	driver []byte
	script string
}

func dirtyPool(spec string, trap bool) []dirtyCase {
	hi := "0x4000"
	if spec == "Linear16K" {
		hi = "0x2000"
	}
	long := ""
	switch {
	case strings.HasPrefix(spec, "XSixteen"):
		long = "write_byte_long(0xA000 + 5*8192 + 7, 0x77); write_byte(0, 9); write_byte(1, 3); write_byte(0xA010, 0x55); write_byte(0xC010, 0x66)"
	case strings.HasPrefix(spec, "GeoRam"):
		long = "write_byte(0xDFFE, 3); write_byte(0xDFFF, 2); write_byte(0xDE10, 0x44); write_byte_long(0x10000 + 999, 0x21)"
	case strings.HasPrefix(spec, "F256"):
		long = "write_byte(0, 0x80); write_byte(9, 0x22); write_byte(0, 0x01); write_byte(1, 2); write_byte(0xC000, 0x33); write_byte_long(0x80000, 0x12)"
	}
	trapFn := ""
	if trap {
		trapFn = "function trap(c) set_xreg(c) end\n"
	}
	// the highest bank / block / page of the model, through the program's own window
	high := "write_byte(0x3100, 0x5A)"
	switch spec {
	case "XSixteen512K":
		high = "write_byte(0, 63); write_byte(0xA123, 0x5A); write_byte(0, 40); write_byte(0xBFFF, 0x5B)"
	case "XSixteen2048K":
		high = "write_byte(0, 255); write_byte(0xA123, 0x5A); write_byte(0, 128); write_byte(0xBFFF, 0x5B); write_byte(0, 64); write_byte(0xA000, 0x5C)"
	case "GeoRam_512K":
		high = "write_byte(0xDFFF, 31); write_byte(0xDFFE, 63); write_byte(0xDE77, 0x6B)"
	case "GeoRam_2048K":
		high = "write_byte(0xDFFF, 127); write_byte(0xDFFE, 63); write_byte(0xDE77, 0x6B); write_byte(0xDFFF, 64); write_byte(0xDEFF, 0x6C)"
	case "F256_512K":
		high = "write_byte(0, 0x80); write_byte(13, 63); write_byte(0xA055, 0x7C); write_byte(12, 33); write_byte(0x8001, 0x7D)"
	case "F256_768K":
		high = "write_byte(0, 0x80); write_byte(13, 95); write_byte(0xA055, 0x7C); write_byte(12, 70); write_byte(0x8001, 0x7D)"
	}
	longOnly := "write_byte_long(0x3200, 0x4D)"
	switch {
	case strings.HasPrefix(spec, "XSixteen"):
		longOnly = "write_byte_long(0xA000 + 9*8192 + 17, 0x4D); write_byte_long(0xA000 + 2*8192, 0x4E)"
	case strings.HasPrefix(spec, "GeoRam"):
		longOnly = "write_byte_long(0x10000 + 5*16384 + 3*256 + 9, 0x4D); write_byte_long(0x10000, 0x4E)"
	case strings.HasPrefix(spec, "F256"):
		longOnly = "write_byte_long(0x70000 + 33, 0x4D)"
	}
	// the last bytes of the machine: of the 16-bit address space (the program's view) and of the linear view
	last := map[string]string{"Linear16K": "0x3FFF", "Linear32K": "0x7FFF", "Linear48K": "0xBFFF"}[spec]
	lastDrv := prg(0x0800, 0xE8, 0x00)
	lastLua := ""
	switch {
	case spec == "Linear64K":
		// data first, then $FFFE and $FFFF from the driver, $FFFF last
		lastDrv = prg(0x0800, 0xA9, 0x9E, 0x8D, 0x30, 0x03, 0x8D, 0xFE, 0xFF, 0xA9, 0x9D, 0x8D, 0xFF, 0xFF, 0x00)
		lastLua = "write_byte(0x0331, 0x9C)"
	case last != "":
		lastLua = "write_byte(0x0331, 0x9C); write_byte(" + last + " - 1, 0x9E); write_byte(" + last + ", 0x9D)"
	default:
		lastLua = fmt.Sprintf("write_byte(0x0331, 0x9C); write_byte_long(%d, 0x9E); write_byte_long(%d, 0x9D)", linTotals[spec]-2, linTotals[spec]-1)
	}
	pool := []dirtyCase{
		{"lastbyte", lastDrv, "function arrange() " + lastLua + " end\nfunction assert() return true end\n" + trapFn},
		// no instruction executed (the cycle counter stays 0), but the script touched memory
		{"zerocycle", prg(0x0800, 0x00), "function arrange() write_byte(0x0340, 7) read_byte(0x0340) read_byte(0x0341) end\nfunction assert() return true end\n" + trapFn},
		// cases that would pick up something a previous SCRIPT left behind (a global such as num_iterations or trap):
		// re-entered from the load address on every iteration but with no num_iterations of its own, and storing to the
		// trap address with no trap function of its own
		{"rerun", prg(0x0800, 0xE8, 0xE8, 0x00), "function arrange() set_pc(load_address) end\nfunction assert() return true end\n"},
		{"trapless", prg(0x0800, 0xA9, 0x42, 0x8D, 0x00, 0x7F, 0xE8, 0x00), "function arrange() end\nfunction assert() return true end\n"},
		// expansion / banked memory written ONLY through the linear view
		{"longonly", prg(0x0800, 0xE8, 0x00), "function arrange() " + longOnly + " end\nfunction assert() return true end\n" + trapFn},
		{"highbank", prg(0x0800, 0xE8, 0x00), "function arrange() " + high + " end\nfunction assert() return true end\n" + trapFn},
	}
	if isoCoproc {
		// a case that uses the multiplier: 3 * 5 through the registers at $0380, product expected at $0390
		pool = append(pool, dirtyCase{"coprocuser", prg(0x0800, 0xA9, 0x03, 0x8D, 0x80, 0x03, 0xA9, 0x00, 0x8D, 0x81, 0x03, 0xA9, 0x05, 0x8D, 0x82, 0x03,
			0xA9, 0x00, 0x8D, 0x83, 0x03, 0x00), "function arrange() end\nfunction assert() return read_byte(0x0390) == 15 end\n" + trapFn})
	}
	if isoRom {
		// cases whose verdict depends on the preloaded ROM bytes: one calls the routine in the image (a case started without
		// the image runs into the BRK that is there instead and never stores $C3), one reads the images from its script, one
		// overwrites them (the next case must find them again)
		pool = append(pool,
			dirtyCase{"romcall", prg(0x0800, 0x20, 0x00, 0x34, 0xE8, 0x00),
				"function arrange() end\nfunction assert() return read_byte(0x0370) == 0xC3 and get_xreg() == 1 end\n" + trapFn},
			dirtyCase{"romread", prg(0x0800, 0xAD, 0x02, 0x38, 0x00),
				"function arrange() end\nfunction assert() return get_accu() == 0x33 and read_byte(0x3606) == 0x5A and read_byte(0x3407) == 0xA5 and read_byte(0x3808) == 0x99 end\n" + trapFn},
			dirtyCase{"romsmash", prg(0x0800, 0xA9, 0x00, 0x8D, 0x00, 0x34, 0x8D, 0x02, 0x38, 0x00),
				"function arrange() set_memory(0x3600, '0000000000000000') end\nfunction assert() return read_byte(0x3400) == 0 end\n" + trapFn})
	}
	return append([]dirtyCase{
		{"clean", prg(0x0800, 0xE8, 0x00), "function arrange() end\nfunction assert() return get_xreg() == 1 end\n" + trapFn},
		{"regs", prg(0x0800, 0xA9, 0x55, 0xA2, 0x66, 0xA0, 0x77, 0x9A, 0x38, 0xF8, 0x00),
			"function arrange() set_accu(1) set_flags('NV-BDIZC') set_sp(0x10) end\nfunction assert() return true end\n" + trapFn},
		{"memory", prg(0x0800, 0xA9, 0xEE, 0x8D, 0x00, 0x03, 0x8D, 0x00, 0x10, 0xEE, 0x00, 0x10, 0x00),
			"function arrange() set_memory(" + hi + ", 'deadbeef') " + long + " end\nfunction assert() return true end\n" + trapFn},
		{"iter", prg(0x0800, 0xE8, 0xE8, 0x00),
			"function num_iterations() return 3 end\nfunction arrange() set_pc(load_address) end\nfunction assert() return true end\n" + trapFn},
		{"failing", prg(0x0800, 0xA9, 0x99, 0x8D, 0x50, 0x03, 0x02),
			"function arrange() write_byte(0x0350, 1) end\nfunction assert() return false end\n" + trapFn},
		{"trapuser", prg(0x0800, 0xA9, 0x42, 0x8D, 0x00, 0x7F, 0x00),
			"function arrange() end\nfunction trap(c) write_byte(0x0360, c) set_yreg(c) end\nfunction assert() return true end\n"},
	}, pool...)
}

// isoRomRanges: the cells the preloaded images occupy
var isoRomRanges = [][2]uint64{{0x3400, 0x3400 + uint64(len(isoRomRoutine))}, {0x3600, 0x3600 + uint64(len(isoRomRoutine))}, {0x3800, 0x3800 + uint64(len(isoRomTable))}}

// observe: the complete observable state of the machine a case is given
func observe(spec string, c *cpu.CPU6502, trapAddr uint16, trap bool) string {
	var b strings.Builder
	fmt.Fprintf(&b, "pc=%04x sp=%02x a=%02x x=%02x y=%02x p=%02x cyc=%d", c.PC, c.SP, c.A, c.X, c.Y, c.Flags, c.NumCycles())
	b.WriteString(" S")
	sweepStats(&b, spec, c.Mem)
	b.WriteString(" D")
	b.WriteString(imageOf(spec, c.Mem))
	if trap {
		// a handler left over from an earlier case would swallow this store (or crash on a closed Lua state)
		leftover := false
		if protect(func() {
			c.Mem.Store(trapAddr, 0x5A)
			leftover = c.Mem.Load(trapAddr) != 0x5A
		}) {
			leftover = true
		}
		fmt.Fprintf(&b, " handler=%v", leftover)
	}
	return b.String()
}

func isolationRun(spec string, model string, prexec, trap bool, dir string, cases []dirtyCase) ([]string, []string) {
	trapAddr := uint16(0x7F00)
	if spec == "Linear16K" {
		trapAddr = 0x3F00
	}
	fa := &fakeAsm{bins: map[string]string{}}
	for _, dc := range cases {
		fa.bins[dc.name+".a"] = writeFile(dir, dc.name+".bin", dc.driver)
		writeFile(dir, dc.name+".lua", []byte(dc.script))
	}
	// the setup program leaves a marker in RAM and — on the banked machines — banking registers that differ from their
	// power-on values AND from each other (the image every case has to start from includes them)
	setup := []uint8{0xA9, 0xAB, 0x8D, 0x00, 0x02, 0xA2, 0x07}
	sta := func(v uint8, a uint16) { setup = append(setup, 0xA9, v, 0x8D, uint8(a), uint8(a>>8)) }
	switch {
	case strings.HasPrefix(spec, "XSixteen"):
		sta(5, 0x0000)
		sta(3, 0x0001)
		sta(0x61, 0xA005)
	case strings.HasPrefix(spec, "GeoRam"):
		sta(3, 0xDFFF)
		sta(2, 0xDFFE)
		sta(0x62, 0xDE05)
	case strings.HasPrefix(spec, "F256"):
		sta(0x02, 0x0001)
		sta(0x63, 0xC005)
	}
	setup = append(setup, 0x00)
	fa.bins["setup.a"] = writeFile(dir, "setup.bin", prg(0x0900, setup...))
	cfg := emuconfig.DefaultConfig()
	cfg.MemSpec = spec
	cfg.Model = model
	if isoCoproc {
		cfg.F256MCoprocFlags = 5
		cfg.F256MCoprocBase = 0x0380
	}
	if isoRom {
		rom1, rom2 := writeFile(dir, "routine.rom", isoRomRoutine), writeFile(dir, "table.rom", isoRomTable)
		cfg.PreLoad = map[uint16]string{0x3400: rom1, 0x3600: rom1, 0x3800: rom2}
	}
	repo, _ := verifier.NewCaseRepo(dir, "")
	ce := caseexec.NewCaseExec(cfg, fakeAsmProv{fa}, repo, false)
	var outBuf strings.Builder
	ce.Outf = &outBuf
	if trap {
		ce.SetTrapAddress(trapAddr)
	}
	if prexec {
		if err := ce.ExecuteSetupProgram("setup.a"); err != nil {
			panic(err)
		}
	}
	// the machine every case has to start from, built WITHOUT the provider, snapshot or restore code: a new machine, the
	// setup program loaded and run on it (if any), registers and statistics reset
	ref := "ref-failed"
	protect(func() {
		// (from a configuration object of its own: the one the case executor uses sees the cases first)
		cfg2 := emuconfig.DefaultConfig()
		cfg2.MemSpec, cfg2.Model = spec, model
		cfg2.F256MCoprocFlags, cfg2.F256MCoprocBase = cfg.F256MCoprocFlags, cfg.F256MCoprocBase
		rc, err := cfg2.NewCpu()
		if err != nil {
			return
		}
		if isoRom {
			// the images are put there by hand: not by the configuration's preloading code, which is under test
			for _, im := range []struct {
				at   uint16
				data []byte
			}{{0x3400, isoRomRoutine}, {0x3600, isoRomRoutine}, {0x3800, isoRomTable}} {
				for k, b := range im.data {
					rc.Mem.Store(im.at+uint16(k), b)
				}
			}
		}
		if prexec {
			if _, _, err := rc.LoadAndRun(fa.bins["setup.a"]); err != nil {
				return
			}
		}
		rc.Reset()
		ref = observe(spec, rc, trapAddr, trap)
	})
	starts := []string{}
	fa.onAsm = func(name string) {
		if name != "setup.a" {
			o := observe(spec, ce.CurrentCpu, trapAddr, trap)
			if o != ref {
				o = "differs-from-reference " + o
			}
			starts = append(starts, o)
		}
	}
	results := []string{}
	for _, dc := range cases {
		tc := &verifier.TestCase{Name: dc.name, TestDriverSource: dc.name + ".a", TestScript: dc.name + ".lua"}
		outBuf.Reset()
		var err error
		if protect(func() { err = ce.ExecuteCase(dc.name, tc) }) {
			results = append(results, "crash")
			continue
		}
		results = append(results, fmt.Sprintf("%v|%s", err == nil, strings.TrimSpace(outBuf.String())))
	}
	return starts, results
}

// isoFixed: fixed boundary suites (machine, -prexec, the cases in their order): the case that writes the last bytes of the
// machine followed by cases that see whether they were put back
type isoFixed struct {
	spec   string
	prexec bool
	names  []string
}

var isolationFixed = []isoFixed{
	{"Linear64K", true, []string{"lastbyte", "clean", "lastbyte", "memory"}},
	{"Linear64K", false, []string{"lastbyte", "clean"}},
	{"Linear16K", true, []string{"lastbyte", "clean"}},
	{"XSixteen512K", true, []string{"lastbyte", "clean"}},
	{"GeoRam_512K", true, []string{"lastbyte", "clean"}},
	{"F256_512K", true, []string{"lastbyte", "clean"}},
}

func isolationCase(r *rng.R, dir string, fixed *isoFixed) string {
	spec := memSpecs[r.Intn(len(memSpecs))]
	if r.Chance(40) {
		spec = []string{"Linear32K", "XSixteen2048K", "XSixteen512K", "GeoRam_2048K", "F256_768K"}[r.Intn(5)]
	}
	prexec, trap := r.Bool(), r.Bool()
	isoCoproc = r.Chance(30)
	isoRom = r.Chance(30)
	// a tenth of the random suites: a case that writes the last bytes first, half of them on the 64K linear machine
	lastFirst := r.Chance(10)
	if lastFirst && r.Bool() {
		spec = "Linear64K"
	}
	if fixed != nil {
		spec, prexec, isoCoproc, isoRom, lastFirst = fixed.spec, fixed.prexec, false, false, false
	}
	defer func() { isoCoproc, isoRom = false, false }()
	pool := dirtyPool(spec, trap)
	if !trap {
		pool = append(pool[:5], pool[6:]...)
	}
	k := 2 + r.Intn(3)
	cases := []dirtyCase{}
	for i := 0; i < k; i++ {
		cases = append(cases, pool[r.Intn(len(pool))])
		if isoRom && r.Chance(50) {
			// one of the three cases that need / overwrite the images
			cases[i] = pool[len(pool)-1-r.Intn(3)]
		}
	}
	if lastFirst {
		for _, dc := range pool {
			if dc.name == "lastbyte" {
				cases[0] = dc
			}
		}
	}
	if fixed != nil {
		cases = cases[:0]
		for _, nm := range fixed.names {
			for _, dc := range pool {
				if dc.name == nm {
					cases = append(cases, dc)
				}
			}
		}
	}
	model := []string{"6502", "65C02"}[r.Intn(2)]
	{
		nm := []string{}
		for _, dc := range cases {
			nm = append(nm, dc.name)
		}
		pend("isolation %s.%s%s %v %v %s", spec, model, isoFlags(), prexec, trap, strings.Join(nm, ","))
	}
	starts, results := isolationRun(spec, model, prexec, trap, dir, cases)
	eq := []string{}
	for i, dc := range cases {
		// the same case ALONE, in a fresh process: nothing at all can have been left over by anything
		soloStart, soloRes := soloInChild(spec, model, prexec, trap, dc.name)
		s := "1"
		if i >= len(starts) || len(soloStart) != 1 || starts[i] != soloStart[0] {
			s = "0"
		} else if strings.HasPrefix(starts[i], "differs-from-reference") {
			// the same machine every time, but not the one the property names (pristine image, or the image the setup
			// program left, with registers, cycle counter and statistics reset)
			s = "R"
		}
		v := "1"
		if i >= len(results) || len(soloRes) != 1 || results[i] != soloRes[0] {
			v = "0"
		} else if dc.name != "trapless" && dc.name != "trapuser" && strings.HasPrefix(results[i], "true|") != (dc.name != "failing") {
			// (the two cases that store to $7F00 have no unconditional verdict: it depends on memory size and trap address)
			// the same verdict every time, but not the one this case has on the documented machine
			v = "E"
		}
		eq = append(eq, s+v)
	}
	names := []string{}
	for _, dc := range cases {
		names = append(names, dc.name)
	}
	count("isolation." + spec)
	pe, tr := 0, 0
	if prexec {
		pe = 1
	}
	if trap {
		tr = 1
	}
	return fmt.Sprintf("isolation %s.%s%s %d %d %s => %s", spec, model, isoFlags(), pe, tr, strings.Join(names, ","), strings.Join(eq, ","))
}

// isoFlags: the additions to the documented machine of the current isolation case, as they appear in the request
func isoFlags() string {
	f := ""
	if isoCoproc {
		f += "+cop"
	}
	if isoRom {
		f += "+rom"
	}
	return f
}

// soloInChild runs one case of the pool alone in a child process of this binary (cached: the result is a function of
// the arguments) and returns its start observation and its result
var soloCache = map[string][2]string{}

func soloInChild(spec, model string, prexec, trap bool, name string) ([]string, []string) {
	key := fmt.Sprintf("%s %s %v %v %s %v %v", spec, model, prexec, trap, name, isoCoproc, isoRom)
	if v, ok := soloCache[key]; ok {
		return []string{v[0]}, []string{v[1]}
	}
	cmd := exec.Command(os.Args[0], "isochild", spec, model, fmt.Sprint(prexec), fmt.Sprint(trap), name, fmt.Sprint(isoCoproc), fmt.Sprint(isoRom))
	outb, err := cmd.Output()
	parts := strings.Split(string(outb), "\x1e")
	if err != nil || len(parts) != 3 {
		return nil, nil
	}
	soloCache[key] = [2]string{parts[0], parts[1]}
	return []string{parts[0]}, []string{parts[1]}
}

// isoChild: `corr isochild <spec> <model> <prexec> <trap> <case name>`
func isoChild(args []string) {
	spec, model, prexec, trap, name := args[0], args[1], args[2] == "true", args[3] == "true", args[4]
	isoCoproc = len(args) > 5 && args[5] == "true"
	isoRom = len(args) > 6 && args[6] == "true"
	dir, err := os.MkdirTemp("", "verif-iso")
	if err != nil {
		os.Exit(3)
	}
	defer os.RemoveAll(dir)
	for _, dc := range dirtyPool(spec, trap) {
		if dc.name == name {
			starts, results := isolationRun(spec, model, prexec, trap, dir, []dirtyCase{dc})
			if len(starts) == 1 && len(results) == 1 {
				fmt.Printf("%s\x1e%s\x1eend", starts[0], results[0])
			}
			return
		}
	}
}

func isolationStream(seed uint64, n int) {
	r := rng.New(seed + 808)
	dir := tmpDir()
	defer os.RemoveAll(dir)
	for i := range isolationFixed {
		emit(isolationCase(r, dir, &isolationFixed[i]))
	}
	for i := 0; i < n; i++ {
		emit(isolationCase(r, dir, nil))
	}
}
