package main

import (
	"encoding/json"
	"fmt"
	"os"
	"sort"

	"6502profiler/cpu"
)

// optable: the opcode table of a freshly built CPU of each model, as the Go runtime sees it
// (cpu.VerifOpTable, build tag verif) — written as JSON for the fact extractor, which prefers it over its
// own reading of New6502's source (loops, tables and helper functions do not matter to it).
func optableDump(path string) {
	res := map[string]map[string]string{}
	for _, m := range []struct {
		key   string
		model cpu.CpuModel
	}{{"6502", cpu.Model6502}, {"65C02", cpu.Model65C02}} {
		t := cpu.VerifOpTable(m.model)
		keys := []int{}
		for k := range t {
			keys = append(keys, int(k))
		}
		sort.Ints(keys)
		e := map[string]string{}
		for _, k := range keys {
			e[fmt.Sprintf("%d", k)] = t[uint8(k)]
		}
		res[m.key] = e
	}
	data, _ := json.MarshalIndent(res, "", " ")
	if err := os.WriteFile(path, data, 0644); err != nil {
		fmt.Fprintln(os.Stderr, err)
		os.Exit(2)
	}
}
