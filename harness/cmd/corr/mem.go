package main

import (
	"6502profiler/emuconfig"
	"6502profiler/memory"
	"fmt"
	"strconv"
	"strings"
	"verifharness/internal/rng"
)

var memSpecs = []string{"Linear16K", "Linear32K", "Linear48K", "Linear64K", "XSixteen512K", "XSixteen2048K",
	"GeoRam_512K", "GeoRam_2048K", "F256_512K", "F256_768K"}

var linTotals = map[string]uint32{"Linear16K": 16384, "Linear32K": 32768, "Linear48K": 49152, "Linear64K": 65536,
	"XSixteen512K": 0xA000 + 64*8192 + 32*16384, "XSixteen2048K": 0xA000 + 256*8192 + 32*16384,
	"GeoRam_512K": 65536 + 1<<19, "GeoRam_2048K": 65536 + 1<<21,
	"F256_512K": 0x100000 + 32768, "F256_768K": 0x140000 + 32768}

// Wrapper stacks a history can run on (the fourth word of the request, "w<k>"; absent = w0).  The property texts say the
// linear view and snapshot/restore hold "when the memory is wrapped by trap, port or coprocessor layers":
//
//	w0 bare machine
//	w1 coprocessor layer + output port layer, both put on by emuconfig.NewCpu                     (2 layers)
//	w2 coprocessor layer (NewCpu) + trap placeholder on top, as caseexec / verify put it on        (2 layers)
//	w3 coprocessor + output port (NewCpu) + trap placeholder                                       (3 layers)
//	w4 trap placeholder only                                                                       (1 layer)
//	w5 output port (NewCpu) + trap placeholder                                                     (2 layers)
//
// The placeholder has no write function (as between test cases): a store to the trap address goes to the memory below.
const maxWrap = 5

// trap addresses of the placeholder layer: addresses the generator's pools hit (a bank register, a window edge, the
// port page), so the pass-through of the placeholder is exercised too
var wrapTrapAddr = map[int]uint16{2: 0xFFFF, 3: 0x02F8, 4: 0x0000, 5: 0xA000}

// newMachine builds the machine.  top is what the CPU (and the linear view) uses; under is the memory emuconfig.NewCpu
// returned, i.e. the memory directly below the trap placeholder (caseexec.newSnapshotProvider takes its snapshot there and
// restores through the placeholder layer).  Without a placeholder layer under == top.
func newMachine(spec string, wrap int) (top, under memory.Memory) {
	cfg := emuconfig.DefaultConfig()
	cfg.MemSpec = spec
	if wrap == 1 || wrap == 2 || wrap == 3 {
		cfg.F256MCoprocFlags = 5
		cfg.F256MCoprocBase = 0x0300
	}
	if wrap == 1 || wrap == 3 || wrap == 5 {
		cfg.IoMask = 0x02
		cfg.IoAddrConfig = map[uint8]string{0xF0: "stdout:bin"}
	}
	c, err := cfg.NewCpu()
	if err != nil {
		panic(err)
	}
	under = c.Mem
	top = under
	if ta, ok := wrapTrapAddr[wrap]; ok {
		top = memory.NewPlaceholderWrapper(under, ta).Wrapper
	}
	return top, under
}

// avoidIO: on a wrapped machine the coprocessor's input registers ($0300-$0307) and the output port ($02F0) are I/O,
// not memory: a store there is (rightly) not a store to the byte behind the address.  The histories are about memory,
// so stores are moved off these nine addresses.
func avoidIO(a uint16, wrap int) uint16 {
	if wrap != 0 && ((a >= 0x0300 && a <= 0x0307) || a == 0x02F0) {
		return a | 0x0800
	}
	return a
}

func wrapWord(wrap int) string {
	if wrap == 0 {
		return ""
	}
	return fmt.Sprintf(" w%d", wrap)
}

// memPlan: what a history runs on and which snapshot operations it may use
type memPlan struct {
	wrap      int  // wrapper stack, see newMachine
	snaps     bool // snapshot / restore operations in the alphabet (always for flavour 7)
	snapLevel int  // 0: snapshots through the top ("t"); 1: on the memory below the placeholder ("u"); 2: both
}

func isF256(spec string) bool { return strings.HasPrefix(spec, "F256") }

// protect runs f and reports whether it panicked (memory fault)
func protect(f func()) (fault bool) {
	defer func() {
		if r := recover(); r != nil {
			fault = true
		}
	}()
	f()
	return false
}

// interesting CPU addresses of a machine: banking registers, window edges, page edges
func cpuAddr(r *rng.R, spec string) uint16 {
	var pool []uint16
	switch {
	case strings.HasPrefix(spec, "XSixteen"):
		pool = []uint16{0x0000, 0x0001, 0x0002, 0x9FFF, 0xA000, 0xA001, 0xBFFF, 0xC000, 0xC001, 0xFFFF, 0xB123, 0xD456}
	case strings.HasPrefix(spec, "GeoRam"):
		pool = []uint16{0xDFFE, 0xDFFF, 0xDE00, 0xDEFF, 0xDDFF, 0xDF00, 0xDE80, 0x0000, 0xFFFF}
	case isF256(spec):
		pool = []uint16{0x0000, 0x0001, 0x0002, 0x0007, 0x0008, 0x0009, 0x000F, 0x0010, 0x1FFF, 0x2000, 0xBFFF, 0xC000,
			0xC001, 0xDFFF, 0xE000, 0xFFFF, 0x4000, 0x6001}
	default:
		pool = []uint16{0x0000, 0x0001, 0x3FFF, 0x4000, 0x7FFF, 0x8000, 0xBFFF, 0xC000, 0xFFFF}
	}
	if r.Chance(75) {
		return pool[r.Intn(len(pool))]
	}
	return r.Word()
}

func regValue(r *rng.R, spec string, a uint16) uint8 {
	// values for banking registers that select existing and non-existing banks
	switch {
	case strings.HasPrefix(spec, "XSixteen") && a == 0:
		return rng.PickU8(r, []uint8{0, 1, 2, 3, 63, 64, 255, r.Byte()})
	case strings.HasPrefix(spec, "XSixteen") && a == 1:
		return rng.PickU8(r, []uint8{0, 1, 31, 32, 33, 255, r.Byte()})
	case isF256(spec) && a == 0:
		return rng.PickU8(r, []uint8{0x00, 0x01, 0x02, 0x03, 0x80, 0x90, 0xA1, 0xB3, 0xB0, r.Byte()})
	case isF256(spec) && a == 1:
		return rng.PickU8(r, []uint8{0, 1, 2, 3, 4, 5, 7, r.Byte()})
	case isF256(spec) && a >= 8 && a <= 15:
		return rng.PickU8(r, []uint8{0, 1, 7, 8, 0x7F, 0x80, 0xA0, 0xFF, r.Byte() & 0x7F})
	}
	v := r.Byte()
	if v == 0 {
		v = 1
	}
	return v
}

func linAddr(r *rng.R, spec string) uint32 {
	total := linTotals[spec]
	switch r.Intn(10) {
	case 0:
		return total - 1
	case 1:
		return total
	case 2:
		return total + uint32(r.Intn(1000))
	case 3:
		return uint32(r.Intn(32))
	case 4, 5:
		edges := []uint32{0x9FFF, 0xA000, 0xA000 + 64*8192 - 1, 0xA000 + 64*8192, 0xFFFF, 0x10000, 0xFFFFF, 0x100000, 0x13FFFF, 0x140000,
			0xA000 + 256*8192 - 1, 0xA000 + 256*8192, 0x10000 + 1<<19 - 1}
		return edges[r.Intn(len(edges))]
	case 6:
		// the base-RAM cells that the CPU view hides behind a window or a register: reachable through the linear view only
		shadow := []uint32{0xDE00, 0xDE01, 0xDE80, 0xDEFF, 0xDFFE, 0xDFFF, 0xA000, 0xBFFF, 0xC000, 0xC001, 0xFFFF, 0x0000, 0x0001, 0x0008, 0x000F, 0x9F00}
		return shadow[r.Intn(len(shadow))]
	}
	return uint32(r.U64() % uint64(total))
}

// memHistory generates and executes one history; flavour selects the operation alphabet:
// 4 = CPU view only, 5 = both views, 6 = + statistics and clear, 7 = + snapshot/restore
func memHistory(r *rng.R, spec string, flavour int, length int, plan memPlan) string {
	// the linear view and the snapshot property also hold "when the memory is wrapped by trap, port or coprocessor
	// layers": the plan says on which wrapper stack the history runs (flavours 5 and 7 only)
	if plan.wrap != 0 {
		count("mem.wrapped")
		count(fmt.Sprintf("mem.flavour%d.w%d", flavour, plan.wrap))
	}
	snapsOn := flavour >= 7 || plan.snaps
	if snapsOn && flavour < 7 {
		count(fmt.Sprintf("mem.flavour%d.snaps", flavour))
	}
	m, under := newMachine(spec, plan.wrap)
	lm := m.ToLargeMemory()
	var ops, res []string
	snapImages := []string{}
	haveSnap := false
	nSnap, nRestore := 0, 0
	// flavour 5 takes few snapshots per history (every one costs two sweeps of the whole machine); the bounds of the
	// operation alphabet: flavour 7 as before (3% snapshot, 5% restore), flavour 5 out of the otherwise unused 80..99
	snapLo, snapHi, restoreHi, maxSnap, maxRestore := 92, 95, 100, 1<<30, 1<<30
	if flavour < 7 {
		snapLo, snapHi, restoreHi, maxSnap, maxRestore = 80, 86, 96, 2, 3
	}
	pend("mem %s %d%s |", spec, flavour, wrapWord(plan.wrap))
	for i := 0; i < length; i++ {
		k := r.Intn(100)
		switch {
		case k < 30:
			a := cpuAddr(r, spec)
			var v uint8
			pendAppend(fmt.Sprintf(" l%04x", a))
			if protect(func() { v = m.Load(a) }) {
				res = append(res, "!")
			} else {
				res = append(res, fmt.Sprintf("%02x", v))
			}
			ops = append(ops, fmt.Sprintf("l%04x", a))
		case k < 60:
			a := avoidIO(cpuAddr(r, spec), plan.wrap)
			v := regValue(r, spec, a)
			pendAppend(fmt.Sprintf(" s%04x=%02x", a, v))
			if protect(func() { m.Store(a, v) }) {
				res = append(res, "!")
			} else {
				res = append(res, "ok")
			}
			ops = append(ops, fmt.Sprintf("s%04x=%02x", a, v))
		case k < 70 && flavour >= 5:
			l := linAddr(r, spec)
			var v uint8
			pendAppend(fmt.Sprintf(" L%08x", l))
			if protect(func() { v = lm.LoadLarge(l) }) {
				res = append(res, "!")
			} else {
				res = append(res, fmt.Sprintf("%02x", v))
			}
			ops = append(ops, fmt.Sprintf("L%08x", l))
		case k < 80 && flavour >= 5:
			l := linAddr(r, spec)
			v := r.Byte() | 1
			if isF256(spec) && l < 16 {
				v = regValue(r, spec, uint16(l))
			}
			pendAppend(fmt.Sprintf(" S%08x=%02x", l, v))
			if protect(func() { lm.StoreLarge(l, v) }) {
				res = append(res, "!")
			} else {
				res = append(res, "ok")
			}
			ops = append(ops, fmt.Sprintf("S%08x=%02x", l, v))
		case k < 86 && flavour == 6:
			a := cpuAddr(r, spec)
			var v uint64
			if protect(func() { v = m.GetStatistics(a) }) {
				res = append(res, "!")
			} else {
				res = append(res, fmt.Sprintf("%d", v))
			}
			ops = append(ops, fmt.Sprintf("g%04x", a))
		case k < 90 && flavour == 6:
			l := linAddr(r, spec)
			var v uint64
			if protect(func() { v = lm.GetStatisticsLarge(l) }) {
				res = append(res, "!")
			} else {
				res = append(res, fmt.Sprintf("%d", v))
			}
			ops = append(ops, fmt.Sprintf("G%08x", l))
		case k < 92 && flavour >= 6:
			m.ClearStatistics()
			ops = append(ops, "c")
			res = append(res, "-")
		case k >= snapLo && k < snapHi && snapsOn && nSnap < maxSnap:
			// "t": snapshot through the top of the stack; "u": snapshot on the memory below the trap placeholder (what
			// caseexec's snapshot provider does) - the restore always goes through the top
			tok := "t"
			if plan.snapLevel == 1 || (plan.snapLevel == 2 && (nSnap+length)%2 == 0) {
				tok = "u"
			}
			pendAppend(" " + tok)
			if tok == "u" {
				under.TakeSnapshot()
			} else {
				m.TakeSnapshot()
			}
			haveSnap = true
			nSnap++
			ops = append(ops, tok)
			res = append(res, "-")
			snapImages = append(snapImages, "T:"+imageOf(spec, m))
		case k >= snapHi && k < restoreHi && snapsOn && haveSnap && nRestore < maxRestore:
			pendAppend(" r")
			m.RestoreSnapshot()
			nRestore++
			ops = append(ops, "r")
			res = append(res, "-")
			snapImages = append(snapImages, "R:"+imageOf(spec, m))
		default:
			i--
		}
	}
	count(fmt.Sprintf("mem.flavour%d.%s", flavour, spec))
	var b strings.Builder
	fmt.Fprintf(&b, "mem %s %d%s | %s => %s", spec, flavour, wrapWord(plan.wrap), strings.Join(ops, " "), strings.Join(res, " "))
	// final observation: statistics first (pure), then contents
	b.WriteString(" | S")
	if flavour == 6 {
		sweepStats(&b, spec, m)
	}
	b.WriteString(" | D")
	b.WriteString(imageOf(spec, m)) // after the statistics sweep: reading the image counts as accesses
	b.WriteString(" | I " + strings.Join(snapImages, " ; "))
	return b.String()
}

func sweepStats(b *strings.Builder, spec string, m memory.Memory) {
	lm := m.ToLargeMemory()
	total := linTotals[spec]
	start := uint32(0)
	if isF256(spec) {
		start = 16
		fmt.Fprintf(b, " c0:%d c1:%d", m.GetStatistics(0), m.GetStatistics(1))
	}
	if protect(func() {
		for l := start; l < total; l++ {
			if v := lm.GetStatisticsLarge(l); v != 0 {
				fmt.Fprintf(b, " %x:%d", l, v)
			}
		}
	}) {
		b.WriteString(" !fault")
	}
	if isF256(spec) {
		// the LUT counters are only reachable through the edit window: open it for each LUT in turn
		// (the stores to $0000 count on MMU_MEM_CTRL, whose counter was reported above); the register is put back
		// afterwards: the data image that follows must show the machine as the history left it
		old := m.Load(0)
		defer m.Store(0, old)
		for n := 0; n < 4; n++ {
			m.Store(0, uint8(0x80|n<<4))
			for i := 0; i < 8; i++ {
				if v := m.GetStatistics(uint16(8 + i)); v != 0 {
					fmt.Fprintf(b, " t%d:%d", n*8+i, v)
				}
			}
		}
	}
}

// imageOf: all non-zero bytes through the linear view (+ F256 control registers through the CPU view).
// Loads change statistics but never contents.
func imageOf(spec string, m memory.Memory) string {
	var b strings.Builder
	lm := m.ToLargeMemory()
	total := linTotals[spec]
	start := uint32(0)
	if isF256(spec) {
		start = 16
		fmt.Fprintf(&b, " c0:%02x c1:%02x", m.Load(0), m.Load(1))
	}
	if protect(func() {
		for l := start; l < total; l++ {
			if v := lm.LoadLarge(l); v != 0 {
				fmt.Fprintf(&b, " %x:%02x", l, v)
			}
		}
	}) {
		b.WriteString(" !fault")
	}
	return b.String()
}

func memReplayLine(req string) {
	parts := strings.SplitN(req, "|", 2)
	hd := strings.Fields(parts[0])
	if (len(hd) != 3 && len(hd) != 4) || hd[0] != "mem" || len(parts) != 2 {
		return
	}
	flavour, _ := strconv.Atoi(hd[2])
	wrap := 0
	if len(hd) == 4 {
		w, err := strconv.Atoi(strings.TrimPrefix(hd[3], "w"))
		if err != nil || !strings.HasPrefix(hd[3], "w") || w < 0 || w > maxWrap {
			return
		}
		wrap = w
	}
	emit(memExec(hd[1], flavour, wrap, strings.Fields(parts[1])))
}

// memExec executes operation tokens on a fresh machine
func memExec(spec string, flavour int, wrap int, ops []string) string {
	m, under := newMachine(spec, wrap)
	lm := m.ToLargeMemory()
	var res []string
	snapImages := []string{}
	hx := func(s string) uint64 { v, _ := strconv.ParseUint(s, 16, 64); return v }
	for _, op := range ops {
		body := op[1:]
		switch op[0] {
		case 'l':
			var v uint8
			if protect(func() { v = m.Load(uint16(hx(body))) }) {
				res = append(res, "!")
			} else {
				res = append(res, fmt.Sprintf("%02x", v))
			}
		case 's':
			kv := strings.SplitN(body, "=", 2)
			if protect(func() { m.Store(uint16(hx(kv[0])), uint8(hx(kv[1]))) }) {
				res = append(res, "!")
			} else {
				res = append(res, "ok")
			}
		case 'L':
			var v uint8
			if protect(func() { v = lm.LoadLarge(uint32(hx(body))) }) {
				res = append(res, "!")
			} else {
				res = append(res, fmt.Sprintf("%02x", v))
			}
		case 'S':
			kv := strings.SplitN(body, "=", 2)
			if protect(func() { lm.StoreLarge(uint32(hx(kv[0])), uint8(hx(kv[1]))) }) {
				res = append(res, "!")
			} else {
				res = append(res, "ok")
			}
		case 'g':
			var v uint64
			if protect(func() { v = m.GetStatistics(uint16(hx(body))) }) {
				res = append(res, "!")
			} else {
				res = append(res, fmt.Sprintf("%d", v))
			}
		case 'G':
			var v uint64
			if protect(func() { v = lm.GetStatisticsLarge(uint32(hx(body))) }) {
				res = append(res, "!")
			} else {
				res = append(res, fmt.Sprintf("%d", v))
			}
		case 'c':
			m.ClearStatistics()
			res = append(res, "-")
		case 't':
			m.TakeSnapshot()
			res = append(res, "-")
			snapImages = append(snapImages, "T:"+imageOf(spec, m))
		case 'u':
			under.TakeSnapshot()
			res = append(res, "-")
			snapImages = append(snapImages, "T:"+imageOf(spec, m))
		case 'r':
			m.RestoreSnapshot()
			res = append(res, "-")
			snapImages = append(snapImages, "R:"+imageOf(spec, m))
		}
	}
	var b strings.Builder
	fmt.Fprintf(&b, "mem %s %d%s | %s => %s", spec, flavour, wrapWord(wrap), strings.Join(ops, " "), strings.Join(res, " "))
	b.WriteString(" | S")
	if flavour == 6 {
		sweepStats(&b, spec, m)
	}
	b.WriteString(" | D")
	b.WriteString(imageOf(spec, m)) // after the statistics sweep: reading the image counts as accesses
	b.WriteString(" | I " + strings.Join(snapImages, " ; "))
	return b.String()
}

// memFixed: boundary histories of the linear-view and snapshot properties, one per machine family, as operation tokens
// ("T" stands for the snapshot operation, replaced by "t" or "u").  No expectation is written down here: the driver
// judges the answers and the final image against the documented layout like every other history.  The shape is the one of
// verify/verifyall with a setup program: set a bank, write into the window, SNAPSHOT, switch the bank and overwrite,
// RESTORE, and only then switch to a third bank and write through the CPU window - the byte must be at the linear
// address of the third bank, the bank register must read the same through both views, the snapshot bank must still hold
// the snapshot byte; then a linear write into a further bank (ROM / I/O bank) read back through the window; the last
// byte of the machine, the first address past the end (a fault) for load and store; a second restore.
func memFixed(spec string) [][]string {
	total := linTotals[spec]
	l := func(a uint32) string { return fmt.Sprintf("L%08x", a) }
	st := func(a uint32, v uint8) string { return fmt.Sprintf("S%08x=%02x", a, v) }
	tail := []string{l(total - 1), st(total-1, 0x99), l(total - 1), l(total), st(total, 0x01), l(total + 0x10000), "r", l(total - 1)}
	var h []string
	switch {
	case strings.HasPrefix(spec, "XSixteen"):
		rom := total - 32*16384
		h = []string{"s0000=03", "sa010=31", "s0001=04", "sc020=41", "T", "s0000=07", "sa010=71", "s0001=06", "sc020=61", "r",
			"l0000", "l0001", "la010", "lc020",
			"s0000=05", "sa010=77", "L00000000", l(0xA000 + 5*8192 + 0x10), l(0xA000 + 3*8192 + 0x10), l(0xA000 + 7*8192 + 0x10), "la010",
			"s0000=03", "la010", "S00000001=02", "L00000001", "l0001", st(rom+2*16384+0x20, 0x55), "lc020", l(rom + 4*16384 + 0x20),
			st(0xA000+9*8192+0x11, 0x66), "S00000000=09", "la011", "l0000", "s0000=3f", "sbfff=12", l(0xA000 + 64*8192 - 1)}
	case strings.HasPrefix(spec, "GeoRam"):
		bits := uint32(5)
		if spec == "GeoRam_2048K" {
			bits = 7
		}
		page := func(track, sector uint32) uint32 { return 0x10000 + ((track<<bits)|sector)*256 }
		h = []string{"sdffe=02", "sdfff=03", "sde10=31", "T", "sdffe=04", "sde10=71", "sdfff=01", "sde11=72", "r",
			"ldffe", "ldfff", "lde10", "lde11",
			"sdffe=05", "sdfff=01", "sde10=77", "L0000dffe", "L0000dfff", l(page(5, 1) + 0x10), l(page(2, 3) + 0x10), l(page(4, 3) + 0x10), "lde10",
			"sdffe=02", "sdfff=03", "lde10", st(page(2, 3)+0x11, 0x55), "lde11", "S0000dffe=06", "ldffe", st(page(6, 3)+0x12, 0x66), "lde12",
			"S0000de12=13", "lde12", "L0000de12", "sdffe=3f", "sdfff=ff", "sdeff=12", l(total - 1)}
	case isF256(spec):
		sys := total - 32768
		h = []string{"s0000=80", "s000a=05", "s4010=31", "s0001=01", "sc020=41", "T", "s000a=07", "s4010=71", "s0001=02", "sc020=61", "s0000=91", "s000b=06", "r",
			"l0000", "l0001", "l000a", "l4010", "lc020",
			"s000a=09", "s4010=77", l(9*8192 + 0x10), l(5*8192 + 0x10), l(7*8192 + 0x10), "l4010",
			"s000a=05", "l4010", st(5*8192+0x11, 0x55), "l4011", "s0001=03", st(sys+3*8192+0x20, 0x66), "lc020", l(sys + 1*8192 + 0x20),
			"s0001=04", "sc021=14", l(6*8192 + 0x21), "s0000=00", "l000a", "s000a=2a", "L0000000a", "S00000000=b0", "l0000", "s000f=3f", "s0000=03", "lffff"}
	default:
		h = []string{"s0010=31", "T", "s0010=71", "s3fff=05", "r", "l0010", "l3fff", "s0010=77", "L00000010", "S00000011=55", "l0011", "s0011=56", "L00000011"}
	}
	return [][]string{append(append([]string{}, h...), tail...)}
}

// the fixed histories run on these (wrapper stack, snapshot operation) pairs
var memFixedOn = map[int][]struct {
	wrap int
	snap string
}{
	5: {{0, "t"}, {1, "t"}, {3, "t"}, {2, "u"}},
	7: {{0, "t"}, {1, "t"}, {2, "t"}, {3, "u"}, {4, "u"}, {5, "u"}},
}

func hasTrapLayer(wrap int) bool { _, ok := wrapTrapAddr[wrap]; return ok }

// memPlanFor: wrapper stack and snapshot alphabet of the i-th generated history of a machine (a function of the index: every
// stack and every snapshot level occurs in the quick tier on every machine).  Flavours 4 and 6: always the bare machine.
func memPlanFor(flavour int, i int) memPlan {
	var p memPlan
	switch flavour {
	case 5:
		// a third of the histories on a wrapped machine (mostly two or more layers); a quarter with snapshot / restore
		if i%3 == 1 {
			p.wrap = []int{1, 3, 2, 5, 4}[(i/3)%5]
		}
		p.snaps = i%4 == 2
	case 7:
		// half of the histories on a wrapped machine (the long ones, i%10 == 0, included from time to time)
		p.wrap = []int{0, 1, 0, 2, 0, 3, 0, 4, 0, 5}[(i+i/10)%10]
		p.snaps = true
	}
	if p.snaps && hasTrapLayer(p.wrap) {
		// below the placeholder only / through the top only / both
		p.snapLevel = []int{1, 0, 2}[(i/2+i/10)%3]
	}
	return p
}

func memStream(seed uint64, n int, flavour int) {
	root := rng.New(seed + uint64(flavour)*1000)
	for _, spec := range memSpecs {
		if flavour == 5 && strings.HasPrefix(spec, "Linear") {
			// the property is about the banked machines; the linear view of a linear memory is the CPU view
			if spec != "Linear32K" {
				continue
			}
		}
		r := root.Fork()
		for _, on := range memFixedOn[flavour] {
			for _, h := range memFixed(spec) {
				ops := make([]string, len(h))
				for j, t := range h {
					if t == "T" {
						t = on.snap
					}
					ops[j] = t
				}
				count(fmt.Sprintf("mem.flavour%d.fixed", flavour))
				pend("mem %s %d%s | %s", spec, flavour, wrapWord(on.wrap), strings.Join(ops, " "))
				emit(memExec(spec, flavour, on.wrap, ops))
			}
		}
		for i := 0; i < n; i++ {
			length := 20 + r.Intn(60)
			if i%10 == 0 {
				length = 200 + r.Intn(300)
			}
			emit(memHistory(r, spec, flavour, length, memPlanFor(flavour, i)))
		}
	}
}
