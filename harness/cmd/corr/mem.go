package main

import (
	"6502profiler/emuconfig"
	"6502profiler/memory"
	"fmt"
	"strconv"
	"strings"
	"verifharness/internal/rng"
)

var memSpecs = []string{"Linear16K", "Linear32K", "Linear48K", "Linear64K", "XSixteen512K", "XSixteen2048K",
	"GeoRam_512K", "GeoRam_2048K", "F256_512K", "F256_768K"}

var linTotals = map[string]uint32{"Linear16K": 16384, "Linear32K": 32768, "Linear48K": 49152, "Linear64K": 65536,
	"XSixteen512K": 0xA000 + 64*8192 + 32*16384, "XSixteen2048K": 0xA000 + 256*8192 + 32*16384,
	"GeoRam_512K": 65536 + 1<<19, "GeoRam_2048K": 65536 + 1<<21,
	"F256_512K": 0x100000 + 32768, "F256_768K": 0x140000 + 32768}

// wrapLayers: when set (snapshot stream only), the machine is built with the coprocessor layer and an output port
// layer on top of the memory: TakeSnapshot / RestoreSnapshot / ClearStatistics must pass through both
var wrapLayers = false

func newMem(spec string) memory.Memory {
	cfg := emuconfig.DefaultConfig()
	cfg.MemSpec = spec
	if wrapLayers {
		cfg.F256MCoprocFlags = 5
		cfg.F256MCoprocBase = 0x0300
		cfg.IoMask = 0x02
		cfg.IoAddrConfig = map[uint8]string{0xF0: "stdout:bin"}
	}
	c, err := cfg.NewCpu()
	if err != nil {
		panic(err)
	}
	return c.Mem
}

func isF256(spec string) bool { return strings.HasPrefix(spec, "F256") }

// protect runs f and reports whether it panicked (memory fault)
func protect(f func()) (fault bool) {
	defer func() {
		if r := recover(); r != nil {
			fault = true
		}
	}()
	f()
	return false
}

// interesting CPU addresses of a machine: banking registers, window edges, page edges
func cpuAddr(r *rng.R, spec string) uint16 {
	var pool []uint16
	switch {
	case strings.HasPrefix(spec, "XSixteen"):
		pool = []uint16{0x0000, 0x0001, 0x0002, 0x9FFF, 0xA000, 0xA001, 0xBFFF, 0xC000, 0xC001, 0xFFFF, 0xB123, 0xD456}
	case strings.HasPrefix(spec, "GeoRam"):
		pool = []uint16{0xDFFE, 0xDFFF, 0xDE00, 0xDEFF, 0xDDFF, 0xDF00, 0xDE80, 0x0000, 0xFFFF}
	case isF256(spec):
		pool = []uint16{0x0000, 0x0001, 0x0002, 0x0007, 0x0008, 0x0009, 0x000F, 0x0010, 0x1FFF, 0x2000, 0xBFFF, 0xC000,
			0xC001, 0xDFFF, 0xE000, 0xFFFF, 0x4000, 0x6001}
	default:
		pool = []uint16{0x0000, 0x0001, 0x3FFF, 0x4000, 0x7FFF, 0x8000, 0xBFFF, 0xC000, 0xFFFF}
	}
	if r.Chance(75) {
		return pool[r.Intn(len(pool))]
	}
	return r.Word()
}

func regValue(r *rng.R, spec string, a uint16) uint8 {
	// values for banking registers that select existing and non-existing banks
	switch {
	case strings.HasPrefix(spec, "XSixteen") && a == 0:
		return rng.PickU8(r, []uint8{0, 1, 2, 3, 63, 64, 255, r.Byte()})
	case strings.HasPrefix(spec, "XSixteen") && a == 1:
		return rng.PickU8(r, []uint8{0, 1, 31, 32, 33, 255, r.Byte()})
	case isF256(spec) && a == 0:
		return rng.PickU8(r, []uint8{0x00, 0x01, 0x02, 0x03, 0x80, 0x90, 0xA1, 0xB3, 0xB0, r.Byte()})
	case isF256(spec) && a == 1:
		return rng.PickU8(r, []uint8{0, 1, 2, 3, 4, 5, 7, r.Byte()})
	case isF256(spec) && a >= 8 && a <= 15:
		return rng.PickU8(r, []uint8{0, 1, 7, 8, 0x7F, 0x80, 0xA0, 0xFF, r.Byte() & 0x7F})
	}
	v := r.Byte()
	if v == 0 {
		v = 1
	}
	return v
}

func linAddr(r *rng.R, spec string) uint32 {
	total := linTotals[spec]
	switch r.Intn(10) {
	case 0:
		return total - 1
	case 1:
		return total
	case 2:
		return total + uint32(r.Intn(1000))
	case 3:
		return uint32(r.Intn(32))
	case 4, 5:
		edges := []uint32{0x9FFF, 0xA000, 0xA000 + 64*8192 - 1, 0xA000 + 64*8192, 0xFFFF, 0x10000, 0xFFFFF, 0x100000, 0x13FFFF, 0x140000,
			0xA000 + 256*8192 - 1, 0xA000 + 256*8192, 0x10000 + 1<<19 - 1}
		return edges[r.Intn(len(edges))]
	case 6:
		// the base-RAM cells that the CPU view hides behind a window or a register: reachable through the linear view only
		shadow := []uint32{0xDE00, 0xDE01, 0xDE80, 0xDEFF, 0xDFFE, 0xDFFF, 0xA000, 0xBFFF, 0xC000, 0xC001, 0xFFFF, 0x0000, 0x0001, 0x0008, 0x000F, 0x9F00}
		return shadow[r.Intn(len(shadow))]
	}
	return uint32(r.U64() % uint64(total))
}

// memHistory generates and executes one history; flavour selects the operation alphabet:
// 4 = CPU view only, 5 = both views, 6 = + statistics and clear, 7 = + snapshot/restore
func memHistory(r *rng.R, spec string, flavour int, length int) string {
	// the snapshot property also holds "when the memory is wrapped by trap, port or coprocessor layers": a third of
	// the snapshot histories run on a machine with both layers (the stream judges restore images against the images
	// at snapshot time only, so the layers' own stores do not matter)
	wrapLayers = flavour == 7 && length%3 == 0
	if wrapLayers {
		count("mem.wrapped")
	}
	m := newMem(spec)
	wrapLayers = false
	lm := m.ToLargeMemory()
	var ops, res []string
	snapImages := []string{}
	haveSnap := false
	pend("mem %s %d |", spec, flavour)
	for i := 0; i < length; i++ {
		k := r.Intn(100)
		switch {
		case k < 30:
			a := cpuAddr(r, spec)
			var v uint8
			pendAppend(fmt.Sprintf(" l%04x", a))
			if protect(func() { v = m.Load(a) }) {
				res = append(res, "!")
			} else {
				res = append(res, fmt.Sprintf("%02x", v))
			}
			ops = append(ops, fmt.Sprintf("l%04x", a))
		case k < 60:
			a := cpuAddr(r, spec)
			v := regValue(r, spec, a)
			pendAppend(fmt.Sprintf(" s%04x=%02x", a, v))
			if protect(func() { m.Store(a, v) }) {
				res = append(res, "!")
			} else {
				res = append(res, "ok")
			}
			ops = append(ops, fmt.Sprintf("s%04x=%02x", a, v))
		case k < 70 && flavour >= 5:
			l := linAddr(r, spec)
			var v uint8
			pendAppend(fmt.Sprintf(" L%08x", l))
			if protect(func() { v = lm.LoadLarge(l) }) {
				res = append(res, "!")
			} else {
				res = append(res, fmt.Sprintf("%02x", v))
			}
			ops = append(ops, fmt.Sprintf("L%08x", l))
		case k < 80 && flavour >= 5:
			l := linAddr(r, spec)
			v := r.Byte() | 1
			if isF256(spec) && l < 16 {
				v = regValue(r, spec, uint16(l))
			}
			pendAppend(fmt.Sprintf(" S%08x=%02x", l, v))
			if protect(func() { lm.StoreLarge(l, v) }) {
				res = append(res, "!")
			} else {
				res = append(res, "ok")
			}
			ops = append(ops, fmt.Sprintf("S%08x=%02x", l, v))
		case k < 86 && flavour == 6:
			a := cpuAddr(r, spec)
			var v uint64
			if protect(func() { v = m.GetStatistics(a) }) {
				res = append(res, "!")
			} else {
				res = append(res, fmt.Sprintf("%d", v))
			}
			ops = append(ops, fmt.Sprintf("g%04x", a))
		case k < 90 && flavour == 6:
			l := linAddr(r, spec)
			var v uint64
			if protect(func() { v = lm.GetStatisticsLarge(l) }) {
				res = append(res, "!")
			} else {
				res = append(res, fmt.Sprintf("%d", v))
			}
			ops = append(ops, fmt.Sprintf("G%08x", l))
		case k < 92 && flavour >= 6:
			m.ClearStatistics()
			ops = append(ops, "c")
			res = append(res, "-")
		case k < 95 && flavour >= 7:
			m.TakeSnapshot()
			haveSnap = true
			ops = append(ops, "t")
			res = append(res, "-")
			snapImages = append(snapImages, "T:"+imageOf(spec, m))
		case k < 100 && flavour >= 7 && haveSnap:
			m.RestoreSnapshot()
			ops = append(ops, "r")
			res = append(res, "-")
			snapImages = append(snapImages, "R:"+imageOf(spec, m))
		default:
			i--
		}
	}
	count(fmt.Sprintf("mem.flavour%d.%s", flavour, spec))
	var b strings.Builder
	fmt.Fprintf(&b, "mem %s %d | %s => %s", spec, flavour, strings.Join(ops, " "), strings.Join(res, " "))
	// final observation: statistics first (pure), then contents
	b.WriteString(" | S")
	if flavour == 6 {
		sweepStats(&b, spec, m)
	}
	b.WriteString(" | D")
	b.WriteString(imageOf(spec, m)) // after the statistics sweep: reading the image counts as accesses
	b.WriteString(" | I " + strings.Join(snapImages, " ; "))
	return b.String()
}

func sweepStats(b *strings.Builder, spec string, m memory.Memory) {
	lm := m.ToLargeMemory()
	total := linTotals[spec]
	start := uint32(0)
	if isF256(spec) {
		start = 16
		fmt.Fprintf(b, " c0:%d c1:%d", m.GetStatistics(0), m.GetStatistics(1))
	}
	if protect(func() {
		for l := start; l < total; l++ {
			if v := lm.GetStatisticsLarge(l); v != 0 {
				fmt.Fprintf(b, " %x:%d", l, v)
			}
		}
	}) {
		b.WriteString(" !fault")
	}
	if isF256(spec) {
		// the LUT counters are only reachable through the edit window: open it for each LUT in turn
		// (the stores to $0000 count on MMU_MEM_CTRL, whose counter was reported above); the register is put back
		// afterwards: the data image that follows must show the machine as the history left it
		old := m.Load(0)
		defer m.Store(0, old)
		for n := 0; n < 4; n++ {
			m.Store(0, uint8(0x80|n<<4))
			for i := 0; i < 8; i++ {
				if v := m.GetStatistics(uint16(8 + i)); v != 0 {
					fmt.Fprintf(b, " t%d:%d", n*8+i, v)
				}
			}
		}
	}
}

// imageOf: all non-zero bytes through the linear view (+ F256 control registers through the CPU view).
// Loads change statistics but never contents.
func imageOf(spec string, m memory.Memory) string {
	var b strings.Builder
	lm := m.ToLargeMemory()
	total := linTotals[spec]
	start := uint32(0)
	if isF256(spec) {
		start = 16
		fmt.Fprintf(&b, " c0:%02x c1:%02x", m.Load(0), m.Load(1))
	}
	if protect(func() {
		for l := start; l < total; l++ {
			if v := lm.LoadLarge(l); v != 0 {
				fmt.Fprintf(&b, " %x:%02x", l, v)
			}
		}
	}) {
		b.WriteString(" !fault")
	}
	return b.String()
}

func memReplayLine(req string) {
	parts := strings.SplitN(req, "|", 2)
	hd := strings.Fields(parts[0])
	if len(hd) != 3 || hd[0] != "mem" || len(parts) != 2 {
		return
	}
	flavour, _ := strconv.Atoi(hd[2])
	emit(memExec(hd[1], flavour, strings.Fields(parts[1])))
}

// memExec executes operation tokens on a fresh machine
func memExec(spec string, flavour int, ops []string) string {
	wrapLayers = flavour == 7 && len(ops)%3 == 0 // as memHistory does
	m := newMem(spec)
	wrapLayers = false
	lm := m.ToLargeMemory()
	var res []string
	snapImages := []string{}
	hx := func(s string) uint64 { v, _ := strconv.ParseUint(s, 16, 64); return v }
	for _, op := range ops {
		body := op[1:]
		switch op[0] {
		case 'l':
			var v uint8
			if protect(func() { v = m.Load(uint16(hx(body))) }) {
				res = append(res, "!")
			} else {
				res = append(res, fmt.Sprintf("%02x", v))
			}
		case 's':
			kv := strings.SplitN(body, "=", 2)
			if protect(func() { m.Store(uint16(hx(kv[0])), uint8(hx(kv[1]))) }) {
				res = append(res, "!")
			} else {
				res = append(res, "ok")
			}
		case 'L':
			var v uint8
			if protect(func() { v = lm.LoadLarge(uint32(hx(body))) }) {
				res = append(res, "!")
			} else {
				res = append(res, fmt.Sprintf("%02x", v))
			}
		case 'S':
			kv := strings.SplitN(body, "=", 2)
			if protect(func() { lm.StoreLarge(uint32(hx(kv[0])), uint8(hx(kv[1]))) }) {
				res = append(res, "!")
			} else {
				res = append(res, "ok")
			}
		case 'g':
			var v uint64
			if protect(func() { v = m.GetStatistics(uint16(hx(body))) }) {
				res = append(res, "!")
			} else {
				res = append(res, fmt.Sprintf("%d", v))
			}
		case 'G':
			var v uint64
			if protect(func() { v = lm.GetStatisticsLarge(uint32(hx(body))) }) {
				res = append(res, "!")
			} else {
				res = append(res, fmt.Sprintf("%d", v))
			}
		case 'c':
			m.ClearStatistics()
			res = append(res, "-")
		case 't':
			m.TakeSnapshot()
			res = append(res, "-")
			snapImages = append(snapImages, "T:"+imageOf(spec, m))
		case 'r':
			m.RestoreSnapshot()
			res = append(res, "-")
			snapImages = append(snapImages, "R:"+imageOf(spec, m))
		}
	}
	var b strings.Builder
	fmt.Fprintf(&b, "mem %s %d | %s => %s", spec, flavour, strings.Join(ops, " "), strings.Join(res, " "))
	b.WriteString(" | S")
	if flavour == 6 {
		sweepStats(&b, spec, m)
	}
	b.WriteString(" | D")
	b.WriteString(imageOf(spec, m)) // after the statistics sweep: reading the image counts as accesses
	b.WriteString(" | I " + strings.Join(snapImages, " ; "))
	return b.String()
}

func memStream(seed uint64, n int, flavour int) {
	root := rng.New(seed + uint64(flavour)*1000)
	for _, spec := range memSpecs {
		if flavour == 5 && strings.HasPrefix(spec, "Linear") {
			// the property is about the banked machines; the linear view of a linear memory is the CPU view
			if spec != "Linear32K" {
				continue
			}
		}
		r := root.Fork()
		for i := 0; i < n; i++ {
			length := 20 + r.Intn(60)
			if i%10 == 0 {
				length = 200 + r.Intn(300)
			}
			emit(memHistory(r, spec, flavour, length))
		}
	}
}
