package main

import (
	"6502profiler/assembler"
	"encoding/hex"
	"fmt"
	"os"
	"path/filepath"
	"sort"
	"strings"
	"verifharness/internal/rng"
)

func labelLineCase(kind, line string) string {
	v, l, err := assembler.VerifParseLine(kind, line)
	res := "err"
	if err == nil {
		res = fmt.Sprintf("ok %d %s", v, hex.EncodeToString([]byte(l)))
	}
	return fmt.Sprintf("label %s %s => %s", kind, hex.EncodeToString([]byte(line)), res)
}

const wordChars = "abcXYZ019_"
const wsChars = " \t"

func genLabelLine(r *rng.R, kind string) string {
	pick := func(s string, n int) string {
		b := make([]byte, n)
		for i := range b {
			b[i] = s[r.Intn(len(s))]
		}
		return string(b)
	}
	lead := pick(wsChars, 1+r.Intn(3))
	if kind == "64tass" && r.Chance(50) {
		lead = ""
	}
	label := pick(wordChars, 1+r.Intn(8))
	mid := pick(wsChars, 1+r.Intn(3))
	if kind == "64tass" && r.Chance(30) {
		mid = ""
	}
	var val string
	if kind == "64tass" && r.Chance(50) {
		val = []string{"0", "7", "65535", "65536", "99999", "100000", "00012", fmt.Sprintf("%d", r.Intn(70000))}[r.Intn(8)]
	} else {
		n := 1 + r.Intn(4)
		if r.Chance(10) {
			n = 5
		}
		val = "$" + pick("0123456789abcdefABCDEF", n)
	}
	tail := ""
	switch r.Intn(5) {
	case 0:
		tail = " ; comment = $12"
	case 1:
		tail = "\t; ünïcödé"
	case 2:
		tail = " "
	case 3:
		tail = ";nospace"
	}
	return lead + label + mid + "= " + val + tail
}

func corruptions(line string) []string {
	alphabet := []byte{' ', '$', '=', 'g', '1', '_', '\t', '\r'}
	res := []string{}
	b := []byte(line)
	for i := 0; i <= len(b); i++ {
		if i < len(b) {
			// delete
			res = append(res, string(append(append([]byte{}, b[:i]...), b[i+1:]...)))
		}
		c := alphabet[i%len(alphabet)]
		// insert
		res = append(res, string(append(append(append([]byte{}, b[:i]...), c), b[i:]...)))
		if i < len(b) {
			// replace
			x := append([]byte{}, b...)
			x[i] = c
			res = append(res, string(x))
		}
	}
	return res
}

func labelFileCase(kind string, lines []string, longLine int, longAt int) string {
	// longLine > 0: line number longAt gets a comment padded to that total length
	var sb strings.Builder
	enc := []string{}
	for i, l := range lines {
		if longLine > 0 && i == longAt {
			pad := longLine - len(l)
			if pad < 0 {
				pad = 0
			}
			sb.WriteString(l + strings.Repeat("x", pad) + "\n")
			enc = append(enc, fmt.Sprintf("%s+%d", hex.EncodeToString([]byte(l)), pad))
		} else {
			sb.WriteString(l + "\n")
			enc = append(enc, hex.EncodeToString([]byte(l)))
		}
	}
	p := filepath.Join(tmpDir(), "labels.txt")
	text := sb.String()
	if len(lines)%2 == 0 && lines[len(lines)-1] != "" {
		// the last line of a file need not end with a line feed: the same definitions (an EMPTY last line is only
		// there because of its line feed, so that one is kept)
		text = strings.TrimSuffix(text, "\n")
	}
	os.WriteFile(p, []byte(text), 0600)
	var asm assembler.Assembler
	if kind == "64tass" {
		asm = assembler.NewTass64("", "", "", "")
	} else {
		asm = assembler.NewACME("", "", "", "")
	}
	m, err := asm.ParseLabelFile(p)
	res := "err"
	if err == nil {
		keys := []int{}
		for k := range m {
			keys = append(keys, int(k))
		}
		sort.Ints(keys)
		parts := []string{}
		for _, k := range keys {
			ls := []string{}
			for _, l := range m[uint16(k)] {
				ls = append(ls, hex.EncodeToString([]byte(l)))
			}
			parts = append(parts, fmt.Sprintf("%d:%s", k, strings.Join(ls, ",")))
		}
		res = "ok " + strings.Join(parts, ";")
		if len(parts) == 0 {
			res = "ok -"
		}
	}
	e := strings.Join(enc, ",")
	if e == "" {
		e = "-"
	}
	return fmt.Sprintf("labelfile %s %s => %s", kind, e, res)
}

func labelStream(seed uint64, n int) {
	r := rng.New(seed + 1919)
	defer func() {
		if loadTmp != "" {
			os.RemoveAll(loadTmp)
		}
	}()
	fixed := []string{"", " ", "a = $1", " a = $1", " a  = $12 ", "\ta\t= $FFFF\t;x", " a = $10000", " a = $", " a =$12", " a= $12",
		"a = 12", "a = 65535", "a = 65536", "a = 99999", "a= 7", "a =7", " a_b9 = $aF0c;c", " a = $12x", " a = $g", "x a = $12", " = $12",
		" a = $12\r", " a = $1 \n", "a = $12\nb", " ä = $12", " a = $12 ü", "a = 0x12", "a = -1", "a = +1", " a = $1 2", "a = 1 2", "a  =  5"}
	for _, kind := range []string{"acme", "64tass"} {
		for _, l := range fixed {
			emit(labelLineCase(kind, l))
			count("label.fixed")
		}
		for i := 0; i < n; i++ {
			l := genLabelLine(r, kind)
			emit(labelLineCase(kind, l))
			count("label.gen")
			if i%10 == 0 {
				for _, c := range corruptions(l) {
					emit(labelLineCase(kind, c))
					count("label.corrupt")
				}
			}
		}
		// files: order, several labels per address, abort on a bad line, very long lines
		for i := 0; i < n/10+3; i++ {
			lines := []string{}
			for k := 0; k < 1+r.Intn(8); k++ {
				if kind == "acme" {
					lines = append(lines, fmt.Sprintf("\t%s\t= $%x", []string{"a", "b", "lab", "x1"}[r.Intn(4)], []int{16, 32, 0x801}[r.Intn(3)]))
				} else {
					lines = append(lines, fmt.Sprintf("%s = $%x", []string{"a", "b", "lab", "x1"}[r.Intn(4)], []int{16, 32, 0x801}[r.Intn(3)]))
				}
			}
			if r.Chance(20) {
				lines[r.Intn(len(lines))] = "garbage here"
			}
			if r.Chance(25) {
				// an empty or blank line is not a well-formed definition either — wherever it stands
				blank := []string{"", " ", "\t", "   "}[r.Intn(4)]
				at := r.Intn(len(lines) + 1)
				lines = append(lines[:at], append([]string{blank}, lines[at:]...)...)
			}
			emit(labelFileCase(kind, lines, 0, 0))
			count("labelfile")
		}
		base := []string{"\ta\t= $10", "\tb\t= $20 ;", "\tc\t= $30"}
		if kind == "64tass" {
			base = []string{"a = $10", "b = $20 ;", "c = $30"}
		}
		for _, ll := range []int{1000, 65534, 65535, 65536, 65537, 70000, 140000} {
			emit(labelFileCase(kind, base, ll, 1))
			count("labelfile.long")
		}
	}
}
