package main

import (
	"6502profiler/cpu"
	"fmt"
	"os"
	"strconv"
	"strings"
	"verifharness/internal/bus"
	"verifharness/internal/gen"
	"verifharness/internal/rng"
)

type regs struct {
	PC             uint16
	SP, A, X, Y, P uint8
}

type cpuCase struct {
	Model  int
	R      regs
	Mem    map[uint16]uint8
	Budget int
}

func (c *cpuCase) request() string {
	return fmt.Sprintf("run %d %04x %02x %02x %02x %02x %02x %d | %s", c.Model, c.R.PC, c.R.SP, c.R.A, c.R.X, c.R.Y, c.R.P,
		c.Budget, bus.MemString(c.Mem))
}

func classify(err error) string {
	if err == nil {
		return "halt"
	}
	// only "halt", "budget" (the harness bus's own panic) and "some error" are compared; the finer names are
	// informative and depend on the wording of the repository's messages
	m := strings.ToLower(err.Error())
	switch {
	case strings.Contains(m, "budget exhausted"):
		return "budget"
	case strings.Contains(m, "illegal opcode"):
		return "illegal"
	case strings.Contains(m, "invalid bcd"):
		return "bcd"
	case strings.Contains(m, "index out of range"):
		return "mem"
	}
	return "error"
}

// runGo executes the case on the real cpu package with a recording sparse bus
func runGo(c *cpuCase) string {
	model := cpu.Model6502
	if c.Model == 1 {
		model = cpu.Model65C02
	}
	p := cpu.New6502(model)
	b := bus.NewSparse(c.Mem, c.Budget)
	p.Init(b)
	p.SP, p.A, p.X, p.Y, p.Flags = c.R.SP, c.R.A, c.R.X, c.R.Y, c.R.P
	var err error
	crashed := false
	func() {
		// a panic that escapes RunExt's own recover would kill a real host process
		defer func() {
			if r := recover(); r != nil {
				crashed = true
			}
		}()
		err = p.RunExt(c.R.PC, true)
	}()
	kind := classify(err)
	if crashed {
		kind = "hostcrash"
	}
	return fmt.Sprintf("%s %04x %02x %02x %02x %02x %02x %d | %s", kind, p.PC, p.SP, p.A, p.X, p.Y, p.Flags, p.NumCycles(),
		bus.TraceString(b.Trace))
}

var pcChoices = []uint16{0x0800, 0x08FD, 0x08FE, 0x08FF, 0xFFFD, 0xFFFE, 0xFFFF, 0x00FE, 0x01F0, 0x7FFE, 0xC000}
var idxChoices = []uint8{0x00, 0x01, 0xFF, 0x80, 0x7F, 0x10}
var spChoices = []uint8{0x00, 0x01, 0xFF, 0xFE, 0x80}
var offChoices = []uint8{0x00, 0x01, 0x7F, 0x80, 0xFE, 0xFF, 0x02, 0xFD, 0x10, 0xF0}

func def(mem map[uint16]uint8, a uint16, v uint8) {
	if _, ok := mem[a]; !ok {
		mem[a] = v
	}
}

func dataByte(r *rng.R, decimal bool) uint8 {
	if decimal && r.Chance(85) {
		return r.BCD()
	}
	return r.BByte()
}

// genCase builds one single-instruction case for (model, opcode): operands and the bytes the
// instruction will look at are placed according to its addressing mode; everything else is undefined
// (reads 0 = BRK, so that the run stops after this instruction).
func genCase(r *rng.R, model int, op uint8) *cpuCase {
	c := &cpuCase{Model: model, Mem: map[uint16]uint8{}, Budget: 40}
	info, known := gen.Info(model, op)
	rg := &c.R
	if r.Chance(70) {
		rg.PC = rng.PickU16(r, pcChoices)
	} else {
		rg.PC = r.Word()
	}
	rg.A, rg.P = r.BByte(), r.Byte()
	if r.Chance(50) {
		rg.X = rng.PickU8(r, idxChoices)
	} else {
		rg.X = r.Byte()
	}
	if r.Chance(50) {
		rg.Y = rng.PickU8(r, idxChoices)
	} else {
		rg.Y = r.Byte()
	}
	if r.Chance(60) {
		rg.SP = rng.PickU8(r, spChoices)
	} else {
		rg.SP = r.Byte()
	}
	decimal := false
	if known && (info.Mn == "ADC" || info.Mn == "SBC") {
		// half of the arithmetic cases in decimal mode
		if r.Bool() {
			rg.P |= 0x08
			decimal = true
			if r.Chance(85) {
				rg.A = r.BCD()
			}
		} else {
			rg.P &^= 0x08
		}
	}
	pc := rg.PC
	c.Mem[pc] = op
	o1, o2 := r.BByte(), r.BByte()
	if r.Chance(40) {
		o1 = rng.PickU8(r, []uint8{0x00, 0xFF, 0xFE, 0x01, 0x80})
	}
	mode := "unknown"
	if known {
		mode = info.Mode
	}
	w := func(lo, hi uint8) uint16 { return uint16(hi)<<8 | uint16(lo) }
	d := func() uint8 { return dataByte(r, decimal) }
	switch mode {
	case "imp", "acc":
		// stack instructions: define the bytes a pull would read
		def(c.Mem, 0x100+uint16(rg.SP+1), d())
		def(c.Mem, 0x100+uint16(rg.SP+2), d())
	case "imm":
		def(c.Mem, pc+1, d())
	case "zp":
		def(c.Mem, pc+1, o1)
		def(c.Mem, uint16(o1), d())
	case "zpx":
		def(c.Mem, pc+1, o1)
		def(c.Mem, uint16(o1+rg.X), d())
	case "zpy":
		def(c.Mem, pc+1, o1)
		def(c.Mem, uint16(o1+rg.Y), d())
	case "abs":
		def(c.Mem, pc+1, o1)
		def(c.Mem, pc+2, o2)
		def(c.Mem, w(o1, o2), d())
	case "absx":
		def(c.Mem, pc+1, o1)
		def(c.Mem, pc+2, o2)
		def(c.Mem, w(o1, o2)+uint16(rg.X), d())
	case "absy":
		def(c.Mem, pc+1, o1)
		def(c.Mem, pc+2, o2)
		def(c.Mem, w(o1, o2)+uint16(rg.Y), d())
	case "ind":
		def(c.Mem, pc+1, o1)
		def(c.Mem, pc+2, o2)
		p := w(o1, o2)
		def(c.Mem, p, r.BByte())
		def(c.Mem, p+1, r.BByte())
		def(c.Mem, w(o1+1, o2), r.BByte()) // NMOS page bug location
	case "absindx":
		def(c.Mem, pc+1, o1)
		def(c.Mem, pc+2, o2)
		p := w(o1, o2) + uint16(rg.X)
		def(c.Mem, p, r.BByte())
		def(c.Mem, p+1, r.BByte())
	case "indx":
		def(c.Mem, pc+1, o1)
		z := o1 + rg.X
		lo, hi := r.BByte(), r.BByte()
		def(c.Mem, uint16(z), lo)
		def(c.Mem, uint16(z+1), hi)
		def(c.Mem, w(c.Mem[uint16(z)], c.Mem[uint16(z+1)]), d())
	case "indy":
		def(c.Mem, pc+1, o1)
		lo, hi := r.BByte(), r.BByte()
		def(c.Mem, uint16(o1), lo)
		def(c.Mem, uint16(o1+1), hi)
		def(c.Mem, w(c.Mem[uint16(o1)], c.Mem[uint16(o1+1)])+uint16(rg.Y), d())
	case "zpind":
		def(c.Mem, pc+1, o1)
		lo, hi := r.BByte(), r.BByte()
		def(c.Mem, uint16(o1), lo)
		def(c.Mem, uint16(o1+1), hi)
		def(c.Mem, w(c.Mem[uint16(o1)], c.Mem[uint16(o1+1)]), d())
	case "rel":
		off := o1
		if r.Chance(70) {
			off = rng.PickU8(r, offChoices)
		}
		def(c.Mem, pc+1, off)
	case "zprel":
		off := o2
		if r.Chance(70) {
			off = rng.PickU8(r, offChoices)
		}
		def(c.Mem, pc+1, o1)
		def(c.Mem, pc+2, off)
		def(c.Mem, uint16(o1), r.BByte())
	default:
		// unassigned opcode: give it operands anyway
		def(c.Mem, pc+1, o1)
		def(c.Mem, pc+2, o2)
	}
	if known && info.Mn == "RTS" {
		// make the return address interesting
		c.Mem[0x100+uint16(rg.SP+1)] = rng.PickU8(r, []uint8{0xFF, 0x00, 0xFE, r.Byte()})
		c.Mem[0x100+uint16(rg.SP+2)] = rng.PickU8(r, []uint8{0xFF, 0x00, 0x12, r.Byte()})
	}
	count(fmt.Sprintf("mode.%s", mode))
	if decimal {
		count("decimal")
	}
	return c
}

// flowCases: programs of more than one instruction around the question WHERE a run may halt (property C11: a run that
// stops halts at a BRK or returns an error).  Undefined memory reads 0 = BRK, so every case says explicitly what lies at
// the place execution must continue at.  The specification's own run (driver: class `multi.*`) either never reaches a
// BRK within the bus budget (JMP to itself, taken branch to itself, loops through RTS: the code must exhaust the budget
// too) or reaches it / an undefined opcode later, somewhere else (RTS and pulls with a wrapping stack pointer, JMP over
// undefined opcodes).
func flowCases(r *rng.R, model int) []*cpuCase {
	out := []*cpuCase{}
	illegal := []uint8{0x02, 0x03, 0x0B, 0x13, 0x40, 0xDB, 0xCB}
	mk := func(pc uint16, sp uint8) *cpuCase {
		c := &cpuCase{Model: model, Mem: map[uint16]uint8{}, Budget: 60}
		c.R = regs{PC: pc, SP: sp, A: r.BByte(), X: r.Byte(), Y: r.Byte(), P: r.Byte() &^ 0x08}
		return c
	}
	put := func(c *cpuCase, a uint16, bs ...uint8) uint16 {
		for _, b := range bs {
			c.Mem[a] = b
			a++
		}
		return a
	}
	// what the program finds where it must continue: BRK, V BRK, an undefined opcode, an endless loop
	end := func(c *cpuCase, a uint16, k int) {
		switch k % 4 {
		case 0:
			put(c, a, 0x00)
		case 1:
			put(c, a, 0xEA, 0x00)
		case 2:
			put(c, a, rng.PickU8(r, illegal), 0x00)
		case 3:
			put(c, a, 0x4C, uint8(a), uint8(a>>8), 0x00)
		}
	}
	pcs := []uint16{0x0800, 0x08FD, 0x08FE, 0xFFFD, 0xFFFE, 0x00FE, 0x7FFE, 0xC000, r.Word()}
	// JMP abs to itself: first instruction, and after a prefix; JMP (ind) through a pointer to itself
	for i, pc := range pcs {
		c := mk(pc, 0xFF)
		put(c, pc, 0x4C, uint8(pc), uint8(pc>>8), 0x00)
		c.Mem[pc-1] = []uint8{0x00, 0xEA}[i%2] // the byte in front of the JMP (a BRK opcode that is never executed / NOP)
		out = append(out, c)
	}
	for i := 0; i < 3; i++ {
		pc := rng.PickU16(r, pcs)
		c := mk(pc, r.Byte())
		a := put(c, pc, 0xA9, r.BByte(), 0xE8) // LDA # ; INX
		put(c, a, 0x4C, uint8(a), uint8(a>>8), 0x00)
		out = append(out, c)
		c = mk(pc, r.Byte())
		put(c, pc, 0x6C, 0x40, 0x02, 0x00)
		put(c, 0x0240, uint8(pc), uint8(pc>>8))
		out = append(out, c)
	}
	// JMP over undefined opcodes to a later BRK / V BRK / undefined opcode
	for i := 0; i < 4; i++ {
		pc := rng.PickU16(r, pcs)
		c := mk(pc, r.Byte())
		t := pc + 3 + uint16(1+r.Intn(3))
		a := put(c, pc, 0x4C, uint8(t), uint8(t>>8))
		for ; a != t; a++ {
			c.Mem[a] = rng.PickU8(r, illegal)
		}
		end(c, t, i%3)
		out = append(out, c)
	}
	// a taken branch to itself
	type br struct{ op, set, clr uint8 }
	brs := []br{{0xD0, 0, 0x02}, {0xF0, 0x02, 0}, {0x90, 0, 0x01}, {0xB0, 0x01, 0}, {0x10, 0, 0x80}, {0x30, 0x80, 0}, {0x50, 0, 0x40},
		{0x70, 0x40, 0}, {0x80, 0, 0}}
	for _, b := range brs {
		pc := rng.PickU16(r, pcs)
		c := mk(pc, r.Byte())
		c.R.P = (c.R.P | b.set) &^ b.clr
		put(c, pc, b.op, 0xFE, 0x00)
		out = append(out, c)
	}
	// RTS with a wrapping stack pointer: the return address is planted where the pulls find it
	for i, sp := range []uint8{0xFF, 0xFF, 0xFF, 0xFF, 0xFE, 0xFE, 0x00, 0x00, 0x01, 0xFD, r.Byte(), r.Byte()} {
		pc := rng.PickU16(r, pcs[:8])
		c := mk(pc, sp)
		a := pc
		if i%3 == 2 {
			a = put(c, a, 0xA9, r.BByte()) // LDA # in front
		}
		a = put(c, a, 0x60, rng.PickU8(r, illegal))
		t := []uint16{0x0300, 0x0001, 0x9000, a}[i%4]
		if i == 3 {
			t = 0x0001 // nothing planted: $0100/$0101 read 0, execution continues at $0001
		}
		if i != 3 {
			c.Mem[0x0100+uint16(sp+1)] = uint8(t - 1)
			c.Mem[0x0100+uint16(sp+2)] = uint8((t - 1) >> 8)
		}
		end(c, t, i/2)
		out = append(out, c)
	}
	// a balanced JSR/RTS pair, then an RTS at SP=$FF
	for i := 0; i < 2; i++ {
		pc := uint16(0x0800)
		c := mk(pc, 0xFF)
		put(c, pc, 0x20, 0x05, 0x08, 0x60, rng.PickU8(r, illegal), 0xEA, 0x60) // JSR sub ; RTS ; undefined ; sub: NOP ; RTS
		c.Mem[0x0100], c.Mem[0x0101] = 0xFF, 0x02
		end(c, 0x0300, 2*i)
		out = append(out, c)
	}
	// pulls with SP=$FF (read $0100), the program goes on afterwards
	for i, op := range []uint8{0x68, 0x28, 0xFA, 0x7A, 0x68, 0x28} {
		pc := rng.PickU16(r, pcs[:8])
		c := mk(pc, 0xFF)
		c.Mem[0x0100] = r.BByte() &^ 0x08
		a := put(c, pc, op)
		end(c, a, 1+i)
		out = append(out, c)
	}
	return out
}

// cpu1: every opcode of both models, n cases each
func cpu1(seed uint64, n int, tier string) {
	root := rng.New(seed)
	// opcode by opcode, the two CPU models ALTERNATING (a CPU object of one model must not be influenced by CPUs of the
	// other model created earlier in the same process)
	for op := 0; op < 256; op++ {
		forks := []*rng.R{root.Fork(), root.Fork()}
		for i := 0; i < n; i++ {
			for model := 1; model >= 0; model-- {
				c := genCase(forks[model], model, uint8(op))
				res := runGo(c)
				count("kind." + strings.SplitN(res, " ", 2)[0])
				emit(c.request() + " => " + res)
			}
		}
	}
	// where a run may halt: programs of more than one instruction, the two CPU models alternating as above
	fr := rng.New(seed + 4141)
	for round := 0; round < 1+n/100; round++ {
		per := [][]*cpuCase{flowCases(fr.Fork(), 0), flowCases(fr.Fork(), 1)}
		for i := range per[0] {
			for model := 1; model >= 0; model-- {
				c := per[model][i]
				res := runGo(c)
				count("flow.kind." + strings.SplitN(res, " ", 2)[0])
				emit(c.request() + " => " + res)
			}
		}
	}
	if tier == "thorough" {
		aluExhaustive()
	}
}

// aluExhaustive: every (A, M, C, D) tuple through the immediate form of the arithmetic, compare and
// logic instructions, every (register, operand) pair through CPX/CPY/BIT/TRB/TSB, every operand value and carry
// through the accumulator shifts and INC/DEC A.  VERIF_ALU_GROUPS (comma separated) restricts the sweep to
// the groups named (the orchestrator derives them from the functions whose translation no longer is the model's).
func aluExhaustive() {
	groups := map[string]bool{}
	if g := os.Getenv("VERIF_ALU_GROUPS"); g != "" {
		for _, x := range strings.Split(g, ",") {
			groups[strings.TrimSpace(x)] = true
		}
	}
	want := func(g string) bool { return len(groups) == 0 || groups[g] }
	type immOp struct {
		op  uint8
		grp string
		reg int // 0 = A, 1 = X, 2 = Y
	}
	imm := []immOp{{0x69, "adc", 0}, {0xE9, "sbc", 0}, {0xC9, "cmp", 0}, {0x29, "and", 0}, {0x09, "ora", 0}, {0x49, "eor", 0},
		{0xE0, "cpx", 1}, {0xC0, "cpy", 2}}
	for model := 0; model < 2; model++ {
		for _, io := range imm {
			if !want(io.grp) {
				continue
			}
			op := io.op
			for a := 0; a < 256; a++ {
				for m := 0; m < 256; m++ {
					for f := 0; f < 4; f++ {
						p := uint8(0x20)
						if f&1 != 0 {
							p |= 0x01
						}
						if f&2 != 0 {
							if op != 0x69 && op != 0xE9 {
								continue
							}
							p |= 0x08
						}
						c := &cpuCase{Model: model, Budget: 40, Mem: map[uint16]uint8{0x0800: op, 0x0801: uint8(m)}}
						c.R = regs{PC: 0x0800, SP: 0xFF, P: p}
						switch io.reg {
						case 0:
							c.R.A = uint8(a)
						case 1:
							c.R.X = uint8(a)
						default:
							c.R.Y = uint8(a)
						}
						emit(c.request() + " => " + runGo(c))
						count("alu")
					}
				}
			}
		}
		// zero-page forms with a memory operand: BIT, and on the 65C02 TRB / TSB
		zp := []immOp{{0x24, "bit", 0}}
		if model == 1 {
			zp = append(zp, immOp{0x14, "trbtsb", 0}, immOp{0x04, "trbtsb", 0})
		}
		for _, io := range zp {
			if !want(io.grp) {
				continue
			}
			for a := 0; a < 256; a++ {
				for m := 0; m < 256; m++ {
					c := &cpuCase{Model: model, Budget: 40, Mem: map[uint16]uint8{0x0800: io.op, 0x0801: 0x40, 0x0040: uint8(m)}}
					c.R = regs{PC: 0x0800, SP: 0xFF, A: uint8(a), P: uint8(0x20 | (a & 0xC3))}
					emit(c.request() + " => " + runGo(c))
					count("alu")
				}
			}
		}
		// accumulator shifts / rotates, INC A / DEC A (65C02): every value, both carries
		acc := []immOp{{0x0A, "shift", 0}, {0x4A, "shift", 0}, {0x2A, "shift", 0}, {0x6A, "shift", 0}}
		if model == 1 {
			acc = append(acc, immOp{0x1A, "incdec", 0}, immOp{0x3A, "incdec", 0})
		}
		for _, io := range acc {
			if !want(io.grp) {
				continue
			}
			for a := 0; a < 256; a++ {
				for cy := 0; cy < 2; cy++ {
					c := &cpuCase{Model: model, Budget: 40, Mem: map[uint16]uint8{0x0800: io.op}}
					c.R = regs{PC: 0x0800, SP: 0xFF, A: uint8(a), P: uint8(0x20 | cy)}
					emit(c.request() + " => " + runGo(c))
					count("alu")
				}
			}
		}
		// memory shifts / INC / DEC on zero page: every value, both carries
		mem := []immOp{{0x06, "shift", 0}, {0x46, "shift", 0}, {0x26, "shift", 0}, {0x66, "shift", 0}, {0xE6, "incdec", 0}, {0xC6, "incdec", 0},
			{0xE8, "incdec", 1}, {0xCA, "incdec", 1}, {0xC8, "incdec", 2}, {0x88, "incdec", 2}}
		for _, io := range mem {
			if !want(io.grp) {
				continue
			}
			for a := 0; a < 256; a++ {
				for cy := 0; cy < 2; cy++ {
					c := &cpuCase{Model: model, Budget: 40, Mem: map[uint16]uint8{0x0800: io.op, 0x0801: 0x40, 0x0040: uint8(a)}}
					c.R = regs{PC: 0x0800, SP: 0xFF, X: uint8(a), Y: uint8(a), P: uint8(0x20 | cy)}
					emit(c.request() + " => " + runGo(c))
					count("alu")
				}
			}
		}
	}
}

func parseRequest(req string) (*cpuCase, bool) {
	parts := strings.SplitN(req, "|", 2)
	hd := strings.Fields(parts[0])
	if len(hd) != 9 || hd[0] != "run" {
		return nil, false
	}
	hx := func(s string) uint64 { v, _ := strconv.ParseUint(s, 16, 32); return v }
	c := &cpuCase{Mem: map[uint16]uint8{}}
	c.Model, _ = strconv.Atoi(hd[1])
	c.R = regs{uint16(hx(hd[2])), uint8(hx(hd[3])), uint8(hx(hd[4])), uint8(hx(hd[5])), uint8(hx(hd[6])), uint8(hx(hd[7]))}
	c.Budget, _ = strconv.Atoi(hd[8])
	if len(parts) > 1 {
		for _, kv := range strings.Fields(parts[1]) {
			p := strings.SplitN(kv, "=", 2)
			if len(p) == 2 {
				c.Mem[uint16(hx(p[0]))] = uint8(hx(p[1]))
			}
		}
	}
	return c, true
}

// cpuRuns: several RunExt calls on one CPU, with and without resetting the cycle counter (what
// TestCase.Execute does for test iterations): the reported total after each run is compared.
func cpuRuns(seed uint64, n int) {
	root := rng.New(seed + 77)
	simple := [][]uint8{{0xEA}, {0xE8}, {0xC8}, {0x18}, {0xA9, 0x11}, {0x69, 0x01}, {0x85, 0x10}, {0xA5, 0x10}, {0xE6, 0x20},
		{0xBD, 0xF0, 0x20}, {0xD0, 0x00}, {0x4C}}
	for i := 0; i < n; i++ {
		r := root.Fork()
		model := r.Intn(2)
		mem := map[uint16]uint8{}
		nseg := 2 + r.Intn(3)
		starts := []uint16{}
		for sg := 0; sg < nseg; sg++ {
			base := uint16(0x0800 + sg*0x100)
			starts = append(starts, base)
			a := base
			for k := 0; k < 1+r.Intn(5); k++ {
				ins := simple[r.Intn(len(simple))]
				if ins[0] == 0x4C {
					// JMP to the next byte after the instruction
					mem[a] = 0x4C
					mem[a+1] = uint8((a + 3) & 0xFF)
					mem[a+2] = uint8((a + 3) >> 8)
					a += 3
					continue
				}
				for _, bb := range ins {
					mem[a] = bb
					a++
				}
			}
			mem[a] = 0x00
		}
		model65 := cpu.Model6502
		if model == 1 {
			model65 = cpu.Model65C02
		}
		p := cpu.New6502(model65)
		b := bus.NewSparse(mem, 4000)
		p.Init(b)
		p.X = r.Byte()
		x0 := p.X
		var runs, outs []string
		for k := 0; k < 2+r.Intn(5); k++ {
			if r.Chance(15) {
				// Reset between runs (what the snapshot provider does before every test case): the counter is zero again
				p.Reset()
				runs = append(runs, "0000:2")
				outs = append(outs, fmt.Sprintf("reset:%d", p.NumCycles()))
				continue
			}
			pc := starts[r.Intn(len(starts))]
			reset := r.Chance(30)
			err := p.RunExt(pc, reset)
			rs := 0
			if reset {
				rs = 1
			}
			runs = append(runs, fmt.Sprintf("%04x:%d", pc, rs))
			outs = append(outs, fmt.Sprintf("%s:%d", classify(err), p.NumCycles()))
		}
		count("runs")
		emit(fmt.Sprintf("runs %d %02x | %s | %s => %s", model, x0, bus.MemString(mem), strings.Join(runs, " "), strings.Join(outs, " ")))
	}
}
