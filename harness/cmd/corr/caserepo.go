package main

import (
	"6502profiler/commands"
	"6502profiler/emuconfig"
	"6502profiler/verifier"
	"encoding/json"
	"fmt"
	"os"
	"path/filepath"
	"sort"
	"strings"
	"verifharness/internal/rng"
)

// defaultDriverSrc: what a freshly created driver contains (set per history: the direct repository uses a fixed
// text, the command path the default source of the configured assembler)
var defaultDriverSrc = "; default driver\n"

func dirListing(dir string) string {
	entries, _ := os.ReadDir(dir)
	parts := []string{}
	for _, e := range entries {
		n := e.Name()
		if e.IsDir() {
			// a sub directory and (one level of) its files
			parts = append(parts, n+"=D")
			sub, _ := os.ReadDir(filepath.Join(dir, n))
			for _, se := range sub {
				parts = append(parts, n+"/"+se.Name()+"=O0")
			}
			continue
		}
		data, _ := os.ReadFile(filepath.Join(dir, n))
		kind := "O9"
		switch {
		case string(data) == "text":
			kind = "O0"
		case strings.Contains(string(data), "function arrange"):
			kind = "O1"
		case string(data) == defaultDriverSrc:
			kind = "O2"
		}
		if strings.HasSuffix(n, ".json") {
			tc := &verifier.TestCase{}
			if err := json.Unmarshal(data, tc); err != nil {
				kind = "B"
			} else {
				kind = fmt.Sprintf("C:%s:%s", tc.TestDriverSource, tc.TestScript)
			}
		}
		parts = append(parts, n+"="+kind)
	}
	sort.Strings(parts)
	if len(parts) == 0 {
		return "-"
	}
	return strings.Join(parts, ",")
}

func caseRepoHistory(r *rng.R, n int) string {
	dir, err := os.MkdirTemp("", "verif-repo")
	if err != nil {
		panic(err)
	}
	defer os.RemoveAll(dir)
	defaultDriverSrc = "; default driver\n"
	repo, _ := verifier.NewCaseRepo(dir, defaultDriverSrc)
	// 40%: through the real newcase / delcase commands with a configuration file that names the directory
	viaCmd := r.Chance(40)
	cfgFile := ""
	if viaCmd {
		cfgDir, err := os.MkdirTemp("", "verif-repocfg")
		if err != nil {
			panic(err)
		}
		defer os.RemoveAll(cfgDir)
		cfg := emuconfig.DefaultConfig()
		cfg.AcmeTestDir = dir
		cfg.AsmType = []string{"acme", "64tass", "ca65"}[r.Intn(3)]
		cfgFile = filepath.Join(cfgDir, "config.json")
		if err := cfg.Save(cfgFile); err != nil {
			panic(err)
		}
		defaultDriverSrc = cfg.GetAssembler().GetDefaultSrc()
		count("caserepo.viacommands")
	}
	names := []string{"a", "b", "c", "x"}
	if r.Chance(35) {
		// dotted and otherwise unusual case names
		names = []string{"a", "a.v2", "b", "a.b", "x"}
	}
	drivers := []string{"a.a", "b.a", "shared.a", "x.lua", "a.lua", "c.json", "lib.a"}
	var ops, outs []string
	// optionally plant files
	if r.Chance(20) {
		os.WriteFile(filepath.Join(dir, "junk.json"), []byte("{not json"), 0600)
		ops = append(ops, "plantbad:junk.json")
		outs = append(outs, "ok|"+dirListing(dir))
	}
	for r.Chance(45) {
		f := []string{"notes.txt", "shared.a", "lib.a", "x.lua", "a.a", "b.a", "b.lua", "a.v2.a", "x.a"}[r.Intn(9)]
		os.WriteFile(filepath.Join(dir, f), []byte("text"), 0600)
		ops = append(ops, "plant:"+f)
		outs = append(outs, "ok|"+dirListing(dir))
	}
	if r.Chance(12) {
		// a sub directory with shared drivers: a case may name a file inside it — or, by mistake, the directory itself
		os.Mkdir(filepath.Join(dir, "common"), 0700)
		os.WriteFile(filepath.Join(dir, "common", "drv.a"), []byte("text"), 0600)
		os.WriteFile(filepath.Join(dir, "common", "lib.a"), []byte("text"), 0600)
		ops = append(ops, "plantdir:common")
		outs = append(outs, "ok|"+dirListing(dir))
		drivers = []string{"common", "common/drv.a", "common/drv.a", "common/lib.a", "a.a", "shared.a"}
		count("caserepo.subdir")
	}
	if r.Chance(8) {
		// a hand-written case file whose driver exists and whose script was never created (or was deleted by hand)
		os.WriteFile(filepath.Join(dir, "p.json"), []byte(`{"Name":"d","TestDriverSource":"p.a","TestScript":"ghost.lua"}`), 0600)
		os.WriteFile(filepath.Join(dir, "p.a"), []byte("text"), 0600)
		ops = append(ops, "plantcase:p.json:p.a:ghost.lua")
		outs = append(outs, "ok|"+dirListing(dir))
		names = append(names, "p", "p")
		count("caserepo.ghostscript")
	} else if len(ops) == 0 && r.Chance(10) {
		// a case file that is a symbolic link to a file kept elsewhere: a case file like any other; it shares its driver
		ext, err := os.MkdirTemp("", "verif-repoext")
		if err != nil {
			panic(err)
		}
		defer os.RemoveAll(ext)
		data, _ := json.Marshal(verifier.NewTestCaseWithDriver("d", "linked", "shared.a"))
		os.WriteFile(filepath.Join(ext, "linked.json"), data, 0600)
		os.Symlink(filepath.Join(ext, "linked.json"), filepath.Join(dir, "linked.json"))
		os.WriteFile(filepath.Join(dir, "shared.a"), []byte("text"), 0600)
		ops = append(ops, "plantlink:linked.json")
		outs = append(outs, "ok|"+dirListing(dir))
		drivers = []string{"shared.a", "shared.a", "a.a", "lib.a"}
		count("caserepo.symlink")
	}
	if len(ops) == 0 && !viaCmd && r.Chance(6) {
		// a case that shares its DRIVER with one case and its SCRIPT with another: deleting it may remove neither
		step := func(op string, err error) {
			res := "ok"
			if err != nil {
				res = "err"
			}
			ops = append(ops, op)
			outs = append(outs, res+"|"+dirListing(dir))
		}
		step("add:a", repo.Add("a", verifier.NewTestCase("d", "a"), true))
		step("addt:b:a.a", repo.Add("b", verifier.NewTestCaseWithDriver("d", "b", "a.a"), false))
		os.WriteFile(filepath.Join(dir, "q.json"), []byte(`{"Name":"d","TestDriverSource":"q.a","TestScript":"a.lua"}`), 0600)
		os.WriteFile(filepath.Join(dir, "q.a"), []byte("text"), 0600)
		step("plantcase:q.json:q.a:a.lua", nil)
		step("del:a", repo.Del("a"))
		names = append(names, "q")
		count("caserepo.sharedboth")
	}
	for i := 0; i < n; i++ {
		res := "ok"
		switch k := r.Intn(10); {
		case k < 4:
			nm := names[r.Intn(len(names))]
			if r.Chance(6) {
				// a case name inside a sub directory that does not exist: newcase fails, and leaves everything alone
				nm = "nodir/" + nm
			}
			if r.Chance(60) {
				if viaCmd {
					err = commands.NewCaseCommand([]string{"-c", cfgFile, "-p", nm, "-d", "d"})
				} else {
					err = repo.Add(nm, verifier.NewTestCase("d", nm), true)
				}
				ops = append(ops, "add:"+nm)
			} else {
				dr := drivers[r.Intn(len(drivers))]
				if viaCmd {
					err = commands.NewCaseCommand([]string{"-c", cfgFile, "-p", nm, "-d", "d", "-t", dr})
				} else {
					err = repo.Add(nm, verifier.NewTestCaseWithDriver("d", nm, dr), false)
				}
				ops = append(ops, "addt:"+nm+":"+dr)
			}
			if err != nil {
				res = "err"
			}
		case k < 8:
			nm := names[r.Intn(len(names))]
			if r.Chance(30) {
				nm += ".json"
			}
			if viaCmd {
				err = commands.DelCommand([]string{"-c", cfgFile, "-t", nm})
			} else {
				err = repo.Del(nm)
			}
			if err != nil {
				res = "err"
			}
			ops = append(ops, "del:"+nm)
		default:
			got := []string{}
			var cnt uint
			var err error
			if viaCmd && r.Bool() {
				// the real `list` command: one line `<description> => <case file>` per case (all descriptions are equal here)
				var text []byte
				var panicked bool
				text, panicked = captureStdout(func() { err = commands.ListCommand([]string{"-c", cfgFile}) })
				if panicked {
					err = fmt.Errorf("panic")
				}
				for _, l := range strings.Split(string(text), "\n") {
					if i := strings.LastIndex(l, " => "); i >= 0 {
						got = append(got, strings.TrimSpace(l[i+4:]))
					}
				}
				cnt = uint(len(got))
				count("caserepo.listcommand")
			} else {
				cnt, err = repo.IterateTestCases(func(name string, tc *verifier.TestCase) error {
					got = append(got, name)
					return nil
				})
			}
			sort.Strings(got)
			if err != nil {
				res = "err"
			} else {
				res = fmt.Sprintf("ok:%d:%s", cnt, strings.Join(got, ";"))
			}
			ops = append(ops, "list")
		}
		outs = append(outs, res+"|"+dirListing(dir))
	}
	count("caserepo")
	return fmt.Sprintf("repo %s => %s", strings.Join(ops, " "), strings.Join(outs, " "))
}

func caseRepoStream(seed uint64, n int) {
	r := rng.New(seed + 1818)
	for i := 0; i < n; i++ {
		emit(caseRepoHistory(r, 4+r.Intn(12)))
	}
}
