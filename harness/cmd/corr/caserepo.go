package main

import (
	"6502profiler/commands"
	"6502profiler/emuconfig"
	"6502profiler/verifier"
	"encoding/json"
	"fmt"
	"os"
	"path/filepath"
	"sort"
	"strconv"
	"strings"
	"verifharness/internal/rng"
)

// defaultDriverSrc: what a freshly created driver contains (set per history: the direct repository uses a fixed
// text, the command path the default source of the configured assembler)
var defaultDriverSrc = "; default driver\n"

// bulkFiles: the files of the current history that were planted by the hundred (plantmany, plantcases), with the size and
// the kind they were planted with.  Reading a few thousand files after every operation is what makes a history with a
// big directory expensive: such a file is looked at (lstat) and read only if it is no longer a regular file of that size.
type bulkFile struct {
	size int64
	kind string
}

var bulkFiles map[string]bulkFile

func dirListing(dir string) string {
	entries, _ := os.ReadDir(dir)
	parts := []string{}
	for _, e := range entries {
		n := e.Name()
		if b, ok := bulkFiles[n]; ok {
			if info, err := e.Info(); err == nil && info.Mode().IsRegular() && info.Size() == b.size {
				parts = append(parts, n+"="+b.kind)
				continue
			}
		}
		if e.IsDir() {
			// a sub directory and (one level of) its files
			parts = append(parts, n+"=D")
			sub, _ := os.ReadDir(filepath.Join(dir, n))
			for _, se := range sub {
				parts = append(parts, n+"/"+se.Name()+"=O0")
			}
			continue
		}
		data, _ := os.ReadFile(filepath.Join(dir, n))
		kind := "O9"
		switch {
		case string(data) == "text":
			kind = "O0"
		case strings.Contains(string(data), "function arrange"):
			kind = "O1"
		case string(data) == defaultDriverSrc:
			kind = "O2"
		}
		if strings.HasSuffix(n, ".json") {
			tc := &verifier.TestCase{}
			if err := json.Unmarshal(data, tc); err != nil {
				kind = "B"
			} else {
				kind = fmt.Sprintf("C:%s:%s", tc.TestDriverSource, tc.TestScript)
			}
		}
		parts = append(parts, n+"="+kind)
	}
	sort.Strings(parts)
	if len(parts) == 0 {
		return "-"
	}
	return strings.Join(parts, ",")
}

// repoHist: one history of repository operations on a real temporary directory; after every operation the result
// and the complete directory content are recorded
type repoHist struct {
	dir, cfgFile string
	viaCmd       bool
	repo         verifier.CaseRepo
	ops, outs    []string
	tmp          []string
}

// newRepoHist: viaCmd = through the real newcase / delcase / list commands with a configuration file that names the directory
func newRepoHist(viaCmd bool, asmType string) *repoHist {
	h := &repoHist{viaCmd: viaCmd}
	bulkFiles = map[string]bulkFile{}
	h.dir = h.mkTemp("verif-repo")
	defaultDriverSrc = "; default driver\n"
	h.repo, _ = verifier.NewCaseRepo(h.dir, defaultDriverSrc)
	if viaCmd {
		cfgDir := h.mkTemp("verif-repocfg")
		cfg := emuconfig.DefaultConfig()
		cfg.AcmeTestDir = h.dir
		cfg.AsmType = asmType
		h.cfgFile = filepath.Join(cfgDir, "config.json")
		if err := cfg.Save(h.cfgFile); err != nil {
			panic(err)
		}
		defaultDriverSrc = cfg.GetAssembler().GetDefaultSrc()
		count("caserepo.viacommands")
	}
	return h
}

func (h *repoHist) mkTemp(pattern string) string {
	d, err := os.MkdirTemp("", pattern)
	if err != nil {
		panic(err)
	}
	h.tmp = append(h.tmp, d)
	return d
}

func (h *repoHist) close() {
	for _, d := range h.tmp {
		os.RemoveAll(d)
	}
}

func (h *repoHist) record(op, res string) {
	h.ops = append(h.ops, op)
	h.outs = append(h.outs, res+"|"+dirListing(h.dir))
}

func (h *repoHist) recordErr(op string, err error) {
	if err != nil {
		h.record(op, "err")
	} else {
		h.record(op, "ok")
	}
}

func (h *repoHist) write(name, content string) {
	if err := os.WriteFile(filepath.Join(h.dir, name), []byte(content), 0600); err != nil {
		panic(err)
	}
}

// writeMany: the same content under many names.  Creating a file costs several times what a hard link costs, so all
// names but the first are links to the first file (for the code under test they are regular files like any other).
func (h *repoHist) writeMany(names []string, content, kind string) {
	for i, n := range names {
		if i == 0 {
			h.write(n, content)
		} else if err := os.Link(filepath.Join(h.dir, names[0]), filepath.Join(h.dir, n)); err != nil {
			h.write(n, content)
		}
		bulkFiles[n] = bulkFile{int64(len(content)), kind}
	}
}

func (h *repoHist) add(nm string) {
	var err error
	if h.viaCmd {
		err = commands.NewCaseCommand([]string{"-c", h.cfgFile, "-p", nm, "-d", "d"})
	} else {
		err = h.repo.Add(nm, verifier.NewTestCase("d", nm), true)
	}
	h.recordErr("add:"+nm, err)
}

func (h *repoHist) addt(nm, dr string) {
	var err error
	if h.viaCmd {
		err = commands.NewCaseCommand([]string{"-c", h.cfgFile, "-p", nm, "-d", "d", "-t", dr})
	} else {
		err = h.repo.Add(nm, verifier.NewTestCaseWithDriver("d", nm, dr), false)
	}
	h.recordErr("addt:"+nm+":"+dr, err)
}

func (h *repoHist) del(nm string) {
	var err error
	if h.viaCmd {
		err = commands.DelCommand([]string{"-c", h.cfgFile, "-t", nm})
	} else {
		err = h.repo.Del(nm)
	}
	h.recordErr("del:"+nm, err)
}

// list: the enumeration behind list, verifyall and delcase; useCmd (command histories only): the real `list` command,
// which prints one line `<description> => <case file>` per case (all descriptions are equal here)
func (h *repoHist) list(useCmd bool) {
	got := []string{}
	var cnt uint
	var err error
	if h.viaCmd && useCmd {
		var text []byte
		var panicked bool
		text, panicked = captureStdout(func() { err = commands.ListCommand([]string{"-c", h.cfgFile}) })
		if panicked {
			err = fmt.Errorf("panic")
		}
		for _, l := range strings.Split(string(text), "\n") {
			if i := strings.LastIndex(l, " => "); i >= 0 {
				got = append(got, strings.TrimSpace(l[i+4:]))
			}
		}
		cnt = uint(len(got))
		count("caserepo.listcommand")
	} else {
		cnt, err = h.repo.IterateTestCases(func(name string, tc *verifier.TestCase) error {
			got = append(got, name)
			return nil
		})
	}
	sort.Strings(got)
	res := "err"
	if err == nil {
		res = fmt.Sprintf("ok:%d:%s", cnt, strings.Join(got, ";"))
	}
	h.record("list", res)
}

func (h *repoHist) plant(f string) {
	h.write(f, "text")
	h.record("plant:"+f, "ok")
}

// plantCase: a hand-written case file and its driver (the script is not created)
func (h *repoHist) plantCase(n, dr, sc string) {
	h.write(n, fmt.Sprintf(`{"Name":"d","TestDriverSource":"%s","TestScript":"%s"}`, dr, sc))
	h.write(dr, "text")
	h.record("plantcase:"+n+":"+dr+":"+sc, "ok")
}

// plantMany: cnt files <prefix>0000.txt ... that are no case files (a test directory with many entries)
func (h *repoHist) plantMany(prefix string, cnt int) {
	names := []string{}
	for i := 0; i < cnt; i++ {
		names = append(names, fmt.Sprintf("%s%04d.txt", prefix, i))
	}
	h.writeMany(names, "text", "O0")
	h.record(fmt.Sprintf("plantmany:%s:%d", prefix, cnt), "ok")
	count("caserepo.bigdir")
}

// plantCases: cnt hand-written case files <prefix>0000.json ... that all name the same driver and script (the two
// files themselves are planted separately)
func (h *repoHist) plantCases(prefix string, cnt int, dr, sc string) {
	names := []string{}
	for i := 0; i < cnt; i++ {
		names = append(names, fmt.Sprintf("%s%04d.json", prefix, i))
	}
	h.writeMany(names, fmt.Sprintf(`{"Name":"d","TestDriverSource":"%s","TestScript":"%s"}`, dr, sc), fmt.Sprintf("C:%s:%s", dr, sc))
	h.record(fmt.Sprintf("plantcases:%s:%d:%s:%s", prefix, cnt, dr, sc), "ok")
	count("caserepo.manycases")
}

func (h *repoHist) line() string {
	count("caserepo")
	return fmt.Sprintf("repo %s => %s", strings.Join(h.ops, " "), strings.Join(h.outs, " "))
}

// run: execute a scripted history (the operations in the notation of the request)
func (h *repoHist) run(script string) {
	for _, op := range strings.Fields(script) {
		f := strings.Split(op, ":")
		num := func(i int) int {
			v, err := strconv.Atoi(f[i])
			if err != nil {
				panic("caserepo script: " + op)
			}
			return v
		}
		switch {
		case f[0] == "add" && len(f) == 2:
			h.add(f[1])
		case f[0] == "addt" && len(f) == 3:
			h.addt(f[1], f[2])
		case f[0] == "del" && len(f) == 2:
			h.del(f[1])
		case f[0] == "list" && len(f) == 1:
			h.list(false)
		case f[0] == "listcmd" && len(f) == 1:
			h.list(true)
		case f[0] == "plant" && len(f) == 2:
			h.plant(f[1])
		case f[0] == "plantcase" && len(f) == 4:
			h.plantCase(f[1], f[2], f[3])
		case f[0] == "plantmany" && len(f) == 3:
			h.plantMany(f[1], num(2))
		case f[0] == "plantcases" && len(f) == 5:
			h.plantCases(f[1], num(2), f[3], f[4])
		default:
			panic("caserepo script: " + op)
		}
	}
}

// caseRepoFixed: boundary histories that are part of every run
func caseRepoFixed() {
	script := func(viaCmd bool, asm string, s string) {
		h := newRepoHist(viaCmd, asm)
		defer h.close()
		h.run(s)
		count("caserepo.fixed")
		emit(h.line())
	}
	// case names ending in one of the letters of the extension (j, s, o, n) or in a dot, next to the case with the
	// shortened name: delcase - named with or without .json - removes the named case and nothing else
	for i, p := range [][2]string{{"test", "tests"}, {"div", "divs"}, {"versi", "version"}, {"add", "addn"}, {"ob", "obj"}, {"dem", "demo"}, {"rel", "rel."}, {"x", "xjson"}} {
		short, long := p[0], p[1]
		viaCmd := i%2 == 1
		asm := []string{"acme", "64tass", "ca65"}[i%3]
		script(viaCmd, asm, fmt.Sprintf("add:%s add:%s list del:%s list del:%s.json listcmd add:%s del:%s.json del:%s list", short, long, long, short, short, long, short))
		script(!viaCmd, asm, fmt.Sprintf("add:%s addt:%s:%s.a del:%s.json list del:%s list", long, short, long, long, long))
		script(viaCmd, asm, fmt.Sprintf("add:%s del:%s add:%s addt:%s:%s.a del:%s listcmd del:%s list", long, long, short, long, short, long, short))
	}
	// test directories with more than 1000 entries: list enumerates every case file; delcase counts the references of every case
	// 1001 case files (and nothing else but their driver and script)
	script(false, "acme", "plant:shared.a plant:shared.lua plantcases:g:1001:shared.a:shared.lua list del:g0500 list")
	// case files among other files, through the commands
	script(true, "acme", "plant:shared.a plant:shared.lua plantcases:g:700:shared.a:shared.lua plantmany:f:320 listcmd del:g0000.json list")
	// exactly 1000 and 1001 entries
	script(false, "acme", "add:a addt:b:a.a plantmany:f:995 list plant:one.txt list del:a del:b list")
	// cases that share a driver, created before and after a great many other files
	script(false, "acme", "add:a addt:b:a.a add:c addt:x:c.a plantmany:f:2000 list del:a del:c.json list")
	script(true, "64tass", "plantmany:f:2000 add:tests addt:test:tests.a add:c addt:x:c.a del:x del:tests listcmd")
}

// bigDirsLeft: how many more of the random histories may plant a directory with more than 1000 entries (they are expensive:
// the complete directory content is recorded after every operation)
var bigDirsLeft int

func caseRepoHistory(r *rng.R, n int) string {
	// 40%: through the real newcase / delcase commands with a configuration file that names the directory
	viaCmd := r.Chance(40)
	asmType := ""
	if viaCmd {
		asmType = []string{"acme", "64tass", "ca65"}[r.Intn(3)]
	}
	h := newRepoHist(viaCmd, asmType)
	defer h.close()
	dir := h.dir
	names := []string{"a", "b", "c", "x"}
	drivers := []string{"a.a", "b.a", "shared.a", "x.lua", "a.lua", "c.json", "lib.a"}
	plantable := []string{"notes.txt", "shared.a", "lib.a", "x.lua", "a.a", "b.a", "b.lua", "a.v2.a", "x.a"}
	if r.Chance(35) {
		// dotted and otherwise unusual case names
		names = []string{"a", "a.v2", "b", "a.b", "x"}
	} else if r.Chance(25) {
		// a case name that ends in one of the letters of the extension .json (or in a dot) next to the case with the shortened
		// name: the name given to delcase is the case name or the name of the case file, never anything shorter
		p := [][2]string{{"test", "tests"}, {"div", "divs"}, {"versi", "version"}, {"add", "addn"}, {"ob", "obj"}, {"rel", "rel."},
			{"x", "xjson"}, {"a", "a.s"}, {"b", "b.json.o"}, {"c", "cs.n"}}[r.Intn(10)]
		names = []string{p[0], p[1], p[0], p[1], "x"}
		drivers = []string{p[0] + ".a", p[1] + ".a", "shared.a", p[0] + ".lua", p[1] + ".lua", p[0] + ".json", "lib.a"}
		plantable = []string{"notes.txt", "shared.a", "lib.a", p[0] + ".a", p[1] + ".a", p[1] + ".lua", p[0] + ".lua", "x.a", p[0]}
		count("caserepo.suffixnames")
	}
	// optionally plant files
	if r.Chance(20) {
		os.WriteFile(filepath.Join(dir, "junk.json"), []byte("{not json"), 0600)
		h.record("plantbad:junk.json", "ok")
	}
	for r.Chance(45) {
		h.plant(plantable[r.Intn(len(plantable))])
	}
	if r.Chance(12) {
		// a sub directory with shared drivers: a case may name a file inside it — or, by mistake, the directory itself
		os.Mkdir(filepath.Join(dir, "common"), 0700)
		os.WriteFile(filepath.Join(dir, "common", "drv.a"), []byte("text"), 0600)
		os.WriteFile(filepath.Join(dir, "common", "lib.a"), []byte("text"), 0600)
		h.record("plantdir:common", "ok")
		drivers = []string{"common", "common/drv.a", "common/drv.a", "common/lib.a", names[0] + ".a", "shared.a"}
		count("caserepo.subdir")
	}
	if r.Chance(8) {
		// a hand-written case file whose driver exists and whose script was never created (or was deleted by hand)
		h.plantCase("p.json", "p.a", "ghost.lua")
		names = append(names, "p", "p")
		count("caserepo.ghostscript")
	} else if len(h.ops) == 0 && r.Chance(10) {
		// a case file that is a symbolic link to a file kept elsewhere: a case file like any other; it shares its driver
		ext := h.mkTemp("verif-repoext")
		data, _ := json.Marshal(verifier.NewTestCaseWithDriver("d", "linked", "shared.a"))
		os.WriteFile(filepath.Join(ext, "linked.json"), data, 0600)
		os.Symlink(filepath.Join(ext, "linked.json"), filepath.Join(dir, "linked.json"))
		os.WriteFile(filepath.Join(dir, "shared.a"), []byte("text"), 0600)
		h.record("plantlink:linked.json", "ok")
		drivers = []string{"shared.a", "shared.a", names[0] + ".a", "lib.a"}
		count("caserepo.symlink")
	}
	if len(h.ops) == 0 && !viaCmd && r.Chance(6) {
		// a case that shares its DRIVER with one case and its SCRIPT with another: deleting it may remove neither
		a, b := names[0], names[1]
		h.add(a)
		h.addt(b, a+".a")
		h.plantCase("q.json", "q.a", a+".lua")
		h.del(a)
		names = append(names, "q")
		count("caserepo.sharedboth")
	}
	// rarely: a great many other files appear in the directory at some point of the history (1000 entries and more)
	bigAt := -1
	if bigDirsLeft > 0 && r.Chance(1) {
		bigDirsLeft--
		bigAt = r.Intn(n)
	}
	for i := 0; i < n; i++ {
		if i == bigAt {
			h.plantMany("f", []int{990, 1000, 1001, 1100, 1500, 2200}[r.Intn(6)]+r.Intn(8))
		}
		switch k := r.Intn(10); {
		case k < 4:
			nm := names[r.Intn(len(names))]
			if r.Chance(6) {
				// a case name inside a sub directory that does not exist: newcase fails, and leaves everything alone
				nm = "nodir/" + nm
			}
			if r.Chance(60) {
				h.add(nm)
			} else {
				h.addt(nm, drivers[r.Intn(len(drivers))])
			}
		case k < 8:
			nm := names[r.Intn(len(names))]
			if r.Chance(30) {
				nm += ".json"
			}
			h.del(nm)
		default:
			h.list(viaCmd && r.Bool())
		}
	}
	return h.line()
}

func caseRepoStream(seed uint64, n int) {
	caseRepoFixed()
	r := rng.New(seed + 1818)
	bigDirsLeft = 4 + n/1000
	for i := 0; i < n; i++ {
		emit(caseRepoHistory(r, 4+r.Intn(12)))
	}
}
