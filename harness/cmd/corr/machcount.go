package main

import (
	"6502profiler/emuconfig"
	"6502profiler/memory"
	"fmt"
	"sort"
	"strings"
	"verifharness/internal/rng"
)

// ---------------------------------------------------------------------------------------
// C03 on the real machines: a generated straight-line program runs on every MemSpec machine built by emuconfig; the
// access statistics of all 64K addresses afterwards are compared with the fetches, reads and writes of the
// specification's own run of the same program (theorem C03_run_machine is about exactly this pairing).
// The programs stay inside plain RAM of the machine (no banking register, window or I/O address), so the 16-bit
// address of an access names its physical byte.

func machLimit(spec string) int {
	switch spec {
	case "Linear16K":
		return 0x4000
	case "Linear32K":
		return 0x8000
	case "Linear48K":
		return 0xC000
	case "Linear64K":
		return 0x10000
	}
	return 0x9F00 // plain RAM below every window and I/O area of the banked machines
}

func machCountCase(r *rng.R, spec string) string {
	model := r.Intn(2)
	limit := machLimit(spec)
	addr := func() uint16 {
		switch r.Intn(6) {
		case 0:
			return uint16(limit - 1 - r.Intn(4)) // the last bytes of the memory
		case 1:
			return uint16(limit/2 + r.Intn(8)) // around the middle (a power-of-two boundary on every model)
		case 2:
			return uint16(0x4000*(1+r.Intn(limit/0x4000)) - 1 - r.Intn(3)) // just below a 16K boundary
		}
		return uint16(0x0500 + r.Intn(limit-0x0500))
	}
	zp := func() uint8 { return uint8(0x20 + r.Intn(0xC0)) }
	p := []uint8{}
	n := 2 + r.Intn(8)
	for i := 0; i < n; i++ {
		a := addr()
		v := r.BByte()
		switch r.Intn(10) {
		case 0:
			p = append(p, 0xAD, lo(a), hi(a)) // LDA abs
		case 1:
			p = append(p, 0xA9, v, 0x8D, lo(a), hi(a)) // LDA #; STA abs
		case 2:
			p = append(p, 0xEE, lo(a), hi(a)) // INC abs
		case 3:
			p = append(p, 0xA2, 0x00, 0xBD, lo(a), hi(a)) // LDX #0; LDA abs,X
		case 4:
			p = append(p, 0xA0, 0x00, 0x99, lo(a), hi(a)) // LDY #0; STA abs,Y
		case 5:
			z := zp()
			p = append(p, 0xA9, lo(a), 0x85, z, 0xA9, hi(a), 0x85, z+1, 0xA0, 0x00, 0xB1, z) // pointer; LDA (zp),Y
		case 6:
			z := zp()
			p = append(p, 0xA9, lo(a), 0x85, z, 0xA9, hi(a), 0x85, z+1, 0xA0, 0x00, 0x91, z) // pointer; STA (zp),Y
		case 7:
			p = append(p, 0x48, 0x08, 0x68, 0x28) // PHA PHP PLA PLP
		case 8:
			p = append(p, 0x0E, lo(a), hi(a)) // ASL abs
		case 9:
			p = append(p, 0xA5, zp(), 0xE6, zp()) // LDA zp; INC zp
		}
	}
	p = append(p, 0x00)
	pend("machcount %s %d %s", spec, model, hexOf(p))
	cfg := emuconfig.DefaultConfig()
	cfg.MemSpec = spec
	if model == 1 {
		cfg.Model = "65C02"
	}
	c, err := cfg.NewCpu()
	if err != nil {
		panic(err)
	}
	res := "halt"
	stats := []string{}
	if protect(func() {
		for i, b := range p {
			c.Mem.Store(0x0400+uint16(i), b)
		}
		c.Mem.ClearStatistics() // the stores that placed the program are not accesses of the program
		if e := c.RunExt(0x0400, true); e != nil {
			res = "error"
		}
		m := map[int]uint64{}
		for a := 0; a < limit; a++ {
			if v := c.Mem.GetStatistics(uint16(a)); v != 0 {
				m[a] = v
			}
		}
		keys := []int{}
		for a := range m {
			keys = append(keys, a)
		}
		sort.Ints(keys)
		for _, a := range keys {
			stats = append(stats, fmt.Sprintf("%x:%d", a, m[a]))
		}
	}) {
		res = "hostcrash"
	}
	count("machcount." + spec)
	return fmt.Sprintf("machcount %s %d %s => %s | %s", spec, model, hexOf(p), res, strings.Join(stats, " "))
}

func machCountStream(seed uint64, n int) {
	r := rng.New(seed + 303)
	rw := rng.New(seed + 30303) // the wrapped machines draw from their own generator: the cases above stay what they were
	for _, spec := range memSpecs {
		for i := 0; i < 4+n/8; i++ {
			emit(machWrapCase(rw, spec, i))
		}
		for i := 0; i < n; i++ {
			emit(machCountCase(r, spec))
		}
		for i := 0; i < n; i++ {
			if l := winCountCase(r, spec); l != "" {
				emit(l)
			}
		}
	}
}

// ---------------------------------------------------------------------------------------
// C03 under a wrapper layer (memory.WrappingMemory between the CPU and the memory model): the machine is built with the
// F256 coprocessor enabled (Config.F256MCoprocFlags 1/4/5, base inside the plain RAM of the machine) or carries the
// trap placeholder (memory.NewPlaceholderWrapper, as caseexec installs it) with NO trap function set.  The program
// stores to operand registers, result registers, their neighbours and the same offsets in the adjacent page, resp. to
// the trap address and its neighbours, with every store form, reads them and read-modify-writes them.  Each store is
// one logical write: the byte's count grows by exactly one (plus, for an operand register of an enabled unit, the
// unit's own documented bookkeeping: one load of each of its four operand bytes and one store to each result byte it
// refreshes, DESIGN.md C03 scope).  Request: `machcount SPEC MODEL CODE c<flags>:<base>` or `... t:<trapaddr>`.

func machWrapCase(r *rng.R, spec string, idx int) string {
	model := r.Intn(2)
	limit := machLimit(spec)
	pages := limit / 256
	// a page of plain RAM that is neither zero page, stack nor the program's page
	page := 0x06 + r.Intn(pages-0x06)
	switch r.Intn(4) {
	case 0:
		page = pages - 1 // the last page of plain RAM
	case 1:
		if limit == 0x10000 {
			page = 0xDE // the documented default
		}
	}
	off := []int{0x00, 0x00, 0x40, 0xE0, 0xE8, 0x08}[r.Intn(6)]
	trap := idx%2 == 1
	flags := []int{1, 4, 5, 5}[r.Intn(4)]
	if idx == 0 {
		flags, off = 5, 0
	}
	if idx == 1 {
		off = 0xDD
	}
	if idx >= 4 && trap {
		off = r.Intn(256)
	}
	base := uint16(page<<8 | off)
	adj := uint16(page+1) << 8 // the adjacent page (still plain RAM)
	if page > 0x06 {
		adj = uint16(page-1) << 8
	}
	// the addresses the program aims at
	target := func() uint16 {
		if trap {
			switch r.Intn(8) {
			case 0:
				return base&0xFF00 | uint16(uint8(off+1)) // neighbour in the page (passes through the layer)
			case 1:
				return base&0xFF00 | uint16(uint8(off-1))
			case 2:
				return adj | uint16(off) // same offset, adjacent page
			}
			return base
		}
		switch r.Intn(10) {
		case 0:
			return base + 0x10 + uint16(r.Intn(8)) // result registers
		case 1:
			return base + 8 + uint16(r.Intn(8)) // between operands and results
		case 2:
			return (adj | uint16(off)) + uint16(r.Intn(8)) // same offsets, adjacent page
		}
		return base + uint16(r.Intn(8))
	}
	zp := func() uint8 { return uint8(0x20 + 2*r.Intn(0x60)) }
	p := []uint8{}
	n := 1 + r.Intn(7)
	if idx < 2 {
		n = 1
	}
	for i := 0; i < n; i++ {
		a := target()
		v := r.BByte()
		c := r.Intn(9)
		if i == 0 {
			// every case has at least one plain store to the special address itself
			c = 0
			if trap {
				a = base
			} else if flags == 4 {
				a = base + 4 + uint16(r.Intn(4))
			} else {
				a = base + uint16(r.Intn(4))
			}
			if idx < 2 {
				a = base
			}
		}
		switch c {
		case 0, 1:
			p = append(p, 0xA9, v, 0x8D, lo(a), hi(a)) // LDA #; STA abs
		case 2:
			p = append(p, 0xA2, v, 0x8E, lo(a), hi(a)) // LDX #; STX abs
		case 3:
			p = append(p, 0xEE, lo(a), hi(a)) // INC abs: one read, one write
		case 4:
			p = append(p, 0x0E, lo(a), hi(a)) // ASL abs
		case 5:
			d := uint8(r.Intn(int(lo(a)) + 1))
			p = append(p, 0xA0, d, 0xA9, v, 0x99, lo(a-uint16(d)), hi(a-uint16(d))) // LDY #d; LDA #; STA abs,Y
		case 6:
			z := zp()
			p = append(p, 0xA9, lo(a), 0x85, z, 0xA9, hi(a), 0x85, z+1, 0xA0, 0x00, 0xA9, v, 0x91, z) // pointer; LDA #; STA (zp),Y
		case 7:
			p = append(p, 0xAD, lo(a), hi(a)) // LDA abs: a read is never handed to a handler
		case 8:
			p = append(p, 0xA2, 0x00, 0xBD, lo(a), hi(a)) // LDX #0; LDA abs,X
		}
	}
	p = append(p, 0x00)
	wrap := fmt.Sprintf("c%d:%04x", flags, base)
	if trap {
		wrap = fmt.Sprintf("t:%04x", base)
	}
	pend("machcount %s %d %s %s", spec, model, hexOf(p), wrap)
	cfg := emuconfig.DefaultConfig()
	cfg.MemSpec = spec
	if model == 1 {
		cfg.Model = "65C02"
	}
	if !trap {
		cfg.F256MCoprocFlags = uint8(flags)
		cfg.F256MCoprocBase = base
	}
	c, err := cfg.NewCpu()
	if err != nil {
		panic(err)
	}
	if trap {
		// what caseexec's wrapperCpuProvider does for -trapaddr; no trap function is installed
		c.Mem = memory.NewPlaceholderWrapper(c.Mem, base).Wrapper
	}
	res := "halt"
	stats := []string{}
	if protect(func() {
		for i, b := range p {
			c.Mem.Store(0x0400+uint16(i), b)
		}
		c.Mem.ClearStatistics()
		if e := c.RunExt(0x0400, true); e != nil {
			res = "error"
		}
		for a := 0; a < limit; a++ {
			if v := c.Mem.GetStatistics(uint16(a)); v != 0 {
				stats = append(stats, fmt.Sprintf("%x:%d", a, v))
			}
		}
	}) {
		res = "hostcrash"
	}
	kind := "coproc"
	if trap {
		kind = "trap"
	}
	count("machcount.wrapped." + kind)
	return fmt.Sprintf("machcount %s %d %s %s => %s | %s", spec, model, hexOf(p), wrap, res, strings.Join(stats, " "))
}

// ---------------------------------------------------------------------------------------
// C03 with bank switching: a straight-line program selects a bank / block / LUT entry / I/O bank, uses the window,
// selects another one and uses the window again (often the same addresses).  The statistics of every PHYSICAL byte
// afterwards (swept through the linear view, LUT counters included) are compared with the accesses of the
// specification's own run resolved through the documented map at the time of each access: an access is counted on
// the byte it reached, not on whatever else shares its 16-bit address.

func winCountCase(r *rng.R, spec string) string {
	model := r.Intn(2)
	p := []uint8{}
	sta := func(v uint8, a uint16) { p = append(p, 0xA9, v, 0x8D, lo(a), hi(a)) }
	var selectBank func()
	var winLo, winLen int
	storesOk := true
	switch {
	case strings.HasPrefix(spec, "XSixteen"):
		banks := 64
		if spec == "XSixteen2048K" {
			banks = 256
		}
		if r.Bool() {
			selectBank = func() { sta(uint8(r.Intn(banks)), 0x0000) }
			winLo, winLen = 0xA000, 0x2000
		} else {
			selectBank = func() { sta(uint8(r.Intn(32)), 0x0001) }
			winLo, winLen = 0xC000, 0x4000
			storesOk = false // ROM: loads only
		}
	case strings.HasPrefix(spec, "GeoRam"):
		blocks := 32
		if spec == "GeoRam_2048K" {
			blocks = 128
		}
		selectBank = func() { sta(uint8(r.Intn(blocks)), 0xDFFF); sta(uint8(r.Intn(64)), 0xDFFE) }
		winLo, winLen = 0xDE00, 0x100
	case strings.HasPrefix(spec, "F256"):
		if r.Bool() {
			// slot 5 ($A000-$BFFF) of the active LUT 0 through the edit window
			nb := 64
			if spec == "F256_768K" {
				nb = 96
			}
			sta(0x80, 0x0000)
			selectBank = func() { sta(uint8(r.Intn(nb)), 0x000D) }
			winLo, winLen = 0xA000, 0x2000
		} else {
			selectBank = func() { sta(uint8(r.Intn(4)), 0x0001) }
			winLo, winLen = 0xC000, 0x2000
		}
	default:
		return ""
	}
	addrs := []uint16{}
	for i := 0; i < 3; i++ {
		addrs = append(addrs, uint16(winLo+r.Intn(winLen)))
	}
	for round := 0; round < 2+r.Intn(2); round++ {
		selectBank()
		for k := 0; k < 1+r.Intn(4); k++ {
			a := addrs[r.Intn(len(addrs))]
			switch c := r.Intn(4); {
			case c == 0 || !storesOk:
				p = append(p, 0xAD, lo(a), hi(a)) // LDA abs
			case c == 1:
				sta(r.BByte(), a)
			case c == 2:
				p = append(p, 0xEE, lo(a), hi(a)) // INC abs
			default:
				p = append(p, 0xA2, 0x00, 0xBD, lo(a), hi(a)) // LDX #0; LDA abs,X
			}
		}
	}
	p = append(p, 0x00)
	pend("wincount %s %d %s", spec, model, hexOf(p))
	cfg := emuconfig.DefaultConfig()
	cfg.MemSpec = spec
	if model == 1 {
		cfg.Model = "65C02"
	}
	c, err := cfg.NewCpu()
	if err != nil {
		panic(err)
	}
	res := "halt"
	var sb strings.Builder
	if protect(func() {
		for i, b := range p {
			c.Mem.Store(0x0400+uint16(i), b)
		}
		c.Mem.ClearStatistics()
		if e := c.RunExt(0x0400, true); e != nil {
			res = "error"
		}
		sweepStats(&sb, spec, c.Mem)
	}) {
		res = "hostcrash"
	}
	count("wincount." + spec)
	return fmt.Sprintf("wincount %s %d %s => %s | S%s", spec, model, hexOf(p), res, sb.String())
}
