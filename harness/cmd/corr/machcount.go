package main

import (
	"6502profiler/emuconfig"
	"fmt"
	"sort"
	"strings"
	"verifharness/internal/rng"
)

// ---------------------------------------------------------------------------------------
// C03 on the real machines: a generated straight-line program runs on every MemSpec machine built by emuconfig; the
// access statistics of all 64K addresses afterwards are compared with the fetches, reads and writes of the
// specification's own run of the same program (theorem C03_run_machine is about exactly this pairing).
// The programs stay inside plain RAM of the machine (no banking register, window or I/O address), so the 16-bit
// address of an access names its physical byte.

func machLimit(spec string) int {
	switch spec {
	case "Linear16K":
		return 0x4000
	case "Linear32K":
		return 0x8000
	case "Linear48K":
		return 0xC000
	case "Linear64K":
		return 0x10000
	}
	return 0x9F00 // plain RAM below every window and I/O area of the banked machines
}

func machCountCase(r *rng.R, spec string) string {
	model := r.Intn(2)
	limit := machLimit(spec)
	addr := func() uint16 {
		switch r.Intn(6) {
		case 0:
			return uint16(limit - 1 - r.Intn(4)) // the last bytes of the memory
		case 1:
			return uint16(limit/2 + r.Intn(8)) // around the middle (a power-of-two boundary on every model)
		case 2:
			return uint16(0x4000*(1+r.Intn(limit/0x4000)) - 1 - r.Intn(3)) // just below a 16K boundary
		}
		return uint16(0x0500 + r.Intn(limit-0x0500))
	}
	zp := func() uint8 { return uint8(0x20 + r.Intn(0xC0)) }
	p := []uint8{}
	n := 2 + r.Intn(8)
	for i := 0; i < n; i++ {
		a := addr()
		v := r.BByte()
		switch r.Intn(10) {
		case 0:
			p = append(p, 0xAD, lo(a), hi(a)) // LDA abs
		case 1:
			p = append(p, 0xA9, v, 0x8D, lo(a), hi(a)) // LDA #; STA abs
		case 2:
			p = append(p, 0xEE, lo(a), hi(a)) // INC abs
		case 3:
			p = append(p, 0xA2, 0x00, 0xBD, lo(a), hi(a)) // LDX #0; LDA abs,X
		case 4:
			p = append(p, 0xA0, 0x00, 0x99, lo(a), hi(a)) // LDY #0; STA abs,Y
		case 5:
			z := zp()
			p = append(p, 0xA9, lo(a), 0x85, z, 0xA9, hi(a), 0x85, z+1, 0xA0, 0x00, 0xB1, z) // pointer; LDA (zp),Y
		case 6:
			z := zp()
			p = append(p, 0xA9, lo(a), 0x85, z, 0xA9, hi(a), 0x85, z+1, 0xA0, 0x00, 0x91, z) // pointer; STA (zp),Y
		case 7:
			p = append(p, 0x48, 0x08, 0x68, 0x28) // PHA PHP PLA PLP
		case 8:
			p = append(p, 0x0E, lo(a), hi(a)) // ASL abs
		case 9:
			p = append(p, 0xA5, zp(), 0xE6, zp()) // LDA zp; INC zp
		}
	}
	p = append(p, 0x00)
	pend("machcount %s %d %s", spec, model, hexOf(p))
	cfg := emuconfig.DefaultConfig()
	cfg.MemSpec = spec
	if model == 1 {
		cfg.Model = "65C02"
	}
	c, err := cfg.NewCpu()
	if err != nil {
		panic(err)
	}
	res := "halt"
	stats := []string{}
	if protect(func() {
		for i, b := range p {
			c.Mem.Store(0x0400+uint16(i), b)
		}
		c.Mem.ClearStatistics() // the stores that placed the program are not accesses of the program
		if e := c.RunExt(0x0400, true); e != nil {
			res = "error"
		}
		m := map[int]uint64{}
		for a := 0; a < limit; a++ {
			if v := c.Mem.GetStatistics(uint16(a)); v != 0 {
				m[a] = v
			}
		}
		keys := []int{}
		for a := range m {
			keys = append(keys, a)
		}
		sort.Ints(keys)
		for _, a := range keys {
			stats = append(stats, fmt.Sprintf("%x:%d", a, m[a]))
		}
	}) {
		res = "hostcrash"
	}
	count("machcount." + spec)
	return fmt.Sprintf("machcount %s %d %s => %s | %s", spec, model, hexOf(p), res, strings.Join(stats, " "))
}

func machCountStream(seed uint64, n int) {
	r := rng.New(seed + 303)
	for _, spec := range memSpecs {
		for i := 0; i < n; i++ {
			emit(machCountCase(r, spec))
		}
		for i := 0; i < n; i++ {
			if l := winCountCase(r, spec); l != "" {
				emit(l)
			}
		}
	}
}

// ---------------------------------------------------------------------------------------
// C03 with bank switching: a straight-line program selects a bank / block / LUT entry / I/O bank, uses the window,
// selects another one and uses the window again (often the same addresses).  The statistics of every PHYSICAL byte
// afterwards (swept through the linear view, LUT counters included) are compared with the accesses of the
// specification's own run resolved through the documented map at the time of each access: an access is counted on
// the byte it reached, not on whatever else shares its 16-bit address.

func winCountCase(r *rng.R, spec string) string {
	model := r.Intn(2)
	p := []uint8{}
	sta := func(v uint8, a uint16) { p = append(p, 0xA9, v, 0x8D, lo(a), hi(a)) }
	var selectBank func()
	var winLo, winLen int
	storesOk := true
	switch {
	case strings.HasPrefix(spec, "XSixteen"):
		banks := 64
		if spec == "XSixteen2048K" {
			banks = 256
		}
		if r.Bool() {
			selectBank = func() { sta(uint8(r.Intn(banks)), 0x0000) }
			winLo, winLen = 0xA000, 0x2000
		} else {
			selectBank = func() { sta(uint8(r.Intn(32)), 0x0001) }
			winLo, winLen = 0xC000, 0x4000
			storesOk = false // ROM: loads only
		}
	case strings.HasPrefix(spec, "GeoRam"):
		blocks := 32
		if spec == "GeoRam_2048K" {
			blocks = 128
		}
		selectBank = func() { sta(uint8(r.Intn(blocks)), 0xDFFF); sta(uint8(r.Intn(64)), 0xDFFE) }
		winLo, winLen = 0xDE00, 0x100
	case strings.HasPrefix(spec, "F256"):
		if r.Bool() {
			// slot 5 ($A000-$BFFF) of the active LUT 0 through the edit window
			nb := 64
			if spec == "F256_768K" {
				nb = 96
			}
			sta(0x80, 0x0000)
			selectBank = func() { sta(uint8(r.Intn(nb)), 0x000D) }
			winLo, winLen = 0xA000, 0x2000
		} else {
			selectBank = func() { sta(uint8(r.Intn(4)), 0x0001) }
			winLo, winLen = 0xC000, 0x2000
		}
	default:
		return ""
	}
	addrs := []uint16{}
	for i := 0; i < 3; i++ {
		addrs = append(addrs, uint16(winLo+r.Intn(winLen)))
	}
	for round := 0; round < 2+r.Intn(2); round++ {
		selectBank()
		for k := 0; k < 1+r.Intn(4); k++ {
			a := addrs[r.Intn(len(addrs))]
			switch c := r.Intn(4); {
			case c == 0 || !storesOk:
				p = append(p, 0xAD, lo(a), hi(a)) // LDA abs
			case c == 1:
				sta(r.BByte(), a)
			case c == 2:
				p = append(p, 0xEE, lo(a), hi(a)) // INC abs
			default:
				p = append(p, 0xA2, 0x00, 0xBD, lo(a), hi(a)) // LDX #0; LDA abs,X
			}
		}
	}
	p = append(p, 0x00)
	pend("wincount %s %d %s", spec, model, hexOf(p))
	cfg := emuconfig.DefaultConfig()
	cfg.MemSpec = spec
	if model == 1 {
		cfg.Model = "65C02"
	}
	c, err := cfg.NewCpu()
	if err != nil {
		panic(err)
	}
	res := "halt"
	var sb strings.Builder
	if protect(func() {
		for i, b := range p {
			c.Mem.Store(0x0400+uint16(i), b)
		}
		c.Mem.ClearStatistics()
		if e := c.RunExt(0x0400, true); e != nil {
			res = "error"
		}
		sweepStats(&sb, spec, c.Mem)
	}) {
		res = "hostcrash"
	}
	count("wincount." + spec)
	return fmt.Sprintf("wincount %s %d %s => %s | S%s", spec, model, hexOf(p), res, sb.String())
}
