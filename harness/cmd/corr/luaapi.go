package main

import (
	"6502profiler/commands"
	"6502profiler/cpu"
	"6502profiler/emuconfig"
	"6502profiler/memory"
	"6502profiler/verifier"
	"fmt"
	"os"
	"path/filepath"
	"strings"
	"verifharness/internal/rng"
)

// ---------------------------------------------------------------------------------------
// C12: the Lua script API

type apiOp struct {
	name string
	a    int
	v    int
	s    string
}

func (o apiOp) lua() string {
	switch o.name {
	case "sa":
		return fmt.Sprintf("set_accu(%d)", o.v)
	case "sx":
		return fmt.Sprintf("set_xreg(%d)", o.v)
	case "sy":
		return fmt.Sprintf("set_yreg(%d)", o.v)
	case "ss":
		return fmt.Sprintf("set_sp(%d)", o.v)
	case "sp":
		return fmt.Sprintf("set_pc(%d)", o.v)
	case "ga":
		return "rec(get_accu())"
	case "gx":
		return "rec(get_xreg())"
	case "gy":
		return "rec(get_yreg())"
	case "gs":
		return "rec(get_sp())"
	case "gp":
		return "rec(get_pc())"
	case "sf":
		return fmt.Sprintf("set_flags('%s')", o.s)
	case "gf":
		return "rec(get_flags())"
	case "wb":
		return fmt.Sprintf("write_byte(%d, %d)", o.a, o.v)
	case "rb":
		return fmt.Sprintf("rec(read_byte(%d))", o.a)
	case "sm":
		return fmt.Sprintf("set_memory(%d, '%s')", o.a, o.s)
	case "gm":
		return fmt.Sprintf("rec('m' .. get_memory(%d, %d))", o.a, o.v)
	case "gc":
		return "rec(get_cycles())"
	case "rl":
		return fmt.Sprintf("rec(read_byte_long(%d))", o.a)
	case "wl":
		return fmt.Sprintf("write_byte_long(%d, %d)", o.a, o.v)
	case "la":
		return "rec(load_address)"
	case "pl":
		return "rec(prog_len)"
	}
	panic(o.name)
}

func (o apiOp) wire() string {
	switch o.name {
	case "sa", "sx", "sy", "ss", "sp":
		return fmt.Sprintf("%s:%x", o.name, o.v)
	case "sf":
		return "sf:" + o.s
	case "wb":
		return fmt.Sprintf("wb:%x:%x", o.a, o.v)
	case "rb":
		return fmt.Sprintf("rb:%x", o.a)
	case "sm":
		return fmt.Sprintf("sm:%x:%s", o.a, o.s)
	case "gm":
		return fmt.Sprintf("gm:%x:%x", o.a, o.v)
	case "rl":
		return fmt.Sprintf("rl:%x", o.a)
	case "wl":
		return fmt.Sprintf("wl:%x:%x", o.a, o.v)
	}
	return o.name
}

// coroutine styles of a generated script (C12: an API call made from inside a Lua coroutine acts on the same machine
// and returns the same values as the call made from the main chunk; gopher-lua hands the API function the
// coroutine's own LState, not the one the context was created with)
const (
	coNone   = 0 // every call from the main thread
	coWrap   = 1 // each section of the script runs inside one coroutine.wrap(function() ... end)()
	coEach   = 2 // every call in a coroutine of its own; arguments and results travel through resume/yield
	coResume = 3 // each section is one coroutine.create that yields after every call and is resumed until dead
	coMixed  = 4 // calls alternate between the main thread and coroutines
)

// luaIn: the call as Lua text inside a coroutine of its own.  The value of a set_* call is the SECOND argument of the
// coroutine (the first is an unrelated number), the result of a get_* call comes back through yield.
func (o apiOp) luaIn(r *rng.R) string {
	fn := map[string]string{"sa": "set_accu", "sx": "set_xreg", "sy": "set_yreg", "ss": "set_sp", "sp": "set_pc",
		"ga": "get_accu", "gx": "get_xreg", "gy": "get_yreg", "gs": "get_sp", "gp": "get_pc", "gf": "get_flags", "gc": "get_cycles"}[o.name]
	switch o.name {
	case "sa", "sx", "sy", "ss", "sp":
		other := (o.v + 1 + r.Intn(200)) & 0xFF
		if r.Bool() {
			return fmt.Sprintf("coroutine.wrap(function(d, v) %s(v) end)(%d, %d)", fn, other, o.v)
		}
		return fmt.Sprintf("do local co = coroutine.create(function(d, v) %s(v) end); local ok, e = coroutine.resume(co, %d, %d); if not ok then error(e) end end", fn, other, o.v)
	case "ga", "gx", "gy", "gs", "gp", "gf", "gc":
		switch r.Intn(3) {
		case 0:
			return fmt.Sprintf("rec(coroutine.wrap(function() coroutine.yield(%s()) end)())", fn)
		case 1:
			return fmt.Sprintf("rec(coroutine.wrap(function() return %s() end)())", fn)
		}
		return fmt.Sprintf("do local co = coroutine.create(function(d) local x = %s(); coroutine.yield(d, x) end); local ok, d, x = coroutine.resume(co, %d); if not ok then error(d) end; rec(x) end", fn, 1+r.Intn(255))
	}
	return "coroutine.wrap(function() " + o.lua() + " end)()"
}

// renderOps writes one section of the script (chunk level, body of arrange, body of assert) in the given style
func renderOps(sb *strings.Builder, r *rng.R, ops []apiOp, indent string, style int) {
	if len(ops) == 0 {
		return
	}
	switch style {
	case coWrap:
		sb.WriteString(indent + "coroutine.wrap(function()\n")
		for _, o := range ops {
			sb.WriteString(indent + "  " + o.lua() + "\n")
		}
		sb.WriteString(indent + "end)()\n")
	case coEach:
		for _, o := range ops {
			sb.WriteString(indent + o.luaIn(r) + "\n")
		}
	case coResume:
		sb.WriteString(indent + "do\n" + indent + "  local co = coroutine.create(function()\n")
		for _, o := range ops {
			sb.WriteString(indent + "    " + o.lua() + "\n" + indent + "    coroutine.yield()\n")
		}
		sb.WriteString(indent + "  end)\n")
		sb.WriteString(indent + "  while coroutine.status(co) ~= 'dead' do local ok, e = coroutine.resume(co); if not ok then error(e) end end\n")
		sb.WriteString(indent + "end\n")
	case coMixed:
		for _, o := range ops {
			if r.Bool() {
				sb.WriteString(indent + o.luaIn(r) + "\n")
			} else {
				sb.WriteString(indent + o.lua() + "\n")
			}
		}
	default:
		for _, o := range ops {
			sb.WriteString(indent + o.lua() + "\n")
		}
	}
}

func apiAddr(r *rng.R, flat bool) int {
	if flat && r.Chance(30) {
		return []int{0xFFFF, 0xFFFE, 0xFFF0, 0x0000, 0x0001, 0x00FF, 0x0100, 0x01FF, 0xFFFD}[r.Intn(9)]
	}
	a := 0x0200 + r.Intn(0x3C00)
	if a >= 0x07F0 && a < 0x0900 {
		a += 0x0200
	}
	return a
}

func flagString(r *rng.R) string {
	letters := "NV-BDIZC"
	b := []byte("--------")
	for i := range b {
		if i != 2 && r.Bool() {
			b[i] = letters[i]
		}
	}
	return string(b)
}

// bankedOps: on a banked machine, switch a bank through the API and access the window through both the 16-bit
// calls and the linear calls: the script must see exactly what a program would see at that moment
func bankedOps(r *rng.R, spec string) []apiOp {
	ops := []apiOp{}
	winLo, winLen := 0, 0
	switch {
	case strings.HasPrefix(spec, "XSixteen"):
		banks := 64
		if spec == "XSixteen2048K" {
			banks = 256
		}
		if r.Bool() {
			ops = append(ops, apiOp{name: "wb", a: 0, v: r.Intn(banks)})
			winLo, winLen = 0xA000, 0x2000
		} else {
			ops = append(ops, apiOp{name: "wb", a: 1, v: r.Intn(32)})
			winLo, winLen = 0xC000, 0x4000
		}
	case strings.HasPrefix(spec, "GeoRam"):
		blocks := 32
		if spec == "GeoRam_2048K" {
			blocks = 128
		}
		ops = append(ops, apiOp{name: "wb", a: 0xDFFF, v: r.Intn(blocks)}, apiOp{name: "wb", a: 0xDFFE, v: r.Intn(64)})
		winLo, winLen = 0xDE00, 0x100
	case strings.HasPrefix(spec, "F256"):
		ops = append(ops, apiOp{name: "wb", a: 1, v: r.Intn(8)})
		winLo, winLen = 0xC000, 0x2000
	default:
		return ops
	}
	for i := 0; i < 1+r.Intn(3); i++ {
		a := winLo + r.Intn(winLen)
		switch r.Intn(4) {
		case 0:
			ops = append(ops, apiOp{name: "wb", a: a, v: int(r.BByte())}, apiOp{name: "rb", a: a})
		case 1:
			ops = append(ops, apiOp{name: "rb", a: a})
		case 2:
			l := 1 + r.Intn(12)
			if a+l > winLo+winLen {
				a = winLo + winLen - l
			}
			data := make([]uint8, l)
			for j := range data {
				data[j] = r.Byte()
			}
			ops = append(ops, apiOp{name: "sm", a: a, s: hexOf(data)}, apiOp{name: "gm", a: a, v: l})
		case 3:
			la := r.Intn(int(linTotals[spec]))
			if r.Bool() {
				// the linear address with the same number as a window address: below 64K the two views differ there
				la = a
			}
			if top := int(linTotals[spec]); top > 0x200000 && r.Chance(40) {
				// the linear view of the 2048K machines is larger than 2 MB: a cell above $200000 is a cell of its own, not
				// an alias of the cell 2 MB below it
				la = 0x200000 + r.Intn(top-0x200000)
				ops = append(ops, apiOp{name: "wl", a: la, v: 1 + r.Intn(255)}, apiOp{name: "rl", a: la}, apiOp{name: "rl", a: la - 0x200000},
					apiOp{name: "rb", a: a})
				continue
			}
			if r.Bool() {
				ops = append(ops, apiOp{name: "wl", a: la, v: int(r.BByte())})
			}
			ops = append(ops, apiOp{name: "rl", a: la}, apiOp{name: "rb", a: a})
		}
	}
	return ops
}

func genApiOps(r *rng.R, n int, flat bool) []apiOp {
	ops := []apiOp{}
	var lastMem *apiOp
	for i := 0; i < n; i++ {
		switch r.Intn(16) {
		case 0:
			ops = append(ops, apiOp{name: "sa", v: int(r.BByte())}, apiOp{name: "ga"})
		case 1:
			ops = append(ops, apiOp{name: "sx", v: int(r.BByte())}, apiOp{name: "gx"})
		case 2:
			ops = append(ops, apiOp{name: "sy", v: int(r.BByte())}, apiOp{name: "gy"})
		case 3:
			ops = append(ops, apiOp{name: "ss", v: int(r.BByte())}, apiOp{name: "gs"})
		case 4:
			ops = append(ops, apiOp{name: "sp", v: int(r.Word())}, apiOp{name: "gp"})
		case 5, 6:
			ops = append(ops, apiOp{name: "sf", s: flagString(r)}, apiOp{name: "gf"})
		case 7:
			ops = append(ops, apiOp{name: []string{"ga", "gx", "gy", "gs", "gp", "gf", "gc", "la", "pl"}[r.Intn(9)]})
		case 8, 9:
			a := apiAddr(r, flat)
			ops = append(ops, apiOp{name: "wb", a: a, v: int(r.BByte())}, apiOp{name: "rb", a: a})
		case 10:
			ops = append(ops, apiOp{name: "rb", a: apiAddr(r, flat)})
		case 11, 12, 13:
			a := apiAddr(r, flat)
			l := r.Intn(20)
			if r.Chance(10) {
				l = 200 + r.Intn(200)
			}
			if !flat && a+l > 0x3F00 {
				a = 0x3000
			}
			if a < 0x0900 && a+l >= 0x07F0 {
				a = 0x0A00
			}
			data := make([]uint8, l)
			for j := range data {
				data[j] = r.Byte()
			}
			o := apiOp{name: "sm", a: a, s: hexOf(data)}
			ops = append(ops, o, apiOp{name: "gm", a: a, v: l})
			lastMem = &o
		case 14:
			if lastMem != nil {
				// read a window that overlaps the last string
				ops = append(ops, apiOp{name: "gm", a: (lastMem.a + r.Intn(4)) & 0xFFFF, v: r.Intn(12)})
			}
		case 15:
			// flag letters in unusual positions / short strings
			ops = append(ops, apiOp{name: "sf", s: []string{"C", "NV", "", "CZIDBVN", "ZZZZZZZZ", "-------C", "nv-bdizc", "N-------"}[r.Intn(8)]}, apiOp{name: "gf"})
		}
	}
	return ops
}

// the observer program: entry 0 stores what the program sees, entry 1 (at +observerEntry1) changes registers
var observer = []uint8{
	0x8D, 0x00, 0x03, // STA $0300
	0x8E, 0x01, 0x03, // STX $0301
	0x8C, 0x02, 0x03, // STY $0302
	0x08, 0x68, // PHP PLA
	0x8D, 0x03, 0x03, // STA $0303
	0xBA,             // TSX
	0x8E, 0x04, 0x03, // STX $0304
	0xAD, 0x20, 0x03, // LDA $0320
	0x49, 0xFF, // EOR #$FF
	0x8D, 0x21, 0x03, // STA $0321
	0x00, // BRK
	// entry 1
	0xE8, 0xC8, // INX INY
	0x8E, 0x05, 0x03, // STX $0305
	0x8C, 0x06, 0x03, // STY $0306
	0x0A, // ASL A
	0x00,
}

const observerEntry1 = 27

// with a trap address: INX; STA $7F00; INY; INY; STA $7F00; NOP; STX $7F00; LDX #1; STY $7F00; BRK
// (plain stores only: what a read-modify-write instruction sends to a trap is C10's business)
var trapObserver = []uint8{0xE8, 0x8D, 0x00, 0x7F, 0xC8, 0xC8, 0x8D, 0x00, 0x7F, 0xEA, 0x8E, 0x00, 0x7F, 0xA2, 0x01, 0x8C, 0x00, 0x7F, 0x00}

func apiCase(r *rng.R, dir string) string {
	model := r.Intn(2)
	spec := "Linear64K"
	if r.Chance(30) {
		spec = []string{"Linear16K", "Linear32K", "XSixteen512K", "GeoRam_512K", "F256_512K", "XSixteen2048K", "GeoRam_2048K", "F256_768K"}[r.Intn(8)]
	}
	flat := spec == "Linear64K"
	iters := 1 + r.Intn(2)
	loadAt := 0x0800
	if r.Chance(20) {
		loadAt = 0x0820
	}
	trap := r.Chance(30)
	if trap && spec == "Linear16K" {
		spec = "Linear32K"
	}
	code := observer
	if trap {
		code = trapObserver
	}
	entry := loadAt
	if r.Bool() && !trap {
		entry = loadAt + observerEntry1
	}
	p1 := genApiOps(r, 2+r.Intn(8), flat)
	if !flat && r.Chance(70) {
		p1 = append(p1, bankedOps(r, spec)...)
	}
	if r.Chance(50) {
		p1 = append(p1, apiOp{name: "wb", a: 0x0320, v: int(r.BByte())})
	}
	p1 = append(p1, apiOp{name: "sp", v: entry})
	p2 := []apiOp{{name: "ga"}, {name: "gx"}, {name: "gy"}, {name: "gs"}, {name: "gp"}, {name: "gf"}, {name: "gc"}, {name: "gm", a: 0x0300, v: 8}, {name: "rb", a: 0x0321}}
	p2 = append(p2, genApiOps(r, r.Intn(4), flat)...)
	if !flat && r.Chance(50) {
		p2 = append(p2, bankedOps(r, spec)...)
	}
	p2 = append(p2, apiOp{name: "la"}, apiOp{name: "pl"})
	// chunk level: what the script does while it is being loaded (before arrange is ever called) acts on the same
	// machine, with the program loaded and the program counter at the load address
	p0 := []apiOp{}
	if r.Chance(50) {
		p0 = append(p0, apiOp{name: "gp"}, apiOp{name: "la"}, apiOp{name: "pl"})
		p0 = append(p0, genApiOps(r, r.Intn(4), flat)...)
		if r.Bool() {
			p1 = append([]apiOp{{name: "gp"}, {name: "ga"}, {name: "gf"}}, p1...)
		}
	}

	// where the calls are made from: the main thread, or Lua coroutines (same requests, same expected results)
	co := coNone
	if r.Chance(35) {
		co = 1 + r.Intn(4)
	}

	var sb strings.Builder
	sb.WriteString("out = {}\nfunction rec(x) out[#out+1] = tostring(x) end\n")
	fmt.Fprintf(&sb, "function num_iterations() return %d end\n", iters)
	if trap {
		if co != coNone {
			sb.WriteString("function trap(c) coroutine.wrap(function(d, v) rec(get_cycles()); rec(v) end)(0, c) end\n")
		} else {
			sb.WriteString("function trap(c) rec(get_cycles()); rec(c) end\n")
		}
	}
	renderOps(&sb, r, p0, "", co)
	sb.WriteString("function arrange()\n")
	renderOps(&sb, r, p1, "  ", co)
	sb.WriteString("end\nfunction assert()\n")
	renderOps(&sb, r, p2, "  ", co)
	sb.WriteString("  local f = io.open(test_dir .. 'api_out.txt', 'w')\n  f:write(table.concat(out, ' '))\n  f:close()\n  return true\nend\n")
	writeFile(dir, "api.lua", []byte(sb.String()))
	bin := writeFile(dir, "api.bin", prg(uint16(loadAt), code...))
	os.Remove(filepath.Join(dir, "api_out.txt"))

	cfg := emuconfig.DefaultConfig()
	cfg.MemSpec = spec
	if model == 1 {
		cfg.Model = "65C02"
	}
	{
		w1, w2 := []string{}, []string{}
		for _, x := range p0 {
			w1 = append(w1, "@"+x.wire())
		}
		for _, x := range p1 {
			w1 = append(w1, x.wire())
		}
		for _, x := range p2 {
			w2 = append(w2, x.wire())
		}
		trp := 0
		if trap {
			trp = 1
		}
		pend("luaapi %d %s %x %d %d co%d | %s | %s", model, spec, loadAt, iters, trp, co, strings.Join(w1, " "), strings.Join(w2, " "))
	}
	used := r.Chance(30)
	if used {
		count("luaapi.usedcpu")
	}
	var err error
	var c *cpu.CPU6502
	crashed := protect(func() {
		c, err = cfg.NewCpu()
		if err != nil {
			return
		}
		if used {
			// a CPU that ran an earlier program and was Reset (what the snapshot provider of -prexec hands to a case):
			// this test's get_cycles must not include what ran before
			c.Mem.Store(0x0400, 0xE8)
			c.Mem.Store(0x0401, 0xE8)
			c.Mem.Store(0x0402, 0x00)
			c.RunExt(0x0400, true)
			c.Mem.Store(0x0400, 0)
			c.Mem.Store(0x0401, 0)
			c.Reset()
		}
		tc := &verifier.TestCase{Name: "api", TestDriverSource: "api.a", TestScript: "api.lua"}
		var ph *memory.PlaceholderWrapper
		if trap {
			ph = memory.NewPlaceholderWrapper(c.Mem, 0x7F00)
			c.Mem = ph.Wrapper
		}
		err = tc.Execute(c, &fakeAsm{bins: map[string]string{"api.a": bin}}, dir, nil, ph, "id")
	})
	res := "ok"
	if crashed {
		res = "hostcrash"
	} else if err != nil {
		res = "error"
	}
	out, rerr := os.ReadFile(filepath.Join(dir, "api_out.txt"))
	o := string(out)
	if rerr != nil || o == "" {
		o = "-"
	}
	w1, w2 := []string{}, []string{}
	for _, x := range p0 {
		w1 = append(w1, "@"+x.wire())
	}
	for _, x := range p1 {
		w1 = append(w1, x.wire())
	}
	for _, x := range p2 {
		w2 = append(w2, x.wire())
	}
	count("luaapi." + spec)
	count(fmt.Sprintf("luaapi.co%d", co))
	tr := 0
	if trap {
		tr = 1
	}
	return fmt.Sprintf("luaapi %d %s %x %d %d co%d | %s | %s => %s | %s", model, spec, loadAt, iters, tr, co, strings.Join(w1, " "), strings.Join(w2, " "), res, o)
}

// trapGlobalsCase: the globals a trap script of run/profile sees (commands.LoadAndRunBinary): load_address and prog_len
// of the binary that was loaded, the program counter and the live cycle counter at the moment of the trap
func trapGlobalsCase(r *rng.R, dir string) string {
	loadAt := []int{0x0800, 0x0801, 0x0200, 0x1000, 0x3000, 0x00F0}[r.Intn(6)]
	pad := r.Intn(40)
	if r.Chance(10) {
		pad = 300 + r.Intn(300) // longer than the load address is large in the low pages: the two cannot be confused
	}
	code := []uint8{}
	for i := 0; i < pad; i++ {
		code = append(code, 0xEA) // NOP
	}
	code = append(code, 0xA9, 0x07, 0x8D, 0x00, 0x7F, 0x00) // LDA #7; STA $7F00; BRK
	bin := writeFile(dir, "tg.bin", prg(uint16(loadAt), code...))
	outFile := filepath.Join(dir, "tg_out.txt")
	os.Remove(outFile)
	script := writeFile(dir, "tg.lua", []byte("function trap(c)\n  local f = io.open('"+outFile+"', 'w')\n  f:write(load_address .. ' ' .. prog_len .. ' ' .. get_pc() .. ' ' .. get_cycles() .. ' ' .. c)\n  f:close()\nend\n"))
	model := r.Intn(2)
	pend("trapglobals %d %x %d", model, loadAt, pad)
	cfg := emuconfig.DefaultConfig()
	cfg.MemSpec = "Linear64K"
	if model == 1 {
		cfg.Model = "65C02"
	}
	res := "ok"
	var err error
	crashed := protect(func() {
		c, e := cfg.NewCpu()
		if e != nil {
			err = e
			return
		}
		ta := uint(0x7F00)
		if _, panicked := captureStdout(func() { _, _, err = commands.LoadAndRunBinary(c, &bin, &ta, &script, true) }); panicked {
			panic("panic in LoadAndRunBinary")
		}
	})
	if crashed {
		res = "hostcrash"
	} else if err != nil {
		res = "error"
	}
	out, rerr := os.ReadFile(outFile)
	o := strings.TrimSpace(string(out))
	if rerr != nil || o == "" {
		o = "-"
	}
	count("luaapi.trapglobals")
	return fmt.Sprintf("trapglobals %d %x %d => %s | %s", model, loadAt, pad, res, o)
}

// longFaultCase: read_byte_long / write_byte_long at the last address of the linear view (fine) and at or past its end
// (a fault: the script call raises an error, the test case fails — never a silent zero or a dropped write)
func longFaultCase(r *rng.R, dir string) string {
	spec := memSpecs[r.Intn(len(memSpecs))]
	total := int(linTotals[spec])
	addr := total - 1 - r.Intn(3)
	switch r.Intn(4) {
	case 0:
		addr = total
	case 1:
		addr = total + 1 + r.Intn(0x2000)
	case 2:
		addr = total + r.Intn(1<<22)
	}
	op := []string{"r", "w"}[r.Intn(2)]
	call := fmt.Sprintf("read_byte_long(%d)", addr)
	if op == "w" {
		call = fmt.Sprintf("write_byte_long(%d, 1)", addr)
	}
	writeFile(dir, "lf.lua", []byte("function arrange() "+call+" end\nfunction assert() return true end\n"))
	bin := writeFile(dir, "lf.bin", prg(0x0800, 0x00))
	pend("longfault %s %s %x", spec, op, addr)
	cfg := emuconfig.DefaultConfig()
	cfg.MemSpec = spec
	res := "ok"
	var err error
	if protect(func() {
		c, e := cfg.NewCpu()
		if e != nil {
			panic(e)
		}
		tc := &verifier.TestCase{Name: "lf", TestDriverSource: "lf.a", TestScript: "lf.lua"}
		err = tc.Execute(c, &fakeAsm{bins: map[string]string{"lf.a": bin}}, dir, nil, nil, "id")
	}) {
		res = "hostcrash"
	} else if err != nil {
		res = "error"
	}
	count("luaapi.longfault")
	return fmt.Sprintf("longfault %s %s %x => %s", spec, op, addr, res)
}

// bigPayloadByte: byte number i of the payload of a bigProgCase binary: a BRK first (the program is run), then a
// pattern without zero bytes (a byte that was not loaded reads as zero on the fresh machine)
func bigPayloadByte(i, mul, add int) uint8 {
	if i == 0 {
		return 0
	}
	return uint8(1 + (i*mul+add)%255)
}

// bigProgCase: load_address and prog_len describe the binary that was loaded, for every payload length a 16 bit
// prog_len can describe: the largest (65535 bytes, file size 65537) and its neighbours, lengths around 32K and 256,
// and short ones.  The script records the two variables at chunk level, in arrange and in assert, and reads the loaded
// bytes back (first, last, the cell after the last, a window over the end, random cells); on the 64K machine the
// payload wraps around $FFFF.  fixedLen > 0 selects a boundary length.
func bigProgCase(r *rng.R, dir string, fixedLen int) string {
	model := r.Intn(2)
	plen := fixedLen
	if plen == 0 {
		switch r.Intn(10) {
		case 0, 1, 2:
			plen = 65535 - r.Intn(4)
		case 3, 4:
			plen = 65535 - r.Intn(300)
		case 5:
			plen = 0x8000 - 2 + r.Intn(5)
		case 6:
			plen = 254 + r.Intn(5)
		case 7:
			plen = 0x4000 + r.Intn(0xBF00)
		default:
			plen = 1 + r.Intn(2000)
		}
	}
	loadAt := []int{0x0200, 0x0800, 0x0801, 0x1000, 0xC000, 0x0000, 0xFFFF, 0x00F0}[r.Intn(8)]
	if r.Chance(30) {
		loadAt = int(r.Word())
	}
	mul := 1 + 2*r.Intn(127)
	add := r.Intn(255)
	payload := make([]uint8, plen)
	for i := range payload {
		payload[i] = bigPayloadByte(i, mul, add)
	}
	last := (loadAt + plen - 1) & 0xFFFF
	probes := []int{loadAt, last, (last + 1) & 0xFFFF, (loadAt + 1) & 0xFFFF, (last - 1) & 0xFFFF, (loadAt - 1) & 0xFFFF}
	for i := 0; i < 4; i++ {
		probes = append(probes, int(r.Word()))
	}
	gmAt, gmLen := (last-5)&0xFFFF, 8 // a window from inside the payload over its end
	inCo := r.Chance(30)

	var sb strings.Builder
	sb.WriteString("out = {}\nfunction rec(x) out[#out+1] = tostring(x) end\n")
	vars := "rec(load_address); rec(prog_len)"
	if inCo {
		vars = "coroutine.wrap(function() rec(load_address); rec(prog_len) end)()"
	}
	sb.WriteString(vars + "\n")
	sb.WriteString("function arrange()\n  " + vars + "\n  rec(get_pc())\nend\n")
	sb.WriteString("function assert()\n  " + vars + "\n")
	ws := []string{}
	for _, a := range probes {
		fmt.Fprintf(&sb, "  rec(read_byte(%d))\n", a)
		ws = append(ws, fmt.Sprintf("%x", a))
	}
	fmt.Fprintf(&sb, "  rec('m' .. get_memory(%d, %d))\n", gmAt, gmLen)
	sb.WriteString("  local f = io.open(test_dir .. 'big_out.txt', 'w')\n  f:write(table.concat(out, ' '))\n  f:close()\n  return true\nend\n")
	writeFile(dir, "big.lua", []byte(sb.String()))
	bin := writeFile(dir, "big.bin", prg(uint16(loadAt), payload...))
	outFile := filepath.Join(dir, "big_out.txt")
	os.Remove(outFile)

	co := 0
	if inCo {
		co = 1
	}
	req := fmt.Sprintf("luaapi big %d %x %d %d %d co%d | %s | %x:%x", model, loadAt, plen, mul, add, co, strings.Join(ws, " "), gmAt, gmLen)
	pend("%s", req)
	cfg := emuconfig.DefaultConfig()
	cfg.MemSpec = "Linear64K"
	if model == 1 {
		cfg.Model = "65C02"
	}
	res := "ok"
	var err error
	if protect(func() {
		c, e := cfg.NewCpu()
		if e != nil {
			panic(e)
		}
		tc := &verifier.TestCase{Name: "big", TestDriverSource: "big.a", TestScript: "big.lua"}
		err = tc.Execute(c, &fakeAsm{bins: map[string]string{"big.a": bin}}, dir, nil, nil, "id")
	}) {
		res = "hostcrash"
	} else if err != nil {
		res = "error"
	}
	out, rerr := os.ReadFile(outFile)
	o := strings.TrimSpace(string(out))
	if rerr != nil || o == "" {
		o = "-"
	}
	count("luaapi.bigprog")
	if plen >= 65534 {
		count(fmt.Sprintf("luaapi.bigprog.%d", plen))
	}
	return req + " => " + res + " | " + o
}

func luaapiStream(seed uint64, n int) {
	r := rng.New(seed + 1212)
	dir := tmpDir()
	defer os.RemoveAll(dir)
	for i := 0; i < n; i++ {
		emit(apiCase(r, dir))
		if i%10 == 3 {
			emit(trapGlobalsCase(r, dir))
		}
		if i%10 == 7 {
			emit(longFaultCase(r, dir))
		}
		if i%10 == 5 {
			// the two largest payloads first, then a mix
			emit(bigProgCase(r, dir, map[int]int{5: 65535, 15: 65534, 25: 65533}[i]))
		}
	}
}
