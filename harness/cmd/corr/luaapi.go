package main

import (
	"6502profiler/commands"
	"6502profiler/cpu"
	"6502profiler/emuconfig"
	"6502profiler/memory"
	"6502profiler/verifier"
	"fmt"
	"os"
	"path/filepath"
	"strings"
	"verifharness/internal/rng"
)

// ---------------------------------------------------------------------------------------
// C12: the Lua script API

type apiOp struct {
	name string
	a    int
	v    int
	s    string
}

func (o apiOp) lua() string {
	switch o.name {
	case "sa":
		return fmt.Sprintf("set_accu(%d)", o.v)
	case "sx":
		return fmt.Sprintf("set_xreg(%d)", o.v)
	case "sy":
		return fmt.Sprintf("set_yreg(%d)", o.v)
	case "ss":
		return fmt.Sprintf("set_sp(%d)", o.v)
	case "sp":
		return fmt.Sprintf("set_pc(%d)", o.v)
	case "ga":
		return "rec(get_accu())"
	case "gx":
		return "rec(get_xreg())"
	case "gy":
		return "rec(get_yreg())"
	case "gs":
		return "rec(get_sp())"
	case "gp":
		return "rec(get_pc())"
	case "sf":
		return fmt.Sprintf("set_flags('%s')", o.s)
	case "gf":
		return "rec(get_flags())"
	case "wb":
		return fmt.Sprintf("write_byte(%d, %d)", o.a, o.v)
	case "rb":
		return fmt.Sprintf("rec(read_byte(%d))", o.a)
	case "sm":
		return fmt.Sprintf("set_memory(%d, '%s')", o.a, o.s)
	case "gm":
		return fmt.Sprintf("rec('m' .. get_memory(%d, %d))", o.a, o.v)
	case "gc":
		return "rec(get_cycles())"
	case "rl":
		return fmt.Sprintf("rec(read_byte_long(%d))", o.a)
	case "wl":
		return fmt.Sprintf("write_byte_long(%d, %d)", o.a, o.v)
	case "la":
		return "rec(load_address)"
	case "pl":
		return "rec(prog_len)"
	}
	panic(o.name)
}

func (o apiOp) wire() string {
	switch o.name {
	case "sa", "sx", "sy", "ss", "sp":
		return fmt.Sprintf("%s:%x", o.name, o.v)
	case "sf":
		return "sf:" + o.s
	case "wb":
		return fmt.Sprintf("wb:%x:%x", o.a, o.v)
	case "rb":
		return fmt.Sprintf("rb:%x", o.a)
	case "sm":
		return fmt.Sprintf("sm:%x:%s", o.a, o.s)
	case "gm":
		return fmt.Sprintf("gm:%x:%x", o.a, o.v)
	case "rl":
		return fmt.Sprintf("rl:%x", o.a)
	case "wl":
		return fmt.Sprintf("wl:%x:%x", o.a, o.v)
	}
	return o.name
}

func apiAddr(r *rng.R, flat bool) int {
	if flat && r.Chance(30) {
		return []int{0xFFFF, 0xFFFE, 0xFFF0, 0x0000, 0x0001, 0x00FF, 0x0100, 0x01FF, 0xFFFD}[r.Intn(9)]
	}
	a := 0x0200 + r.Intn(0x3C00)
	if a >= 0x07F0 && a < 0x0900 {
		a += 0x0200
	}
	return a
}

func flagString(r *rng.R) string {
	letters := "NV-BDIZC"
	b := []byte("--------")
	for i := range b {
		if i != 2 && r.Bool() {
			b[i] = letters[i]
		}
	}
	return string(b)
}

// bankedOps: on a banked machine, switch a bank through the API and access the window through both the 16-bit
// calls and the linear calls: the script must see exactly what a program would see at that moment
func bankedOps(r *rng.R, spec string) []apiOp {
	ops := []apiOp{}
	winLo, winLen := 0, 0
	switch {
	case strings.HasPrefix(spec, "XSixteen"):
		banks := 64
		if spec == "XSixteen2048K" {
			banks = 256
		}
		if r.Bool() {
			ops = append(ops, apiOp{name: "wb", a: 0, v: r.Intn(banks)})
			winLo, winLen = 0xA000, 0x2000
		} else {
			ops = append(ops, apiOp{name: "wb", a: 1, v: r.Intn(32)})
			winLo, winLen = 0xC000, 0x4000
		}
	case strings.HasPrefix(spec, "GeoRam"):
		blocks := 32
		if spec == "GeoRam_2048K" {
			blocks = 128
		}
		ops = append(ops, apiOp{name: "wb", a: 0xDFFF, v: r.Intn(blocks)}, apiOp{name: "wb", a: 0xDFFE, v: r.Intn(64)})
		winLo, winLen = 0xDE00, 0x100
	case strings.HasPrefix(spec, "F256"):
		ops = append(ops, apiOp{name: "wb", a: 1, v: r.Intn(8)})
		winLo, winLen = 0xC000, 0x2000
	default:
		return ops
	}
	for i := 0; i < 1+r.Intn(3); i++ {
		a := winLo + r.Intn(winLen)
		switch r.Intn(4) {
		case 0:
			ops = append(ops, apiOp{name: "wb", a: a, v: int(r.BByte())}, apiOp{name: "rb", a: a})
		case 1:
			ops = append(ops, apiOp{name: "rb", a: a})
		case 2:
			l := 1 + r.Intn(12)
			if a+l > winLo+winLen {
				a = winLo + winLen - l
			}
			data := make([]uint8, l)
			for j := range data {
				data[j] = r.Byte()
			}
			ops = append(ops, apiOp{name: "sm", a: a, s: hexOf(data)}, apiOp{name: "gm", a: a, v: l})
		case 3:
			la := r.Intn(int(linTotals[spec]))
			if r.Bool() {
				// the linear address with the same number as a window address: below 64K the two views differ there
				la = a
			}
			if top := int(linTotals[spec]); top > 0x200000 && r.Chance(40) {
				// the linear view of the 2048K machines is larger than 2 MB: a cell above $200000 is a cell of its own, not
				// an alias of the cell 2 MB below it
				la = 0x200000 + r.Intn(top-0x200000)
				ops = append(ops, apiOp{name: "wl", a: la, v: 1 + r.Intn(255)}, apiOp{name: "rl", a: la}, apiOp{name: "rl", a: la - 0x200000},
					apiOp{name: "rb", a: a})
				continue
			}
			if r.Bool() {
				ops = append(ops, apiOp{name: "wl", a: la, v: int(r.BByte())})
			}
			ops = append(ops, apiOp{name: "rl", a: la}, apiOp{name: "rb", a: a})
		}
	}
	return ops
}

func genApiOps(r *rng.R, n int, flat bool) []apiOp {
	ops := []apiOp{}
	var lastMem *apiOp
	for i := 0; i < n; i++ {
		switch r.Intn(16) {
		case 0:
			ops = append(ops, apiOp{name: "sa", v: int(r.BByte())}, apiOp{name: "ga"})
		case 1:
			ops = append(ops, apiOp{name: "sx", v: int(r.BByte())}, apiOp{name: "gx"})
		case 2:
			ops = append(ops, apiOp{name: "sy", v: int(r.BByte())}, apiOp{name: "gy"})
		case 3:
			ops = append(ops, apiOp{name: "ss", v: int(r.BByte())}, apiOp{name: "gs"})
		case 4:
			ops = append(ops, apiOp{name: "sp", v: int(r.Word())}, apiOp{name: "gp"})
		case 5, 6:
			ops = append(ops, apiOp{name: "sf", s: flagString(r)}, apiOp{name: "gf"})
		case 7:
			ops = append(ops, apiOp{name: []string{"ga", "gx", "gy", "gs", "gp", "gf", "gc", "la", "pl"}[r.Intn(9)]})
		case 8, 9:
			a := apiAddr(r, flat)
			ops = append(ops, apiOp{name: "wb", a: a, v: int(r.BByte())}, apiOp{name: "rb", a: a})
		case 10:
			ops = append(ops, apiOp{name: "rb", a: apiAddr(r, flat)})
		case 11, 12, 13:
			a := apiAddr(r, flat)
			l := r.Intn(20)
			if r.Chance(10) {
				l = 200 + r.Intn(200)
			}
			if !flat && a+l > 0x3F00 {
				a = 0x3000
			}
			if a < 0x0900 && a+l >= 0x07F0 {
				a = 0x0A00
			}
			data := make([]uint8, l)
			for j := range data {
				data[j] = r.Byte()
			}
			o := apiOp{name: "sm", a: a, s: hexOf(data)}
			ops = append(ops, o, apiOp{name: "gm", a: a, v: l})
			lastMem = &o
		case 14:
			if lastMem != nil {
				// read a window that overlaps the last string
				ops = append(ops, apiOp{name: "gm", a: (lastMem.a + r.Intn(4)) & 0xFFFF, v: r.Intn(12)})
			}
		case 15:
			// flag letters in unusual positions / short strings
			ops = append(ops, apiOp{name: "sf", s: []string{"C", "NV", "", "CZIDBVN", "ZZZZZZZZ", "-------C", "nv-bdizc", "N-------"}[r.Intn(8)]}, apiOp{name: "gf"})
		}
	}
	return ops
}

// the observer program: entry 0 stores what the program sees, entry 1 (at +observerEntry1) changes registers
var observer = []uint8{
	0x8D, 0x00, 0x03, // STA $0300
	0x8E, 0x01, 0x03, // STX $0301
	0x8C, 0x02, 0x03, // STY $0302
	0x08, 0x68, // PHP PLA
	0x8D, 0x03, 0x03, // STA $0303
	0xBA,             // TSX
	0x8E, 0x04, 0x03, // STX $0304
	0xAD, 0x20, 0x03, // LDA $0320
	0x49, 0xFF, // EOR #$FF
	0x8D, 0x21, 0x03, // STA $0321
	0x00, // BRK
	// entry 1
	0xE8, 0xC8, // INX INY
	0x8E, 0x05, 0x03, // STX $0305
	0x8C, 0x06, 0x03, // STY $0306
	0x0A, // ASL A
	0x00,
}

const observerEntry1 = 27

// with a trap address: INX; STA $7F00; INY; INY; STA $7F00; NOP; STX $7F00; LDX #1; STY $7F00; BRK
// (plain stores only: what a read-modify-write instruction sends to a trap is C10's business)
var trapObserver = []uint8{0xE8, 0x8D, 0x00, 0x7F, 0xC8, 0xC8, 0x8D, 0x00, 0x7F, 0xEA, 0x8E, 0x00, 0x7F, 0xA2, 0x01, 0x8C, 0x00, 0x7F, 0x00}

func apiCase(r *rng.R, dir string) string {
	model := r.Intn(2)
	spec := "Linear64K"
	if r.Chance(30) {
		spec = []string{"Linear16K", "Linear32K", "XSixteen512K", "GeoRam_512K", "F256_512K", "XSixteen2048K", "GeoRam_2048K", "F256_768K"}[r.Intn(8)]
	}
	flat := spec == "Linear64K"
	iters := 1 + r.Intn(2)
	loadAt := 0x0800
	if r.Chance(20) {
		loadAt = 0x0820
	}
	trap := r.Chance(30)
	if trap && spec == "Linear16K" {
		spec = "Linear32K"
	}
	code := observer
	if trap {
		code = trapObserver
	}
	entry := loadAt
	if r.Bool() && !trap {
		entry = loadAt + observerEntry1
	}
	p1 := genApiOps(r, 2+r.Intn(8), flat)
	if !flat && r.Chance(70) {
		p1 = append(p1, bankedOps(r, spec)...)
	}
	if r.Chance(50) {
		p1 = append(p1, apiOp{name: "wb", a: 0x0320, v: int(r.BByte())})
	}
	p1 = append(p1, apiOp{name: "sp", v: entry})
	p2 := []apiOp{{name: "ga"}, {name: "gx"}, {name: "gy"}, {name: "gs"}, {name: "gp"}, {name: "gf"}, {name: "gc"}, {name: "gm", a: 0x0300, v: 8}, {name: "rb", a: 0x0321}}
	p2 = append(p2, genApiOps(r, r.Intn(4), flat)...)
	if !flat && r.Chance(50) {
		p2 = append(p2, bankedOps(r, spec)...)
	}
	p2 = append(p2, apiOp{name: "la"}, apiOp{name: "pl"})
	// chunk level: what the script does while it is being loaded (before arrange is ever called) acts on the same
	// machine, with the program loaded and the program counter at the load address
	p0 := []apiOp{}
	if r.Chance(50) {
		p0 = append(p0, apiOp{name: "gp"}, apiOp{name: "la"}, apiOp{name: "pl"})
		p0 = append(p0, genApiOps(r, r.Intn(4), flat)...)
		if r.Bool() {
			p1 = append([]apiOp{{name: "gp"}, {name: "ga"}, {name: "gf"}}, p1...)
		}
	}

	var sb strings.Builder
	sb.WriteString("out = {}\nfunction rec(x) out[#out+1] = tostring(x) end\n")
	fmt.Fprintf(&sb, "function num_iterations() return %d end\n", iters)
	if trap {
		sb.WriteString("function trap(c) rec(get_cycles()); rec(c) end\n")
	}
	for _, o := range p0 {
		sb.WriteString(o.lua() + "\n")
	}
	sb.WriteString("function arrange()\n")
	for _, o := range p1 {
		sb.WriteString("  " + o.lua() + "\n")
	}
	sb.WriteString("end\nfunction assert()\n")
	for _, o := range p2 {
		sb.WriteString("  " + o.lua() + "\n")
	}
	sb.WriteString("  local f = io.open(test_dir .. 'api_out.txt', 'w')\n  f:write(table.concat(out, ' '))\n  f:close()\n  return true\nend\n")
	writeFile(dir, "api.lua", []byte(sb.String()))
	bin := writeFile(dir, "api.bin", prg(uint16(loadAt), code...))
	os.Remove(filepath.Join(dir, "api_out.txt"))

	cfg := emuconfig.DefaultConfig()
	cfg.MemSpec = spec
	if model == 1 {
		cfg.Model = "65C02"
	}
	{
		w1, w2 := []string{}, []string{}
		for _, x := range p0 {
			w1 = append(w1, "@"+x.wire())
		}
		for _, x := range p1 {
			w1 = append(w1, x.wire())
		}
		for _, x := range p2 {
			w2 = append(w2, x.wire())
		}
		trp := 0
		if trap {
			trp = 1
		}
		pend("luaapi %d %s %x %d %d | %s | %s", model, spec, loadAt, iters, trp, strings.Join(w1, " "), strings.Join(w2, " "))
	}
	used := r.Chance(30)
	if used {
		count("luaapi.usedcpu")
	}
	var err error
	var c *cpu.CPU6502
	crashed := protect(func() {
		c, err = cfg.NewCpu()
		if err != nil {
			return
		}
		if used {
			// a CPU that ran an earlier program and was Reset (what the snapshot provider of -prexec hands to a case):
			// this test's get_cycles must not include what ran before
			c.Mem.Store(0x0400, 0xE8)
			c.Mem.Store(0x0401, 0xE8)
			c.Mem.Store(0x0402, 0x00)
			c.RunExt(0x0400, true)
			c.Mem.Store(0x0400, 0)
			c.Mem.Store(0x0401, 0)
			c.Reset()
		}
		tc := &verifier.TestCase{Name: "api", TestDriverSource: "api.a", TestScript: "api.lua"}
		var ph *memory.PlaceholderWrapper
		if trap {
			ph = memory.NewPlaceholderWrapper(c.Mem, 0x7F00)
			c.Mem = ph.Wrapper
		}
		err = tc.Execute(c, &fakeAsm{bins: map[string]string{"api.a": bin}}, dir, nil, ph, "id")
	})
	res := "ok"
	if crashed {
		res = "hostcrash"
	} else if err != nil {
		res = "error"
	}
	out, rerr := os.ReadFile(filepath.Join(dir, "api_out.txt"))
	o := string(out)
	if rerr != nil || o == "" {
		o = "-"
	}
	w1, w2 := []string{}, []string{}
	for _, x := range p0 {
		w1 = append(w1, "@"+x.wire())
	}
	for _, x := range p1 {
		w1 = append(w1, x.wire())
	}
	for _, x := range p2 {
		w2 = append(w2, x.wire())
	}
	count("luaapi." + spec)
	tr := 0
	if trap {
		tr = 1
	}
	return fmt.Sprintf("luaapi %d %s %x %d %d | %s | %s => %s | %s", model, spec, loadAt, iters, tr, strings.Join(w1, " "), strings.Join(w2, " "), res, o)
}

// trapGlobalsCase: the globals a trap script of run/profile sees (commands.LoadAndRunBinary): load_address and prog_len
// of the binary that was loaded, the program counter and the live cycle counter at the moment of the trap
func trapGlobalsCase(r *rng.R, dir string) string {
	loadAt := []int{0x0800, 0x0801, 0x0200, 0x1000, 0x3000, 0x00F0}[r.Intn(6)]
	pad := r.Intn(40)
	if r.Chance(10) {
		pad = 300 + r.Intn(300) // longer than the load address is large in the low pages: the two cannot be confused
	}
	code := []uint8{}
	for i := 0; i < pad; i++ {
		code = append(code, 0xEA) // NOP
	}
	code = append(code, 0xA9, 0x07, 0x8D, 0x00, 0x7F, 0x00) // LDA #7; STA $7F00; BRK
	bin := writeFile(dir, "tg.bin", prg(uint16(loadAt), code...))
	outFile := filepath.Join(dir, "tg_out.txt")
	os.Remove(outFile)
	script := writeFile(dir, "tg.lua", []byte("function trap(c)\n  local f = io.open('"+outFile+"', 'w')\n  f:write(load_address .. ' ' .. prog_len .. ' ' .. get_pc() .. ' ' .. get_cycles() .. ' ' .. c)\n  f:close()\nend\n"))
	model := r.Intn(2)
	pend("trapglobals %d %x %d", model, loadAt, pad)
	cfg := emuconfig.DefaultConfig()
	cfg.MemSpec = "Linear64K"
	if model == 1 {
		cfg.Model = "65C02"
	}
	res := "ok"
	var err error
	crashed := protect(func() {
		c, e := cfg.NewCpu()
		if e != nil {
			err = e
			return
		}
		ta := uint(0x7F00)
		if _, panicked := captureStdout(func() { _, _, err = commands.LoadAndRunBinary(c, &bin, &ta, &script, true) }); panicked {
			panic("panic in LoadAndRunBinary")
		}
	})
	if crashed {
		res = "hostcrash"
	} else if err != nil {
		res = "error"
	}
	out, rerr := os.ReadFile(outFile)
	o := strings.TrimSpace(string(out))
	if rerr != nil || o == "" {
		o = "-"
	}
	count("luaapi.trapglobals")
	return fmt.Sprintf("trapglobals %d %x %d => %s | %s", model, loadAt, pad, res, o)
}

// longFaultCase: read_byte_long / write_byte_long at the last address of the linear view (fine) and at or past its end
// (a fault: the script call raises an error, the test case fails — never a silent zero or a dropped write)
func longFaultCase(r *rng.R, dir string) string {
	spec := memSpecs[r.Intn(len(memSpecs))]
	total := int(linTotals[spec])
	addr := total - 1 - r.Intn(3)
	switch r.Intn(4) {
	case 0:
		addr = total
	case 1:
		addr = total + 1 + r.Intn(0x2000)
	case 2:
		addr = total + r.Intn(1<<22)
	}
	op := []string{"r", "w"}[r.Intn(2)]
	call := fmt.Sprintf("read_byte_long(%d)", addr)
	if op == "w" {
		call = fmt.Sprintf("write_byte_long(%d, 1)", addr)
	}
	writeFile(dir, "lf.lua", []byte("function arrange() "+call+" end\nfunction assert() return true end\n"))
	bin := writeFile(dir, "lf.bin", prg(0x0800, 0x00))
	pend("longfault %s %s %x", spec, op, addr)
	cfg := emuconfig.DefaultConfig()
	cfg.MemSpec = spec
	res := "ok"
	var err error
	if protect(func() {
		c, e := cfg.NewCpu()
		if e != nil {
			panic(e)
		}
		tc := &verifier.TestCase{Name: "lf", TestDriverSource: "lf.a", TestScript: "lf.lua"}
		err = tc.Execute(c, &fakeAsm{bins: map[string]string{"lf.a": bin}}, dir, nil, nil, "id")
	}) {
		res = "hostcrash"
	} else if err != nil {
		res = "error"
	}
	count("luaapi.longfault")
	return fmt.Sprintf("longfault %s %s %x => %s", spec, op, addr, res)
}

func luaapiStream(seed uint64, n int) {
	r := rng.New(seed + 1212)
	dir := tmpDir()
	defer os.RemoveAll(dir)
	for i := 0; i < n; i++ {
		emit(apiCase(r, dir))
		if i%10 == 3 {
			emit(trapGlobalsCase(r, dir))
		}
		if i%10 == 7 {
			emit(longFaultCase(r, dir))
		}
	}
}
