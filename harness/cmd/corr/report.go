package main

import (
	"6502profiler/memory"
	"6502profiler/profiler"
	"encoding/hex"
	"fmt"
	"os"
	"path/filepath"
	"strings"
	"verifharness/internal/rng"
)

// statMem: a Memory with prescribed contents and access statistics over 64K, and a watchdog on the
// number of statistic queries and loads (turns a never-ending loop into a recovered panic)
type statMem struct {
	memory.Memory
	left int
}

func (s *statMem) GetStatistics(a uint16) uint64 {
	if s.left <= 0 {
		panic("watchdog")
	}
	s.left--
	return s.Memory.GetStatistics(a) + statBias[a]
}

// statBias: added to the access statistic of an address (an access profile is any assignment of 64-bit counts to
// addresses: numbers no real run reaches in a lifetime are access numbers too)
var statBias = map[uint16]uint64{}

func (s *statMem) Load(a uint16) uint8 {
	if s.left <= 0 {
		panic("watchdog")
	}
	s.left--
	return s.Memory.Load(a)
}

func reportCase(r *rng.R, strategy string, prcnt int, start uint16, raws []int, vals []uint8, labels map[uint16][]string) string {
	var m memory.Memory = memory.NewLinearMemory(65536)
	n := len(raws)
	// a range inside a banked window, on a banked machine with a non-default bank selected: the report must
	// show what the program sees through its 16-bit view (value and count of the byte behind the address NOW)
	if int(start) >= 0xA000 && int(start)+n <= 0xC000 && r.Chance(50) {
		x := memory.NewX16Memory(memory.X2048K)
		x.Store(0, uint8(2+r.Intn(250)))
		x.ClearStatistics()
		m = x
		count("report.x16window")
	} else if int(start) >= 0xDE00 && int(start)+n <= 0xDF00 && r.Chance(70) {
		g := memory.NewNeoGeo(memory.NeoGeoRegisterPage+0xFE, 7)
		g.Store(0xDFFF, uint8(1+r.Intn(120)))
		g.Store(0xDFFE, uint8(1+r.Intn(60)))
		g.ClearStatistics()
		m = g
		count("report.geowindow")
	}
	for i := 0; i < n; i++ {
		a := start + uint16(i)
		if raws[i] > 0 {
			m.Store(a, vals[i])
			for k := 1; k < raws[i]; k++ {
				m.Load(a)
			}
		}
	}
	end := start + uint16(n-1)
	p := float64(prcnt) / 100.0
	var calc profiler.CutOffCalc
	if strategy == "median" {
		calc = func(mm memory.Memory, s, e uint16) uint64 { return profiler.CutOffMedian(mm, s, e, p) }
	} else {
		calc = func(mm memory.Memory, s, e uint16) uint64 { return profiler.CutOffAbsoluteValue(mm, s, e, p) }
	}
	// the cut-off function alone first (to tell which loop diverges or crashes)
	sm := &statMem{Memory: m, left: n + 8}
	var cut uint64
	cutRes := ""
	if protect(func() { cut = calc(sm, start, end) }) {
		cutRes = "!"
	} else {
		cutRes = fmt.Sprintf("%d", cut)
	}
	out := "!"
	if cutRes != "!" {
		file := filepath.Join(tmpDir(), "report.txt")
		sm2 := &statMem{Memory: m, left: 3*n + 16}
		var err error
		if !protect(func() { err = profiler.DumpStatistics(sm2, file, labels, start, end, calc) }) && err == nil {
			data, _ := os.ReadFile(file)
			out = hex.EncodeToString(data)
			if out == "" {
				out = "-"
			}
		}
	}
	rs := make([]string, n)
	vs := make([]byte, n)
	for i := range raws {
		rs[i] = fmt.Sprintf("%d", uint64(raws[i])+statBias[start+uint16(i)])
		vs[i] = vals[i]
		if raws[i] == 0 {
			vs[i] = 0
		}
	}
	ls := []string{}
	for i := 0; i < n; i++ {
		if l, ok := labels[start+uint16(i)]; ok {
			ls = append(ls, fmt.Sprintf("%d:%s", i, strings.Join(l, ",")))
		}
	}
	lab := strings.Join(ls, ";")
	if lab == "" {
		lab = "-"
	}
	return fmt.Sprintf("report %s %d %04x | %s | %s | %s => %s %s", strategy, prcnt, start, strings.Join(rs, ","), hex.EncodeToString(vs), lab, cutRes, out)
}

func reportStream(seed uint64, n int) {
	r := rng.New(seed + 1415)
	defer func() {
		if loadTmp != "" {
			os.RemoveAll(loadTmp)
		}
	}()
	names := []string{"main", "loop", "l_1", "data", "end", "x"}
	gen := func(kind int, n int) []int {
		raws := make([]int, n)
		for i := range raws {
			switch kind {
			case 0:
				raws[i] = 1 + r.Intn(40)
			case 1:
				raws[i] = 7 // all equal
			case 2:
				raws[i] = i + 1 // strictly increasing, distinct
			case 3:
				raws[i] = r.Intn(3) // zeros and ties
			case 4:
				raws[i] = 1 + r.Intn(4)
			}
		}
		return raws
	}
	// the whole address space, $0000-$FFFF (65 536 addresses: one more than a 16-bit length can hold), once per strategy
	for _, strategy := range []string{"median", "abs"} {
		raws := make([]int, 65536)
		vals := make([]uint8, 65536)
		for k := range raws {
			raws[k] = 1 + (k*7+k/256)%5
			vals[k] = uint8(k * 3)
		}
		count("report.full64k")
		emit(reportCase(r, strategy, []int{10, 50}[r.Intn(2)], 0, raws, vals, map[uint16][]string{0x0000: {"zero"}, 0xFFFF: {"top"}}))
	}
	for i := 0; i < n; i++ {
		ln := []int{1, 2, 3, 9, 10, 11, 99, 100, 101, 1 + r.Intn(300)}[r.Intn(10)]
		kind := r.Intn(5)
		if kind == 2 && ln > 60 {
			ln = 60
		}
		raws := gen(kind, ln)
		vals := make([]uint8, ln)
		for k := range vals {
			vals[k] = r.Byte()
		}
		var start uint16
		switch r.Intn(4) {
		case 0:
			start = uint16(0x10000 - ln) // range ends at $FFFF
		case 1:
			start = 0x0800
		case 2:
			if ln < 0x1F00 && r.Bool() {
				start = 0xA000 + uint16(r.Intn(0x2000-ln))
			} else if ln < 0xF0 {
				start = 0xDE00 + uint16(r.Intn(0x100-ln))
			} else {
				start = uint16(r.Intn(0x10000 - ln))
			}
		default:
			start = uint16(r.Intn(0x10000 - ln))
		}
		labels := map[uint16][]string{}
		for k := 0; k < ln; k++ {
			if r.Chance(15) {
				cnt := 1 + r.Intn(3)
				for c := 0; c < cnt; c++ {
					labels[start+uint16(k)] = append(labels[start+uint16(k)], names[r.Intn(len(names))])
				}
			}
		}
		if r.Chance(30) {
			// symbols OUTSIDE the program range (a zero-page variable, a routine behind the program): not part of the report
			if start >= 0x20 {
				labels[start-uint16(1+r.Intn(0x1F))] = []string{"below"}
				zp := uint16(r.Intn(int(start)))
				labels[zp] = append(labels[zp], "zp_var")
			}
			if int(start)+ln+8 < 0x10000 {
				labels[start+uint16(ln)+uint16(r.Intn(8))] = []string{"behind"}
			}
			count("report.outsidelabels")
		}
		prcnt := []int{0, 1, 10, 50, 99, 100, r.Intn(101), r.Intn(101)}[r.Intn(8)]
		strategy := []string{"median", "abs"}[r.Intn(2)]
		count("report." + strategy)
		statBias = map[uint16]uint64{}
		if r.Chance(6) {
			// one to three addresses with access numbers around 2^63 and 2^64
			for k := 0; k <= r.Intn(3); k++ {
				j := r.Intn(ln)
				if raws[j] > 0 {
					statBias[start+uint16(j)] = []uint64{1 << 63, 1<<63 - 50, 1<<64 - 100, 1 << 62}[r.Intn(4)]
				}
			}
			count("report.hugecounts")
		}
		emit(reportCase(r, strategy, prcnt, start, raws, vals, labels))
		statBias = map[uint16]uint64{}
	}
	// float index: the expression of the Go code for every length and percentage, checked against the integer
	// envelope the Lean theorems assume (IdxOk), and emitted on a sample for comparison with Lean's Float
	bad := 0
	for l := 1; l <= 65536; l++ {
		prev := -1
		for pc := 100; pc >= 0; pc-- {
			p := float64(pc) / 100.0
			idx := int(float64(l) * (1.0 - p))
			exact := l * (100 - pc) / 100
			if idx > exact || idx < exact-1 || (idx == exact-1 && (l*(100-pc))%100 != 0) || idx < prev {
				bad++
			}
			prev = idx
		}
	}
	emit(fmt.Sprintf("idxenvelope 65536 101 => %d", bad))
	for i := 0; i < 2000; i++ {
		l := 1 + r.Intn(65536)
		pc := r.Intn(101)
		p := float64(pc) / 100.0
		emit(fmt.Sprintf("idx %d %d => %d", l, pc, int(float64(l)*(1.0-p))))
	}
}
