package main

import (
	"fmt"
	"go/ast"
	"go/token"
	"path/filepath"
	"strings"
)

// flatStmts renders the statements of a function body in order, one string per statement; the bodies of
// if statements are inlined between "if <cond> {" and "}" markers.
//
// Normalisations (each preserves the meaning of the statement list):
//   - `a, b = 0, 0` with literal right-hand sides is written as two assignments;
//   - a call `recv.helper()` without arguments to a method of the same receiver type is replaced by the
//     statements of that method (flatMethods is set by the caller);
//   - an early exit `if x == y { return ... }` followed by more statements is written as
//     `if x != y { <the following statements> }` followed by the return.
func flatStmts(body *ast.BlockStmt) []string {
	return flatStmtsOf(body, "", 0)
}

// flatMethods: the methods that may be inlined by flatStmtsOf (receiver type, name)
var flatMethods = map[methodKey]*ast.FuncDecl{}

func flatStmtsOf(body *ast.BlockStmt, recv string, depth int) []string {
	res := []string{}
	var walk func(stmts []ast.Stmt)
	walk = func(stmts []ast.Stmt) {
		for i, s := range stmts {
			switch v := s.(type) {
			case *ast.AssignStmt:
				l, r := []string{}, []string{}
				allLit := len(v.Lhs) == len(v.Rhs) && len(v.Lhs) > 1
				for _, e := range v.Lhs {
					l = append(l, exprString(e))
				}
				for _, e := range v.Rhs {
					r = append(r, exprString(e))
					if _, isLit := e.(*ast.BasicLit); !isLit {
						allLit = false
					}
				}
				if allLit {
					for k := range l {
						res = append(res, l[k]+" = "+r[k])
					}
					continue
				}
				res = append(res, strings.Join(l, ", ")+" = "+strings.Join(r, ", "))
			case *ast.ExprStmt:
				if call, ok := v.X.(*ast.CallExpr); ok && len(call.Args) == 0 && recv != "" && depth < 3 {
					if sel, ok := call.Fun.(*ast.SelectorExpr); ok {
						if _, isIdent := sel.X.(*ast.Ident); isIdent {
							if fd, ok := flatMethods[methodKey{recv, sel.Sel.Name}]; ok && fd.Body != nil && fd.Type.Results == nil {
								res = append(res, flatStmtsOf(fd.Body, recv, depth+1)...)
								continue
							}
						}
					}
				}
				res = append(res, exprString(v.X))
			case *ast.IfStmt:
				if be, ok := v.Cond.(*ast.BinaryExpr); ok && be.Op == token.EQL && v.Else == nil && v.Init == nil &&
					len(v.Body.List) == 1 && i+1 < len(stmts) {
					if ret, ok := v.Body.List[0].(*ast.ReturnStmt); ok {
						res = append(res, "if "+exprString(be.X)+" != "+exprString(be.Y)+" {")
						walk(stmts[i+1:])
						res = append(res, "}")
						r := []string{}
						for _, e := range ret.Results {
							r = append(r, exprString(e))
						}
						res = append(res, "return "+strings.Join(r, ", "))
						return
					}
				}
				res = append(res, "if "+exprString(v.Cond)+" {")
				walk(v.Body.List)
				if v.Else != nil {
					res = append(res, "} else {")
					if eb, ok := v.Else.(*ast.BlockStmt); ok {
						walk(eb.List)
					} else {
						res = append(res, "<else-if>")
					}
				}
				res = append(res, "}")
			case *ast.ReturnStmt:
				r := []string{}
				for _, e := range v.Results {
					r = append(r, exprString(e))
				}
				res = append(res, "return "+strings.Join(r, ", "))
			case *ast.DeclStmt:
				if gd, ok := v.Decl.(*ast.GenDecl); ok {
					for _, sp := range gd.Specs {
						if vs, ok := sp.(*ast.ValueSpec); ok {
							for i, n := range vs.Names {
								val := "<zero>"
								if i < len(vs.Values) {
									val = exprString(vs.Values[i])
								}
								res = append(res, n.Name+" = "+val)
							}
						}
					}
				}
			default:
				res = append(res, fmt.Sprintf("<%T>", s))
			}
		}
	}
	walk(body.List)
	return res
}

type methodKey struct{ recv, name string }

func methodsOf(files map[string]*ast.File) map[methodKey]*ast.FuncDecl {
	res := map[methodKey]*ast.FuncDecl{}
	for _, f := range files {
		for _, d := range f.Decls {
			if fd, ok := d.(*ast.FuncDecl); ok && fd.Body != nil {
				res[methodKey{recvType(fd), fd.Name.Name}] = fd
			}
		}
	}
	return res
}

// Statements are classified by what they DO, not by how the receiver or a field is called, so that renaming a
// variable or a struct field, or swapping independent statements, does not change the facts:
//   calls are recognised by the method called (`<anything>.RestoreSnapshot()`), assignments by the last
//   selector of the left-hand side and the shape of the right-hand side.  Everything else is `.unknown "<text>"`.

func lastSel(e string) string {
	if i := strings.LastIndex(e, "."); i >= 0 {
		return e[i+1:]
	}
	return e
}

func pureRef(e string) bool { // an identifier or a chain of field selectors: no call, no operator
	if e == "" {
		return false
	}
	for _, c := range e {
		if !(c == '.' || c == '_' || c >= '0' && c <= '9' || c >= 'a' && c <= 'z' || c >= 'A' && c <= 'Z') {
			return false
		}
	}
	return true
}

var cpuStateFields = map[string]bool{"A": true, "X": true, "Y": true, "SP": true, "PC": true, "Flags": true, "cycleCount": true}

func classifyReset(st string) string {
	if strings.HasSuffix(st, ".ClearStatistics()") && pureRef(strings.TrimSuffix(st, "()")) {
		return ".clearStats"
	}
	if lr := strings.SplitN(st, " = ", 2); len(lr) == 2 && pureRef(lr[0]) {
		if v, isConst := cpuConsts[lr[1]]; isConst {
			// a named constant of the package: its literal value
			lr[1] = v
		}
		zero := lr[1] == "0" || lr[1] == "0x00" || lr[1] == "0x0000"
		switch lastSel(lr[0]) {
		case "cycleCount":
			if zero {
				return ".zeroCycles"
			}
		case "Flags":
			if zero {
				return ".zeroFlags"
			}
		case "X":
			if zero {
				return ".zeroX"
			}
		case "A":
			if zero {
				return ".zeroA"
			}
		case "Y":
			if zero {
				return ".zeroY"
			}
		case "PC":
			if zero {
				return ".zeroPC"
			}
		case "SP":
			if lr[1] == "0xFF" || lr[1] == "0xff" || lr[1] == "255" {
				return ".spFF"
			}
		}
	}
	return fmt.Sprintf(".unknown %q", st)
}

func classifyProv(st string) string {
	switch {
	case st == "}":
		return ".endIf"
	case strings.HasPrefix(st, "return "):
		return ".ret"
	case strings.HasPrefix(st, "if ") && strings.HasSuffix(st, " != nil {") && pureRef(strings.TrimSuffix(strings.TrimPrefix(st, "if "), " != nil {")):
		return ".ifPlaceholder"
	case strings.HasPrefix(st, "if ") && strings.HasSuffix(st, " != emuconfig.IllegalTrapAddress {") && pureRef(strings.TrimSuffix(strings.TrimPrefix(st, "if "), " != emuconfig.IllegalTrapAddress {")):
		return ".ifTrap"
	case strings.HasSuffix(st, ".RestoreSnapshot()") && pureRef(strings.TrimSuffix(st, "()")):
		return ".restore"
	case strings.HasSuffix(st, ".TakeSnapshot()") && pureRef(strings.TrimSuffix(st, "()")):
		return ".takeSnap"
	case strings.HasSuffix(st, ".Reset()") && pureRef(strings.TrimSuffix(st, "()")):
		return ".reset"
	case strings.HasSuffix(st, ".SetWriteFunc(nil)") && pureRef(strings.TrimSuffix(st, ".SetWriteFunc(nil)")):
		return ".clearHandler"
	}
	if lr := strings.SplitN(st, " = ", 2); len(lr) == 2 && pureRef(lr[0]) && !cpuStateFields[lastSel(lr[0])] {
		// X = helper(...) with a package-local helper that only does placeholder bookkeeping
		if i := strings.Index(lr[1], "("); i > 0 && pureRef(lr[1][:i]) && bookkeepingHelpers[lr[1][:i]] {
			return ".newPlaceholder"
		}
		switch {
		case strings.HasPrefix(lr[1], "memory.NewPlaceholderWrapper("):
			return ".newPlaceholder"
		case lr[1] == "nil" || lr[1] == "<zero>":
			return ".noPlaceholder"
		case lr[1] == "&<composite>" || lr[1] == "<composite>":
			// building the provider object itself
			return ".usePlaceholder"
		case pureRef(lr[1]) && lastSel(lr[0]) == "Mem" && lastSel(lr[1]) == "Wrapper":
			return ".wrapMem"
		case pureRef(lr[1]) && lastSel(lr[0]) != "Mem":
			// pointer bookkeeping: which wrapper object the executor talks to
			return ".usePlaceholder"
		}
	}
	return fmt.Sprintf(".unknown %q", st)
}

// bookkeepingHelpers: functions of package caseexec whose body touches neither the CPU state nor the snapshot, the
// statistics or the trap handler: calling one only arranges which wrapper object is in front of the memory
var bookkeepingHelpers = map[string]bool{}

func collectBookkeepingHelpers(m map[methodKey]*ast.FuncDecl) {
	for k, fd := range m {
		if k.recv != "" || fd.Body == nil {
			continue
		}
		ok := true
		for _, st := range flatStmts(fd.Body) {
			for _, bad := range []string{".Reset(", ".RestoreSnapshot(", ".TakeSnapshot(", ".SetWriteFunc(", ".ClearStatistics(", ".Store(", ".Load("} {
				if strings.Contains(st, bad) {
					ok = false
				}
			}
			if lr := strings.SplitN(st, " = ", 2); len(lr) == 2 && cpuStateFields[lastSel(lr[0])] {
				ok = false
			}
		}
		if ok {
			bookkeepingHelpers[k.name] = true
		}
	}
}

// cpuConsts: package-level constants of package cpu that are initialised with a literal (name -> literal)
var cpuConsts = map[string]string{}

func collectConsts(files map[string]*ast.File, into map[string]string) {
	for _, f := range files {
		for _, d := range f.Decls {
			gd, ok := d.(*ast.GenDecl)
			if !ok || gd.Tok != token.CONST {
				continue
			}
			for _, sp := range gd.Specs {
				if vs, ok := sp.(*ast.ValueSpec); ok {
					for i, n := range vs.Names {
						if i < len(vs.Values) {
							if bl, ok := vs.Values[i].(*ast.BasicLit); ok {
								into[n.Name] = bl.Value
							}
						}
					}
				}
			}
		}
	}
}

func leanSteps(stmts []string, classify func(string) string) string {
	parts := []string{}
	for _, s := range stmts {
		parts = append(parts, classify(s))
	}
	return "[" + strings.Join(parts, ", ") + "]"
}

func doFlow(repo, outDir string) {
	var b strings.Builder
	b.WriteString(header)
	b.WriteString("import Verif.Impl.Provider\nnamespace Verif.Generated\nopen Verif.Impl\n\n")
	ok := true
	cpuFiles := parseDir(filepath.Join(repo, "cpu"))
	collectConsts(cpuFiles, cpuConsts)
	cpuM := methodsOf(cpuFiles)
	ceM := methodsOf(parseDir(filepath.Join(repo, "caseexec")))
	for k, v := range cpuM {
		flatMethods[k] = v
	}
	for k, v := range ceM {
		flatMethods[k] = v
	}
	collectBookkeepingHelpers(ceM)
	if fd, found := cpuM[methodKey{"CPU6502", "Reset"}]; found {
		fmt.Fprintf(&b, "/-- the statements of cpu.CPU6502.Reset, in order -/\ndef resetSteps : List ResetStep := %s\n\n", leanSteps(flatStmtsOf(fd.Body, "CPU6502", 0), classifyReset))
	} else {
		fail("flow", "CPU6502.Reset not found")
		ok = false
	}
	if fd, found := ceM[methodKey{"snapshotCpuProvider", "NewCpu"}]; found {
		fmt.Fprintf(&b, "/-- the statements of caseexec.snapshotCpuProvider.NewCpu, in order -/\ndef snapshotNewCpuSteps : List ProvStep := %s\n\n", leanSteps(flatStmtsOf(fd.Body, "snapshotCpuProvider", 0), classifyProv))
	} else {
		fail("flow", "snapshotCpuProvider.NewCpu not found")
		ok = false
	}
	if fd, found := ceM[methodKey{"", "newSnapshotProvider"}]; found {
		fmt.Fprintf(&b, "/-- the statements of caseexec.newSnapshotProvider, in order -/\ndef newSnapshotProviderSteps : List ProvStep := %s\n\n", leanSteps(flatStmts(fd.Body), classifyProv))
	} else {
		fail("flow", "newSnapshotProvider not found")
		ok = false
	}
	b.WriteString("end Verif.Generated\n")
	if ok {
		writeIfChanged(filepath.Join(outDir, "Flow.lean"), b.String())
	}
}
