package main

import (
	"fmt"
	"go/ast"
	"path/filepath"
	"strings"
)

// flatStmts renders the statements of a function body in order, one string per statement; the bodies of
// if statements are inlined between "if <cond> {" and "}" markers.
func flatStmts(body *ast.BlockStmt) []string {
	res := []string{}
	var walk func(stmts []ast.Stmt)
	walk = func(stmts []ast.Stmt) {
		for _, s := range stmts {
			switch v := s.(type) {
			case *ast.AssignStmt:
				l, r := []string{}, []string{}
				for _, e := range v.Lhs {
					l = append(l, exprString(e))
				}
				for _, e := range v.Rhs {
					r = append(r, exprString(e))
				}
				res = append(res, strings.Join(l, ", ")+" = "+strings.Join(r, ", "))
			case *ast.ExprStmt:
				res = append(res, exprString(v.X))
			case *ast.IfStmt:
				res = append(res, "if "+exprString(v.Cond)+" {")
				walk(v.Body.List)
				if v.Else != nil {
					res = append(res, "} else {")
					if eb, ok := v.Else.(*ast.BlockStmt); ok {
						walk(eb.List)
					} else {
						res = append(res, "<else-if>")
					}
				}
				res = append(res, "}")
			case *ast.ReturnStmt:
				r := []string{}
				for _, e := range v.Results {
					r = append(r, exprString(e))
				}
				res = append(res, "return "+strings.Join(r, ", "))
			case *ast.DeclStmt:
				if gd, ok := v.Decl.(*ast.GenDecl); ok {
					for _, sp := range gd.Specs {
						if vs, ok := sp.(*ast.ValueSpec); ok {
							for i, n := range vs.Names {
								val := "<zero>"
								if i < len(vs.Values) {
									val = exprString(vs.Values[i])
								}
								res = append(res, n.Name+" = "+val)
							}
						}
					}
				}
			default:
				res = append(res, fmt.Sprintf("<%T>", s))
			}
		}
	}
	walk(body.List)
	return res
}

type methodKey struct{ recv, name string }

func methodsOf(files map[string]*ast.File) map[methodKey]*ast.FuncDecl {
	res := map[methodKey]*ast.FuncDecl{}
	for _, f := range files {
		for _, d := range f.Decls {
			if fd, ok := d.(*ast.FuncDecl); ok && fd.Body != nil {
				res[methodKey{recvType(fd), fd.Name.Name}] = fd
			}
		}
	}
	return res
}

// the statements of cpu.Reset and of the snapshot provider, as constructors of Verif.Impl.ResetStep /
// Verif.Impl.ProvStep; anything not in the table becomes `.unknown "<text>"`
var resetTable = map[string]string{
	"c.cycleCount = 0":        ".zeroCycles",
	"c.Flags = 0":             ".zeroFlags",
	"c.X = 0":                 ".zeroX",
	"c.A = 0":                 ".zeroA",
	"c.Y = 0":                 ".zeroY",
	"c.PC = 0":                ".zeroPC",
	"c.SP = 0xFF":             ".spFF",
	"c.Mem.ClearStatistics()": ".clearStats",
}

var provTable = map[string]string{
	"c.cpu.Mem.RestoreSnapshot()":               ".restore",
	"c.cpu.Reset()":                             ".reset",
	"cpu.Reset()":                               ".reset",
	"cpu.Mem.TakeSnapshot()":                    ".takeSnap",
	"c.ce.placeholderWrapper = c.p":             ".usePlaceholder",
	"if c.ce.placeholderWrapper != nil {":       ".ifPlaceholder",
	"c.ce.placeholderWrapper.SetWriteFunc(nil)": ".clearHandler",
	"}":                 ".endIf",
	"return c.cpu, nil": ".ret",
	"placeholder = nil": ".noPlaceholder",
	"if c.trapAddress != emuconfig.IllegalTrapAddress {":                 ".ifTrap",
	"placeholder = memory.NewPlaceholderWrapper(cpu.Mem, c.trapAddress)": ".newPlaceholder",
	"cpu.Mem = placeholder.Wrapper":                                      ".wrapMem",
	"return &<composite>, nil":                                           ".ret",
}

func leanSteps(stmts []string, table map[string]string) string {
	parts := []string{}
	for _, s := range stmts {
		if c, ok := table[s]; ok {
			parts = append(parts, c)
		} else {
			parts = append(parts, ".unknown "+fmt.Sprintf("%q", s))
		}
	}
	return "[" + strings.Join(parts, ", ") + "]"
}

func doFlow(repo, outDir string) {
	var b strings.Builder
	b.WriteString(header)
	b.WriteString("import Verif.Impl.Provider\nnamespace Verif.Generated\nopen Verif.Impl\n\n")
	ok := true
	cpuM := methodsOf(parseDir(filepath.Join(repo, "cpu")))
	ceM := methodsOf(parseDir(filepath.Join(repo, "caseexec")))
	if fd, found := cpuM[methodKey{"CPU6502", "Reset"}]; found {
		fmt.Fprintf(&b, "/-- the statements of cpu.CPU6502.Reset, in order -/\ndef resetSteps : List ResetStep := %s\n\n", leanSteps(flatStmts(fd.Body), resetTable))
	} else {
		fail("flow", "CPU6502.Reset not found")
		ok = false
	}
	if fd, found := ceM[methodKey{"snapshotCpuProvider", "NewCpu"}]; found {
		fmt.Fprintf(&b, "/-- the statements of caseexec.snapshotCpuProvider.NewCpu, in order -/\ndef snapshotNewCpuSteps : List ProvStep := %s\n\n", leanSteps(flatStmts(fd.Body), provTable))
	} else {
		fail("flow", "snapshotCpuProvider.NewCpu not found")
		ok = false
	}
	if fd, found := ceM[methodKey{"", "newSnapshotProvider"}]; found {
		fmt.Fprintf(&b, "/-- the statements of caseexec.newSnapshotProvider, in order -/\ndef newSnapshotProviderSteps : List ProvStep := %s\n\n", leanSteps(flatStmts(fd.Body), provTable))
	} else {
		fail("flow", "newSnapshotProvider not found")
		ok = false
	}
	b.WriteString("end Verif.Generated\n")
	if ok {
		writeIfChanged(filepath.Join(outDir, "Flow.lean"), b.String())
	}
}
