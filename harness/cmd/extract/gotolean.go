// Go -> Lean translator for package cpu (tie 1 for the CPU handlers themselves).
//
// Every function of package cpu whose body uses only the statement and expression forms below
// is translated into a Lean definition in the monad `M = StateT Regs Prog` (Verif/Basic/Prog.lean):
// `c.A = e` becomes `setA e`, `c.Mem.Load(a)` becomes `(← ld a)`, `c.Mem.Store(a, v)` becomes
// `st a v`, locals become `let mut`, `if`/`else`/early `return`/`switch` keep their shape, machine
// integers become bit vectors of the same width with the same conversions.  The result is
// `Generated/CpuCode.lean`; `Verif/Facts/CpuCode.lean` proves, on every run, that each translated
// function IS the corresponding definition of the hand-written model (`Impl`), for all register
// states and all bytes the bus may return.  The property theorems are then restated for the
// translated code.
//
// A function that cannot be translated is listed in facts.json (cpu.code.untranslated); if it was
// translated in the committed baseline the fact is reported as failed and the baseline text of that
// function is kept, exactly like every other fact.
package main

import (
	"fmt"
	"go/ast"
	"go/constant"
	"go/token"
	"go/types"
	"os"
	"path/filepath"
	"sort"
	"strings"
)

type unsupported struct{ msg string }

func bad(format string, a ...interface{}) {
	panic(unsupported{fmt.Sprintf(format, a...)})
}

var leanKeywords = map[string]bool{"in": true, "at": true, "from": true, "fun": true, "let": true, "end": true, "open": true,
	"do": true, "then": true, "else": true, "if": true, "by": true, "have": true, "show": true, "with": true, "match": true,
	"deriving": true, "instance": true, "class": true, "def": true, "theorem": true, "where": true, "structure": true,
	"namespace": true, "section": true, "variable": true, "universe": true, "mut": true, "return": true, "for": true,
	"unless": true, "set": true, "get": true, "ld": true, "st": true, "model": true, "pure": true, "bind": true, "k": true,
	"u8": true, "u16": true, "Type": true, "Prop": true, "Sort": true, "using": true, "example": true, "macro": true,
	"local": true, "private": true, "protected": true, "export": true, "import": true, "axiom": true, "inductive": true,
	"abbrev": true, "opaque": true, "mutual": true, "try": true, "catch": true, "finally": true, "break": true, "continue": true,
	"nomatch": true, "nofun": true, "this": true, "suffices": true, "calc": true, "obtain": true, "omit": true, "include": true}

func leanIdent(s string) string {
	if leanKeywords[s] {
		return s + "_"
	}
	if s == "_" {
		return "_"
	}
	return s
}

type goTr struct {
	info     *types.Info
	cpuType  types.Type // *CPU6502
	fn       string
	cpuVar   types.Object // receiver / parameter holding the cpu
	retIdx   int
	known    map[string]bool // fields of CycleConsts
	monadic  map[string]bool // package functions that take the cpu
	funcs    map[string]*ast.FuncDecl
	calls    map[string]bool
	declared map[types.Object]bool
	results  *types.Tuple
	stepOut  bool // results are (uint64, bool)
	// coprocessor mode (package memory, type F256UnsignedCoproc): the receiver's `mem` field is the bus, its other
	// fields are parameters of the translated function
	coproc bool
}

// ---- types

func (t *goTr) leanType(ty types.Type) string {
	switch u := ty.(type) {
	case *types.Named:
		if u.Obj().Name() == "CpuModel" {
			return "CpuModel"
		}
		return t.leanType(u.Underlying())
	case *types.Basic:
		switch u.Kind() {
		case types.Uint8, types.Int8:
			return "Byte"
		case types.Uint16, types.Int16:
			return "Addr"
		case types.Uint32, types.Int32:
			return "(BitVec 32)"
		case types.Uint64, types.Uint, types.Int, types.Int64, types.UntypedInt:
			return "Nat"
		case types.Bool, types.UntypedBool:
			return "Bool"
		}
	case *types.Pointer:
		// a pointer to a byte register of the cpu (`&c.A`): which register
		if b := basicOf(u.Elem()); b != nil && b.Kind() == types.Uint8 {
			return "RegSel"
		}
	case *types.Signature:
		// function-typed parameter: LogicalOp / ModifierOp
		ps := []string{}
		takesCpu := false
		for i := 0; i < u.Params().Len(); i++ {
			p := u.Params().At(i).Type()
			if types.Identical(p, t.cpuType) {
				takesCpu = true
				continue
			}
			ps = append(ps, t.leanType(p))
		}
		res := "Unit"
		if u.Results().Len() == 1 {
			res = t.leanType(u.Results().At(0).Type())
		} else if u.Results().Len() > 1 {
			parts := []string{}
			for i := 0; i < u.Results().Len(); i++ {
				parts = append(parts, t.leanType(u.Results().At(i).Type()))
			}
			res = "(" + strings.Join(parts, " × ") + ")"
			if len(parts) == 2 && parts[0] == "Nat" && parts[1] == "Bool" && takesCpu {
				res = "StepOutS"
			}
		}
		if takesCpu {
			return "(CpuModel → " + strings.Join(append(ps, "M "+res), " → ") + ")"
		}
		return "(" + strings.Join(append(ps, res), " → ") + ")"
	}
	bad("type %s", ty.String())
	return ""
}

func basicOf(ty types.Type) *types.Basic {
	if ty == nil {
		return nil
	}
	b, _ := ty.Underlying().(*types.Basic)
	return b
}

func width(b *types.Basic) (int, bool) { // width, signed; 0 = Nat
	switch b.Kind() {
	case types.Uint8:
		return 8, false
	case types.Int8:
		return 8, true
	case types.Uint16:
		return 16, false
	case types.Int16:
		return 16, true
	case types.Uint32:
		return 32, false
	case types.Int32:
		return 32, true
	case types.Uint64, types.Uint:
		return 0, false
	}
	return -1, false
}

func (t *goTr) typeOf(e ast.Expr) types.Type {
	tv, ok := t.info.Types[e]
	if !ok || tv.Type == nil {
		bad("no type for %s", exprString(e))
	}
	if b, ok := tv.Type.(*types.Basic); ok && b.Kind() == types.Invalid {
		bad("invalid type for %s", exprString(e))
	}
	return tv.Type
}

// ---- expressions

var flagByValue = map[int64]string{0x80: "flagN", 0x40: "flagV", 0x10: "flagB", 0x08: "flagD", 0x04: "flagI", 0x02: "flagZ", 0x01: "flagC"}

func (t *goTr) constant(e ast.Expr) (string, bool) {
	tv, ok := t.info.Types[e]
	if !ok || tv.Value == nil {
		return "", false
	}
	ty := tv.Type
	if named, ok := ty.(*types.Named); ok && named.Obj().Name() == "CpuModel" {
		v, _ := constant.Int64Val(tv.Value)
		if v == 0 {
			return "CpuModel.m6502", true
		}
		if v == 1 {
			return "CpuModel.m65C02", true
		}
		bad("CpuModel constant %d", v)
	}
	b := basicOf(ty)
	if b == nil {
		return "", false
	}
	switch {
	case b.Info()&types.IsBoolean != 0:
		if constant.BoolVal(tv.Value) {
			return "true", true
		}
		return "false", true
	case b.Info()&types.IsInteger != 0:
		v, exact := constant.Int64Val(tv.Value)
		if !exact {
			bad("constant %s", tv.Value.String())
		}
		// a named flag constant keeps its name (by value, so renaming the Go constant changes nothing)
		if id, ok := e.(*ast.Ident); ok && strings.HasPrefix(id.Name, "Flag_") && b.Kind() == types.Uint8 {
			if n, ok := flagByValue[v]; ok {
				return n, true
			}
		}
		if b.Kind() == types.UntypedInt {
			return fmt.Sprintf("%d", v), true
		}
		w, _ := width(b)
		if w < 0 {
			bad("constant of type %s", b.String())
		}
		if w == 0 {
			return fmt.Sprintf("%d", v), true
		}
		if v < 0 {
			v += int64(1) << uint(w)
		}
		return fmt.Sprintf("(%d : BitVec %d)", v, w), true
	}
	return "", false
}

func (t *goTr) isCpu(e ast.Expr) bool {
	id, ok := e.(*ast.Ident)
	return ok && t.cpuVar != nil && t.info.Uses[id] == t.cpuVar
}

var regField = map[string]string{"PC": "pc", "SP": "sp", "A": "a", "X": "x", "Y": "y", "Flags": "p"}
var regSetter = map[string]string{"PC": "setPC", "SP": "setSP", "A": "setA", "X": "setX", "Y": "setY", "Flags": "setP"}

// is e `c.Mem`?
func (t *goTr) isMem(e ast.Expr) bool {
	s, ok := e.(*ast.SelectorExpr)
	if ok && t.coproc {
		return s.Sel.Name == "mem" && t.isCpu(s.X)
	}
	return ok && s.Sel.Name == "Mem" && t.isCpu(s.X)
}

func hasEffect(t *goTr, e ast.Expr) bool {
	found := false
	ast.Inspect(e, func(n ast.Node) bool {
		if c, ok := n.(*ast.CallExpr); ok {
			if tv, ok := t.info.Types[c.Fun]; ok && tv.IsType() {
				return true
			}
			found = true
		}
		return true
	})
	return found
}

func (t *goTr) expr(e ast.Expr) string {
	// constants are folded at the leaves only, so that `^Flag_C` stays `~~~flagC` and `bit ^ 0xFF` keeps its shape
	switch e.(type) {
	case *ast.BasicLit, *ast.Ident, *ast.SelectorExpr:
		if s, ok := t.constant(e); ok {
			return s
		}
	}
	switch v := e.(type) {
	case *ast.ParenExpr:
		return t.expr(v.X)
	case *ast.Ident:
		obj := t.info.Uses[v]
		if obj == nil {
			bad("identifier %s", v.Name)
		}
		switch o := obj.(type) {
		case *types.Var:
			if o.Parent() == o.Pkg().Scope() {
				bad("package variable %s", v.Name)
			}
			return leanIdent(v.Name)
		case *types.Func:
			if _, ok := t.funcs[v.Name]; !ok {
				bad("unknown function %s", v.Name)
			}
			t.calls[v.Name] = true
			return v.Name // function value (Xor, Rol, ...)
		}
		bad("identifier %s", v.Name)
	case *ast.SelectorExpr:
		// method expression (*CPU6502).name used as a function value
		if p, ok := v.X.(*ast.ParenExpr); ok {
			if st, ok := p.X.(*ast.StarExpr); ok {
				if tv, ok := t.info.Types[st.X]; ok && tv.IsType() && types.Identical(types.NewPointer(tv.Type), t.cpuType) {
					if _, ok := t.funcs[v.Sel.Name]; !ok {
						bad("unknown method %s", v.Sel.Name)
					}
					t.calls[v.Sel.Name] = true
					return v.Sel.Name
				}
			}
		}
		if t.isCpu(v.X) && t.coproc {
			if b := basicOf(t.typeOf(v)); b != nil {
				return leanIdent(v.Sel.Name)
			}
			bad("selector %s", exprString(e))
		}
		if t.isCpu(v.X) {
			if f, ok := regField[v.Sel.Name]; ok {
				return "(← get)." + f
			}
			if v.Sel.Name == "model" {
				return "model"
			}
		}
		bad("selector %s", exprString(e))
	case *ast.StarExpr:
		// *register, register a parameter pointing at a byte register
		if id, ok := v.X.(*ast.Ident); ok {
			if _, isPtr := t.typeOf(id).(*types.Pointer); isPtr {
				return "(← getReg " + leanIdent(id.Name) + ")"
			}
		}
		bad("dereference %s", exprString(e))
	case *ast.UnaryExpr:
		if v.Op == token.AND {
			if sel, ok := v.X.(*ast.SelectorExpr); ok && t.isCpu(sel.X) {
				switch sel.Sel.Name {
				case "A":
					return "RegSel.a"
				case "X":
					return "RegSel.x"
				case "Y":
					return "RegSel.y"
				case "SP":
					return "RegSel.sp"
				case "Flags":
					return "RegSel.p"
				}
			}
			bad("address of %s", exprString(v.X))
		}
		x := t.expr(v.X)
		switch v.Op {
		case token.XOR:
			return "(~~~" + x + ")"
		case token.NOT:
			return "(!" + x + ")"
		case token.SUB:
			return "(-" + x + ")"
		}
		bad("unary %s", v.Op)
	case *ast.BinaryExpr:
		return t.binary(v)
	case *ast.CallExpr:
		return t.call(v, true)
	}
	bad("expression %s", exprString(e))
	return ""
}

// a function that only reads registers (no bus access, no assignment to the cpu, no panic, only calls of such
// functions): evaluating it early or not at all makes no difference, so `a && f()` may be written `a && (← f)`
func (t *goTr) readOnly(name string, seen map[string]bool) bool {
	fd, ok := t.funcs[name]
	if !ok || seen[name] {
		return false
	}
	seen[name] = true
	ro := true
	ast.Inspect(fd.Body, func(n ast.Node) bool {
		switch v := n.(type) {
		case *ast.AssignStmt:
			for _, l := range v.Lhs {
				if _, isSel := l.(*ast.SelectorExpr); isSel {
					ro = false
				}
			}
		case *ast.IncDecStmt:
			if _, isSel := v.X.(*ast.SelectorExpr); isSel {
				ro = false
			}
		case *ast.CallExpr:
			if tv, ok := t.info.Types[v.Fun]; ok && tv.IsType() {
				return true
			}
			switch f := v.Fun.(type) {
			case *ast.SelectorExpr:
				if _, isCallee := t.funcs[f.Sel.Name]; isCallee && !strings.Contains(exprString(f.X), ".") {
					if !t.readOnly(f.Sel.Name, seen) {
						ro = false
					}
				} else {
					ro = false // c.Mem.Load / Store or something unknown
				}
			case *ast.Ident:
				if _, isCallee := t.funcs[f.Name]; isCallee {
					if !t.readOnly(f.Name, seen) {
						ro = false
					}
				} else {
					ro = false
				}
			default:
				ro = false
			}
		}
		return true
	})
	return ro
}

func (t *goTr) onlyReadOnlyCalls(e ast.Expr) bool {
	ok := true
	ast.Inspect(e, func(n ast.Node) bool {
		c, isCall := n.(*ast.CallExpr)
		if !isCall {
			return true
		}
		if tv, has := t.info.Types[c.Fun]; has && tv.IsType() {
			return true
		}
		name := ""
		switch f := c.Fun.(type) {
		case *ast.SelectorExpr:
			if t.isCpu(f.X) {
				name = f.Sel.Name
			}
		case *ast.Ident:
			name = f.Name
		}
		if name == "" || !t.readOnly(name, map[string]bool{}) {
			ok = false
		}
		return true
	})
	return ok
}

func (t *goTr) binary(v *ast.BinaryExpr) string {
	if (v.Op == token.LAND || v.Op == token.LOR) && hasEffect(t, v.Y) && !t.onlyReadOnlyCalls(v.Y) {
		bad("short-circuit operator with a call on the right")
	}
	x, y := t.expr(v.X), t.expr(v.Y)
	xt := t.typeOf(v.X)
	b := basicOf(xt)
	signed := false
	if b != nil {
		_, signed = width(b)
	}
	switch v.Op {
	case token.ADD:
		return "(" + x + " + " + y + ")"
	case token.SUB:
		return "(" + x + " - " + y + ")"
	case token.MUL:
		return "(" + x + " * " + y + ")"
	case token.QUO:
		if signed {
			bad("signed division")
		}
		return "(" + x + " / " + y + ")"
	case token.REM:
		if signed {
			bad("signed remainder")
		}
		return "(" + x + " % " + y + ")"
	case token.AND:
		return "(" + x + " &&& " + y + ")"
	case token.OR:
		return "(" + x + " ||| " + y + ")"
	case token.XOR:
		return "(" + x + " ^^^ " + y + ")"
	case token.AND_NOT:
		return "(" + x + " &&& ~~~" + y + ")"
	case token.SHL, token.SHR:
		tv := t.info.Types[v.Y]
		if tv.Value == nil {
			bad("shift by a variable")
		}
		n, _ := constant.Int64Val(tv.Value)
		if v.Op == token.SHL {
			return fmt.Sprintf("(%s <<< %d)", x, n)
		}
		if signed {
			bad("signed right shift")
		}
		return fmt.Sprintf("(%s >>> %d)", x, n)
	case token.EQL:
		return "(" + x + " == " + y + ")"
	case token.NEQ:
		return "(" + x + " != " + y + ")"
	case token.LSS, token.LEQ, token.GTR, token.GEQ:
		if signed {
			switch v.Op {
			case token.LSS:
				return "(BitVec.slt " + x + " " + y + ")"
			case token.LEQ:
				return "(BitVec.sle " + x + " " + y + ")"
			case token.GTR:
				return "(BitVec.slt " + y + " " + x + ")"
			default:
				return "(BitVec.sle " + y + " " + x + ")"
			}
		}
		op := map[token.Token]string{token.LSS: "<", token.LEQ: "≤", token.GTR: ">", token.GEQ: "≥"}[v.Op]
		return "(decide (" + x + " " + op + " " + y + "))"
	case token.LAND:
		return "(" + x + " && " + y + ")"
	case token.LOR:
		return "(" + x + " || " + y + ")"
	}
	bad("operator %s", v.Op)
	return ""
}

func (t *goTr) conversion(to types.Type, arg ast.Expr) string {
	x := t.expr(arg)
	from := t.typeOf(arg)
	fb, tb := basicOf(from), basicOf(to)
	if fb == nil || tb == nil {
		bad("conversion %s -> %s", from, to)
	}
	if fb.Kind() == types.UntypedInt {
		return x
	}
	fw, fs := width(fb)
	tw, _ := width(tb)
	if fw < 0 || tw < 0 {
		bad("conversion %s -> %s", from, to)
	}
	switch {
	case fw == tw:
		return x
	case fw == 0 || tw == 0:
		if tw == 0 && !fs {
			return "(BitVec.toNat " + x + ")"
		}
		if fw == 0 {
			return fmt.Sprintf("(BitVec.ofNat %d %s)", tw, x)
		}
		bad("conversion %s -> %s", from, to)
	case tw > fw:
		if fs {
			return fmt.Sprintf("(BitVec.signExtend %d %s)", tw, x)
		}
		if fw == 8 && tw == 16 {
			return "(u16 " + x + ")"
		}
		return fmt.Sprintf("(BitVec.zeroExtend %d %s)", tw, x)
	default:
		if fw == 16 && tw == 8 {
			return "(u8 " + x + ")"
		}
		return fmt.Sprintf("(BitVec.truncate %d %s)", tw, x)
	}
	return ""
}

// call: value = the call is used as an expression (result needed)
func (t *goTr) call(c *ast.CallExpr, value bool) string {
	if tv, ok := t.info.Types[c.Fun]; ok && tv.IsType() {
		if len(c.Args) != 1 {
			bad("conversion with %d arguments", len(c.Args))
		}
		return t.conversion(tv.Type, c.Args[0])
	}
	// c.Mem.Load / c.Mem.Store
	if s, ok := c.Fun.(*ast.SelectorExpr); ok && t.isMem(s.X) {
		switch s.Sel.Name {
		case "Load":
			return "(← ld " + t.expr(c.Args[0]) + ")"
		case "Store":
			return "st " + t.expr(c.Args[0]) + " " + t.expr(c.Args[1])
		}
		bad("memory method %s", s.Sel.Name)
	}
	args := []string{}
	name := ""
	takesCpu := false
	switch f := c.Fun.(type) {
	case *ast.SelectorExpr:
		if !t.isCpu(f.X) {
			bad("call %s", exprString(c))
		}
		name = f.Sel.Name
		takesCpu = true
		if _, ok := t.funcs[name]; !ok {
			bad("unknown method %s", name)
		}
		t.calls[name] = true
	case *ast.Ident:
		obj := t.info.Uses[f]
		switch o := obj.(type) {
		case *types.Func:
			name = f.Name
			if _, ok := t.funcs[name]; !ok {
				bad("unknown function %s", name)
			}
			t.calls[name] = true
		case *types.Var:
			name = leanIdent(f.Name) // function-typed parameter
			_ = o
		case *types.Builtin:
			if f.Name == "panic" {
				return "failM .bcd"
			}
			bad("builtin %s", f.Name)
		default:
			bad("call %s", exprString(c))
		}
	default:
		bad("call %s", exprString(c))
	}
	for _, a := range c.Args {
		if t.isCpu(a) {
			takesCpu = true
			continue
		}
		args = append(args, t.expr(a))
	}
	s := name
	if takesCpu {
		s += " model"
	}
	if len(args) > 0 {
		s += " " + strings.Join(args, " ")
	}
	if takesCpu {
		if value {
			return "(← " + s + ")"
		}
		return s
	}
	if !value {
		bad("pure call %s used as a statement", name)
	}
	return "(" + s + ")"
}

// ---- statements

type emitter struct {
	b      strings.Builder
	indent int
}

func (e *emitter) line(s string) {
	e.b.WriteString(strings.Repeat("  ", e.indent) + s + "\n")
}

func (t *goTr) assignTo(lhs ast.Expr, rhs string, define bool, em *emitter, ty types.Type) {
	switch l := lhs.(type) {
	case *ast.Ident:
		if l.Name == "_" {
			em.line("let _ := " + rhs)
			return
		}
		obj := t.info.Defs[l]
		if obj == nil {
			obj = t.info.Uses[l]
		}
		if define && t.info.Defs[l] != nil && !t.declared[obj] {
			t.declared[obj] = true
			em.line("let mut " + leanIdent(l.Name) + " : " + t.leanType(obj.Type()) + " := " + rhs)
			return
		}
		if v, ok := obj.(*types.Var); !ok || v.Parent() == v.Pkg().Scope() {
			bad("assignment to %s", l.Name)
		}
		em.line(leanIdent(l.Name) + " := " + rhs)
	case *ast.SelectorExpr:
		if t.isCpu(l.X) {
			if s, ok := regSetter[l.Sel.Name]; ok {
				em.line(s + " " + rhs)
				return
			}
		}
		bad("assignment to %s", exprString(lhs))
	case *ast.StarExpr:
		if id, ok := l.X.(*ast.Ident); ok {
			if _, isPtr := t.typeOf(id).(*types.Pointer); isPtr {
				em.line("setReg " + leanIdent(id.Name) + " " + rhs)
				return
			}
		}
		bad("assignment to %s", exprString(lhs))
	default:
		bad("assignment to %s", exprString(lhs))
	}
}

var compound = map[token.Token]token.Token{token.ADD_ASSIGN: token.ADD, token.SUB_ASSIGN: token.SUB, token.OR_ASSIGN: token.OR,
	token.AND_ASSIGN: token.AND, token.XOR_ASSIGN: token.XOR, token.AND_NOT_ASSIGN: token.AND_NOT, token.MUL_ASSIGN: token.MUL,
	token.SHL_ASSIGN: token.SHL, token.SHR_ASSIGN: token.SHR}

func (t *goTr) stmts(list []ast.Stmt, em *emitter) {
	for _, s := range list {
		t.stmt(s, em)
	}
}

func (t *goTr) block(list []ast.Stmt, em *emitter) {
	em.indent++
	n := em.b.Len()
	t.stmts(list, em)
	if em.b.Len() == n {
		em.line("pure ()")
	}
	em.indent--
}

func (t *goTr) stmt(s ast.Stmt, em *emitter) {
	switch v := s.(type) {
	case *ast.EmptyStmt:
	case *ast.BlockStmt:
		t.stmts(v.List, em)
	case *ast.ExprStmt:
		c, ok := v.X.(*ast.CallExpr)
		if !ok {
			bad("expression statement")
		}
		str := t.call(c, false)
		// a helper whose result is dropped
		if sig, ok := t.info.Types[c.Fun].Type.(*types.Signature); ok && sig.Results().Len() > 0 {
			em.line("let _ ← " + str)
		} else {
			em.line(str)
		}
	case *ast.IncDecStmt:
		op := " + "
		if v.Tok == token.DEC {
			op = " - "
		}
		if sel, ok := v.X.(*ast.SelectorExpr); ok && t.isCpu(sel.X) && sel.Sel.Name == "PC" && v.Tok == token.INC {
			em.line("incPC")
			return
		}
		t.assignTo(v.X, "("+t.expr(v.X)+op+"1)", false, em, nil)
	case *ast.DeclStmt:
		gd, ok := v.Decl.(*ast.GenDecl)
		if !ok || gd.Tok != token.VAR {
			bad("declaration")
		}
		for _, sp := range gd.Specs {
			vs := sp.(*ast.ValueSpec)
			for i, n := range vs.Names {
				obj := t.info.Defs[n]
				ty := t.leanType(obj.Type())
				val := ""
				if i < len(vs.Values) {
					val = t.expr(vs.Values[i])
				} else if len(vs.Values) == 0 {
					if ty == "Bool" {
						val = "false"
					} else {
						val = "0"
					}
				} else {
					bad("var declaration with a tuple value")
				}
				t.declared[obj] = true
				em.line("let mut " + leanIdent(n.Name) + " : " + ty + " := " + val)
			}
		}
	case *ast.AssignStmt:
		if op, ok := compound[v.Tok]; ok {
			if len(v.Lhs) != 1 {
				bad("compound assignment")
			}
			be := &ast.BinaryExpr{X: v.Lhs[0], Op: op, Y: v.Rhs[0]}
			// types of the synthetic node: take them from the left operand
			t.info.Types[be] = t.info.Types[v.Lhs[0]]
			t.assignTo(v.Lhs[0], t.binary(be), false, em, nil)
			return
		}
		define := v.Tok == token.DEFINE
		if len(v.Lhs) == len(v.Rhs) {
			if len(v.Lhs) > 1 {
				// parallel assignment: evaluate all right sides first
				tmp := []string{}
				for i, r := range v.Rhs {
					n := fmt.Sprintf("tmp%d_", i)
					em.line("let " + n + " := " + t.expr(r))
					tmp = append(tmp, n)
				}
				for i, l := range v.Lhs {
					t.assignTo(l, tmp[i], define, em, nil)
				}
				return
			}
			t.assignTo(v.Lhs[0], t.expr(v.Rhs[0]), define, em, nil)
			return
		}
		if len(v.Rhs) != 1 {
			bad("assignment shape")
		}
		c, ok := v.Rhs[0].(*ast.CallExpr)
		if !ok {
			bad("tuple assignment from a non-call")
		}
		str := t.call(c, false)
		names := []string{}
		allNew := true
		for _, l := range v.Lhs {
			id, ok := l.(*ast.Ident)
			if !ok {
				bad("tuple assignment to a non-identifier")
			}
			if id.Name != "_" {
				obj := t.info.Defs[id]
				if obj == nil || t.declared[obj] {
					allNew = false
				}
			}
			names = append(names, leanIdent(id.Name))
		}
		pat := "(" + strings.Join(names, ", ") + ")"
		if define && allNew {
			for _, l := range v.Lhs {
				if id := l.(*ast.Ident); id.Name != "_" {
					t.declared[t.info.Defs[id]] = true
				}
			}
			em.line("let mut " + pat + " ← " + str)
			return
		}
		// some variables exist already: go through temporaries
		tmps := []string{}
		for i := range names {
			tmps = append(tmps, fmt.Sprintf("tmp%d_", i))
		}
		em.line("let (" + strings.Join(tmps, ", ") + ") ← " + str)
		for i, l := range v.Lhs {
			if l.(*ast.Ident).Name == "_" {
				continue
			}
			t.assignTo(l, tmps[i], define, em, nil)
		}
	case *ast.IfStmt:
		if v.Init != nil {
			t.stmt(v.Init, em)
		}
		em.line("if " + t.expr(v.Cond) + " then")
		t.block(v.Body.List, em)
		for v.Else != nil {
			switch e := v.Else.(type) {
			case *ast.BlockStmt:
				em.line("else")
				t.block(e.List, em)
				v = &ast.IfStmt{}
			case *ast.IfStmt:
				if e.Init != nil {
					bad("else-if with an init statement")
				}
				em.line("else if " + t.expr(e.Cond) + " then")
				t.block(e.Body.List, em)
				v = e
			}
		}
	case *ast.SwitchStmt:
		if v.Init != nil {
			t.stmt(v.Init, em)
		}
		tag := ""
		if v.Tag != nil {
			if hasEffect(t, v.Tag) {
				bad("switch on a call")
			}
			tag = t.expr(v.Tag)
		}
		first := true
		var def *ast.CaseClause
		for _, cs := range v.Body.List {
			cc := cs.(*ast.CaseClause)
			for _, st := range cc.Body {
				if br, ok := st.(*ast.BranchStmt); ok {
					_ = br
					bad("break/fallthrough in a switch")
				}
			}
			if cc.List == nil {
				def = cc
				continue
			}
			conds := []string{}
			for _, ce := range cc.List {
				if tag != "" {
					conds = append(conds, "("+tag+" == "+t.expr(ce)+")")
				} else {
					conds = append(conds, t.expr(ce))
				}
			}
			kw := "else if "
			if first {
				kw = "if "
				first = false
			}
			em.line(kw + strings.Join(conds, " || ") + " then")
			t.block(cc.Body, em)
		}
		if def != nil {
			if first {
				t.stmts(def.Body, em)
			} else {
				em.line("else")
				t.block(def.Body, em)
			}
		}
	case *ast.ForStmt:
		t.unroll(v, em)
	case *ast.ReturnStmt:
		t.ret(v, em)
	default:
		bad("statement %T", s)
	}
}

// unroll: `for i = c0; i < c1; i++ { body }` with constant bounds (at most 16 rounds) and a body that does not
// assign to i: the body, once per value of i
func (t *goTr) unroll(v *ast.ForStmt, em *emitter) {
	init, ok := v.Init.(*ast.AssignStmt)
	if !ok || len(init.Lhs) != 1 || len(init.Rhs) != 1 {
		bad("for loop")
	}
	id, ok := init.Lhs[0].(*ast.Ident)
	if !ok {
		bad("for loop variable")
	}
	obj := t.info.Uses[id]
	if obj == nil {
		obj = t.info.Defs[id]
	}
	lo, ok1 := t.info.Types[init.Rhs[0]]
	cond, ok2 := v.Cond.(*ast.BinaryExpr)
	post, ok3 := v.Post.(*ast.IncDecStmt)
	if !ok1 || lo.Value == nil || !ok2 || !ok3 || cond.Op != token.LSS || post.Tok != token.INC {
		bad("for loop shape")
	}
	ci, okc := cond.X.(*ast.Ident)
	pi, okp := post.X.(*ast.Ident)
	hi := t.info.Types[cond.Y]
	if !okc || !okp || t.info.Uses[ci] != obj || t.info.Uses[pi] != obj || hi.Value == nil {
		bad("for loop shape")
	}
	if assignsTo(t.info, v.Body, obj) {
		bad("for loop body assigns the loop variable")
	}
	a, _ := constant.Int64Val(lo.Value)
	b, _ := constant.Int64Val(hi.Value)
	if b-a > 16 || b < a {
		bad("for loop with %d rounds", b-a)
	}
	ty := t.leanType(obj.Type())
	for k := a; k < b; k++ {
		lit := fmt.Sprintf("%d", k)
		if ty != "Nat" {
			lit = fmt.Sprintf("(%d : %s)", k, ty)
		}
		if init.Tok == token.DEFINE && !t.declared[obj] {
			t.declared[obj] = true
			em.line("let mut " + leanIdent(id.Name) + " : " + ty + " := " + lit)
		} else {
			em.line(leanIdent(id.Name) + " := " + lit)
		}
		t.stmts(v.Body.List, em)
	}
	em.line(leanIdent(id.Name) + " := " + func() string {
		if ty != "Nat" {
			return fmt.Sprintf("(%d : %s)", b, ty)
		}
		return fmt.Sprintf("%d", b)
	}())
}

func (t *goTr) ret(v *ast.ReturnStmt, em *emitter) {
	idx := t.retIdx
	t.retIdx++
	n := t.results.Len()
	if len(v.Results) == 0 {
		if n != 0 {
			bad("naked return")
		}
		em.line("return ()")
		return
	}
	if len(v.Results) == 1 && n > 1 {
		c, ok := v.Results[0].(*ast.CallExpr)
		if !ok {
			bad("return of a tuple expression")
		}
		t.retIdx-- // a delegation is not a literal return (cpuReturns does not number it either)
		em.line("return " + t.call(c, true))
		return
	}
	if t.stepOut {
		lit, extras, ok := splitSum(v.Results[0])
		field := fmt.Sprintf("%s_%d", t.fn, idx)
		cyc := ""
		if ok && t.known[field] {
			_ = lit
			cyc = "k." + field
			for _, x := range extras {
				cyc += " + " + leanIdent(x)
			}
			cyc = "fun k => " + cyc
		} else {
			// `<literal> + f(...)`: the literal stays symbolic where the model names it; whatever is added is computed
			// first (a call cannot be evaluated below the binder of the cycle function)
			ce := t.expr(v.Results[0])
			if strings.Contains(ce, "←") {
				if be, isAdd := v.Results[0].(*ast.BinaryExpr); isAdd && be.Op == token.ADD && t.known[field] {
					if _, isLit := intLit(be.X); isLit {
						em.line("let cyc_ : Nat := " + t.expr(be.Y))
						cyc = "fun k => k." + field + " + cyc_"
					}
				}
				if cyc == "" {
					em.line("let cyc_ : Nat := " + ce)
					cyc = "fun _ => cyc_"
				}
			} else {
				cyc = "fun _ => " + ce
			}
		}
		em.line("return ⟨" + cyc + ", " + t.expr(v.Results[1]) + "⟩")
		return
	}
	parts := []string{}
	for _, r := range v.Results {
		parts = append(parts, t.expr(r))
	}
	if len(parts) == 1 {
		em.line("return " + parts[0])
	} else {
		em.line("return (" + strings.Join(parts, ", ") + ")")
	}
}

// ---- functions

type leanFn struct {
	name  string
	text  string
	calls []string
}

func (t *goTr) function(fd *ast.FuncDecl) (res leanFn, err error) {
	defer func() {
		if r := recover(); r != nil {
			if u, ok := r.(unsupported); ok {
				err = fmt.Errorf("%s", u.msg)
				return
			}
			panic(r)
		}
	}()
	t.fn = fd.Name.Name
	t.retIdx = 0
	t.calls = map[string]bool{}
	t.declared = map[types.Object]bool{}
	t.cpuVar = nil
	obj := t.info.Defs[fd.Name].(*types.Func)
	sig := obj.Type().(*types.Signature)
	t.results = sig.Results()
	params := []string{}
	if sig.Recv() != nil {
		if !types.Identical(sig.Recv().Type(), t.cpuType) {
			bad("receiver %s", sig.Recv().Type())
		}
		t.cpuVar = sig.Recv()
		if t.coproc {
			// the receiver's scalar fields are parameters
			if st, ok := sig.Recv().Type().(*types.Pointer).Elem().Underlying().(*types.Struct); ok {
				for i := 0; i < st.NumFields(); i++ {
					if b := basicOf(st.Field(i).Type()); b != nil {
						params = append(params, "("+leanIdent(st.Field(i).Name())+" : "+t.leanType(st.Field(i).Type())+")")
					}
				}
			}
		}
	}
	for i := 0; i < sig.Params().Len(); i++ {
		p := sig.Params().At(i)
		if types.Identical(p.Type(), t.cpuType) {
			if t.cpuVar != nil {
				bad("two cpu parameters")
			}
			t.cpuVar = p
			continue
		}
		t.declared[p] = true
		params = append(params, "("+leanIdent(p.Name())+" : "+t.leanType(p.Type())+")")
	}
	// named results are locals
	for i := 0; i < sig.Results().Len(); i++ {
		if sig.Results().At(i).Name() != "" {
			bad("named results")
		}
	}
	rt := "Unit"
	t.stepOut = false
	switch sig.Results().Len() {
	case 0:
	case 1:
		rt = t.leanType(sig.Results().At(0).Type())
	default:
		parts := []string{}
		for i := 0; i < sig.Results().Len(); i++ {
			parts = append(parts, t.leanType(sig.Results().At(i).Type()))
		}
		rt = "(" + strings.Join(parts, " × ") + ")"
		if len(parts) == 2 && parts[0] == "Nat" && parts[1] == "Bool" && t.cpuVar != nil {
			rt = "StepOutS"
			t.stepOut = true
		}
	}
	em := &emitter{indent: 1}
	if t.cpuVar == nil {
		// pure function: a single return statement
		if len(fd.Body.List) != 1 {
			bad("pure function with more than one statement")
		}
		r, ok := fd.Body.List[0].(*ast.ReturnStmt)
		if !ok || len(r.Results) != 1 {
			bad("pure function body")
		}
		if hasEffect(t, r.Results[0]) {
			bad("pure function calling something")
		}
		res.text = fmt.Sprintf("def %s %s : %s :=\n  %s\n", fd.Name.Name, strings.Join(params, " "), rt, t.expr(r.Results[0]))
	} else {
		// mutable parameters: Go parameters may be assigned to
		for i := 0; i < sig.Params().Len(); i++ {
			p := sig.Params().At(i)
			if p == t.cpuVar {
				continue
			}
			if _, isFn := p.Type().Underlying().(*types.Signature); isFn {
				continue
			}
			if assignsTo(t.info, fd.Body, p) {
				em.line("let mut " + leanIdent(p.Name()) + " := " + leanIdent(p.Name()))
			}
		}
		t.stmts(fd.Body.List, em)
		if sig.Results().Len() == 0 {
			em.line("return ()")
		}
		if t.coproc {
			res.text = fmt.Sprintf("def %s %s : M %s := do\n%s", fd.Name.Name, strings.Join(params, " "), rt, em.b.String())
		} else {
			res.text = fmt.Sprintf("def %s (model : CpuModel) %s : M %s := do\n%s", fd.Name.Name, strings.Join(params, " "), rt, em.b.String())
		}
	}
	res.name = fd.Name.Name
	for c := range t.calls {
		res.calls = append(res.calls, c)
	}
	sort.Strings(res.calls)
	return res, nil
}

func assignsTo(info *types.Info, body ast.Node, obj types.Object) bool {
	found := false
	ast.Inspect(body, func(n ast.Node) bool {
		switch v := n.(type) {
		case *ast.AssignStmt:
			for _, l := range v.Lhs {
				if id, ok := l.(*ast.Ident); ok && info.Uses[id] == obj {
					found = true
				}
			}
		case *ast.IncDecStmt:
			if id, ok := v.X.(*ast.Ident); ok && info.Uses[id] == obj {
				found = true
			}
		}
		return true
	})
	return found
}

// ---- driver

type fakeImporter struct{ cache map[string]*types.Package }

func (fi *fakeImporter) Import(path string) (*types.Package, error) {
	if p, ok := fi.cache[path]; ok {
		return p, nil
	}
	name := path[strings.LastIndex(path, "/")+1:]
	p := types.NewPackage(path, name)
	if name == "memory" {
		u8, u16 := types.Typ[types.Uint8], types.Typ[types.Uint16]
		mk := func(n string, params []types.Type, results []types.Type) *types.Func {
			ps := []*types.Var{}
			for i, t := range params {
				ps = append(ps, types.NewVar(token.NoPos, p, fmt.Sprintf("a%d", i), t))
			}
			rs := []*types.Var{}
			for _, t := range results {
				rs = append(rs, types.NewVar(token.NoPos, p, "", t))
			}
			return types.NewFunc(token.NoPos, p, n, types.NewSignatureType(nil, nil, nil, types.NewTuple(ps...), types.NewTuple(rs...), false))
		}
		iface := types.NewInterfaceType([]*types.Func{
			mk("Load", []types.Type{u16}, []types.Type{u8}),
			mk("Store", []types.Type{u16, u8}, nil),
			mk("ClearStatistics", nil, nil),
		}, nil)
		iface.Complete()
		tn := types.NewTypeName(token.NoPos, p, "Memory", nil)
		types.NewNamed(tn, iface, nil)
		p.Scope().Insert(tn)
	}
	p.MarkComplete()
	fi.cache[path] = p
	return p, nil
}

// functions of package cpu that are not part of the instruction semantics (constructor, loader, run loop,
// accessors): never translated, never expected
var cpuNotCode = map[string]bool{"New6502": true, "Reset": true, "NumCycles": true, "Init": true, "LoadAndRun": true, "Load": true,
	"CopyToMem": true, "CopyFromMem": true, "CopyAndRun": true, "Run": true, "RunExt": true, "executeInstruction": true}

func loadBaselineCode(outDir string) map[string]string {
	res := map[string]string{}
	data, err := os.ReadFile(filepath.Join(outDir, "..", "..", "baseline", "Generated", "CpuCode.lean"))
	if err != nil {
		return res
	}
	parts := strings.Split(string(data), "\n-- func ")
	for _, p := range parts[1:] {
		nl := strings.Index(p, "\n")
		name := strings.TrimSpace(p[:nl])
		body := p[nl+1:]
		if i := strings.Index(body, "\n-- end func"); i >= 0 {
			body = body[:i+1]
		}
		res[name] = body
	}
	return res
}

func doCpuCode(repo, outDir string) {
	files := parseDir(filepath.Join(repo, "cpu"))
	if len(files) == 0 {
		fail("cpu.code", "no source files")
		return
	}
	names := []string{}
	for n := range files {
		names = append(names, n)
	}
	sort.Strings(names)
	list := []*ast.File{}
	for _, n := range names {
		list = append(list, files[n])
	}
	info := &types.Info{Types: map[ast.Expr]types.TypeAndValue{}, Defs: map[*ast.Ident]types.Object{}, Uses: map[*ast.Ident]types.Object{}}
	typeErrs := []types.Error{}
	conf := types.Config{Importer: &fakeImporter{cache: map[string]*types.Package{}}, Error: func(err error) {
		if te, ok := err.(types.Error); ok {
			typeErrs = append(typeErrs, te)
		}
	}}
	pkg, _ := conf.Check("6502profiler/cpu", fs, list, info)
	if pkg == nil {
		fail("cpu.code", "type check failed")
		return
	}
	cpuObj := pkg.Scope().Lookup("CPU6502")
	if cpuObj == nil {
		fail("cpu.code", "type CPU6502 not found")
		return
	}
	t := &goTr{info: info, cpuType: types.NewPointer(cpuObj.Type()), known: loadKnownConsts(outDir), funcs: map[string]*ast.FuncDecl{}}
	decls := []*ast.FuncDecl{}
	for _, f := range list {
		for _, d := range f.Decls {
			if fd, ok := d.(*ast.FuncDecl); ok && fd.Body != nil {
				t.funcs[fd.Name.Name] = fd
				decls = append(decls, fd)
			}
		}
	}
	baseline := loadBaselineCode(outDir)
	candidates := map[string]bool{}
	for n := range t.funcs {
		candidates[n] = true
	}
	for n := range baseline {
		candidates[n] = true
	}
	done := map[string]leanFn{}
	untranslated := []string{}
	for _, fd := range decls {
		n := fd.Name.Name
		if cpuNotCode[n] {
			continue
		}
		var err error
		// a type error inside the function: no translation
		for _, te := range typeErrs {
			if te.Pos >= fd.Pos() && te.Pos <= fd.End() {
				err = fmt.Errorf("type error: %s", te.Msg)
				break
			}
		}
		var lf leanFn
		if err == nil {
			lf, err = t.function(fd)
		}
		if err != nil {
			untranslated = append(untranslated, n+": "+err.Error())
			if old, ok := baseline[n]; ok {
				fail("cpu.code."+n, "cannot translate ("+err.Error()+"); baseline translation kept")
				done[n] = leanFn{name: n, text: old, calls: callsInText(old, candidates)}
			}
			continue
		}
		done[n] = lf
	}
	// functions of the baseline that no longer exist keep their baseline text (the obligations about them name them)
	for n, old := range baseline {
		if _, ok := done[n]; !ok && n != "handlerS" && n != "unfoldNewGen" {
			if _, exists := t.funcs[n]; !exists {
				fail("cpu.code."+n, "function no longer exists; baseline translation kept")
			}
			done[n] = leanFn{name: n, text: old, calls: callsInText(old, candidates)}
		}
	}
	// a function whose callee has no translation falls back to its baseline text (or is dropped), until nothing changes
	for changed := true; changed; {
		changed = false
		names := []string{}
		for n := range done {
			names = append(names, n)
		}
		sort.Strings(names)
		for _, n := range names {
			lf := done[n]
			for _, c := range lf.calls {
				if _, ok := done[c]; ok {
					continue
				}
				old, have := baseline[n]
				if have && old != lf.text {
					fail("cpu.code."+n, "calls "+c+" which has no translation; baseline translation kept")
					done[n] = leanFn{name: n, text: old, calls: callsInText(old, candidates)}
				} else {
					untranslated = append(untranslated, n+": calls "+c+" which has no translation")
					delete(done, n)
				}
				changed = true
				break
			}
		}
	}
	// topological order, callees first
	order := []string{}
	state := map[string]int{}
	var visit func(n string) bool
	visit = func(n string) bool {
		if state[n] == 2 {
			return true
		}
		if state[n] == 1 {
			return false
		}
		state[n] = 1
		lf, ok := done[n]
		if !ok {
			state[n] = 2
			return true
		}
		for _, c := range lf.calls {
			if !visit(c) {
				return false
			}
		}
		state[n] = 2
		order = append(order, n)
		return true
	}
	all := []string{}
	for n := range done {
		all = append(all, n)
	}
	sort.Strings(all)
	for _, n := range all {
		if !visit(n) {
			fail("cpu.code", "recursive functions")
			return
		}
	}
	// a function whose callee has no translation cannot be emitted
	emitted := map[string]bool{}
	var b strings.Builder
	b.WriteString(header)
	b.WriteString("import Verif.Impl.Cpu\nset_option linter.unusedVariables false\nset_option linter.unusedSimpArgs false\n\n")
	b.WriteString("/-\n  Package cpu translated function by function (harness/cmd/extract/gotolean.go).\n" +
		"  `Verif/Facts/CpuCode.lean` proves that every definition below is the hand-written model's.\n-/\n")
	b.WriteString("namespace Verif.Gen\nopen Verif Verif.Impl\n")
	for _, n := range order {
		lf := done[n]
		okc := true
		for _, c := range lf.calls {
			if !emitted[c] {
				okc = false
				untranslated = append(untranslated, n+": calls "+c+" which has no translation")
			}
		}
		if !okc {
			continue
		}
		emitted[n] = true
		b.WriteString("\n-- func " + n + "\n" + lf.text + "-- end func\n")
	}
	// dispatch by handler name
	if knownHandlers != nil {
		hs := []string{}
		for h := range knownHandlers {
			hs = append(hs, h)
		}
		sort.Strings(hs)
		b.WriteString("\n-- func handlerS\n/-- the translated function behind each name of the opcode table -/\ndef handlerS (model : CpuModel) : H → M StepOutS\n")
		for _, h := range hs {
			switch {
			case h == "lit7true":
				b.WriteString("  | .lit7true => pure ⟨fun _ => 7, true⟩\n")
			case h == "lit2false":
				b.WriteString("  | .lit2false => pure ⟨fun _ => 2, false⟩\n")
			case h == "other":
				b.WriteString("  | .other => failM .script\n")
			case emitted[h]:
				b.WriteString("  | ." + h + " => " + h + " model\n")
			default:
				b.WriteString("  | ." + h + " => failM .script  -- NO TRANSLATION\n")
				fail("cpu.code."+h, "handler has no translation")
			}
		}
		b.WriteString("-- end func\n")
	}
	b.WriteString("\nend Verif.Gen\n")
	// functions of the source that the committed obligations (Facts/CpuCode*.lean) do not name: new helpers.  They are
	// unfolded wherever they occur, so extracting or renaming a helper does not by itself break the obligations.
	namedInFacts := factsNames(outDir)
	newDefs := []string{}
	for _, n := range order {
		if emitted[n] && namedInFacts != nil && !namedInFacts[n] {
			newDefs = append(newDefs, "Verif.Gen."+n)
		}
	}
	b.WriteString("\n-- func unfoldNewGen\n/-- unfolds the translated functions the committed obligations do not name (helpers new in the source) -/\n")
	if len(newDefs) == 0 {
		b.WriteString("macro \"unfoldNewGen\" : tactic => `(tactic| skip)\n")
	} else {
		b.WriteString("macro \"unfoldNewGen\" : tactic => `(tactic| try simp only [" + strings.Join(newDefs, ", ") + "])\n")
	}
	b.WriteString("-- end func\n")
	out.Info["cpu.code.newhelpers"] = strings.Join(newDefs, " ")
	writeIfChanged(filepath.Join(outDir, "CpuCode.lean"), b.String())
	sort.Strings(untranslated)
	out.Info["cpu.code.translated"] = fmt.Sprintf("%d", len(emitted))
	out.Info["cpu.code.untranslated"] = strings.Join(untranslated, "; ")
}

// names N for which some committed obligation mentions `Gen.N`
func factsNames(outDir string) map[string]bool {
	dir := filepath.Join(outDir, "..", "Facts")
	entries, err := os.ReadDir(dir)
	if err != nil {
		return nil
	}
	res := map[string]bool{}
	for _, e := range entries {
		if !strings.HasPrefix(e.Name(), "CpuCode") {
			continue
		}
		data, err := os.ReadFile(filepath.Join(dir, e.Name()))
		if err != nil {
			continue
		}
		text := string(data)
		for {
			i := strings.Index(text, "Gen.")
			if i < 0 {
				break
			}
			text = text[i+4:]
			j := 0
			for j < len(text) && (text[j] == '_' || text[j] >= '0' && text[j] <= '9' || text[j] >= 'a' && text[j] <= 'z' || text[j] >= 'A' && text[j] <= 'Z') {
				j++
			}
			res[text[:j]] = true
		}
	}
	if len(res) < 100 {
		return nil
	}
	return res
}

func callsInText(text string, funcs map[string]bool) []string {
	res := []string{}
	for n := range funcs {
		if strings.Contains(text, "← "+n+" model") || strings.Contains(text, " "+n+" model") || strings.Contains(text, "("+n+" ") {
			res = append(res, n)
		}
	}
	sort.Strings(res)
	return res
}

// doCoprocCode: memory/f256_coproc.go, `WriteUMul` and `WriteUDiv` of F256UnsignedCoproc, translated the same way
// (Generated/CoprocCode.lean; obligations in Facts/CoprocCode.lean; property C16)
func doCoprocCode(repo, outDir string) {
	files := parseDir(filepath.Join(repo, "memory"))
	names := []string{}
	for n := range files {
		names = append(names, n)
	}
	sort.Strings(names)
	list := []*ast.File{}
	for _, n := range names {
		list = append(list, files[n])
	}
	info := &types.Info{Types: map[ast.Expr]types.TypeAndValue{}, Defs: map[*ast.Ident]types.Object{}, Uses: map[*ast.Ident]types.Object{}}
	typeErrs := []types.Error{}
	conf := types.Config{Importer: &fakeImporter{cache: map[string]*types.Package{}}, Error: func(err error) {
		if te, ok := err.(types.Error); ok {
			typeErrs = append(typeErrs, te)
		}
	}}
	pkg, _ := conf.Check("6502profiler/memory", fs, list, info)
	var obj types.Object
	if pkg != nil {
		obj = pkg.Scope().Lookup("F256UnsignedCoproc")
	}
	baselinePath := filepath.Join(outDir, "..", "..", "baseline", "Generated", "CoprocCode.lean")
	keepBaseline := func(why string) {
		fail("coproc.code", why+"; baseline translation kept")
		if data, err := os.ReadFile(baselinePath); err == nil {
			writeIfChanged(filepath.Join(outDir, "CoprocCode.lean"), string(data))
		}
	}
	if obj == nil {
		keepBaseline("type F256UnsignedCoproc not found")
		return
	}
	t := &goTr{info: info, cpuType: types.NewPointer(obj.Type()), known: map[string]bool{}, funcs: map[string]*ast.FuncDecl{}, coproc: true}
	for _, f := range list {
		for _, d := range f.Decls {
			if fd, ok := d.(*ast.FuncDecl); ok && fd.Body != nil {
				t.funcs[fd.Name.Name] = fd
			}
		}
	}
	var b strings.Builder
	b.WriteString(header)
	b.WriteString("import Verif.Impl.Alu\nset_option linter.unusedVariables false\n\n/-\n  memory/f256_coproc.go translated (harness/cmd/extract/gotolean.go): the two write handlers of the F256 math\n  coprocessor as programs over the memory they sit on.  Facts/CoprocCode.lean proves them equal to the model's.\n-/\nnamespace Verif.GenCoproc\nopen Verif Verif.Impl\n")
	for _, n := range []string{"WriteUMul", "WriteUDiv"} {
		fd, ok := t.funcs[n]
		if !ok {
			keepBaseline("function " + n + " not found")
			return
		}
		for _, te := range typeErrs {
			if te.Pos >= fd.Pos() && te.Pos <= fd.End() {
				keepBaseline(n + ": type error: " + te.Msg)
				return
			}
		}
		lf, err := t.function(fd)
		if err != nil {
			keepBaseline(n + ": " + err.Error())
			return
		}
		if len(lf.calls) > 0 {
			keepBaseline(n + ": calls " + strings.Join(lf.calls, ", "))
			return
		}
		b.WriteString("\n-- func " + n + "\n" + lf.text + "-- end func\n")
	}
	b.WriteString("\nend Verif.GenCoproc\n")
	writeIfChanged(filepath.Join(outDir, "CoprocCode.lean"), b.String())
}
