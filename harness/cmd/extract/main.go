// extract reads the Go sources of /repo (go/ast only, nothing is executed) and writes the
// facts the Lean model is parametrised by:  lean/Verif/Generated/*.lean  and facts.json.
//
// Usage: extract <repo-dir> <out-lean-dir> <facts.json>
//
// Every fact is a table or a literal of the Go source.  If a pattern no longer matches the
// fact is reported under "failed" in facts.json and the corresponding generated file is NOT
// rewritten (the committed baseline stays); the orchestrator then widens the correspondence
// streams that depend on it.
package main

import (
	"encoding/json"
	"fmt"
	"go/ast"
	"go/parser"
	"go/token"
	"os"
	"path/filepath"
	"sort"
	"strconv"
	"strings"
)

type facts struct {
	Failed  []string          `json:"failed"`
	Written []string          `json:"written"`
	Info    map[string]string `json:"info"`
}

var fs = token.NewFileSet()
var out facts

func fail(what string, err interface{}) {
	out.Failed = append(out.Failed, fmt.Sprintf("%s: %v", what, err))
}

func parseDir(dir string) map[string]*ast.File {
	res := map[string]*ast.File{}
	entries, err := os.ReadDir(dir)
	if err != nil {
		fail("readdir "+dir, err)
		return res
	}
	for _, e := range entries {
		n := e.Name()
		if !strings.HasSuffix(n, ".go") || strings.HasSuffix(n, "_test.go") || strings.HasPrefix(n, "verif_") {
			continue
		}
		f, err := parser.ParseFile(fs, filepath.Join(dir, n), nil, parser.ParseComments)
		if err != nil {
			fail("parse "+n, err)
			continue
		}
		res[n] = f
	}
	return res
}

func funcs(files map[string]*ast.File) map[string]*ast.FuncDecl {
	res := map[string]*ast.FuncDecl{}
	collectRegexVars(files)
	for _, f := range files {
		for _, d := range f.Decls {
			if fd, ok := d.(*ast.FuncDecl); ok {
				pkgOfFunc[fd] = f.Name.Name
				if fnsByPkg[f.Name.Name] == nil {
					fnsByPkg[f.Name.Name] = map[string]*ast.FuncDecl{}
				}
				fnsByPkg[f.Name.Name][fd.Name.Name] = fd
				// a package-level function wins over a method of the same name
				if old, exists := res[fd.Name.Name]; exists && old.Recv == nil && fd.Recv != nil {
					continue
				}
				res[fd.Name.Name] = fd
			}
		}
	}
	return res
}

func intLit(e ast.Expr) (uint64, bool) {
	switch v := e.(type) {
	case *ast.BasicLit:
		if v.Kind != token.INT {
			return 0, false
		}
		s := strings.ReplaceAll(v.Value, "_", "")
		n, err := strconv.ParseUint(s, 0, 64)
		if err != nil {
			return 0, false
		}
		return n, true
	case *ast.ParenExpr:
		return intLit(v.X)
	}
	return 0, false
}

func writeIfChanged(path string, content string) {
	old, err := os.ReadFile(path)
	if err == nil && string(old) == content {
		out.Written = append(out.Written, filepath.Base(path)+" (unchanged)")
		return
	}
	if err := os.WriteFile(path, []byte(content), 0644); err != nil {
		fail("write "+path, err)
		return
	}
	out.Written = append(out.Written, filepath.Base(path))
}

// ---------------------------------------------------------------------------------------
// CPU: opcode table of New6502

type opEntry struct {
	name string
}

func cpuOpTable(fn *ast.FuncDecl) (t6502, t65c02 map[int]string, err error) {
	t6502 = map[int]string{}
	t65c02 = map[int]string{}

	var walk func(stmts []ast.Stmt, in6502, in65c02 bool) error
	helperDepth := 0
	handler := func(rhs ast.Expr) (string, error) {
		switch v := rhs.(type) {
		case *ast.SelectorExpr:
			// (*CPU6502).name
			if knownHandlers != nil && !knownHandlers[v.Sel.Name] {
				// a method the model has no definition for: if it is nothing but `return <int>, <bool>` it is the
				// same thing as the function literals used for BRK and NOP
				if fd, ok := allCpuFuncs[v.Sel.Name]; ok && fd.Body != nil && len(fd.Body.List) == 1 {
					if r, ok := fd.Body.List[0].(*ast.ReturnStmt); ok && len(r.Results) == 2 {
						n, ok1 := intLit(r.Results[0])
						id, ok2 := r.Results[1].(*ast.Ident)
						if ok1 && ok2 && (id.Name == "true" || id.Name == "false") {
							return fmt.Sprintf("lit%d%s", n, id.Name), nil
						}
					}
				}
			}
			return v.Sel.Name, nil
		case *ast.FuncLit:
			// func(c *CPU6502) (uint64, bool) { return N, B }
			// anything else is a handler the model does not know: `other`
			if len(v.Body.List) != 1 {
				return "other", nil
			}
			r, ok := v.Body.List[0].(*ast.ReturnStmt)
			if !ok || len(r.Results) != 2 {
				return "other", nil
			}
			n, ok := intLit(r.Results[0])
			id, ok2 := r.Results[1].(*ast.Ident)
			if !ok || !ok2 {
				return "other", nil
			}
			return fmt.Sprintf("lit%d%s", n, id.Name), nil
		}
		return "other", nil
	}
	walk = func(stmts []ast.Stmt, in6502, in65c02 bool) error {
		for _, s := range stmts {
			switch v := s.(type) {
			case *ast.AssignStmt:
				if len(v.Lhs) != 1 || len(v.Rhs) != 1 {
					continue
				}
				idx, ok := v.Lhs[0].(*ast.IndexExpr)
				if !ok {
					continue
				}
				sel, ok := idx.X.(*ast.SelectorExpr)
				if !ok || sel.Sel.Name != "opCodes" {
					continue
				}
				code, ok := intLit(idx.Index)
				if !ok || code > 255 {
					return fmt.Errorf("opcode index is not a byte literal at %v", fs.Position(v.Pos()))
				}
				h, err := handler(v.Rhs[0])
				if err != nil {
					return fmt.Errorf("%v at %v", err, fs.Position(v.Pos()))
				}
				if in6502 {
					t6502[int(code)] = h
				}
				if in65c02 {
					t65c02[int(code)] = h
				}
			case *ast.ExprStmt:
				// registerSomething(res) / res.registerSomething(): a helper of package cpu that fills part of the table
				if call, ok := v.X.(*ast.CallExpr); ok {
					name := ""
					switch f := call.Fun.(type) {
					case *ast.Ident:
						name = f.Name
					case *ast.SelectorExpr:
						name = f.Sel.Name
					}
					if g, ok := allCpuFuncs[name]; ok && g.Body != nil && g.Name.Name != "New6502" && helperDepth < 3 {
						helperDepth++
						err := walk(g.Body.List, in6502, in65c02)
						helperDepth--
						if err != nil {
							return err
						}
					}
				}
			case *ast.IfStmt:
				// if m == Model6502 { ... }  /  if m == Model65C02 { ... }
				be, ok := v.Cond.(*ast.BinaryExpr)
				if !ok || be.Op != token.EQL || v.Init != nil {
					return fmt.Errorf("unexpected if in New6502 at %v", fs.Position(v.Pos()))
				}
				id, ok := be.Y.(*ast.Ident)
				if !ok {
					return fmt.Errorf("unexpected if condition in New6502 at %v", fs.Position(v.Pos()))
				}
				// an else branch applies to the other model (there are exactly two)
				var elseList []ast.Stmt
				if v.Else != nil {
					eb, isBlock := v.Else.(*ast.BlockStmt)
					if !isBlock {
						return fmt.Errorf("unexpected else-if in New6502 at %v", fs.Position(v.Pos()))
					}
					elseList = eb.List
				}
				switch id.Name {
				case "Model6502":
					if err := walk(v.Body.List, in6502, false); err != nil {
						return err
					}
					if err := walk(elseList, false, in65c02); err != nil {
						return err
					}
				case "Model65C02":
					if err := walk(v.Body.List, false, in65c02); err != nil {
						return err
					}
					if err := walk(elseList, in6502, false); err != nil {
						return err
					}
				default:
					return fmt.Errorf("unknown model %s", id.Name)
				}
			}
		}
		return nil
	}
	err = walk(fn.Body.List, true, true)
	return
}

// knownHandlers: the constructors of Verif.H (read from Verif/Impl/HandlerNames.lean next to the output
// directory); nil when that file cannot be read
var knownHandlers map[string]bool

// allCpuFuncs: every function of package cpu by name (for looking at the body of an unknown handler)
var allCpuFuncs map[string]*ast.FuncDecl

func loadKnownHandlers(outDir string) {
	data, err := os.ReadFile(filepath.Join(outDir, "..", "Impl", "HandlerNames.lean"))
	if err != nil {
		return
	}
	knownHandlers = map[string]bool{}
	for _, line := range strings.Split(string(data), "\n") {
		f := strings.Fields(line)
		if len(f) == 2 && f[0] == "|" {
			knownHandlers[f[1]] = true
		}
	}
	if len(knownHandlers) < 100 {
		knownHandlers = nil
	}
}

var pendingDriverConsts string

// loadBaselineConsts: field := value lines of the committed baseline copy of Generated/Cycles.lean (first record only)
func loadBaselineConsts(outDir string) map[string]uint64 {
	res := map[string]uint64{}
	data, err := os.ReadFile(filepath.Join(outDir, "..", "..", "baseline", "Generated", "Cycles.lean"))
	if err != nil {
		return res
	}
	for _, line := range strings.Split(string(data), "\n") {
		if strings.HasPrefix(line, "def driverConsts") {
			break
		}
		f := strings.Fields(line)
		if len(f) >= 3 && f[1] == ":=" {
			if v, err := strconv.ParseUint(f[2], 10, 64); err == nil {
				res[f[0]] = v
			}
		}
	}
	return res
}

// loadBaselineShapes: for every field of the baseline record the number of variable summands (`-- + a + b`) its
// return statement had
func loadBaselineShapes(outDir string) map[string]int {
	res := map[string]int{}
	data, err := os.ReadFile(filepath.Join(outDir, "..", "..", "baseline", "Generated", "Cycles.lean"))
	if err != nil {
		return res
	}
	for _, line := range strings.Split(string(data), "\n") {
		if strings.HasPrefix(line, "def driverConsts") {
			break
		}
		f := strings.Fields(line)
		if len(f) >= 3 && f[1] == ":=" {
			n := 0
			if i := strings.Index(line, "-- +"); i >= 0 {
				n = strings.Count(line[i:], "+")
			}
			res[f[0]] = n
		}
	}
	return res
}

// resolveDelegations: a function whose body became `return c.helper(...)` (its former body moved into a shared helper)
// inherits the helper's return literals: the field F_i gets the literal of THE return statement of the helper that has
// the same number of variable summands as F_i had (2 vs 3 + pageCross, 5 vs 6 + pageCross); all or nothing.
func resolveDelegations(rets map[string][]retFact, deleg map[string]string, shapes map[string]int) {
	for depth := 0; depth < 3; depth++ {
		for name, call := range deleg {
			if len(rets[name]) > 0 {
				continue
			}
			callee := call
			if i := strings.Index(callee, "("); i >= 0 {
				callee = callee[:i]
			}
			if i := strings.LastIndex(callee, "."); i >= 0 {
				callee = callee[i+1:]
			}
			if len(rets[callee]) == 0 {
				continue
			}
			syn := []retFact{}
			ok := true
			for i := 0; ok; i++ {
				shape, have := shapes[fmt.Sprintf("%s_%d", name, i)]
				if !have {
					break
				}
				var found *retFact
				for k := range rets[callee] {
					c := &rets[callee][k]
					if len(c.extras) == shape {
						if found != nil && found.lit != c.lit {
							ok = false
						}
						found = c
					}
				}
				if found == nil {
					ok = false
				} else {
					syn = append(syn, *found)
				}
			}
			if ok && len(syn) > 0 {
				rets[name] = syn
			}
		}
	}
}

// loadKnownConsts: the fields of Verif.CycleConsts (Verif/Impl/Consts.lean); nil when unreadable
func loadKnownConsts(outDir string) map[string]bool {
	data, err := os.ReadFile(filepath.Join(outDir, "..", "Impl", "Consts.lean"))
	if err != nil {
		return nil
	}
	res := map[string]bool{}
	in := false
	for _, line := range strings.Split(string(data), "\n") {
		if strings.HasPrefix(line, "structure CycleConsts") {
			in = true
			continue
		}
		if in {
			f := strings.Fields(line)
			if len(f) == 3 && f[1] == ":" && f[2] == "Nat" {
				res[f[0]] = true
			} else if len(res) > 0 {
				break
			}
		}
	}
	if len(res) < 50 {
		return nil
	}
	return res
}

func leanOpTable(name string, t map[int]string) string {
	var b strings.Builder
	fmt.Fprintf(&b, "def %s (opc : Byte) : Option H :=\n  match opc.toNat with\n", name)
	keys := []int{}
	for k := range t {
		keys = append(keys, k)
	}
	sort.Ints(keys)
	for _, k := range keys {
		h := t[k]
		if knownHandlers != nil && !knownHandlers[h] {
			// a function (or function literal) the Lean model has no definition for
			h = "other"
		}
		fmt.Fprintf(&b, "  | 0x%02X => some .%s\n", k, h)
	}
	b.WriteString("  | _ => none\n\n")
	return b.String()
}

// ---------------------------------------------------------------------------------------
// CPU: literal part of every `return <int> [+ ident]*, <bool>` of functions returning (uint64, bool)

type retFact struct {
	lit    uint64
	extras []string
	second string
}

func returnsCycles(fd *ast.FuncDecl) bool {
	if fd.Type.Results == nil || len(fd.Type.Results.List) != 2 {
		return false
	}
	a, ok1 := fd.Type.Results.List[0].Type.(*ast.Ident)
	b, ok2 := fd.Type.Results.List[1].Type.(*ast.Ident)
	return ok1 && ok2 && a.Name == "uint64" && b.Name == "bool"
}

func splitSum(e ast.Expr) (lit uint64, extras []string, ok bool) {
	switch v := e.(type) {
	case *ast.BinaryExpr:
		if v.Op != token.ADD {
			return 0, nil, false
		}
		l, ex, ok := splitSum(v.X)
		if !ok {
			return 0, nil, false
		}
		id, ok := v.Y.(*ast.Ident)
		if !ok {
			return 0, nil, false
		}
		return l, append(ex, id.Name), true
	default:
		n, ok := intLit(e)
		return n, nil, ok
	}
}

func cpuReturns(fns map[string]*ast.FuncDecl) (map[string][]retFact, map[string]string, []string) {
	res := map[string][]retFact{}
	deleg := map[string]string{}
	problems := []string{}
	for name, fd := range fns {
		if !returnsCycles(fd) || fd.Body == nil {
			continue
		}
		ast.Inspect(fd.Body, func(n ast.Node) bool {
			if _, ok := n.(*ast.FuncLit); ok {
				return false
			}
			r, ok := n.(*ast.ReturnStmt)
			if !ok {
				return true
			}
			if len(r.Results) == 1 {
				if call, ok := r.Results[0].(*ast.CallExpr); ok {
					deleg[name] = exprString(call)
					return true
				}
			}
			if len(r.Results) != 2 {
				problems = append(problems, fmt.Sprintf("%s: return with %d results", name, len(r.Results)))
				return true
			}
			lit, extras, ok := splitSum(r.Results[0])
			if !ok {
				problems = append(problems, fmt.Sprintf("%s: cycle expression %s is not <int> [+ ident]*", name, exprString(r.Results[0])))
				return true
			}
			res[name] = append(res[name], retFact{lit, extras, exprString(r.Results[1])})
			return true
		})
	}
	return res, deleg, problems
}

func exprString(e ast.Expr) string {
	switch v := e.(type) {
	case *ast.Ident:
		return v.Name
	case *ast.BasicLit:
		return v.Value
	case *ast.SelectorExpr:
		return exprString(v.X) + "." + v.Sel.Name
	case *ast.CallExpr:
		args := []string{}
		for _, a := range v.Args {
			args = append(args, exprString(a))
		}
		return exprString(v.Fun) + "(" + strings.Join(args, ", ") + ")"
	case *ast.BinaryExpr:
		return exprString(v.X) + " " + v.Op.String() + " " + exprString(v.Y)
	case *ast.ParenExpr:
		return "(" + exprString(v.X) + ")"
	case *ast.UnaryExpr:
		return v.Op.String() + exprString(v.X)
	case *ast.StarExpr:
		return "*" + exprString(v.X)
	case *ast.IndexExpr:
		return exprString(v.X) + "[" + exprString(v.Index) + "]"
	case *ast.CompositeLit:
		return "<composite>"
	case *ast.FuncLit:
		return "<funclit>"
	}
	return fmt.Sprintf("<%T>", e)
}

const header = "-- GENERATED by harness/cmd/extract from /repo's Go sources on every run of a check.\n-- Do not edit: the committed copy is the baseline used when extraction fails.\n"

// runtimeOpTable: the table the harness read from a freshly built CPU (file written by `corr optable`), mapped to
// handler names; closures are resolved through the function literals of New6502 in source order (the Go runtime names
// them New6502.func1, func2, ...)
func runtimeOpTable(path string, newFn *ast.FuncDecl) (t6502, t65c02 map[int]string, err error) {
	data, err := os.ReadFile(path)
	if err != nil {
		return nil, nil, err
	}
	var raw map[string]map[string]string
	if err := json.Unmarshal(data, &raw); err != nil {
		return nil, nil, err
	}
	lits := []*ast.FuncLit{}
	if newFn != nil && newFn.Body != nil {
		ast.Inspect(newFn.Body, func(n ast.Node) bool {
			if fl, ok := n.(*ast.FuncLit); ok {
				lits = append(lits, fl)
				return false
			}
			return true
		})
	}
	name := func(full string) string {
		base := full
		if i := strings.LastIndex(base, "."); i >= 0 {
			base = base[i+1:]
		}
		if strings.HasPrefix(base, "func") && strings.Contains(full, "New6502") {
			// a function literal of New6502
			k, err := strconv.Atoi(strings.TrimPrefix(base, "func"))
			if err != nil || k < 1 || k > len(lits) {
				return "other"
			}
			v := lits[k-1]
			if len(v.Body.List) == 1 {
				if r, ok := v.Body.List[0].(*ast.ReturnStmt); ok && len(r.Results) == 2 {
					n, ok1 := intLit(r.Results[0])
					id, ok2 := r.Results[1].(*ast.Ident)
					if ok1 && ok2 {
						return fmt.Sprintf("lit%d%s", n, id.Name)
					}
				}
			}
			return "other"
		}
		base = strings.TrimSuffix(base, "-fm")
		if knownHandlers != nil && !knownHandlers[base] {
			if fd, ok := allCpuFuncs[base]; ok && fd.Body != nil && len(fd.Body.List) == 1 {
				if r, ok := fd.Body.List[0].(*ast.ReturnStmt); ok && len(r.Results) == 2 {
					n, ok1 := intLit(r.Results[0])
					id, ok2 := r.Results[1].(*ast.Ident)
					if ok1 && ok2 && (id.Name == "true" || id.Name == "false") {
						return fmt.Sprintf("lit%d%s", n, id.Name)
					}
				}
			}
		}
		return base
	}
	conv := func(m map[string]string) map[int]string {
		res := map[int]string{}
		for k, v := range m {
			if c, err := strconv.Atoi(k); err == nil {
				res[c] = name(v)
			}
		}
		return res
	}
	if raw["6502"] == nil || raw["65C02"] == nil {
		return nil, nil, fmt.Errorf("incomplete runtime table")
	}
	return conv(raw["6502"]), conv(raw["65C02"]), nil
}

func sameTable(a, b map[int]string) bool {
	if len(a) != len(b) {
		return false
	}
	for k, v := range a {
		if b[k] != v {
			return false
		}
	}
	return true
}

// runtimeTablePath: optional fourth argument of the extractor
var runtimeTablePath string

func doCpu(repo, outDir string) {
	loadKnownHandlers(outDir)
	files := parseDir(filepath.Join(repo, "cpu"))
	fns := funcs(files)
	allCpuFuncs = fns
	newFn, ok := fns["New6502"]
	if !ok {
		fail("cpu.optable", "New6502 not found")
	} else {
		t1, t2, err := cpuOpTable(newFn)
		// the table as built at run time (when the harness could be built) is what the code does, however New6502 is
		// written; the reading of the source is kept as the fallback and as a cross-check
		if runtimeTablePath != "" {
			r1, r2, rerr := runtimeOpTable(runtimeTablePath, newFn)
			if rerr == nil {
				if err != nil || !sameTable(t1, r1) || !sameTable(t2, r2) {
					out.Info["cpu.optable.source"] = "runtime table (differs from the reading of New6502's source, or that reading failed)"
				} else {
					out.Info["cpu.optable.source"] = "runtime table = source reading"
				}
				t1, t2, err = r1, r2, nil
			} else {
				out.Info["cpu.optable.source"] = "source reading (no runtime table: " + rerr.Error() + ")"
			}
		}
		if err != nil {
			fail("cpu.optable", err)
		} else {
			var b strings.Builder
			b.WriteString(header)
			b.WriteString("import Verif.Impl.HandlerNames\n\nnamespace Verif.Generated\nopen Verif\n\n")
			b.WriteString("/-- `res.opCodes[..] = ..` assignments of cpu.New6502 that apply to Model6502 -/\n")
			b.WriteString(leanOpTable("opTable6502", t1))
			b.WriteString("/-- `res.opCodes[..] = ..` assignments of cpu.New6502 that apply to Model65C02 -/\n")
			b.WriteString(leanOpTable("opTable65C02", t2))
			b.WriteString("def opTable : CpuModel → Byte → Option H\n  | .m6502 => opTable6502\n  | .m65C02 => opTable65C02\n\n")
			b.WriteString("end Verif.Generated\n")
			writeIfChanged(filepath.Join(outDir, "OpTable.lean"), b.String())
			out.Info["cpu.optable.count6502"] = strconv.Itoa(len(t1))
			out.Info["cpu.optable.count65C02"] = strconv.Itoa(len(t2))
			// list of handler names, for the orchestrator
			names := map[string]bool{}
			for _, v := range t1 {
				names[v] = true
			}
			for _, v := range t2 {
				names[v] = true
			}
			ns := []string{}
			for k := range names {
				ns = append(ns, k)
			}
			sort.Strings(ns)
			out.Info["cpu.handlers"] = strings.Join(ns, " ")
		}
	}

	rets, deleg, problems := cpuReturns(fns)
	resolveDelegations(rets, deleg, loadBaselineShapes(outDir))
	for _, p := range problems {
		fail("cpu.cycles", p)
	}
	if len(problems) == 0 {
		var b strings.Builder
		b.WriteString(header)
		b.WriteString("import Verif.Impl.Consts\n\nnamespace Verif.Generated\nopen Verif\n\n")
		b.WriteString("/-- literal part of every `return <int> [+ extra]*, <bool>` in package cpu, in source order -/\n")
		b.WriteString("def consts : CycleConsts where\n")
		names := []string{}
		for k := range rets {
			names = append(names, k)
		}
		sort.Strings(names)
		knownConsts := loadKnownConsts(outDir)
		skipped := []string{}
		emitted := map[string]bool{}
		for _, n := range names {
			for i, r := range rets[n] {
				ex := ""
				if len(r.extras) > 0 {
					ex = "  -- + " + strings.Join(r.extras, " + ")
				}
				field := fmt.Sprintf("%s_%d", n, i)
				if knownConsts != nil && !knownConsts[field] {
					// a return statement of a function the model has no definition for (its table entry,
					// if any, is `.other`): not a field of CycleConsts
					skipped = append(skipped, fmt.Sprintf("%s := %d", field, r.lit))
					continue
				}
				fmt.Fprintf(&b, "  %s := %d%s\n", field, r.lit, ex)
				emitted[field] = true
			}
		}
		// a literal the model expects but the source no longer has in this place (the function was restructured): the
		// record must stay well-formed so that only the obligation ABOUT the literals (`consts_ok`, property C02) fails,
		// not every module that merely mentions the record
		missing := []string{}
		for f := range knownConsts {
			if !emitted[f] {
				missing = append(missing, f)
			}
		}
		sort.Strings(missing)
		for _, f := range missing {
			fmt.Fprintf(&b, "  %s := 999999  -- NOT FOUND in the source\n", f)
		}
		// the record the DRIVER runs the program-level streams with: the literal found in the source, or — where none was
		// found — the literal of the committed baseline (so that a restructured function does not make the executable
		// model of the other properties report nonsense cycle counts; the obligation about the literals uses `consts`)
		base := loadBaselineConsts(outDir)
		var d strings.Builder
		d.WriteString("\n/-- `consts` with the baseline literal wherever the source's was not found (driver only) -/\ndef driverConsts : CycleConsts where\n")
		driverOk := true
		for _, n := range names {
			for i, r := range rets[n] {
				field := fmt.Sprintf("%s_%d", n, i)
				if knownConsts != nil && !knownConsts[field] {
					continue
				}
				fmt.Fprintf(&d, "  %s := %d\n", field, r.lit)
			}
		}
		for _, f := range missing {
			v, have := base[f]
			if !have {
				driverOk = false
				v = 999999
			}
			fmt.Fprintf(&d, "  %s := %d  -- baseline\n", f, v)
		}
		_ = driverOk
		pendingDriverConsts = d.String()
		if len(skipped) > 0 {
			b.WriteString("\n-- not part of the model: " + strings.Join(skipped, ", ") + "\n")
		}
		b.WriteString(pendingDriverConsts)
		b.WriteString("\nend Verif.Generated\n")
		writeIfChanged(filepath.Join(outDir, "Cycles.lean"), b.String())
		ds := []string{}
		for k, v := range deleg {
			ds = append(ds, k+"="+v)
		}
		sort.Strings(ds)
		out.Info["cpu.delegations"] = strings.Join(ds, ";")
	}
}

func main() {
	if len(os.Args) != 4 && len(os.Args) != 5 {
		fmt.Fprintln(os.Stderr, "usage: extract <repo> <out-lean-dir> <facts.json> [<runtime-optable.json>]")
		os.Exit(2)
	}
	repo, outDir, factsFile := os.Args[1], os.Args[2], os.Args[3]
	if len(os.Args) == 5 {
		runtimeTablePath = os.Args[4]
	}
	out.Info = map[string]string{}
	out.Failed = []string{}
	out.Written = []string{}
	if err := os.MkdirAll(outDir, 0755); err != nil {
		fmt.Fprintln(os.Stderr, err)
		os.Exit(2)
	}

	doCpu(repo, outDir)
	doCpuCode(repo, outDir)
	doCoprocCode(repo, outDir)
	doMore(repo, outDir)

	data, _ := json.MarshalIndent(out, "", " ")
	if err := os.WriteFile(factsFile, data, 0644); err != nil {
		fmt.Fprintln(os.Stderr, err)
		os.Exit(2)
	}
}
