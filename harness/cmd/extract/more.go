package main

import (
	"fmt"
	"go/ast"
	"go/token"
	"path/filepath"
	"sort"
	"strings"
)

// doMore extracts the non-CPU facts (memory copy/clear lists, config switch, loop counter widths, regex literals, ...).
func doMore(repo, outDir string) {
	doMemory(repo, outDir)
	doMisc(repo, outDir)
	doFlow(repo, outDir)
	doConfig(repo, outDir)
}

// doConfig: the three allow-lists of NewConfigFromFile, the order of confParsers, the port regex literals, the model test
func doConfig(repo, outDir string) {
	var b strings.Builder
	b.WriteString(header)
	b.WriteString("namespace Verif.Generated\n\n")
	ok := true
	cfiles := parseDir(filepath.Join(repo, "emuconfig"))
	consts := map[string]string{}
	for _, f := range cfiles {
		for _, d := range f.Decls {
			gd, isGen := d.(*ast.GenDecl)
			if !isGen || gd.Tok != token.CONST {
				continue
			}
			for _, sp := range gd.Specs {
				vs := sp.(*ast.ValueSpec)
				for i, n := range vs.Names {
					if i < len(vs.Values) {
						if bl, isLit := vs.Values[i].(*ast.BasicLit); isLit && bl.Kind == token.STRING {
							consts[n.Name] = strings.Trim(bl.Value, "\"")
						}
					}
				}
			}
		}
	}
	cfns := funcs(cfiles)
	_, found := cfns["NewConfigFromFile"]
	if !found {
		fail("config.allow", "NewConfigFromFile not found")
		ok = false
	} else {
		lists := map[string][]string{}
		// the allow-lists: map literals with constant keys, assigned in the function body or hoisted into
		// package-level variables (found anywhere in the package by name)
		takeMap := func(name string, e ast.Expr) {
			cl, isCl := e.(*ast.CompositeLit)
			if !isCl {
				return
			}
			if _, isMap := cl.Type.(*ast.MapType); !isMap {
				return
			}
			vals := []string{}
			for _, el := range cl.Elts {
				kv, isKv := el.(*ast.KeyValueExpr)
				if !isKv {
					return
				}
				key := exprString(kv.Key)
				if v, isConst := consts[key]; isConst {
					key = v
				} else {
					key = strings.Trim(key, "\"")
				}
				if exprString(kv.Value) == "true" {
					vals = append(vals, key)
				}
			}
			sort.Strings(vals)
			lists[name] = vals
		}
		for _, f := range cfiles {
			ast.Inspect(f, func(n ast.Node) bool {
				switch v := n.(type) {
				case *ast.AssignStmt:
					if len(v.Lhs) == 1 && len(v.Rhs) == 1 {
						if id, isId := v.Lhs[0].(*ast.Ident); isId {
							takeMap(id.Name, v.Rhs[0])
						}
					}
				case *ast.ValueSpec:
					for i, nm := range v.Names {
						if i < len(v.Values) {
							takeMap(nm.Name, v.Values[i])
						}
					}
				}
				return true
			})
		}
		for _, name := range []string{"allowedMemModels", "allowedCpuModels", "allowedAsmTypes"} {
			v, have := lists[name]
			if !have {
				fail("config.allow", name+" not found")
				ok = false
				continue
			}
			fmt.Fprintf(&b, "def %s : List String := %s\n", name, leanStrList(v))
		}
	}
	// var confParsers []ConfParser = []ConfParser{ memory.NewStdOutProcessorFromConfig, ... }
	parsers := []string{}
	for _, f := range cfiles {
		for _, d := range f.Decls {
			gd, isGen := d.(*ast.GenDecl)
			if !isGen || gd.Tok != token.VAR {
				continue
			}
			for _, sp := range gd.Specs {
				vs := sp.(*ast.ValueSpec)
				if len(vs.Names) == 1 && vs.Names[0].Name == "confParsers" && len(vs.Values) == 1 {
					if cl, isCl := vs.Values[0].(*ast.CompositeLit); isCl {
						for _, el := range cl.Elts {
							parsers = append(parsers, exprString(el))
						}
					}
				}
			}
		}
	}
	if len(parsers) == 0 {
		fail("config.parsers", "confParsers not found")
		ok = false
	}
	fmt.Fprintf(&b, "\n/-- `confParsers`, in order -/\ndef confParsers : List String := %s\n", leanStrList(parsers))
	mem := funcs(parseDir(filepath.Join(repo, "memory")))
	for _, name := range []string{"NewStdOutProcessorFromConfig", "NewPrinterProcessorFromConfig"} {
		pf, have := mem[name]
		if !have {
			fail("config.ports", name+" not found")
			ok = false
			continue
		}
		fmt.Fprintf(&b, "def regex_%s : List String := %s\n", name, leanStrList(regexLiterals(pf)))
	}
	// the CPU model selection: anywhere in the package, an `if <x> ==|!= <Proc constant> { model = cpu.ModelA }` with
	// default cpu.ModelB, or `{ return cpu.ModelA }` followed by `return cpu.ModelB`; normalised to
	// "<constant value>:<model if equal>:<model otherwise>"
	if _, have := cfns["NewCpu"]; have {
		test := ""
		modelOf := func(e ast.Expr) string {
			s := exprString(e)
			if s == "cpu.Model6502" || s == "cpu.Model65C02" {
				return strings.TrimPrefix(s, "cpu.")
			}
			return ""
		}
		fnNames := []string{}
		for n := range cfns {
			fnNames = append(fnNames, n)
		}
		sort.Strings(fnNames)
		for _, fnName := range fnNames {
			fd := cfns[fnName]
			if fd.Body == nil || test != "" {
				continue
			}
			// the "otherwise" value: a top-level assignment / declaration / return of a model constant outside the if
			for idx, st := range fd.Body.List {
				ifs, isIf := st.(*ast.IfStmt)
				if !isIf || ifs.Else != nil || len(ifs.Body.List) != 1 {
					continue
				}
				be, isBin := ifs.Cond.(*ast.BinaryExpr)
				if !isBin || (be.Op != token.EQL && be.Op != token.NEQ) {
					continue
				}
				cv, isConst := consts[exprString(be.Y)]
				if !isConst || (cv != "6502" && cv != "65C02") {
					continue
				}
				inIf, other := "", ""
				switch b := ifs.Body.List[0].(type) {
				case *ast.AssignStmt:
					if len(b.Rhs) == 1 {
						inIf = modelOf(b.Rhs[0])
					}
					// default: an earlier assignment or declaration in this function
					for _, prev := range fd.Body.List[:idx] {
						ast.Inspect(prev, func(x ast.Node) bool {
							switch v := x.(type) {
							case *ast.AssignStmt:
								if len(v.Rhs) == 1 && modelOf(v.Rhs[0]) != "" {
									other = modelOf(v.Rhs[0])
								}
							case *ast.ValueSpec:
								if len(v.Values) == 1 && modelOf(v.Values[0]) != "" {
									other = modelOf(v.Values[0])
								}
							}
							return true
						})
					}
				case *ast.ReturnStmt:
					if len(b.Results) == 1 {
						inIf = modelOf(b.Results[0])
					}
					for _, next := range fd.Body.List[idx+1:] {
						if r, isRet := next.(*ast.ReturnStmt); isRet && len(r.Results) == 1 && modelOf(r.Results[0]) != "" {
							other = modelOf(r.Results[0])
							break
						}
					}
				}
				if inIf == "" || other == "" {
					continue
				}
				if be.Op == token.EQL {
					test = fmt.Sprintf("%s:%s:%s", cv, inIf, other)
				} else {
					test = fmt.Sprintf("%s:%s:%s", cv, other, inIf)
				}
				break
			}
		}
		if test == "" {
			fail("config.model", "CPU model selection not found in package emuconfig")
			ok = false
		}
		fmt.Fprintf(&b, "\n/-- the CPU model selection: `<Model string>:<cpu model if the configured string equals it>:<cpu model otherwise>` -/\ndef cpuModelTest : String := %q\n", test)
	} else {
		fail("config.model", "NewCpu not found")
		ok = false
	}
	b.WriteString("\nend Verif.Generated\n")
	if ok {
		writeIfChanged(filepath.Join(outDir, "Config.lean"), b.String())
	}
}

var typeBits = map[string]int{"uint8": 8, "byte": 8, "uint16": 16, "uint32": 32, "uint64": 64, "uint": 64, "int": 63, "int32": 31, "int64": 63}

// loopCounterBits: width of the counter of the first `for c := ...; c <= ...; c++` loop of a function
func loopCounterBits(fd *ast.FuncDecl) (int, error) {
	params := map[string]string{}
	for _, f := range fd.Type.Params.List {
		if id, ok := f.Type.(*ast.Ident); ok {
			for _, n := range f.Names {
				params[n.Name] = id.Name
			}
		}
	}
	bits := -1
	var err error
	ast.Inspect(fd.Body, func(n ast.Node) bool {
		fs, ok := n.(*ast.ForStmt)
		if !ok || bits >= 0 {
			return true
		}
		cond, ok := fs.Cond.(*ast.BinaryExpr)
		if !ok || cond.Op != token.LEQ {
			return true
		}
		init, ok := fs.Init.(*ast.AssignStmt)
		if !ok || len(init.Rhs) != 1 {
			err = fmt.Errorf("%s: unexpected loop init", fd.Name.Name)
			return false
		}
		switch v := init.Rhs[0].(type) {
		case *ast.CallExpr:
			if id, ok := v.Fun.(*ast.Ident); ok {
				if b, ok := typeBits[id.Name]; ok {
					bits = b
					return false
				}
			}
		case *ast.Ident:
			if t, ok := params[v.Name]; ok {
				if b, ok := typeBits[t]; ok {
					bits = b
					return false
				}
			}
		}
		err = fmt.Errorf("%s: cannot determine the type of the loop counter", fd.Name.Name)
		return false
	})
	if bits < 0 && err == nil {
		err = fmt.Errorf("%s: no `<=` loop found", fd.Name.Name)
	}
	return bits, err
}

// callBefore: is `first` called unconditionally (in a top-level statement of the function body: an expression or
// assignment statement, or the init/condition of a top-level if) before the top-level statement that calls `second`
// callsUnconditionally: the function calls `name` in one of its top-level statements (not inside a branch body),
// directly or through a package function that does (depth-limited)
func callsUnconditionally(pkg map[string]*ast.FuncDecl, fd *ast.FuncDecl, name string, depth int) bool {
	if fd == nil || fd.Body == nil || depth > 3 {
		return false
	}
	for _, st := range fd.Body.List {
		var parts []ast.Node
		switch v := st.(type) {
		case *ast.IfStmt:
			if v.Init != nil {
				parts = append(parts, v.Init)
			}
			parts = append(parts, v.Cond)
		case *ast.AssignStmt, *ast.ExprStmt, *ast.ReturnStmt:
			parts = append(parts, st)
		}
		for _, p := range parts {
			hit := false
			ast.Inspect(p, func(x ast.Node) bool {
				if c, ok := x.(*ast.CallExpr); ok {
					callee := exprString(c.Fun)
					if callee == name {
						hit = true
					} else if g, ok := pkg[callee]; ok && g != fd && callsUnconditionally(pkg, g, name, depth+1) {
						hit = true
					}
				}
				return true
			})
			if hit {
				return true
			}
		}
	}
	return false
}

// pkgFuncsForCalls: set by doMisc: the functions of package commands (for following helper calls)
var pkgFuncsForCalls map[string]*ast.FuncDecl

func callBefore(fd *ast.FuncDecl, first, second string) (bool, error) {
	contains := func(n ast.Node, name string) bool {
		found := false
		if n == nil {
			return false
		}
		ast.Inspect(n, func(x ast.Node) bool {
			if c, ok := x.(*ast.CallExpr); ok {
				callee := exprString(c.Fun)
				if callee == name {
					found = true
				} else if g, ok := pkgFuncsForCalls[callee]; ok && g != fd && callsUnconditionally(pkgFuncsForCalls, g, name, 1) {
					// a helper that itself calls `name` unconditionally
					found = true
				}
			}
			return true
		})
		return found
	}
	i1, i2 := -1, -1
	for i, st := range fd.Body.List {
		uncond := false
		switch v := st.(type) {
		case *ast.IfStmt:
			uncond = (v.Init != nil && contains(v.Init, first)) || contains(v.Cond, first)
		case *ast.AssignStmt, *ast.ExprStmt:
			uncond = contains(st, first)
		}
		if uncond && i1 < 0 {
			i1 = i
		}
		if contains(st, second) && i2 < 0 {
			i2 = i
		}
	}
	if i2 < 0 {
		return false, fmt.Errorf("%s: call of %s not found", fd.Name.Name, second)
	}
	return i1 >= 0 && i1 < i2, nil
}

// pkgRegexVars: package-level `var x = regexp.MustCompile(<literal>)` of all packages read so far
var pkgRegexVars = map[string]string{}

// pkgRegexVarsMulti: package-level variables whose initialiser CONTAINS patterns (a table of formats, a struct of
// compiled expressions): every ^-anchored string literal inside the initialiser
var pkgRegexVarsMulti = map[string][]string{}

// normRegex: spelling differences that do not change what a pattern accepts or how its groups are numbered
func normRegex(lit string) string {
	for {
		i := strings.Index(lit, "(?P<")
		if i < 0 {
			return lit
		}
		j := strings.Index(lit[i:], ">")
		if j < 0 {
			return lit
		}
		lit = lit[:i] + "(" + lit[i+j+1:]
	}
}

func collectRegexVars(files map[string]*ast.File) {
	for _, f := range files {
		for _, d := range f.Decls {
			gd, ok := d.(*ast.GenDecl)
			if !ok || gd.Tok != token.VAR {
				continue
			}
			for _, sp := range gd.Specs {
				vs, ok := sp.(*ast.ValueSpec)
				if !ok {
					continue
				}
				for i, n := range vs.Names {
					if i < len(vs.Values) {
						if c, ok := vs.Values[i].(*ast.CallExpr); ok && exprString(c.Fun) == "regexp.MustCompile" && len(c.Args) == 1 {
							if bl, ok := c.Args[0].(*ast.BasicLit); ok {
								pkgRegexVars[f.Name.Name+"."+n.Name] = normRegex(strings.Trim(bl.Value, "`\""))
								continue
							}
						}
						ast.Inspect(vs.Values[i], func(x ast.Node) bool {
							if bl, ok := x.(*ast.BasicLit); ok && bl.Kind == token.STRING {
								if lit := strings.Trim(bl.Value, "`\""); strings.HasPrefix(lit, "^") {
									key := f.Name.Name + "." + n.Name
									pkgRegexVarsMulti[key] = append(pkgRegexVarsMulti[key], normRegex(lit))
								}
							}
							return true
						})
					}
				}
			}
		}
	}
}

// regexLiterals: the regular expressions a function uses — compiled in its body or hoisted into package-level
// variables it refers to — as a sorted set (the order of use is not a fact the model depends on)
func regexLiterals(fd *ast.FuncDecl) []string {
	set := map[string]bool{}
	seen := map[*ast.FuncDecl]bool{}
	var visit func(fd *ast.FuncDecl, depth int)
	visit = func(fd *ast.FuncDecl, depth int) {
		if fd == nil || fd.Body == nil || seen[fd] || depth > 3 {
			return
		}
		seen[fd] = true
		regexLiteralsOf(fd, set, func(callee string) { visit(fnsByPkg[pkgOfFunc[fd]][callee], depth+1) })
	}
	visit(fd, 0)
	res := []string{}
	for k := range set {
		res = append(res, k)
	}
	sort.Strings(res)
	return res
}

// fnsByPkg: package name -> function name -> declaration, of every package read so far
var fnsByPkg = map[string]map[string]*ast.FuncDecl{}

// regexLiteralsOf: the patterns of one function body; `follow` is called for every function of the same package the
// body calls (the parser may have been split into helpers)
func regexLiteralsOf(fd *ast.FuncDecl, set map[string]bool, follow func(string)) {
	ast.Inspect(fd.Body, func(n ast.Node) bool {
		if c, ok := n.(*ast.CallExpr); ok {
			switch f := c.Fun.(type) {
			case *ast.Ident:
				follow(f.Name)
			case *ast.SelectorExpr:
				if _, isIdent := f.X.(*ast.Ident); isIdent {
					follow(f.Sel.Name)
				}
			}
		}
		if c, ok := n.(*ast.CallExpr); ok && exprString(c.Fun) == "regexp.MustCompile" && len(c.Args) == 1 {
			if bl, ok := c.Args[0].(*ast.BasicLit); ok {
				set[normRegex(strings.Trim(bl.Value, "`\""))] = true
			} else {
				set["<"+exprString(c.Args[0])+">"] = true
			}
		}
		// a pattern handed as a string to a helper that compiles it: any string literal anchored with ^
		if bl, ok := n.(*ast.BasicLit); ok && bl.Kind == token.STRING {
			if lit := strings.Trim(bl.Value, "`\""); strings.HasPrefix(lit, "^") {
				set[normRegex(lit)] = true
			}
		}
		if id, ok := n.(*ast.Ident); ok {
			for k, vs := range pkgRegexVarsMulti {
				if strings.HasSuffix(k, "."+id.Name) && pkgOfFunc[fd] == strings.TrimSuffix(k, "."+id.Name) {
					for _, v := range vs {
						set[v] = true
					}
				}
			}
			for k, v := range pkgRegexVars {
				if strings.HasSuffix(k, "."+id.Name) && pkgOfFunc[fd] == strings.TrimSuffix(k, "."+id.Name) {
					set[v] = true
				}
			}
		}
		return true
	})
}

// pkgOfFunc: the package name of every function declaration seen by funcs()
var pkgOfFunc = map[*ast.FuncDecl]string{}

func doMisc(repo, outDir string) {
	var b strings.Builder
	b.WriteString(header)
	b.WriteString("namespace Verif.Generated\n\n")
	ok := true
	mem := funcs(parseDir(filepath.Join(repo, "memory")))
	prof := funcs(parseDir(filepath.Join(repo, "profiler")))
	cmds := funcs(parseDir(filepath.Join(repo, "commands")))
	pkgFuncsForCalls = cmds
	asm := funcs(parseDir(filepath.Join(repo, "assembler")))
	b.WriteString("/-! width in bits of the counter of the address loops (declared type of the loop variable) -/\n")
	for _, it := range []struct {
		name string
		fns  map[string]*ast.FuncDecl
	}{{"Dump", mem}, {"DumpStatistics", prof}, {"CutOffAbsoluteValue", prof}, {"CutOffMedian", prof}} {
		fd, found := it.fns[it.name]
		if !found {
			fail("loops", it.name+" not found")
			ok = false
			continue
		}
		bits, err := loopCounterBits(fd)
		if err != nil {
			fail("loops", err)
			ok = false
			continue
		}
		fmt.Fprintf(&b, "def loopBits_%s : Nat := %d\n", it.name, bits)
	}
	b.WriteString("\n/-! is the dump specification validated before the program is loaded and run -/\n")
	for _, name := range []string{"RunCommand", "ProfileCommand"} {
		fd, found := cmds[name]
		if !found {
			fail("dumporder", name+" not found")
			ok = false
			continue
		}
		before, err := callBefore(fd, "parseDumpParams", "LoadAndRunBinary")
		if err != nil {
			fail("dumporder", err)
			ok = false
			continue
		}
		fmt.Fprintf(&b, "def dumpValidatedFirst_%s : Bool := %v\n", name, before)
	}
	b.WriteString("\n/-! regular expression literals -/\n")
	for _, it := range []struct {
		name string
		fns  map[string]*ast.FuncDecl
	}{{"parseDumpParams", cmds}, {"parseOneLineAcme", asm}, {"parseOneLineTass", asm}} {
		fd, found := it.fns[it.name]
		if !found {
			fail("regex", it.name+" not found")
			ok = false
			continue
		}
		fmt.Fprintf(&b, "def regex_%s : List String := %s\n", it.name, leanStrList(regexLiterals(fd)))
	}
	// does cpu.Load use the error returned by CopyToMem?  does ParseLabelFile consult the scanner error?
	cpuFns := funcs(parseDir(filepath.Join(repo, "cpu")))
	if fd, found := cpuFns["Load"]; found {
		used := false
		ast.Inspect(fd.Body, func(n ast.Node) bool {
			if as, ok := n.(*ast.AssignStmt); ok && len(as.Rhs) == 1 {
				if c, ok := as.Rhs[0].(*ast.CallExpr); ok && exprString(c.Fun) == "c.CopyToMem" {
					used = true
				}
			}
			if rs, ok := n.(*ast.ReturnStmt); ok {
				for _, r := range rs.Results {
					if c, ok := r.(*ast.CallExpr); ok && exprString(c.Fun) == "c.CopyToMem" {
						used = true
					}
				}
			}
			return true
		})
		fmt.Fprintf(&b, "\n/-- cpu.Load assigns (and so can test) the error returned by CopyToMem -/\ndef loadChecksCopyError : Bool := %v\n", used)
	} else {
		fail("loader", "cpu.Load not found")
		ok = false
	}
	if fd, found := asm["ParseLabelFile"]; found {
		used := false
		var look func(f *ast.FuncDecl, depth int)
		look = func(f *ast.FuncDecl, depth int) {
			if f == nil || f.Body == nil || depth > 2 {
				return
			}
			ast.Inspect(f.Body, func(n ast.Node) bool {
				if c, ok := n.(*ast.CallExpr); ok {
					callee := exprString(c.Fun)
					if strings.HasSuffix(callee, ".Err") {
						used = true
					} else if g, ok := asm[callee]; ok && g != f {
						// the scan loop may live in a helper
						look(g, depth+1)
					}
				}
				return true
			})
		}
		look(fd, 0)
		fmt.Fprintf(&b, "\n/-- assembler.ParseLabelFile consults the scanner's error after the loop -/\ndef labelFileChecksScannerError : Bool := %v\n", used)
	} else {
		fail("labels", "ParseLabelFile not found")
		ok = false
	}
	b.WriteString("\nend Verif.Generated\n")
	if ok {
		writeIfChanged(filepath.Join(outDir, "Misc.lean"), b.String())
	}
}

func recvType(fd *ast.FuncDecl) string {
	if fd.Recv == nil || len(fd.Recv.List) != 1 {
		return ""
	}
	t := fd.Recv.List[0].Type
	if s, ok := t.(*ast.StarExpr); ok {
		t = s.X
	}
	if id, ok := t.(*ast.Ident); ok {
		return id.Name
	}
	return ""
}

// fieldOf returns F for an expression of the form recv.F
func fieldOf(e ast.Expr) (string, bool) {
	if s, ok := e.(*ast.SelectorExpr); ok {
		if _, ok := s.X.(*ast.Ident); ok {
			return s.Sel.Name, true
		}
	}
	return "", false
}

func leanStrList(xs []string) string {
	q := []string{}
	for _, x := range xs {
		q = append(q, fmt.Sprintf("%q", x))
	}
	return "[" + strings.Join(q, ", ") + "]"
}

func leanPairList(xs [][2]string) string {
	q := []string{}
	for _, x := range xs {
		q = append(q, fmt.Sprintf("(%q, %q)", x[0], x[1]))
	}
	return "[" + strings.Join(q, ", ") + "]"
}

// memDecls: every function and method of package memory (receiver type "" for functions)
var memDecls = map[[2]string]*ast.FuncDecl{}

func tablePairs(fd *ast.FuncDecl, call *ast.CallExpr) ([][2]string, bool) {
	helperName, ok := call.Fun.(*ast.Ident)
	if !ok || len(call.Args) != 1 {
		return nil, false
	}
	tcall, ok := call.Args[0].(*ast.CallExpr)
	if !ok || len(tcall.Args) != 0 {
		return nil, false
	}
	tsel, ok := tcall.Fun.(*ast.SelectorExpr)
	if !ok {
		return nil, false
	}
	if _, isIdent := tsel.X.(*ast.Ident); !isIdent {
		return nil, false
	}
	helper, table := memDecls[[2]string{"", helperName.Name}], memDecls[[2]string{recvType(fd), tsel.Sel.Name}]
	if helper == nil || table == nil || helper.Body == nil || table.Body == nil || len(helper.Body.List) != 1 || len(table.Body.List) != 1 {
		return nil, false
	}
	// the helper: one range loop over its only parameter whose body is one copy(r.X, r.Y)
	rs, ok := helper.Body.List[0].(*ast.RangeStmt)
	if !ok || rs.Value == nil || len(rs.Body.List) != 1 || helper.Type.Params == nil || len(helper.Type.Params.List) != 1 || len(helper.Type.Params.List[0].Names) != 1 {
		return nil, false
	}
	if id, ok := rs.X.(*ast.Ident); !ok || id.Name != helper.Type.Params.List[0].Names[0].Name {
		return nil, false
	}
	es, ok := rs.Body.List[0].(*ast.ExprStmt)
	if !ok {
		return nil, false
	}
	cp, ok := es.X.(*ast.CallExpr)
	if !ok || exprString(cp.Fun) != "copy" || len(cp.Args) != 2 {
		return nil, false
	}
	rowField := func(e ast.Expr) (string, bool) {
		s, ok := e.(*ast.SelectorExpr)
		if !ok {
			return "", false
		}
		id, ok := s.X.(*ast.Ident)
		return s.Sel.Name, ok && id.Name == exprString(rs.Value)
	}
	dstF, ok1 := rowField(cp.Args[0])
	srcF, ok2 := rowField(cp.Args[1])
	if !ok1 || !ok2 {
		return nil, false
	}
	// the table: `return <slice literal of keyed struct literals>`
	ret, ok := table.Body.List[0].(*ast.ReturnStmt)
	if !ok || len(ret.Results) != 1 {
		return nil, false
	}
	lit, ok := ret.Results[0].(*ast.CompositeLit)
	if !ok {
		return nil, false
	}
	res := [][2]string{}
	for _, e := range lit.Elts {
		row, ok := e.(*ast.CompositeLit)
		if !ok {
			return nil, false
		}
		vals := map[string]string{}
		for _, kv := range row.Elts {
			k, ok := kv.(*ast.KeyValueExpr)
			if !ok {
				return nil, false
			}
			f, ok := fieldOf(k.Value)
			if !ok {
				return nil, false
			}
			vals[exprString(k.Key)] = f
		}
		d, ok1 := vals[dstF]
		s, ok2 := vals[srcF]
		if !ok1 || !ok2 {
			return nil, false
		}
		res = append(res, [2]string{d, s})
	}
	return res, len(res) > 0
}

// copyPairs: `copy(r.A, r.B)` and `r.A = r.B` statements of a method, as (dst, src) field pairs
func copyPairs(fd *ast.FuncDecl) ([][2]string, error) {
	res := [][2]string{}
	for _, st := range fd.Body.List {
		switch v := st.(type) {
		case *ast.ExprStmt:
			call, ok := v.X.(*ast.CallExpr)
			if !ok {
				return nil, fmt.Errorf("unexpected statement in %s", fd.Name.Name)
			}
			if id, ok := call.Fun.(*ast.Ident); ok && id.Name == "copy" && len(call.Args) == 2 {
				d, ok1 := fieldOf(call.Args[0])
				s, ok2 := fieldOf(call.Args[1])
				if !ok1 || !ok2 {
					return nil, fmt.Errorf("copy with non-field arguments in %s", fd.Name.Name)
				}
				res = append(res, [2]string{d, s})
				continue
			}
			// table-driven form: helper(recv.table()) with helper = `for _, r := range t { copy(r.X, r.Y) }` and
			// table = `return []T{{X: recv.a, Y: recv.b}, ...}` — the same copies, one per table row
			if tp, ok := tablePairs(fd, call); ok {
				res = append(res, tp...)
				continue
			}
			// delegation p.mem.TakeSnapshot(): recorded as ("->", "<type of the field>.method")
			res = append(res, [2]string{"->", normDeleg(fd, call.Fun)})
		case *ast.AssignStmt:
			if len(v.Lhs) != len(v.Rhs) || v.Tok != token.ASSIGN {
				return nil, fmt.Errorf("unexpected assignment in %s", fd.Name.Name)
			}
			// `a, b = c, d` copies c to a and d to b (the right-hand sides are plain fields: no aliasing between them)
			for i := range v.Lhs {
				d, ok1 := fieldOf(v.Lhs[i])
				s, ok2 := fieldOf(v.Rhs[i])
				if !ok1 || !ok2 {
					return nil, fmt.Errorf("assignment with non-field operands in %s", fd.Name.Name)
				}
				res = append(res, [2]string{d, s})
			}
		default:
			return nil, fmt.Errorf("unexpected statement %T in %s", st, fd.Name.Name)
		}
	}
	return res, nil
}

// zeroedFields: fields set to zero by ClearStatistics (`r.F[i] = 0` inside a loop, or `r.F = 0`)
// zeroingHelpers: package functions with one slice parameter whose body sets every element of it to zero
// (`for i := range p { p[i] = 0 }`, a counting loop doing the same, or `clear(p)`)
var zeroingHelpers = map[string]bool{}

func collectZeroingHelpers(files map[string]*ast.File) {
	for _, f := range files {
		for _, d := range f.Decls {
			fd, ok := d.(*ast.FuncDecl)
			if !ok || fd.Recv != nil || fd.Body == nil || fd.Type.Params == nil || len(fd.Type.Params.List) != 1 || len(fd.Type.Params.List[0].Names) != 1 {
				continue
			}
			if _, isSlice := fd.Type.Params.List[0].Type.(*ast.ArrayType); !isSlice {
				continue
			}
			p := fd.Type.Params.List[0].Names[0].Name
			if len(fd.Body.List) != 1 {
				continue
			}
			if zeroesAll(fd.Body.List[0], p) {
				zeroingHelpers[fd.Name.Name] = true
			}
		}
	}
}

// zeroesAll: the statement sets every element of the slice variable `name` to zero
func zeroesAll(st ast.Stmt, name string) bool {
	switch v := st.(type) {
	case *ast.ExprStmt:
		if c, ok := v.X.(*ast.CallExpr); ok && exprString(c.Fun) == "clear" && len(c.Args) == 1 && exprString(c.Args[0]) == name {
			return true
		}
	case *ast.RangeStmt:
		// for i := range name { name[i] = 0 }
		if exprString(v.X) != name || v.Key == nil || len(v.Body.List) != 1 {
			return false
		}
		return isZeroAssign(v.Body.List[0], name, exprString(v.Key))
	case *ast.ForStmt:
		// for i := 0; i < len(name); i++ { name[i] = 0 }
		init, ok := v.Init.(*ast.AssignStmt)
		cond, ok2 := v.Cond.(*ast.BinaryExpr)
		if !ok || !ok2 || len(init.Lhs) != 1 || len(v.Body.List) != 1 || cond.Op != token.LSS {
			return false
		}
		if z, isLit := intLit(init.Rhs[0]); !isLit || z != 0 {
			return false
		}
		if exprString(cond.Y) != "len("+name+")" {
			return false
		}
		return isZeroAssign(v.Body.List[0], name, exprString(init.Lhs[0]))
	}
	return false
}

func isZeroAssign(st ast.Stmt, name, idx string) bool {
	as, ok := st.(*ast.AssignStmt)
	if !ok || len(as.Lhs) != 1 || len(as.Rhs) != 1 {
		return false
	}
	if z, isLit := intLit(as.Rhs[0]); !isLit || z != 0 {
		return false
	}
	ix, ok := as.Lhs[0].(*ast.IndexExpr)
	return ok && exprString(ix.X) == name && exprString(ix.Index) == idx
}

func zeroedFields(fd *ast.FuncDecl) ([]string, error) {
	res := []string{}
	var err error
	ast.Inspect(fd.Body, func(n ast.Node) bool {
		// helper(x.field) with a helper that zeroes its argument
		if call, ok := n.(*ast.CallExpr); ok && len(call.Args) == 1 {
			if id, ok := call.Fun.(*ast.Ident); ok && zeroingHelpers[id.Name] {
				if f, ok := fieldOf(call.Args[0]); ok {
					res = append(res, f)
				}
			}
		}
		// for _, v := range [][]T{x.a, x.b} { <zero every element of v> }
		if rs, ok := n.(*ast.RangeStmt); ok && rs.Value != nil && len(rs.Body.List) == 1 {
			if cl, ok := rs.X.(*ast.CompositeLit); ok && zeroesAll(rs.Body.List[0], exprString(rs.Value)) {
				for _, el := range cl.Elts {
					if f, ok := fieldOf(el); ok {
						res = append(res, f)
					}
				}
			}
		}
		as, ok := n.(*ast.AssignStmt)
		if !ok {
			return true
		}
		if len(as.Lhs) != 1 || len(as.Rhs) != 1 {
			return true
		}
		if v, ok := intLit(as.Rhs[0]); !ok || v != 0 {
			return true
		}
		lhs := as.Lhs[0]
		if ix, ok := lhs.(*ast.IndexExpr); ok {
			lhs = ix.X
		}
		if f, ok := fieldOf(lhs); ok {
			res = append(res, f)
		} else if _, isIdent := lhs.(*ast.Ident); !isIdent {
			err = fmt.Errorf("unexpected zero assignment in %s", fd.Name.Name)
		}
		return true
	})
	if len(res) == 0 {
		// delegation
		for _, st := range fd.Body.List {
			if es, ok := st.(*ast.ExprStmt); ok {
				if call, ok := es.X.(*ast.CallExpr); ok {
					res = append(res, "->"+normDeleg(fd, call.Fun))
				}
			}
		}
	}
	return res, err
}

// structFieldTypes: struct type -> field -> declared type, of package memory
var structFieldTypes = map[string]map[string]string{}

// namedBasic: `type X = Y` / `type X Y` with Y an identifier, of package memory (to see through a counter type alias)
var namedBasic = map[string]string{}

func collectStructFields(files map[string]*ast.File) {
	for _, f := range files {
		ast.Inspect(f, func(n ast.Node) bool {
			ts, ok := n.(*ast.TypeSpec)
			if !ok {
				return true
			}
			if id, isIdent := ts.Type.(*ast.Ident); isIdent {
				namedBasic[ts.Name.Name] = id.Name
			}
			st, ok := ts.Type.(*ast.StructType)
			if !ok {
				return true
			}
			m := map[string]string{}
			for _, fl := range st.Fields.List {
				for _, nm := range fl.Names {
					if at, isArr := fl.Type.(*ast.ArrayType); isArr && at.Len == nil {
						m[nm.Name] = "[]" + exprString(at.Elt)
					} else {
						m[nm.Name] = exprString(fl.Type)
					}
				}
			}
			structFieldTypes[ts.Name.Name] = m
			return true
		})
	}
}

// normDeleg: `recv.field.Method` is written `<T>.Method` where T is the declared type of the field (the name of the
// receiver and of the field are not facts the model depends on); anything else as it stands
func normDeleg(fd *ast.FuncDecl, fun ast.Expr) string {
	if outer, ok := fun.(*ast.SelectorExpr); ok {
		if inner, ok := outer.X.(*ast.SelectorExpr); ok {
			if id, ok := inner.X.(*ast.Ident); ok && fd.Recv != nil && len(fd.Recv.List) == 1 && len(fd.Recv.List[0].Names) == 1 &&
				fd.Recv.List[0].Names[0].Name == id.Name {
				if t, ok := structFieldTypes[recvType(fd)][inner.Sel.Name]; ok {
					return "<" + t + ">." + outer.Sel.Name
				}
			}
		}
	}
	return exprString(fun)
}

func doMemory(repo, outDir string) {
	files := parseDir(filepath.Join(repo, "memory"))
	collectStructFields(files)
	for _, f := range files {
		for _, d := range f.Decls {
			if fd, ok := d.(*ast.FuncDecl); ok {
				memDecls[[2]string{recvType(fd), fd.Name.Name}] = fd
			}
		}
	}
	collectZeroingHelpers(files)
	type key struct{ typ, method string }
	methods := map[key]*ast.FuncDecl{}
	for _, f := range files {
		for _, d := range f.Decls {
			if fd, ok := d.(*ast.FuncDecl); ok && fd.Body != nil {
				methods[key{recvType(fd), fd.Name.Name}] = fd
			}
		}
	}
	types := []string{"LinearMemory", "X16Memory", "NeoGeoRam", "F256RevBMemory", "WrappingMemory"}
	var b strings.Builder
	b.WriteString(header)
	b.WriteString("namespace Verif.Generated\n\n")
	b.WriteString("/-! `copy(dst, src)` / `dst = src` statements of TakeSnapshot / RestoreSnapshot and the fields zeroed by\n    ClearStatistics, per memory type, as Go field names (`->x` = delegation to x) -/\n\n")
	okAll := true
	for _, t := range types {
		for _, m := range []string{"TakeSnapshot", "RestoreSnapshot"} {
			fd, ok := methods[key{t, m}]
			if !ok {
				fail("memory.snapshot", fmt.Sprintf("%s.%s not found", t, m))
				okAll = false
				continue
			}
			pairs, err := copyPairs(fd)
			if err == nil {
				for _, pr := range pairs {
					// only the forwarding of a wrapper to the wrapped Memory is a delegation the model knows; a memory
					// model that hands its copies to methods of a region type of its own is a shape this reader does not follow
					if pr[0] == "->" && !strings.HasPrefix(pr[1], "<Memory>.") {
						err = fmt.Errorf("%s.%s delegates to %s", t, m, pr[1])
					}
				}
			}
			if err != nil {
				fail("memory.snapshot", err)
				okAll = false
				continue
			}
			fmt.Fprintf(&b, "def %s_%s : List (String × String) := %s\n", t, m, leanPairList(pairs))
		}
		fd, ok := methods[key{t, "ClearStatistics"}]
		if !ok {
			fail("memory.clear", fmt.Sprintf("%s.ClearStatistics not found", t))
			okAll = false
			continue
		}
		fields, err := zeroedFields(fd)
		if err == nil && len(fields) == 0 {
			err = fmt.Errorf("%s.ClearStatistics: no zeroed counter recognised", t)
		}
		if err == nil {
			for _, f := range fields {
				if strings.HasPrefix(f, "->") && !strings.HasPrefix(f, "-><Memory>.") {
					err = fmt.Errorf("%s.ClearStatistics delegates to %s", t, f[2:])
				}
			}
		}
		if err != nil {
			fail("memory.clear", err)
			okAll = false
			continue
		}
		fmt.Fprintf(&b, "def %s_ClearStatistics : List String := %s\n\n", t, leanStrList(fields))
	}

	// declared element type of every counter field (the fields ClearStatistics zeroes), type names resolved
	b.WriteString("/-- declared type of every access counter field (the fields zeroed by ClearStatistics): (memory type, field, type) -/\n")
	ctParts := []string{}
	for _, t := range types {
		fd, ok := methods[key{t, "ClearStatistics"}]
		if !ok {
			continue
		}
		fields, err := zeroedFields(fd)
		if err != nil {
			continue
		}
		for _, f := range fields {
			if strings.HasPrefix(f, "->") {
				continue
			}
			ty := structFieldTypes[t][f]
			for i := 0; i < 4; i++ {
				el := strings.TrimPrefix(ty, "[]")
				if u, ok := namedBasic[el]; ok {
					ty = strings.TrimSuffix(ty, el) + u
				}
			}
			ctParts = append(ctParts, fmt.Sprintf("(%q, %q, %q)", t, f, ty))
		}
	}
	fmt.Fprintf(&b, "def counterFieldTypes : List (String × String × String) := [%s]\n\n", strings.Join(ctParts, ", "))

	// allocation lengths: `field: make([]T, len)` in composite literals, also through a local `x := make(...)`
	b.WriteString("/-- length expression of every slice field allocated with make in package memory (type, field, expression) -/\n")
	allocs := [][3]string{}
	names := []string{}
	for n := range files {
		names = append(names, n)
	}
	sort.Strings(names)
	for _, n := range names {
		ast.Inspect(files[n], func(nd ast.Node) bool {
			fd, ok := nd.(*ast.FuncDecl)
			if !ok || fd.Body == nil {
				return true
			}
			locals := map[string]string{}
			makeLen := func(e ast.Expr) (string, bool) {
				if c, ok := e.(*ast.CallExpr); ok {
					if id, ok := c.Fun.(*ast.Ident); ok && id.Name == "make" && len(c.Args) >= 2 {
						return exprString(c.Args[1]), true
					}
				}
				if id, ok := e.(*ast.Ident); ok {
					if l, ok := locals[id.Name]; ok {
						return l, true
					}
				}
				return "", false
			}
			ast.Inspect(fd.Body, func(x ast.Node) bool {
				switch v := x.(type) {
				case *ast.AssignStmt:
					if len(v.Lhs) == 1 && len(v.Rhs) == 1 {
						if id, ok := v.Lhs[0].(*ast.Ident); ok {
							if l, ok := makeLen(v.Rhs[0]); ok {
								locals[id.Name] = l
							}
						}
					}
				case *ast.CompositeLit:
					tn, ok := v.Type.(*ast.Ident)
					if !ok {
						return true
					}
					for _, el := range v.Elts {
						kv, ok := el.(*ast.KeyValueExpr)
						if !ok {
							continue
						}
						if id, ok := kv.Key.(*ast.Ident); ok {
							if l, ok := makeLen(kv.Value); ok {
								allocs = append(allocs, [3]string{tn.Name, id.Name, l})
							}
						}
					}
				}
				return true
			})
			return false
		})
	}
	parts := []string{}
	for _, a := range allocs {
		parts = append(parts, fmt.Sprintf("(%q, %q, %q)", a[0], a[1], a[2]))
	}
	// every memory model allocates its buffers with make in a composite literal (or through a local): a model for which
	// nothing was recognised (e.g. a helper returning several slices at once) is a shape this reader does not follow
	for _, t := range []string{"LinearMemory", "X16Memory", "NeoGeoRam", "F256RevBMemory"} {
		have := 0
		for _, a := range allocs {
			if a[0] == t {
				have++
			}
		}
		if have < 3 {
			fail("memory.alloc", fmt.Sprintf("%s: allocation lengths not recognised", t))
			okAll = false
		}
	}
	fmt.Fprintf(&b, "def allocLens : List (String × String × String) := [%s]\n\n", strings.Join(parts, ", "))

	// emuconfig.Config.NewCpu: switch c.MemSpec { case L16: mem = memory.NewLinearMemory(16384) ... }
	cfiles := parseDir(filepath.Join(repo, "emuconfig"))
	consts := map[string]string{}
	for _, f := range cfiles {
		for _, d := range f.Decls {
			gd, ok := d.(*ast.GenDecl)
			if !ok || gd.Tok != token.CONST {
				continue
			}
			for _, sp := range gd.Specs {
				vs := sp.(*ast.ValueSpec)
				for i, n := range vs.Names {
					if i < len(vs.Values) {
						if bl, ok := vs.Values[i].(*ast.BasicLit); ok && bl.Kind == token.STRING {
							consts[n.Name] = strings.Trim(bl.Value, "\"")
						}
					}
				}
			}
		}
	}
	cfns := funcs(cfiles)
	specs := [][]string{}
	if _, ok := cfns["NewCpu"]; ok {
		// the switch over the MemSpec string: in NewCpu or in any helper of the package it was moved to
		fnNames := []string{}
		for n := range cfns {
			fnNames = append(fnNames, n)
		}
		sort.Strings(fnNames)
		for _, fnName := range fnNames {
			fd := cfns[fnName]
			if fd.Body == nil || len(specs) > 0 {
				continue
			}
			ast.Inspect(fd.Body, func(n ast.Node) bool {
				sw, ok := n.(*ast.SwitchStmt)
				if !ok {
					return true
				}
				if sw.Tag == nil || !strings.HasSuffix(exprString(sw.Tag), ".MemSpec") {
					return true
				}
				for _, cc := range sw.Body.List {
					clause := cc.(*ast.CaseClause)
					names := []string{}
					for _, e := range clause.List {
						if id, ok := e.(*ast.Ident); ok {
							if v, ok := consts[id.Name]; ok {
								names = append(names, v)
								continue
							}
						}
						names = append(names, "?"+exprString(e))
					}
					if clause.List == nil {
						names = []string{"default"}
					}
					if len(clause.Body) != 1 {
						fail("config.memspec", "case body is not a single statement")
						okAll = false
						continue
					}
					var rhs ast.Expr
					switch st := clause.Body[0].(type) {
					case *ast.AssignStmt:
						if len(st.Rhs) == 1 {
							rhs = st.Rhs[0]
						}
					case *ast.ReturnStmt:
						if len(st.Results) >= 1 {
							rhs = st.Results[0]
						}
					}
					if rhs == nil {
						fail("config.memspec", "case body is not an assignment or return")
						okAll = false
						continue
					}
					call, ok := rhs.(*ast.CallExpr)
					if !ok {
						fail("config.memspec", "case body is not a constructor call")
						okAll = false
						continue
					}
					args := []string{}
					for _, a := range call.Args {
						as := exprString(a)
						for _, ch := range as {
							if !(ch == '.' || ch == ' ' || ch == '+' || ch == '_' || ch >= '0' && ch <= '9' || ch >= 'a' && ch <= 'z' || ch >= 'A' && ch <= 'Z') {
								// not a literal or a named constant (e.g. a table lookup): the machine built is not readable here
								fail("config.memspec", "constructor argument is not a literal or constant: "+as)
								okAll = false
							}
						}
						args = append(args, as)
					}
					for _, nm := range names {
						specs = append(specs, []string{nm, exprString(call.Fun), strings.Join(args, ",")})
					}
				}
				return false
			})
		}
		if len(specs) == 0 {
			// no switch over MemSpec any more (e.g. a table of constructors): this fact cannot be read; the committed
			// baseline stays in place and the streams that probe the built machines are widened
			fail("config.memspec", "no switch over MemSpec found in package emuconfig")
			okAll = false
		}
	} else {
		fail("config.memspec", "NewCpu not found")
		okAll = false
	}
	sort.Slice(specs, func(i, j int) bool { return specs[i][0] < specs[j][0] })
	b.WriteString("/-- `switch c.MemSpec` of emuconfig.Config.NewCpu: (MemSpec, constructor, arguments) -/\n")
	b.WriteString("def memSpecSwitch : List (String × String × String) := [\n")
	for i, s := range specs {
		sep := ","
		if i == len(specs)-1 {
			sep = ""
		}
		fmt.Fprintf(&b, "  (%q, %q, %q)%s\n", s[0], s[1], s[2], sep)
	}
	b.WriteString("]\n\nend Verif.Generated\n")
	if okAll {
		writeIfChanged(filepath.Join(outDir, "Memory.lean"), b.String())
	}
}
