package main

// doMore extracts the non-CPU facts (memory constants, loop counter widths, regex literals, ...).
func doMore(repo, outDir string) {
}
