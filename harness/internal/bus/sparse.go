// Package bus provides memory.Memory implementations used by the correspondence harness.
package bus

import (
	"6502profiler/memory"
	"fmt"
	"sort"
	"strings"
)

type Event struct {
	Write bool
	Addr  uint16
	Val   uint8
}

// Sparse is a recording memory: bytes that were not defined read as 0x00 (= BRK, the simulator's
// halt instruction), every call is logged in order, and a bus-operation budget turns a
// run-away program into a (recovered) panic.
type Sparse struct {
	Mem    map[uint16]uint8
	Trace  []Event
	Budget int
}

func NewSparse(mem map[uint16]uint8, budget int) *Sparse {
	m := make(map[uint16]uint8, len(mem))
	for k, v := range mem {
		m[k] = v
	}
	return &Sparse{Mem: m, Budget: budget}
}

func (s *Sparse) tick() {
	if s.Budget <= 0 {
		panic("budget exhausted")
	}
	s.Budget--
}

func (s *Sparse) Load(address uint16) uint8 {
	s.tick()
	v := s.Mem[address]
	s.Trace = append(s.Trace, Event{false, address, v})
	return v
}

func (s *Sparse) Store(address uint16, b uint8) {
	s.tick()
	s.Mem[address] = b
	s.Trace = append(s.Trace, Event{true, address, b})
}

func (s *Sparse) GetStatistics(address uint16) uint64 { return 0 }
func (s *Sparse) ToLargeMemory() memory.LargeMemory   { return nil }
func (s *Sparse) ClearStatistics()                    {}
func (s *Sparse) TakeSnapshot()                       {}
func (s *Sparse) RestoreSnapshot()                    {}

func TraceString(t []Event) string {
	var b strings.Builder
	for i, e := range t {
		if i > 0 {
			b.WriteByte(' ')
		}
		c := 'R'
		if e.Write {
			c = 'W'
		}
		fmt.Fprintf(&b, "%c%04x:%02x", c, e.Addr, e.Val)
	}
	return b.String()
}

func MemString(mem map[uint16]uint8) string {
	keys := make([]int, 0, len(mem))
	for k := range mem {
		keys = append(keys, int(k))
	}
	sort.Ints(keys)
	var b strings.Builder
	for i, k := range keys {
		if i > 0 {
			b.WriteByte(' ')
		}
		fmt.Fprintf(&b, "%04x=%02x", k, mem[uint16(k)])
	}
	return b.String()
}
