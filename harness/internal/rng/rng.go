// Package rng is the single source of randomness of the harness: splitmix64 seeded by VERIF_SEED.
package rng

type R struct{ s uint64 }

func New(seed uint64) *R { return &R{s: seed*0x9E3779B97F4A7C15 + 0x1234567} }

func (r *R) U64() uint64 {
	r.s += 0x9E3779B97F4A7C15
	z := r.s
	z = (z ^ (z >> 30)) * 0xBF58476D1CE4E5B9
	z = (z ^ (z >> 27)) * 0x94D049BB133111EB
	return z ^ (z >> 31)
}

func (r *R) Intn(n int) int {
	if n <= 0 {
		return 0
	}
	return int(r.U64() % uint64(n))
}

func (r *R) Byte() uint8       { return uint8(r.U64()) }
func (r *R) Word() uint16      { return uint16(r.U64()) }
func (r *R) Bool() bool        { return r.U64()&1 == 1 }
func (r *R) Chance(p int) bool { return r.Intn(100) < p }

// Fork derives an independent stream (so that sub-generators do not disturb each other)
func (r *R) Fork() *R { return New(r.U64()) }

var boundaryBytes = []uint8{0x00, 0x01, 0x0F, 0x10, 0x7F, 0x80, 0x99, 0x9A, 0xFE, 0xFF}

// BByte returns a boundary byte most of the time, a uniformly random one otherwise
func (r *R) BByte() uint8 {
	if r.Chance(60) {
		return boundaryBytes[r.Intn(len(boundaryBytes))]
	}
	return r.Byte()
}

// BCD returns a valid BCD byte
func (r *R) BCD() uint8 { return uint8(r.Intn(10))<<4 | uint8(r.Intn(10)) }

func PickU16(r *R, xs []uint16) uint16 { return xs[r.Intn(len(xs))] }
func PickU8(r *R, xs []uint8) uint8    { return xs[r.Intn(len(xs))] }
