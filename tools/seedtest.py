#!/usr/bin/env python3
"""Evaluate a seeded mutant against /repo and the checks.

  tools/seedtest.py import <worktree seed_out/mN dir> <ID> <name>   copy artefacts to /verif/seeded/<name>/
  tools/seedtest.py run <name> [check ids...]                        confirm + run checks, write results into meta.json

`run` applies seeded/<name>/patch.diff to /repo, confirms that the unedited test suite passes and that the
demonstration fails (and passes without the patch), runs the quick checks of the listed properties (default:
the property the mutant breaks) and reverts /repo straight afterwards.
"""
import json
import os
import re
import shutil
import subprocess
import sys

ROOT = os.environ.get("VERIF_ROOT", "/verif")
REPO = os.environ.get("VERIF_REPO", "/repo")
ENV = dict(os.environ, GOFLAGS="-mod=mod", GOPROXY="off", GOSUMDB="off", GOTOOLCHAIN="local")


def sh(cmd, cwd=None):
    r = subprocess.run(cmd, shell=True, cwd=cwd, env=ENV, stdout=subprocess.PIPE, stderr=subprocess.STDOUT, text=True)
    return r.returncode, r.stdout


def do_import(src, pid, name):
    dst = os.path.join(ROOT, "seeded", name)
    os.makedirs(dst, exist_ok=True)
    for f in os.listdir(src):
        if os.path.isfile(os.path.join(src, f)):
            shutil.copyfile(os.path.join(src, f), os.path.join(dst, f))
    mp = os.path.join(dst, "meta.json")
    meta = json.load(open(mp)) if os.path.exists(mp) else {}
    meta["property"] = pid
    json.dump(meta, open(mp, "w"), indent=1)
    print("imported", dst)


def demo_files(d):
    res = []
    for f in sorted(os.listdir(d)):
        if f.endswith("_test.go") or f.endswith(".go.txt"):
            first = open(os.path.join(d, f)).readline()
            m = re.search(r"path:\s*(\S+)", first)
            if m:
                res.append((os.path.join(d, f), m.group(1)))
    return res


def run_demo(d):
    """copy demo files to their intended paths, run the tests of those packages that match the demo names"""
    demos = demo_files(d)
    out_all, rc_all = "", 0
    for src, rel in demos:
        dst = os.path.join(REPO, rel)
        shutil.copyfile(src, dst)
        names = re.findall(r"^func (Test\w+)\(", open(src).read(), re.M)
        pkg = "./" + os.path.dirname(rel)
        rc, out = sh("go test -vet=off -count=1 -run '^(%s)$' %s" % ("|".join(names), pkg), cwd=REPO)
        os.remove(dst)
        out_all += out
        rc_all |= rc
    return rc_all, out_all, bool(demos)


def do_run(name, checks):
    d = os.path.join(ROOT, "seeded", name)
    meta = json.load(open(os.path.join(d, "meta.json")))
    pid = meta["property"]
    if not checks:
        checks = [pid]
    rc, out = sh("git status --porcelain", cwd=REPO)
    if out.strip():
        print("/repo is not clean:", out)
        sys.exit(2)
    result = {}
    # without the patch the demo passes
    rc0, out0, have = run_demo(d)
    result["demo_passes_without_patch"] = (rc0 == 0) if have else None
    rc, out = sh("git apply %s" % os.path.join(d, "patch.diff"), cwd=REPO)
    if rc != 0:
        print("patch does not apply:", out)
        sys.exit(2)
    try:
        rc, out = sh("go build ./... && go test -vet=off -count=1 ./...", cwd=REPO)
        result["suite_green_with_patch"] = (rc == 0)
        if rc != 0:
            result["suite_output"] = out[-1500:]
        rc1, out1, have = run_demo(d)
        result["demo_fails_with_patch"] = (rc1 != 0) if have else None
        result["checks"] = {}
        for c in checks:
            rc, out = sh("./check %s --tier quick" % c, cwd=ROOT)
            lines = [l for l in out.split("\n") if l.startswith("VIOLATION") or l.startswith("KNOWN-FINDING")]
            result["checks"][c] = {"exit": rc, "lines": lines[:6]}
    finally:
        sh("git checkout -- .", cwd=REPO)
        sh("git clean -fdq -- .", cwd=REPO)
        # the generated facts now describe the mutated tree: regenerate them from the reverted one
        sh("bin/extract %s lean/Verif/Generated work/facts.json work/optable.json" % REPO, cwd=ROOT)
    meta["verified"] = result
    json.dump(meta, open(os.path.join(d, "meta.json"), "w"), indent=1)
    print(json.dumps(result, indent=1))


if __name__ == "__main__":
    if sys.argv[1] == "import":
        do_import(sys.argv[2], sys.argv[3], sys.argv[4])
    elif sys.argv[1] == "run":
        do_run(sys.argv[2], sys.argv[3:])
