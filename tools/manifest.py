#!/usr/bin/env python3
"""Regenerates MANIFEST.json from the registry below (run by hand after adding a check)."""
import json

props = [json.loads(l) for l in open('/verif/properties.jsonl')]
ids = [p['id'] for p in props]

NOTE = ("Trusted: Lean 4.33 kernel; axioms propext/Classical.choice/Quot.sound only (audited per theorem on every run); "
        "the hand-written Spec (data sheets / README / property text); the go/ast extractor and the differential harness; "
        "the compiled Lean driver for executing model and spec. Modelled, not verified: Go semantics of the mirrored "
        "functions (tied by differential execution on every run).")

claimed = {
 "C01": dict(
   text="Lean 4 proof (kernel-checked, unbounded): for every register state and every byte the bus may return, below every opcode the data sheets define, the code-shaped Impl model instantiated with the opcode table and literals extracted from /repo on this run makes exactly the specification's stores and leaves the specification's registers outside the don't-care masks (interaction-tree refinement, 213 handler theorems + ALU/address lemma library for all operand values). Tie: regenerated table fact re-proved by lake on every run + differential execution of the real cpu package against the compiled model on every opcode of both models; the executable Spec is evaluated on every Go result to produce a concrete failing input. Lifted to executions (C01_path_stores: along every path the implemented step makes exactly the specification's stores) and to runs (C01_run: on every plain bus, from every state, for every number of instructions, the run of the code and the run of the specification's own fetch-decode-execute loop stop the same way in the same registers and memory while the executed path is exactly specified). One open known finding (65C02 BIT #imm) is excluded by exactly its signature (C01_step_partial / Findings.C01 witness).",
   technique="Lean 4 interaction-tree refinement proof + regenerated opcode table + differential correspondence"),
 "C02": dict(
   text="Lean 4 proof: per instruction the Impl model reports the data-sheet cycles incl. page-cross, branch and decimal penalties for all geometries (C02_step, against the full Spec); run total = start + sum over the executed path, halting BRK adds nothing, reset/continue and split laws by induction on fuel; against the specification's own run loop: counter after a run = counter before + sum of the data-sheet cycles of every executed non-halting instruction (C02_total, on every plain bus while the executed path is exactly specified); CPU6502.Reset as the source has it now leaves the counter at zero (C02_reset_call, over the regenerated statement list of Reset, independent of statement order). Tie: cycle literals and opcode table regenerated from the Go AST on every run (consts_ok, implemented_entry re-proved) + differential single-step execution comparing NumCycles + sequences of RunExt(pc, reset) and Reset() calls on one CPU comparing the reported totals.",
   technique="Lean 4 refinement proof + regenerated cycle literals (rfl) + differential correspondence"),
 "C03": dict(
   text="Lean 4 proof: the tree of bus accesses of every implemented opcode equals the specification's logical accesses (same kind, address, order; no extra, none missing) for every state and bus answer (C03_step, C03_multiset, C03_fetch_once); on any counting bus the counter of every address grows over a run by exactly the accesses the executed instructions issued (C03_run); after a run on a counted bus, and on each of the memory models used as a bus, every per-address / per-physical-byte access statistic equals that of the specification's own run (C03_run_spec, C03_run_machine). Tie: regenerated opcode table + trace-exact differential on a recording bus.",
   technique="Lean 4 tree-shape refinement proof + trace-exact differential correspondence"),
 "C11": dict(
   text="Lean 4 proof: nothing is registered where the data sheets define nothing (regenerated table fact, both models); an unimplemented opcode yields exactly one fetch then the illegal-opcode error with registers untouched; totality of the model (three exits). The host-crash part (Go runtime) is PARTIAL: validated by execution only - random cases under a bus watchdog in-process, and generated programs on the ten real memory machines run in child processes of the harness so that a fatal (unrecoverable) runtime error is attributed to the program that caused it.",
   technique="Lean 4 proof over regenerated opcode table + differential correspondence (runtime part partial)"),
 "C04": dict(
   text="Lean 4 proof: the Go address decoders (machine arithmetic, all four memory types) equal the documented map for all 65 536 addresses x all values of every banking register / LUT entry (C04_decode, no enumeration); read-your-writes by induction over arbitrary histories with banking state resolved at access time (C04_ryw); one-byte stores, in-bounds, linear fault boundary. Tie: MemSpec switch regenerated from emuconfig (memspec_builds) + history differential on the ten real machines against the compiled model and against the specification's documented map.",
   technique="Lean 4 decoder-equivalence proof + history induction + regenerated MemSpec switch + differential histories"),
 "C05": dict(
   text="Lean 4 proof: calcLongIndex = README layout for all 2^32 linear addresses (C05_layout); the layout is a bank-independent injection and surjection onto all cells with a linear address, faults past the end, coherent with the CPU view (C05_inj, C05_surj, C05_bank_indep, C05_fault, C05_coherent). Tie: differential histories mixing both views on the real machines incl. past-the-end probes and complete final image sweeps; read_byte_long / write_byte_long from generated Lua scripts on the banked machines.",
   technique="Lean 4 bijection/coherence proof + differential histories through both views"),
 "C06": dict(
   text="Lean 4 proof: counter of a cell after any history = accesses since the last clear that resolved to it, by induction over histories with bank switches, both views, queries, clears, snapshots (C06_count); queries pure; clear total; every counter array is allocated as long as the data buffer of its region (C06_counters_sized, regenerated allocation facts). Tie: the list of counters ClearStatistics zeroes is regenerated from the Go AST and proved to cover every region (clear_covers) + differential histories with interleaved queries and a complete final counter sweep.",
   technique="Lean 4 history induction + regenerated clear lists + differential histories with full counter sweep"),
 "C07": dict(
   text="Lean 4 proof: snapshot; any history without TakeSnapshot; restore returns every cell of every region (banks, registers, LUTs) to its snapshot-time value; snapshot immutable; repeatable (C07_restore, C07_snapshot_immutable, C07_repeat). Tie: the copy statements of TakeSnapshot/RestoreSnapshot of every memory type and the forwarding of the wrapper are regenerated from the Go AST and proved to cover every region, to use pairwise distinct buffers and buffers allocated as long as what they save (snapshot_covers, take_targets_distinct, C07_buffers, wrapper_forwards) + executions on the real machines comparing the complete image after each restore with the image at snapshot time.",
   technique="Lean 4 history proof + regenerated snapshot copy lists + snapshot/restore image comparison on real machines"),
 "C20": dict(
   text="Lean 4 proof: for every range start<=end<=$FFFF the dump loop (counter width regenerated from the Go source, obligation 17<=bits) terminates after end-start+1 iterations, the lines concatenated are exactly the addresses start..end once in ascending order, every line but the last has 16 entries and line k starts at start+16k (C20_bytes, C20_lines, C20_terminates); a 16-bit counter provably never exits at $FFFF (counterLoop_diverges_16); an accepted specification is digits:digits, in range, non-zero, non-wrapping (C20_spec_form, C20_spec_sound, C20_spec_complete); validation precedes loading (regenerated call-order fact). Tie: exact-text differential of memory.Dump and of the parameter parser through a build-tag hook.",
   technique="Lean 4 loop-termination and coverage proof + regenerated counter width/call order + exact-text differential"),
 "C13": dict(
   text="Lean 4 proof: a successful load reports the little-endian header and the payload length and its effect on memory is exactly the stores of payload byte i at (header+i) mod 65536 in order, every one succeeding, nothing else (C13_place, by induction on the payload, any memory model incl. banked ones); files under three bytes rejected with nothing written (C13_short); if the store of any byte faults after its predecessors were stored the load is an error (C13_fault, uses the regenerated fact that Load assigns CopyToMem's error); PreLoad uses the same copy (C13_preload). Tie: regenerated fact + differential of Load/PreloadRoms on all ten machines comparing result and full memory image.",
   technique="Lean 4 induction over the payload + regenerated error-use fact + differential with full image"),
 "C14": dict(
   text="Lean 4 proof: for every range start<=end<=$FFFF, label map, statistics and contents the report loop (counter width regenerated, obligation 17<=bits) terminates and the report is, in ascending order, for each address its labels in file order followed by exactly one address line with value and reduced count (C14_lines, C14_one_line_each, C14_value_count, C14_terminates). Tie: regenerated counter width + byte-exact differential of profiler.DumpStatistics and a structural check of the Go output.",
   technique="Lean 4 loop/structure proof + regenerated counter width + exact-text differential"),
 "C15": dict(
   text="Lean 4 proof for all count vectors and all p: upward closed, at least ceil(n*p/100) ranked items flagged, p=100 flags all, threshold is an observed value, antitone in p, clamped index always in range (C15_upward, C15_top, C15_all, C15_member, C15_antitone, C15_total) for both strategies, from sortedness/permutation of mergeSort and a counting lemma. The float64 index is an input constrained by an integer envelope (IdxOk); the envelope is validated exhaustively by execution (65 536 x 101) on every run: this part is execution, not proof, and is named in the trusted base. Tie: differential of the cut-off functions and flags.",
   technique="Lean 4 proof over sorted lists with an integer envelope for the float index (envelope validated exhaustively by execution) + differential"),
 "C19": dict(
   text="Lean 4 proof: the ACME recogniser accepts a line with (value, label) IF AND ONLY IF the line is a well-formed definition of that label with that value (C19_acme_exact, both directions, all strings); accepted 64tass lines have the documented shape with a hex field or a decimal field not above 65535 (C19_tass_sound); accepted values fit in 16 bits; file level: success iff no over-long line and every line accepted, definitions in file order, labels per address in file order (C19_file, C19_labels_order). The recognisers are hand-written for the regular expressions; regex literals and the scanner-error check are regenerated facts (C19_facts); recogniser = Go regexp is established by the differential, not by proof.",
   technique="Lean 4 exact-language proof for hand-written recognisers + regenerated regex/scanner facts + differential incl. all single-character corruptions"),
 "C16": dict(
   text="Lean 4 proof on plain 64K RAM with the register block in one page: after a store to a multiplier operand byte the four result bytes hold the little-endian 32-bit product of the two 16-bit operands as they are after that store, the byte itself holds the stored value, nothing else changes (C16_mul, C16_mul_data, all operand values); divider likewise with quotient/remainder and the zero-divisor case (C16_div, C16_div_data); units react exactly to their own four bytes and only when enabled (C16_enable); every other store, result registers included, is a plain store (C16_other). Tie: differential on machines built from configurations with all flag values and many bases.",
   technique="Lean 4 proof of the coprocessor handlers over function-update memory + differential store sequences"),
 "C18": dict(
   text="Lean 4 proof on a finite-map model of the directory, for every directory and arguments: a failing newcase leaves the directory unchanged, a successful one changes no existing file, failure exactly when case file, script or to-be-created driver exist (C18_add_fail, C18_add_fresh, C18_add_exact); every file delcase removes other than the named case file is the deleted case's driver or script and is referenced exactly once over all cases in either role (C18_del_safe, all branches incl. error paths); iteration enumerates exactly the *.json names with non-empty stem (C18_iter). Tie: operation-sequence differential on real directories.",
   technique="Lean 4 proof over a finite-map directory model + operation-sequence differential on real directories"),
 "C17": dict(
   text="Lean 4 proof: a configuration is accepted iff Model, MemSpec and AsmType are documented values (C17_accept); building fails iff some IoAddrConfig entry is not a recognised port specification (C17_ports); the machine built from an accepted configuration has the documented CPU model, the documented memory, the coprocessor units of the flag bits and one port per entry at the documented address (C17_exact); its instruction set is the data-sheet set of its model, 65C02 extensions iff 65C02 (C17_isa, C17_extensions). All over regenerated facts: allow-lists, MemSpec switch, parser order, port regexes, CPU model test, opcode table (C17_facts). Save/Load round trip trusts encoding/json and is checked by execution only.",
   technique="Lean 4 proof over regenerated configuration facts + behavioural probing differential"),
 "C08": dict(
   text="Lean 4 proof: with -prexec, for every machine the setup program leaves, every suite and everything its cases may do (any memory history through both views incl. bank switches and LUT edits but no TakeSnapshot, any registers, cycle counts, installed trap functions), every case in every position is handed reset registers, cycle count 0, no trap handler, zero counters on every byte of every bank and exactly the setup's memory image (C08_start, C08_independent, by induction over the suite on top of C07_restore and C06_clear_total); without -prexec the provider is a constant function of the configuration (C08_fresh). The statement lists of snapshotCpuProvider.NewCpu, newSnapshotProvider and CPU6502.Reset are regenerated from the source on every run. Tie: suites through the real caseexec.CaseExec, start machine and verdict compared between in-suite and solo runs. Modelled, not verified: that the Go fresh provider shares no memory between calls (only executed), gopher-lua.",
   technique="Lean 4 proof by induction over suites, over regenerated provider/Reset statement lists + in-suite vs solo differential through the real case executor"),
 "C10": dict(
   text="Lean 4 proof, for arbitrary program trees (hence any instruction sequence of the CPU model, tied to the data sheets by C01) on arbitrary inner buses (hence every memory model): the page test plus exact lookup intercepts exactly the trap address (C10_address); the trap log after a run is the old log followed by the values of the stores issued to the trap address in program order, one call per store (C10_log, induction over trees); an intercepted store performs no memory write of its own (C10_trap, C10_untouched) and the continuation runs with the script's registers on the script's memory (C10_script_effect); other addresses and all loads are the inner bus (C10_other, C10_load, C10_plain_run, C10_placeholder_idle); ports: stdout after a run is the old text plus each issued port store formatted by its own port with its own counter (C10_port_run, C10_port_store, C10_port_other, C10_format). Tie: generated programs with Lua trap functions mirrored in Lean through both trap implementations, and configured ports with captured stdout. Modelled, not verified: gopher-lua, os.Stdout; RMW 'modified value' rests on C01's store equality.",
   technique="Lean 4 proof by induction over interaction trees on a wrapper-bus model + program-level differential with mirrored Lua trap scripts and captured stdout"),
 "C12": dict(
   text="Lean 4 proof on a model of the script API acting on the very Machine the run loop executes: set_* then get_* returns the value for A, X, Y, SP, PC, setters change only their register, getters change nothing (C12_registers, C12_setters_frame, C12_getters_pure); the flag string: set_flags(get_flags()) keeps all seven named flags for all 256 values, every producible string round-trips, different flag sets give different strings (C12_flags_get_set, C12_flags_set_get, C12_flags_injective, decided over all bytes); set_memory/get_memory round-trip arbitrary strings of up to 65535 bytes at arbitrary addresses with wrap-around and touch nothing else (C12_memory_roundtrip, C12_memory_frame, induction, flat RAM), write_byte/read_byte are the program's bus operations on every bus (C12_same_bus, C12_byte_roundtrip); get_cycles after a continued run = counter before + executed path cycles (C12_cycles via C02); load_address/prog_len = header address / payload length (C12_globals). Tie: generated scripts through the real Execute, every value returned to Lua compared. Modelled, not verified: gopher-lua conversions (in-range arguments only), banked windows (covered by C04/C05).",
   technique="Lean 4 proof over a script-API model on the run loop's machine + differential with generated Lua scripts through the real test executor"),
 "C09": dict(
   text="Lean 4 proof over abstract script behaviours (any iteration count, any per-iteration behaviour of arrange / driver / assert): reported OK implies assembling, loading and script load succeeded, the driver ran to its BRK at least once (once per iteration) and every assert call made returned boolean true (C09_sound); any fault or non-true assert in a reached iteration, or an iteration count below one, implies not OK (C09_fail); verifyall succeeds iff every case passed and then prints the number of cases (C09_all, C09_count). Tie: generated Lua scripts and drivers through the real Execute / CaseExec / IterateTestCases with a fake assembler. Modelled, not verified: gopher-lua's VM and value conversions.",
   technique="Lean 4 proof over a verdict model + differential with generated Lua scripts through the real test executor"),
}

checks = []
for pid in ids:
    if pid in claimed:
        c = claimed[pid]
        checks.append({
            "property_id": pid,
            "quick_cmd": "./check %s --tier quick" % pid,
            "thorough_cmd": "./check %s --tier thorough" % pid,
            "evidence_file": "/verif/evidence/%s.json" % pid,
            "replay_cmd_template": "./check %s --replay {path}" % pid,
            "engine": "lean4-proof+correspondence",
            "level_claimed": {"category": "proof", "text": c["text"], "design_ref": "DESIGN.md section 4 " + pid},
            "level_note": NOTE,
            "technique": c["technique"],
        })

m = {
 "version": 1,
 "setup_cmd": "./setup.sh",
 "hooks": {"guard": "verif", "enable": "go build -tags verif (harness module with replace 6502profiler => /repo)",
           "baseline_off_cmd": "cd /repo && go test -vet=off -count=1 ./...",
           "source_commits": ["fb12de9", "5798b3b"], "add_only": True},
 "engines": [{"name": "lean4-proof+correspondence", "path": "/verif/check",
              "serves_properties": sorted(claimed),
              "kind_free_text": "Lean 4 theorems about a code-shaped model (lake build + axiom audit), regenerated facts from the Go AST, differential correspondence through a compiled Lean driver"}],
 "checks": checks,
 "notes": "See DESIGN.md. Fix commits in /repo are recorded in known_findings.json.",
 "not_applicable": [{"property_id": p, "reason": "check not built yet (work in progress, see DESIGN.md section 8); the technique applies"} for p in ids if p not in claimed],
}
json.dump(m, open('/verif/MANIFEST.json', 'w'), indent=1)
print(len(checks), "checks")
