#!/bin/sh
# Build the framework from files on disk only (offline).
set -e
cd "$(dirname "$0")"
exec ./check --setup
