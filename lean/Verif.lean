import Verif.Basic.Bits
import Verif.Basic.Prog
import Verif.Impl.Cpu
