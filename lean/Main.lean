import Driver.Cpu
import Driver.Mem
import Driver.Text
import Driver.Load
import Driver.Report
import Driver.Labels
import Driver.Coproc
import Driver.CaseRepo
import Driver.Config
import Driver.Flow
import Driver.Trap
import Driver.LuaApi
import Driver.WinCount
/-
  Driver: one request per line on stdin, one answer per line on stdout.
  Unknown or malformed lines answer `bad` (never a default).
-/
open Driver

def handle (line : String) : String :=
  let l := line.trimAsciiEnd.toString
  if l.startsWith "run " then handleRun l
  else if l.startsWith "runs " then handleRuns l
  else if l.startsWith "mem " then handleMem l
  else if l.startsWith "dump " then handleDump l
  else if l.startsWith "load " then handleLoad l
  else if l.startsWith "report " then handleReport l
  else if l.startsWith "coproc " then handleCoproc l
  else if l.startsWith "repo " then handleRepo l
  else if l.startsWith "config " then handleConfig l
  else if l.startsWith "verdict " then handleVerdict l
  else if l.startsWith "suite " then handleSuite l
  else if l.startsWith "isolation " then handleIsolation l
  else if l.startsWith "crash " then handleCrash l
  else if l.startsWith "luaapi " then handleLuaApi l
  else if l.startsWith "trap " then handleTrap l
  else if l.startsWith "port " then handlePort l
  else if l.startsWith "label " then handleLabel l
  else if l.startsWith "labelfile " then handleLabelFile l
  else if l.startsWith "idx " then handleIdx l
  else if l.startsWith "idxenvelope " then handleIdxEnvelope l
  else if l.startsWith "preload " then handlePreload l
  else if l.startsWith "load2 " then handleLoad2 l
  else if l.startsWith "machcount " then handleMachCount l
  else if l.startsWith "wincount " then handleWinCount l
  else if l.startsWith "trapglobals " then handleTrapGlobals l
  else if l.startsWith "longfault " then handleLongFault l
  else if l.startsWith "dumpspec " then handleDumpSpec l
  else if l.startsWith "e2edump " then handleE2eDump l
  else "bad"

partial def loop (hin : IO.FS.Stream) (hout : IO.FS.Stream) : IO Unit := do
  let line ← hin.getLine
  if line.isEmpty then return ()
  hout.putStrLn (handle line)
  loop hin hout

def main : IO Unit := do
  let hin ← IO.getStdin
  let hout ← IO.getStdout
  loop hin hout
  hout.flush
