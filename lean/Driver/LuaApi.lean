import Verif.Impl.LuaApi
import Verif.Impl.RunObs
import Verif.Facts.MemNow
import Driver.Trap
/-  `luaapi` verb (property C12): replay the script's API calls on the model machine. -/
namespace Driver
open Verif Verif.Impl

def parseApiOp (w : String) : Option ApiCall :=
  match w.splitOn ":" with
  | ["sa", v] => do some (.setA (← parseByte v))
  | ["sx", v] => do some (.setX (← parseByte v))
  | ["sy", v] => do some (.setY (← parseByte v))
  | ["ss", v] => do some (.setSP (← parseByte v))
  | ["sp", v] => do some (.setPC (← parseAddr v))
  | ["ga"] => some .getA
  | ["gx"] => some .getX
  | ["gy"] => some .getY
  | ["gs"] => some .getSP
  | ["gp"] => some .getPC
  | ["sf", s] => some (.setFlags s.toList)
  | ["gf"] => some .getFlags
  | ["wb", a, v] => do some (.writeByte (← parseAddr a) (← parseByte v))
  | ["rb", a] => do some (.readByte (← parseAddr a))
  | ["sm", a, h] => do some (.setMemory (← parseAddr a) ((← unhex h).map (BitVec.ofNat 8)))
  | ["gm", a, n] => do some (.getMemory (← parseAddr a) (← parseHex n))
  | ["gc"] => some .getCycles
  | _ => none

def showRet : ApiRet → Option String
  | .unit => none
  | .num n => some (toString n)
  | .str s => some (String.ofList s)
  | .bytes l => some ("m" ++ String.join (l.map hexB))
  | .fault => some "FAULT"

/-- bus state of the API replay: memory (the sparse flat memory for Linear64K, the memory model of Impl/Mem.lean
    for every other MemSpec, so that banked windows are what the program sees), the published cycle counter,
    everything `rec` recorded -/
structure TB where
  sb : SBus
  ms : Option (Spec.MemKind × MemState)
  cyc : Nat
  out : Array String
  /-- which API call produced each recorded token -/
  org : Array String := #[]
  /-- a write_byte_long has been executed -/
  wroteLong : Bool := false

def tbBus : Bus TB where
  load s a :=
    match s.ms with
    | none => match sbus.load s.sb a with | (r, sb') => (r, { s with sb := sb' })
    | some (k, m) =>
      match Impl.load k m a with
      | (some v, m') => (.ok v, { s with ms := some (k, m') })
      | (none, m') => (.error .mem, { s with ms := some (k, m') })
  store s a v r :=
    match s.ms with
    | none => match sbus.store s.sb a v r with | (res, sb') => (res, { s with sb := sb' })
    | some (k, m) =>
      match Impl.store k m a v with
      | (true, m') => (.ok r, { s with ms := some (k, m') })
      | (false, m') => (.error .mem, { s with ms := some (k, m') })

/-- `function trap(c) rec(get_cycles()); rec(c) end` -/
def cycScript : Script TB := fun c r s =>
  let o := (s.out.push (toString s.cyc)).push (toString c.toNat)
  let g := (s.org.push "trap").push "trap"
  (.ok r, { s with out := o, org := g })

abbrev AM := Machine (Trapped TB)

def pushOut (m : AM) (s : String) (origin : String := "") : AM :=
  let o := m.mem.inner.out.push s
  let g := m.mem.inner.org.push (origin ++ (if m.mem.inner.wroteLong then "+wl" else ""))
  { m with mem := { m.mem with inner := { m.mem.inner with out := o, org := g } } }

/-- read_byte_long / write_byte_long: the linear view of the memory model -/
def longOp (m : AM) (w : String) : Option AM :=
  match m.mem.inner.ms, w.splitOn ":" with
  | some (k, ms), ["rl", a] => do
    let l ← parseHex a
    match Impl.loadLarge k ms (BitVec.ofNat 32 l) with
    | (some v, ms') => some (pushOut { m with mem := { m.mem with inner := { m.mem.inner with ms := some (k, ms') } } } (toString v.toNat) "rl")
    | (none, _) => some (pushOut m "FAULT" "rl")
  | some (k, ms), ["wl", a, v] => do
    let l ← parseHex a
    let b ← parseByte v
    match Impl.storeLarge k ms (BitVec.ofNat 32 l) b with
    | (true, ms') => some { m with mem := { m.mem with inner := { m.mem.inner with ms := some (k, ms'), wroteLong := true } } }
    | (false, _) => some (pushOut m "FAULT" "wl")
  | _, _ => none

def runOpsApi (bus : Bus (Trapped TB)) (la pl : Nat) (m : AM) (ops : List String) : Option AM :=
  ops.foldlM (fun m w =>
    if w == "la" then some (pushOut m (toString la))
    else if w == "pl" then some (pushOut m (toString pl))
    else if w.startsWith "rl:" || w.startsWith "wl:" then longOp m w
    else do
      let op ← parseApiOp w
      let (ret, m') := apiStep bus m op
      some (match showRet ret with | some s => pushOut m' s ((w.splitOn ":").head!) | none => m')) m

def observerCode : List Nat := [0x8D, 0x00, 0x03, 0x8E, 0x01, 0x03, 0x8C, 0x02, 0x03, 0x08, 0x68, 0x8D, 0x03, 0x03, 0xBA,
  0x8E, 0x04, 0x03, 0xAD, 0x20, 0x03, 0x49, 0xFF, 0x8D, 0x21, 0x03, 0x00,
  0xE8, 0xC8, 0x8E, 0x05, 0x03, 0x8C, 0x06, 0x03, 0x0A, 0x00]

/-- INX; STA $7F00; INY; INY; STA $7F00; NOP; STX $7F00; LDX #1; STY $7F00; BRK -/
def trapObserverCode : List Nat := [0xE8, 0x8D, 0x00, 0x7F, 0xC8, 0xC8, 0x8D, 0x00, 0x7F, 0xEA, 0x8E, 0x00, 0x7F,
  0xA2, 0x01, 0x8C, 0x00, 0x7F, 0x00]

/-- byte number `i` of the payload of a `luaapi big` binary (the generator's `bigPayloadByte`) -/
def bigPayloadByte (i mul add : Nat) : Nat := if i == 0 then 0 else 1 + (i * mul + add) % 255

/-- `luaapi big M LOADAT LEN MUL ADD coN | probe addresses | GMADDR:GMLEN => ok | tokens`: a binary with header address
    LOADAT and a payload of LEN bytes (1 ≤ LEN ≤ 65535, byte i = `bigPayloadByte i MUL ADD`) loaded into the fresh 64K
    machine.  The specification: `load_address` = LOADAT and `prog_len` = LEN wherever the script reads them (chunk level,
    arrange, assert), the program counter is at the load address when arrange runs, and a cell reads as the payload
    byte loaded there (addresses wrap at $FFFF), as zero when the payload does not reach it. -/
def handleBigProg (req gres gout : String) : String :=
  match req.splitOn "|" with
  | [hd, ps, gm] =>
    match words hd, (gm.trimAscii.toString).splitOn ":" with
    | [_, _, m, las, lens, muls, adds, co], [gas, gls] =>
      let parsed : Option (Nat × Nat × Nat × Nat × Nat × Nat × List Nat) := do
        let probes ← (words ps).mapM parseHex
        some (← parseHex las, ← lens.toNat?, ← muls.toNat?, ← adds.toNat?, ← parseHex gas, ← parseHex gls, probes)
      match parsed with
      | none => "bad"
      | some (la, len, mul, add, ga, gl, probes) =>
        let cell (a : Nat) : Nat :=
          let off := (a % 65536 + 65536 - la) % 65536
          if off < len then bigPayloadByte off mul add else 0
        let vars := [toString la, toString len]
        let want := vars ++ vars ++ [toString la] ++ vars ++ probes.map (fun a => toString (cell a)) ++
          ["m" ++ String.join ((List.range gl).map fun i => hexB (BitVec.ofNat 8 (cell (ga + i))))]
        let got := words gout
        let ok := gres.trimAscii.toString == "ok" && got == want
        let cls := s!"luaapi.big.{if len ≥ 65534 then toString len else if len ≥ 32768 then "large" else "small"}.{co}"
        if ok then s!"agree | specok | {cls}"
        else
          let firstDiff := ((got.zip want).zipIdx.find? fun ((a, b), _) => a != b).map (·.2)
          let tag := match firstDiff with
            | some i => s!"token{i}:go={got.getD i "?"}:spec={want.getD i "?"}"
            | none => s!"length:go={got.length}:spec={want.length}"
          s!"DIFF api:big:{tag} | VIOL C12:api:big:{tag}@load={las}:len={len}:model={m}:{co}:{gres.trimAscii.toString} | {cls}"
    | _, _ => "bad"
  | _ => "bad"

/-- `luaapi M SPEC LOADAT ITERS TRAP [coN] | phase-1 ops | phase-2 ops => ok|error | tokens`; `coN`: where the script
    made the calls from (co0/absent: the main thread; co1..co4: Lua coroutines, see the generator) — the expected
    results are the same, the API acts on the one machine from every Lua thread -/
def handleLuaApi (line : String) : String :=
  let (req, res) := splitOnce line "=>"
  let (gres, gout) := splitOnce res "|"
  if (words req).getD 1 "" == "big" then handleBigProg req gres gout else
  match req.splitOn "|" with
  | [hd, p1, p2] =>
    let (hd, co) := match words hd with
      | [a, m, spec, las, its, tr, co] => (" ".intercalate [a, m, spec, las, its, tr], co)
      | _ => (hd, "co0")
    match words hd with
    | [_, m, spec, las, its, tr] =>
      let parsed : Option (CpuModel × Nat × Nat) := do
        let model ← if m == "0" then some CpuModel.m6502 else if m == "1" then some CpuModel.m65C02 else none
        some (model, ← parseHex las, ← its.toNat?)
      match parsed with
      | none => "bad"
      | some (model, la, iters) =>
        let trap := tr == "1"
        let code := if trap then trapObserverCode else observerCode
        let sb0 : SBus := { mem := loadCode [] la code, trace := #[], budget := 1000000 }
        -- every MemSpec other than Linear64K runs on the memory model (program loaded by stores, as cpu.Load does)
        let ms0 : Option (Spec.MemKind × MemState) :=
          if spec == "Linear64K" then none
          else (Facts.docMachine spec).map fun k =>
            (k, (code.zipIdx.foldl (fun (st : MemState) (bi : Nat × Nat) =>
              (Impl.store k st (BitVec.ofNat 16 (la + bi.2)) (BitVec.ofNat 8 bi.1)).2) (initState k)))
        let bus := trapBus tbBus 0x7F00 (if trap then some cycScript else none)
        let setCyc : Nat → Trapped TB → Trapped TB := fun c s => { s with inner := { s.inner with cyc := c } }
        -- Execute: cpu.PC = loadAddress; then per iteration arrange, RunExt(cpu.PC, false), assert
        let m0 : AM := { regs := { regs0 with pc := BitVec.ofNat 16 la }, cycles := 0,
                         mem := { inner := { sb := sb0, ms := ms0, cyc := 0, out := #[] }, log := [] } }
        -- tokens `@op` of the first section: executed once at chunk level (while the script is loaded by DoFile)
        let p0 := (words p1).filterMap fun w => if w.startsWith "@" then some (w.drop 1).toString else none
        let p1 := " ".intercalate ((words p1).filter fun w => !w.startsWith "@")
        let rec loop : Nat → AM → Option AM
          | 0, st => some st
          | n + 1, st => do
            let st ← runOpsApi bus la code.length (setCyc st.cycles st.mem |> fun mm => { st with mem := mm }) (words p1)
            let (stop, m') := Impl.runExtC (Generated.opTable model) Generated.driverConsts model bus setCyc 5000 st.regs.pc false st
            if kindOf stop != "halt" then none
            let st ← runOpsApi bus la code.length m' (words p2)
            loop n st
        match (runOpsApi bus la code.length m0 p0).bind (loop iters) with
        | none => "agree | specok | luaapi.model-stop"
        | some st =>
          let ml := st.mem.inner.out.toList
          let mine := " ".intercalate ml
          let go := " ".intercalate (words gout)
          let gl := words gout
          let firstDiff := ((gl.zip ml).zipIdx.find? fun ((a, b), _) => a != b).map (·.2)
          let tag := match firstDiff with
            | some i => s!"token{i}:go={gl.getD i "?"}:model={ml.getD i "?"}"
            | none => s!"length:go={gl.length}:model={ml.length}"
          let ok := gres.trimAscii.toString == "ok" && go == mine
          -- whose call produced the first differing value: a linear read, or a read after a linear write, concerns the
          -- linear view behind read_byte_long / write_byte_long (C05) as well
          let origin := match firstDiff with | some i => st.mem.inner.org.getD i "" | none => ""
          let longCall := origin.startsWith "rl" || (origin.splitOn "+wl").length > 1
          let d := if ok then "agree" else s!"DIFF api:{tag}"
          let v := if ok then "specok"
            else s!"VIOL C12:api:{tag}@spec={spec}:model={m}:trap={tr}{if co == "co0" then "" else ":" ++ co}" ++
              (if longCall then s!",C05:api-long:{tag}@spec={spec}:origin={origin}" else "")
          s!"{d} | {v} | luaapi.{spec}.i{iters}.t{tr}{if co == "co0" then "" else "." ++ co}"
    | _ => "bad"
  | _ => "bad"

/-- `longfault SPEC r|w ADDR => ok|error`: a linear call at the end of the linear view of a fresh machine: the last
    addresses are fine, everything at or past the end is a fault (the script call raises, the case fails) -/
def handleLongFault (line : String) : String :=
  match line.splitOn " => " with
  | [req, res] =>
    match words req with
    | [_, spec, op, as] =>
      match Facts.docMachine spec, parseHex as with
      | some k, some a =>
        let ms := initState k
        let la := BitVec.ofNat 32 a
        let modelOk := if op == "r" then (Impl.loadLarge k ms la).1.isSome else (Impl.storeLarge k ms la 1).1
        let model := if modelOk then "ok" else "error"
        -- the documentation: the linear view of a machine has `linSize` addresses (the plain machines take the low
        -- 16 bits of the number, so only their own size matters)
        let specOk : Bool := match k with
          | .linear n => a % 65536 < n
          | _ => decide (a < Spec.linTotal k)
        let g := res.trimAscii.toString
        let d := if g == model then "agree" else s!"DIFF api:longfault:model={model}"
        let v := if g == (if specOk then "ok" else "error") then "specok"
                 else s!"VIOL C05:api-long-fault:{spec}:{op}:{as}:go={g},C12:api:longfault:{spec}:{op}:{as}"
        s!"{d} | {v} | longfault"
      | _, _ => "bad"
    | _ => "bad"
  | _ => "bad"

/-- `trapglobals M LOADAT PAD => ok | load_address prog_len pc cycles byte`: what the trap function of run/profile
    sees for the program `PAD × NOP; LDA #7; STA $7F00; BRK` loaded at LOADAT: the header address, the payload length
    (PAD + 6), a program counter inside the storing instruction, the cycles of the instructions completed so far
    (2·PAD + 2) and the stored byte -/
def handleTrapGlobals (line : String) : String :=
  match line.splitOn " => " with
  | [req, res] =>
    match words req, res.splitOn " | " with
    | [_, _, las, pads], [gres, outS] =>
      match parseHex las, pads.toNat? with
      | some la, some pad =>
        let toks := words outS
        let want := [toString la, toString (pad + 6)]
        let pcOk := match (toks.getD 2 "").toNat? with | some pc => la + pad + 2 ≤ pc && pc ≤ la + pad + 5 | none => false
        let ok := gres.trimAscii.toString == "ok" && toks.take 2 == want && pcOk &&
          toks.getD 3 "" == toString (2 * pad + 2) && toks.getD 4 "" == "7" && toks.length == 5
        if ok then "agree | specok | trapglobals"
        else s!"DIFF api:trapglobals | VIOL C12:trap-globals:want={want}:cycles={2 * pad + 2}:go={"_".intercalate toks}:{gres.trimAscii.toString} | trapglobals"
      | _, _ => "bad"
    | _, _ => "bad"
  | _ => "bad"

end Driver
