import Verif.Impl.LuaApi
import Driver.Trap
/-  `luaapi` verb (property C12): replay the script's API calls on the model machine. -/
namespace Driver
open Verif Verif.Impl

def parseApiOp (w : String) : Option ApiCall :=
  match w.splitOn ":" with
  | ["sa", v] => do some (.setA (← parseByte v))
  | ["sx", v] => do some (.setX (← parseByte v))
  | ["sy", v] => do some (.setY (← parseByte v))
  | ["ss", v] => do some (.setSP (← parseByte v))
  | ["sp", v] => do some (.setPC (← parseAddr v))
  | ["ga"] => some .getA
  | ["gx"] => some .getX
  | ["gy"] => some .getY
  | ["gs"] => some .getSP
  | ["gp"] => some .getPC
  | ["sf", s] => some (.setFlags s.toList)
  | ["gf"] => some .getFlags
  | ["wb", a, v] => do some (.writeByte (← parseAddr a) (← parseByte v))
  | ["rb", a] => do some (.readByte (← parseAddr a))
  | ["sm", a, h] => do some (.setMemory (← parseAddr a) ((← unhex h).map (BitVec.ofNat 8)))
  | ["gm", a, n] => do some (.getMemory (← parseAddr a) (← parseHex n))
  | ["gc"] => some .getCycles
  | _ => none

def showRet : ApiRet → Option String
  | .unit => none
  | .num n => some (toString n)
  | .str s => some (String.ofList s)
  | .bytes l => some ("m" ++ String.join (l.map hexB))
  | .fault => some "FAULT"

structure ApiState where
  m : Machine SBus
  out : Array String

def runOpsApi (la pl : Nat) (st : ApiState) (ops : List String) : Option ApiState :=
  ops.foldlM (fun st w =>
    if w == "la" then some { st with out := st.out.push (toString la) }
    else if w == "pl" then some { st with out := st.out.push (toString pl) }
    else do
      let op ← parseApiOp w
      let (ret, m') := apiStep sbus st.m op
      some { m := m', out := match showRet ret with | some s => st.out.push s | none => st.out }) st

/-- `luaapi M SPEC LOADAT ITERS | phase-1 ops | phase-2 ops => ok|error | tokens` -/
def handleLuaApi (line : String) : String :=
  let (req, res) := splitOnce line "=>"
  let (gres, gout) := splitOnce res "|"
  match req.splitOn "|" with
  | [hd, p1, p2] =>
    match words hd with
    | [_, m, spec, las, its] =>
      let parsed : Option (CpuModel × Nat × Nat) := do
        let model ← if m == "0" then some CpuModel.m6502 else if m == "1" then some CpuModel.m65C02 else none
        some (model, ← parseHex las, ← its.toNat?)
      match parsed with
      | none => "bad"
      | some (model, la, iters) =>
        let code : List Nat := [0x8D, 0x00, 0x03, 0x8E, 0x01, 0x03, 0x8C, 0x02, 0x03, 0x08, 0x68, 0x8D, 0x03, 0x03, 0xBA,
          0x8E, 0x04, 0x03, 0xAD, 0x20, 0x03, 0x49, 0xFF, 0x8D, 0x21, 0x03, 0x00,
          0xE8, 0xC8, 0x8E, 0x05, 0x03, 0x8C, 0x06, 0x03, 0x0A, 0x00]
        let sb0 : SBus := { mem := loadCode [] la code, trace := #[], budget := 1000000 }
        -- Execute: cpu.PC = loadAddress; then per iteration arrange, RunExt(cpu.PC, false), assert
        let st0 : ApiState := { m := { regs := { regs0 with pc := BitVec.ofNat 16 la }, cycles := 0, mem := sb0 }, out := #[] }
        let rec loop : Nat → ApiState → Option ApiState
          | 0, st => some st
          | n + 1, st => do
            let st ← runOpsApi la code.length st (words p1)
            let (stop, m') := Impl.runExt (Generated.opTable model) Generated.consts model sbus 5000 st.m.regs.pc false st.m
            if kindOf stop != "halt" then none
            let st ← runOpsApi la code.length { st with m := m' } (words p2)
            loop n st
        match loop iters st0 with
        | none => "agree | specok | luaapi.model-stop"
        | some st =>
          let mine := " ".intercalate st.out.toList
          let go := " ".intercalate (words gout)
          let gl := words gout
          let ml := st.out.toList
          let firstDiff := ((gl.zip ml).zipIdx.find? fun ((a, b), _) => a != b).map (·.2)
          let tag := match firstDiff with
            | some i => s!"token{i}:go={gl.getD i "?"}:model={ml.getD i "?"}"
            | none => s!"length:go={gl.length}:model={ml.length}"
          let ok := gres.trimAscii.toString == "ok" && go == mine
          let d := if ok then "agree" else s!"DIFF api:{tag}"
          let v := if ok then "specok" else s!"VIOL C12:api:{tag}@spec={spec}:model={m}"
          s!"{d} | {v} | luaapi.{spec}.i{iters}"
    | _ => "bad"
  | _ => "bad"

end Driver
