import Verif.Impl.Config
import Verif.Facts.MemNow
import Verif.Spec.Isa
import Verif.Generated.Config
import Verif.Generated.OpTable
import Driver.Text
/-  `config` verb (property C17). -/
namespace Driver
open Verif Verif.Impl Verif.Spec Verif.Facts

def unhexStr (s : String) : Option String :=
  if s == "-" then some "" else (unhex s).map fun bs => String.ofList (bs.map Char.ofNat)

def expectedSig (d : MachineDesc) (isaOf : CpuModel → Byte → Bool) (ioAddr : List (Nat × List Char)) : String :=
  let isa := String.join ((List.range 256).map fun n => if isaOf d.cpu (BitVec.ofNat 8 n) then "1" else "0")
  -- ports: five probe bytes to each port in key order; each port has its own counter
  let probe : List Nat := (List.range 260).map fun i => (i * 7 + 3) % 256
  let sorted := (ioAddr.map (·.1)).mergeSort (fun a b => decide (a ≤ b))
  let out := sorted.flatMap fun k => match ioAddr.find? (·.1 == k) with
    | some (_, s) => match parsePort s with | some p => portOutput p probe | none => []
    | none => []
  let ps := if out.isEmpty then "-" else String.join (out.map (toHex 2))
  s!"isa={isa} mem=truetrue mul={if d.mul then 1 else 0} div={if d.div then 1 else 0} ports={ps}"

def handleConfig (line : String) : String :=
  match line.splitOn " => " with
  | [req, res] =>
    match words req with
    | [_, m, s, a, ioMask, ios, flags, base] =>
      match unhexStr m, unhexStr s, unhexStr a, ioMask.toNat?, flags.toNat?, base.toNat? with
      | some model, some memSpec, some asm, some ioMask, some flags, some base =>
        let ioAddr : List (Nat × List Char) := if ios == "-" then [] else
          (ios.splitOn ",").filterMap fun e => match e.splitOn ":" with
            | [k, h] => match k.toNat?, unhexStr h with | some k, some str => some (k, str.toList) | _, _ => none
            | _ => none
        let c : RawConfig := ⟨model, memSpec, asm, ioMask, ioAddr, flags, base⟩
        let run (memModels cpuModels asmTypes : List String) (machineOf : String → Option MemKind)
            (isaOf : CpuModel → Byte → Bool) : String :=
          if !accept memModels cpuModels asmTypes c then "reject" else
          match build machineOf (fun m => m != "6502") c with
          | none => "builderr"
          | some d => "ok " ++ expectedSig d isaOf ioAddr ++ " rt=1"
        -- the model of the code as it is now
        let modelRes := run Generated.allowedMemModels Generated.allowedCpuModels Generated.allowedAsmTypes builtMachine
          (fun mdl opc => (Generated.opTable mdl opc).isSome)
        -- the documentation
        let specRes := run ["Linear16K", "Linear32K", "Linear48K", "Linear64K", "XSixteen512K", "XSixteen2048K",
            "GeoRam_512K", "GeoRam_2048K", "F256_512K", "F256_768K"] ["6502", "65C02"] ["", "acme", "64tass", "ca65"] docMachine
          (fun mdl opc => (Spec.decode mdl opc).isSome)
        let d := if modelRes == res.trim then "agree" else "DIFF config"
        let v := if specRes == res.trim then "specok" else
          s!"VIOL C17:{if res.trim.startsWith "ok" then (if specRes.startsWith "ok" then "machine" else "accepted-undocumented") else "rejected-documented"}:{m}:{s}"
        s!"{d} | {v} | config"
      | _, _, _, _, _, _ => "bad"
    | _ => "bad"
  | _ => "bad"

end Driver
