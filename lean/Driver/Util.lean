import Verif.Basic.Bits
/-  Line-protocol helpers for the driver (hex parsing / printing). -/
namespace Driver
open Verif

def hexDigit (c : Char) : Option Nat :=
  if '0' ≤ c ∧ c ≤ '9' then some (c.toNat - '0'.toNat)
  else if 'a' ≤ c ∧ c ≤ 'f' then some (c.toNat - 'a'.toNat + 10)
  else if 'A' ≤ c ∧ c ≤ 'F' then some (c.toNat - 'A'.toNat + 10)
  else none

def parseHex (s : String) : Option Nat :=
  if s.isEmpty then none
  else s.foldl (fun acc c => match acc, hexDigit c with
    | some n, some d => some (n * 16 + d)
    | _, _ => none) (some 0)

def hexChar (n : Nat) : Char :=
  if n < 10 then Char.ofNat ('0'.toNat + n) else Char.ofNat ('a'.toNat + n - 10)

def toHex (width : Nat) (n : Nat) : String :=
  let rec go : Nat → Nat → List Char → List Char
    | 0, _, acc => acc
    | w + 1, n, acc => go w (n / 16) (hexChar (n % 16) :: acc)
  String.ofList (go width n [])

def hexB (b : Byte) : String := toHex 2 b.toNat
def hexA (a : Addr) : String := toHex 4 a.toNat

def parseByte (s : String) : Option Byte := (parseHex s).bind fun n => if n < 256 then some (BitVec.ofNat 8 n) else none
def parseAddr (s : String) : Option Addr := (parseHex s).bind fun n => if n < 65536 then some (BitVec.ofNat 16 n) else none

def words (s : String) : List String := (s.splitOn " ").filter (· ≠ "")

end Driver
