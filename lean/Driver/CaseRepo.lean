import Verif.Impl.CaseRepo
import Driver.Util
/-  `repo` verb (property C18). -/
namespace Driver
open Verif.Impl

def listing (d : Dir) : String :=
  let parts := d.map fun (n, f) => n ++ "=" ++ (match f with
    | .case dr sc => s!"C:{dr}:{sc}"
    | .other t => s!"O{t}"
    | .badJson => "B"
    | .dir => "D")
  let sorted := parts.mergeSort (fun a b => decide (a ≤ b))
  if sorted.isEmpty then "-" else ",".intercalate sorted

/-- the property, checked step by step on what the Go code did to the directory:
    newcase never overwrites and leaves the directory alone on failure; delcase never removes a file a
    remaining case refers to; list enumerates exactly the case files -/
def specStepOk (op : String) (before after : List (String × String)) (res : String) : List String :=
  let isCase (k : String) := k.startsWith "C:"
  let refs (l : List (String × String)) : List String :=
    l.flatMap fun (_, k) => if isCase k then (k.splitOn ":").drop 1 else []
  let names (l : List (String × String)) := l.map (·.1)
  if op.startsWith "add" then
    -- existing files keep their content; on failure nothing changes at all
    (if before.all (fun e => after.contains e) then [] else ["add-overwrote"]) ++
    (if res.startsWith "err" && before != after then ["add-failed-but-changed"] else [])
  else if op.startsWith "del" then
    -- every file a remaining case refers to is still there if it was there before
    -- (the named case file itself is removed by definition, also in the contrived situation where another
    -- case names that very file as its driver)
    let target := match op.splitOn ":" with | [_, n] => if n.endsWith ".json" then n else n ++ ".json" | _ => ""
    let removed := (names before).filter fun n => !(names after).contains n && n != target
    let stillRef := refs after
    -- the case that was named - by its name or by the name of its case file - is the one that is removed, and besides
    -- it only its own driver and its own script may go
    let own := match before.find? (fun e => e.1 == target) with
      | some (_, k) => if isCase k then (k.splitOn ":").drop 1 else []
      | none => []
    (if removed.all (fun n => !stillRef.contains n) then [] else ["del-removed-referenced"]) ++
    (if removed.all (fun n => own.contains n) then [] else ["del-removed-unrelated"]) ++
    (if res.startsWith "ok" && (names after).contains target then ["del-ok-but-case-remains"] else [])
  else if op == "list" then
    if res.startsWith "ok:" then
      let expected := ((names before).filter isCaseName).mergeSort (fun a b => decide (a ≤ b))
      let got := match res.splitOn ":" with | [_, _, l] => if l.isEmpty then [] else l.splitOn ";" | _ => ["?"]
      if got == expected then [] else ["list-mismatch"]
    else []
  else []

/-- `%04d` -/
def pad4 (i : Nat) : String :=
  let s := toString i
  "".pushn '0' (4 - s.length) ++ s

def parentMissing (d : Dir) (n : String) : Bool :=
  match n.splitOn "/" with
  | dir :: _ :: _ => !d.has dir
  | _ => false

def parseListing (s : String) : List (String × String) :=
  if s == "-" then [] else (s.splitOn ",").filterMap fun e => match e.splitOn "=" with
    | [n, k] => some (n, k)
    | _ => none

def handleRepo (line : String) : String :=
  match line.splitOn " => " with
  | [req, res] =>
    let ops := (words req).drop 1
    let outs := words res
    if ops.length != outs.length then "bad" else
    -- the model knows sub directories only as far as os.Remove does; a history that plants a symbolic link is outside
    -- the model and is judged against the specification only (on what the Go code did to the directory)
    let flat := !ops.any (fun o => o.startsWith "plantlink:")
    let (_, diffs, viols, _) := (ops.zip outs).foldl (fun (acc : Dir × List String × List String × List (String × String)) (x : String × String) =>
      let (d, diffs, viols, prev) := acc
      let (op, out) := x
      let (goRes, goList) := match out.splitOn "|" with | [a, b] => (a, b) | _ => ("?", "?")
      let f := op.splitOn ":"
      let (mres, d') : String × Dir := match f with
        | ["plant", n] => ("ok", d.put n (.other 0))
        | ["plantbad", n] => ("ok", d.put n .badJson)
        -- a hand-written case file whose driver exists and whose script does not
        | ["plantcase", n, dr, sc] => ("ok", (d.put n (.case dr sc)).put dr (.other 0))
        -- a great many files that are no case files / hand-written case files that all name the same driver and script
        | ["plantmany", pre, cnt] => ("ok", (List.range cnt.toNat!).foldl (fun d i => d.put (pre ++ pad4 i ++ ".txt") (.other 0)) d)
        | ["plantcases", pre, cnt, dr, sc] => ("ok", (List.range cnt.toNat!).foldl (fun d i => d.put (pre ++ pad4 i ++ ".json") (.case dr sc)) d)
        | ["plantdir", n] => ("ok", ((d.put n .dir).put (n ++ "/drv.a") (.other 0)).put (n ++ "/lib.a") (.other 0))
        -- a case name inside a sub directory that does not exist: the existence checks pass, writing the case file
        -- fails, nothing is created (and nothing may be removed)
        | ["add", n] => if parentMissing d n then ("err", d) else
            let (ok, d') := add d n (n ++ ".a") (n ++ ".lua") true; (if ok then "ok" else "err", d')
        | ["addt", n, dr] => if parentMissing d n then ("err", d) else
            let (ok, d') := add d n dr (n ++ ".lua") false; (if ok then "ok" else "err", d')
        | ["del", n] => let (ok, d') := del d n; (if ok then "ok" else "err", d')
        | ["list"] => (match iterate d with
            | some cs => let ns := (cs.map (·.1)).mergeSort (fun a b => decide (a ≤ b)); s!"ok:{ns.length}:{";".intercalate ns}"
            | none => "err", d)
        | _ => ("?", d)
      let diffs := if flat && (mres != goRes || listing d' != goList) && diffs.length < 2 then diffs ++ [s!"{op}:model={mres}"] else diffs
      let after := parseListing goList
      let viols := viols ++ (specStepOk op prev after goRes).map (fun t => s!"C18:{t}:{op}")
      (d', diffs, viols, after)) (([] : Dir), [], [], [])
    let ds := if diffs.isEmpty then "agree" else "DIFF " ++ ",".intercalate diffs
    let vs := if viols.isEmpty then "specok" else "VIOL " ++ ",".intercalate (viols.take 3)
    s!"{ds} | {vs} | repo{if flat then "" else ".symlink"}"
  | _ => "bad"

end Driver
