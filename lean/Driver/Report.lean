import Verif.Impl.Report
import Verif.Impl.Labels
import Verif.Generated.Misc
import Driver.Cpu
import Driver.Text
/-  `report`, `idx`, `idxenvelope` verbs (properties C14 and C15). -/
namespace Driver
open Verif Verif.Impl

/-- the Go expression `int(float64(l) * (1.0 - float64(prcnt)/100.0))` in IEEE doubles -/
def floatIdx (l prcnt : Nat) : Nat :=
  let p := Float.ofNat prcnt / 100.0
  (Float.ofNat l * (1.0 - p)).floor.toUInt64.toNat

def splitLines (cs : List Char) : List (List Char) :=
  let rec go : List Char → List Char → List (List Char) → List (List Char)
    | [], cur, acc => (if cur.isEmpty then acc else cur.reverse :: acc).reverse
    | c :: rest, cur, acc => if c == '\n' then go rest [] (cur.reverse :: acc) else go rest (c :: cur) acc
  go cs [] []

/-- parse an address line `PREFIX%04x: %02X %d` → (flagged, addr, value, num) -/
def parseAddrLine (l : List Char) : Option (Bool × Nat × Nat × Nat) :=
  let s := String.ofList l
  if s.length < 5 then none else
  let pre := (s.take 5).toString
  let flag := pre == "###  "
  if !flag && pre != "     " then none else
  match ((s.drop 5).toString.splitOn ": ") with
  | [a, rest] =>
    match rest.splitOn " " with
    | [v, n] => do some (flag, ← parseHex a, ← parseHex v, ← n.toNat?)
    | _ => none
  | _ => none

/-- The label file of an end-to-end request (`acme:<hex>` / `64tass:<hex>`, `-` = none) read by the label grammar of its
    format (`Impl.parseAcme` / `Impl.parseTass`, the recognisers C19's theorems are about: hex with `$`, decimal for
    64tass, optional trailing comment): the labels per program offset in the notation of the request's label section,
    or `none` when the file is not a list of well-formed definitions. -/
def labelsOfFile (fileS : String) (start n : Nat) : Option String :=
  match fileS.splitOn ":" with
  | [kind, h] =>
    if kind != "acme" && kind != "64tass" then none else
    match unhex h with
    | none => none
    | some bs =>
      let parse := if kind == "64tass" then parseTass else parseAcme
      match parseFile parse true (fun l => l.length ≥ 65536) (splitLines (bs.map Char.ofNat)) with
      | none => none
      | some defs =>
        some (";".intercalate ((List.range n).filterMap fun i =>
          match labelsOf defs (start + i) with
          | [] => none
          | ls => some (s!"{i}:" ++ ",".intercalate (ls.map String.ofList))))
  | _ => none

/-- The accesses of every program byte in the specification's own run of the program (6502, loaded at `start`, run from
    its first byte to the halting BRK on flat memory): fetches + reads + writes made while the program ran — the write
    that loaded the program is not among them.  `none`: the specification does not define the run. -/
def specProgramCounts (start : Nat) (code : List Nat) : Option (List Nat) :=
  let mem0 : List (Addr × Byte) := code.zipIdx.map fun (b, i) => (BitVec.ofNat 16 (start + i), BitVec.ofNat 8 b)
  let bus0 : SBus := { mem := mem0.reverse, trace := #[], budget := 100000 }
  match specRun CpuModel.m6502 5000 ⟨BitVec.ofNat 16 start, 0xFF, 0, 0, 0, 0⟩ bus0 0 with
  | none => none
  | some (_, b, _) =>
    let n := code.length
    let arr := b.trace.foldl (fun (acc : Array Nat) e =>
      let a := e.addr.toNat
      if start ≤ a && a < start + n then acc.modify (a - start) (· + 1) else acc) (List.replicate n 0).toArray
    some arr.toList

def handleReport (line : String) : String :=
  match line.splitOn " => " with
  | [req, res] =>
    -- end-to-end requests carry the label file itself as a fifth section: what the request's label section says
    -- must be what the file defines under the grammar of its format (a request that is not even that is malformed)
    let secs0 := req.splitOn " | "
    -- a sixth section `prog:<hex>` (end-to-end requests): the program itself, for the absolute access counts
    let progS : Option String := if secs0.length == 6 then secs0[5]? else none
    let secs := if secs0.length == 6 then secs0.take 5 else secs0
    let progBad := match progS with
      | some p => !(p.startsWith "prog:") || (unhex (p.drop 5).toString).isNone
      | none => false
    if progBad then "bad" else
    let fileOk : Bool := match secs with
      | [hd, rawsS, _, labS, fileS] =>
        fileS == "-" ||
        (match words hd with
         | [_, _, _, startS] => (match parseHex startS with
           | some start => labelsOfFile fileS start (rawsS.splitOn ",").length == some labS
           | none => false)
         | _ => false)
      | _ => true
    if !fileOk then "bad" else
    match secs.take 4, words res with
    | [hd, rawsS, valsS, labS], [cutS, outS] =>
      if secs.length > 5 then "bad" else
      match words hd with
      | [_, strategy, prcntS, startS] =>
        match prcntS.toNat?, parseHex startS, unhex valsS with
        | some prcnt, some start, some vals =>
          let raws : List Nat := (rawsS.splitOn ",").filterMap String.toNat?
          let n := raws.length
          if n == 0 || vals.length != n then "bad" else
          let stop := start + n - 1
          let median := strategy == "median"
          let labelTab : List (Nat × List String) := if labS == "-" then [] else
            (labS.splitOn ";").filterMap fun e => match e.splitOn ":" with
              | [i, ls] => i.toNat?.map fun i => (i, ls.splitOn ",")
              | _ => none
          let labels := fun a => match labelTab.find? (·.1 + start == a) with | some (_, l) => l | none => []
          let rawsA := raws.toArray
          let valsA := vals.toArray
          let rawF := fun a => rawsA.getD (a - start) 0
          let valF := fun a => valsA.getD (a - start) 0
          -- Impl model
          let its := if median then raws else dedup raws
          let idx := floatIdx its.length prcnt
          let cut := if median then cutOffMedian raws idx else cutOffAbsolute raws idx
          let model := match report Generated.loopBits_DumpStatistics labels rawF valF cut start stop (stop + 2 - start) with
            | some ls => hexOfChars (renderReport ls)
            | none => "!"
          let cutBits := if median then Generated.loopBits_CutOffMedian else Generated.loopBits_CutOffAbsoluteValue
          let modelCut := match counterLoop cutBits stop start (stop + 2 - start) with
            | some _ => toString cut
            | none => "!"
          -- flags (the five-character prefix of an address line) belong to C15, everything else to C14
          let maskFlags (h : String) : String := match unhex (if h == "-" then "" else h) with
            | some bytes => String.join ((splitLines (bytes.map Char.ofNat)).map fun l =>
                if (parseAddrLine l).isSome then String.ofList (l.drop 5) ++ "\n" else String.ofList l ++ "\n")
            | none => h
          let d := (if modelCut != cutS then [s!"cut:model={modelCut}"] else []) ++
                   (if modelCut != "!" && model != outS then
                      (if maskFlags model == maskFlags outS then ["flags"] else ["text"]) else [])
          -- specification, checked on the Go output itself
          let v : List String :=
            -- the cut-off function crashed or did not come back: no threshold (C15) and, since the report calls the
            -- same function on the same data, no report either (C14)
            if cutS == "!" then [s!"C15:cutoff-crash-or-diverge:p={prcnt}:n={n}", s!"C14:report-blocked-by-cutoff:p={prcnt}:n={n}"]
            -- the report computation failed for a request it must serve: no report (C14), and the marking — which for
            -- every p in 0..100 has to be computed without crashing — was not produced either (C15)
            else if outS == "!" then ["C14:report-crash-or-diverge", s!"C15:marking-not-produced:p={prcnt}"]
            else match unhex (if outS == "-" then "" else outS) with
              | none => ["C14:unreadable"]
              | some bytes =>
                let lines := splitLines (bytes.map Char.ofNat)
                -- expected line structure
                let expected : List (List Char) := (List.range' start n).flatMap fun a =>
                  (labels a).map String.toList ++ [[]]   -- [] marks the address line of a
                let addrLines := lines.filterMap parseAddrLine
                let shapeOk := lines.length == expected.length &&
                  (lines.zip expected).all fun (l, e) => if e.isEmpty then (parseAddrLine l).isSome else l == e
                let contentOk := addrLines.length == n &&
                  (addrLines.zip (List.range' start n)).all fun ((_, a, v, num), ea) =>
                    a == ea && v == valF ea && num == shown (rawF ea)
                let flaggedRaws := (addrLines.zip raws).filterMap fun ((f, _), r) => if f then some r else none
                let unflaggedRaws := (addrLines.zip raws).filterMap fun ((f, _), r) => if f then none else some r
                -- every flagged count ≥ every unflagged count  ⇔  min flagged ≥ max unflagged
                let minF := flaggedRaws.foldl (fun m f => match m with | none => some (shown f) | some x => some (min x (shown f))) none
                let maxU := unflaggedRaws.foldl (fun m u => max m (shown u)) 0
                let upward := unflaggedRaws.isEmpty || (match minF with | none => true | some x => x ≥ maxU)
                let rankedFlagged := if median then flaggedRaws.length else (dedup flaggedRaws).length
                let need := (its.length * prcnt + 99) / 100
                let topOk := prcnt == 0 || rankedFlagged ≥ need
                let allOk := prcnt != 100 || unflaggedRaws.isEmpty
                -- the threshold the Go code computed is one of the observed access values (C15: "the threshold is one of the
                -- observed access values") — judged on the value the cut-off function returned, not on the marks
                (match cutS.toNat? with
                 | some c => if raws.contains c then [] else [s!"C15:threshold-not-observed:cut={c}:p={prcnt}"]
                 | none => []) ++
                (if !shapeOk then ["C14:lines"] else []) ++ (if !contentOk then ["C14:content"] else []) ++
                -- the number of accesses on an address line is the number of fetches, reads and writes of that byte in
                -- the specification's own run of the program (whatever the options of the command: trap script, dump)
                (match progS.bind (fun p => unhex (p.drop 5).toString) with
                 | some code =>
                   if code.length != n then ["C14:absolute-counts:program-length"] else
                   (match specProgramCounts start code with
                    | some cnts =>
                      (match ((addrLines.zip cnts).zipIdx.find? fun (((_, _, _, num), c), _) => num != c) with
                       | some (((_, _, _, num), c), i) => [s!"C14:absolute-counts:offset={i}:shown={num}:ran={c}"]
                       | none => [])
                    | none => [])
                 | none => []) ++
                (if !upward then ["C15:upward"] else []) ++ (if !topOk then [s!"C15:top:p={prcnt}:flagged={rankedFlagged}:need={need}"] else []) ++
                (if !allOk then ["C15:all"] else [])
          let ds := if d.isEmpty then "agree" else "DIFF " ++ ",".intercalate d
          let vs := if v.isEmpty then "specok" else "VIOL " ++ ",".intercalate v
          s!"{ds} | {vs} | report"
        | _, _, _ => "bad"
      | _ => "bad"
    | _, _ => "bad"
  | _ => "bad"

/-- `idx L P => N`: Lean's Float against Go's float64 -/
def handleIdx (line : String) : String :=
  match line.splitOn " => " with
  | [req, res] =>
    match words req, res.trim.toNat? with
    | [_, l, p], some goIdx =>
      match l.toNat?, p.toNat? with
      | some l, some p =>
        let m := floatIdx l p
        let exact := l * (100 - p) / 100
        let d := if m == goIdx then "agree" else s!"DIFF idx:model={m}"
        let v := if goIdx ≤ exact then "specok" else s!"VIOL C15:idx-above-floor:l={l}:p={p}"
        s!"{d} | {v} | idx"
      | _, _ => "bad"
    | _, _ => "bad"
  | _ => "bad"

/-- `idxenvelope 65536 101 => BAD`: number of (length, percentage) pairs outside the envelope IdxOk assumes -/
def handleIdxEnvelope (line : String) : String :=
  match line.splitOn " => " with
  | [_, res] => if res.trim == "0" then "agree | specok | idxenvelope" else s!"agree | VIOL C15:float-envelope:{res.trim} | idxenvelope"
  | _ => "bad"

end Driver
