import Verif.Impl.Verdict
import Verif.Spec.Isa
import Driver.Util
/-  `verdict` and `suite` verbs (property C09). -/
namespace Driver
open Verif.Impl

def numItersOf (kind : String) : NumIters :=
  match kind with
  | "absent" | "raise" => .callError
  | "0" => .value 0 | "1" => .value 1 | "3" => .value 3
  | "2.5" => .value 2                 -- uint(2.5)
  | "0.5" | "0.999" => .value 0       -- uint(0.5) = 0: not a positive number of iterations
  | "huge" => .value (2 ^ 63)
  | _ => .value 0                     -- '3' (a string), nil, true, a table: not an LNumber

def assertTrueOf (kind : String) : Bool := kind == "true" || kind == "truemsg"

/-- a driver kind `undef.<model>.<code>` (INX, the code, BRKs) claims that the data sheets define no instruction
    for the code on that model: `some true` when the specification's decoder agrees, `some false` when the
    specification has an instruction for it (the request is then not a faulting driver and is refused), `none`
    for every other driver kind -/
def undefClaim (bin : String) : Option Bool :=
  match bin.splitOn "." with
  | ["undef", m, hh] =>
    let model? : Option Verif.CpuModel :=
      if m == "6502" then some .m6502 else if m == "65C02" then some .m65C02 else none
    match model?, parseByte hh with
    | some model, some opc => some (Verif.Spec.decode model opc).isNone
    | _, _ => some false
  | _ => none

def handleVerdict (line : String) : String :=
  match line.splitOn " => " with
  | [req, res] =>
    match words req with
    | [_, bin, ni, assertsS, arrangeErrAt, broken] =>
      if undefClaim bin == some false then "bad" else
      let asserts := assertsS.splitOn ","
      let arrErr := arrangeErrAt.toInt?.getD (-1)
      -- a fault in the trap function is a fault of the run (the Go wrapper panics, RunExt recovers)
      -- (`long`, `longmark`: a driver that reaches its BRK after about 27 million clock cycles)
      -- `ca65ok`, `ca65asmfail`, `ca65linkfail` (each possibly with `.stale`): the case went through the two step tool chain
      -- of AsmType ca65; both steps worked / the assembler step failed / the link step failed.  `.stale`: the binary of an
      -- earlier successful build of the driver was still in the binary directory.  Assembling the driver faults when either
      -- step fails, whatever is lying around in the binary directory.
      let ca65Ok := bin == "ca65ok" || bin == "ca65ok.stale"
      let asmOk := bin != "asmfail" && (!bin.startsWith "ca65" || ca65Ok)
      let runOk := bin == "brk" || bin == "trapok" || bin == "long" || bin == "longmark" || ca65Ok
      -- the script increments `iter` in assert(): iteration i (0-based) sees iter == i in arrange and uses assertion i
      let iters := fun (i : Nat) =>
        let a := asserts.getD i "true"
        ({ arrangeOk := decide ((i : Int) ≠ arrErr), runOk := runOk, assertOk := a != "raise", assertTrue := assertTrueOf a } : Iter)
      let out := execute asmOk (bin != "short" && bin != "toobig") (broken == "0") (numItersOf ni) iters
      let model := if out.ok then "ok" else "fail"
      let d := if model == res.trim then "agree" else s!"DIFF verdict:model={model}"
      -- the property, directly: OK only if the driver ran at least once to its BRK and every assert made returned true
      let n := iterCount (numItersOf ni)
      let shouldFail := !asmOk || !runOk || broken != "0" || n == 0 ||
        -- (assertions beyond the listed ones return true and arrange faults only in the first three iterations)
        (List.range (min n (asserts.length + 1))).any (fun i => !(assertTrueOf (asserts.getD i "true")) || (i : Int) == arrErr)
      let v := if res.trim == "hostcrash" then "VIOL C09:hostcrash"
        -- reported OK, but the machine shows that the driver never got to its last store before its BRK
        else if res.trim == "cutshort" then s!"VIOL C09:ok-but-driver-never-reached-its-brk:{bin}:{ni}:{assertsS}"
        else if res.trim == "ok" && shouldFail then s!"VIOL C09:ok-but-should-fail:{bin}:{ni}:{assertsS}"
        else if res.trim == "fail" && !shouldFail then s!"VIOL C09:fail-but-all-passed:{bin}:{ni}:{assertsS}"
        else "specok"
      s!"{d} | {v} | verdict"
    | _ => "bad"
  | _ => "bad"

def handleSuite (line : String) : String :=
  match line.splitOn " => " with
  | [req, res] =>
    match words req with
    | [_, vs] =>
      -- `1` / `0`: the case passes / fails; a trailing `l`: its case file is a symbolic link (a case file like any other)
      let verdicts := (vs.splitOn ",").map (fun v => v == "1" || v == "1l")
      -- directory order is arbitrary: only the overall result and, on success, the count are determined
      let allOk := verdicts.all id
      let model := if (suite verdicts).1 then s!"ok {(suite verdicts).2}" else "fail"
      let d := if model == res.trim then "agree" else s!"DIFF suite:model={model.replace " " "_"}"
      let spec := if allOk then s!"ok {verdicts.length}" else "fail"
      let v := if spec == res.trim then "specok" else s!"VIOL C09:suite:{vs}:go={res.trim.replace " " "_"}"
      s!"{d} | {v} | suite"
    | _ => "bad"
  | _ => "bad"

/-- `isolation <memspec> <prexec> <trap> <cases> => <start-equal><result-equal>,...`: the harness ran the
    suite and every case alone; by C08_start / C08_fresh the model hands every case the same machine, so
    every pair must read 11 -/
def handleIsolation (line : String) : String :=
  match line.splitOn " => " with
  | [req, res] =>
    match words req with
    | [_, spec, pe, tr, names] =>
      let got := res.trim.splitOn ","
      let ok := got.all (· == "11") && got.length == (names.splitOn ",").length
      let d := if ok then "agree" else s!"DIFF isolation:model=all-11"
      let v := if ok then "specok" else s!"VIOL C08:start:{spec}:prexec={pe}:trap={tr}:{names}:{res.trim}"
      s!"{d} | {v} | isolation.{spec}.{pe}{tr}"
    | _ => "bad"
  | _ => "bad"

end Driver
