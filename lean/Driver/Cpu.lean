import Verif.Impl.Run
import Verif.Spec.Isa
import Verif.Generated.OpTable
import Verif.Generated.Cycles
import Driver.Util
import Driver.Text
/-
  `run` verb: execute the Impl model on a sparse recording bus, compare with what the Go
  code did on the same input, and check the Go result against the executable specification.
-/
namespace Driver
open Verif

structure SBus where
  mem : List (Addr × Byte)
  trace : Array Event
  budget : Nat

def SBus.get (s : SBus) (a : Addr) : Byte :=
  match s.mem.find? (·.1 == a) with
  | some (_, v) => v
  | none => 0

def SBus.put (s : SBus) (a : Addr) (v : Byte) : List (Addr × Byte) :=
  (a, v) :: s.mem.filter (·.1 != a)

/-- sparse recording bus with an operation budget (the harness bus panics past the budget) -/
def sbus : Bus SBus where
  load s a :=
    if s.budget = 0 then (.error .budget, s)
    else
      let v := s.get a
      (.ok v, { s with trace := s.trace.push ⟨false, a, v⟩, budget := s.budget - 1 })
  store s a v r :=
    if s.budget = 0 then (.error .budget, s)
    else (.ok r, { mem := s.put a v, trace := s.trace.push ⟨true, a, v⟩, budget := s.budget - 1 })

def showEvent (e : Event) : String := (if e.write then "W" else "R") ++ hexA e.addr ++ ":" ++ hexB e.val
def showTrace (t : Array Event) : String := " ".intercalate (t.toList.map showEvent)

def showRegs (r : Regs) : String :=
  s!"{hexA r.pc} {hexB r.sp} {hexB r.a} {hexB r.x} {hexB r.y} {hexB r.p}"

def kindOf : Impl.Stop → String
  | .halted => "halt"
  | .error (.illegal _ _) => "illegal"
  | .error .bcd => "bcd"
  | .error .mem => "mem"
  | .error .script => "script"
  | .error .budget => "budget"
  | .fuel => "budget"

/-- what is compared between the Go code and the model: halted, ran out of the harness budget, crashed the host,
    or ended with an error (which error is informative only: it depends on message wording) -/
def coarse (k : String) : String := if k == "halt" || k == "budget" || k == "hostcrash" then k else "error"

structure GoResult where
  kind : String
  regs : Regs
  cycles : Nat
  trace : Array Event

def parseEvent (s : String) : Option Event := do
  let w ← if s.startsWith "W" then some true else if s.startsWith "R" then some false else none
  match (s.drop 1).toString.splitOn ":" with
  | [a, v] => some ⟨w, ← parseAddr a, ← parseByte v⟩
  | _ => none

def parseRegs : List String → Option Regs
  | [pc, sp, a, x, y, p] => do
    some ⟨← parseAddr pc, ← parseByte sp, ← parseByte a, ← parseByte x, ← parseByte y, ← parseByte p⟩
  | _ => none

def pbits (mask : Byte) (a b : Byte) : Bool := (a &&& ~~~mask) == (b &&& ~~~mask)

/-- compare registers; returns the list of differing fields (P outside `mask`) -/
def regsDiff (mask : Byte) (g s : Regs) : List String :=
  (if g.pc != s.pc then [s!"PC:{hexA g.pc}!={hexA s.pc}"] else []) ++
  (if g.sp != s.sp then [s!"SP:{hexB g.sp}!={hexB s.sp}"] else []) ++
  (if g.a != s.a then [s!"A:{hexB g.a}!={hexB s.a}"] else []) ++
  (if g.x != s.x then [s!"X:{hexB g.x}!={hexB s.x}"] else []) ++
  (if g.y != s.y then [s!"Y:{hexB g.y}!={hexB s.y}"] else []) ++
  (if !pbits mask g.p s.p then [s!"P:bits={hexB ((g.p ^^^ s.p) &&& ~~~mask)}:{hexB g.p}!={hexB s.p}"] else [])

/-- the specification's own run of a program on the sparse bus up to what stops it: `halt` (BRK; registers after it),
    `illegal` (undecodable opcode; registers before it), `budget` (the bus budget of the harness is used up: no BRK was
    reached within it) or `open` (the data sheets leave an instruction's outcome open, or an error they do not name) -/
def specRunStopS (model : CpuModel) : Nat → Regs → SBus → String × Regs
  | 0, r, _ => ("budget", r)
  | fuel + 1, r, b =>
    match (Spec.step model r).run sbus r b with
    | (.ok (some (out, r')), b') => if out.halt then ("halt", r') else specRunStopS model fuel r' b'
    | (.ok none, _) => ("open", r)
    | (.error (.illegal _ _), _) => ("illegal", r)
    | (.error .budget, _) => ("budget", r)
    | (.error _, _) => ("open", r)

/-- the byte in front of the final program counter in the memory the Go run left (initial bytes and its own stores):
    the opcode of the instruction a run that halted must have stopped at -/
def goPrevByte (mem0 : List (Addr × Byte)) (g : GoResult) : Byte :=
  let a := g.regs.pc - 1
  match g.trace.toList.reverse.find? (fun e => e.write && e.addr == a) with
  | some e => e.val
  | none => ({ mem := mem0, trace := #[], budget := 0 } : SBus).get a

/-- The executable specification applied to the Go result of a one-instruction run.
    Returns violation tags `C01:..`, `C02:..`, `C03:..`, `C11:..`; `skip` when the specification does
    not constrain the case (invalid BCD) or the run has more than one instruction. -/
def specCheck1 (model : CpuModel) (r0 : Regs) (mem0 : List (Addr × Byte)) (bud : Nat) (g : GoResult) : List String × String :=
  if g.kind == "hostcrash" then (["C11:hostcrash"], "crash") else
  let bus0 : SBus := { mem := mem0, trace := #[], budget := 1000 }
  -- collect the specification tree's store masks while running it
  match (Spec.step model r0).run sbus r0 bus0 with
  | (.error (.illegal _ _), b) =>
    let v := (if coarse g.kind != "error" then [s!"C11:kind:{g.kind}"] else []) ++
      ((regsDiff 0 g.regs r0).map ("C11:regs:" ++ ·)) ++
      -- the accesses of a run that ends at an undefined opcode are its opcode fetch and nothing else: anything more is
      -- an effect of the failed instruction (C11) and an access the totals count although no instruction made it (C03)
      (if g.trace != b.trace then ["C11:trace", "C03:trace-at-illegal-opcode"] else [])
    (v, "illegal")
  | (.error _, _) => ([], "skip-error")
  | (.ok none, _) => ([], "skip-unspecified")
  | (.ok (some (out, r1)), b) =>
    if out.halt then
      -- the simulator's halt instruction
      let v := (if g.kind != "halt" then [s!"C01:kind:{g.kind}"] else []) ++
        ((regsDiff out.pmask g.regs r1).map ("C01:" ++ ·)) ++
        (if g.cycles != 0 then [s!"C02:haltcycles:{g.cycles}"] else []) ++
        (if g.trace != b.trace then ["C03:trace"] else [])
      (v, "brk")
    else
      let b1 : SBus := { b with trace := #[] }
      let next := b1.get r1.pc
      if next != 0 then
        -- more than one instruction: the specification's own run with the bus budget of the request says how the run
        -- ends.  Property C11: a run that stops halts at a BRK or returns an error.
        let (kS, rS) := specRunStopS model (bud + 1) r0 { mem := mem0, trace := #[], budget := bud }
        if kS == "budget" then
          -- no BRK within the budget (an endless loop, as far as the harness lets it run): the code has to use the
          -- budget up as well; a halt is a run that stopped without error where the specification's run is not at a BRK
          ((if g.kind == "halt" then ["C11:halt:spec-run-reaches-no-brk-within-budget"] else []), "multi.budget")
        else if kS == "illegal" then
          ((if coarse g.kind != "error" then [s!"C11:kind:{g.kind}:want=error-at-undefined-opcode"] else []) ++
           (if coarse g.kind == "error" && g.regs.pc != rS.pc then ["C11:regs:PC-at-undefined-opcode"] else []), "multi.illegal")
        else if kS == "halt" then
          ((if g.kind == "halt" && g.regs.pc != rS.pc && goPrevByte mem0 g == 0 then ["C01:halt-at-another-brk:PC"]
            else if coarse g.kind != "halt" then [s!"C01:kind:{g.kind}:want=halt"] else []), "multi.halt")
        else ([], "multi")
      else
        let expTrace := b.trace.push ⟨false, r1.pc, 0⟩
        let r2 := { r1 with pc := r1.pc + 1 }
        let stores (t : Array Event) := t.toList.filter (·.write)
        -- PHP: bits 4/5 of the pushed byte are not constrained
        let isPhp := (mem0.find? (·.1 == r0.pc)).map (·.2) == some 0x08
        let storeEq (x y : Event) : Bool := x.addr == y.addr && (if isPhp then pbits 0x30 x.val y.val else x.val == y.val)
        let sg := stores g.trace
        let ss := stores expTrace
        let storesOk := sg.length == ss.length && (sg.zip ss).all (fun (x, y) => storeEq x y)
        let loads (t : Array Event) := t.toList.filter (!·.write)
        let shapeEq (x y : Event) : Bool := x.write == y.write && x.addr == y.addr
        let traceOk := g.trace.size == expTrace.size && (g.trace.toList.zip expTrace.toList).all (fun (x, y) => shapeEq x y)
        let _ := loads
        let v := (if g.kind != "halt" then [s!"C01:kind:{g.kind}"] else []) ++
          ((regsDiff out.pmask g.regs r2).map ("C01:" ++ ·)) ++
          (if !storesOk then ["C01:stores"] else []) ++
          (if g.cycles != out.cycles then [s!"C02:cycles:{g.cycles}!={out.cycles}"] else []) ++
          (if !traceOk then ["C03:trace"] else [])
        (v, "one")

/-- `specCheck1` plus what holds of every run: one that ended without an error ended at a BRK — the byte in front of the
    final program counter, in the memory as the run left it, is the BRK opcode (C11) -/
def specCheck (model : CpuModel) (r0 : Regs) (mem0 : List (Addr × Byte)) (bud : Nat) (g : GoResult) : List String × String :=
  let (v, cls) := specCheck1 model r0 mem0 bud g
  if g.kind == "halt" && goPrevByte mem0 g != 0 && !(v.any (·.startsWith "C11:")) then
    (v ++ [s!"C11:halt-not-at-brk:prev={hexB (goPrevByte mem0 g)}"], cls)
  else (v, cls)

def splitOnce (s sep : String) : String × String :=
  match s.splitOn sep with
  | [] => ("", "")
  | [a] => (a, "")
  | a :: rest => (a, sep.intercalate rest)

/-- `run M PC SP A X Y P BUDGET | a=v ... => KIND PC SP A X Y P CYCLES | events...` -/
def handleRun (line : String) : String :=
  let (req, res) := splitOnce line "=>"
  let (hd, memS) := splitOnce req "|"
  let (gres, gtrace) := splitOnce res "|"
  match words hd with
  | [_, m, pc, sp, a, x, y, p, budget] =>
    let parsed : Option (CpuModel × Regs × Nat × List (Addr × Byte) × GoResult) := do
      let model ← if m == "0" then some CpuModel.m6502 else if m == "1" then some CpuModel.m65C02 else none
      let regs ← parseRegs [pc, sp, a, x, y, p]
      let bud ← budget.toNat?
      let mem ← (words memS).mapM fun w => match w.splitOn "=" with
        | [a, v] => do some (← parseAddr a, ← parseByte v)
        | _ => none
      let g ← match words gres with
        | kind :: rest =>
          match rest.reverse with
          | cyc :: rregs => do
            let rg ← parseRegs rregs.reverse
            let c ← cyc.toNat?
            let tr ← (words gtrace).mapM parseEvent
            some { kind := kind, regs := rg, cycles := c, trace := tr.toArray : GoResult }
          | _ => none
        | _ => none
      some (model, regs, bud, mem, g)
    match parsed with
    | none => "bad"
    | some (model, regs, bud, mem, g) =>
      let bus0 : SBus := { mem := mem.reverse, trace := #[], budget := bud }
      let (stop, mach) := Impl.runExt (Generated.opTable model) Generated.consts model sbus (bud + 1) regs.pc true { regs := regs, cycles := 0, mem := bus0 }
      let kind := kindOf stop
      -- tie 2: the model against the Go code.  Registers after a fault are compared for illegal only.
      let cmpRegs := kind == "halt" || kind == "illegal"
      let diffs : List String :=
        (if coarse kind != coarse g.kind then [s!"kind:{g.kind}!={kind}"] else []) ++
        (if cmpRegs then regsDiff 0 g.regs mach.regs else []) ++
        (if kind == "halt" && g.cycles != mach.cycles then [s!"cycles:{g.cycles}!={mach.cycles}"] else []) ++
        (if (g.trace.toList.filter (·.write)) != (mach.mem.trace.toList.filter (·.write)) then ["stores"] else []) ++
        (if g.trace != mach.mem.trace then [s!"trace:model={showTrace mach.mem.trace}"] else [])
      let (viol0, cls) := specCheck model regs mem.reverse bud g
      let opc := match mem.reverse.find? (·.1 == regs.pc) with | some (_, v) => v | none => 0
      let sfx := s!"@opc={hexB opc}:model={m}"
      let viol := viol0.map (· ++ sfx)
      let d := if diffs.isEmpty then "agree" else "DIFF " ++ ",".intercalate diffs
      let v := if viol.isEmpty then "specok" else "VIOL " ++ ",".intercalate viol
      s!"{d} | {v} | {cls}"
  | _ => "bad"


/-- specification-level run: execute `Spec.step` until BRK, summing the cycles of the non-halting
    instructions (don't-care masks are ignored: the generated programs avoid them) -/
def specRun (model : CpuModel) : Nat → Regs → SBus → Nat → Option (Regs × SBus × Nat)
  | 0, _, _, _ => none
  | fuel + 1, r, b, acc =>
    match (Spec.step model r).run sbus r b with
    | (.ok (some (out, r')), b') => if out.halt then some (r', b', acc) else specRun model fuel r' b' (acc + out.cycles)
    | _ => none

/-- `runs M X | mem | pc:reset ... => kind:cycles ...` -/
def handleRuns (line : String) : String :=
  let (req, res) := splitOnce line "=>"
  match req.splitOn "|" with
  | [hd, memS, runsS] =>
    match words hd with
    | [_, m, x] =>
      let parsed : Option (CpuModel × Byte × List (Addr × Byte) × List (Addr × Nat)) := do
        let model ← if m == "0" then some CpuModel.m6502 else if m == "1" then some CpuModel.m65C02 else none
        let x ← parseByte x
        let mem ← (words memS).mapM fun w => match w.splitOn "=" with
          | [a, v] => do some (← parseAddr a, ← parseByte v)
          | _ => none
        let runs ← (words runsS).mapM fun w => match w.splitOn ":" with
          | [a, r] => do some (← parseAddr a, ← r.toNat?)
          | _ => none
        some (model, x, mem, runs)
      match parsed with
      | none => "bad"
      | some (model, x, mem, runs) =>
        let bus0 : SBus := { mem := mem.reverse, trace := #[], budget := 4000 }
        let regs0 : Regs := ⟨0, 0xFF, 0, x, 0, 0⟩
        -- the Impl model (mode 2 = `Reset()`: registers and the cycle counter start over)
        let regsR : Regs := ⟨0, 0xFF, 0, 0, 0, 0⟩
        let (_, outsI) := runs.foldl (fun (acc : Impl.Machine SBus × List String) (pr : Addr × Nat) =>
          if pr.2 == 2 then ({ acc.1 with regs := regsR, cycles := 0 }, acc.2 ++ ["reset:0"]) else
          let (stop, m') := Impl.runExt (Generated.opTable model) Generated.consts model sbus 5000 pr.1 (pr.2 == 1) acc.1
          (m', acc.2 ++ [s!"{kindOf stop}:{m'.cycles}"])) ({ regs := regs0, cycles := 0, mem := bus0 }, [])
        -- the specification
        let (_, outsS) := runs.foldl (fun (acc : (Regs × SBus × Nat) × List String) (pr : Addr × Nat) =>
          let (r, b, c) := acc.1
          if pr.2 == 2 then ((regsR, b, 0), acc.2 ++ ["reset:0"]) else
          let c0 := if pr.2 == 1 then 0 else c
          match specRun model 5000 { r with pc := pr.1 } b c0 with
          | some (r', b', c') => ((r', b', c'), acc.2 ++ [s!"halt:{c'}"])
          | none => ((r, b, c0), acc.2 ++ ["?"])) ((regs0, bus0, 0), [])
        let go := words res
        let d := if go == outsI then "agree" else "DIFF cycles:runs:model=" ++ " ".intercalate outsI
        let v := if go == outsS || outsS.contains "?" then "specok" else "VIOL C02:runs:spec=" ++ "_".intercalate outsS ++ s!"@model={m}"
        s!"{d} | {v} | runs"
    | _ => "bad"
  | _ => "bad"

/-- the wrapper layer of a `machcount` request: none, the F256 coprocessor (`c<flags>:<base>`) or the trap placeholder
    without a trap function (`t:<addr>`) -/
inductive MachWrap where
  | none
  | coproc (flags base : Nat)
  | trap (addr : Nat)

def parseMachWrap : List String → Option MachWrap
  | [] => some .none
  | [w] =>
    match w.splitOn ":" with
    | [k, a] => do
      let addr ← parseAddr a
      if k == "t" then some (.trap addr.toNat)
      else if k.startsWith "c" then do
        let f ← (k.drop 1).toString.toNat?
        some (.coproc f addr.toNat)
      else none
    | _ => none
  | _ => none

/-- The accesses the documented machine counts for the specification's run of a program, as (address, 1) increments in
    order: every fetch, read and write of the program exactly once on the byte it names — a store that a wrapper layer
    hands to a handler is still ONE write of that byte (a placeholder without a trap function stores it; the
    coprocessor stores the operand) — plus the coprocessor's own documented bookkeeping after a store to an operand
    register of an enabled unit: one load of each of the unit's four operand bytes and one store to each result byte it
    refreshes (multiplier: base+$10..$13; divider: base+$14..$17 unless the divisor word base+4/5 is zero). -/
def machAccesses (w : MachWrap) (evs : List Event) : List Nat :=
  match w with
  | .none | .trap _ => evs.map (·.addr.toNat)
  | .coproc flags base =>
    let mul := flags % 2 == 1
    let div := (flags / 4) % 2 == 1
    -- the divisor word as the program's own stores leave it (memory starts zeroed)
    let (_, _, acc) := evs.foldl (fun (st : Nat × Nat × List Nat) e =>
      let (d0, d1, acc) := st
      let a := e.addr.toNat
      let acc := a :: acc
      if !e.write then (d0, d1, acc) else
      let d0 := if a == base + 4 then e.val.toNat else d0
      let d1 := if a == base + 5 then e.val.toNat else d1
      if mul && base ≤ a && a < base + 4 then
        (d0, d1, [base + 0x13, base + 0x12, base + 0x11, base + 0x10, base + 3, base + 2, base + 1, base] ++ acc)
      else if div && base + 4 ≤ a && a < base + 8 then
        let acc := [base + 7, base + 6, base + 5, base + 4] ++ acc
        (d0, d1, if d0 != 0 || d1 != 0 then [base + 0x17, base + 0x16, base + 0x15, base + 0x14] ++ acc else acc)
      else (d0, d1, acc)) (0, 0, [])
    acc.reverse

/-- `machcount SPEC MODEL CODE [c<flags>:<base> | t:<addr>] => halt|error | addr:count ...`: a straight-line program
    inside the plain RAM of a real machine (optionally under the coprocessor layer or the trap placeholder); the access
    statistics of the machine afterwards against the fetches, reads and writes of the specification's own run of the
    same program on flat memory (C03 on the real memory models) -/
def handleMachCount (line : String) : String :=
  match line.splitOn " => " with
  | [req, res] =>
    match words req, res.splitOn " | " with
    | _ :: spec :: m :: codeS :: extra, gres :: rest =>
      let parsed : Option (CpuModel × List Nat × MachWrap) := do
        let model ← if m == "0" then some CpuModel.m6502 else if m == "1" then some CpuModel.m65C02 else none
        some (model, ← unhex codeS, ← parseMachWrap extra)
      match parsed with
      | none => "bad"
      | some (model, code, wrap) =>
        let mem0 : List (Addr × Byte) := code.zipIdx.map fun (b, i) => (BitVec.ofNat 16 (0x0400 + i), BitVec.ofNat 8 b)
        let bus0 : SBus := { mem := mem0.reverse, trace := #[], budget := 100000 }
        match specRun model 2000 ⟨0x0400, 0xFF, 0, 0, 0, 0⟩ bus0 0 with
        | none => "agree | specok | machcount.unspecified"
        | some (_, b, _) =>
          -- the halting BRK's own fetch is an access too
          let counts : List (Nat × Nat) := (machAccesses wrap b.trace.toList).foldl (fun (acc : List (Nat × Nat)) a =>
            match acc.find? (·.1 == a) with
            | some (_, n) => (a, n + 1) :: acc.filter (·.1 != a)
            | none => (a, 1) :: acc) []
          let sorted := counts.mergeSort (fun x y => decide (x.1 ≤ y.1))
          let want := " ".intercalate (sorted.map fun (a, n) => s!"{String.ofList (Nat.toDigits 16 a)}:{n}")
          let got := " ".intercalate (words (" | ".intercalate rest))
          let g := gres.trimAscii.toString
          let (cls, layer) := match wrap with
            | .none => ("machcount", "")
            | .coproc f bs => ("machcount.coproc", s!"-coproc{f}@{String.ofList (Nat.toDigits 16 bs)}")
            | .trap t => ("machcount.trap", s!"-trap@{String.ofList (Nat.toDigits 16 t)}")
          if g == "hostcrash" then s!"agree | VIOL C11:hostcrash:machcount:{spec} | {cls}"
          else if g == "halt" && got == want then s!"agree | specok | {cls}"
          else
            -- the first address whose count differs
            let gl := (words got)
            let wl := (words want)
            let firstDiff := (gl.filter (fun t => !wl.contains t) ++ wl.filter (fun t => !gl.contains t)).head?.getD "?"
            s!"DIFF trace:machine-counts | VIOL C03:machine-counts{layer}:{spec}:model={m}:{g}:first={firstDiff} | {cls}"
    | _, _ => "bad"
  | _ => "bad"

-- the `crash` verb (host-crash stream, judged stops) lives in Driver/WinCount.lean: it needs the documented memory map

end Driver
