import Verif.Impl.Wrapper
import Verif.Facts.MemNow
import Driver.Util
/-  `coproc` verb (property C16). -/
namespace Driver
open Verif Verif.Impl Verif.Spec Verif.Facts

def read8 (k : MemKind) (s : MemState) (base : Addr) : Option (String × MemState) :=
  (List.range 8).foldl (fun acc i => match acc with
    | none => none
    | some (str, s) => match loadB k s (base + 0x10 + BitVec.ofNat 16 i) with
      | some (v, s') => some (str ++ hexB v, s')
      | none => none) (some ("", s))

/-- Config.AddF256Func installs the wrapper only when a unit is enabled -/
def cfgStore (k : MemKind) (flags : Byte) (base : Addr) (s : MemState) (a : Addr) (v : Byte) : Option MemState :=
  if (flags &&& 1) != 0 || (flags &&& 4) != 0 then coprocStore k flags base s a v else storeB k s a v

abbrev Flat := List (Nat × Nat)
def Flat.get (m : Flat) (x : Nat) : Nat := match m.find? (·.1 == x) with | some (_, v) => v | none => 0
def Flat.set (m : Flat) (x v : Nat) : Flat := (x, v) :: m.filter (·.1 != x)

/-- independent specification on a flat byte array: enabled units recompute after a store to their operands -/
def specStep (flags : Nat) (base : Nat) (mem : Flat) (a v : Nat) : Flat :=
  let m0 := mem.set a v
  let at16 (o : Nat) := m0.get ((base + o + 1) % 65536) * 256 + m0.get ((base + o) % 65536)
  let off := (a + 65536 - base) % 65536
  let samePage := a / 256 = base / 256
  if samePage ∧ flags % 2 = 1 ∧ off < 4 then
    let p := at16 0 * at16 2
    (((m0.set ((base + 16) % 65536) (p % 256)).set ((base + 17) % 65536) (p / 256 % 256)).set ((base + 18) % 65536)
      (p / 65536 % 256)).set ((base + 19) % 65536) (p / 16777216 % 256)
  else if samePage ∧ flags / 4 % 2 = 1 ∧ 4 ≤ off ∧ off < 8 then
    let den := at16 4
    let num := at16 6
    if den = 0 then m0 else
    (((m0.set ((base + 20) % 65536) (num / den % 256)).set ((base + 21) % 65536) (num / den / 256 % 256)).set
      ((base + 22) % 65536) (num % den % 256)).set ((base + 23) % 65536) (num % den / 256 % 256)
  else m0

def handleCoproc (line : String) : String :=
  match line.splitOn " => " with
  | [req, res] =>
    match req.splitOn " | " with
    | [hd, opsS] =>
      -- optional fifth word `p=aaaa,bbbb,..`: addresses of output ports (the outermost layer: a program's store to one of
      -- them goes to the port and nowhere else)
      let hw := words hd
      let ports : List Addr := match hw.getD 4 "" |>.splitOn "=" with
        | ["p", l] => (l.splitOn ",").filterMap parseAddr
        | _ => []
      match hw.take 4 with
      | [_, spec, flagsS, baseS] =>
        match docMachine spec, flagsS.toNat?, parseAddr baseS with
        | some k, some flags, some base =>
          -- `Laaaa=vv`: a store through the linear view of the memory below the coprocessor layer (no unit reacts)
          let ops : List (Bool × Addr × Byte) := (words opsS).filterMap fun w =>
            let direct := w.startsWith "L"
            match (if direct then (w.drop 1).toString else w).splitOn "=" with
            | [a, v] => do some (direct, ← parseAddr a, ← parseByte v)
            | _ => none
          let go := words res
          if ops.length != go.length then "bad" else
          let fl : Byte := BitVec.ofNat 8 flags
          -- Impl model
          let (_, outsI) := ops.foldl (fun (acc : Option MemState × List String) (op : Bool × Addr × Byte) =>
            match acc.1 with
            | none => (none, acc.2 ++ ["?"])
            | some s =>
              match (if op.1 then storeB k s op.2.1 op.2.2
                     else if ports.contains op.2.1 then some s
                     else cfgStore k fl base s op.2.1 op.2.2) with
              | none => (some s, acc.2 ++ ["!"])   -- a faulting store: the harness goes on with the same memory
              | some s' => match read8 k s' base with
                | some (str, s'') => (some s'', acc.2 ++ [str])
                | none => (some s', acc.2 ++ ["!"])) (some (initState k), [])
          -- specification (plain RAM machines with the block in one page only)
          let flat := spec == "Linear64K" && base.toNat % 256 + 0x17 ≤ 255
          let (_, outsS) := ops.foldl (fun (acc : Flat × List String) (op : Bool × Addr × Byte) =>
            let m' := if op.1 then acc.1.set op.2.1.toNat op.2.2.toNat
                      else if ports.contains op.2.1 then acc.1
                      else specStep flags base.toNat acc.1 op.2.1.toNat op.2.2.toNat
            (m', acc.2 ++ [String.join ((List.range 8).map fun i => toHex 2 (m'.get ((base.toNat + 16 + i) % 65536)))])) ([], [])
          let d := if outsI == go then "agree" else "DIFF coproc"
          let v := if !flat || outsS == go then "specok" else s!"VIOL C16:results@flags={flags}:base={baseS}"
          s!"{d} | {v} | coproc"
        | _, _, _ => "bad"
      | _ => "bad"
    | _ => "bad"
  | _ => "bad"

end Driver
