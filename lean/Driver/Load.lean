import Std.Data.HashMap
import Verif.Impl.Loader
import Verif.Generated.Misc
import Driver.Mem
import Driver.Text
/-  `load` and `preload` verbs. -/
namespace Driver
open Verif Verif.Impl Verif.Spec Verif.Facts

/-- the copy, store by store, remembering the cells written (for the image) -/
def copyTracked (k : MemKind) : MemState → Addr → List Byte → List Cell → Bool × MemState × List Cell
  | s, _, [], t => (true, s, t)
  | s, a, b :: rest, t =>
    let c := calcIndex k s.data a
    match store k s a b with
    | (false, s') => (false, s', t)
    | (true, s') => copyTracked k s' (a + 1) rest (match c with | some c => c :: t | none => t)

/-! The model state is a closure that grows with every store; reading it costs its depth.  For long payloads the
    copy is done in chunks of 256 bytes and the state is re-based on hash maps after each chunk (same function,
    constant depth).  Valid because the copy starts from `initState k`. -/

instance : Hashable Region := ⟨fun r => match r with
  | .main => 1 | .ram => 2 | .rom => 3 | .geo => 4 | .io => 5 | .lut => 6 | .memCtrl => 7 | .ioCtrl => 8⟩

structure Compact where
  d : Std.HashMap Cell Byte := {}
  st : Std.HashMap Cell Nat := {}

def compact (k : MemKind) (s : MemState) (cells : List Cell) (cp : Compact) : MemState × Compact :=
  let d := cells.foldl (fun h c => h.insert c (s.data c)) cp.d
  let st := cells.foldl (fun h c => h.insert c (s.stat c)) cp.st
  let i := initState k
  ({ s with data := fun c => (d.get? c).getD (i.data c), stat := fun c => (st.get? c).getD (i.stat c) }, ⟨d, st⟩)

/-- `copyTracked` in chunks of 256 stores -/
partial def copyChunked (k : MemKind) (s : MemState) (a : Addr) (bytes : List Byte) (t : List Cell) (cp : Compact) :
    Bool × MemState × List Cell :=
  if bytes.isEmpty then (true, s, t)
  else
    let (ok, s', tc) := copyTracked k s a (bytes.take 256) []
    let (s'', cp') := compact k s' tc cp
    if !ok then (false, s'', tc ++ t)
    else copyChunked k s'' (a + 256) (bytes.drop 256) (tc ++ t) cp'

/-- specification of the placement on the memory image: byte i at the cell behind (start+i) mod 65536,
    resolved by the documented map at the time of the store; `none` when a byte cannot be stored -/
def specCopy (k : MemKind) : MemState → Nat → List Byte → List Cell → Option (MemState × List Cell)
  | s, _, [], t => some (s, t)
  | s, a, b :: rest, t =>
    match docMap k (fun c => (s.data c).toNat) (a % 65536) with
    | none => none
    | some c => specCopy k { s with data := upd s.data c b } (a + 1) rest (c :: t)

/-- `specCopy` in chunks of 256 bytes -/
partial def specCopyChunked (k : MemKind) (s : MemState) (a : Nat) (bytes : List Byte) (t : List Cell) (cp : Compact) :
    Option (MemState × List Cell) :=
  if bytes.isEmpty then some (s, t)
  else
    match specCopy k s a (bytes.take 256) [] with
    | none => none
    | some (s', tc) =>
      let (s'', cp') := compact k s' tc cp
      specCopyChunked k s'' (a + 256) (bytes.drop 256) (tc ++ t) cp'

def imageOfState (k : MemKind) (s : MemState) (touched : List Cell) : String :=
  let isF := match k with | .f256 _ => true | _ => false
  let init : List Cell := match k with | .x16 _ => [(.main, 0)] | _ => []
  let ctl := if isF then s!" c0:{hexB (s.data (.memCtrl, 0))} c1:{hexB (s.data (.ioCtrl, 0))}" else ""
  "D" ++ imageStr k (init ++ touched) (fun c => hexB (s.data c)) (fun c => s.data c == 0) ctl

def handleLoad (line : String) : String :=
  match line.splitOn " | " with
  | [main, img] =>
    match main.splitOn " => " with
    | [req, res] =>
      match words req with
      | [_, spec, fileHex] =>
        match docMachine spec, unhex (if fileHex == "-" then "" else fileHex) with
        | some k, some bytes =>
          let file : List Byte := bytes.map (BitVec.ofNat 8)
          let s0 := initState k
          -- `loadFile` of Impl/Loader.lean, evaluated through the chunked copy (the closure state of the model
          -- makes the direct evaluation quadratic); for short files the direct evaluation is compared as well
          let (modelRes, modelImg) : String × String := match file with
            | lo :: hi :: b :: rest =>
              let la : Addr := hi.zeroExtend 16 * 256 + lo.zeroExtend 16
              let (ok, s', t) := copyChunked k s0 la (b :: rest) [] {}
              let r := if Generated.loadChecksCopyError && !ok then "err" else s!"ok {la.toNat} {(b :: rest).length % 65536}"
              (r, imageOfState k s' t)
            | _ => ("err", imageOfState k s0 [])
          let direct := if file.length ≤ 1024 then
              (match (loadFile Generated.loadChecksCopyError k s0 file).1 with | .error => "err" | .ok a l => s!"ok {a} {l}")
            else modelRes
          let modelRes := if direct == modelRes then modelRes else s!"driver-inconsistent:{direct}:{modelRes}"
          -- specification
          let (specRes, specImg) : String × Option String := match file with
            | lo :: hi :: b :: rest =>
              let hdr := hi.toNat * 256 + lo.toNat
              match specCopyChunked k s0 hdr (b :: rest) [] {} with
              | some (s', t) => (s!"ok {hdr} {(b :: rest).length}", some (imageOfState k s' t))
              | none => ("err", none)   -- which bytes were written before the fault is not constrained
            | _ => ("err", some (imageOfState k s0 []))
          let d := (if modelRes != res then [s!"result:model={modelRes.replace " " "_"}"] else []) ++
                   (if modelImg != img.trim then ["image"] else [])
          let v := (if res == "hostcrash" then ["C13:hostcrash"] else if specRes != res then [s!"C13:result:spec={specRes.replace " " "_"}:go={res.replace " " "_"}"] else []) ++
                   (match specImg with | some i => if i != img.trim then ["C13:image"] else [] | none => [])
          let ds := if d.isEmpty then "agree" else "DIFF " ++ ",".intercalate d
          let vs := if v.isEmpty then "specok" else "VIOL " ++ ",".intercalate (v.map (· ++ s!"@{spec}"))
          s!"{ds} | {vs} | load"
        | _, _ => "bad"
      | _ => "bad"
    | _ => "bad"
  | _ => "bad"

/-- `load2 SPEC FILEA FILEB => resA;resB | D<image>`: two files loaded into the same machine one after the other
    (short files: the copy is evaluated directly) -/
def handleLoad2 (line : String) : String :=
  match line.splitOn " | " with
  | [main, img] =>
    match main.splitOn " => " with
    | [req, res] =>
      match words req with
      | [_, spec, fa, fb] =>
        match docMachine spec, unhex fa, unhex fb with
        | some k, some ba, some bb =>
          let files : List (List Byte) := [ba.map (BitVec.ofNat 8), bb.map (BitVec.ofNat 8)]
          let s0 := initState k
          -- the Impl model
          let (sI, tI, rI) := files.foldl (fun (acc : MemState × List Cell × List String) file =>
            let (s, t, rs) := acc
            match file with
            | lo :: hi :: b :: rest =>
              let la : Addr := hi.zeroExtend 16 * 256 + lo.zeroExtend 16
              let (ok, s', t') := copyTracked k s la (b :: rest) t
              (s', t', rs ++ [if Generated.loadChecksCopyError && !ok then "err" else s!"ok_{la.toNat}_{(b :: rest).length % 65536}"])
            | _ => (s, t, rs ++ ["err"])) (s0, [], [])
          let modelRes := ";".intercalate rI
          let modelImg := imageOfState k sI tI
          -- the specification: every file is placed by the same rule on the memory as it is at that moment
          let (sS, tS, rS, known) := files.foldl (fun (acc : MemState × List Cell × List String × Bool) file =>
            let (s, t, rs, known) := acc
            match file with
            | lo :: hi :: b :: rest =>
              (match specCopy k s (hi.toNat * 256 + lo.toNat) (b :: rest) t with
               | some (s', t') => (s', t', rs ++ [s!"ok_{hi.toNat * 256 + lo.toNat}_{(b :: rest).length}"], known)
               | none => (s, t, rs ++ ["err"], false))
            | _ => (s, t, rs ++ ["err"], known)) (s0, [], [], true)
          let specRes := ";".intercalate rS
          -- after a failed load the contents are not constrained; results are compared up to and including the first error
          let upToErr (l : List String) : List String := match l.findIdx? (· == "err") with | some i => l.take (i + 1) | none => l
          let goRes := upToErr (res.trimAscii.toString.splitOn ";")
          let d := (if modelRes != res.trimAscii.toString then [s!"result:model={modelRes}"] else []) ++
                   (if modelImg != img.trimAscii.toString then ["image"] else [])
          let v := (if (res.splitOn "hostcrash").length > 1 then ["C13:hostcrash"]
                    else if upToErr rS != goRes then [s!"C13:result2:spec={specRes}:go={res.trimAscii.toString}"] else []) ++
                   (if known && imageOfState k sS tS != img.trimAscii.toString then ["C13:image-second-load"] else [])
          let ds := if d.isEmpty then "agree" else "DIFF " ++ ",".intercalate d
          let vs := if v.isEmpty then "specok" else "VIOL " ++ ",".intercalate (v.map (· ++ s!"@{spec}"))
          s!"{ds} | {vs} | load2"
        | _, _, _ => "bad"
      | _ => "bad"
    | _ => "bad"
  | _ => "bad"

def handlePreload (line : String) : String :=
  match line.splitOn " | " with
  | [main, img] =>
    match main.splitOn " => " with
    | [req, res] =>
      match words req with
      | [_, spec, addr, dataHex] =>
        match docMachine spec, parseAddr addr, unhex dataHex with
        | some k, some a, some bytes =>
          let data : List Byte := bytes.map (BitVec.ofNat 8)
          let s0 := initState k
          let (ok, s', t) := copyChunked k s0 a data [] {}
          let modelRes := if ok then "ok" else "err"
          let modelImg := if ok then imageOfState k s' t else "D"
          let (specRes, specImg) := match specCopyChunked k s0 a.toNat data [] {} with
            | some (s2, t2) => ("ok", imageOfState k s2 t2)
            | none => ("err", "D")
          let d := (if modelRes != res then ["result"] else []) ++ (if modelImg != img.trim then ["image"] else [])
          let v := (if specRes != res then [s!"C13:preload:spec={specRes}:go={res}"] else []) ++
                   (if specImg != img.trim then ["C13:preload-image"] else [])
          let ds := if d.isEmpty then "agree" else "DIFF " ++ ",".intercalate d
          let vs := if v.isEmpty then "specok" else "VIOL " ++ ",".intercalate (v.map (· ++ s!"@{spec}"))
          s!"{ds} | {vs} | preload"
        | _, _, _ => "bad"
      | _ => "bad"
    | _ => "bad"
  | _ => "bad"

end Driver
