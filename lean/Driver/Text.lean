import Verif.Impl.Dump
import Verif.Generated.Misc
import Driver.Util
/-  `dump` and `dumpspec` verbs. -/
namespace Driver
open Verif Verif.Impl

def hexOfChars (cs : List Char) : String :=
  String.join (cs.map fun c => toHex 2 c.toNat)

def unhex (s : String) : Option (List Nat) :=
  let cs := s.toList
  let rec go : List Char → List Nat → Option (List Nat)
    | [], acc => some acc.reverse
    | [_], _ => none
    | a :: b :: rest, acc =>
      match hexDigit a, hexDigit b with
      | some x, some y => go rest ((x * 16 + y) :: acc)
      | _, _ => none
  go cs []

/-- `dump START END K C => hex | !diverged` -/
def handleDump (line : String) : String :=
  match line.splitOn " => " with
  | [req, res] =>
    match words req with
    | [_, s, e, k, c] =>
      match parseHex s, parseHex e, k.toNat?, c.toNat? with
      | some start, some stop, some k, some c =>
        let mem := fun a => (a * k + c) % 256
        let fuel := stop + 2 - start
        let model : String := match dumpRows Generated.loopBits_Dump start stop fuel with
          | some rows => hexOfChars (renderDump mem rows stop)
          | none => "!diverged"
        -- specification: the addresses start..stop in rows of sixteen, rendered the same way, always terminating
        let spec : String := hexOfChars (renderDump mem (chunk16 (List.range' start (stop + 1 - start))) stop)
        let d := if model == res then "agree" else "DIFF text"
        let v := if spec == res then "specok" else if res == "!diverged" then s!"VIOL C20:diverges@{s}-{e}" else s!"VIOL C20:text@{s}-{e}"
        s!"{d} | {v} | dump"
      | _, _, _, _ => "bad"
    | _ => "bad"
  | _ => "bad"

/-- independent reading of the accepted language: decimal digits ':' decimal digits, both parts at
    most 65535, length at least 1, end address at most 65535 -/
def specDumpSpec (s : List Char) : Option (Nat × Nat) :=
  match s.splitOn ':' with
  | [a, b] =>
    if !a.isEmpty && !b.isEmpty && a.all Char.isDigit && b.all Char.isDigit then
      let x := (String.ofList a).toNat!
      let y := (String.ofList b).toNat!
      if x ≤ 65535 && 1 ≤ y && y ≤ 65535 && x + y - 1 ≤ 65535 then some (x, y) else none
    else none
  | _ => none

def handleDumpSpec (line : String) : String :=
  match line.splitOn " => " with
  | [req, res] =>
    match words req with
    | [_, h] =>
      match unhex h with
      | none => "bad"
      | some bytes =>
        -- the harness only sends ASCII except for deliberate non-ASCII probes (bytes ≥ 128 are never digits)
        let cs := bytes.map Char.ofNat
        let show_ (o : Option (Nat × Nat)) := match o with | some (a, n) => s!"ok {a} {n}" | none => "err"
        let model := show_ (parseDumpParams cs)
        let spec := show_ (specDumpSpec cs)
        let d := if model == res then "agree" else s!"DIFF spec:model={model}"
        let v := if spec == res then "specok" else s!"VIOL C20:spec:{h}:go={res.replace " " "_"}"
        s!"{d} | {v} | dumpspec"
    | _ => "bad"
  | _ => "bad"

/-- `e2edump CMD SPECHEX => err=.. ran=.. report=.. panic=..`: the real run/profile command given a dump
    specification; when the specification is invalid the command must fail and the program must not have run -/
def handleE2eDump (line : String) : String :=
  match line.splitOn " => " with
  | [req, res] =>
    match words req with
    | [_, cmd, h] =>
      match unhex h with
      | none => "bad"
      | some bytes =>
        let cs := bytes.map Char.ofNat
        let valid := (specDumpSpec cs).isSome
        let modelValid := (parseDumpParams cs).isSome
        let expect := if valid then "err=false ran=true" else "err=true ran=false report=false panic=false"
        let got := res.trimAscii.toString
        let okGo := if valid then got.startsWith expect else got == expect
        let d := if modelValid == valid then "agree" else "DIFF spec:model"
        let tag := if (got.splitOn "ran=true").length > 1 && !valid then "ran-before-validation"
                   else if (got.splitOn "report=true").length > 1 && !valid then "report-written"
                   else "result"
        let v := if okGo then "specok" else s!"VIOL C20:e2e:{tag}:{cmd}:{h}:go={got.replace " " "_"}"
        s!"{d} | {v} | e2edump.{cmd}"
    | _ => "bad"
  | _ => "bad"

end Driver
