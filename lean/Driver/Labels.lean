import Verif.Impl.Labels
import Verif.Generated.Misc
import Driver.Text
/-  `label` and `labelfile` verbs (property C19). -/
namespace Driver
open Verif Verif.Impl

/-- bytes of a line as characters: the Go regexps work on UTF-8, every multi-byte sequence is a
    non-word, non-space, non-digit character — decoding is only needed to keep `.` from splitting, which
    the recognisers never do; bytes ≥ 128 are mapped to one private character each -/
def bytesToChars (bs : List Nat) : List Char := bs.map fun b => if b < 128 then Char.ofNat b else Char.ofNat (0xE000 + b)
def charsToHex (cs : List Char) : String :=
  String.join (cs.map fun c => toHex 2 (if c.toNat ≥ 0xE000 then c.toNat - 0xE000 else c.toNat))

def parserOf (kind : String) : List Char → Option (Nat × List Char) := if kind == "64tass" then parseTass else parseAcme

def handleLabel (line : String) : String :=
  match line.splitOn " => " with
  | [req, res] =>
    match words req with
    | _ :: kind :: rest =>
      let h := match rest with | [h] => h | _ => ""
      match unhex h with
      | none => "bad"
      | some bs =>
        let model := match parserOf kind (bytesToChars bs) with
          | some (v, l) => s!"ok {v} {charsToHex l}"
          | none => "err"
        if model == res.trim then "agree | specok | label"
        else s!"DIFF line:model={model.replace " " "_"} | VIOL C19:line:{kind}:{h}:go={res.trim.replace " " "_"} | label"
    | _ => "bad"
  | _ => "bad"

def handleLabelFile (line : String) : String :=
  match line.splitOn " => " with
  | [req, res] =>
    match words req with
    | [_, kind, enc] =>
      let items := if enc == "-" then [] else enc.splitOn ","
      let lines : List (Option (List Char × Nat)) := items.map fun it =>
        match it.splitOn "+" with
        | [h] => (unhex h).map fun bs => (bytesToChars bs, bs.length)
        | [h, n] => match unhex h, n.toNat? with
          | some bs, some k => some (bytesToChars bs ++ List.replicate k 'x', bs.length + k)
          | _, _ => none
        | _ => none
      if lines.any Option.isNone then "bad" else
      let ls := lines.filterMap id
      -- bufio.Scanner gives up on a line of 65536 bytes or more
      let tooLong := fun (l : List Char) => l.length ≥ 65536
      let model := match parseFile (parserOf kind) Generated.labelFileChecksScannerError tooLong (ls.map (·.1)) with
        | none => "err"
        | some defs =>
          let addrs := (defs.map (·.1)).foldl (fun acc a => if acc.contains a then acc else acc ++ [a]) []
          let sorted := addrs.mergeSort (fun a b => decide (a ≤ b))
          if sorted.isEmpty then "ok -" else
          "ok " ++ ";".intercalate (sorted.map fun a => s!"{a}:" ++ ",".intercalate ((labelsOf defs a).map charsToHex))
      -- specification: complete and exact or rejected (never a silent partial result)
      let spec := match parseFile (parserOf kind) true tooLong (ls.map (·.1)) with
        | none => "err"
        | some _ => model
      let d := if model == res.trim then "agree" else "DIFF file"
      let v := if spec == res.trim then "specok" else s!"VIOL C19:file:{kind}:lines={ls.length}"
      s!"{d} | {v} | labelfile"
    | _ => "bad"
  | _ => "bad"

end Driver
