import Verif.Impl.Trap
import Driver.Cpu
import Driver.Text
/-  `trap` and `port` verbs (property C10). -/
namespace Driver
open Verif Verif.Impl

abbrev SB := StateT SBus (Except Err)

def ldS (a : Addr) : SB Byte := fun m =>
  match sbus.load m a with
  | (.ok v, m') => .ok (v, m')
  | (.error e, _) => .error e

def stS (a : Addr) (v : Byte) : SB Unit := fun m =>
  match sbus.store m a v default with
  | (.ok _, m') => .ok ((), m')
  | (.error e, _) => .error e

/-- the Lua trap functions of harness/cmd/corr/trap.go, kind by kind -/
def scriptBody (kind : Nat) (t : Addr) (c : Byte) (r : Regs) : SB Regs := do
  let n := (← ldS 0x3DFF).toNat + 1
  stS 0x3DFF (BitVec.ofNat 8 n)
  stS (BitVec.ofNat 16 (0x3E00 + n)) c
  match kind with
  | 1 => pure { r with x := r.x + 1 }
  | 2 => pure { r with a := 255 - c, p := if c.toNat % 2 == 1 then 0x83 else 0x40 }
  | 3 => do
    stS (t + 1) c
    let v ← ldS t
    stS 0x3DFE v
    pure r
  | 4 => pure { r with sp := 0xE0 }
  | 5 => pure { r with pc := r.pc + 1 }
  | 6 => pure { r with y := c }
  | _ => pure r

def scriptOf (kind : Nat) (t : Addr) : Script SBus := fun c r m =>
  match (scriptBody kind t c r).run m with
  | .ok (r', m') => (.ok r', m')
  | .error e => (.error e, m)

def memOf (l : List (Addr × Byte)) : List (Addr × Byte) := l.reverse

def loadCode (mem : List (Addr × Byte)) (at_ : Nat) (code : List Nat) : List (Addr × Byte) :=
  (code.zipIdx.map fun (b, i) => (BitVec.ofNat 16 (at_ + i), BitVec.ofNat 8 b)) ++ mem

/-- specification-level run on an arbitrary bus -/
def specRunB {σ : Type} (bus : Bus σ) (model : CpuModel) : Nat → Regs → σ → Nat → Option (Regs × σ × Nat)
  | 0, _, _, _ => none
  | fuel + 1, r, b, acc =>
    match (Spec.step model r).run bus r b with
    | (.ok (some (out, r')), b') => if out.halt then some (r', b', acc) else specRunB bus model fuel r' b' (acc + out.cycles)
    | _ => none

def watchList (t : Addr) : List Addr :=
  [t - 1, t, t + 1, t ^^^ 0x0100, 0x3DFE, 0x3DFF] ++ (List.range 16).map (fun i => BitVec.ofNat 16 (0x3E01 + i)) ++
  ((List.range 16).map fun i => [BitVec.ofNat 16 (0x0300 + i), BitVec.ofNat 16 (0x0310 + i)]).flatten

def regs0 : Regs := ⟨0, 0xFF, 0, 0, 0, 0⟩

/-- `trap M PATH T KIND BASE CODE | a=v ... => KIND regs cycles | T trace   or   W watch values` -/
def handleTrap (line : String) : String :=
  let (req, res) := splitOnce line "=>"
  let (hd, memS) := splitOnce req "|"
  let (gres, gobs) := splitOnce res "|"
  match words hd with
  | [_, m, path, ts, ks, base, codeS] =>
    let parsed : Option (CpuModel × Addr × Nat × List Nat × List (Addr × Byte)) := do
      let model ← if m == "0" then some CpuModel.m6502 else if m == "1" then some CpuModel.m65C02 else none
      let t ← parseAddr ts
      let k ← ks.toNat?
      let code ← unhex codeS
      let mem ← (words memS).mapM fun w => match w.splitOn "=" with
        | [a, v] => do some (← parseAddr a, ← parseByte v)
        | _ => none
      some (model, t, k, code, mem)
    match parsed with
    | none => "bad"
    | some (model, t, k, code, mem) =>
      let mem0 := loadCode mem.reverse 0x0800 code
      let sb0 : SBus := { mem := mem0, trace := #[], budget := 200000 }
      let handler : Option (Script SBus) := if path == "N" then none else some (scriptOf k t)
      let bus := trapBus sbus t handler
      let (stop, mach) := Impl.runExt (Generated.opTable model) Generated.driverConsts model bus 60000 0x0800 true
        { regs := regs0, cycles := 0, mem := { inner := sb0, log := [] } }
      let kind := if kindOf stop == "halt" then "halt" else "error"
      let obsOf (sb : SBus) : String :=
        if base == "sparse" then "T " ++ showTrace sb.trace
        else "W " ++ " ".intercalate ((watchList t).map fun a => hexB (sb.get a))
      let mine := s!"{kind} {showRegs mach.regs} {mach.cycles}"
      let gr := " ".intercalate (words gres)
      let go_obs := " ".intercalate (words gobs)
      let storesOf (t : Array Event) := t.toList.filter (·.write)
      let goEvents : List Event := if base == "sparse" then ((words gobs).drop 1).filterMap parseEvent else []
      let storesDiffer := base == "sparse" && goEvents.filter (·.write) != storesOf mach.mem.inner.trace
      let diffs : List String :=
        (if gr != mine then [s!"result:model={mine.replace " " "_"}"] else []) ++
        (if storesDiffer then ["stores"] else []) ++
        -- only the loads differ: not this property's business (loads are never intercepted), kept for C03
        (if base == "sparse" && !storesDiffer && go_obs != obsOf mach.mem.inner then ["loads"] else []) ++
        (if base != "sparse" && go_obs != obsOf mach.mem.inner then ["memory"] else [])
      -- the specification-level oracle: scripts that leave the registers alone (kinds 0, 3, no script)
      let specKinds := path == "N" || k == 0 || k == 3 || k > 6
      let viol : List String :=
        if !specKinds then
          (let ds := diffs.filter (· != "loads")
           if ds.isEmpty then [] else ["C10:trap:" ++ ",".intercalate (ds.map fun d => (d.splitOn ":").head!)])
        else
          match specRunB bus model 60000 { regs0 with pc := 0x0800 } { inner := sb0, log := [] } 0 with
          | none => []
          | some (r', b', cyc) =>
            let stores (t : Array Event) := t.toList.filter (·.write)
            let goStores : List Event :=
              if base == "sparse" then ((words gobs).drop 1).filterMap parseEvent |>.filter (·.write) else []
            (if gr != s!"halt {showRegs r'} {cyc}" then ["C10:spec:result"] else []) ++
            (if base == "sparse" && goStores != stores b'.inner.trace then ["C10:spec:stores"] else []) ++
            (if base != "sparse" && go_obs != "W " ++ " ".intercalate ((watchList t).map fun a => hexB (b'.inner.get a)) then ["C10:spec:memory"] else [])
      let sfx := s!"@t={ts}:kind={ks}:path={path}:model={m}"
      let d := if diffs.isEmpty then "agree" else "DIFF " ++ ",".intercalate diffs
      let v := if viol.isEmpty then "specok" else "VIOL " ++ ",".intercalate (viol.map (· ++ sfx))
      let calls := mach.mem.log.length
      s!"{d} | {v} | trap.{path}.k{ks}.{if calls == 0 then "nocall" else if calls == 1 then "one" else "many"}"
  | _ => "bad"

def parsePortCfg (s : String) : Option (List (Nat × Port)) :=
  (s.splitOn ",").mapM fun e => match e.splitOn "=" with
    | [o, spec] => do
      let off ← parseHex o
      let p ← parsePort spec.toList
      some (off, p)
    | _ => none

/-- `port IOMASK off=spec,... CODE => KIND regs cycles | stdout hex` -/
def handlePort (line : String) : String :=
  let (req, res) := splitOnce line "=>"
  let (gres, gout) := splitOnce res "|"
  match (words req).take 4 with
  | [_, ios, cfgS, codeS] =>
    let parsed : Option (Byte × List (Nat × Port) × List Nat) := do
      some (← parseByte ios, ← parsePortCfg cfgS, ← unhex codeS)
    match parsed with
    | none => "bad"
    | some (io, cfg, code) =>
      let ports : Nat → Option Port := fun o => (cfg.find? (·.1 == o)).map (·.2)
      let sb0 : SBus := { mem := loadCode [] 0x0800 code, trace := #[], budget := 200000 }
      let bus := portBus sbus io ports
      let (stop, mach) := Impl.runExt (Generated.opTable .m65C02) Generated.driverConsts .m65C02 bus 20000 0x0800 true
        { regs := regs0, cycles := 0, mem := { inner := sb0, count := fun _ => 0, out := [] } }
      let kind := if kindOf stop == "halt" then "halt" else "error"
      let mine := s!"{kind} {showRegs mach.regs} {mach.cycles}"
      let outHex (l : List Nat) := if l.isEmpty then "-" else String.join (l.map (toHex 2))
      let gr := " ".intercalate (words gres)
      let diffs : List String :=
        (if gr != mine then [s!"result:model={mine.replace " " "_"}"] else []) ++
        (if gout.trim != outHex mach.mem.out then [s!"stdout:model={outHex mach.mem.out}"] else [])
      -- specification: the data-sheet CPU on the port layer
      let viol : List String :=
        match specRunB bus .m65C02 20000 { regs0 with pc := 0x0800 } { inner := sb0, count := fun _ => 0, out := [] } 0 with
        | none => []
        | some (r', b', cyc) =>
          (if gr != s!"halt {showRegs r'} {cyc}" then ["C10:port:result"] else []) ++
          (if gout.trim != outHex b'.out then ["C10:port:stdout"] else [])
      let sfx := s!"@io={ios}:{cfgS}"
      let d := if diffs.isEmpty then "agree" else "DIFF " ++ ",".intercalate diffs
      let v := if viol.isEmpty then "specok" else "VIOL " ++ ",".intercalate (viol.map (· ++ sfx))
      s!"{d} | {v} | port.{cfg.length}.{if mach.mem.out.isEmpty then "silent" else "out"}"
  | _ => "bad"

end Driver
