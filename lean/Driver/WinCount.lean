import Driver.Cpu
import Driver.Mem
/-  `wincount` verb: property C03 on the banked machines, with bank switching.
    `crash` verb: property C11 on the real machines (host survival; judged stops of programs the specification can run). -/
namespace Driver
open Verif Verif.Impl Verif.Spec Verif.Facts

/-- `wincount SPEC MODEL CODE => halt|error | S<statistics image>`: the specification's own run of the program (on flat
    memory: the program is straight-line and every stored value is an immediate, so its ACCESSES do not depend on what
    it loads) gives the sequence of fetches, reads and writes; each is resolved through the documented map with the
    banking registers as the program's own stores left them at that moment, and counted on the physical byte reached.
    The result is compared with the machine's statistics of every physical byte after the run. -/
def handleWinCount (line : String) : String :=
  match line.splitOn " => " with
  | [req, res] =>
    match words req, res.splitOn " | " with
    | [_, spec, m, codeS], gres :: rest =>
      let parsed : Option (CpuModel × List Nat × MemKind) := do
        let model ← if m == "0" then some CpuModel.m6502 else if m == "1" then some CpuModel.m65C02 else none
        some (model, ← unhex codeS, ← docMachine spec)
      match parsed with
      | none => "bad"
      | some (model, code, k) =>
        let mem0 : List (Addr × Byte) := code.zipIdx.map fun (b, i) => (BitVec.ofNat 16 (0x0400 + i), BitVec.ofNat 8 b)
        let bus0 : SBus := { mem := mem0.reverse, trace := #[], budget := 100000 }
        match specRun model 2000 ⟨0x0400, 0xFF, 0, 0, 0, 0⟩ bus0 0 with
        | none => "agree | specok | wincount.unspecified"
        | some (_, b, _) =>
          -- the machine before the run: the program placed by stores at $0400, statistics cleared
          let s0 : MemState := code.zipIdx.foldl (fun (st : MemState) (bi : Nat × Nat) =>
            match docMap k (fun c => (st.data c).toNat) (0x0400 + bi.2) with
            | some c => { st with data := upd st.data c (BitVec.ofNat 8 bi.1) }
            | none => st) (initState k)
          let s0 : MemState := { s0 with stat := fun _ => 0 }
          let (sf, touched, ok) := b.trace.toList.foldl (fun (acc : MemState × List Cell × Bool) e =>
            let (st, tc, ok) := acc
            match docMap k (fun c => (st.data c).toNat) e.addr.toNat with
            | none => (st, tc, false)
            | some c =>
              let st := { st with stat := upd st.stat c (st.stat c + 1) }
              (if e.write then { st with data := upd st.data c e.val } else st, c :: tc, ok)) (s0, [], true)
          if !ok then "agree | specok | wincount.unmapped" else
          let isF := match k with | .f256 _ => true | _ => false
          let ctlS := if isF then s!" c0:{sf.stat (.memCtrl, 0)} c1:{sf.stat (.ioCtrl, 0)}" else ""
          let lutS : String :=
            if isF then String.join ((List.range 32).map fun i =>
              if sf.stat (.lut, i) == 0 then "" else s!" t{i}:{sf.stat (.lut, i)}") else ""
          let want := "S" ++ imageStr k touched (fun c => toString (sf.stat c)) (fun c => sf.stat c == 0) ctlS ++ lutS
          let got := (" | ".intercalate rest).trimAscii.toString
          let g := gres.trimAscii.toString
          if g == "hostcrash" then s!"agree | VIOL C11:hostcrash:wincount:{spec} | wincount"
          else if g == "halt" && " ".intercalate (words got) == " ".intercalate (words want) then "agree | specok | wincount"
          else
            let gl := words got
            let wl := words want
            let firstDiff := (gl.filter (fun t => !wl.contains t) ++ wl.filter (fun t => !gl.contains t)).head?.getD "?"
            s!"DIFF trace:machine-counts | VIOL C03:machine-counts-banked:{spec}:model={m}:{g}:first={firstDiff} | wincount"
    | _, _ => "bad"
  | _ => "bad"

/-- the documented machine as a bus: every access is resolved by the specification's map (`docMap`) under the banking
    state of that moment; an address the map does not resolve is a memory fault -/
structure DocMach where
  k : MemKind
  st : MemState
  budget : Nat
  /-- number of stores made so far (loads do not change the documented machine) -/
  stores : Nat := 0

def docBus : Bus DocMach where
  load s a :=
    if s.budget = 0 then (.error .budget, s) else
    match docMap s.k (fun c => (s.st.data c).toNat) a.toNat with
    | none => (.error .mem, s)
    | some c => (.ok (s.st.data c), { s with budget := s.budget - 1 })
  store s a v r :=
    if s.budget = 0 then (.error .budget, s) else
    match docMap s.k (fun c => (s.st.data c).toNat) a.toNat with
    | none => (.error .mem, s)
    | some c => (.ok r, { s with st := { s.st with data := upd s.st.data c v }, budget := s.budget - 1, stores := s.stores + 1 })

/-- the specification's own run of a program on the documented machine, up to the instruction that stops it:
    `halt` (BRK; registers after it), `illegal` (undecodable opcode; registers and memory BEFORE it, PC at the opcode),
    `fault` (an access the map does not resolve), `open` (the data sheets leave the instruction's outcome open, e.g.
    invalid BCD), `loop` (the run has come back to a state it was in before — same registers, no store in between, and
    loads do not change the documented machine — so it never stops) or `budget`.  Also returns the union of the P bits
    the specification left unconstrained on the way.
    Loop detection (Brent): `ck` is the state (registers, number of stores) at the last checkpoint, `n` the number of
    instructions executed, `nx` the instruction count at which the checkpoint is renewed (doubling). -/
def specRunStopL (model : CpuModel) : Nat → Regs → DocMach → Byte → (Regs × Nat) → Nat → Nat → String × Regs × DocMach × Byte
  | 0, r, m, pm, _, _, _ => ("budget", r, m, pm)
  | fuel + 1, r, m, pm, ck, n, nx =>
    match (Spec.step model r).run docBus r m with
    | (.ok (some (out, r')), m') =>
      if out.halt then ("halt", r', m', pm)
      else if r' == ck.1 && m'.stores == ck.2 then ("loop", r', m', pm ||| out.pmask)
      else
        let (ck, nx) := if n + 1 == nx then ((r', m'.stores), 2 * nx) else (ck, nx)
        specRunStopL model fuel r' m' (pm ||| out.pmask) ck (n + 1) nx
    | (.ok none, m') => ("open", r, m', pm)
    | (.error (.illegal _ _), _) => ("illegal", r, m, pm)
    | (.error .mem, m') => ("fault", r, m', pm)
    | (.error .budget, m') => ("budget", r, m', pm)
    | (.error _, m') => ("open", r, m', pm)

def specRunStop (model : CpuModel) (fuel : Nat) (r : Regs) (m : DocMach) (pm : Byte) : String × Regs × DocMach × Byte :=
  specRunStopL model fuel r m pm (r, m.stores) 0 1

/-- CPU view of the documented machine without side effects (`!!` = fault), as the harness prints a final memory byte -/
def docPeek (m : DocMach) (a : Nat) : String :=
  match docMap m.k (fun c => (m.st.data c).toNat) (a % 65536) with
  | some c => hexB (m.st.data c)
  | none => "!!"

/-- a judged stop: `crash SPEC (spec|lar)-CPU:ADDR CODE => kind@pc:sp:a:x:y:p:prev:mem`.  The program (placed by stores
    through the CPU view at ADDR, by the harness or by the loader) is run by the specification on the documented machine.
    Property C11: a run that stops halts at a BRK or returns an error; an unimplemented opcode ends the run with an
    error, registers and memory as before it, PC pointing at it (however often the address was executed before and
    whatever was mapped there then); a memory fault ends it with an error. -/
def judgeStop (spec mode cpu : String) (org : Nat) (code : List Nat) (r : String) : String :=
  let (kindG, stateG) := splitOnce r "@"
  let cls := s!"crash.{mode}.{kindG}"
  if kindG == "died" || kindG == "hostcrash" then s!"agree | VIOL C11:hostcrash:{kindG}:{spec}:{mode}-{cpu} | {cls}" else
  if kindG == "running" then s!"agree | VIOL C11:stop:kind=running:{mode}-{cpu}:{spec} | {cls}" else
  if kindG != "halt" && kindG != "error" && kindG != "watchdog" then "bad" else
  let parsed : Option (CpuModel × MemKind) := do
    let model ← if cpu == "6502" then some CpuModel.m6502 else if cpu == "65C02" then some CpuModel.m65C02 else none
    some (model, ← docMachine spec)
  match parsed, stateG.splitOn ":" with
  | some (model, k), [pc, sp, a, x, y, p, prev, memG] =>
    match parseRegs [pc, sp, a, x, y, p] with
    | none => "bad"
    | some rg =>
      -- the machine before the run: the program placed by stores through the CPU view
      let s0 : MemState := code.zipIdx.foldl (fun (st : MemState) (bi : Nat × Nat) =>
        match docMap k (fun c => (st.data c).toNat) ((org + bi.2) % 65536) with
        | some c => { st with data := upd st.data c (BitVec.ofNat 8 bi.1) }
        | none => st) (initState k)
      let (kindS, rs, ms, pm) := specRunStop model 400 ⟨BitVec.ofNat 16 org, 0xFF, 0, 0, 0, 0⟩ ⟨k, s0, 4000, 0⟩ 0
      let memS := String.join ((List.range code.length).map fun i => docPeek ms (org + i)) ++
        String.join ([0x1FC, 0x1FD, 0x1FE, 0x1FF].map (docPeek ms))
      let sfx := s!":{mode}-{cpu}:{spec}"
      -- halting means: at a BRK (the byte in front of the final PC in the machine's own final memory)
      let vBrk := if kindG == "halt" && prev != "00" then [s!"C11:stop:halt-not-at-brk{sfx}"] else []
      let v : List String :=
        if kindS == "illegal" then
          (if kindG != "error" then [s!"C11:stop:kind={kindG}:want=error-at-unimplemented-opcode{sfx}"] else []) ++
          ((regsDiff pm rg rs).map fun d => s!"C11:stop:regs-at-unimplemented-opcode:{(d.splitOn ":").headD ""}{sfx}") ++
          (if memG != memS then [s!"C11:stop:memory-at-unimplemented-opcode{sfx}"] else [])
        else if kindS == "fault" then
          (if kindG != "error" then [s!"C11:stop:kind={kindG}:want=error-at-memory-fault{sfx}"] else [])
        else if kindS == "halt" then
          -- a program the data sheets run to its BRK: an error instead is an instruction that did not do what it
          -- should (C01), not a matter of C11.  A halt somewhere else than at the BRK the specification's run stops at:
          -- at a BRK all the same (the run went another way, C01) or not at a BRK (C11, `vBrk` below).
          (if kindG != "halt" then [s!"C01:stop:kind={kindG}:want=halt{sfx}"]
           else if rg.pc != rs.pc && prev == "00" then [s!"C01:stop:halt-at-another-brk:PC{sfx}"] else [])
        else if kindS == "loop" then
          -- the specification's run never reaches a BRK (and nothing else that stops it): the machine has to run until
          -- the harness's watchdog ends the run; a halt is a run that stopped without error and not at a BRK — wherever
          -- the program counter was left and whatever byte happens to precede it
          (if kindG == "halt" then [s!"C11:stop:kind=halt:want=runs-on:endless-loop-without-brk{sfx}"]
           else if kindG != "watchdog" then [s!"C01:stop:kind={kindG}:want=runs-on{sfx}"] else [])
        else []
      -- a run the watchdog ended although the specification's run stops by itself
      let v := v ++ (if kindG == "watchdog" && (kindS == "halt" || kindS == "illegal" || kindS == "fault") && v.isEmpty
                     then [s!"C01:stop:kind=watchdog:want={kindS}{sfx}"] else [])
      let v := v ++ (if v.isEmpty then vBrk else [])
      if v.isEmpty then s!"agree | specok | {cls}.{kindS}" else s!"agree | VIOL {",".intercalate v} | {cls}.{kindS}"
  | _, _ => "bad"

/-- `crash SPEC MODEL CODE => halt|error|running|hostcrash|died`: a generated program on a real memory model, run in a
    child process of the harness; the simulated program may halt, end with an error or keep running — the host
    process must survive.  Mode words `spec-<cpu>:<addr>` / `lar-<cpu>:<addr>` are judged stops (`judgeStop`). -/
def handleCrash (line : String) : String :=
  match line.splitOn " => " with
  | [req, res] =>
    match words req with
    | [_, spec, model, code] =>
      let r := res.trimAscii.toString
      let judged : Option (String × String × Nat) :=
        match model.splitOn ":" with
        | [mc, orgS] =>
          match mc.splitOn "-", parseAddr orgS with
          | [md, cpu], some a => if md == "spec" || md == "lar" then some (md, cpu, a.toNat) else none
          | _, _ => none
        | _ => none
      match judged with
      | some (md, cpu, org) =>
        match unhex code with
        | some bytes => judgeStop spec md cpu org bytes r
        | none => "bad"
      | none =>
        if r == "died" || r == "hostcrash" then s!"agree | VIOL C11:hostcrash:{r}:{spec}:{model}:{code} | crash.{r}"
        else if r == "halt" || r == "error" || r == "running" then s!"agree | specok | crash.{r}"
        else "bad"
    | _ => "bad"
  | _ => "bad"

end Driver
