import Driver.Cpu
import Driver.Mem
/-  `wincount` verb: property C03 on the banked machines, with bank switching. -/
namespace Driver
open Verif Verif.Impl Verif.Spec Verif.Facts

/-- `wincount SPEC MODEL CODE => halt|error | S<statistics image>`: the specification's own run of the program (on flat
    memory: the program is straight-line and every stored value is an immediate, so its ACCESSES do not depend on what
    it loads) gives the sequence of fetches, reads and writes; each is resolved through the documented map with the
    banking registers as the program's own stores left them at that moment, and counted on the physical byte reached.
    The result is compared with the machine's statistics of every physical byte after the run. -/
def handleWinCount (line : String) : String :=
  match line.splitOn " => " with
  | [req, res] =>
    match words req, res.splitOn " | " with
    | [_, spec, m, codeS], gres :: rest =>
      let parsed : Option (CpuModel × List Nat × MemKind) := do
        let model ← if m == "0" then some CpuModel.m6502 else if m == "1" then some CpuModel.m65C02 else none
        some (model, ← unhex codeS, ← docMachine spec)
      match parsed with
      | none => "bad"
      | some (model, code, k) =>
        let mem0 : List (Addr × Byte) := code.zipIdx.map fun (b, i) => (BitVec.ofNat 16 (0x0400 + i), BitVec.ofNat 8 b)
        let bus0 : SBus := { mem := mem0.reverse, trace := #[], budget := 100000 }
        match specRun model 2000 ⟨0x0400, 0xFF, 0, 0, 0, 0⟩ bus0 0 with
        | none => "agree | specok | wincount.unspecified"
        | some (_, b, _) =>
          -- the machine before the run: the program placed by stores at $0400, statistics cleared
          let s0 : MemState := code.zipIdx.foldl (fun (st : MemState) (bi : Nat × Nat) =>
            match docMap k (fun c => (st.data c).toNat) (0x0400 + bi.2) with
            | some c => { st with data := upd st.data c (BitVec.ofNat 8 bi.1) }
            | none => st) (initState k)
          let s0 : MemState := { s0 with stat := fun _ => 0 }
          let (sf, touched, ok) := b.trace.toList.foldl (fun (acc : MemState × List Cell × Bool) e =>
            let (st, tc, ok) := acc
            match docMap k (fun c => (st.data c).toNat) e.addr.toNat with
            | none => (st, tc, false)
            | some c =>
              let st := { st with stat := upd st.stat c (st.stat c + 1) }
              (if e.write then { st with data := upd st.data c e.val } else st, c :: tc, ok)) (s0, [], true)
          if !ok then "agree | specok | wincount.unmapped" else
          let isF := match k with | .f256 _ => true | _ => false
          let ctlS := if isF then s!" c0:{sf.stat (.memCtrl, 0)} c1:{sf.stat (.ioCtrl, 0)}" else ""
          let lutS : String :=
            if isF then String.join ((List.range 32).map fun i =>
              if sf.stat (.lut, i) == 0 then "" else s!" t{i}:{sf.stat (.lut, i)}") else ""
          let want := "S" ++ imageStr k touched (fun c => toString (sf.stat c)) (fun c => sf.stat c == 0) ctlS ++ lutS
          let got := (" | ".intercalate rest).trimAscii.toString
          let g := gres.trimAscii.toString
          if g == "hostcrash" then s!"agree | VIOL C11:hostcrash:wincount:{spec} | wincount"
          else if g == "halt" && " ".intercalate (words got) == " ".intercalate (words want) then "agree | specok | wincount"
          else
            let gl := words got
            let wl := words want
            let firstDiff := (gl.filter (fun t => !wl.contains t) ++ wl.filter (fun t => !gl.contains t)).head?.getD "?"
            s!"DIFF trace:machine-counts | VIOL C03:machine-counts-banked:{spec}:model={m}:{g}:first={firstDiff} | wincount"
    | _, _ => "bad"
  | _ => "bad"

end Driver
