import Verif.Facts.MemNow
import Driver.Util
/-
  `mem` verb: one history of memory operations.  The Impl model (`applyOp (cfgNow kind)`) is run on
  the operations and compared with what the Go memory object answered; a second interpreter that
  resolves addresses with the specification's `docMap` / `linDoc` checks the Go answers against the
  documented behaviour.
-/
namespace Driver
open Verif Verif.Impl Verif.Spec Verif.Facts

inductive POp where
  | op (o : MemOp)
  | bad

def parseB32 (s : String) : Option (BitVec 32) := (parseHex s).bind fun n => if n < 2 ^ 32 then some (BitVec.ofNat 32 n) else none

def parseMemOp (t : String) : Option MemOp :=
  let body := (t.drop 1).toString
  match t.front with
  | 'l' => (parseAddr body).map .load
  | 's' => match body.splitOn "=" with
    | [a, v] => do some (.store (← parseAddr a) (← parseByte v))
    | _ => none
  | 'L' => (parseB32 body).map .loadL
  | 'S' => match body.splitOn "=" with
    | [a, v] => do some (.storeL (← parseB32 a) (← parseByte v))
    | _ => none
  | 'g' => (parseAddr body).map .stat
  | 'G' => (parseB32 body).map .statL
  | 'c' => if body.isEmpty then some .clear else none
  | 't' => if body.isEmpty then some .snap else none
  -- `u`: the snapshot is taken on the memory directly below the trap placeholder layer (as caseexec's snapshot provider
  -- does) instead of through the top of the wrapper stack: by the property text it is the same snapshot
  | 'u' => if body.isEmpty then some .snap else none
  | 'r' => if body.isEmpty then some .restore else none
  | _ => none

/-- answer of the model to one operation, in the harness' notation -/
def answer (cfg : MemCfg) (s : MemState) : MemOp → String
  | .load a => match (load cfg.kind s a).1 with | some v => hexB v | none => "!"
  | .loadL l => match (loadLarge cfg.kind s l).1 with | some v => hexB v | none => "!"
  | .store a v => if (store cfg.kind s a v).1 then "ok" else "!"
  | .storeL l v => if (storeLarge cfg.kind s l v).1 then "ok" else "!"
  | .stat a => match getStatistics cfg.kind s a with | some n => toString n | none => "!"
  | .statL l => match getStatisticsLarge cfg.kind s l with | some n => toString n | none => "!"
  | _ => "-"

/-- the same operations with addresses resolved by the SPECIFICATION (`docMap` / `linDoc`) -/
def specCell (k : MemKind) (s : MemState) : MemOp → Option Cell
  | .load a | .store a _ | .stat a => docMap k (fun c => (s.data c).toNat) a.toNat
  | .loadL l | .storeL l _ | .statL l => linDoc k (fun c => (s.data c).toNat) l.toNat
  | _ => none

def specApply (cfg : MemCfg) (s : MemState) (op : MemOp) : MemState × String :=
  let c := specCell cfg.kind s op
  match op with
  | .load _ | .loadL _ => let (v, s') := loadCell s c; (s', match v with | some v => hexB v | none => "!")
  | .store _ v | .storeL _ v => let (ok, s') := storeCell s c v; (s', if ok then "ok" else "!")
  | .stat _ | .statL _ => (s, match statCell s c with | some n => toString n | none => "!")
  | .clear => (clearStatistics (regionsOf cfg.kind) s, "-")
  | .snap => (takeSnapshot (regionsOf cfg.kind) s, "-")
  | .restore => (restoreSnapshot (regionsOf cfg.kind) s, "-")

def linOf (k : MemKind) (c : Cell) : Option Nat :=
  match toLin k c with
  | some l => (match k with | .f256 _ => if l < 16 then none else some l | _ => some l)
  | none => none

def insertSorted (x : Nat × String) : List (Nat × String) → List (Nat × String)
  | [] => [x]
  | y :: ys => if x.1 < y.1 then x :: y :: ys else if x.1 == y.1 then x :: ys else y :: insertSorted x ys

/-- expected non-zero image over the touched cells, as the harness prints it -/
def imageStr (k : MemKind) (touched : List Cell) (val : Cell → String) (isZero : Cell → Bool) (ctl : String) : String :=
  -- collect, sort by linear address, drop repeated addresses (a cell touched twice has one value)
  let arr : Array (Nat × String) := touched.foldl (fun acc c =>
    if isZero c then acc else match linOf k c with
      | some l => acc.push (l, val c)
      | none => acc) #[]
  let sorted := arr.qsort (fun a b => a.1 < b.1)
  let (entries, _) := sorted.foldl (fun (acc : Array (Nat × String) × Option Nat) e =>
    if acc.2 == some e.1 then acc else (acc.1.push e, some e.1)) (#[], none)
  ctl ++ String.join (entries.toList.map fun (l, v) => " " ++ (toHex 1 0).drop 1 ++ (Nat.toDigits 16 l).asString ++ ":" ++ v)

def handleMem (line : String) : String :=
  let secs := (line.splitOn " | ").map String.trim
  match secs with
  | [hd, mid, sS, sD, sI] =>
    -- optional fourth word `w<k>`: the wrapper stack the machine is built with (trap / port / coprocessor layers; the harness
    -- keeps the stores off the layers' I/O addresses).  Both properties hold "when the memory is wrapped": the expected
    -- behaviour is the one of the bare machine, whatever the stack.
    let hdw := words hd
    let wrapOk := match hdw with
      | [_, _, _] => true
      | [_, _, _, w] => ["w0", "w1", "w2", "w3", "w4", "w5"].contains w
      | _ => false
    match hdw.take 3, mid.splitOn " => " with
    | [_, spec, flavour], [opsS, resS] =>
      match (if wrapOk then docMachine spec else none) with
      | none => "bad"
      | some k =>
        let cfg := cfgNow k
        let ops := (words opsS).map parseMemOp
        let res := words resS
        if ops.any Option.isNone || ops.length != res.length then "bad"
        else
          let ops := ops.filterMap id
          -- run both interpreters
          let isStatOp (op : MemOp) : Bool := match op with | .stat _ | .statL _ => true | _ => false
          -- which answers belong to the property of this stream: statistics only for C06, none for C07
          let relevant (op : MemOp) : Bool :=
            if flavour == "6" then isStatOp op else if flavour == "7" then false else true
          let add (l : List Cell) (c : Option Cell) : List Cell :=
            match c with | some c => if l.contains c then l else c :: l | none => l
          let step (st : MemState × MemState × List Cell × List Cell × List Cell × List Cell × List String × List String × Nat)
              (x : MemOp × String) :=
            let (si, ss, touchedW, touchedA, stW, stA, diffs, viols, i) := st
            let (op, goAns) := x
            let ai := answer cfg si op
            let ci := op.cell cfg si
            let cs := specCell cfg.kind ss op
            let si' := applyOp cfg si op
            let (ss', as) := specApply cfg ss op
            let diffs := if ai != goAns && relevant op && diffs.length < 3 then diffs ++ [s!"op{i}:go={goAns}:model={ai}"] else diffs
            let viols := if as != goAns && relevant op && viols.length < 3 then viols ++ [s!"op{i}:go={goAns}:spec={as}"] else viols
            -- C07 stream: the machine must also BEHAVE as restored: once a restore has happened, an answer that contradicts
            -- the documented behaviour is a restore that did not bring the banking state back — unless answers were already
            -- wrong before the first restore (then it is the decoder's business, not the snapshot's)
            let isRestore := match op with | .restore => true | _ => false
            let restored := viols.contains "@restored"
            let preBad := viols.contains "@prebad"
            let mism := as != goAns && !isStatOp op
            let viols := if flavour == "7" && mism && !restored && !preBad then viols ++ ["@prebad"] else viols
            let viols := if flavour == "7" && mism && restored && !preBad &&
                (viols.filter (·.startsWith "after-restore")).length < 2
              then viols ++ [s!"after-restore:op{i}:go={goAns}:spec={as}"] else viols
            let viols := if flavour == "7" && isRestore && !restored then viols ++ ["@restored"] else viols
            -- C06 stream: an answer to a load that contradicts the documented decoder is the decoder's business
            let viols := if flavour == "6" && as != goAns && !isStatOp op && !viols.contains "DECODER" then viols ++ ["DECODER"] else viols
            let touchedW := if op.written.isSome then add touchedW ci else touchedW
            let stW := if op.written.isSome then add stW cs else stW
            let isAccess := match op with | .stat _ | .statL _ => false | _ => true
            let touchedA := if isAccess then add touchedA ci else touchedA
            let stA := if isAccess then add stA cs else stA
            (si', ss', touchedW, touchedA, stW, stA, diffs, viols, i + 1)
          let initTouched : List Cell := match k with | .x16 _ => [(.main, 0)] | _ => []
          let (si, ss, tw, ta, stw, sta, diffs, viols, _) :=
            (ops.zip res).foldl step (initState k, initState k, initTouched, [], initTouched, [], [], [], 0)
          let isF := match k with | .f256 _ => true | _ => false
          -- final images
          let ctlD := if isF then s!" c0:{hexB (si.data (.memCtrl, 0))} c1:{hexB (si.data (.ioCtrl, 0))}" else ""
          let ctlS := if isF then s!" c0:{si.stat (.memCtrl, 0)} c1:{si.stat (.ioCtrl, 0)}" else ""
          let expD := "D" ++ imageStr k tw (fun c => hexB (si.data c)) (fun c => si.data c == 0) ctlD
          let lutS (st : MemState) : String :=
            if isF then String.join ((List.range 32).map fun i =>
              if st.stat (.lut, i) == 0 then "" else s!" t{i}:{st.stat (.lut, i)}") else ""
          let expS := "S" ++ imageStr k ta (fun c => toString (si.stat c)) (fun c => si.stat c == 0) ctlS ++ lutS si
          let diffs := if flavour != "6" && flavour != "7" && sD != expD then diffs ++ ["image"] else diffs
          let diffs := if flavour == "6" && sS != expS then diffs ++ ["stats"] else diffs
          -- the same images from the specification interpreter
          let sctlD := if isF then s!" c0:{hexB (ss.data (.memCtrl, 0))} c1:{hexB (ss.data (.ioCtrl, 0))}" else ""
          let sctlS := if isF then s!" c0:{ss.stat (.memCtrl, 0)} c1:{ss.stat (.ioCtrl, 0)}" else ""
          let sexpD := "D" ++ imageStr k stw (fun c => hexB (ss.data c)) (fun c => ss.data c == 0) sctlD
          let sexpS := "S" ++ imageStr k sta (fun c => toString (ss.stat c)) (fun c => ss.stat c == 0) sctlS ++ lutS ss
          let viols := if flavour != "6" && flavour != "7" && sD != sexpD then viols ++ ["image"] else viols
          let viols := if flavour == "6" && sS != sexpS then viols ++ ["stats"] else viols
          -- C06 stream: the data image contradicts the documented decoder: the counts cannot be judged against it
          let viols := if flavour == "6" && sD != sexpD && !viols.contains "DECODER" then viols ++ ["DECODER"] else viols
          -- C07 self-consistency: every image after a restore equals the image at the latest snapshot
          let imgs := ((sI.drop 1).toString.splitOn " ; ").map String.trim
          let (_, badRestore) := imgs.foldl (fun (acc : String × Bool) (im : String) =>
            if im.startsWith "T:" then ((im.drop 2).toString, acc.2)
            else if im.startsWith "R:" then (acc.1, acc.2 || (im.drop 2).toString != acc.1)
            else acc) ("", false)
          -- a history of another stream that uses snapshots (C05: views coherent after a restore): a restore that does not
          -- bring the image back is the snapshot property's business, and nothing after it can be judged for the linear view
          let viols := if badRestore then (if flavour == "7" then viols ++ ["restore-image"] else ["RESTORE"]) else viols
          let viols := viols.filter (fun t => !t.startsWith "@")
          let d := if diffs.isEmpty then "agree" else "DIFF " ++ ",".intercalate diffs
          let v := if viols.isEmpty then "specok" else "VIOL " ++ ",".intercalate (viols.map fun t => if t == "DECODER" then s!"C04:decoder@{spec}"
            else if t == "RESTORE" then s!"C07:restore-image@{spec}" else s!"C0{flavour}:{t}@{spec}")
          s!"{d} | {v} | mem{flavour}"
    | _, _ => "bad"
  | _ => "bad"

end Driver
