import Lean
/-
  `#audit Ns` prints one line per theorem whose name starts with `Ns`:
      AUDIT <theorem name> | <axioms it depends on, space separated>
  The orchestrator counts obligations / discharged from this output.
-/
open Lean Elab Command

elab "#audit " ns:ident : command => do
  let env ← getEnv
  let pre := ns.getId
  let mut names : Array Name := #[]
  for (n, ci) in env.constants.toList do
    -- property theorems are named C<nn>_...; auto-generated equation lemmas are skipped
    if pre.isPrefixOf n && !n.isInternal && (match n with | .str _ s => s.startsWith "C" && !s.startsWith "Cy" | _ => false) then
      match ci with
      | .thmInfo _ => names := names.push n
      | _ => pure ()
  let sorted := names.qsort (fun a b => a.toString < b.toString)
  for n in sorted do
    let axs ← liftCoreM (collectAxioms n)
    let axs := axs.qsort (fun a b => a.toString < b.toString)
    logInfo m!"AUDIT {n} | {" ".intercalate (axs.toList.map toString)}"
