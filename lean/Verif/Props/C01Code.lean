import Verif.Props.C01
import Verif.Props.C01Run
import Verif.Facts.CpuCodeStep
/-
  C01 for the code itself.  `Facts.codeStep` runs, below the opcode fetch, the Lean translation of the
  Go function registered for the opcode (Generated/CpuCode.lean, regenerated from /repo on every run).
  The statements are those of Props/C01.lean with `codeStep` in place of the hand-written model's step;
  they follow from `codeStep_eq_stepNow`, i.e. from the 212 per-function equalities
  "translated Go function = model's handler" (Facts/CpuCode*.lean) that are re-proved against the source
  on every run — for all register states and all bytes the bus may return, so a handler that differs
  from the model on ONE operand value breaks them.
-/
namespace Verif.Props.C01
open Verif Verif.Impl Verif.Spec Verif.Facts

/-- the translated code refines the data sheets below every documented opcode (N, V of 65C02 `BIT #imm` open) -/
theorem C01_code_step_partial (model : CpuModel) (r : Regs) (opc : Byte) (i : Instr)
    (hd : Spec.decode model opc = some i) :
    SProg.Rel RegsRel ((plainM (codeStep model) r).next opc) ((Spec.stepDev knownDev model r).next opc) := by
  rw [codeStep_eq_stepNow]; exact C01_step_partial model r opc i hd

/-- full strength below every implemented opcode other than the known deviation -/
theorem C01_code_step_except (model : CpuModel) (r : Regs) (opc : Byte) (i : Instr)
    (hd : Spec.decode model opc = some i) (h : knownDev model opc = 0) :
    SProg.Rel RegsRel ((plainM (codeStep model) r).next opc) ((Spec.step model r).next opc) := by
  rw [codeStep_eq_stepNow]; exact C01_step_except model r opc i hd h

/-- along every execution path the translated code makes exactly the specification's stores -/
theorem C01_code_path_stores (model : CpuModel) (r : Regs) (opc : Byte) (i : Instr)
    (hd : Spec.decode model opc = some i) (o : List Byte)
    (hdef : SProg.pathDefined o ((Spec.stepDev knownDev model r).next opc) = true) :
    SProg.storesMatch (SProg.pathStores o ((plainM (codeStep model) r).next opc))
      (SProg.pathStores o ((Spec.stepDev knownDev model r).next opc)) := by
  rw [codeStep_eq_stepNow]; exact C01_path_stores model r opc i hd o hdef

/-- BRK through the translated code: halt, no store, no register or flag touched -/
theorem C01_code_brk (model : CpuModel) (r : Regs) :
    (plainM (codeStep model) r).next 0x00 = .ret (⟨7, true⟩, { r with pc := r.pc + 1 }) := by
  rw [codeStep_eq_stepNow]; exact C01_brk model r

/-- every translated handler IS the model's handler (the tie itself, as a property theorem so that the
    audit lists its axioms) -/
theorem C01_code_is_model (model : CpuModel) (h : H) :
    CpuCode.evalS (Gen.handlerS model h) = Impl.handler Generated.consts model h :=
  CpuCode.code_handler model h

/-- runs: on every plain bus (every memory model), from every machine state, for every number of instructions, while the
    executed path is exactly specified, the run of the TRANSLATED code and the run of the specification's own
    fetch-decode-execute loop stop the same way with the same registers and the same memory -/
theorem C01_code_run {σ : Type} (model : CpuModel) (bus : Bus σ) (hb : Verif.PlainBus bus) (n : Nat) (m : Machine σ)
    (hx : Verif.Proofs.RunExact model bus n m.regs m.mem) :
    (codeRunLoop model bus n m).1 = (Verif.Proofs.specLoop model bus n m.regs m.mem).1 ∧
    (codeRunLoop model bus n m).2.regs = (Verif.Proofs.specLoop model bus n m.regs m.mem).2.1 ∧
    (codeRunLoop model bus n m).2.mem = (Verif.Proofs.specLoop model bus n m.regs m.mem).2.2 := by
  rw [codeRunLoop_eq]; exact C01_run model bus hb n m hx

-- non-vacuity: the translated ADC #imm is a program that loads the operand from PC (not a constant)
example : ∃ k, CpuCode.evalS (Gen.addImmediate .m6502) ⟨0x0800, 0xFF, 1, 0, 0, 0⟩ = Prog.load 0x0800 k :=
  ⟨_, by rw [CpuCode.addImmediate_code_RCA]; rfl⟩

end Verif.Props.C01
