import Verif.Props.C03
import Verif.Facts.CpuCodeStep
/-
  C03 for the code itself: the bus accesses of the Lean translation of the Go handlers are exactly the
  specification's logical accesses, in the same order at the same addresses.
-/
namespace Verif.Props.C03
open Verif Verif.Impl Verif.Spec Verif.Facts

theorem C03_code_step (model : CpuModel) (r : Regs) (opc : Byte) (i : Instr) (hd : Spec.decode model opc = some i) :
    SProg.Rel (fun _ _ => True) ((plainM (codeStep model) r).next opc) ((Spec.step model r).next opc) := by
  rw [codeStep_eq_stepNow]; exact C03_step model r opc i hd

theorem C03_code_fetch_once (model : CpuModel) (r : Regs) :
    ∃ k, plainM (codeStep model) r = .load r.pc k := by
  rw [codeStep_eq_stepNow]; exact (C03_fetch_once model r).1

end Verif.Props.C03
