import Verif.Props.C03
import Verif.Props.C03Spec
import Verif.Facts.CpuCodeStep
/-
  C03 for the code itself: the bus accesses of the Lean translation of the Go handlers are exactly the
  specification's logical accesses, in the same order at the same addresses.
-/
namespace Verif.Props.C03
open Verif Verif.Impl Verif.Spec Verif.Facts

theorem C03_code_step (model : CpuModel) (r : Regs) (opc : Byte) (i : Instr) (hd : Spec.decode model opc = some i) :
    SProg.Rel (fun _ _ => True) ((plainM (codeStep model) r).next opc) ((Spec.step model r).next opc) := by
  rw [codeStep_eq_stepNow]; exact C03_step model r opc i hd

theorem C03_code_fetch_once (model : CpuModel) (r : Regs) :
    ∃ k, plainM (codeStep model) r = .load r.pc k := by
  rw [codeStep_eq_stepNow]; exact (C03_fetch_once model r).1

/-- on the real machines: after a run of the TRANSLATED code on any of the memory models the access statistics of every
    physical byte of every bank (and all contents) are those after the specification's own run on that machine -/
theorem C03_code_run_machine (model : CpuModel) (k : MemKind) (n : Nat) (m : Machine MemState)
    (hx : Verif.Proofs.RunExact model (memBus k) n m.regs m.mem) :
    (codeRunLoop model (memBus k) n m).2.mem.stat = (Verif.Proofs.specLoop model (memBus k) n m.regs m.mem).2.2.stat ∧
    (codeRunLoop model (memBus k) n m).2.mem.data = (Verif.Proofs.specLoop model (memBus k) n m.regs m.mem).2.2.data := by
  rw [codeRunLoop_eq]; exact C03_run_machine model k n m hx

end Verif.Props.C03
