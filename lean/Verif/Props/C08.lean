import Verif.Props.C07
import Verif.Props.C06
import Verif.Generated.Flow
import Verif.Facts.MemClear
/-
  C08 — Each test case starts from the same machine.
  The statements of `snapshotCpuProvider.NewCpu`, `newSnapshotProvider` and `CPU6502.Reset` are regenerated
  from the source; their meaning is Impl/Provider.lean; the memory part rests on C07 (restore brings back
  every cell) and C06 (clear zeroes every counter).
-/
namespace Verif.Props.C08
open Verif Verif.Impl Verif.Spec Verif.Facts Verif.Generated

/-- `NewCpu` of the snapshot provider as the source has it now -/
def newCpuNow (k : MemKind) (trap : Bool) (m : CaseMachine) : CaseMachine :=
  runProv (cfgNow k) resetSteps trap snapshotNewCpuSteps m

/-- creation of the snapshot provider from the machine the setup program left behind -/
def providerNow (k : MemKind) (trap : Bool) (m : CaseMachine) : CaseMachine :=
  runProv (cfgNow k) resetSteps trap newSnapshotProviderSteps m

/-- What NewCpu does.  Stated as properties of the result, not as a closed form, so that the proof does not
    depend on the ORDER of the statements of NewCpu and Reset (restoring before or after resetting, the
    registers in any order): registers reset, cycle counter zero, handler cleared when a placeholder exists,
    every cell of every region holds the snapshot's byte and a zero counter, the snapshot itself untouched. -/
structure NewCpuOk (k : MemKind) (trap : Bool) (m s : CaseMachine) : Prop where
  regs : s.regs = resetRegs
  cycles : s.cycles = 0
  handler : s.handler = (m.handler && !trap)
  poisoned : s.poisoned = m.poisoned
  data : ∀ c : Cell, c.1 ∈ regionsOf k → s.mem.data c = m.mem.snap c
  stat : ∀ c : Cell, c.1 ∈ regionsOf k → s.mem.stat c = 0
  snap : s.mem.snap = m.mem.snap

theorem newCpu_ok (k : MemKind) (trap : Bool) (m : CaseMachine) : NewCpuOk k trap m (newCpuNow k trap m) := by
  have hsnap := fun (c : Cell) (hc : c.1 ∈ regionsOf k) => (snapshot_covers k c.1 hc).2
  have hclr := fun (c : Cell) (hc : c.1 ∈ regionsOf k) => clear_covers k c.1 hc
  constructor
  · cases trap <;>
      simp [newCpuNow, runProv, snapshotNewCpuSteps, resetSteps, provStep, runReset, resetStep, List.foldl, resetRegs]
  · cases trap <;>
      simp [newCpuNow, runProv, snapshotNewCpuSteps, resetSteps, provStep, runReset, resetStep, List.foldl]
  · cases trap <;>
      simp [newCpuNow, runProv, snapshotNewCpuSteps, resetSteps, provStep, runReset, resetStep, List.foldl]
  · cases trap <;>
      simp [newCpuNow, runProv, snapshotNewCpuSteps, resetSteps, provStep, runReset, resetStep, List.foldl]
  · intro c hc
    cases trap <;>
      simp [newCpuNow, runProv, snapshotNewCpuSteps, resetSteps, provStep, runReset, resetStep, List.foldl,
        applyOp, restoreSnapshot, clearStatistics, hsnap c hc]
  · intro c hc
    cases trap <;>
      simp [newCpuNow, runProv, snapshotNewCpuSteps, resetSteps, provStep, runReset, resetStep, List.foldl,
        applyOp, restoreSnapshot, clearStatistics, hclr c hc]
  · cases trap <;>
      simp [newCpuNow, runProv, snapshotNewCpuSteps, resetSteps, provStep, runReset, resetStep, List.foldl,
        applyOp, restoreSnapshot, clearStatistics]

/-- creation of the provider: the snapshot holds the image the setup left, in every region -/
structure ProviderOk (k : MemKind) (m s : CaseMachine) : Prop where
  handler : s.handler = m.handler
  poisoned : s.poisoned = m.poisoned
  snap : ∀ c : Cell, c.1 ∈ regionsOf k → s.mem.snap c = m.mem.data c

theorem provider_ok (k : MemKind) (trap : Bool) (m : CaseMachine) : ProviderOk k m (providerNow k trap m) := by
  have htake := fun (c : Cell) (hc : c.1 ∈ regionsOf k) => (snapshot_covers k c.1 hc).1
  constructor
  · cases trap <;>
      simp [providerNow, runProv, newSnapshotProviderSteps, resetSteps, provStep, runReset, resetStep, List.foldl]
  · cases trap <;>
      simp [providerNow, runProv, newSnapshotProviderSteps, resetSteps, provStep, runReset, resetStep, List.foldl]
  · intro c hc
    cases trap <;>
      simp [providerNow, runProv, newSnapshotProviderSteps, resetSteps, provStep, runReset, resetStep, List.foldl,
        applyOp, takeSnapshot, clearStatistics, htake c hc]

/-- the machine every case must be given: reset registers, zero cycles, no trap handler, the memory image
    (every cell of every region, banking registers and LUTs included) the setup left, all counters zero -/
def Pristine (k : MemKind) (setup : CaseMachine) (s : CaseMachine) : Prop :=
  s.regs = resetRegs ∧ s.cycles = 0 ∧ s.handler = false ∧ s.poisoned = false ∧
  ∀ c : Cell, c.1 ∈ regionsOf k → s.mem.data c = setup.mem.data c ∧ s.mem.stat c = 0

/-- what is preserved between cases -/
def Inv (k : MemKind) (trap : Bool) (setup : CaseMachine) (m : CaseMachine) : Prop :=
  m.poisoned = false ∧ (m.handler = true → trap = true) ∧
  ∀ c : Cell, c.1 ∈ regionsOf k → m.mem.snap c = setup.mem.data c

theorem newCpu_pristine (k : MemKind) (trap : Bool) (setup m : CaseMachine) (h : Inv k trap setup m) :
    Pristine k setup (newCpuNow k trap m) ∧ Inv k trap setup (newCpuNow k trap m) := by
  obtain ⟨hp, hh, hs⟩ := h
  have ok := newCpu_ok k trap m
  have hhandler : (newCpuNow k trap m).handler = false := by
    rw [ok.handler]
    cases ht : trap <;> cases hm : m.handler <;> simp_all
  refine ⟨⟨ok.regs, ok.cycles, hhandler, ok.poisoned.trans hp, ?_⟩, ok.poisoned.trans hp, ?_, ?_⟩
  · intro c hc
    exact ⟨(ok.data c hc).trans (hs c hc), ok.stat c hc⟩
  · intro h; rw [hhandler] at h; cases h
  · intro c hc
    rw [ok.snap]
    exact hs c hc

theorem body_inv (k : MemKind) (trap : Bool) (setup m : CaseMachine) (b : Body) (h : Inv k trap setup m) :
    Inv k trap setup (applyBody (cfgNow k) trap m b) := by
  obtain ⟨hp, _, hs⟩ := h
  refine ⟨hp, ?_, ?_⟩
  · intro hh
    simp only [applyBody, Bool.and_eq_true] at hh
    exact hh.1
  · intro c hc
    simp only [applyBody]
    rw [snap_kept (cfgNow k) b.ops m.mem b.noSnap]
    exact hs c hc

theorem starts_pristine (k : MemKind) (trap : Bool) (setup : CaseMachine) :
    ∀ (bodies : List Body) (m : CaseMachine), Inv k trap setup m →
      ∀ s ∈ starts (newCpuNow k trap) (cfgNow k) trap m bodies, Pristine k setup s := by
  intro bodies
  induction bodies with
  | nil => intro m _ s hs; simp [starts] at hs
  | cons b bs ih =>
    intro m hm s hs
    have h1 := newCpu_pristine k trap setup m hm
    simp only [starts, List.mem_cons] at hs
    rcases hs with hs | hs
    · subst hs; exact h1.1
    · exact ih _ (body_inv k trap setup _ b h1.2) s hs

/-- the provider created after the setup program establishes the invariant; `setup` is the machine the
    setup program left (no handler can be installed yet: no script has run) -/
theorem provider_inv (k : MemKind) (trap : Bool) (setup : CaseMachine)
    (h1 : setup.poisoned = false) (h2 : setup.handler = false) :
    Inv k trap setup (providerNow k trap setup) := by
  have ok := provider_ok k trap setup
  refine ⟨ok.poisoned.trans h1, ?_, ok.snap⟩
  intro h; rw [ok.handler, h2] at h; cases h

/-- C08 (with `-prexec`): whatever the setup program left behind, and whatever the cases of the suite do —
    any memory history through both views, bank switches, LUT edits, any register values, cycle counts,
    installed trap functions — every case of the suite, in every position, is handed a machine with reset
    registers, cycle count zero, no trap handler, zero access counters on every byte of every bank, and
    exactly the memory image (banking registers and LUTs included) the setup program produced. -/
theorem C08_start (k : MemKind) (trap : Bool) (setup : CaseMachine)
    (h1 : setup.poisoned = false) (h2 : setup.handler = false) (bodies : List Body) :
    ∀ s ∈ starts (newCpuNow k trap) (cfgNow k) trap (providerNow k trap setup) bodies, Pristine k setup s :=
  starts_pristine k trap setup bodies _ (provider_inv k trap setup h1 h2)

/-- Independence of earlier cases and of the order: the machine handed to a case in any position of any
    suite agrees, on everything observable, with the machine handed to the first case of any other suite. -/
theorem C08_independent (k : MemKind) (trap : Bool) (setup : CaseMachine)
    (h1 : setup.poisoned = false) (h2 : setup.handler = false) (bodies bodies' : List Body)
    (s s' : CaseMachine)
    (hs : s ∈ starts (newCpuNow k trap) (cfgNow k) trap (providerNow k trap setup) bodies)
    (hs' : s' ∈ starts (newCpuNow k trap) (cfgNow k) trap (providerNow k trap setup) bodies') :
    s.regs = s'.regs ∧ s.cycles = s'.cycles ∧ s.handler = s'.handler ∧
    ∀ c : Cell, c.1 ∈ regionsOf k → s.mem.data c = s'.mem.data c ∧ s.mem.stat c = s'.mem.stat c := by
  have p := C08_start k trap setup h1 h2 bodies s hs
  have p' := C08_start k trap setup h1 h2 bodies' s' hs'
  obtain ⟨a1, a2, a3, _, a5⟩ := p
  obtain ⟨b1, b2, b3, _, b5⟩ := p'
  refine ⟨a1.trans b1.symm, a2.trans b2.symm, a3.trans b3.symm, ?_⟩
  intro c hc
  exact ⟨(a5 c hc).1.trans (b5 c hc).1.symm, (a5 c hc).2.trans (b5 c hc).2.symm⟩

/-- every case of a suite of n bodies gets a machine: the list of start machines has n entries -/
theorem C08_all_cases (newCpu : CaseMachine → CaseMachine) (cfg : MemCfg) (trap : Bool) :
    ∀ (bodies : List Body) (m : CaseMachine), (starts newCpu cfg trap m bodies).length = bodies.length := by
  intro bodies
  induction bodies with
  | nil => intro m; rfl
  | cons b bs ih => intro m; simp [starts, ih]

/-- Without `-prexec` every case gets a machine built afresh from the configuration: the provider is a
    constant function of the configuration, so its result cannot depend on earlier cases. (That the Go
    provider really allocates a new CPU and memory on every call is checked by the isolation stream.) -/
theorem C08_fresh (fresh : CaseMachine) (cfg : MemCfg) (trap : Bool) (bodies : List Body) (m : CaseMachine) :
    ∀ s ∈ starts (fun _ => fresh) cfg trap m bodies, s = fresh := by
  induction bodies generalizing m with
  | nil => intro s hs; simp [starts] at hs
  | cons b bs ih =>
    intro s hs
    simp only [starts, List.mem_cons] at hs
    rcases hs with hs | hs
    · exact hs
    · exact ih _ s hs

/-- the statements of Reset and of the provider all have a meaning in the model (none is `unknown`) -/
theorem C08_no_unknown (k : MemKind) (trap : Bool) (m : CaseMachine) :
    (newCpuNow k trap m).poisoned = m.poisoned ∧ (providerNow k trap m).poisoned = m.poisoned :=
  ⟨(newCpu_ok k trap m).poisoned, (provider_ok k trap m).poisoned⟩

end Verif.Props.C08
