import Verif.Proofs.MemHist
import Verif.Facts.MemAllocStat
import Verif.Facts.MemClear
/-
  C06 — An access statistic counts exactly the accesses that reached that physical byte.
-/
namespace Verif.Props.C06
open Verif Verif.Impl Verif.Spec Verif.Facts

/-- For every memory model and every finite history of loads, stores (16-bit and linear view), bank
    switches (they are stores), statistic queries, clears and snapshot operations: the counter of a cell
    = (0 if the history contains a clear, else the counter before) + the number of loads and stores
    since the last clear whose address resolved to that cell under the banking state at the time. -/
theorem C06_count (k : MemKind) (c : Cell) (hc : c.1 ∈ regionsOf k) (h : List MemOp) (s : MemState) :
    (runOps (cfgNow k) s h).stat c =
      (if (countSinceClear (cfgNow k) c s h).2 = true then 0 else s.stat c) + (countSinceClear (cfgNow k) c s h).1 :=
  stat_count (cfgNow k) c (clear_covers k c.1 hc) h s

/-- querying statistics never changes anything -/
theorem C06_query_pure (cfg : MemCfg) (s : MemState) (a : Addr) (l : BitVec 32) :
    applyOp cfg s (.stat a) = s ∧ applyOp cfg s (.statL l) = s := ⟨rfl, rfl⟩

/-- the reported statistic is the counter of the cell the address resolves to (same decoder call as
    the one that selects the byte) -/
theorem C06_query (k : MemKind) (s : MemState) (a : Addr) :
    getStatistics k s a = (calcIndex k s.data a).map s.stat := rfl

/-- clearing zeroes the counter of every byte of every region of the machine (regenerated fact:
    the clear list of every model covers all its regions) -/
theorem C06_clear_total (k : MemKind) (s : MemState) (c : Cell) (hc : c.1 ∈ regionsOf k) :
    (applyOp (cfgNow k) s .clear).stat c = 0 := by
  simp [applyOp, clearStatistics, clear_covers k c.1 hc]

/-- a load or store adds exactly one to exactly the counter of the byte it resolved to, none on a fault -/
theorem C06_one (cfg : MemCfg) (s : MemState) (op : MemOp) (hop : op ≠ .clear) (c : Cell) :
    (applyOp cfg s op).stat c = s.stat c + (if op.cell cfg s = some c then 1 else 0) :=
  applyOp_stat cfg s op hop c

/-- every counter array is allocated as long as the data buffer of its region (regenerated fact): no access
    to an existing byte can miss its counter or hit another region's -/
theorem C06_counters_sized :
    countersSized "LinearMemory" Generated.LinearMemory_TakeSnapshot Generated.LinearMemory_ClearStatistics = true ∧
    countersSized "X16Memory" Generated.X16Memory_TakeSnapshot Generated.X16Memory_ClearStatistics = true ∧
    countersSized "NeoGeoRam" Generated.NeoGeoRam_TakeSnapshot Generated.NeoGeoRam_ClearStatistics = true ∧
    countersSized "F256RevBMemory" Generated.F256RevBMemory_TakeSnapshot Generated.F256RevBMemory_ClearStatistics = true :=
  counters_sized

/-- every access counter of every memory model is declared as a 64-bit counter (regenerated fact): a count cannot
    wrap around in any run that can be executed, so "the statistic equals the number of accesses" is not limited by
    the counter's width -/
theorem C06_counters_wide :
    Generated.counterFieldTypes.all (fun e => e.2.2 == "[]uint64" || e.2.2 == "uint64") = true ∧
    Generated.counterFieldTypes.length ≥ 9 := counters_wide

-- non-vacuity: two accesses to one window address under two banks count on two different bytes
example :
    let k := MemKind.x16 64
    let s := runOps (cfgNow k) (initState k) [.load 0xA000, .store 0x0000 2, .load 0xA000, .load 0xA000]
    s.stat (.ram, 1 * 8192) = 1 ∧ s.stat (.ram, 2 * 8192) = 2 ∧ s.stat (.main, 0) = 1 := by decide

end Verif.Props.C06
