import Verif.Proofs.MemDecode
import Verif.Proofs.MemHist
import Verif.Facts.MemSpecs
/-
  C04 — CPU-visible memory is read-your-writes under every banking state.
-/
namespace Verif.Props.C04
open Verif Verif.Impl Verif.Spec Verif.Facts

/-- the ten machines: sizes and parameters for which the decoder theorems are stated -/
def Machine (k : MemKind) : Prop :=
  match k with
  | .linear n => n ≤ 65536
  | .x16 b => b ≤ 256
  | .geo sb => 1 ≤ sb ∧ sb ≤ 8
  | .f256 n => 16 ≤ n ∧ n + 4 * 8192 < 2 ^ 32

/-- The physical byte behind a CPU address is the documented one — for every 16-bit address and every
    value of every banking register / LUT entry (the contents `d` are arbitrary), on every machine:
    X16 windows and 5-bit ROM bank, GeoRAM track/sector window, F256 MMU (active LUT, LUT edit window,
    I/O window with bank and disable bit), linear memories with their size as the fault boundary. -/
theorem C04_decode (k : MemKind) (hk : Machine k) (d : Cell → Byte) (a : Addr) :
    calcIndex k d a = docMap k (nat d) a.toNat := by
  cases k with
  | linear n => exact linear_decode n d a
  | x16 b => exact x16_decode b d a
  | geo sb => exact geo_decode sb hk d a
  | f256 n => exact f256_decode n d a

theorem machine_doc (s : String) (k : MemKind) (h : docMachine s = some k) : Machine k := by
  unfold docMachine at h
  split at h <;> first | (cases h; simp [Machine]) | cases h

/-- the ten configured machines are `Machine`s and are what the MemSpecs build (regenerated fact) -/
theorem C04_configured (s : String) (hs : s ∈ ["Linear16K", "Linear32K", "Linear48K", "Linear64K", "XSixteen512K",
    "XSixteen2048K", "GeoRam_512K", "GeoRam_2048K", "F256_512K", "F256_768K"]) :
    ∃ k, builtMachine s = some k ∧ docMachine s = some k ∧ Machine k := by
  have h1 := memspec_builds s hs
  cases hd : docMachine s with
  | none =>
    exfalso
    simp only [List.mem_cons, List.mem_nil_iff, or_false] at hs
    rcases hs with h | h | h | h | h | h | h | h | h | h <;> subst h <;> simp [docMachine] at hd
  | some k => exact ⟨k, by rw [h1, hd], rfl, machine_doc s k hd⟩

/-- Read-your-writes over every finite history of loads, stores (both views), statistic queries and
    clears: the content of a cell is the value of the last successful store whose address resolved to
    that cell under the banking state at the time of that store — else what it was at the start.
    Stores that rewrite banking registers or LUT entries are ordinary stores of the history. -/
theorem C04_ryw (k : MemKind) (c : Cell) (h : List MemOp) (s : MemState) (hno : ∀ op ∈ h, op ≠ .restore) :
    (runOps (cfgNow k) s h).data c = (lastWrite (cfgNow k) c s h).getD (s.data c) :=
  ryw (cfgNow k) c h s hno

/-- a load returns the current content of the documented physical byte (and faults exactly when the
    documented map does) -/
theorem C04_load (k : MemKind) (hk : Machine k) (s : MemState) (a : Addr) :
    (load k s a).1 = (docMap k (nat s.data) a.toNat).map s.data := by
  unfold load loadCell
  rw [C04_decode k hk]
  cases docMap k (nat s.data) a.toNat <;> rfl

/-- a store changes exactly one physical byte — the documented one — and nothing when it faults;
    every other cell (unmapped banks included) keeps its content -/
theorem C04_one_byte (k : MemKind) (hk : Machine k) (s : MemState) (a : Addr) (v : Byte) :
    (store k s a v).2.data =
      match docMap k (nat s.data) a.toNat with
      | some c => upd s.data c v
      | none => s.data := by
  unfold store storeCell
  rw [C04_decode k hk]
  cases docMap k (nat s.data) a.toNat <;> rfl

/-- on Linear16K/32K/48K an access at or above the configured size is a fault, never an alias -/
theorem C04_linear_fault (n : Nat) (s : MemState) (a : Addr) (h : n ≤ a.toNat) :
    (load (.linear n) s a) = (none, s) ∧ (store (.linear n) s a v) = (false, s) := by
  have : calcIndex (.linear n) s.data a = none := by
    simp [calcIndex, linearCalcIndex, idx]; omega
  simp [load, store, loadCell, storeCell, this]

/-- a resolved cell always lies inside its region (no index can leave its bank) -/
theorem C04_inbounds (k : MemKind) (d : Cell → Nat) (a : Nat) (c : Cell) (ha : a < 65536)
    (hd : ∀ c, d c < 256) (h : docMap k d a = some c) : validCell k c := by
  cases k with
  | linear n =>
    simp only [docMap] at h
    split at h
    · cases h; simpa [validCell, regionSize]
    · cases h
  | x16 b =>
    simp only [docMap] at h
    split at h
    · cases h; simp [validCell, regionSize]; omega
    · split at h
      · split at h
        · cases h; simp [validCell, regionSize]; omega
        · cases h
      · cases h; simp [validCell, regionSize]; omega
  | geo sb =>
    simp only [docMap] at h
    split at h
    · cases h
      simp only [validCell, regionSize]
      have hS : d (.main, 0xDFFF) % 2 ^ sb < 2 ^ sb := Nat.mod_lt _ (Nat.two_pow_pos sb)
      have h1 : d (.main, 0xDFFE) % 64 * 2 ^ sb + d (.main, 0xDFFF) % 2 ^ sb < 64 * 2 ^ sb := by
        have : d (.main, 0xDFFE) % 64 ≤ 63 := by omega
        have := Nat.mul_le_mul_right (2 ^ sb) this
        omega
      have h2 : 2 ^ (sb + 14) = 64 * 2 ^ sb * 256 := by rw [Nat.pow_add]; omega
      rw [h2]; omega
    · cases h; simp [validCell, regionSize]; omega
  | f256 n =>
    have := hd (.memCtrl, 0)
    have := hd (.ioCtrl, 0)
    simp only [docMap] at h
    repeat' split at h
    all_goals (first | cases h | skip)
    all_goals (simp [validCell, regionSize] <;> omega)

-- non-vacuity: a concrete history on the X16 — switch the RAM bank, write through the window,
-- switch back: the first bank still holds its byte and the window shows it again
example :
    let k := MemKind.x16 64
    let s := runOps (cfgNow k) (initState k)
      [.store 0xA000 0x11, .store 0x0000 2, .store 0xA000 0x22, .store 0x0000 1]
    (load k s 0xA000).1 = some 0x11 ∧ s.data (.ram, 2 * 8192) = 0x22 := by
  decide

end Verif.Props.C04
