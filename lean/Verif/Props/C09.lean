import Verif.Impl.Verdict
/-
  C09 — A test is reported OK only if it really ran and every assert returned true.
  For every script behaviour: any iteration count, any per-iteration behaviour of arrange / driver / assert.
-/
namespace Verif.Props.C09
open Verif.Impl

theorem loopOk_iff (iters : Nat → Iter) : ∀ (fuel i : Nat),
    loopOk iters i fuel = true ↔ ∀ j, i ≤ j → j < i + fuel → iterOk (iters j) = true := by
  intro fuel
  induction fuel with
  | zero => intro i; simp [loopOk]; intro j h1 h2; omega
  | succ f ih =>
    intro i
    simp only [loopOk, Bool.and_eq_true, ih]
    constructor
    · rintro ⟨h0, hr⟩ j h1 h2
      by_cases hj : j = i
      · subst hj; exact h0
      · exact hr j (by omega) (by omega)
    · intro h
      exact ⟨h i (Nat.le_refl _) (by omega), fun j h1 h2 => h j (by omega) (by omega)⟩

/-- C09_sound: reported OK ⇒ assembling, loading and the script load succeeded, the driver was run to its BRK at
    least once — once per iteration — and every assert() call made returned boolean true (and arrange, driver
    and assert faulted in no iteration) -/
theorem C09_sound (asmOk loadOk scriptOk : Bool) (ni : NumIters) (iters : Nat → Iter)
    (h : (execute asmOk loadOk scriptOk ni iters).ok = true) :
    asmOk = true ∧ loadOk = true ∧ scriptOk = true ∧
    1 ≤ (execute asmOk loadOk scriptOk ni iters).ran ∧
    (execute asmOk loadOk scriptOk ni iters).asserts = (execute asmOk loadOk scriptOk ni iters).ran ∧
    ∀ i, i < (execute asmOk loadOk scriptOk ni iters).asserts →
      (iters i).arrangeOk = true ∧ (iters i).runOk = true ∧ (iters i).assertOk = true ∧ (iters i).assertTrue = true := by
  unfold execute at h ⊢
  by_cases hc : (asmOk && loadOk && scriptOk && decide (1 ≤ iterCount ni) && loopOk iters 0 (iterCount ni)) = true
  · simp only [hc, if_true] at h ⊢
    simp only [Bool.and_eq_true, decide_eq_true_eq] at hc
    obtain ⟨⟨⟨⟨a, l⟩, s⟩, hn⟩, hl⟩ := hc
    refine ⟨a, l, s, hn, trivial, ?_⟩
    intro i hi
    have := (loopOk_iff iters (iterCount ni) 0).1 hl i (Nat.zero_le _) (by omega)
    simpa [iterOk, Bool.and_eq_true, and_assoc] using this
  · simp only [hc, if_false] at h; cases h

/-- C09_fail: the case is NOT reported OK whenever assembling, loading or the script load fails, the
    iteration count is below one, or in some iteration arrange, the driver or assert faults or assert returns
    anything but true -/
theorem C09_fail (asmOk loadOk scriptOk : Bool) (ni : NumIters) (iters : Nat → Iter) :
    (asmOk = false ∨ loadOk = false ∨ scriptOk = false ∨ iterCount ni = 0 ∨
      ∃ i, i < iterCount ni ∧
        ((iters i).arrangeOk = false ∨ (iters i).runOk = false ∨ (iters i).assertOk = false ∨ (iters i).assertTrue = false)) →
    (execute asmOk loadOk scriptOk ni iters).ok = false := by
  intro h
  cases hk : (execute asmOk loadOk scriptOk ni iters).ok with
  | false => rfl
  | true =>
    exfalso
    obtain ⟨a, l, s, hr, has, hall⟩ := C09_sound asmOk loadOk scriptOk ni iters hk
    have hran : (execute asmOk loadOk scriptOk ni iters).ran = iterCount ni := by
      unfold execute at hk ⊢
      by_cases hc : (asmOk && loadOk && scriptOk && decide (1 ≤ iterCount ni) && loopOk iters 0 (iterCount ni)) = true
      · simp only [hc, if_true]
      · simp only [hc, if_false] at hk; cases hk
    rcases h with h | h | h | h | ⟨i, hi, hbad⟩
    · rw [a] at h; cases h
    · rw [l] at h; cases h
    · rw [s] at h; cases h
    · omega
    · have := hall i (by rw [has, hran]; exact hi)
      rcases hbad with h | h | h | h
      · rw [this.1] at h; cases h
      · rw [this.2.1] at h; cases h
      · rw [this.2.2.1] at h; cases h
      · rw [this.2.2.2] at h; cases h

/-- C09_all: verifyall succeeds exactly when every case passed, and then the number it prints is the
    number of cases -/
theorem C09_all : ∀ (verdicts : List Bool), (suite verdicts).1 = true ↔ ∀ v ∈ verdicts, v = true := by
  intro vs
  induction vs with
  | nil => simp [suite]
  | cons v rest ih =>
    cases v with
    | false => simp [suite]
    | true => simp only [suite, if_true, List.mem_cons, forall_eq_or_imp, true_and]; exact ih

theorem C09_count : ∀ (verdicts : List Bool), (suite verdicts).1 = true → (suite verdicts).2 = verdicts.length := by
  intro vs
  induction vs with
  | nil => simp [suite]
  | cons v rest ih =>
    cases v with
    | false => simp [suite]
    | true =>
      simp only [suite, if_true, List.length_cons]
      intro h
      rw [ih h]

-- non-vacuity: a three-iteration test that passes, and the repaired defect (count 0 is not OK)
example : execute true true true (.value 3) (fun _ => ⟨true, true, true, true⟩) = ⟨true, 3, 3⟩ := by decide
example : (execute true true true (.value 0) (fun _ => ⟨true, true, true, true⟩)).ok = false := by decide

end Verif.Props.C09
