import Verif.Props.C01
import Verif.Proofs.RunRefine
/-
  C01, lifted to runs (the cycle total of a run is C02_total in Props/C02Run.lean).  `specLoop` (Proofs/RunRefine.lean) is the run loop of the SPECIFICATION: fetch, decode
  by the data sheets, execute by the data sheets, stop at BRK or at a fault, add up the data-sheet cycles of the
  non-halting instructions.  On every plain bus (every memory model) a run of the code as it is now goes through
  exactly the machine states of the specification's run — same registers, same memory, same way of stopping, same
  cycle total — as long as the executed path stays inside what the data sheets define exactly (`RunExact`: every
  fetched opcode is a documented one, no invalid-BCD / undefined-flag path, no instruction whose result has
  don't-care bits: PHP, PLP, RTI, decimal ADC/SBC, and the one open finding BIT #imm on the 65C02).
-/
namespace Verif.Props.C01
open Verif Verif.Impl Verif.Spec Verif.Facts Verif.Proofs

variable {σ : Type}

/-- C01_run: on every plain bus, from every machine state, for every number of instructions: while the executed
    path is exactly specified, the run of the code as it is now and the run of the specification stop in the same
    way with the same registers and the same memory. -/
theorem C01_run (model : CpuModel) (bus : Bus σ) (hb : PlainBus bus) (n : Nat) (m : Machine σ)
    (hx : RunExact model bus n m.regs m.mem) :
    (runLoop (Generated.opTable model) Generated.consts model bus n m).1 = (specLoop model bus n m.regs m.mem).1 ∧
    (runLoop (Generated.opTable model) Generated.consts model bus n m).2.regs = (specLoop model bus n m.regs m.mem).2.1 ∧
    (runLoop (Generated.opTable model) Generated.consts model bus n m).2.mem = (specLoop model bus n m.regs m.mem).2.2 :=
  run_refines (Generated.opTable model) Generated.consts model bus RegsRel hb (fun _ _ h => h)
    (fun r opc i hd => C01_step_partial model r opc i hd) n m hx

/-- LDA #$05 ; INX ; BRK at $0800 -/
def demoMem : Addr → Byte := fun a => if a = 0x0800 then 0xA9 else if a = 0x0801 then 5 else if a = 0x0802 then 0xE8 else 0

-- non-vacuity: the hypothesis holds for this program on both CPU models, and the specification's run ends at the
-- BRK with A = 5 and X = 1
example : RunExact .m6502 flatBus 3 ⟨0x0800, 0xFF, 0, 0, 0, 0⟩ demoMem := runExact_of_bool _ _ _ _ _ (by decide)
example : RunExact .m65C02 flatBus 3 ⟨0x0800, 0xFF, 0, 0, 0, 0⟩ demoMem := runExact_of_bool _ _ _ _ _ (by decide)
example : (specLoop .m6502 flatBus 3 ⟨0x0800, 0xFF, 0, 0, 0, 0⟩ demoMem).1 = .halted ∧
    (specLoop .m6502 flatBus 3 ⟨0x0800, 0xFF, 0, 0, 0, 0⟩ demoMem).2.1.a = 5 ∧
    (specLoop .m6502 flatBus 3 ⟨0x0800, 0xFF, 0, 0, 0, 0⟩ demoMem).2.1.x = 1 := by decide

end Verif.Props.C01
