import Verif.Proofs.MemHist
import Verif.Facts.MemSnap
import Verif.Facts.MemAllocSnap
/-
  C07 — Restoring a snapshot brings back every byte of every bank and all banking state.
-/
namespace Verif.Props.C07
open Verif Verif.Impl Verif.Spec Verif.Facts

/-- snapshot; ANY history of accesses through both views, bank switches, LUT edits, clears and restores
    (anything but another TakeSnapshot); restore  ⇒  every cell of every region of the machine — mapped or
    not, banking registers and LUTs included — holds the value it had when the snapshot was taken. -/
theorem C07_restore (k : MemKind) (s : MemState) (h : List MemOp) (hno : ∀ op ∈ h, op ≠ .snap)
    (c : Cell) (hc : c.1 ∈ regionsOf k) :
    (applyOp (cfgNow k) (runOps (cfgNow k) (applyOp (cfgNow k) s .snap) h) .restore).data c = s.data c := by
  have hcov := snapshot_covers k c.1 hc
  have hs := snap_kept (cfgNow k) h (applyOp (cfgNow k) s .snap) hno
  simp only [applyOp, restoreSnapshot, hcov.2, if_true]
  rw [show (runOps (cfgNow k) (takeSnapshot (cfgNow k).taken s) h).snap = (takeSnapshot (cfgNow k).taken s).snap from hs]
  simp [takeSnapshot, hcov.1]

/-- the stored snapshot is never altered by anything a program or script can do (loads, stores, clears,
    restores): only TakeSnapshot writes it -/
theorem C07_snapshot_immutable (cfg : MemCfg) (h : List MemOp) (s : MemState) (hno : ∀ op ∈ h, op ≠ .snap) :
    (runOps cfg s h).snap = s.snap := snap_kept cfg h s hno

/-- restoring is repeatable: restore; arbitrary history; restore gives the same image again -/
theorem C07_repeat (k : MemKind) (s : MemState) (h h' : List MemOp) (hno : ∀ op ∈ h, op ≠ .snap)
    (hno' : ∀ op ∈ h', op ≠ .snap) (c : Cell) (hc : c.1 ∈ regionsOf k) :
    (applyOp (cfgNow k) (runOps (cfgNow k) (applyOp (cfgNow k) s .snap) (h ++ [.restore] ++ h')) .restore).data c
      = s.data c := by
  refine C07_restore k s (h ++ [MemOp.restore] ++ h') ?_ c hc
  intro op hop
  simp only [List.mem_append, List.mem_singleton] at hop
  rcases hop with (hop | hop) | hop
  · exact hno op hop
  · subst hop; simp
  · exact hno' op hop

/-- wrapped memories (trap, port, coprocessor layers) forward TakeSnapshot / RestoreSnapshot /
    ClearStatistics unchanged to the wrapped memory (regenerated fact), so the theorems above hold
    through any stack of wrappers -/
theorem C07_wrapped :
    Generated.WrappingMemory_TakeSnapshot = [("->", "<Memory>.TakeSnapshot")] ∧
    Generated.WrappingMemory_RestoreSnapshot = [("->", "<Memory>.RestoreSnapshot")] :=
  ⟨wrapper_forwards.1, wrapper_forwards.2.1⟩

/-- `copy` silently truncates to the shorter slice: the copy lists only cover a region if the snapshot buffer is
    as long as the live buffer.  Regenerated fact: in every constructor each snapshot buffer is allocated with
    the same length expression as the buffer it saves. -/
theorem C07_buffers :
    pairsSized "LinearMemory" Generated.LinearMemory_TakeSnapshot = true ∧
    pairsSized "X16Memory" Generated.X16Memory_TakeSnapshot = true ∧
    pairsSized "NeoGeoRam" Generated.NeoGeoRam_TakeSnapshot = true ∧
    pairsSized "F256RevBMemory" Generated.F256RevBMemory_TakeSnapshot = true := snapshot_buffers_sized

-- non-vacuity: F256 — snapshot, then open the LUT edit window, rewrite a LUT entry and a byte, restore
example :
    let k := MemKind.f256 0x100000
    let s0 := initState k
    let s := runOps (cfgNow k) s0 [.snap, .store 0x0000 0x80, .store 0x0009 0x55, .store 0x4000 0x99, .restore]
    s.data (.lut, 1) = 1 ∧ s.data (.memCtrl, 0) = 0 ∧ s.data (.main, 0x4000) = 0 := by decide

end Verif.Props.C07
