import Verif.Impl.Loader
import Verif.Proofs.MemHist
import Verif.Facts.MemNow
import Verif.Generated.Misc
/-
  C13 — Loading places exactly the file's payload at its header address, or fails.
  Regenerated fact: `Load` uses the error returned by `CopyToMem`.
-/
namespace Verif.Props.C13
open Verif Verif.Impl Verif.Spec Verif.Facts Verif.Generated

/-- the stores a copy makes: byte i goes to address (start + i) mod 65536 -/
def copyOps : Addr → List Byte → List MemOp
  | _, [] => []
  | a, b :: rest => .store a b :: copyOps (a + 1) rest

/-- address of payload byte i -/
theorem copyOps_addr : ∀ (bytes : List Byte) (a : Addr) (i : Nat) (h : i < bytes.length),
    (copyOps a bytes)[i]? = some (.store (BitVec.ofNat 16 ((a.toNat + i) % 65536)) bytes[i]) := by
  intro bytes
  induction bytes with
  | nil => intro a i h; simp at h
  | cons b rest ih =>
    intro a i h
    cases i with
    | zero =>
      simp only [copyOps, List.getElem?_cons_zero, List.getElem_cons_zero, Nat.add_zero]
      congr 2
      apply BitVec.eq_of_toNat_eq
      simp only [BitVec.toNat_ofNat]; have := a.isLt; omega
    | succ j =>
      simp only [copyOps, List.getElem?_cons_succ, List.getElem_cons_succ]
      rw [ih (a + 1) j (by simpa using h)]
      congr 2
      apply BitVec.eq_of_toNat_eq
      simp only [BitVec.toNat_ofNat, BitVec.toNat_add]
      have : (1 : Addr).toNat = 1 := rfl
      rw [this]; omega

/-- a successful copy is exactly the sequence of stores `copyOps` — nothing else is written — and every
    one of them succeeded -/
theorem copy_ok (k : MemKind) : ∀ (bytes : List Byte) (s : MemState) (a : Addr) (s' : MemState),
    copyToMem k s a bytes = (true, s') → s' = runOps (cfgNow k) s (copyOps a bytes) := by
  intro bytes
  induction bytes with
  | nil => intro s a s' h; simp [copyToMem] at h; simp [copyOps, runOps, h]
  | cons b rest ih =>
    intro s a s' h
    simp only [copyToMem] at h
    cases hs : store k s a b with
    | mk ok s1 =>
      rw [hs] at h
      cases ok with
      | false => simp at h
      | true =>
        simp only at h
        have := ih s1 (a + 1) s' h
        simp only [copyOps, runOps, List.foldl, applyOp] at this ⊢
        have e : (store (cfgNow k).kind s a b).2 = s1 := by
          show (store k s a b).2 = s1; rw [hs]
        rw [e]; exact this

/-- a copy fails as soon as one byte cannot be stored: if the first bytes `pre` were stored and the
    store of the next byte faults, the whole copy reports the fault -/
theorem copy_fails_of (k : MemKind) : ∀ (pre : List Byte) (s : MemState) (a : Addr) (b : Byte) (post : List Byte)
    (si : MemState), copyToMem k s a pre = (true, si) →
      (store k si (a + BitVec.ofNat 16 pre.length) b).1 = false →
      (copyToMem k s a (pre ++ b :: post)).1 = false := by
  intro pre
  induction pre with
  | nil =>
    intro s a b post si h1 h2
    simp [copyToMem] at h1
    subst h1
    simp only [List.nil_append, copyToMem]
    have : a + BitVec.ofNat 16 ([] : List Byte).length = a := by simp
    rw [this] at h2
    cases hs : store k s a b with
    | mk ok s1 => rw [hs] at h2; simp only at h2; subst h2; rfl
  | cons p pre' ih =>
    intro s a b post si h1 h2
    simp only [List.cons_append, copyToMem] at h1 ⊢
    cases hs : store k s a p with
    | mk ok s1 =>
      rw [hs] at h1
      cases ok with
      | false => rfl
      | true =>
        simp only at h1 ⊢
        refine ih s1 (a + 1) b post si h1 ?_
        have : a + 1 + BitVec.ofNat 16 pre'.length = a + BitVec.ofNat 16 (p :: pre').length := by
          apply BitVec.eq_of_toNat_eq
          simp only [BitVec.toNat_add, BitVec.toNat_ofNat, List.length_cons]
          have : (1 : Addr).toNat = 1 := rfl
          rw [this]; omega
        rw [this]; exact h2

/-- FACT: `Load` assigns the error of `CopyToMem` (so it can report it) -/
theorem C13_checks_copy_error : loadChecksCopyError = true := by decide

/-- the loader of the code as it is now -/
def loadNow (k : MemKind) (s : MemState) (file : List Byte) := loadFile loadChecksCopyError k s file

/-- files shorter than three bytes are rejected and nothing is written -/
theorem C13_short (k : MemKind) (s : MemState) (file : List Byte) (h : file.length < 3) :
    loadNow k s file = (.error, s) := by
  unfold loadNow loadFile
  match file, h with
  | [], _ => rfl
  | [_], _ => rfl
  | [_, _], _ => rfl

/-- a successful load reports the little-endian header word and the payload length, and its effect on
    memory is exactly: payload byte i stored at (header + i) mod 65536, in order, each store succeeding,
    and no other write -/
theorem C13_place (k : MemKind) (s s' : MemState) (lo hi : Byte) (payload : List Byte) (addr len : Nat)
    (hp : payload ≠ []) (hlen : payload.length ≤ 65535)
    (h : loadNow k s (lo :: hi :: payload) = (.ok addr len, s')) :
    addr = hi.toNat * 256 + lo.toNat ∧ len = payload.length ∧
    s' = runOps (cfgNow k) s (copyOps (BitVec.ofNat 16 addr) payload) := by
  cases payload with
  | nil => exact absurd rfl hp
  | cons b rest =>
    unfold loadNow loadFile at h
    simp only [C13_checks_copy_error, Bool.true_and] at h
    cases hc : copyToMem k s (hi.zeroExtend 16 * 256 + lo.zeroExtend 16) (b :: rest) with
    | mk ok s1 =>
      rw [hc] at h
      cases ok with
      | false => simp at h
      | true =>
        simp only [Bool.not_true, Bool.false_eq_true, if_false, Prod.mk.injEq, LoadResult.ok.injEq] at h
        obtain ⟨⟨h1, h2⟩, h3⟩ := h
        have ha : (hi.zeroExtend 16 * 256 + lo.zeroExtend 16 : Addr).toNat = hi.toNat * 256 + lo.toNat := by
          simp only [BitVec.toNat_add, BitVec.toNat_mul, BitVec.toNat_setWidth]
          have := lo.isLt; have := hi.isLt
          have : (256 : Addr).toNat = 256 := rfl
          rw [this]; omega
        refine ⟨by rw [← h1, ha], ?_, ?_⟩
        · rw [← h2]; exact Nat.mod_eq_of_lt (by omega)
        · subst h3
          have := copy_ok k (b :: rest) s _ s1 hc
          rw [this, ← h1]
          congr 2
          apply BitVec.eq_of_toNat_eq
          simp

/-- if any payload byte cannot be stored (the bytes before it were stored, its own store faults — an
    address outside a Linear16K/32K/48K memory, a bank the machine does not have) the load reports an error
    instead of silently truncating the program -/
theorem C13_fault (k : MemKind) (s si : MemState) (lo hi : Byte) (pre : List Byte) (b : Byte) (post : List Byte)
    (h1 : copyToMem k s (hi.zeroExtend 16 * 256 + lo.zeroExtend 16) pre = (true, si))
    (h2 : (store k si (hi.zeroExtend 16 * 256 + lo.zeroExtend 16 + BitVec.ofNat 16 pre.length) b).1 = false) :
    (loadNow k s (lo :: hi :: (pre ++ b :: post))).1 = .error := by
  have hf := copy_fails_of k pre s _ b post si h1 h2
  cases hpl : pre ++ b :: post with
  | nil => simp at hpl
  | cons x rest =>
    rw [hpl] at hf
    unfold loadNow loadFile
    simp only [C13_checks_copy_error, Bool.true_and]
    cases hc : copyToMem k s (hi.zeroExtend 16 * 256 + lo.zeroExtend 16) (x :: rest) with
    | mk ok s1 =>
      rw [hc] at hf
      simp only at hf
      subst hf
      simp

/-- PreLoad images follow the same placement rule (same `CopyToMem`), error propagated -/
theorem C13_preload (k : MemKind) (s s' : MemState) (a : Addr) (data : List Byte)
    (h : preload k s a data = (true, s')) : s' = runOps (cfgNow k) s (copyOps a data) :=
  copy_ok k data s a s' h

/-- loads compose: a second file loaded into the same machine is placed by the same rule on the memory as the first
    load left it — its payload bytes (zero bytes included) replace whatever was there, nothing else changes -/
theorem C13_second_load (k : MemKind) (s s1 s2 : MemState) (lo1 hi1 lo2 hi2 : Byte) (p1 p2 : List Byte)
    (a1 l1 a2 l2 : Nat) (hp1 : p1 ≠ []) (hp2 : p2 ≠ []) (hl1 : p1.length ≤ 65535) (hl2 : p2.length ≤ 65535)
    (h1 : loadNow k s (lo1 :: hi1 :: p1) = (.ok a1 l1, s1))
    (h2 : loadNow k s1 (lo2 :: hi2 :: p2) = (.ok a2 l2, s2)) :
    s2 = runOps (cfgNow k) (runOps (cfgNow k) s (copyOps (BitVec.ofNat 16 a1) p1)) (copyOps (BitVec.ofNat 16 a2) p2) ∧
    a2 = hi2.toNat * 256 + lo2.toNat ∧ l2 = p2.length := by
  obtain ⟨_, _, e1⟩ := C13_place k s s1 lo1 hi1 p1 a1 l1 hp1 hl1 h1
  obtain ⟨ha, hl, e2⟩ := C13_place k s1 s2 lo2 hi2 p2 a2 l2 hp2 hl2 h2
  exact ⟨by rw [e2, e1], ha, hl⟩

-- non-vacuity: a 4-byte payload at $3FFE in a 16K memory: the third byte cannot be stored
example : (loadNow (.linear 16384) (initState (.linear 16384)) [0xFE, 0x3F, 1, 2, 3, 4]).1 = .error := by decide
example : (loadNow (.linear 16384) (initState (.linear 16384)) [0xFC, 0x3F, 1, 2, 3, 4]).1 = .ok 0x3FFC 4 := by decide

-- non-vacuity of C13_second_load: a second file with zero bytes over the first one
example : (loadNow (.linear 16384) (loadNow (.linear 16384) (initState (.linear 16384)) [0x00, 0x10, 1, 2, 3]).2 [0x01, 0x10, 0, 0]).1
    = .ok 0x1001 2 := by decide

end Verif.Props.C13
