import Verif.Impl.Dump
import Verif.Generated.Misc
/-
  C20 — The -dump hex dump shows every requested byte once and always terminates.
  Regenerated facts: the width of the loop counter of memory.Dump, and that both commands validate
  the specification before they load the program.
-/
namespace Verif.Props.C20
open Verif Verif.Impl Verif.Generated

theorem chunkF_flatten : ∀ (n : Nat) (l : List Nat), l.length ≤ n → (chunkF n l).flatten = l := by
  intro n
  induction n with
  | zero => intro l h; cases l <;> simp_all [chunkF]
  | succ n ih =>
    intro l h
    cases l with
    | nil => simp [chunkF]
    | cons a as =>
      simp only [chunkF, List.flatten_cons]
      rw [ih _ (by simp only [List.length_drop, List.length_cons] at h ⊢; omega)]
      exact List.take_append_drop 16 (a :: as)

theorem chunk16_flatten (l : List Nat) : (chunk16 l).flatten = l := chunkF_flatten _ l (Nat.le_refl _)

/-- every line but the last has exactly sixteen entries, the last between 1 and 16 -/
theorem chunkF_lengths : ∀ (n : Nat) (l : List Nat), l.length ≤ n →
    ∀ (i : Nat) (h : i < (chunkF n l).length), 1 ≤ ((chunkF n l)[i]).length ∧ ((chunkF n l)[i]).length ≤ 16 ∧
      (i + 1 < (chunkF n l).length → ((chunkF n l)[i]).length = 16) := by
  intro n
  induction n with
  | zero => intro l h i hi; simp [chunkF] at hi
  | succ n ih =>
    intro l h i hi
    cases l with
    | nil => simp [chunkF] at hi
    | cons a as =>
      have hrec : ((a :: as).drop 16).length ≤ n := by
        simp only [List.length_drop, List.length_cons] at h ⊢; omega
      simp only [chunkF] at hi ⊢
      cases i with
      | zero =>
        simp only [List.getElem_cons_zero, List.length_take, List.length_cons]
        refine ⟨by omega, by omega, ?_⟩
        intro h2
        have hpos : 0 < (chunkF n ((a :: as).drop 16)).length := by
          simp only [List.length_cons] at hi h2 ⊢; omega
        have hne : (a :: as).drop 16 ≠ [] := by
          intro he; rw [he] at hpos
          cases n <;> simp [chunkF] at hpos
        have : 16 < (a :: as).length := by
          apply Classical.byContradiction
          intro hc
          exact hne (List.drop_eq_nil_of_le (by omega))
        simp only [List.length_cons] at this
        omega
      | succ j =>
        simp only [List.getElem_cons_succ, List.length_cons] at hi ⊢
        have := ih _ hrec j (by omega)
        refine ⟨this.1, this.2.1, ?_⟩
        intro h2
        exact this.2.2 (by omega)

/-- line k starts with the (16·k)-th visited address -/
theorem chunkF_head : ∀ (n : Nat) (l : List Nat), l.length ≤ n →
    ∀ (i : Nat) (h : i < (chunkF n l).length), ((chunkF n l)[i]).head? = l[16 * i]? := by
  intro n
  induction n with
  | zero => intro l h i hi; simp [chunkF] at hi
  | succ n ih =>
    intro l h i hi
    cases l with
    | nil => simp [chunkF] at hi
    | cons a as =>
      have hrec : ((a :: as).drop 16).length ≤ n := by
        simp only [List.length_drop, List.length_cons] at h ⊢; omega
      simp only [chunkF] at hi ⊢
      cases i with
      | zero => simp
      | succ j =>
        simp only [List.getElem_cons_succ, List.length_cons] at hi ⊢
        rw [ih _ hrec j (by omega), List.getElem?_drop]
        congr 1
        omega

/-- the counter of memory.Dump is wide enough for every 16-bit range (regenerated fact) -/
theorem C20_counter_width : 17 ≤ loopBits_Dump := by decide

/-- Termination and exact coverage: for every range start ≤ stop ≤ $FFFF — also one ending at $FFFF —
    the loop exits after stop − start + 1 iterations and the printed lines, concatenated, are exactly the
    addresses start, start+1, ..., stop: every requested byte once, in ascending order. -/
theorem C20_bytes (start stop : Nat) (h1 : start ≤ stop) (h2 : stop ≤ 65535) :
    ∃ rows, dumpRows loopBits_Dump start stop (stop + 2 - start) = some rows ∧
      rows.flatten = List.range' start (stop + 1 - start) := by
  have hb : stop + 1 < 2 ^ loopBits_Dump := by
    have : 2 ^ 17 ≤ 2 ^ loopBits_Dump := Nat.pow_le_pow_right (by decide) C20_counter_width
    omega
  have := counterLoop_terminates loopBits_Dump stop hb (stop + 1 - start) start (by omega)
  have e : stop + 2 - start = stop + 1 - start + 1 := by omega
  refine ⟨chunk16 (List.range' start (stop + 1 - start)), ?_, chunk16_flatten _⟩
  simp only [dumpRows, e, this, Option.map]

theorem C20_terminates (start stop : Nat) (h1 : start ≤ stop) (h2 : stop ≤ 65535) :
    (dumpRows loopBits_Dump start stop (stop + 2 - start)).isSome := by
  obtain ⟨rows, h, _⟩ := C20_bytes start stop h1 h2
  simp [h]

/-- sixteen per line, and line k carries the address start + 16·k -/
theorem C20_lines (start stop : Nat) (h1 : start ≤ stop) (h2 : stop ≤ 65535) :
    ∃ rows, dumpRows loopBits_Dump start stop (stop + 2 - start) = some rows ∧
      ∀ (k : Nat) (hk : k < rows.length),
        (rows[k]).length ≤ 16 ∧ 1 ≤ (rows[k]).length ∧ (k + 1 < rows.length → (rows[k]).length = 16) ∧
        (rows[k]).head? = some (start + 16 * k) := by
  obtain ⟨rows, h, hf⟩ := C20_bytes start stop h1 h2
  refine ⟨rows, h, ?_⟩
  intro k hk
  have hrows : rows = chunk16 (List.range' start (stop + 1 - start)) := by
    have hb : stop + 1 < 2 ^ loopBits_Dump := by
      have : 2 ^ 17 ≤ 2 ^ loopBits_Dump := Nat.pow_le_pow_right (by decide) C20_counter_width
      omega
    have := counterLoop_terminates loopBits_Dump stop hb (stop + 1 - start) start (by omega)
    have e : stop + 2 - start = stop + 1 - start + 1 := by omega
    simp only [dumpRows, e, this, Option.map] at h
    exact (Option.some.inj h).symm
  subst hrows
  unfold chunk16 at hk ⊢
  have hl := chunkF_lengths _ _ (Nat.le_refl _) k hk
  have hh := chunkF_head _ _ (Nat.le_refl _) k hk
  refine ⟨hl.2.1, hl.1, hl.2.2, ?_⟩
  rw [hh]
  -- the row exists, so 16·k is inside the range
  have hlen : 16 * k < (List.range' start (stop + 1 - start)).length := by
    cases hq : (List.range' start (stop + 1 - start))[16 * k]? with
    | some v => exact (List.getElem?_eq_some_iff.1 hq).1
    | none =>
      rw [hq] at hh
      have := hl.1
      cases hr : (chunkF (List.range' start (stop + 1 - start)).length (List.range' start (stop + 1 - start)))[k] with
      | nil => rw [hr] at this; simp at this
      | cons x xs => rw [hr] at hh; simp at hh
  rw [List.getElem?_eq_getElem hlen, List.getElem_range']
  simp

/-- the character column: one character per byte, printable ASCII as itself, everything else '.' -/
theorem C20_char_column (b : Nat) :
    printChar b = if 0x20 ≤ b ∧ b ≤ 0x7E then Char.ofNat b else '.' := by
  simp [printChar, printable]

theorem validate_sound (addr len a n : Nat) (h : validateDump addr len = some (a, n)) :
    a = addr ∧ n = len ∧ a ≤ 65535 ∧ 1 ≤ n ∧ n ≤ 65535 ∧ a + n - 1 ≤ 65535 := by
  unfold validateDump at h
  by_cases h1 : addr > 65535 ∨ len > 65535
  · simp [h1] at h
  · by_cases h2 : len = 0
    · simp [h1, h2] at h
    · by_cases h3 : (addr + len + 65535) % 65536 < addr
      · simp [h1, h2, h3] at h
      · simp only [h1, h2, h3, if_false] at h
        cases h
        omega

theorem validate_complete (a n : Nat) (h1 : a ≤ 65535) (h2 : 1 ≤ n) (h3 : n ≤ 65535) (h4 : a + n - 1 ≤ 65535) :
    validateDump a n = some (a, n) := by
  unfold validateDump
  have c1 : ¬ (a > 65535 ∨ n > 65535) := by omega
  have c2 : ¬ n = 0 := by omega
  have c3 : ¬ (a + n + 65535) % 65536 < a := by omega
  simp only [c1, c2, c3, if_false]

/-- the accepted form is digits ':' digits, followed by the numeric validation -/
theorem C20_spec_form (s : List Char) (a n : Nat) (h : parseDumpParams s = some (a, n)) :
    ∃ x y, s = x ++ ':' :: y ∧ allDigits x = true ∧ allDigits y = true ∧
      validateDump (decVal x) (decVal y) = some (a, n) := by
  unfold parseDumpParams at h
  cases hb : s.dropWhile notColon with
  | nil => rw [hb] at h; cases h
  | cons c b =>
    rw [hb] at h
    simp only at h
    by_cases hc : c = ':'
    · subst hc
      simp only [if_true] at h
      by_cases hd : (allDigits (s.takeWhile notColon) && allDigits b) = true
      · rw [if_pos hd] at h
        refine ⟨s.takeWhile notColon, b, ?_, ?_, ?_, h⟩
        · have := List.takeWhile_append_dropWhile (p := notColon) (l := s)
          rw [hb] at this
          exact this.symm
        · simp only [Bool.and_eq_true] at hd; exact hd.1
        · simp only [Bool.and_eq_true] at hd; exact hd.2
      · rw [if_neg hd] at h; cases h
    · rw [if_neg hc] at h; cases h

/-- Validation: an accepted specification is in range, has a non-zero length and does not wrap
    (so malformed, zero-length and wrapping specifications are rejected). -/
theorem C20_spec_sound (s : List Char) (a n : Nat) (h : parseDumpParams s = some (a, n)) :
    a ≤ 65535 ∧ 1 ≤ n ∧ n ≤ 65535 ∧ a + n - 1 ≤ 65535 := by
  obtain ⟨x, y, _, _, _, hv⟩ := C20_spec_form s a n h
  have := validate_sound _ _ _ _ hv
  omega

/-- and every in-range, non-zero, non-wrapping pair of numbers passes the numeric validation -/
theorem C20_spec_complete (a n : Nat) (h1 : a ≤ 65535) (h2 : 1 ≤ n) (h3 : n ≤ 65535) (h4 : a + n - 1 ≤ 65535) :
    validateDump a n = some (a, n) := validate_complete a n h1 h2 h3 h4

/-- both commands validate the dump specification before the program is loaded and run (regenerated
    fact: textual order of the calls in RunCommand and ProfileCommand) -/
theorem C20_before_run : dumpValidatedFirst_RunCommand = true ∧ dumpValidatedFirst_ProfileCommand = true := by
  decide

-- non-vacuity and examples
example : parseDumpParams "65520:16".toList = some (65520, 16) := by decide
example : parseDumpParams "65520:17".toList = none := by decide
example : parseDumpParams "0:0".toList = none := by decide
example : parseDumpParams "12:".toList = none := by decide
example : (dumpRows 32 0xFFF0 0xFFFF 17) = some [List.range' 0xFFF0 16] := by decide +kernel

end Verif.Props.C20
