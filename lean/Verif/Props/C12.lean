import Verif.Impl.LuaApi
import Verif.Impl.Loader
import Verif.Proofs.RunCycles
import Verif.Impl.RunObs
/-
  C12 — The Lua script API reads and writes the same machine state the program sees.
  The API model acts on the `Machine` the run loop of Impl/Run.lean executes (there is no second copy of the
  state in the model, as there is none in the Go code: every function dereferences LuaCtx.cpu).
-/
namespace Verif.Props.C12
open Verif Verif.Impl Verif.Proofs

variable {σ : Type}

/-- set_* followed by the matching get_* returns the value set: accumulator, X, Y, stack pointer (8 bit),
    program counter (16 bit); on any machine state, on any bus -/
theorem C12_registers (bus : Bus σ) (m : Machine σ) (v : Byte) (w : Addr) :
    (apiStep bus (apiStep bus m (.setA v)).2 .getA).1 = .num v.toNat ∧
    (apiStep bus (apiStep bus m (.setX v)).2 .getX).1 = .num v.toNat ∧
    (apiStep bus (apiStep bus m (.setY v)).2 .getY).1 = .num v.toNat ∧
    (apiStep bus (apiStep bus m (.setSP v)).2 .getSP).1 = .num v.toNat ∧
    (apiStep bus (apiStep bus m (.setPC w)).2 .getPC).1 = .num w.toNat :=
  ⟨rfl, rfl, rfl, rfl, rfl⟩

/-- a setter changes exactly its own register and nothing else of the machine -/
theorem C12_setters_frame (bus : Bus σ) (m : Machine σ) (v : Byte) (w : Addr) :
    (apiStep bus m (.setA v)).2 = { m with regs := { m.regs with a := v } } ∧
    (apiStep bus m (.setX v)).2 = { m with regs := { m.regs with x := v } } ∧
    (apiStep bus m (.setY v)).2 = { m with regs := { m.regs with y := v } } ∧
    (apiStep bus m (.setSP v)).2 = { m with regs := { m.regs with sp := v } } ∧
    (apiStep bus m (.setPC w)).2 = { m with regs := { m.regs with pc := w } } :=
  ⟨rfl, rfl, rfl, rfl, rfl⟩

/-- getters do not change the machine -/
theorem C12_getters_pure (bus : Bus σ) (m : Machine σ) :
    (apiStep bus m .getA).2 = m ∧ (apiStep bus m .getX).2 = m ∧ (apiStep bus m .getY).2 = m ∧
    (apiStep bus m .getSP).2 = m ∧ (apiStep bus m .getPC).2 = m ∧ (apiStep bus m .getFlags).2 = m ∧
    (apiStep bus m .getCycles).2 = m :=
  ⟨rfl, rfl, rfl, rfl, rfl, rfl, rfl⟩

/-! ### the flag string -/

/-- get_flags then set_flags gives back all seven named flags (bit 5 has no letter), for all 256 values -/
theorem C12_flags_get_set : ∀ p : Byte, setFlags (getFlags p) = some (p &&& 0xDF) := by decide

/-- the string only depends on the seven named flags -/
theorem getFlags_named : ∀ p : Byte, getFlags (p &&& 0xDF) = getFlags p := by decide

/-- set_flags(s) followed by get_flags() returns s, for every eight-character flag string (every string
    get_flags can produce: all 128 combinations of the seven named flags) -/
theorem C12_flags_set_get (s : List Char) (p : Byte) (hs : s = getFlags p) :
    ∃ q, setFlags s = some q ∧ getFlags q = s := by
  subst hs
  exact ⟨p &&& 0xDF, C12_flags_get_set p, getFlags_named p⟩

/-- different combinations of the seven flags give different strings -/
theorem C12_flags_injective (p q : Byte) (h : getFlags p = getFlags q) : p &&& 0xDF = q &&& 0xDF := by
  have h1 := C12_flags_get_set p
  have h2 := C12_flags_get_set q
  rw [h] at h1
  exact Option.some.inj (h1.symm.trans h2)

/-- the API level: set_flags(get_flags()) leaves N V B D I Z C as they are -/
theorem C12_flags_api (bus : Bus σ) (m : Machine σ) :
    (apiStep bus m (.setFlags (getFlags m.regs.p))).2.regs.p = m.regs.p &&& 0xDF := by
  simp [apiStep, C12_flags_get_set]

/-! ### memory -/

theorem ram_store (s : Addr → Byte) (a : Addr) (v : Byte) (r : Regs) :
    ramBus.store s a v r = (.ok r, fun x => if x = a then v else s x) := rfl

/-- write_byte then read_byte at any 16-bit address returns the byte (flat RAM) -/
theorem C12_byte_roundtrip (m : Machine (Addr → Byte)) (a : Addr) (v : Byte) :
    (apiStep ramBus (apiStep ramBus m (.writeByte a v)).2 (.readByte a)).1 = .num v.toNat := by
  simp [apiStep, ramBus]

/-- the memory after `CopyToMem` on flat RAM, cell by cell -/
def ramCopy (s : Addr → Byte) : Addr → List Byte → Addr → Byte
  | _, [] => s
  | a, b :: rest => ramCopy (fun x => if x = a then b else s x) (a + 1) rest

theorem copyTo_ram (r : Regs) : ∀ (data : List Byte) (s : Addr → Byte) (a : Addr),
    copyToBus ramBus r s a data = (true, ramCopy s a data) := by
  intro data
  induction data with
  | nil => intro s a; rfl
  | cons b rest ih => intro s a; simp only [copyToBus, ram_store, ramCopy]; exact ih _ _

/-- cells the copy does not reach keep their value -/
theorem ramCopy_other : ∀ (data : List Byte) (s : Addr → Byte) (a x : Addr),
    (∀ i, i < data.length → a + BitVec.ofNat 16 i ≠ x) → ramCopy s a data x = s x := by
  intro data
  induction data with
  | nil => intro s a x _; rfl
  | cons b rest ih =>
    intro s a x h
    simp only [ramCopy]
    rw [ih]
    · have h0 := h 0 (by simp)
      have : ¬ x = a := by
        intro hx; apply h0; subst hx; simp
      simp [this]
    · intro i hi
      have := h (i + 1) (by simp; omega)
      intro hx; apply this
      rw [← hx]
      apply BitVec.eq_of_toNat_eq
      simp [BitVec.toNat_add, BitVec.toNat_ofNat]
      omega

theorem copyFrom_ram : ∀ (n : Nat) (s : Addr → Byte) (a : Addr),
    copyFromBus ramBus s a n = (some ((List.range n).map fun i => s (a + BitVec.ofNat 16 i)), s) := by
  intro n
  induction n with
  | zero => intro s a; rfl
  | succ n ih =>
    intro s a
    simp only [copyFromBus, ramBus]
    have := ih s (a + 1)
    simp only [ramBus] at this
    rw [this]
    simp only [List.range_succ_eq_map, List.map_cons, List.map_map]
    congr 2
    simp only [List.cons.injEq, BitVec.ofNat_eq_ofNat, BitVec.add_zero, true_and, List.map_inj_left, Function.comp]
    intro i _
    congr 1
    apply BitVec.eq_of_toNat_eq
    simp [BitVec.toNat_add, BitVec.toNat_ofNat]
    omega

/-- the i-th byte of the copied string is found at start + i (mod 2^16) -/
theorem ramCopy_get : ∀ (data : List Byte) (s : Addr → Byte) (a : Addr), data.length ≤ 65536 →
    ∀ (i : Nat) (hi : i < data.length), ramCopy s a data (a + BitVec.ofNat 16 i) = data[i] := by
  intro data
  induction data with
  | nil => intro s a _ i hi; simp at hi
  | cons b rest ih =>
    intro s a hl i hi
    simp only [ramCopy]
    cases i with
    | zero =>
      rw [ramCopy_other]
      · simp
      · intro j hj hx
        have := congrArg BitVec.toNat hx
        simp [BitVec.toNat_add, BitVec.toNat_ofNat] at this
        simp only [List.length_cons] at hl
        have ha := a.isLt
        omega
    | succ j =>
      have := ih (fun x => if x = a then b else s x) (a + 1) (by simp only [List.length_cons] at hl; omega) j
        (by simp only [List.length_cons] at hi; omega)
      simp only [List.getElem_cons_succ]
      rw [← this]
      congr 1
      apply BitVec.eq_of_toNat_eq
      simp [BitVec.toNat_add, BitVec.toNat_ofNat]
      omega

/-- set_memory then get_memory round-trips ARBITRARY byte strings at ARBITRARY 16-bit addresses WITH
    WRAP-AROUND past $FFFF (flat RAM; at most 65535 bytes: get_memory's length is a uint16) -/
theorem C12_memory_roundtrip (m : Machine (Addr → Byte)) (a : Addr) (data : List Byte) (hl : data.length ≤ 65535) :
    (apiStep ramBus (apiStep ramBus m (.setMemory a data)).2 (.getMemory a data.length)).1 = .bytes data := by
  simp only [apiStep, copyTo_ram, copyFrom_ram]
  congr 1
  apply List.ext_getElem
  · simp
  · intro i h1 h2
    simp only [List.getElem_map, List.getElem_range]
    exact ramCopy_get data m.mem a (by omega) i h2

/-- and set_memory touches nothing else: every cell outside start .. start+len-1 (mod 2^16) is unchanged -/
theorem C12_memory_frame (m : Machine (Addr → Byte)) (a x : Addr) (data : List Byte)
    (hx : ∀ i, i < data.length → a + BitVec.ofNat 16 i ≠ x) :
    (apiStep ramBus m (.setMemory a data)).2.mem x = m.mem x := by
  simp only [apiStep, copyTo_ram]
  exact ramCopy_other data m.mem a x hx

/-- write_byte / read_byte ARE the program's store and load: on every bus (every memory model, wrapped or
    not) the call performs exactly the bus operation an instruction storing/loading that address performs -/
theorem C12_same_bus (bus : Bus σ) (m : Machine σ) (a : Addr) (v : Byte) :
    (apiStep bus m (.writeByte a v)).2.mem = (bus.store m.mem a v m.regs).2 ∧
    (apiStep bus m (.readByte a)).2.mem = (bus.load m.mem a).2 := by
  constructor
  · simp only [apiStep]; cases h : bus.store m.mem a v m.regs with | mk res s' => cases res <;> rfl
  · simp only [apiStep]; cases h : bus.load m.mem a with | mk res s' => cases res <;> rfl

/-! ### what the program sees, cycles, globals -/

/-- the program runs on exactly the machine the script left: the run loop after an API call is the run
    loop on the API's result (there is no other state) — e.g. a program started after set_xreg(v) executes
    its first instruction with X = v -/
theorem C12_program_sees (tbl : Byte → Option H) (kc : CycleConsts) (model : CpuModel) (bus : Bus σ) (m : Machine σ) (v : Byte) :
    ((apiStep bus m (.setX v)).2.regs.x = v) ∧
    runLoop tbl kc model bus 1 (apiStep bus m (.setX v)).2 =
      runLoop tbl kc model bus 1 { m with regs := { m.regs with x := v } } := ⟨rfl, rfl⟩

/-- get_cycles after a (continued, `RunExt(pc, false)`) run returns the cycles consumed so far in this test:
    what the counter held before plus the cycles of the instructions executed since (C02) -/
theorem C12_cycles (tbl : Byte → Option H) (kc : CycleConsts) (model : CpuModel) (bus : Bus σ) (n : Nat) (start : Addr) (m : Machine σ) :
    (apiStep bus (runExt tbl kc model bus n start false m).2 .getCycles).1 =
      .num (m.cycles + pathCycles tbl kc model bus n { m.regs with pc := start } m.mem) := by
  simp only [apiStep, runExt]
  rw [runLoop_cycles]
  simp

/-- get_cycles from INSIDE a run (a trap function): every instruction — and so every trap call it makes — runs
    on a bus that was handed the live counter, and after a non-halting instruction the next one is handed
    the old value plus that instruction's cycles: the counter a trap function reads is the start value plus
    the cycles of all instructions completed before the one that called it. -/
theorem C12_cycles_live (tbl : Byte → Option H) (kc : CycleConsts) (model : CpuModel) (bus : Bus σ) (setCyc : Nat → σ → σ)
    (n : Nat) (m : Machine σ) (out : StepOut) (regs' : Regs) (mem' : σ)
    (h : (Impl.step tbl kc model m.regs).run bus (setCyc m.cycles m.mem) = (.ok (out, regs'), mem'))
    (hh : out.halt = false) :
    runLoopC tbl kc model bus setCyc (n + 1) m =
      runLoopC tbl kc model bus setCyc n { regs := regs', cycles := m.cycles + out.cycles, mem := mem' } := by
  simp [runLoopC, h, hh]

/-- and the loop with the published counter is the loop C02 talks about -/
theorem C12_same_loop (tbl : Byte → Option H) (kc : CycleConsts) (model : CpuModel) (bus : Bus σ) (n : Nat) (m : Machine σ) :
    runLoopC tbl kc model bus (fun _ s => s) n m = runLoop tbl kc model bus n m := runLoopC_id tbl kc model bus n m

/-- load_address and prog_len are the results of `Load`: header address and payload length -/
theorem C12_globals (k : Spec.MemKind) (s : MemState) (lo hi b : Byte) (rest : List Byte) (la pl : Nat) (s' : MemState)
    (hlen : (b :: rest).length ≤ 65535)
    (h : loadFile true k s (lo :: hi :: b :: rest) = (.ok la pl, s')) :
    la = hi.toNat * 256 + lo.toNat ∧ pl = (b :: rest).length := by
  simp only [loadFile] at h
  split at h
  · cases h
  · cases h
    constructor
    · simp [BitVec.toNat_add, BitVec.toNat_mul]
      have := lo.isLt; have := hi.isLt; omega
    · omega

-- non-vacuity / examples
example : getFlags 0xC3 = "NV----ZC".toList := by decide
example : setFlags "N-----ZC".toList = some 0x83 := by decide
example : setFlags "CZIDBVN".toList = some 0xDF := by decide   -- letters count wherever they stand
example : setFlags "NV-BDIZC-".toList = none := by decide       -- nine characters: the Go code panics

end Verif.Props.C12
