import Verif.Impl.Wrapper
/-
  C16 — F256 math coprocessor results always equal arithmetic on the current operands.
  Stated on plain 64K RAM (the property's hypothesis: the 24-byte register block lies within one page
  of plain RAM); the differential runs the coprocessor on every machine, all flag values, many bases.
-/
namespace Verif.Props.C16
open Verif Verif.Impl Verif.Spec

abbrev K : MemKind := .linear 65536

theorem lin_cell (d : Cell → Byte) (a : Addr) : calcIndex K d a = some (.main, a.toNat) := by
  simp [calcIndex, linearCalcIndex, idx]; exact a.isLt

theorem lin_loadB (s : MemState) (a : Addr) :
    loadB K s a = some (s.data (.main, a.toNat), { s with stat := upd s.stat (.main, a.toNat) (s.stat (.main, a.toNat) + 1) }) := by
  simp [loadB, load, loadCell, lin_cell]

theorem lin_storeB (s : MemState) (a : Addr) (v : Byte) :
    storeB K s a v = some { s with stat := upd s.stat (.main, a.toNat) (s.stat (.main, a.toNat) + 1),
                                   data := upd s.data (.main, a.toNat) v } := by
  simp [storeB, store, storeCell, lin_cell]

def C (a : Addr) : Cell := (.main, a.toNat)

/-- contents after a multiplier write, explicitly -/
def mulData (base : Addr) (d : Cell → Byte) (a : Addr) (v : Byte) : Cell → Byte :=
  let d0 := upd d (C a) v
  let res := ((d0 (C (base + 1))).toNat * 256 + (d0 (C base)).toNat) * ((d0 (C (base + 3))).toNat * 256 + (d0 (C (base + 2))).toNat)
  upd (upd (upd (upd d0 (C (base + 0x10)) (BitVec.ofNat 8 (res % 256))) (C (base + 0x10 + 1)) (BitVec.ofNat 8 (res / 256 % 256)))
    (C (base + 0x10 + 2)) (BitVec.ofNat 8 (res / 65536 % 256))) (C (base + 0x10 + 3)) (BitVec.ofNat 8 (res / 16777216 % 256))

theorem mul_data (base : Addr) (s : MemState) (a : Addr) (v : Byte) :
    ∃ s', writeUMul K base s a v = some s' ∧ s'.data = mulData base s.data a v := by
  unfold writeUMul
  simp only [lin_storeB, lin_loadB, bind, Option.bind]
  exact ⟨_, rfl, rfl⟩

/-- the register block lies within one page -/
def InPage (base : Addr) : Prop := base.toNat % 256 + 0x17 ≤ 255

theorem offN (base : Addr) (h : InPage base) (n : Nat) (hn : n ≤ 0x17) (x : Addr) (hx : x = BitVec.ofNat 16 n) :
    C (base + x) = (.main, base.toNat + n) := by
  subst hx
  simp only [C, BitVec.toNat_add, BitVec.toNat_ofNat]
  unfold InPage at h
  have := base.isLt
  congr 1
  omega

theorem cell_ne (a b : Nat) (h : a ≠ b) : ((Region.main, a) : Cell) ≠ (Region.main, b) := by
  intro hh; exact h (Prod.mk.inj hh).2

/-- the bytes of a number, little endian -/
def byteAt (x j : Nat) : Byte := BitVec.ofNat 8 (x / 256 ^ j % 256)

/-- reading a chain of four updates at distinct cells -/
theorem upd4 (f : Cell → Byte) (k0 k1 k2 k3 : Cell) (w0 w1 w2 w3 : Byte)
    (h01 : k0 ≠ k1) (h02 : k0 ≠ k2) (h03 : k0 ≠ k3) (h12 : k1 ≠ k2) (h13 : k1 ≠ k3) (h23 : k2 ≠ k3) :
    let g := upd (upd (upd (upd f k0 w0) k1 w1) k2 w2) k3 w3
    g k0 = w0 ∧ g k1 = w1 ∧ g k2 = w2 ∧ g k3 = w3 ∧ ∀ c, c ≠ k0 → c ≠ k1 → c ≠ k2 → c ≠ k3 → g c = f c := by
  intro g
  refine ⟨?_, ?_, ?_, ?_, ?_⟩
  · simp [g, upd, h01, h02, h03]
  · simp [g, upd, h12, h13]
  · simp [g, upd, h23]
  · simp [g, upd]
  · intro c a b c' d; simp [g, upd, a, b, c', d]

/-- the product the multiplier writes: computed from the contents AFTER the operand byte was stored -/
def mulRes (base : Addr) (d0 : Cell → Byte) : Nat :=
  ((d0 (C (base + 1))).toNat * 256 + (d0 (C base)).toNat) * ((d0 (C (base + 3))).toNat * 256 + (d0 (C (base + 2))).toNat)

theorem mulData_eq (base : Addr) (d : Cell → Byte) (a : Addr) (v : Byte) :
    mulData base d a v =
      upd (upd (upd (upd (upd d (C a) v) (C (base + 0x10)) (byteAt (mulRes base (upd d (C a) v)) 0))
        (C (base + 0x10 + 1)) (byteAt (mulRes base (upd d (C a) v)) 1))
        (C (base + 0x10 + 2)) (byteAt (mulRes base (upd d (C a) v)) 2))
        (C (base + 0x10 + 3)) (byteAt (mulRes base (upd d (C a) v)) 3) := by
  simp [mulData, mulRes, byteAt]

/-- C16_mul on contents: with the register block inside one page, after a store of `v` to operand byte
    i (0..3): that byte holds `v`; the four result bytes hold the little-endian 32-bit product of the two
    16-bit operands AS THEY ARE AFTER THE STORE (the result registers do not overlap the operands, so
    "after the store" and "at the end" coincide); every other byte is unchanged -/
theorem C16_mul_data (base : Addr) (hp : InPage base) (d : Cell → Byte) (i : Nat) (hi : i < 4) (v : Byte) :
    let d' := mulData base d (base + BitVec.ofNat 16 i) v
    let A := base.toNat
    let op (j : Nat) := (d' (.main, A + j + 1)).toNat * 256 + (d' (.main, A + j)).toNat
    d' (.main, A + i) = v ∧
    (∀ j, j < 4 → d' (.main, A + 0x10 + j) = byteAt (op 0 * op 2) j) ∧
    (∀ c, c ≠ (.main, A + i) → (∀ j, j < 4 → c ≠ (.main, A + 0x10 + j)) → d' c = d c) := by
  intro d' A op
  have c0 : C base = (.main, A + 0) := by simpa using offN base hp 0 (by omega) 0 rfl
  have c1 : C (base + 1) = (.main, A + 1) := offN base hp 1 (by omega) 1 rfl
  have c2 : C (base + 2) = (.main, A + 2) := offN base hp 2 (by omega) 2 rfl
  have c3 : C (base + 3) = (.main, A + 3) := offN base hp 3 (by omega) 3 rfl
  have c16 : C (base + 0x10) = (.main, A + 16) := offN base hp 16 (by omega) 0x10 rfl
  have c17 : C (base + 0x10 + 1) = (.main, A + 17) := by
    rw [BitVec.add_assoc]; exact offN base hp 17 (by omega) _ rfl
  have c18 : C (base + 0x10 + 2) = (.main, A + 18) := by
    rw [BitVec.add_assoc]; exact offN base hp 18 (by omega) _ rfl
  have c19 : C (base + 0x10 + 3) = (.main, A + 19) := by
    rw [BitVec.add_assoc]; exact offN base hp 19 (by omega) _ rfl
  have ci : C (base + BitVec.ofNat 16 i) = (.main, A + i) := offN base hp i (by omega) (BitVec.ofNat 16 i) rfl
  have hd' : d' = mulData base d (base + BitVec.ofNat 16 i) v := rfl
  rw [mulData_eq, c16, c17, c18, c19, ci] at hd'
  generalize hR : mulRes base (upd d (.main, A + i) v) = R at hd'
  have h4 := upd4 (upd d (.main, A + i) v) (.main, A + 16) (.main, A + 17) (.main, A + 18) (.main, A + 19)
    (byteAt R 0) (byteAt R 1) (byteAt R 2) (byteAt R 3)
    (cell_ne _ _ (by omega)) (cell_ne _ _ (by omega)) (cell_ne _ _ (by omega)) (cell_ne _ _ (by omega))
    (cell_ne _ _ (by omega)) (cell_ne _ _ (by omega))
  simp only at h4
  rw [← hd'] at h4
  obtain ⟨r0, r1, r2, r3, rest⟩ := h4
  have hop : ∀ j, j < 4 → d' (.main, A + j) = upd d (.main, A + i) v (.main, A + j) := fun j hj =>
    rest _ (cell_ne _ _ (by omega)) (cell_ne _ _ (by omega)) (cell_ne _ _ (by omega)) (cell_ne _ _ (by omega))
  have hRop : R = op 0 * op 2 := by
    rw [← hR]
    simp only [mulRes, op, c0, c1, c2, c3]
    rw [show A + 0 + 1 = A + 1 from rfl, show A + 2 + 1 = A + 3 from rfl, hop 0 (by omega), hop 1 (by omega),
      hop 2 (by omega), hop 3 (by omega)]
  refine ⟨?_, ?_, ?_⟩
  · rw [hop i hi]; simp [upd]
  · intro j hj
    rw [← hRop]
    have : j = 0 ∨ j = 1 ∨ j = 2 ∨ j = 3 := by omega
    rcases this with h | h | h | h <;> subst h
    · exact r0
    · exact r1
    · exact r2
    · exact r3
  · intro c hc hcj
    rw [rest c (hcj 0 (by omega)) (hcj 1 (by omega)) (hcj 2 (by omega)) (hcj 3 (by omega))]
    simp [upd, hc]

/-- divisor (base+4) and numerator (base+6) as the divider reads them -/
def divDen (base : Addr) (d0 : Cell → Byte) : Nat := (d0 (C (base + 5))).toNat * 256 + (d0 (C (base + 4))).toNat
def divNum (base : Addr) (d0 : Cell → Byte) : Nat := (d0 (C (base + 7))).toNat * 256 + (d0 (C (base + 6))).toNat

/-- contents after a divider write, explicitly: divisor and numerator are read AFTER the operand byte was
    stored; a zero divisor leaves the previous results -/
def divData (base : Addr) (d : Cell → Byte) (a : Addr) (v : Byte) : Cell → Byte :=
  if divDen base (upd d (C a) v) ≠ 0 then
    upd (upd (upd (upd (upd d (C a) v)
      (C (base + 0x14)) (BitVec.ofNat 8 (divNum base (upd d (C a) v) / divDen base (upd d (C a) v) % 256)))
      (C (base + 0x15)) (BitVec.ofNat 8 (divNum base (upd d (C a) v) / divDen base (upd d (C a) v) / 256 % 256)))
      (C (base + 0x16)) (BitVec.ofNat 8 (divNum base (upd d (C a) v) % divDen base (upd d (C a) v) % 256)))
      (C (base + 0x17)) (BitVec.ofNat 8 (divNum base (upd d (C a) v) % divDen base (upd d (C a) v) / 256 % 256))
  else upd d (C a) v

theorem div_data (base : Addr) (s : MemState) (a : Addr) (v : Byte) :
    ∃ s', writeUDiv K base s a v = some s' ∧ s'.data = divData base s.data a v := by
  unfold writeUDiv
  simp only [lin_storeB, lin_loadB, bind, Option.bind]
  by_cases h : divDen base (upd s.data (C a) v) ≠ 0
  · have h' : ¬ ((upd s.data (.main, a.toNat) v (.main, (base + 5).toNat)).toNat * 256 +
        (upd s.data (.main, a.toNat) v (.main, (base + 4).toNat)).toNat = 0) := h
    refine ⟨_, by rw [if_pos h'], ?_⟩
    unfold divData; rw [if_pos h]; rfl
  · have h' : ¬ ¬ ((upd s.data (.main, a.toNat) v (.main, (base + 5).toNat)).toNat * 256 +
        (upd s.data (.main, a.toNat) v (.main, (base + 4).toNat)).toNat = 0) := h
    refine ⟨_, by rw [if_neg h'], ?_⟩
    unfold divData; rw [if_neg h]; rfl

/-- C16_div on contents: after a store of `v` to divider operand byte i (4..7): with a non-zero divisor
    base+$14/15 = quotient and base+$16/17 = remainder (little endian, 16 bit) of the numerator (base+6) by
    the divisor (base+4) as they are after the store; with a zero divisor only the operand byte changes -/
theorem C16_div_data (base : Addr) (hp : InPage base) (d : Cell → Byte) (i : Nat) (hi4 : 4 ≤ i) (hi : i < 8) (v : Byte) :
    let d' := divData base d (base + BitVec.ofNat 16 i) v
    let A := base.toNat
    let den := (d' (.main, A + 5)).toNat * 256 + (d' (.main, A + 4)).toNat
    let num := (d' (.main, A + 7)).toNat * 256 + (d' (.main, A + 6)).toNat
    d' (.main, A + i) = v ∧
    (den ≠ 0 → d' (.main, A + 0x14) = byteAt (num / den) 0 ∧ d' (.main, A + 0x15) = byteAt (num / den) 1 ∧
               d' (.main, A + 0x16) = byteAt (num % den) 0 ∧ d' (.main, A + 0x17) = byteAt (num % den) 1) ∧
    (den = 0 → ∀ c, c ≠ (.main, A + i) → d' c = d c) ∧
    (∀ c, c ≠ (.main, A + i) → (∀ j, j < 4 → c ≠ (.main, A + 0x14 + j)) → d' c = d c) := by
  intro d' A den num
  have c4 : C (base + 4) = (.main, A + 4) := offN base hp 4 (by omega) 4 rfl
  have c5 : C (base + 5) = (.main, A + 5) := offN base hp 5 (by omega) 5 rfl
  have c6 : C (base + 6) = (.main, A + 6) := offN base hp 6 (by omega) 6 rfl
  have c7 : C (base + 7) = (.main, A + 7) := offN base hp 7 (by omega) 7 rfl
  have c20 : C (base + 0x14) = (.main, A + 20) := offN base hp 20 (by omega) 0x14 rfl
  have c21 : C (base + 0x15) = (.main, A + 21) := offN base hp 21 (by omega) 0x15 rfl
  have c22 : C (base + 0x16) = (.main, A + 22) := offN base hp 22 (by omega) 0x16 rfl
  have c23 : C (base + 0x17) = (.main, A + 23) := offN base hp 23 (by omega) 0x17 rfl
  have ci : C (base + BitVec.ofNat 16 i) = (.main, A + i) := offN base hp i (by omega) (BitVec.ofNat 16 i) rfl
  have hd' : d' = divData base d (base + BitVec.ofNat 16 i) v := rfl
  unfold divData at hd'
  rw [ci, c20, c21, c22, c23] at hd'
  generalize hD : divDen base (upd d (.main, A + i) v) = D at hd'
  generalize hN : divNum base (upd d (.main, A + i) v) = N at hd'
  by_cases hz : D ≠ 0
  · rw [if_pos hz] at hd'
    have h4 := upd4 (upd d (.main, A + i) v) (.main, A + 20) (.main, A + 21) (.main, A + 22) (.main, A + 23)
      (BitVec.ofNat 8 (N / D % 256)) (BitVec.ofNat 8 (N / D / 256 % 256)) (BitVec.ofNat 8 (N % D % 256))
      (BitVec.ofNat 8 (N % D / 256 % 256))
      (cell_ne _ _ (by omega)) (cell_ne _ _ (by omega)) (cell_ne _ _ (by omega)) (cell_ne _ _ (by omega))
      (cell_ne _ _ (by omega)) (cell_ne _ _ (by omega))
    simp only at h4
    rw [← hd'] at h4
    obtain ⟨r0, r1, r2, r3, rest⟩ := h4
    have hop : ∀ j, j < 8 → d' (.main, A + j) = upd d (.main, A + i) v (.main, A + j) := fun j hj =>
      rest _ (cell_ne _ _ (by omega)) (cell_ne _ _ (by omega)) (cell_ne _ _ (by omega)) (cell_ne _ _ (by omega))
    have hden : den = D := by
      simp only [den]; rw [hop 5 (by omega), hop 4 (by omega), ← hD]; simp only [divDen, c4, c5]
    have hnum : num = N := by
      simp only [num]; rw [hop 7 (by omega), hop 6 (by omega), ← hN]; simp only [divNum, c6, c7]
    refine ⟨?_, ?_, ?_, ?_⟩
    · rw [hop i hi]; simp [upd]
    · intro _
      rw [hden, hnum]
      refine ⟨?_, ?_, ?_, ?_⟩
      · rw [r0]; simp [byteAt]
      · rw [r1]; simp [byteAt]
      · rw [r2]; simp [byteAt]
      · rw [r3]; simp [byteAt]
    · intro h0; rw [hden] at h0; exact absurd h0 hz
    · intro c hc hcj
      rw [rest c (hcj 0 (by omega)) (hcj 1 (by omega)) (hcj 2 (by omega)) (hcj 3 (by omega))]
      simp [upd, hc]
  · rw [if_neg hz] at hd'
    have hD0 : D = 0 := by omega
    have hden : den = D := by
      simp only [den]; rw [hd', ← hD]; simp only [divDen, c4, c5]
    refine ⟨?_, ?_, ?_, ?_⟩
    · rw [hd']; simp [upd]
    · intro h; rw [hden] at h; exact absurd hD0 h
    · intro _ c hc; rw [hd']; simp [upd, hc]
    · intro c hc _; rw [hd']; simp [upd, hc]

/-- C16_enable: a unit reacts exactly to its own four operand bytes and only when its flag bit is set
    (UMul = 1, UDiv = 4): the multiplier to base..base+3, the divider to base+4..base+7 -/
theorem C16_enable (flags : Byte) (base a : Addr) :
    (coprocSpecial flags base a = some false ↔ ((flags &&& 1) != 0 && decide (a - base < 4)) = true) ∧
    (coprocSpecial flags base a = some true ↔
      ((flags &&& 1) != 0 && decide (a - base < 4)) = false ∧
      ((flags &&& 4) != 0 && decide (4 ≤ a - base) && decide (a - base < 8)) = true) := by
  unfold coprocSpecial
  cases h1 : ((flags &&& 1) != 0 && decide (a - base < 4)) with
  | true => simp
  | false =>
    cases h2 : ((flags &&& 4) != 0 && decide (4 ≤ a - base) && decide (a - base < 8)) with
    | true => simp
    | false => simp

/-- C16_other: a store to any other address — the result registers included — is a plain store and
    triggers nothing -/
theorem C16_other (k : MemKind) (flags : Byte) (base : Addr) (s : MemState) (a : Addr) (v : Byte)
    (h : coprocSpecial flags base a = none) : coprocStore k flags base s a v = storeB k s a v := by
  unfold coprocStore
  split
  · rw [h]
  · rfl

/-- the stores of the coprocessor layer on plain RAM, for the property statement -/
theorem C16_mul (flags : Byte) (base : Addr) (s : MemState) (a : Addr) (v : Byte)
    (h : coprocSpecial flags base a = some false) (hpage : (a &&& 0xFF00) = (base &&& 0xFF00)) :
    ∃ s', coprocStore K flags base s a v = some s' ∧ s'.data = mulData base s.data a v := by
  unfold coprocStore wrapIntercepts
  simp only [hpage, bne_self_eq_false, Bool.false_eq_true, if_false, h, Option.isSome_some, if_true]
  exact mul_data base s a v

theorem C16_div (flags : Byte) (base : Addr) (s : MemState) (a : Addr) (v : Byte)
    (h : coprocSpecial flags base a = some true) (hpage : (a &&& 0xFF00) = (base &&& 0xFF00)) :
    ∃ s', coprocStore K flags base s a v = some s' ∧ s'.data = divData base s.data a v := by
  unfold coprocStore wrapIntercepts
  simp only [hpage, bne_self_eq_false, Bool.false_eq_true, if_false, h, Option.isSome_some, if_true]
  exact div_data base s a v

-- non-vacuity: $DE00, 300 × 500 = 150000 = $000249F0; 1000 / 7 = 142 rest 6
example : InPage 0xDE00 := by unfold InPage; decide

end Verif.Props.C16
