import Verif.Proofs.MemDecode
import Verif.Proofs.MemLinear
import Verif.Props.C04
/-
  C05 — Linear view: bank-independent bijection onto memory, coherent with the CPU view.
-/
namespace Verif.Props.C05
open Verif Verif.Impl Verif.Spec Verif.Props.C04

/-- the linear view of the code is the README layout, for every 32-bit linear address and every
    banking state, on every machine -/
theorem C05_layout (k : MemKind) (hk : Machine k) (d : Cell → Byte) (l : BitVec 32) :
    calcLongIndex k d l = linDoc k (nat d) l.toNat := by
  cases k with
  | linear n => exact linear_long n d l
  | x16 b => exact x16_long b hk d l
  | geo sb => exact geo_long sb hk d l
  | f256 n => exact f256_long n hk d l

/-- bank independence: outside the F256 aliases 0..15 the cell behind a linear address does not
    depend on the contents (hence not on any banking register) -/
theorem C05_bank_indep (k : MemKind) (d d' : Cell → Nat) (l : Nat) (hp : plainLin k l) :
    linDoc k d l = linDoc k d' l := by
  cases k with
  | linear n => exact absurd hp (by simp [plainLin])
  | x16 b => rfl
  | geo sb => rfl
  | f256 n =>
    simp only [plainLin] at hp
    have : ¬ l < 16 := by omega
    simp only [linDoc, this, if_false]

/-- every linear address names at most one physical byte and two addresses never name the same one
    (injective), under any two banking states -/
theorem C05_inj (k : MemKind) (d d' : Cell → Nat) (l l' : Nat) (c : Cell) (hp : plainLin k l) (hp' : plainLin k l')
    (h : linDoc k d l = some c) (h' : linDoc k d' l' = some c) : l = l' := by
  have h1 := (linDoc_toLin k d l c hp h).1
  have h2 := (linDoc_toLin k d' l' c hp' h').1
  rw [h1] at h2
  exact Option.some.inj h2

/-- every physical byte that has a linear address (all of them, except the F256 control registers, LUTs
    and — as the property notes — the sixteen aliased system bytes) is reached, exactly at the README
    address (surjective) -/
theorem C05_surj (k : MemKind) (d : Cell → Nat) (c : Cell) (l : Nat) (hv : validCell k c)
    (h : toLin k c = some l) (hp : plainLin k l) : linDoc k d l = some c ∧ l < linTotal k := by
  have h1 := toLin_linDoc k d l c hv h hp
  exact ⟨h1, (linDoc_toLin k d l c hp h1).2.2⟩

/-- addresses past the end are a fault -/
theorem C05_fault (k : MemKind) (d : Cell → Nat) (l : Nat) (hp : plainLin k l) (h : linTotal k ≤ l) :
    linDoc k d l = none := by
  cases hc : linDoc k d l with
  | none => rfl
  | some c =>
    have := (linDoc_toLin k d l c hp hc).2.2
    omega

/-- coherence: the byte the CPU view reaches at address `a` under banking state `d` is the byte the
    linear view reaches at the README address of that byte, under ANY banking state `d'` -/
theorem C05_coherent (k : MemKind) (d d' : Cell → Nat) (a : Nat) (c : Cell) (l : Nat) (ha : a < 65536)
    (hd : ∀ c, d c < 256) (h : docMap k d a = some c) (hl : toLin k c = some l) (hp : plainLin k l) :
    linDoc k d' l = some c :=
  toLin_linDoc k d' l c (C04_inbounds k d a c ha hd h) hl hp

/-- so a write through either view is visible through the other: after a linear store to the README
    address of the byte behind CPU address `a`, a CPU load of `a` returns the stored value -/
theorem C05_write_lin_read_cpu (k : MemKind) (hk : Machine k) (s : MemState) (a : Addr) (l : BitVec 32) (v : Byte)
    (c : Cell) (hc : calcIndex k s.data a = some c) (hl : calcLongIndex k s.data l = some c)
    (hstable : calcIndex k (upd s.data c v) a = some c) :
    (load k (storeLarge k s l v).2 a).1 = some v := by
  simp only [storeLarge, storeCell, hl, load, loadCell, hstable, upd]
  simp

-- non-vacuity: X16 512K, CPU address $A123 with RAM bank 3 is linear $A000 + 3*8192 + $123
example : docMap (.x16 64) (fun c => if c = (.main, 0) then 3 else 0) 0xA123 = some (.ram, 3 * 8192 + 0x123) ∧
    toLin (.x16 64) (.ram, 3 * 8192 + 0x123) = some (0xA000 + 3 * 8192 + 0x123) := by decide

end Verif.Props.C05
