import Verif.Props.C16
import Verif.Facts.CoprocCode
/-
  C16 for the code itself.  `GenCoproc.WriteUMul` / `GenCoproc.WriteUDiv` are the Lean translations of the two
  write handlers of memory/f256_coproc.go, regenerated from the Go source on every run (Generated/CoprocCode.lean);
  `Facts/CoprocCode.lean` proves that, run on any memory model, they are the model's `writeUMul` / `writeUDiv`.
  Hence the arithmetic statements of C16 hold of the translated code: on plain 64K RAM, after the translated
  handler ran for a store of `v` to `a`, the memory is exactly `mulData` / `divData` — the stored byte, then the
  32-bit product (resp. quotient and remainder, unless the divisor is zero) of the operands as they are after
  that store, and nothing else (`C16_mul_data`, `C16_div_data` say what those contents are).
-/
namespace Verif.Props.C16
open Verif Verif.Impl Verif.Spec Verif.Facts.CoprocCode

/-- the translated multiplier handler, run on plain RAM, never faults and leaves exactly `mulData` -/
theorem C16_code_mul (base : Addr) (s : MemState) (a : Addr) (v : Byte) :
    ∃ s', runMem K (GenCoproc.WriteUMul base a v) s = some s' ∧ s'.data = mulData base s.data a v := by
  rw [WriteUMul_code]; exact mul_data base s a v

/-- the translated divider handler, run on plain RAM, never faults and leaves exactly `divData` -/
theorem C16_code_div (base : Addr) (s : MemState) (a : Addr) (v : Byte) :
    ∃ s', runMem K (GenCoproc.WriteUDiv base a v) s = some s' ∧ s'.data = divData base s.data a v := by
  rw [WriteUDiv_code]; exact div_data base s a v

/-- on every memory model the translated handlers are the model's (the tie itself, audited) -/
theorem C16_code_is_model (k : MemKind) (base : Addr) (s : MemState) (a : Addr) (v : Byte) :
    runMem k (GenCoproc.WriteUMul base a v) s = writeUMul k base s a v ∧
    runMem k (GenCoproc.WriteUDiv base a v) s = writeUDiv k base s a v :=
  ⟨WriteUMul_code k base s a v, WriteUDiv_code k base s a v⟩

end Verif.Props.C16
