import Verif.Impl.Labels
import Verif.Generated.Misc
/-
  C19 — Label files are parsed completely and exactly, or rejected.
  The recognisers are proved EQUAL to the grammar of well-formed definition lines (both directions),
  so every line that is not well-formed is rejected; file level: first error aborts, labels per address in
  file order.  Regenerated facts: the regex literals and that the scanner error is consulted.
-/
namespace Verif.Props.C19
open Verif.Impl Verif.Generated

theorem span_prefix (p : Char → Bool) : ∀ (xs ys : List Char), (∀ c ∈ xs, p c = true) →
    (ys = [] ∨ ∃ c t, ys = c :: t ∧ p c = false) →
    (xs ++ ys).takeWhile p = xs ∧ (xs ++ ys).dropWhile p = ys := by
  intro xs
  induction xs with
  | nil =>
    intro ys _ hy
    rcases hy with h | ⟨c, t, h, hc⟩
    · subst h; simp
    · subst h; simp [List.takeWhile, List.dropWhile, hc]
  | cons x xs ih =>
    intro ys hx hy
    have hpx : p x = true := hx x (by simp)
    have := ih ys (fun c hc => hx c (by simp [hc])) hy
    simp [List.takeWhile, List.dropWhile, hpx, this.1, this.2]

theorem all_takeWhile (p : Char → Bool) : ∀ (l : List Char), ∀ c ∈ l.takeWhile p, p c = true := by
  intro l
  induction l with
  | nil => intro c hc; simp at hc
  | cons x xs ih =>
    intro c hc
    simp only [List.takeWhile] at hc
    cases hp : p x with
    | false => rw [hp] at hc; simp at hc
    | true =>
      rw [hp] at hc
      simp only [List.mem_cons] at hc
      rcases hc with h | h
      · subst h; exact hp
      · exact ih c h

/-- a line is its three leading spans followed by what is left -/
theorem decomp3 (p1 p2 p3 : Char → Bool) (line : List Char) :
    line = line.takeWhile p1 ++ (line.dropWhile p1).takeWhile p2 ++
      (((line.dropWhile p1).dropWhile p2).takeWhile p3) ++ (((line.dropWhile p1).dropWhile p2).dropWhile p3) := by
  have e1 := List.takeWhile_append_dropWhile (p := p1) (l := line)
  have e2 := List.takeWhile_append_dropWhile (p := p2) (l := line.dropWhile p1)
  have e3 := List.takeWhile_append_dropWhile (p := p3) (l := (line.dropWhile p1).dropWhile p2)
  calc line = line.takeWhile p1 ++ line.dropWhile p1 := e1.symm
    _ = line.takeWhile p1 ++ ((line.dropWhile p1).takeWhile p2 ++ (line.dropWhile p1).dropWhile p2) := by rw [e2]
    _ = line.takeWhile p1 ++ ((line.dropWhile p1).takeWhile p2 ++
          (((line.dropWhile p1).dropWhile p2).takeWhile p3 ++ ((line.dropWhile p1).dropWhile p2).dropWhile p3)) := by rw [e3]
    _ = _ := by simp [List.append_assoc]

theorem dropWhile_head (p : Char → Bool) (l : List Char) :
    l.dropWhile p = [] ∨ ∃ c t, l.dropWhile p = c :: t ∧ p c = false := by
  cases h : l.dropWhile p with
  | nil => exact Or.inl rfl
  | cons c t =>
    refine Or.inr ⟨c, t, rfl, ?_⟩
    have := List.head_dropWhile_not (p := p) (l := l) (by rw [h]; simp)
    simpa [h] using this

/-- the grammar of a value field: 1..4 hexadecimal digits, then the end of the line or a white-space
    character followed by an arbitrary comment -/
structure HexField (r : List Char) (v : Nat) : Prop where
  split : ∃ digs tl, r = digs ++ tl ∧ 1 ≤ digs.length ∧ digs.length ≤ 4 ∧ (∀ c ∈ digs, isHex c = true) ∧
    tailOk tl = true ∧ v = hexVal digs

theorem ws_not_hex (c : Char) (h : isWs c = true) : isHex c = false := by
  simp only [isWs, Bool.or_eq_true, beq_iff_eq] at h
  rcases h with (((h | h) | h) | h) | h <;> subst h <;> decide

theorem ws_not_word (c : Char) (h : isWs c = true) : isWord c = false := by
  simp only [isWs, Bool.or_eq_true, beq_iff_eq] at h
  rcases h with (((h | h) | h) | h) | h <;> subst h <;> decide

theorem ws_not_digit (c : Char) (h : isWs c = true) : isDigit10 c = false := by
  simp only [isWs, Bool.or_eq_true, beq_iff_eq] at h
  rcases h with (((h | h) | h) | h) | h <;> subst h <;> decide

theorem tail_head (tl : List Char) (h : tailOk tl = true) (p : Char → Bool) (hp : ∀ c, isWs c = true → p c = false) :
    tl = [] ∨ ∃ c t, tl = c :: t ∧ p c = false := by
  cases tl with
  | nil => exact Or.inl rfl
  | cons c t =>
    simp only [tailOk, Bool.and_eq_true] at h
    exact Or.inr ⟨c, t, rfl, hp c h.1⟩

/-- `hexTail` accepts exactly the hex value fields -/
theorem hexTail_iff (r : List Char) (v : Nat) : hexTail r = some v ↔ HexField r v := by
  constructor
  · intro h
    unfold hexTail at h
    by_cases hc : 1 ≤ (r.takeWhile isHex).length ∧ (r.takeWhile isHex).length ≤ 4 ∧ tailOk (r.dropWhile isHex) = true
    · rw [if_pos hc] at h
      cases h
      exact ⟨r.takeWhile isHex, r.dropWhile isHex, (List.takeWhile_append_dropWhile).symm, hc.1, hc.2.1,
        all_takeWhile _ _, hc.2.2, rfl⟩
    · rw [if_neg hc] at h; cases h
  · rintro ⟨digs, tl, hr, h1, h2, h3, h4, h5⟩
    have := span_prefix isHex digs tl h3 (tail_head tl h4 isHex ws_not_hex)
    unfold hexTail
    rw [hr, this.1, this.2]
    simp [h1, h2, h4, h5]

theorem stripPrefix_iff : ∀ (p r rest : List Char), stripPrefix p r = some rest ↔ r = p ++ rest := by
  intro p
  induction p with
  | nil => intro r rest; simp [stripPrefix, eq_comm]
  | cons x xs ih =>
    intro r rest
    cases r with
    | nil => simp [stripPrefix]
    | cons c cs =>
      simp only [stripPrefix]
      by_cases h : x = c
      · subst h; simp [ih]
      · simp only [h, if_false, List.cons_append, List.cons.injEq]
        constructor
        · intro hh; cases hh
        · rintro ⟨hh, _⟩; exact absurd hh.symm h

/-- a well-formed ACME definition line -/
structure AcmeLine (line : List Char) (v : Nat) (label : List Char) : Prop where
  split : ∃ lead mid rest, line = lead ++ label ++ mid ++ ['=', ' ', '$'] ++ rest ∧
    lead ≠ [] ∧ (∀ c ∈ lead, isWs c = true) ∧ label ≠ [] ∧ (∀ c ∈ label, isWord c = true) ∧
    mid ≠ [] ∧ (∀ c ∈ mid, isWs c = true) ∧ HexField rest v

theorem word_not_ws (c : Char) (h : isWord c = true) : isWs c = false := by
  cases hw : isWs c with
  | false => rfl
  | true => rw [ws_not_word c hw] at h; cases h

/-- C19 (ACME): the parser accepts a line and returns (value, label) IF AND ONLY IF the line is a
    well-formed definition of that label with that value — every other line is rejected -/
theorem C19_acme_exact (line : List Char) (v : Nat) (label : List Char) :
    parseAcme line = some (v, label) ↔ AcmeLine line v label := by
  constructor
  · intro h
    unfold parseAcme at h
    simp only at h
    by_cases hc : ((line.takeWhile isWs).isEmpty || ((line.dropWhile isWs).takeWhile isWord).isEmpty ||
        (((line.dropWhile isWs).dropWhile isWord).takeWhile isWs).isEmpty) = true
    · rw [if_pos hc] at h; cases h
    · rw [if_neg hc] at h
      simp only [Bool.or_eq_true, not_or, Bool.not_eq_true, List.isEmpty_eq_false_iff] at hc
      cases hs : stripPrefix ['=', ' ', '$'] (((line.dropWhile isWs).dropWhile isWord).dropWhile isWs) with
      | none => rw [hs] at h; cases h
      | some r4 =>
        rw [hs] at h
        simp only at h
        cases hh : hexTail r4 with
        | none => rw [hh] at h; cases h
        | some v' =>
          rw [hh] at h
          simp only [Option.map, Option.some.injEq, Prod.mk.injEq] at h
          obtain ⟨hv, hl⟩ := h
          subst hv
          have hr3 := (stripPrefix_iff _ _ _).1 hs
          refine ⟨⟨line.takeWhile isWs, ((line.dropWhile isWs).dropWhile isWord).takeWhile isWs, r4, ?_, hc.1.1,
            all_takeWhile _ _, ?_, ?_, hc.2, all_takeWhile _ _, (hexTail_iff r4 v').1 hh⟩⟩
          · rw [← hl]
            have := decomp3 isWs isWord isWs line
            rw [hr3] at this
            exact this.trans (by simp [List.append_assoc])
          · rw [← hl]; exact hc.1.2
          · rw [← hl]; exact all_takeWhile _ _
  · rintro ⟨lead, mid, rest, hline, hl1, hl2, hb1, hb2, hm1, hm2, hf⟩
    obtain ⟨b0, bt, hb⟩ := List.exists_cons_of_ne_nil hb1
    obtain ⟨m0, mt, hm⟩ := List.exists_cons_of_ne_nil hm1
    have s1 := span_prefix isWs lead (label ++ mid ++ ['=', ' ', '$'] ++ rest) hl2
      (Or.inr ⟨b0, bt ++ mid ++ ['=', ' ', '$'] ++ rest, by rw [hb]; simp, word_not_ws b0 (hb2 b0 (by rw [hb]; simp))⟩)
    have s2 := span_prefix isWord label (mid ++ ['=', ' ', '$'] ++ rest) hb2
      (Or.inr ⟨m0, mt ++ ['=', ' ', '$'] ++ rest, by rw [hm]; simp, ws_not_word m0 (hm2 m0 (by rw [hm]; simp))⟩)
    have s3 := span_prefix isWs mid (['=', ' ', '$'] ++ rest) hm2 (Or.inr ⟨'=', [' ', '$'] ++ rest, rfl, by decide⟩)
    have e : line = lead ++ (label ++ mid ++ ['=', ' ', '$'] ++ rest) := by rw [hline]; simp [List.append_assoc]
    have e2 : label ++ mid ++ ['=', ' ', '$'] ++ rest = label ++ (mid ++ ['=', ' ', '$'] ++ rest) := by simp [List.append_assoc]
    have e3 : mid ++ ['=', ' ', '$'] ++ rest = mid ++ (['=', ' ', '$'] ++ rest) := by simp [List.append_assoc]
    unfold parseAcme
    simp only
    rw [e, s1.1, s1.2, e2, s2.1, s2.2, e3, s3.1, s3.2]
    have hle : lead.isEmpty = false := by cases lead <;> simp_all
    have hbe : label.isEmpty = false := by cases label <;> simp_all
    have hme : mid.isEmpty = false := by cases mid <;> simp_all
    simp only [hle, hbe, hme, Bool.or_self, Bool.false_eq_true, if_false]
    rw [(stripPrefix_iff _ _ _).2 rfl]
    simp only
    rw [(hexTail_iff rest v).2 hf]
    rfl

theorem hexVal_lt : ∀ (digs : List Char) (acc : Nat), (∀ c ∈ digs, isHex c = true) →
    digs.foldl (fun n c => n * 16 + hexDigitVal c) acc < (acc + 1) * 16 ^ digs.length := by
  intro digs
  induction digs with
  | nil => intro acc _; simp
  | cons d ds ih =>
    intro acc h
    simp only [List.foldl_cons, List.length_cons]
    have hd : hexDigitVal d < 16 := by
      have := h d (by simp)
      unfold hexDigitVal
      simp only [isHex, isDigit10, Bool.or_eq_true, Bool.and_eq_true, decide_eq_true_eq] at this ⊢
      have hle : ∀ a b : Char, a ≤ b ↔ a.toNat ≤ b.toNat := fun a b => Char.le_def
      simp only [hle] at this ⊢
      have e0 : '0'.toNat = 48 := rfl
      have e9 : '9'.toNat = 57 := rfl
      have ea : 'a'.toNat = 97 := rfl
      have ef : 'f'.toNat = 102 := rfl
      have eA : 'A'.toNat = 65 := rfl
      have eF : 'F'.toNat = 70 := rfl
      rw [e0, e9, ea, ef, eA, eF] at this
      rw [e0, e9, ea, ef]
      split
      · omega
      · split <;> omega
    have := ih (acc * 16 + hexDigitVal d) (fun c hc => h c (by simp [hc]))
    calc _ < (acc * 16 + hexDigitVal d + 1) * 16 ^ ds.length := this
      _ ≤ ((acc + 1) * 16) * 16 ^ ds.length := Nat.mul_le_mul_right _ (by omega)
      _ = (acc + 1) * 16 ^ (ds.length + 1) := by rw [Nat.pow_succ]; simp [Nat.mul_assoc, Nat.mul_comm]

/-- an accepted value fits in 16 bits -/
theorem C19_value_16bit (r : List Char) (v : Nat) (h : HexField r v) : v < 65536 := by
  obtain ⟨digs, tl, _, _, h2, h3, _, h5⟩ := h
  have := hexVal_lt digs 0 h3
  simp only [Nat.zero_add, Nat.one_mul] at this
  have hp : 16 ^ digs.length ≤ 16 ^ 4 := Nat.pow_le_pow_right (by decide) h2
  rw [h5]; unfold hexVal
  omega

/-- the 64tass value field -/
theorem tassValue_sound (r4 : List Char) (v : Nat) (h : tassValue r4 = some v) :
    (∃ r5, r4 = '$' :: r5 ∧ HexField r5 v) ∨ (decTail r4 = some v ∧ v ≤ 65535) := by
  unfold tassValue at h
  cases hs : stripPrefix ['$'] r4 with
  | none =>
    rw [hs] at h
    simp only at h
    refine Or.inr ⟨h, ?_⟩
    unfold decTail at h
    by_cases hc : 1 ≤ (r4.takeWhile isDigit10).length ∧ (r4.takeWhile isDigit10).length ≤ 5 ∧
        tailOk (r4.dropWhile isDigit10) = true ∧ decValue (r4.takeWhile isDigit10) ≤ 65535
    · rw [if_pos hc] at h; cases h; exact hc.2.2.2
    · rw [if_neg hc] at h; cases h
  | some r5 =>
    rw [hs] at h
    simp only at h
    by_cases hnl : r5.contains '\n' = true
    · rw [if_pos hnl] at h; cases h
    · rw [if_neg hnl] at h
      exact Or.inl ⟨r5, (stripPrefix_iff _ _ _).1 hs, (hexTail_iff r5 v).1 h⟩

/-- 64tass: an accepted line has a non-empty label of word characters, optional white space, `= `, and then
    either `$` with a hex value field or a decimal value field of 1..5 digits not above 65535 -/
theorem C19_tass_sound (line : List Char) (v : Nat) (label : List Char) (h : parseTass line = some (v, label)) :
    ∃ lead mid rest, line = lead ++ label ++ mid ++ ['=', ' '] ++ rest ∧ (∀ c ∈ lead, isWs c = true) ∧
      label ≠ [] ∧ (∀ c ∈ label, isWord c = true) ∧ (∀ c ∈ mid, isWs c = true) ∧
      ((∃ r5, rest = '$' :: r5 ∧ HexField r5 v) ∨ (decTail rest = some v ∧ v ≤ 65535)) := by
  unfold parseTass at h
  simp only at h
  by_cases hle : ((line.dropWhile isWs).takeWhile isWord).isEmpty = true
  · rw [if_pos hle] at h; cases h
  · rw [if_neg hle] at h
    have hne : (line.dropWhile isWs).takeWhile isWord ≠ [] := by
      intro he; rw [he] at hle; simp at hle
    cases hs : stripPrefix ['=', ' '] (((line.dropWhile isWs).dropWhile isWord).dropWhile isWs) with
    | none => rw [hs] at h; cases h
    | some r4 =>
      rw [hs] at h
      simp only at h
      cases hh : tassValue r4 with
      | none => rw [hh] at h; cases h
      | some w =>
        rw [hh] at h
        simp only [Option.map, Option.some.injEq, Prod.mk.injEq] at h
        obtain ⟨hv, hl⟩ := h
        subst hv
        have hr3 := (stripPrefix_iff _ _ _).1 hs
        refine ⟨line.takeWhile isWs, ((line.dropWhile isWs).dropWhile isWord).takeWhile isWs, r4, ?_,
          all_takeWhile _ _, ?_, ?_, all_takeWhile _ _, tassValue_sound r4 w hh⟩
        · rw [← hl]
          have := decomp3 isWs isWord isWs line
          rw [hr3] at this
          exact this.trans (by simp [List.append_assoc])
        · rw [← hl]; exact hne
        · rw [← hl]; exact all_takeWhile _ _

/-- file level: the parse succeeds exactly when no line is over-long and every line is accepted, and then
    the definitions are those of the lines, in file order (so a malformed line makes the parse FAIL instead of
    being skipped) -/
theorem C19_file (parse : List Char → Option (Nat × List Char)) (tooLong : List Char → Bool) :
    ∀ (lines : List (List Char)) (defs : List (Nat × List Char)),
      parseFile parse true tooLong lines = some defs ↔
        (∀ l ∈ lines, tooLong l = false) ∧ lines.map parse = defs.map some := by
  intro lines
  induction lines with
  | nil => intro defs; cases defs <;> simp [parseFile]
  | cons l rest ih =>
    intro defs
    simp only [parseFile]
    cases ht : tooLong l with
    | true =>
      simp only [if_true, List.mem_cons, forall_eq_or_imp, ht]
      constructor
      · intro h; cases h
      · rintro ⟨⟨h, _⟩, _⟩; cases h
    | false =>
      simp only [Bool.false_eq_true, if_false]
      cases hp : parse l with
      | none =>
        simp only [List.map_cons, hp]
        constructor
        · intro h; cases h
        · rintro ⟨_, h⟩; cases defs <;> simp at h
      | some d =>
        simp only [List.map_cons, hp]
        cases defs with
        | nil =>
          simp only [List.map_nil]
          constructor
          · intro h
            cases hr : parseFile parse true tooLong rest <;> rw [hr] at h <;> simp at h
          · rintro ⟨_, h⟩; simp at h
        | cons d' ds =>
          simp only [List.map_cons, List.cons.injEq, Option.some.injEq, List.mem_cons, forall_eq_or_imp, ht, true_and]
          constructor
          · intro h
            cases hr : parseFile parse true tooLong rest with
            | none => rw [hr] at h; simp at h
            | some ds' =>
              rw [hr] at h
              simp only [Option.map, Option.some.injEq, List.cons.injEq] at h
              obtain ⟨h1, h2⟩ := h
              subst h2
              have := (ih ds').1 hr
              exact ⟨this.1, h1, this.2⟩
          · rintro ⟨h1, h2, h3⟩
            rw [(ih ds).2 ⟨h1, h3⟩, h2]
            rfl

/-- the labels of an address are exactly the labels defined with that value, in file order, all of them -/
theorem C19_labels_order (defs : List (Nat × List Char)) (a : Nat) :
    labelsOf defs a = (defs.filter (fun d => d.1 == a)).map (·.2) := rfl

/-- FACTS: the scanner error is consulted (a line beyond bufio.Scanner's limit fails the parse), and the
    regular expressions are the ones the recognisers were written for -/
theorem C19_facts :
    labelFileChecksScannerError = true ∧
    regex_parseOneLineAcme = ["^\\s+([[:word:]]+)\\s+= [$]([[:xdigit:]]{1,4})(\\s.*)?$"] ∧
    -- (a sorted set: decimal line, hexadecimal line, the "is it hexadecimal" test)
    regex_parseOneLineTass = ["^\\s*([[:word:]]+)\\s*= ([[:digit:]]{1,5})(\\s.*)?$",
      "^\\s*([[:word:]]+)\\s*= [$]([[:xdigit:]]{1,4})(\\s.*)?$",
      "^\\s*[[:word:]]+\\s*= [$].*$"] := by decide

-- non-vacuity
example : parseAcme "\tloop\t= $c0fe ; comment".toList = some (0xC0FE, "loop".toList) := by decide
example : parseAcme "\tloop\t= $1c0fe".toList = none := by decide
example : parseTass "x = 65536".toList = none ∧ parseTass "x = 65535".toList = some (65535, ['x']) := by decide

end Verif.Props.C19
