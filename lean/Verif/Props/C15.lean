import Verif.Impl.Cutoff
/-
  C15 — Hot-spot flagging never misses the top p percent and never crashes.
  For all vectors of access counts (any length ≥ 1) and all p in 0..100, both strategies.
-/
namespace Verif.Props.C15
open Verif.Impl

theorem le_total' (a b : Nat) : (decide (a ≤ b) || decide (b ≤ a)) = true := by
  simp only [Bool.or_eq_true, decide_eq_true_eq]; omega

theorem sortAsc_perm (l : List Nat) : (sortAsc l).Perm l := List.mergeSort_perm l _

theorem sortAsc_length (l : List Nat) : (sortAsc l).length = l.length := (sortAsc_perm l).length_eq

theorem sortAsc_sorted (l : List Nat) : (sortAsc l).Pairwise (· ≤ ·) := by
  have := List.pairwise_mergeSort (le := fun a b => decide (a ≤ b))
    (fun a b c h1 h2 => by simp only [decide_eq_true_eq] at *; omega)
    (fun a b => by simp only [Bool.or_eq_true, decide_eq_true_eq]; omega) l
  exact this.imp (fun h => by simpa using h)

theorem mem_dedup (a : Nat) : ∀ l : List Nat, a ∈ dedup l ↔ a ∈ l := by
  intro l
  induction l with
  | nil => simp [dedup]
  | cons b bs ih =>
    simp only [dedup]
    by_cases hb : b ∈ dedup bs
    · simp only [hb, if_true, ih, List.mem_cons]
      constructor
      · exact Or.inr
      · rintro (h | h)
        · subst h; exact ih.1 hb
        · exact h
    · simp only [hb, if_false, List.mem_cons, ih]

theorem getD_of_lt (l : List Nat) (i d : Nat) (h : i < l.length) : l.getD i d = l[i] := by
  simp [List.getD, List.getElem?_eq_getElem h]

theorem clampIdx_lt (raw n : Nat) (hn : 0 < n) : clampIdx raw n < n := by
  unfold clampIdx; split <;> omega

theorem clampIdx_mono (a b n : Nat) (h : a ≤ b) : clampIdx a n ≤ clampIdx b n := by
  unfold clampIdx; split <;> split <;> omega

/-- in an ascending list everything from position i on is at least the i-th element -/
theorem count_ge_of_sorted : ∀ (s : List Nat), s.Pairwise (· ≤ ·) → ∀ (i : Nat) (h : i < s.length),
    s.length - i ≤ s.countP (fun x => decide (x ≥ s[i])) := by
  intro s hs i h
  have hsub : (s.drop i).Sublist s := List.drop_sublist i s
  have hall : ∀ x ∈ s.drop i, decide (x ≥ s[i]) = true := by
    intro x hx
    simp only [decide_eq_true_eq]
    obtain ⟨j, hj, rfl⟩ := List.getElem_of_mem hx
    simp only [List.getElem_drop]
    by_cases hz : j = 0
    · subst hz; simp
    · exact List.pairwise_iff_getElem.1 hs i (i + j) h (by simp at hj; omega) (by omega)
  calc s.length - i = (s.drop i).length := by simp
    _ = (s.drop i).countP (fun x => decide (x ≥ s[i])) := (List.countP_eq_length.2 hall).symm
    _ ≤ s.countP (fun x => decide (x ≥ s[i])) := hsub.countP_le

theorem sorted_mono (s : List Nat) (hs : s.Pairwise (· ≤ ·)) (i j : Nat) (hij : i ≤ j) (hj : j < s.length) :
    s[i]'(by omega) ≤ s[j] := by
  by_cases h : i = j
  · subst h; exact Nat.le_refl _
  · exact List.pairwise_iff_getElem.1 hs i j (by omega) hj (by omega)

variable (idx : Nat → Nat → Nat)

/-- the ranked items of a strategy: all counts (median) or the distinct counts (absolute value) -/
def items (median : Bool) (vals : List Nat) : List Nat := if median then vals else dedup vals

def threshold (median : Bool) (vals : List Nat) (p : Nat) : Nat :=
  if median then cutOffMedian vals (idx vals.length p) else cutOffAbsolute vals (idx (dedup vals).length p)

theorem threshold_eq (median : Bool) (vals : List Nat) (p : Nat) :
    threshold idx median vals p =
      (sortAsc (items median vals)).getD (clampIdx (idx (items median vals).length p) (items median vals).length) 0 := by
  cases median <;> simp [threshold, items, cutOffMedian, cutOffAbsolute]

theorem items_ne (median : Bool) (vals : List Nat) (h : vals ≠ []) : items median vals ≠ [] := by
  cases median
  · simp only [items, Bool.false_eq_true, if_false]
    cases vals with
    | nil => exact absurd rfl h
    | cons a as =>
      intro he
      have : a ∈ dedup (a :: as) := (mem_dedup a _).2 (by simp)
      rw [he] at this; simp at this
  · simpa [items] using h

/-- C15_total: for every p in 0..100 (indeed for any index the float computation may produce) the
    clamped index is inside the sorted list: no out-of-range access, the computation is total -/
theorem C15_total (median : Bool) (vals : List Nat) (h : vals ≠ []) (raw : Nat) :
    clampIdx raw (items median vals).length < (sortAsc (items median vals)).length := by
  rw [sortAsc_length]
  exact clampIdx_lt _ _ (List.length_pos_iff.2 (items_ne median vals h))

/-- C15_member: the threshold is one of the observed access values -/
theorem C15_member (median : Bool) (vals : List Nat) (h : vals ≠ []) (p : Nat) :
    threshold idx median vals p ∈ vals := by
  rw [threshold_eq]
  have hlt := C15_total median vals h (idx (items median vals).length p)
  rw [getD_of_lt _ _ _ hlt]
  have hm : (sortAsc (items median vals))[clampIdx (idx (items median vals).length p) (items median vals).length] ∈
      items median vals := (sortAsc_perm _).mem_iff.1 (List.getElem_mem _)
  cases median
  · simp only [items, Bool.false_eq_true, if_false] at hm ⊢; exact (mem_dedup _ _).1 hm
  · simpa [items] using hm

/-- C15_upward: the marking is upward closed — every flagged address has a raw count, and hence a shown
    access number, at least as large as every unflagged one -/
theorem C15_upward (cut a b : Nat) (ha : flagged cut a = true) (hb : flagged cut b = false) :
    b < a ∧ shown b ≤ shown a := by
  simp only [flagged, decide_eq_true_eq, decide_eq_false_iff_not] at ha hb
  refine ⟨by omega, ?_⟩
  unfold shown; split <;> split <;> omega

/-- C15_top: at least the top p percent of the ranked items (rounded up) are flagged -/
theorem C15_top (hidx : IdxOk idx) (median : Bool) (vals : List Nat) (h : vals ≠ []) (p : Nat) (hp : p ≤ 100) :
    let its := items median vals
    (its.length * p + 99) / 100 ≤ its.countP (fun x => flagged (threshold idx median vals p) x) := by
  intro its
  have hn : 0 < its.length := List.length_pos_iff.2 (items_ne median vals h)
  have hlt := C15_total median vals h (idx its.length p)
  rw [threshold_eq]
  rw [getD_of_lt _ _ _ hlt]
  have hperm := sortAsc_perm its
  have hcount := count_ge_of_sorted (sortAsc its) (sortAsc_sorted its) _ hlt
  rw [hperm.countP_eq] at hcount
  rw [sortAsc_length] at hcount
  have hi : clampIdx (idx its.length p) its.length ≤ its.length * (100 - p) / 100 := by
    have := hidx.1 its.length p hp
    unfold clampIdx; split <;> omega
  have : (its.length * p + 99) / 100 ≤ its.length - clampIdx (idx its.length p) its.length := by
    have e : its.length * (100 - p) = its.length * 100 - its.length * p := Nat.mul_sub its.length 100 p
    have hle : its.length * p ≤ its.length * 100 := Nat.mul_le_mul_left _ hp
    omega
  exact Nat.le_trans this hcount

/-- C15_all: p = 100 flags everything -/
theorem C15_all (hidx : IdxOk idx) (median : Bool) (vals : List Nat) (h : vals ≠ []) :
    ∀ x ∈ vals, flagged (threshold idx median vals 100) x = true := by
  intro x hx
  have hlt := C15_total median vals h (idx (items median vals).length 100)
  rw [threshold_eq, getD_of_lt _ _ _ hlt]
  have h0 : clampIdx (idx (items median vals).length 100) (items median vals).length = 0 := by
    have := hidx.1 (items median vals).length 100 (Nat.le_refl _)
    have hn : 0 < (items median vals).length := List.length_pos_iff.2 (items_ne median vals h)
    unfold clampIdx; split <;> omega
  simp only [h0, flagged, decide_eq_true_eq]
  -- x is an item, hence somewhere in the sorted list, hence at least its first element
  have hxi : x ∈ items median vals := by
    cases median
    · simp only [items, Bool.false_eq_true, if_false]; exact (mem_dedup _ _).2 hx
    · simpa [items] using hx
  have hxs : x ∈ sortAsc (items median vals) := (sortAsc_perm _).mem_iff.2 hxi
  obtain ⟨j, hj, rfl⟩ := List.getElem_of_mem hxs
  exact sorted_mono _ (sortAsc_sorted _) 0 j (Nat.zero_le _) hj

/-- C15_antitone: the threshold does not increase when p grows -/
theorem C15_antitone (hidx : IdxOk idx) (median : Bool) (vals : List Nat) (h : vals ≠ []) (p q : Nat)
    (hpq : p ≤ q) (hq : q ≤ 100) :
    threshold idx median vals q ≤ threshold idx median vals p := by
  have h1 := C15_total median vals h (idx (items median vals).length p)
  have h2 := C15_total median vals h (idx (items median vals).length q)
  rw [threshold_eq, threshold_eq, getD_of_lt _ _ _ h1, getD_of_lt _ _ _ h2]
  exact sorted_mono _ (sortAsc_sorted _) _ _
    (clampIdx_mono _ _ _ (hidx.2 (items median vals).length p q hpq hq)) h1

-- non-vacuity: the exact integer index satisfies IdxOk, and a concrete profile
example : IdxOk (fun n p => n * (100 - p) / 100) := by
  refine ⟨fun n p _ => Nat.le_refl _, fun n p q hpq _ => ?_⟩
  exact Nat.div_le_div_right (Nat.mul_le_mul_left n (by omega))
example : dedup [3, 3, 1, 1, 2] = [3, 1, 2] ∧ clampIdx 10 10 = 9 ∧ flagged 5 5 = true ∧ shown 5 = 4 := by decide

end Verif.Props.C15
