import Verif.Proofs.Step
import Verif.Facts.CpuNow
import Verif.Facts.CpuEntries
import Verif.Props.C03Run
/-
  C03 — Per-address access numbers are the program's true fetch/read/write frequencies
  (instruction level here; the run level — the counter of every address grows by exactly the accesses the
  executed instructions issued — is `C03_run` in C03Run.lean; that the real memories count per physical byte is C06).
  Depends on the regenerated fact `implemented_entry` only.
-/
namespace Verif.Props.C03
open Verif Verif.Impl Verif.Spec Verif.Facts

/-- One instruction: below every opcode the data sheets define, the code as it is now issues exactly
    the specification's logical accesses — the operand bytes it needs, pointer bytes, the effective
    address once per read and once per write, stack bytes — at the same addresses, in the same order,
    no more and no fewer; for every register state and every byte returned by the bus, on both CPU
    models.  (`True` at the leaves, no constraint on values: this is purely the shape of the tree.)
    The opcode fetch itself is the one load above `.next opc` (`C03_fetch_once`). -/
theorem C03_step (model : CpuModel) (r : Regs) (opc : Byte) (i : Instr) (hd : Spec.decode model opc = some i) :
    SProg.Rel (fun _ _ => True) ((plainM (stepNow model) r).next opc) ((Spec.step model r).next opc) := by
  obtain ⟨h, he⟩ := implemented_entry model opc i hd
  have h1 := step_next_refines (Generated.opTable model) Generated.consts model r opc i h hd he
  have h2 := Sim_next _ _ opc (stepDev_sim knownDev noDev model r)
  exact SProg.Rel.trans_sim (fun _ _ _ _ _ => trivial) _ _ _ h1 h2

/-- the opcode is fetched exactly once, from PC: the step is one load of `r.pc` followed by the
    opcode-dependent rest -/
theorem C03_fetch_once (model : CpuModel) (r : Regs) :
    (∃ k, plainM (stepNow model) r = .load r.pc k) ∧ (∃ k', Spec.step model r = .load r.pc k') := by
  constructor
  · simp only [stepNow, plain_step_eval]
    obtain ⟨kk, hk⟩ := stepS_is_load (Generated.opTable model) model r
    rw [hk]; exact ⟨_, rfl⟩
  · simp only [Spec.step, Spec.stepDev]
    unfoldM
    exact ⟨_, rfl⟩

/-- the (kind, address) sequence of a tree along the path selected by the bytes the bus answers;
    the flag tells whether the path ran into `unspecified` -/
def accesses {α : Type} : SProg α → List Byte → List (Bool × Addr) × Bool
  | .ret _, _ => ([], false)
  | .fail _, _ => ([], false)
  | .unspecified, _ => ([], true)
  | .load a k, b :: bs => let (l, u) := accesses (k b) bs; ((false, a) :: l, u)
  | .load a _, [] => ([(false, a)], false)
  | .store a _ _ k, bs => let (l, u) := accesses k bs; ((true, a) :: l, u)

/-- restated on access lists: along every path (every sequence of bus answers) on which the
    specification is defined, implementation and specification make the same list of
    (read/write, address) accesses — hence the same multiset. -/
theorem C03_accesses_of_rel {α β : Type} :
    ∀ (p : SProg α) (q : SProg β), SProg.Rel (fun _ _ => True) p q →
      ∀ bs, (accesses q bs).2 = false → (accesses p bs).1 = (accesses q bs).1 := by
  intro p
  induction p with
  | ret a => intro q; cases q <;> simp [SProg.Rel, accesses]
  | fail e => intro q; cases q <;> simp [SProg.Rel, accesses]
  | unspecified => intro q; cases q <;> simp [SProg.Rel, accesses]
  | load a k ih =>
    intro q; cases q <;> simp [SProg.Rel, accesses]
    rename_i a' k'
    intro h1 h2 bs
    cases bs with
    | nil => simp [accesses, h1]
    | cons b bs =>
      simp only [accesses]
      intro hu
      have := ih b (k' b) (h2 b) bs hu
      simp [this, h1]
  | store a v m k ih =>
    intro q; cases q <;> simp [SProg.Rel, accesses]
    rename_i a' v' m' k'
    intro h1 _ h3 bs hu
    have := ih k' h3 bs hu
    simp [this, h1]

theorem C03_multiset (model : CpuModel) (r : Regs) (opc : Byte) (i : Instr) (hd : Spec.decode model opc = some i)
    (bs : List Byte) (h : (accesses ((Spec.step model r).next opc) bs).2 = false) :
    (accesses ((plainM (stepNow model) r).next opc) bs).1 = (accesses ((Spec.step model r).next opc) bs).1 :=
  C03_accesses_of_rel _ _ (C03_step model r opc i hd) bs h

-- non-vacuity / reading aid: the logical accesses of `LDA ($10),Y` on a 6502 with Y = 1 whose
-- pointer is $20FF are: opcode, operand, pointer high, pointer low, effective address $2100
example : (accesses (Spec.step .m6502 ⟨0x0800, 0xFF, 0, 0, 1, 0⟩) [0xB1, 0x10, 0x20, 0xFF, 0x55]).1 =
    [(false, 0x0800), (false, 0x0801), (false, 0x0011), (false, 0x0010), (false, 0x2100)] := by
  decide

end Verif.Props.C03
