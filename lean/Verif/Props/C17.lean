import Verif.Impl.Config
import Verif.Facts.MemNow
import Verif.Facts.MemSpecs
import Verif.Facts.CpuEntries
import Verif.Facts.CpuUnimpl
import Verif.Generated.Config
/-
  C17 — A configuration yields exactly the documented machine, or is rejected.
  Regenerated facts: the three allow-lists, the MemSpec switch, the order of the port parsers and their
  regular expressions, the CPU model test.  Save/Load round trip: trusts encoding/json, checked by execution.
-/
namespace Verif.Props.C17
open Verif Verif.Impl Verif.Spec Verif.Facts Verif.Generated

def docModels : List String := ["6502", "65C02"]
def docMemSpecs : List String := ["Linear16K", "Linear32K", "Linear48K", "Linear64K", "XSixteen512K", "XSixteen2048K",
  "GeoRam_512K", "GeoRam_2048K", "F256_512K", "F256_768K"]
def docAsm : List String := ["", "acme", "64tass", "ca65"]

/-- acceptance and construction as the code is now -/
def acceptNow (c : RawConfig) : Bool := accept allowedMemModels allowedCpuModels allowedAsmTypes c
def buildNow (c : RawConfig) : Option MachineDesc := build builtMachine (fun m => m != "6502") c

/-- FACTS: the allow-lists are the documented value sets; the parsers are tried in the documented order
    with the documented expressions; a model other than "6502" selects the 65C02 -/
theorem C17_facts :
    (∀ s, allowedMemModels.contains s = docMemSpecs.contains s) ∧
    (∀ s, allowedCpuModels.contains s = docModels.contains s) ∧
    (∀ s, allowedAsmTypes.contains s = docAsm.contains s) ∧
    confParsers = ["memory.NewStdOutProcessorFromConfig", "memory.NewPrinterProcessorFromConfig",
      "memory.NewStdOutBinaryProcessorFromConfig"] ∧
    regex_NewStdOutProcessorFromConfig = ["^stdout:([0-9]+)$"] ∧
    regex_NewPrinterProcessorFromConfig = ["^printer:([0-9a-zA-Z]+)$"] ∧
    cpuModelTest = "6502:Model6502:Model65C02" := by
  refine ⟨?_, ?_, ?_, by decide, by decide, by decide, by decide⟩
  · intro s
    simp only [allowedMemModels, docMemSpecs, List.contains_cons, List.contains_nil, Bool.or_false]
    cases h1 : (s == "Linear16K") <;> cases h2 : (s == "Linear32K") <;> cases h3 : (s == "Linear48K") <;>
      cases h4 : (s == "Linear64K") <;> cases h5 : (s == "XSixteen512K") <;> cases h6 : (s == "XSixteen2048K") <;>
      cases h7 : (s == "GeoRam_512K") <;> cases h8 : (s == "GeoRam_2048K") <;> cases h9 : (s == "F256_512K") <;>
      cases h10 : (s == "F256_768K") <;> rfl
  · intro s; simp only [allowedCpuModels, docModels]
  · intro s
    simp only [allowedAsmTypes, docAsm, List.contains_cons, List.contains_nil, Bool.or_false]
    cases h1 : (s == "") <;> cases h2 : (s == "64tass") <;> cases h3 : (s == "acme") <;> cases h4 : (s == "ca65") <;> rfl

/-- C17_accept: a configuration is accepted exactly when Model, MemSpec and AsmType are documented values -/
theorem C17_accept (c : RawConfig) :
    acceptNow c = (docMemSpecs.contains c.memSpec && docModels.contains c.model && docAsm.contains c.asmType) := by
  unfold acceptNow accept
  rw [C17_facts.1, C17_facts.2.1, C17_facts.2.2.1]

theorem parsePorts_none (m : Nat) : ∀ l, parsePorts m l = none ↔ ∃ e ∈ l, parsePort e.2 = none := by
  intro l
  induction l with
  | nil => simp [parsePorts]
  | cons e es ih =>
    simp only [parsePorts, List.mem_cons, exists_eq_or_imp]
    cases hp : parsePort e.2 with
    | none => simp
    | some p =>
      simp only [reduceCtorEq, false_or]
      rw [← ih]
      cases parsePorts m es <;> simp

theorem parsePorts_some (m : Nat) : ∀ l ports, parsePorts m l = some ports →
    ports.map (·.1) = l.map (fun e => (m * 256 + e.1) % 65536) ∧
    ports.map (fun p => some p.2) = l.map (fun e => parsePort e.2) := by
  intro l
  induction l with
  | nil => intro ports h; simp [parsePorts] at h; subst h; simp
  | cons e es ih =>
    intro ports h
    simp only [parsePorts] at h
    cases hp : parsePort e.2 with
    | none => rw [hp] at h; cases h
    | some p =>
      rw [hp] at h
      simp only at h
      cases hr : parsePorts m es with
      | none => rw [hr] at h; cases h
      | some ps =>
        rw [hr] at h
        simp only [Option.map, Option.some.injEq] at h
        subst h
        have := ih ps hr
        simp [this.1, this.2, hp]

theorem built_some (s : String) (h : docMemSpecs.contains s = true) : ∃ k, builtMachine s = some k ∧ docMachine s = some k := by
  have hmem : s ∈ docMemSpecs := by simpa using h
  have := memspec_builds s hmem
  cases hd : docMachine s with
  | none =>
    exfalso
    simp only [docMemSpecs, List.mem_cons, List.mem_nil_iff, or_false] at hmem
    rcases hmem with h | h | h | h | h | h | h | h | h | h <;> rw [h] at hd <;> simp [docMachine] at hd
  | some k => exact ⟨k, by rw [this, hd], rfl⟩

/-- C17_ports: building fails exactly when some IoAddrConfig entry is not a recognised port specification -/
theorem C17_ports (c : RawConfig) (hm : docMemSpecs.contains c.memSpec = true) :
    buildNow c = none ↔ ∃ e ∈ c.ioAddr, parsePort e.2 = none := by
  obtain ⟨k, hk, _⟩ := built_some c.memSpec hm
  unfold buildNow build
  rw [hk]
  simp only
  rw [← parsePorts_none c.ioMask]
  cases parsePorts c.ioMask c.ioAddr <;> simp

/-- C17_exact: the machine built from an accepted configuration is the documented one: CPU model from
    Model, memory from MemSpec, coprocessor units from the flag bits at the configured base, one port per entry
    at IoMask·256 + key with the specified kind -/
theorem C17_exact (c : RawConfig) (d : MachineDesc) (ha : acceptNow c = true) (h : buildNow c = some d) :
    d.cpu = (if c.model = "65C02" then .m65C02 else .m6502) ∧ some d.mem = docMachine c.memSpec ∧
    d.mul = decide (c.flags % 2 = 1) ∧ d.div = decide (c.flags / 4 % 2 = 1) ∧ d.coprocBase = c.base ∧
    d.ports.map (·.1) = c.ioAddr.map (fun e => (c.ioMask * 256 + e.1) % 65536) ∧
    d.ports.map (fun p => some p.2) = c.ioAddr.map (fun e => parsePort e.2) := by
  rw [C17_accept] at ha
  simp only [Bool.and_eq_true] at ha
  obtain ⟨⟨hmem, hmod⟩, _⟩ := ha
  obtain ⟨k, hk, hdoc⟩ := built_some c.memSpec hmem
  unfold buildNow build at h
  rw [hk] at h
  simp only at h
  cases hp : parsePorts c.ioMask c.ioAddr with
  | none => rw [hp] at h; cases h
  | some ports =>
    rw [hp] at h
    simp only [Option.some.injEq] at h
    subst h
    have hmodel : c.model = "6502" ∨ c.model = "65C02" := by
      simp only [docModels, List.contains_cons, List.contains_nil, Bool.or_false, Bool.or_eq_true, beq_iff_eq] at hmod
      exact hmod
    have hps := parsePorts_some c.ioMask c.ioAddr ports hp
    refine ⟨?_, by rw [hdoc], rfl, rfl, rfl, hps.1, hps.2⟩
    rcases hmodel with h | h <;> simp only [h] <;> decide

/-- C17_isa: the built CPU has exactly the documented instruction set of its model (regenerated opcode table
    facts), and the 65C02 extensions are present iff the model is 65C02 -/
theorem C17_isa (model : CpuModel) (opc : Byte) :
    (Generated.opTable model opc).isSome = (Spec.decode model opc).isSome := by
  cases hd : Spec.decode model opc with
  | none => rw [unimplemented_entry model opc hd]; rfl
  | some i =>
    obtain ⟨h, he⟩ := implemented_entry model opc i hd
    rw [he.entry]; rfl

theorem C17_extensions : Spec.decode .m6502 0x80 = none ∧ (Spec.decode .m65C02 0x80).isSome = true ∧
    (∀ opc, (Spec.decode .m6502 opc).isSome = true → (Spec.decode .m65C02 opc).isSome = true) := by decide

end Verif.Props.C17
