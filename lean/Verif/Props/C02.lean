import Verif.Proofs.Step
import Verif.Facts.CpuNow
import Verif.Facts.CpuEntries
import Verif.Facts.CpuConsts
import Verif.Impl.Run
import Verif.Proofs.RunCycles
/-
  C02 — Reported clock cycles equal the data-sheet cycle count of the executed path.
  Depends on the regenerated facts `implemented_entry` and `consts_ok`.
-/
namespace Verif.Props.C02
open Verif Verif.Impl Verif.Spec Verif.Facts

def CycRel (i : StepOut × Regs) (s : Spec.Out × Regs) : Prop := i.1.cycles = s.1.cycles

/-- One instruction: whatever the registers and whatever bytes the bus returns, below every opcode
    the data sheets define the code as it is now reports the data-sheet cycle count of (mnemonic, mode)
    including page-crossing, branch and decimal penalties — against the FULL specification (the known
    C01 deviation does not touch cycles). -/
theorem C02_step (model : CpuModel) (r : Regs) (opc : Byte) (i : Instr) (hd : Spec.decode model opc = some i) :
    SProg.Rel CycRel ((plainM (stepNow model) r).next opc) ((Spec.step model r).next opc) := by
  obtain ⟨h, he⟩ := implemented_entry model opc i hd
  have h1 := step_next_refines (Generated.opTable model) Generated.consts model r opc i h hd he
  have h2 := Sim_next _ _ opc (stepDev_sim knownDev noDev model r)
  exact SProg.Rel.trans_sim (fun _ _ _ h1 h2 => (h1.1 consts_ok).trans h2.1) _ _ _ h1 h2

/-- the halting BRK: the handler's own count is never added by the run loop (see `C02_halt`) -/
theorem C02_literals : Generated.consts = expectedConsts := consts_ok

variable {σ : Type}

export Verif.Proofs (pathCycles)

/-- C02_run: the counter after a run = the counter before + Σ cycles of the executed non-halting
    instructions; the halting BRK (and a faulting instruction) contribute nothing. -/
theorem C02_run (tbl : Byte → Option H) (kc : CycleConsts) (model : CpuModel) (bus : Bus σ) (n : Nat) (m : Machine σ) :
    (runLoop tbl kc model bus n m).2.cycles = m.cycles + pathCycles tbl kc model bus n m.regs m.mem :=
  Verif.Proofs.runLoop_cycles tbl kc model bus n m

/-- a fresh run starts from zero, a continued run (test iterations) adds to the previous total -/
theorem C02_reset (tbl : Byte → Option H) (kc : CycleConsts) (model : CpuModel) (bus : Bus σ) (n : Nat) (start : Addr) (reset : Bool) (m : Machine σ) :
    (runExt tbl kc model bus n start reset m).2.cycles =
      (if reset then 0 else m.cycles) + pathCycles tbl kc model bus n { m.regs with pc := start } m.mem := by
  unfold runExt
  rw [C02_run]

/-- the halting BRK contributes nothing: a run that halts at once leaves the counter alone -/
theorem C02_halt (tbl : Byte → Option H) (kc : CycleConsts) (model : CpuModel) (bus : Bus σ) (n : Nat) (m : Machine σ) (regs' : Regs) (mem' : σ) (c : Nat)
    (h : (Impl.step tbl kc model m.regs).run bus m.mem = (.ok (⟨c, true⟩, regs'), mem')) :
    (runLoop tbl kc model bus (n + 1) m).2.cycles = m.cycles := by
  simp [runLoop, h]

/-- every split of an execution into continued runs gives the same total: running `k` instructions,
    then continuing (without reset) from where that stopped for `n` more, adds up the same path sum
    as one run of `k + n` — provided the first part did not halt or fault. -/
theorem C02_split (tbl : Byte → Option H) (kc : CycleConsts) (model : CpuModel) (bus : Bus σ) (k n : Nat) (m : Machine σ)
    (hk : (runLoop tbl kc model bus k m).1 = .fuel) :
    (runLoop tbl kc model bus n (runLoop tbl kc model bus k m).2) = runLoop tbl kc model bus (k + n) m := by
  induction k generalizing m with
  | zero => simp [runLoop]
  | succ k ih =>
    rw [Nat.succ_add]
    cases h : (Impl.step tbl kc model m.regs).run bus m.mem with
    | mk res mem' =>
      cases res with
      | error e => simp [runLoop, h] at hk
      | ok v =>
        obtain ⟨out, regs'⟩ := v
        by_cases hh : out.halt = true
        · simp [runLoop, h, hh] at hk
        · simp only [runLoop, h, hh] at hk ⊢
          exact ih _ hk

end Verif.Props.C02
