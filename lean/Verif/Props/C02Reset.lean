import Verif.Impl.Provider
import Verif.Generated.Flow
/-
  C02, the counter between programs: `CPU6502.Reset` — called by the snapshot provider before every test case —
  leaves the cycle counter at zero, so that the number reported for the next program is the sum for that program
  alone (C02_run, C02_reset in Props/C02.lean: a run adds its instructions' cycles to the counter it starts from).
  The statement list of Reset is regenerated from the source; the theorem does not depend on the order of its
  statements nor on the other statements.
-/
namespace Verif.Props.C02
open Verif Verif.Impl

def isZeroCycles : ResetStep → Bool
  | .zeroCycles => true
  | _ => false

theorem resetStep_keeps_zero (cfg : MemCfg) (m : CaseMachine) (s : ResetStep) (h : m.cycles = 0) :
    (resetStep cfg m s).cycles = 0 := by
  cases s <;> simp [resetStep, h]

theorem runReset_keeps_zero (cfg : MemCfg) (rs : List ResetStep) (m : CaseMachine) (h : m.cycles = 0) :
    (runReset cfg rs m).cycles = 0 := by
  unfold runReset
  induction rs generalizing m with
  | nil => simpa
  | cons s rs ih => exact ih _ (resetStep_keeps_zero cfg m s h)

/-- a Reset that contains the statement `cycleCount = 0` anywhere ends with the counter at zero -/
theorem runReset_zero (cfg : MemCfg) (rs : List ResetStep) (m : CaseMachine) (h : rs.any isZeroCycles = true) :
    (runReset cfg rs m).cycles = 0 := by
  unfold runReset
  induction rs generalizing m with
  | nil => simp at h
  | cons s rs ih =>
    simp only [List.any_cons, Bool.or_eq_true] at h
    rcases h with h | h
    · cases s <;> simp [isZeroCycles] at h
      exact runReset_keeps_zero cfg rs _ (by simp [resetStep])
    · exact ih _ h

/-- **C02 (between programs).** `Reset` as the source has it now zeroes the cycle counter, whatever the machine was. -/
theorem C02_reset_call (cfg : MemCfg) (m : CaseMachine) : (runReset cfg Generated.resetSteps m).cycles = 0 :=
  runReset_zero cfg _ m (by decide)

end Verif.Props.C02
