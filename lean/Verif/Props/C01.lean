import Verif.Proofs.Step
import Verif.Facts.CpuNow
import Verif.Facts.CpuEntries
import Verif.Proofs.PathStores
/-
  C01 — Every implemented opcode has its architected effect on registers, flags, memory.

  Stated on interaction trees: for EVERY register state `r` and EVERY byte the bus may return
  (the trees branch over them), below every opcode the data sheets define, the step of the code as
  it is now (`Facts.stepNow`: extracted opcode table, extracted cycle literals) makes the
  specification's stores at the specification's addresses with the specification's values (outside
  the mask PHP leaves open), in the same order, leaves the specification's registers (outside the data
  sheets' don't-care bits) and makes no other store.  Being about trees it holds for any memory
  model behind the bus.  Depends on the regenerated fact `implemented_entry` only (not on the cycle
  literals, not on what is registered for codes the data sheets leave undefined: that is C11).
-/
namespace Verif.Props.C01
open Verif Verif.Impl Verif.Spec Verif.Facts

/-- what C01 compares at the leaves: the halt flag and the registers outside the don't-care mask -/
def RegsRel (i : StepOut × Regs) (s : Spec.Out × Regs) : Prop :=
  i.1.halt = s.1.halt ∧ RegsEqMod s.1.pmask i.2 s.2

/-- FULL statement of the property (kept visible; false on the pinned tree, see Findings/C01) -/
def C01_full : Prop :=
  ∀ (model : CpuModel) (r : Regs) (opc : Byte) (i : Instr), Spec.decode model opc = some i →
    SProg.Rel RegsRel ((plainM (stepNow model) r).next opc) ((Spec.step model r).next opc)

/-- Proved: the full statement with N and V of the 65C02 `BIT #imm` (opcode $89) left open. -/
theorem C01_step_partial (model : CpuModel) (r : Regs) (opc : Byte) (i : Instr)
    (hd : Spec.decode model opc = some i) :
    SProg.Rel RegsRel ((plainM (stepNow model) r).next opc) ((Spec.stepDev knownDev model r).next opc) := by
  obtain ⟨h, he⟩ := implemented_entry model opc i hd
  exact SProg.Rel.mono (fun _ _ h => ⟨h.2.1, h.2.2⟩) _ _
    (step_next_refines (Generated.opTable model) Generated.consts model r opc i h hd he)

/-- Proved: full strength below every implemented opcode other than the deviation (all 150 NMOS
    opcodes and 208 of the 209 65C02 opcodes). -/
theorem C01_step_except (model : CpuModel) (r : Regs) (opc : Byte) (i : Instr)
    (hd : Spec.decode model opc = some i) (h : knownDev model opc = 0) :
    SProg.Rel RegsRel ((plainM (stepNow model) r).next opc) ((Spec.step model r).next opc) := by
  have h1 := C01_step_partial model r opc i hd
  have h2 : (Spec.stepDev knownDev model r).next opc = (Spec.step model r).next opc :=
    stepDev_next_eq knownDev noDev model r opc (by rw [h]; rfl)
  rw [h2] at h1
  exact h1

/-- The same as a statement about executions: fix the bytes the bus returns (any list `o`; it selects one
    path through the trees).  Whenever the specification defines that path, the implemented step makes
    along it exactly the specification's stores: the same number, in the same order, at the same addresses,
    with the same values (outside the mask PHP leaves open).  Used by C10: a trap or port sees one call per
    architected store, with the architected byte — for read-modify-write instructions the modified value. -/
theorem C01_path_stores (model : CpuModel) (r : Regs) (opc : Byte) (i : Instr)
    (hd : Spec.decode model opc = some i) (o : List Byte)
    (hdef : SProg.pathDefined o ((Spec.stepDev knownDev model r).next opc) = true) :
    SProg.storesMatch (SProg.pathStores o ((plainM (stepNow model) r).next opc))
      (SProg.pathStores o ((Spec.stepDev knownDev model r).next opc)) :=
  SProg.Rel.stores_match _ _ o (C01_step_partial model r opc i hd) hdef

/-- the deviation is exactly one (model, opcode) pair -/
theorem C01_deviation_is_bit_imm (model : CpuModel) (opc : Byte) :
    knownDev model opc ≠ 0 → model = .m65C02 ∧ opc = 0x89 := by
  cases model <;> simp [knownDev]
  intro h1 _; exact h1

/-- BRK is the simulator's halt: it ends the step with `halt`, makes no store and touches no
    register or flag (PC is left just behind the opcode). -/
theorem C01_brk (model : CpuModel) (r : Regs) :
    (plainM (stepNow model) r).next 0x00 = .ret (⟨7, true⟩, { r with pc := r.pc + 1 }) := by
  cases model <;> rfl

/-- the same for the specification (sanity: the specification says so too) -/
theorem C01_brk_spec (model : CpuModel) (r : Regs) :
    (Spec.step model r).next 0x00 = .ret (⟨7, true, 0⟩, { r with pc := r.pc + 1 }) := by
  cases model <;> rfl

-- non-vacuity: the relation is not trivially true — a tree with a different store is not related
example : ¬ SProg.Rel RegsRel
    (.store 0x10 1 0 (.ret (⟨3, false⟩, default)))
    (.store 0x10 2 0 (.ret (⟨3, false, 0⟩, default))) := by
  simp [SProg.Rel]

-- non-vacuity of C01_path_stores: INC $1234 with the bus answering $34 $12 (operand) and $7F (the byte):
-- the specification's path is defined and makes exactly one store, of the modified value $80, at $1234
example : SProg.pathDefined [0x34, 0x12, 0x7F] ((Spec.stepDev knownDev .m6502 default).next 0xEE) = true := by decide
example : SProg.pathStores [0x34, 0x12, 0x7F] ((Spec.stepDev knownDev .m6502 default).next 0xEE) = [(0x1234, 0x80, 0)] := by decide

-- non-vacuity: the hypothesis is met by 150 + 209 opcodes
example : Spec.decode .m6502 0xA9 = some ⟨.LDA, .imm, 2, false⟩ := rfl

end Verif.Props.C01
