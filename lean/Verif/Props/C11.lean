import Verif.Proofs.Step
import Verif.Facts.CpuNow
import Verif.Facts.CpuUnimpl
import Verif.Impl.Run
/-
  C11 — No program can crash the host; unimplemented opcodes stop the run with an error.

  The theorems cover the modelled fault classes (every fault of the model is an explicit `Err`
  value; Lean's totality checker is the proof that the model has no other exit).  That the Go
  process itself cannot die (a panic outside `recover`, stack or memory exhaustion) is a property
  of the Go runtime; it is validated by the subprocess correspondence stream only (partial).
  Depends on the regenerated fact `unimplemented_entry` only.
-/
namespace Verif.Props.C11
open Verif Verif.Impl Verif.Spec Verif.Facts Verif.Generated

/-- nothing the data sheets leave undefined (or RTI/STP/WAI) is registered in the opcode table of
    the code as it is now: nothing unimplemented is executed as something else -/
theorem C11_unimplemented (model : CpuModel) (opc : Byte) (hd : Spec.decode model opc = none) :
    opTable model opc = none := unimplemented_entry model opc hd

/-- RTI, STP and WAI are not implemented on either model; nor is any 65C02-only code on the NMOS model -/
theorem C11_rti_stp_wai :
    opTable .m6502 0x40 = none ∧ opTable .m65C02 0x40 = none ∧
    opTable .m65C02 0xDB = none ∧ opTable .m65C02 0xCB = none ∧ opTable .m6502 0x80 = none :=
  ⟨C11_unimplemented _ _ rfl, C11_unimplemented _ _ rfl, C11_unimplemented _ _ rfl, C11_unimplemented _ _ rfl,
   C11_unimplemented _ _ rfl⟩

/-- an unimplemented opcode: below the single opcode fetch the step is the error that names the
    opcode and the PC still pointing at it — no further load, no store, no register change
    (a `fail` leaf carries no registers: the run loop keeps those of the beginning) -/
theorem C11_illegal_step (model : CpuModel) (r : Regs) (opc : Byte) (hd : Spec.decode model opc = none) :
    (plainM (stepNow model) r).next opc = .fail (.illegal opc r.pc) := by
  simp only [stepNow, plain_step_eval]
  obtain ⟨kk, hk⟩ := stepS_is_load (opTable model) model r
  rw [next_bind _ _ _ _ _ hk, stepS_next_illegal _ _ _ _ (unimplemented_entry model opc hd)]
  rfl

/-- and the specification says the same -/
theorem C11_illegal_spec (model : CpuModel) (r : Regs) (opc : Byte) (hd : Spec.decode model opc = none) :
    (Spec.step model r).next opc = .fail (.illegal opc r.pc) := by
  simp only [Spec.step, Spec.stepDev]
  unfoldM
  simp only [SProg.next, hd]
  rfl

variable {σ : Type}

/-- in a run (any table, any bus): when the step faults, the run ends with that error and registers
    and cycle counter are those before the instruction (PC pointing at the opcode) -/
theorem C11_run_fault (tbl : Byte → Option H) (k : CycleConsts) (model : CpuModel) (bus : Bus σ) (n : Nat)
    (m : Machine σ) (e : Err) (mem' : σ)
    (h : (Impl.step tbl k model m.regs).run bus m.mem = (.error e, mem')) :
    runLoop tbl k model bus (n + 1) m = (.error e, { m with mem := mem' }) := by
  simp only [runLoop, h]

/-- totality: a run of the model ends in one of exactly three ways -/
theorem C11_total (tbl : Byte → Option H) (k : CycleConsts) (model : CpuModel) (bus : Bus σ) (n : Nat) (m : Machine σ) :
    (runLoop tbl k model bus n m).1 = .halted ∨ (∃ e, (runLoop tbl k model bus n m).1 = .error e) ∨
      (runLoop tbl k model bus n m).1 = .fuel := by
  cases (runLoop tbl k model bus n m).1 with
  | halted => exact Or.inl rfl
  | error e => exact Or.inr (Or.inl ⟨e, rfl⟩)
  | fuel => exact Or.inr (Or.inr rfl)

end Verif.Props.C11
