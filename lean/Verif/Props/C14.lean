import Verif.Impl.Report
import Verif.Generated.Misc
/-
  C14 — Profile report lists each program address once with true value and access count.
  Regenerated fact: the width of the loop counter of profiler.DumpStatistics.
-/
namespace Verif.Props.C14
open Verif.Impl Verif.Generated

theorem C14_counter_width : 17 ≤ loopBits_DumpStatistics := by decide

/-- For every program range start ≤ stop ≤ $FFFF (also one ending at $FFFF), every label map, every
    statistics and contents: writing the report terminates, and the report is — in ascending address
    order — for each address of the range all labels defined for it (in file order) followed by exactly one
    address line with that byte's value and its access number. -/
theorem C14_lines (labels : Nat → List String) (raw value : Nat → Nat) (cut : Nat) (start stop : Nat)
    (h1 : start ≤ stop) (h2 : stop ≤ 65535) :
    report loopBits_DumpStatistics labels raw value cut start stop (stop + 2 - start) =
      some ((List.range' start (stop + 1 - start)).flatMap (reportAt labels raw value cut)) := by
  have hb : stop + 1 < 2 ^ loopBits_DumpStatistics := by
    have : 2 ^ 17 ≤ 2 ^ loopBits_DumpStatistics := Nat.pow_le_pow_right (by decide) C14_counter_width
    omega
  have := counterLoop_terminates loopBits_DumpStatistics stop hb (stop + 1 - start) start (by omega)
  have e : stop + 2 - start = stop + 1 - start + 1 := by omega
  simp only [report, e, this, Option.map]

theorem C14_terminates (labels : Nat → List String) (raw value : Nat → Nat) (cut : Nat) (start stop : Nat)
    (h1 : start ≤ stop) (h2 : stop ≤ 65535) :
    (report loopBits_DumpStatistics labels raw value cut start stop (stop + 2 - start)).isSome := by
  rw [C14_lines labels raw value cut start stop h1 h2]; rfl

/-- exactly one address line per address: the address lines of the report, in order, are start..stop -/
theorem C14_one_line_each (labels : Nat → List String) (raw value : Nat → Nat) (cut : Nat) (l : List Nat) :
    (l.flatMap (reportAt labels raw value cut)).filterMap (fun x => match x with | .addr _ a _ _ => some a | _ => none) = l := by
  induction l with
  | nil => rfl
  | cons a as ih =>
    simp only [List.flatMap_cons, List.filterMap_append, ih, reportAt]
    have : ((labels a).map ReportLine.label).filterMap
        (fun x => match x with | .addr _ a _ _ => some a | _ => none) = [] := by
      induction labels a with
      | nil => rfl
      | cons x xs ih2 => simpa using ih2
    simp [this]

/-- the address line shows the byte's value and the accesses without the write that loaded the program;
    the labels of an address come directly before its line, in file order -/
theorem C14_value_count (labels : Nat → List String) (raw value : Nat → Nat) (cut a : Nat) :
    reportAt labels raw value cut a =
      (labels a).map .label ++ [.addr (decide (raw a ≥ cut)) a (value a) (if raw a ≠ 0 then raw a - 1 else 0)] := rfl

-- non-vacuity
example : report 32 (fun a => if a = 0xFFFF then ["end"] else []) (fun _ => 3) (fun _ => 0xEA) 3 0xFFFE 0xFFFF 3 =
    some [.addr true 0xFFFE 0xEA 2, .label "end", .addr true 0xFFFF 0xEA 2] := by decide

end Verif.Props.C14
