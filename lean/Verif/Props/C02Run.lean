import Verif.Props.C02
import Verif.Proofs.RunRefine
/-
  C02, lifted to runs against the SPECIFICATION's run loop (`specLoopC`: data-sheet decode, data-sheet execution,
  Σ of the data-sheet cycles of the non-halting instructions).
-/
namespace Verif.Props.C02
open Verif Verif.Impl Verif.Spec Verif.Facts Verif.Proofs

variable {σ : Type}

/-- registers, halt flag and cycles at the leaves (cycles at the literals as they are now: `consts_ok`) -/
def FullRel (i : StepOut × Regs) (s : Spec.Out × Regs) : Prop :=
  i.1.halt = s.1.halt ∧ RegsEqMod s.1.pmask i.2 s.2 ∧ i.1.cycles = s.1.cycles

theorem step_full (model : CpuModel) (r : Regs) (opc : Byte) (i : Instr) (hd : Spec.decode model opc = some i) :
    SProg.Rel FullRel ((plainM (Impl.step (Generated.opTable model) Generated.consts model) r).next opc)
      ((Spec.stepDev knownDev model r).next opc) := by
  obtain ⟨h, he⟩ := implemented_entry model opc i hd
  exact SProg.Rel.mono (fun _ _ h => ⟨h.2.1, h.2.2, h.1 consts_ok⟩) _ _
    (step_next_refines (Generated.opTable model) Generated.consts model r opc i h hd he)

/-- C02_total: on every plain bus (every memory model), from every machine state, for every number of instructions:
    while the executed path is exactly specified, the cycle counter after the run of the code as it is now equals the
    counter before plus the data-sheet cycles of every executed non-halting instruction — the total of the
    specification's own run — and the two runs stop the same way in the same registers and memory. -/
theorem C02_total (model : CpuModel) (bus : Bus σ) (hb : PlainBus bus) (n : Nat) (m : Machine σ)
    (hx : RunExact model bus n m.regs m.mem) :
    (runLoop (Generated.opTable model) Generated.consts model bus n m).2.cycles = (specLoopC model bus n m.regs m.mem m.cycles).2.2.2 ∧
    (runLoop (Generated.opTable model) Generated.consts model bus n m).1 = (specLoopC model bus n m.regs m.mem m.cycles).1 ∧
    (runLoop (Generated.opTable model) Generated.consts model bus n m).2.regs = (specLoopC model bus n m.regs m.mem m.cycles).2.1 ∧
    (runLoop (Generated.opTable model) Generated.consts model bus n m).2.mem = (specLoopC model bus n m.regs m.mem m.cycles).2.2.1 := by
  have h := run_refines_cycles (Generated.opTable model) Generated.consts model bus FullRel hb (fun _ _ h => h) (step_full model) n m hx
  exact ⟨h.2.2.2, h.1, h.2.1, h.2.2.1⟩

-- non-vacuity: LDA #$05 ; INX ; BRK — 2 + 2 cycles, the halting BRK adds nothing
example : (specLoopC .m6502 flatBus 3 ⟨0x0800, 0xFF, 0, 0, 0, 0⟩
    (fun a => if a = 0x0800 then 0xA9 else if a = 0x0801 then 5 else if a = 0x0802 then 0xE8 else 0) 0).2.2.2 = 4 := by decide

end Verif.Props.C02
