import Verif.Impl.Run
/-
  C03, run level: on a bus that counts accesses per address, the counter of every address grows over a
  run by exactly the number of accesses the executed instructions issued to it — nothing is counted that
  the program did not do, nothing it did is missed.  (Which accesses an instruction issues is C03_step;
  that the real memories count per physical byte is C06.)
-/
namespace Verif.Props.C03
open Verif Verif.Impl

variable {σ : Type}

structure Counted (σ : Type) where
  inner : σ
  cnt : Addr → Nat

def bump (c : Addr → Nat) (a : Addr) : Addr → Nat := fun x => if x = a then c x + 1 else c x

/-- any bus with a per-address access counter on top (one count per load, one per store) -/
def countBus (inner : Bus σ) : Bus (Counted σ) where
  load s a := match inner.load s.inner a with | (r, m) => (r, { inner := m, cnt := bump s.cnt a })
  store s a v r := match inner.store s.inner a v r with | (res, m) => (res, { inner := m, cnt := bump s.cnt a })

/-- the addresses a run of a tree accesses, in order (loads and stores alike) -/
def issued {α : Type} (bus : Bus σ) : Prog α → σ → List Addr
  | .ret _, _ => []
  | .fail _, _ => []
  | .load a k, s =>
    a :: match bus.load s a with
    | (.error _, _) => []
    | (.ok b, s') => issued bus (k b) s'
  | .store a v r k, s =>
    a :: match bus.store s a v r with
    | (.error _, _) => []
    | (.ok r', s') => issued bus (k r') s'

theorem count_cons (a x : Addr) (l : List Addr) : (a :: l).count x = l.count x + (if x = a then 1 else 0) := by
  by_cases h : x = a
  · subst h; simp
  · have : (a == x) = false := by simp [Ne.symm h]
    simp [List.count_cons, h, this]

/-- one tree: counter after = counter before + number of issued accesses to that address -/
theorem prog_counts {α : Type} (inner : Bus σ) : ∀ (p : Prog α) (s : Counted σ) (x : Addr),
    (p.run (countBus inner) s).2.cnt x = s.cnt x + (issued (countBus inner) p s).count x := by
  intro p
  induction p with
  | ret a => intro s x; simp [Prog.run, issued]
  | fail e => intro s x; simp [Prog.run, issued]
  | load a k ih =>
    intro s x
    simp only [Prog.run, issued, count_cons]
    cases hl : (countBus inner).load s a with
    | mk res s' =>
      have hc : s'.cnt = bump s.cnt a := by
        have := congrArg (fun p => p.2.cnt) hl
        simpa [countBus] using this.symm
      cases res with
      | error e => simp [hc, bump]; split <;> omega
      | ok b => simp only []; rw [ih b s' x, hc]; simp only [bump]; split <;> omega
  | store a v r k ih =>
    intro s x
    simp only [Prog.run, issued, count_cons]
    cases hl : (countBus inner).store s a v r with
    | mk res s' =>
      have hc : s'.cnt = bump s.cnt a := by
        have := congrArg (fun p => p.2.cnt) hl
        simpa [countBus] using this.symm
      cases res with
      | error e => simp [hc, bump]; split <;> omega
      | ok r' => simp only []; rw [ih r' s' x, hc]; simp only [bump]; split <;> omega

/-- the accesses of a whole run: the concatenation of the accesses of the executed instructions (the halting
    BRK's opcode fetch and a faulting instruction's accesses up to the fault included: they happened) -/
def runIssued (tbl : Byte → Option H) (kc : CycleConsts) (model : CpuModel) (bus : Bus σ) : Nat → Regs → σ → List Addr
  | 0, _, _ => []
  | n + 1, regs, mem =>
    issued bus (Impl.step tbl kc model regs) mem ++
    match (Impl.step tbl kc model regs).run bus mem with
    | (.error _, _) => []
    | (.ok (out, regs'), mem') => if out.halt then [] else runIssued tbl kc model bus n regs' mem'

/-- C03_run: after a run on a counting bus, the access count of EVERY address has grown by exactly the number
    of accesses the executed instructions made to it. -/
theorem C03_run (tbl : Byte → Option H) (kc : CycleConsts) (model : CpuModel) (inner : Bus σ) (x : Addr) :
    ∀ (n : Nat) (m : Machine (Counted σ)),
      (runLoop tbl kc model (countBus inner) n m).2.mem.cnt x =
        m.mem.cnt x + (runIssued tbl kc model (countBus inner) n m.regs m.mem).count x := by
  intro n
  induction n with
  | zero => intro m; simp [runLoop, runIssued]
  | succ n ih =>
    intro m
    have hp := prog_counts inner (Impl.step tbl kc model m.regs) m.mem x
    simp only [runLoop, runIssued, List.count_append]
    cases h : (Impl.step tbl kc model m.regs).run (countBus inner) m.mem with
    | mk res mem' =>
      rw [h] at hp
      cases res with
      | error e => simp only [] at hp ⊢; simp [hp]
      | ok v =>
        obtain ⟨out, regs'⟩ := v
        by_cases hh : out.halt = true
        · simp only [hh, if_true] at hp ⊢; simp [hp]
        · simp only [hh] at hp ⊢
          simp only [Bool.false_eq_true, if_false]
          rw [ih]
          simp only []
          rw [hp]
          omega

end Verif.Props.C03
