import Verif.Props.C03Run
import Verif.Props.C01Run
import Verif.Impl.MemBus
/-
  C03 at run level AGAINST THE SPECIFICATION: put an access counter on top of any plain bus; the counted bus is a
  plain bus again and its state contains the counters, so `C01_run` applied to it says that after a run of the code
  as it is now EVERY per-address counter holds exactly what it holds after the specification's own run — the opcode
  byte of an instruction counted once per execution, every operand, pointer, effective-address and stack byte once
  per logical use, nothing else — while the executed path is exactly specified.
-/
namespace Verif.Props.C03
open Verif Verif.Impl Verif.Spec Verif.Facts Verif.Proofs

variable {σ : Type}

theorem countBus_plain (inner : Bus σ) (hb : PlainBus inner) : PlainBus (countBus inner) := by
  obtain ⟨f, hf⟩ := hb
  refine ⟨fun s a v => ((f s.inner a v).1, { inner := (f s.inner a v).2, cnt := bump s.cnt a }), ?_⟩
  intro s a v r
  simp only [countBus, hf]

/-- C03_run_spec -/
theorem C03_run_spec (model : CpuModel) (inner : Bus σ) (hb : PlainBus inner) (n : Nat) (m : Machine (Counted σ))
    (hx : RunExact model (countBus inner) n m.regs m.mem) (x : Addr) :
    (runLoop (Generated.opTable model) Generated.consts model (countBus inner) n m).2.mem.cnt x =
      (specLoop model (countBus inner) n m.regs m.mem).2.2.cnt x := by
  have h := Verif.Props.C01.C01_run model (countBus inner) (countBus_plain inner hb) n m hx
  rw [h.2.2]

theorem memBus_plain (k : MemKind) : PlainBus (memBus k) := by
  refine ⟨fun s a v => match store k s a v with | (true, s') => (.ok (), s') | (false, s') => (.error .mem, s'), ?_⟩
  intro s a v r
  simp only [memBus]
  cases h : store k s a v with
  | mk ok s' => cases ok <;> rfl

/-- ON THE REAL MACHINES: for every memory model (linear, X16, GeoRAM, F256 of any size), after a run of the code as
    it is now the ACCESS STATISTICS of every physical byte of every bank — and all contents, banking registers and
    LUTs — are exactly those after the specification's own run on that machine (while the path is exactly
    specified).  Together with C06 (a counter counts the accesses that resolved to its byte) this is the property
    on the counting memories: the numbers in a profile are the program's true fetch and data-use frequencies. -/
theorem C03_run_machine (model : CpuModel) (k : MemKind) (n : Nat) (m : Machine MemState)
    (hx : RunExact model (memBus k) n m.regs m.mem) :
    (runLoop (Generated.opTable model) Generated.consts model (memBus k) n m).2.mem.stat =
      (specLoop model (memBus k) n m.regs m.mem).2.2.stat ∧
    (runLoop (Generated.opTable model) Generated.consts model (memBus k) n m).2.mem.data =
      (specLoop model (memBus k) n m.regs m.mem).2.2.data := by
  have h := Verif.Props.C01.C01_run model (memBus k) (memBus_plain k) n m hx
  rw [h.2.2]
  exact ⟨rfl, rfl⟩

-- non-vacuity: LDA #$05 ; INX ; BRK at $0800 on counted flat RAM: the three opcode bytes and the operand byte are
-- counted once each by the specification's run, nothing else is
example :
    let m0 : Counted (Addr → Byte) := { inner := Verif.Props.C01.demoMem, cnt := fun _ => 0 }
    let r := specLoop .m6502 (countBus flatBus) 3 ⟨0x0800, 0xFF, 0, 0, 0, 0⟩ m0
    r.2.2.cnt 0x0800 = 1 ∧ r.2.2.cnt 0x0801 = 1 ∧ r.2.2.cnt 0x0802 = 1 ∧ r.2.2.cnt 0x0803 = 1 ∧ r.2.2.cnt 0x0804 = 0 := by
  decide

-- non-vacuity on a banked machine: LDA #$05 ; BRK stored at $0800 of an X16 with 64 RAM banks
example : RunExact .m65C02 (memBus (.x16 64)) 2 ⟨0x0800, 0xFF, 0, 0, 0, 0⟩
    ((store (.x16 64) (store (.x16 64) (initState (.x16 64)) 0x0800 0xA9).2 0x0801 5).2) :=
  runExact_of_bool _ _ _ _ _ (by decide)

end Verif.Props.C03
