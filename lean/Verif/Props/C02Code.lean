import Verif.Props.C02
import Verif.Facts.CpuCodeStep
/-
  C02 for the code itself: the cycle count reported by the Lean translation of the Go handlers
  (Generated/CpuCode.lean: `return <literal> + extra, ...` becomes the extracted literal plus the translated
  extra-cycle expression) is the data-sheet count, below every documented opcode, for all registers and bus answers.
-/
namespace Verif.Props.C02
open Verif Verif.Impl Verif.Spec Verif.Facts

theorem C02_code_step (model : CpuModel) (r : Regs) (opc : Byte) (i : Instr) (hd : Spec.decode model opc = some i) :
    SProg.Rel CycRel ((plainM (codeStep model) r).next opc) ((Spec.step model r).next opc) := by
  rw [codeStep_eq_stepNow]; exact C02_step model r opc i hd

/-- the page-cross helper of the source is the documented predicate: pages differ -/
theorem C02_code_page_cross (model : CpuModel) (a b : Addr) :
    Gen.pageCrossCycles model a b = pure (Impl.pageCrossCycles a b) :=
  CpuCode.pageCrossCycles_code_C model a b

end Verif.Props.C02
