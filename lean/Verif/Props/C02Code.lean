import Verif.Props.C02
import Verif.Props.C02Run
import Verif.Facts.CpuCodeStep
/-
  C02 for the code itself: the cycle count reported by the Lean translation of the Go handlers
  (Generated/CpuCode.lean: `return <literal> + extra, ...` becomes the extracted literal plus the translated
  extra-cycle expression) is the data-sheet count, below every documented opcode, for all registers and bus answers.
-/
namespace Verif.Props.C02
open Verif Verif.Impl Verif.Spec Verif.Facts

theorem C02_code_step (model : CpuModel) (r : Regs) (opc : Byte) (i : Instr) (hd : Spec.decode model opc = some i) :
    SProg.Rel CycRel ((plainM (codeStep model) r).next opc) ((Spec.step model r).next opc) := by
  rw [codeStep_eq_stepNow]; exact C02_step model r opc i hd

/-- the page-cross helper of the source is the documented predicate: pages differ -/
theorem C02_code_page_cross (model : CpuModel) (a b : Addr) :
    Gen.pageCrossCycles model a b = pure (Impl.pageCrossCycles a b) :=
  CpuCode.pageCrossCycles_code_C model a b

/-- runs: the cycle counter after a run of the TRANSLATED code = the counter before + the data-sheet cycles of every
    executed non-halting instruction (the total of the specification's own run), on every plain bus, from every
    state, for every number of instructions, while the executed path is exactly specified -/
theorem C02_code_total {σ : Type} (model : CpuModel) (bus : Bus σ) (hb : Verif.PlainBus bus) (n : Nat) (m : Machine σ)
    (hx : Verif.Proofs.RunExact model bus n m.regs m.mem) :
    (codeRunLoop model bus n m).2.cycles = (Verif.Proofs.specLoopC model bus n m.regs m.mem m.cycles).2.2.2 := by
  rw [codeRunLoop_eq]; exact (C02_total model bus hb n m hx).1

end Verif.Props.C02
