import Verif.Props.C11
import Verif.Facts.CpuCodeStep
/-
  C11 for the code itself: through the step that dispatches to the TRANSLATED handlers
  (`Facts.codeStep`, Generated/CpuCode.lean), an opcode the data sheets leave undefined is never
  executed as something else — below the single opcode fetch the step is the error naming the opcode
  and the program counter still pointing at it; no translated handler runs, no further bus access.
-/
namespace Verif.Props.C11
open Verif Verif.Impl Verif.Spec Verif.Facts

theorem C11_code_illegal_step (model : CpuModel) (r : Regs) (opc : Byte) (hd : Spec.decode model opc = none) :
    (plainM (codeStep model) r).next opc = .fail (.illegal opc r.pc) := by
  rw [codeStep_eq_stepNow]; exact C11_illegal_step model r opc hd

/-- ... and the specification stops in the same way at the same place -/
theorem C11_code_illegal_spec (model : CpuModel) (r : Regs) (opc : Byte) (hd : Spec.decode model opc = none) :
    (plainM (codeStep model) r).next opc = .fail (.illegal opc r.pc) ∧
    (Spec.step model r).next opc = .fail (.illegal opc r.pc) :=
  ⟨C11_code_illegal_step model r opc hd, C11_illegal_spec model r opc hd⟩

-- non-vacuity: RTI ($40) is undefined for both models
example : Spec.decode .m65C02 0x40 = none := by decide

end Verif.Props.C11
