import Verif.Impl.CaseRepo
/-
  C18 — Test-case management never destroys files that are still needed.
  Directory = finite map from names to files; theorems hold for every directory and every argument.
  Scope: plain file names; the named case file itself is removed by delcase by definition (also in the
  contrived situation where another case names that very `.json` file as its driver).
-/
namespace Verif.Props.C18
open Verif.Impl

theorem get_erase (d : Dir) (x m : String) : (d.erase x).get m = if m = x then none else d.get m := by
  induction d with
  | nil => simp [Dir.erase, Dir.get]
  | cons e es ih =>
    obtain ⟨k, f⟩ := e
    simp only [Dir.erase, Dir.get]
    by_cases hk : k = x
    · simp only [hk, if_true]
      rw [ih]
      by_cases hm : m = x
      · simp [hm]
      · have : ¬ x = m := fun h => hm h.symm
        simp [hm, this]
    · simp only [hk, if_false, Dir.get]
      by_cases hkm : k = m
      · have : ¬ m = x := fun h => hk (hkm.trans h)
        simp [hkm, this]
      · simp only [hkm, if_false]; exact ih

theorem get_put (d : Dir) (x m : String) (f : File) : (d.put x f).get m = if m = x then some f else d.get m := by
  unfold Dir.put
  simp only [Dir.get]
  by_cases hm : m = x
  · simp [hm]
  · have : ¬ x = m := fun h => hm h.symm
    simp only [this, hm, if_false]
    rw [get_erase]; simp [hm]

theorem has_erase (d : Dir) (x m : String) : (d.erase x).has m = (d.has m && (m != x)) := by
  unfold Dir.has; rw [get_erase]
  by_cases h : m = x
  · subst h; simp
  · simp [h]

/-- C18_add_fail: a failing newcase leaves the directory unchanged -/
theorem C18_add_fail (d : Dir) (n dr sc : String) (cd : Bool) (h : (add d n dr sc cd).1 = false) :
    (add d n dr sc cd).2 = d := by
  unfold add at h ⊢
  split
  · rfl
  · split
    · rfl
    · split
      · rfl
      · rename_i h1 h2 h3
        simp [h1, h2, h3] at h

/-- C18_add_fresh: a successful newcase never overwrites or truncates: every file that existed keeps its
    content; it fails exactly when the case file, the script or (when it would create one) the driver exist -/
theorem C18_add_fresh (d : Dir) (n dr sc : String) (cd : Bool) (h : (add d n dr sc cd).1 = true)
    (m : String) (hm : d.has m = true) : (add d n dr sc cd).2.get m = d.get m := by
  unfold add at h ⊢
  by_cases h1 : d.has (n ++ ".json") = true
  · simp [h1] at h
  · by_cases h2 : d.has sc = true
    · simp [h1, h2] at h
    · by_cases h3 : (cd && d.has dr) = true
      · simp [h1, h2, h3] at h
      · simp only [h1, h2, h3, Bool.false_eq_true, if_false]
        have n1 : m ≠ n ++ ".json" := fun he => h1 (he ▸ hm)
        have n2 : m ≠ sc := fun he => h2 (he ▸ hm)
        cases cd with
        | false => simp only [Bool.false_eq_true, if_false, get_put, n1, n2]
        | true =>
          have n3 : m ≠ dr := by
            intro he
            have : d.has dr = true := he ▸ hm
            simp [this] at h3
          simp only [if_true, get_put, n1, n2, n3, if_false]

theorem C18_add_exact (d : Dir) (n dr sc : String) (cd : Bool) :
    (add d n dr sc cd).1 = false ↔ (d.has (n ++ ".json") = true ∨ d.has sc = true ∨ (cd = true ∧ d.has dr = true)) := by
  unfold add
  by_cases h1 : d.has (n ++ ".json") = true
  · simp [h1]
  · by_cases h2 : d.has sc = true
    · simp [h1, h2]
    · by_cases h3 : (cd && d.has dr) = true
      · simp only [h1, h2, h3, Bool.false_eq_true, if_false, if_true, false_or, true_iff]
        simpa using h3
      · simp only [h1, h2, h3, Bool.false_eq_true, if_false, false_or, false_iff]
        simpa using h3

/-- the name delcase works on -/
def target (caseName : String) : String := if caseName.endsWith ".json" then caseName else caseName ++ ".json"

/-- C18_del_safe: whatever delcase does (success or error), every file it removed other than the named
    case file was the deleted case's driver or script AND was referenced exactly once over all cases of
    the directory, in either role — i.e. by the deleted case only.  So no file a remaining case refers to is
    ever removed. -/
theorem C18_del_safe (d : Dir) (caseName : String) (m : String)
    (hm : d.has m = true) (hgone : (del d caseName).2.has m = false) (hnt : m ≠ target caseName) :
    ∃ driver script cases, getCase d (target caseName) = some (driver, script) ∧ iterate d = some cases ∧
      (m = driver ∨ m = script) ∧ refCount cases m = 1 := by
  unfold del at hgone
  simp only at hgone
  have ht : (if caseName.endsWith ".json" then caseName else caseName ++ ".json") = target caseName := rfl
  rw [ht] at hgone
  cases hg : getCase d (target caseName) with
  | none => rw [hg] at hgone; simp only at hgone; rw [hm] at hgone; cases hgone
  | some ds =>
    obtain ⟨driver, script⟩ := ds
    rw [hg] at hgone
    simp only at hgone
    cases hi : iterate d with
    | none => rw [hi] at hgone; simp only at hgone; rw [hm] at hgone; cases hgone
    | some cases =>
      rw [hi] at hgone
      simp only at hgone
      refine ⟨driver, script, cases, rfl, rfl, ?_⟩
      have hne : (m != target caseName) = true := by simp [bne_iff_ne, hnt]
      -- go through the branches; in each the resulting directory is `d` minus some of the three names
      by_cases b0 : (!d.has (target caseName)) = true
      · rw [if_pos b0] at hgone; rw [hm] at hgone; cases hgone
      · rw [if_neg b0] at hgone
        by_cases a1 : (refCount cases driver == 1) = true
        · by_cases b1 : ((refCount cases driver == 1) && !(d.erase (target caseName)).removable driver) = true
          · rw [if_pos b1] at hgone
            rw [has_erase, hm, hne] at hgone; cases hgone
          · rw [if_neg b1] at hgone
            simp only [a1, if_true] at hgone
            by_cases a2 : (refCount cases script == 1) = true
            · by_cases b2 : ((refCount cases script == 1) && !((d.erase (target caseName)).erase driver).removable script) = true
              · rw [if_pos b2] at hgone
                rw [has_erase, has_erase, hm, hne] at hgone
                simp only [Bool.true_and, bne_eq_false_iff_eq] at hgone
                exact ⟨Or.inl hgone, by rw [hgone]; simpa using a1⟩
              · rw [if_neg b2] at hgone
                simp only [a2, if_true] at hgone
                rw [has_erase, has_erase, has_erase, hm, hne] at hgone
                simp only [Bool.true_and, Bool.and_eq_false_iff, bne_eq_false_iff_eq] at hgone
                rcases hgone with h | h
                · exact ⟨Or.inl h, by rw [h]; simpa using a1⟩
                · exact ⟨Or.inr h, by rw [h]; simpa using a2⟩
            · have a2' : (refCount cases script == 1) = false := by simpa using a2
              simp only [a2', Bool.false_and, Bool.false_eq_true, if_false] at hgone
              rw [has_erase, has_erase, hm, hne] at hgone
              simp only [Bool.true_and, bne_eq_false_iff_eq] at hgone
              exact ⟨Or.inl hgone, by rw [hgone]; simpa using a1⟩
        · have a1' : (refCount cases driver == 1) = false := by simpa using a1
          simp only [a1', Bool.false_and, Bool.false_eq_true, if_false] at hgone
          by_cases a2 : (refCount cases script == 1) = true
          · by_cases b2 : ((refCount cases script == 1) && !(d.erase (target caseName)).removable script) = true
            · rw [if_pos b2] at hgone
              rw [has_erase, hm, hne] at hgone; cases hgone
            · rw [if_neg b2] at hgone
              simp only [a2, if_true] at hgone
              rw [has_erase, has_erase, hm, hne] at hgone
              simp only [Bool.true_and, bne_eq_false_iff_eq] at hgone
              exact ⟨Or.inr hgone, by rw [hgone]; simpa using a2⟩
          · have a2' : (refCount cases script == 1) = false := by simpa using a2
            simp only [a2', Bool.false_and, Bool.false_eq_true, if_false] at hgone
            rw [has_erase, hm, hne] at hgone; cases hgone

/-- C18_iter: list / verifyall enumerate exactly the files whose name is a non-empty stem + `.json` -/
theorem C18_iter : ∀ (d : Dir) (cs : List (String × String × String)), iterate d = some cs →
    cs.map (·.1) = (d.filter (fun e => isCaseName e.1)).map (·.1) := by
  intro d
  induction d with
  | nil => intro cs h; simp [iterate] at h; subst h; rfl
  | cons e es ih =>
    intro cs h
    obtain ⟨k, f⟩ := e
    simp only [iterate] at h
    by_cases hc : isCaseName k = true
    · rw [if_pos hc] at h
      cases f with
      | case dr sc =>
        simp only at h
        cases hr : iterate es with
        | none => rw [hr] at h; cases h
        | some rest =>
          rw [hr] at h
          simp only [Option.map, Option.some.injEq] at h
          subst h
          simp [List.filter, hc, ih rest hr]
      | other t => cases h
      | badJson => cases h
      | dir => cases h
    · rw [if_neg hc] at h
      simp only [List.filter, hc]
      exact ih cs h

end Verif.Props.C18
