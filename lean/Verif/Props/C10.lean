import Verif.Impl.Trap
import Verif.Proofs.AddrLemmas
/-
  C10 — Trap and port stores are intercepted exactly once, in order, with the right byte.
  All statements are about ARBITRARY program trees (so: any sequence of instructions of the CPU model, whose
  trees are tied to the data sheets by C01) on ARBITRARY inner buses (so: every memory model).
-/
namespace Verif.Props.C10
open Verif Verif.Impl

/-- the page test plus exact-address lookup intercepts exactly the trap address: no neighbour in the
    page, no address in another page -/
theorem C10_address (t a : Addr) : wrapIntercepts (t &&& 0xFF00) (fun x => x == t) a = (a == t) := by
  unfold wrapIntercepts
  by_cases h : a = t
  · subst h
    have : a &&& 0xFF00 &&& 0xFF00 = a &&& 0xFF00 := by rw [BitVec.and_assoc, BitVec.and_self]
    rw [this]; simp
  · have : (a == t) = false := by simp [h]
    rw [this]; split
    · rfl
    · exact this

variable {σ : Type}

/-- loads are never intercepted: a load of ANY address, the trap address included, is the inner load -/
theorem C10_load (inner : Bus σ) (t : Addr) (h : Option (Script σ)) (s : Trapped σ) (a : Addr) :
    (trapBus inner t h).load s a = ((inner.load s.inner a).1, { s with inner := (inner.load s.inner a).2 }) := rfl

/-- every other address behaves as plain memory: the store is the inner store, `trap` is not called -/
theorem C10_other (inner : Bus σ) (t : Addr) (h : Option (Script σ)) (s : Trapped σ) (a : Addr) (v : Byte) (r : Regs)
    (ha : a ≠ t) :
    (trapBus inner t h).store s a v r = ((inner.store s.inner a v r).1, { s with inner := (inner.store s.inner a v r).2 }) := by
  have : (a == t) = false := by simp [ha]
  simp only [trapBus]
  rw [C10_address, this]
  simp

/-- a store to the trap address calls `trap` once with the stored byte; memory afterwards is whatever the
    script left (the wrapper itself stores nothing), the registers are the ones the script left -/
theorem C10_trap (inner : Bus σ) (t : Addr) (f : Script σ) (s : Trapped σ) (v : Byte) (r : Regs) :
    (trapBus inner t (some f)).store s t v r = ((f v r s.inner).1, { inner := (f v r s.inner).2, log := s.log ++ [v] }) := by
  simp only [trapBus]
  rw [C10_address]
  simp

/-- in particular a script that leaves memory alone leaves memory — the trap address included — untouched -/
theorem C10_untouched (inner : Bus σ) (t : Addr) (f : Script σ) (s : Trapped σ) (v : Byte) (r : Regs)
    (hf : (f v r s.inner).2 = s.inner) :
    ((trapBus inner t (some f)).store s t v r).2.inner = s.inner := by
  rw [C10_trap]; exact hf

/-- register, flag and stack-pointer changes and memory changes of the script are what the rest of the
    program runs with: the continuation of the store is entered with the script's registers on the
    script's memory -/
theorem C10_script_effect {α : Type} (inner : Bus σ) (t : Addr) (f : Script σ) (s : Trapped σ) (v : Byte) (r r' : Regs)
    (m' : σ) (k : Regs → Prog α) (hf : f v r s.inner = (.ok r', m')) :
    (Prog.store t v r k).run (trapBus inner t (some f)) s =
      (k r').run (trapBus inner t (some f)) { inner := m', log := s.log ++ [v] } := by
  simp only [Prog.run, C10_trap, hf]

/-- the verify path before a script is loaded (PlaceholderWrapper without write function): every store,
    the one to the trap address included, is the plain inner store -/
theorem C10_placeholder_idle (inner : Bus σ) (t : Addr) (s : Trapped σ) (a : Addr) (v : Byte) (r : Regs) :
    (trapBus inner t none).store s a v r = ((inner.store s.inner a v r).1, { s with inner := (inner.store s.inner a v r).2 }) := by
  by_cases ha : a = t
  · subst ha
    simp only [trapBus]
    rw [C10_address]
    simp
  · exact C10_other inner t none s a v r ha

/-- EXACTLY ONCE, IN ORDER, RIGHT BYTE: for every program tree, every inner bus and state, every script:
    after the run the log of `trap` calls is the old log followed by the values of the stores the program
    issued to the trap address, in program order — one call per store, none for anything else. -/
theorem C10_log {α : Type} (inner : Bus σ) (t : Addr) (f : Script σ) :
    ∀ (p : Prog α) (s : Trapped σ),
      (p.run (trapBus inner t (some f)) s).2.log =
        s.log ++ ((storesIssued (trapBus inner t (some f)) p s).filter (fun e => e.1 == t)).map (·.2) := by
  intro p
  induction p with
  | ret a => intro s; simp [Prog.run, storesIssued]
  | fail e => intro s; simp [Prog.run, storesIssued]
  | load a k ih =>
    intro s
    simp only [Prog.run, storesIssued]
    cases hl : (trapBus inner t (some f)).load s a with
    | mk res s' =>
      have hlog : s'.log = s.log := by
        rw [C10_load] at hl; cases hl; rfl
      cases res with
      | error e => simp [hlog]
      | ok b => simp only []; rw [ih b s', hlog]
  | store a v r k ih =>
    intro s
    simp only [Prog.run, storesIssued]
    by_cases ha : a = t
    · subst ha
      rw [C10_trap]
      cases hf : (f v r s.inner).1 with
      | error e => simp
      | ok r' => simp only []; rw [ih r']; simp
    · rw [C10_other inner t (some f) s a v r ha]
      have hne : (a == t) = false := by simp [ha]
      cases hf : (inner.store s.inner a v r).1 with
      | error e => simp [hne]
      | ok r' => simp only []; rw [ih r']; simp [hne]

/-- a program that issues no store to the trap address runs exactly as on the bare memory -/
theorem C10_plain_run {α : Type} (inner : Bus σ) (t : Addr) (h : Option (Script σ)) :
    ∀ (p : Prog α) (s : Trapped σ), (∀ e ∈ storesIssued (trapBus inner t h) p s, e.1 ≠ t) →
      p.run (trapBus inner t h) s = ((p.run inner s.inner).1, { s with inner := (p.run inner s.inner).2 }) := by
  intro p
  induction p with
  | ret a => intro s _; rfl
  | fail e => intro s _; rfl
  | load a k ih =>
    intro s hs
    simp only [Prog.run, storesIssued, C10_load] at hs ⊢
    cases hl : inner.load s.inner a with
    | mk res m =>
      rw [hl] at hs
      cases res with
      | error e => rfl
      | ok b => simp only [] at hs ⊢; exact ih b _ hs
  | store a v r k ih =>
    intro s hs
    have ha : a ≠ t := hs (a, v) (by simp [storesIssued])
    simp only [Prog.run, storesIssued, C10_other inner t h s a v r ha] at hs ⊢
    cases hl : inner.store s.inner a v r with
    | mk res m =>
      rw [hl] at hs
      cases res with
      | error e => rfl
      | ok r' =>
        simp only [] at hs ⊢
        exact ih r' _ (fun e he => hs e (List.mem_cons_of_mem _ he))

/-! ### output ports -/

/-- what a list of issued stores makes the ports print, given how many bytes each port has seen -/
def emitAll (ioMask : Byte) (ports : Nat → Option Port) : (Nat → Nat) → List (Addr × Byte) → List Nat
  | _, [] => []
  | cnt, (a, v) :: rest =>
    if a.toNat / 256 = ioMask.toNat then
      match ports (a.toNat % 256) with
      | some p => portWrite p (cnt (a.toNat % 256)) v.toNat ++
          emitAll ioMask ports (fun o => if o = a.toNat % 256 then cnt o + 1 else cnt o) rest
      | none => emitAll ioMask ports cnt rest
    else emitAll ioMask ports cnt rest

/-- the port layer intercepts exactly: page = IoMask and a port is configured at the offset -/
theorem port_intercepts (ioMask : Byte) (ports : Nat → Option Port) (a : Addr) :
    wrapIntercepts (BitVec.ofNat 16 (ioMask.toNat * 256)) (fun x => (ports (x.toNat % 256)).isSome) a =
      (decide (a.toNat / 256 = ioMask.toNat) && (ports (a.toNat % 256)).isSome) := by
  unfold wrapIntercepts
  have hm : ioMask.toNat < 256 := ioMask.isLt
  have hmn : (BitVec.ofNat 16 (ioMask.toNat * 256)).toNat = ioMask.toNat * 256 := by
    simp only [BitVec.toNat_ofNat]; omega
  rw [and_FF00, and_FF00]
  by_cases h : a.toNat / 256 = ioMask.toNat
  · have : (a >>> 8) <<< 8 = ((BitVec.ofNat 16 (ioMask.toNat * 256) : Addr) >>> 8) <<< 8 :=
      (shift_eq_iff _ _).2 (by rw [hmn]; omega)
    simp [this, h]
  · have : ¬ ((a >>> 8) <<< 8 = ((BitVec.ofNat 16 (ioMask.toNat * 256) : Addr) >>> 8) <<< 8) := by
      intro hh
      have := (shift_eq_iff _ _).1 hh
      rw [hmn] at this
      omega
    simp [this, h]

variable (inner : Bus σ) (ioMask : Byte) (ports : Nat → Option Port)

/-- a store to a configured port prints the byte once in the port's format, counts it for that port only,
    leaves memory and registers untouched -/
theorem C10_port_store (s : PortState σ) (a : Addr) (v : Byte) (r : Regs) (p : Port)
    (hpage : a.toNat / 256 = ioMask.toNat) (hp : ports (a.toNat % 256) = some p) :
    (portBus inner ioMask ports).store s a v r =
      (.ok r, { s with count := fun o => if o = a.toNat % 256 then s.count o + 1 else s.count o,
                       out := s.out ++ portWrite p (s.count (a.toNat % 256)) v.toNat }) := by
  simp [portBus, port_intercepts, hpage, hp]

/-- every other address — other pages, and offsets of the I/O page without a port — is plain memory -/
theorem C10_port_other (s : PortState σ) (a : Addr) (v : Byte) (r : Regs)
    (h : a.toNat / 256 ≠ ioMask.toNat ∨ ports (a.toNat % 256) = none) :
    (portBus inner ioMask ports).store s a v r =
      ((inner.store s.inner a v r).1, { s with inner := (inner.store s.inner a v r).2 }) := by
  rcases h with h | h
  · simp [portBus, port_intercepts, h]
  · simp [portBus, port_intercepts, h]

theorem C10_port_load (s : PortState σ) (a : Addr) :
    (portBus inner ioMask ports).load s a = ((inner.load s.inner a).1, { s with inner := (inner.load s.inner a).2 }) := rfl

/-- EACH STORED BYTE ONCE, IN ORDER, IN THE CONFIGURED FORMAT: for every program tree the text on stdout
    after the run is the old text followed by what the issued stores make the ports print, in program
    order, each byte formatted by its own port with that port's own position counter -/
theorem C10_port_run {α : Type} :
    ∀ (p : Prog α) (s : PortState σ),
      (p.run (portBus inner ioMask ports) s).2.out =
        s.out ++ emitAll ioMask ports s.count (storesIssued (portBus inner ioMask ports) p s) := by
  intro p
  induction p with
  | ret a => intro s; simp [Prog.run, storesIssued, emitAll]
  | fail e => intro s; simp [Prog.run, storesIssued, emitAll]
  | load a k ih =>
    intro s
    simp only [Prog.run, storesIssued, C10_port_load]
    cases hl : inner.load s.inner a with
    | mk res m =>
      cases res with
      | error e => simp [emitAll]
      | ok b => simp only []; rw [ih b]
  | store a v r k ih =>
    intro s
    simp only [Prog.run, storesIssued]
    by_cases hpage : a.toNat / 256 = ioMask.toNat
    · cases hp : ports (a.toNat % 256) with
      | some pt =>
        rw [C10_port_store inner ioMask ports s a v r pt hpage hp]
        simp only [emitAll, hpage, hp, if_true]
        rw [ih r]
        simp [List.append_assoc]
      | none =>
        rw [C10_port_other inner ioMask ports s a v r (Or.inr hp)]
        cases hl : inner.store s.inner a v r with
        | mk res m =>
          cases res with
          | error e => simp [emitAll, hpage, hp]
          | ok r' => simp only [emitAll, hpage, hp, if_true]; rw [ih r']
    · rw [C10_port_other inner ioMask ports s a v r (Or.inl hpage)]
      cases hl : inner.store s.inner a v r with
      | mk res m =>
        cases res with
        | error e => simp [emitAll, hpage]
        | ok r' => simp only [emitAll, hpage, if_false]; rw [ih r']

theorem flat_single (f : Nat → Nat) : ∀ (l : List Nat) (n : Nat),
    ((l.zipIdx n).map (fun x => [f x.1])).flatten = l.map f
  | [], _ => rfl
  | b :: bs, n => by simp [List.zipIdx_cons, flat_single f bs (n + 1)]

/-- the format of one port: feeding bytes b₀ b₁ ... to a fresh port prints `portOutput` of them:
    hex: two upper-case hex digits and a blank per byte, a newline before byte k whenever k > 0 and the line
    length divides k; petscii: the converted character; bin: the byte itself -/
theorem C10_format (p : Port) (bs : List Nat) :
    (bs.zipIdx.map fun (b, k) => portWrite p k b).flatten = portOutput p bs := by
  cases p with
  | hex len =>
    simp only [portOutput]
    congr 1
    apply List.map_congr_left
    intro ⟨b, k⟩ _
    simp only [portWrite]
    by_cases hl : len = 0
    · subst hl
      by_cases hk : k = 0 <;> simp [hk]
    · simp [hl]
  | petscii => exact flat_single petsciiToAscii bs 0
  | bin =>
    have := flat_single id bs 0
    simpa [portOutput, portWrite] using this

end Verif.Props.C10

namespace Verif.Props.C10
open Verif Verif.Spec

/-- the memory read-modify-write mnemonics -/
def isRmw : Mn → Bool
  | .ASL | .LSR | .ROL | .ROR | .INC | .DEC | .TRB | .TSB | .RMB _ | .SMB _ => true
  | _ => false

/-- READ-MODIFY-WRITE: in the data-sheet semantics a memory RMW instruction is: compute the effective
    address, ONE load of it, ONE store to it, and the stored byte is the MODIFIED value `rmw` computes from
    the loaded one.  By C01 (`C01_step_partial`, and as a statement about executions `C01_path_stores`: the store nodes of the code's tree carry the specification's
    addresses and values, in order, and there are no others) the implemented step makes exactly this one
    store — so a trap address hit by INC/DEC/ASL/LSR/ROL/ROR/TSB/TRB/RMBn/SMBn sees one call with the
    modified byte. -/
theorem C10_rmw_spec (model : CpuModel) (i : Instr) (h : isRmw i.mn = true) (hm : i.mode ≠ .acc) :
    exec model i = (do
      let e ← ea i.mode
      let m ← sld e.addr
      let r ← get
      match rmw i.mn r.p r.a m with
      | some (v, p) => do
        sst e.addr v
        set { r with p := p }
        pure ⟨i.cycles + (if i.pagePenalty && e.crossed then 1 else 0), false, 0⟩
      | none => sunspec) := by
  obtain ⟨mn, mode, cyc, pp⟩ := i
  cases mn <;> first | (simp [isRmw] at h; done) | (cases mode <;> first | exact absurd rfl hm | rfl)

end Verif.Props.C10
