import Verif.Facts.CpuCodeBase
/-
  Handlers of the opcode table, part 2 of 4: each translated Go function is the model's handler
  (see Facts/CpuCodeBase.lean for the statement and the tactic).
-/
namespace Verif.Facts.CpuCode
open Verif Verif.Impl
set_option linter.unusedSimpArgs false
set_option linter.unusedVariables false

theorem bvs_code_RCA (model : CpuModel) : evalS (Gen.bvs model) = Impl.handler Generated.consts model .bvs := by
  codeEq [Gen.bvs]
theorem clc_code_RCA (model : CpuModel) : evalS (Gen.clc model) = Impl.handler Generated.consts model .clc := by
  codeEq [Gen.clc]
theorem cld_code_RCA (model : CpuModel) : evalS (Gen.cld model) = Impl.handler Generated.consts model .cld := by
  codeEq [Gen.cld]
theorem cli_code_RCA (model : CpuModel) : evalS (Gen.cli model) = Impl.handler Generated.consts model .cli := by
  codeEq [Gen.cli]
theorem clv_code_RCA (model : CpuModel) : evalS (Gen.clv model) = Impl.handler Generated.consts model .clv := by
  codeEq [Gen.clv]
theorem cmpAbsolute_code_RCA (model : CpuModel) : evalS (Gen.cmpAbsolute model) = Impl.handler Generated.consts model .cmpAbsolute := by
  codeEq [Gen.cmpAbsolute]
theorem cmpAbsoluteX_code_RCA (model : CpuModel) : evalS (Gen.cmpAbsoluteX model) = Impl.handler Generated.consts model .cmpAbsoluteX := by
  codeEq [Gen.cmpAbsoluteX]
theorem cmpAbsoluteY_code_RCA (model : CpuModel) : evalS (Gen.cmpAbsoluteY model) = Impl.handler Generated.consts model .cmpAbsoluteY := by
  codeEq [Gen.cmpAbsoluteY]
theorem cmpIdxXIndirect_code_RCA (model : CpuModel) : evalS (Gen.cmpIdxXIndirect model) = Impl.handler Generated.consts model .cmpIdxXIndirect := by
  codeEq [Gen.cmpIdxXIndirect]
theorem cmpImmediate_code_RCA (model : CpuModel) : evalS (Gen.cmpImmediate model) = Impl.handler Generated.consts model .cmpImmediate := by
  codeEq [Gen.cmpImmediate]
theorem cmpIndIdxY_code_RCA (model : CpuModel) : evalS (Gen.cmpIndIdxY model) = Impl.handler Generated.consts model .cmpIndIdxY := by
  codeEq [Gen.cmpIndIdxY]
theorem cmpIndirect_code_RCA (model : CpuModel) : evalS (Gen.cmpIndirect model) = Impl.handler Generated.consts model .cmpIndirect := by
  codeEq [Gen.cmpIndirect]
theorem cmpZeroPage_code_RCA (model : CpuModel) : evalS (Gen.cmpZeroPage model) = Impl.handler Generated.consts model .cmpZeroPage := by
  codeEq [Gen.cmpZeroPage]
theorem cmpZeroPageX_code_RCA (model : CpuModel) : evalS (Gen.cmpZeroPageX model) = Impl.handler Generated.consts model .cmpZeroPageX := by
  codeEq [Gen.cmpZeroPageX]
theorem cpxAbsolute_code_RCA (model : CpuModel) : evalS (Gen.cpxAbsolute model) = Impl.handler Generated.consts model .cpxAbsolute := by
  codeEq [Gen.cpxAbsolute]
theorem cpxImmediate_code_RCA (model : CpuModel) : evalS (Gen.cpxImmediate model) = Impl.handler Generated.consts model .cpxImmediate := by
  codeEq [Gen.cpxImmediate]
theorem cpxZeroPage_code_RCA (model : CpuModel) : evalS (Gen.cpxZeroPage model) = Impl.handler Generated.consts model .cpxZeroPage := by
  codeEq [Gen.cpxZeroPage]
theorem cpyAbsolute_code_RCA (model : CpuModel) : evalS (Gen.cpyAbsolute model) = Impl.handler Generated.consts model .cpyAbsolute := by
  codeEq [Gen.cpyAbsolute]
theorem cpyImmediate_code_RCA (model : CpuModel) : evalS (Gen.cpyImmediate model) = Impl.handler Generated.consts model .cpyImmediate := by
  codeEq [Gen.cpyImmediate]
theorem cpyZeroPage_code_RCA (model : CpuModel) : evalS (Gen.cpyZeroPage model) = Impl.handler Generated.consts model .cpyZeroPage := by
  codeEq [Gen.cpyZeroPage]
theorem dec65C02_code_RCA (model : CpuModel) : evalS (Gen.dec65C02 model) = Impl.handler Generated.consts model .dec65C02 := by
  codeEq [Gen.dec65C02]
theorem decAbsolute_code_RCA (model : CpuModel) : evalS (Gen.decAbsolute model) = Impl.handler Generated.consts model .decAbsolute := by
  codeEq [Gen.decAbsolute]
theorem decAbsoluteX_code_RCA (model : CpuModel) : evalS (Gen.decAbsoluteX model) = Impl.handler Generated.consts model .decAbsoluteX := by
  codeEq [Gen.decAbsoluteX]
theorem decZeroPage_code_RCA (model : CpuModel) : evalS (Gen.decZeroPage model) = Impl.handler Generated.consts model .decZeroPage := by
  codeEq [Gen.decZeroPage]
theorem decZeroPageX_code_RCA (model : CpuModel) : evalS (Gen.decZeroPageX model) = Impl.handler Generated.consts model .decZeroPageX := by
  codeEq [Gen.decZeroPageX]
theorem dex_code_RCA (model : CpuModel) : evalS (Gen.dex model) = Impl.handler Generated.consts model .dex := by
  codeEq [Gen.dex]
theorem dey_code_RCA (model : CpuModel) : evalS (Gen.dey model) = Impl.handler Generated.consts model .dey := by
  codeEq [Gen.dey]
theorem eorAbsolute_code_RCA (model : CpuModel) : evalS (Gen.eorAbsolute model) = Impl.handler Generated.consts model .eorAbsolute := by
  codeEq [Gen.eorAbsolute]
theorem eorAbsoluteX_code_RCA (model : CpuModel) : evalS (Gen.eorAbsoluteX model) = Impl.handler Generated.consts model .eorAbsoluteX := by
  codeEq [Gen.eorAbsoluteX]
theorem eorAbsoluteY_code_RCA (model : CpuModel) : evalS (Gen.eorAbsoluteY model) = Impl.handler Generated.consts model .eorAbsoluteY := by
  codeEq [Gen.eorAbsoluteY]
theorem eorIdxIndirect_code_RCA (model : CpuModel) : evalS (Gen.eorIdxIndirect model) = Impl.handler Generated.consts model .eorIdxIndirect := by
  codeEq [Gen.eorIdxIndirect]
theorem eorImmediate_code_RCA (model : CpuModel) : evalS (Gen.eorImmediate model) = Impl.handler Generated.consts model .eorImmediate := by
  codeEq [Gen.eorImmediate]
theorem eorIndirect_code_RCA (model : CpuModel) : evalS (Gen.eorIndirect model) = Impl.handler Generated.consts model .eorIndirect := by
  codeEq [Gen.eorIndirect]
theorem eorIndirectIdxY_code_RCA (model : CpuModel) : evalS (Gen.eorIndirectIdxY model) = Impl.handler Generated.consts model .eorIndirectIdxY := by
  codeEq [Gen.eorIndirectIdxY]
theorem eorZeroPage_code_RCA (model : CpuModel) : evalS (Gen.eorZeroPage model) = Impl.handler Generated.consts model .eorZeroPage := by
  codeEq [Gen.eorZeroPage]
theorem eorZeroPageX_code_RCA (model : CpuModel) : evalS (Gen.eorZeroPageX model) = Impl.handler Generated.consts model .eorZeroPageX := by
  codeEq [Gen.eorZeroPageX]
theorem inc65C02_code_RCA (model : CpuModel) : evalS (Gen.inc65C02 model) = Impl.handler Generated.consts model .inc65C02 := by
  codeEq [Gen.inc65C02]
theorem incAbsolute_code_RCA (model : CpuModel) : evalS (Gen.incAbsolute model) = Impl.handler Generated.consts model .incAbsolute := by
  codeEq [Gen.incAbsolute]
theorem incAbsoluteX_code_RCA (model : CpuModel) : evalS (Gen.incAbsoluteX model) = Impl.handler Generated.consts model .incAbsoluteX := by
  codeEq [Gen.incAbsoluteX]
theorem incZeroPage_code_RCA (model : CpuModel) : evalS (Gen.incZeroPage model) = Impl.handler Generated.consts model .incZeroPage := by
  codeEq [Gen.incZeroPage]
theorem incZeroPageX_code_RCA (model : CpuModel) : evalS (Gen.incZeroPageX model) = Impl.handler Generated.consts model .incZeroPageX := by
  codeEq [Gen.incZeroPageX]
theorem inx_code_RCA (model : CpuModel) : evalS (Gen.inx model) = Impl.handler Generated.consts model .inx := by
  codeEq [Gen.inx]
theorem iny_code_RCA (model : CpuModel) : evalS (Gen.iny model) = Impl.handler Generated.consts model .iny := by
  codeEq [Gen.iny]
theorem jmp_code_RCA (model : CpuModel) : evalS (Gen.jmp model) = Impl.handler Generated.consts model .jmp := by
  codeEq [Gen.jmp]
theorem jmpIndexXIndirect_code_RCA (model : CpuModel) : evalS (Gen.jmpIndexXIndirect model) = Impl.handler Generated.consts model .jmpIndexXIndirect := by
  codeEq [Gen.jmpIndexXIndirect]
theorem jmpIndirect6502_code_RCA (model : CpuModel) : evalS (Gen.jmpIndirect6502 model) = Impl.handler Generated.consts model .jmpIndirect6502 := by
  codeEq [Gen.jmpIndirect6502]
theorem jmpIndirect65C02_code_RCA (model : CpuModel) : evalS (Gen.jmpIndirect65C02 model) = Impl.handler Generated.consts model .jmpIndirect65C02 := by
  codeEq [Gen.jmpIndirect65C02]
theorem jsr_code_RCA (model : CpuModel) : evalS (Gen.jsr model) = Impl.handler Generated.consts model .jsr := by
  codeEq [Gen.jsr]
theorem ldaAbsolute_code_RCA (model : CpuModel) : evalS (Gen.ldaAbsolute model) = Impl.handler Generated.consts model .ldaAbsolute := by
  codeEq [Gen.ldaAbsolute]
theorem ldaAbsoluteX_code_RCA (model : CpuModel) : evalS (Gen.ldaAbsoluteX model) = Impl.handler Generated.consts model .ldaAbsoluteX := by
  codeEq [Gen.ldaAbsoluteX]
theorem ldaAbsoluteY_code_RCA (model : CpuModel) : evalS (Gen.ldaAbsoluteY model) = Impl.handler Generated.consts model .ldaAbsoluteY := by
  codeEq [Gen.ldaAbsoluteY]
theorem ldaIdxIndirectX_code_RCA (model : CpuModel) : evalS (Gen.ldaIdxIndirectX model) = Impl.handler Generated.consts model .ldaIdxIndirectX := by
  codeEq [Gen.ldaIdxIndirectX]
theorem ldaImmediate_code_RCA (model : CpuModel) : evalS (Gen.ldaImmediate model) = Impl.handler Generated.consts model .ldaImmediate := by
  codeEq [Gen.ldaImmediate]

end Verif.Facts.CpuCode
