import Verif.Facts.MemAlloc
/- REGENERATED-FACT OBLIGATION (C07): snapshot buffers are as long as the buffers they save. -/
namespace Verif.Facts
open Verif Verif.Generated

theorem snapshot_buffers_sized :
    pairsSized "LinearMemory" LinearMemory_TakeSnapshot = true ∧
    pairsSized "X16Memory" X16Memory_TakeSnapshot = true ∧
    pairsSized "NeoGeoRam" NeoGeoRam_TakeSnapshot = true ∧
    pairsSized "F256RevBMemory" F256RevBMemory_TakeSnapshot = true := by decide

-- non-vacuity: the lookups find something
example : (X16Memory_TakeSnapshot.map fun p => allocOf "X16Memory" p.1).all Option.isSome = true := by decide

end Verif.Facts
