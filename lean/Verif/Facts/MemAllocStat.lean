import Verif.Facts.MemAlloc
/- REGENERATED-FACT OBLIGATION (C06): counter arrays are as long as the data buffers of their regions. -/
namespace Verif.Facts
open Verif Verif.Generated

theorem counters_sized :
    countersSized "LinearMemory" LinearMemory_TakeSnapshot LinearMemory_ClearStatistics = true ∧
    countersSized "X16Memory" X16Memory_TakeSnapshot X16Memory_ClearStatistics = true ∧
    countersSized "NeoGeoRam" NeoGeoRam_TakeSnapshot NeoGeoRam_ClearStatistics = true ∧
    countersSized "F256RevBMemory" F256RevBMemory_TakeSnapshot F256RevBMemory_ClearStatistics = true := by decide

/-- every access counter is a 64-bit counter (an array of them, or a single one for a register cell): it cannot wrap
    within 2^64 accesses to one byte, i.e. within any run that can be executed -/
theorem counters_wide : counterFieldTypes.all (fun e => e.2.2 == "[]uint64" || e.2.2 == "uint64") = true ∧ counterFieldTypes.length ≥ 9 := by
  decide

example : liveFieldOf X16Memory_TakeSnapshot "statBankedRam" = some "bankedRAM8K" := by decide

end Verif.Facts
