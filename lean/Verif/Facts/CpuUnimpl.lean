import Verif.Spec.Isa
import Verif.Generated.OpTable
/-
  REGENERATED-FACT OBLIGATION (tie 1): one of the few CPU files that mention `Verif.Generated.*`;
  re-checked (seconds) whenever the extractor output changes.  Each property imports only the
  facts it needs, so a changed cycle literal breaks C02 only and an opcode registered where the
  data sheets have none breaks C11 only.
-/
namespace Verif.Facts
open Verif Verif.Spec Verif.Generated

theorem unimpl_6502 : ∀ opc : Byte, Spec.decode .m6502 opc = none → opTable .m6502 opc = none := by decide
theorem unimpl_65C02 : ∀ opc : Byte, Spec.decode .m65C02 opc = none → opTable .m65C02 opc = none := by decide

/-- FACT (C11): nothing is registered where the data sheets (minus RTI, STP, WAI) define nothing -/
theorem unimplemented_entry (model : CpuModel) (opc : Byte) (hd : Spec.decode model opc = none) :
    opTable model opc = none := by
  cases model
  · exact unimpl_6502 opc hd
  · exact unimpl_65C02 opc hd

end Verif.Facts
