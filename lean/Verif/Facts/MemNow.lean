import Verif.Impl.MemOps
import Verif.Generated.Memory
/-
  The memory models as the code is now: which regions the snapshot and clear methods of each Go
  type cover and which machine each MemSpec builds — computed from the statements extracted from the
  Go source on this run (definitions only; the obligations about them are in Facts/Mem.lean).
-/
namespace Verif.Facts
open Verif Verif.Impl Verif.Spec Verif.Generated

inductive Role where
  | data | snap | stat
deriving DecidableEq

/-- hand-maintained: what each Go struct field holds -/
def fieldRole : String → Option (Region × Role)
  -- LinearMemory
  | "memory" => some (.main, .data) | "memorySnapshot" => some (.main, .snap) | "accessCount" => some (.main, .stat)
  -- X16Memory / NeoGeoRam
  | "baseMem" => some (.main, .data) | "baseMemSnapshot" => some (.main, .snap) | "statBase" => some (.main, .stat)
  | "bankedRAM8K" => some (.ram, .data) | "bankedRAM8KSnaphot" => some (.ram, .snap) | "statBankedRam" => some (.ram, .stat)
  | "bankedROM16K" => some (.rom, .data) | "bankedROM16KSnapshot" => some (.rom, .snap) | "statBankedRom" => some (.rom, .stat)
  | "neoGeo" => some (.geo, .data) | "neoGeoSnapshot" => some (.geo, .snap) | "statNeoGeo" => some (.geo, .stat)
  -- F256RevBMemory
  | "systemMemory" => some (.main, .data) | "systemMemorySnap" => some (.main, .snap) | "accessSystem" => some (.main, .stat)
  | "ioMemory" => some (.io, .data) | "ioMemorySnap" => some (.io, .snap) | "accessIo" => some (.io, .stat)
  | "mLut" => some (.lut, .data) | "mLutSnap" => some (.lut, .snap) | "accessMLut" => some (.lut, .stat)
  | "mmuMemCtrl" => some (.memCtrl, .data) | "mmuMemCtrlSnap" => some (.memCtrl, .snap)
  | "accessMmuMemCtrl" => some (.memCtrl, .stat)
  | "mmuIoCtrl" => some (.ioCtrl, .data) | "mmuIoCtrlSnap" => some (.ioCtrl, .snap)
  | "accessMmuIoCtrl" => some (.ioCtrl, .stat)
  | _ => none

/-- regions copied data → snapshot by a list of (dst, src) statements.  The NAME of a snapshot buffer carries no
    meaning: any destination that is not itself a data or counter field is the snapshot buffer of the region of
    the data field copied into it (that two regions do not share one buffer is `take_targets_distinct`). -/
def takenBy (ps : List (String × String)) : List Region :=
  ps.filterMap fun (dst, src) =>
    match fieldRole src with
    | some (r, .data) =>
      (match fieldRole dst with
       | some (_, .data) => none
       | some (_, .stat) => none
       | _ => some r)
    | _ => none

/-- regions copied snapshot → data: the source must be the very buffer TakeSnapshot filled from this data field -/
def restoredBy (take ps : List (String × String)) : List Region :=
  ps.filterMap fun (dst, src) =>
    match fieldRole dst with
    | some (r, .data) => if take.contains (src, dst) then some r else none
    | _ => none

def clearedBy (fs : List String) : List Region :=
  fs.filterMap fun f => match fieldRole f with
    | some (r, .stat) => some r
    | _ => none

inductive Tag where
  | linear | x16 | geo | f256
deriving DecidableEq

def tagOf : MemKind → Tag
  | .linear _ => .linear | .x16 _ => .x16 | .geo _ => .geo | .f256 _ => .f256

/-- the regions a machine has -/
def regionsOfTag : Tag → List Region
  | .linear => [.main]
  | .x16 => [.main, .ram, .rom]
  | .geo => [.main, .geo]
  | .f256 => [.main, .io, .lut, .memCtrl, .ioCtrl]

def regionsOf (k : MemKind) : List Region := regionsOfTag (tagOf k)

def clearedOf : Tag → List Region
  | .linear => clearedBy LinearMemory_ClearStatistics
  | .x16 => clearedBy X16Memory_ClearStatistics
  | .geo => clearedBy NeoGeoRam_ClearStatistics
  | .f256 => clearedBy F256RevBMemory_ClearStatistics

def takenOf : Tag → List Region
  | .linear => takenBy LinearMemory_TakeSnapshot
  | .x16 => takenBy X16Memory_TakeSnapshot
  | .geo => takenBy NeoGeoRam_TakeSnapshot
  | .f256 => takenBy F256RevBMemory_TakeSnapshot

def restoredOf : Tag → List Region
  | .linear => restoredBy LinearMemory_TakeSnapshot LinearMemory_RestoreSnapshot
  | .x16 => restoredBy X16Memory_TakeSnapshot X16Memory_RestoreSnapshot
  | .geo => restoredBy NeoGeoRam_TakeSnapshot NeoGeoRam_RestoreSnapshot
  | .f256 => restoredBy F256RevBMemory_TakeSnapshot F256RevBMemory_RestoreSnapshot

/-- the model configuration of a machine kind as the code is now -/
def cfgNow (k : MemKind) : MemCfg := ⟨k, clearedOf (tagOf k), takenOf (tagOf k), restoredOf (tagOf k)⟩

/-- the ten documented machines (README / MemSpec documentation) -/
def docMachine : String → Option MemKind
  | "Linear16K" => some (.linear 16384)
  | "Linear32K" => some (.linear 32768)
  | "Linear48K" => some (.linear 49152)
  | "Linear64K" => some (.linear 65536)
  | "XSixteen512K" => some (.x16 64)
  | "XSixteen2048K" => some (.x16 256)
  | "GeoRam_512K" => some (.geo 5)
  | "GeoRam_2048K" => some (.geo 7)
  | "F256_512K" => some (.f256 0x100000)
  | "F256_768K" => some (.f256 0x140000)
  | _ => none

/-- hand-maintained reading of a constructor call -/
def kindOfCtor : String → String → Option MemKind
  | "memory.NewLinearMemory", "16384" => some (.linear 16384)
  | "memory.NewLinearMemory", "32768" => some (.linear 32768)
  | "memory.NewLinearMemory", "49152" => some (.linear 49152)
  | "memory.NewLinearMemory", "65536" => some (.linear 65536)
  | "memory.NewX16Memory", "memory.X512K" => some (.x16 64)
  | "memory.NewX16Memory", "memory.X2048K" => some (.x16 256)
  | "memory.NewNeoGeo", "memory.NeoGeoRegisterPage + 0xFE,5" => some (.geo 5)
  | "memory.NewNeoGeo", "memory.NeoGeoRegisterPage + 0xFE,7" => some (.geo 7)
  | "memory.NewF56JrMemory", "false" => some (.f256 0x100000)
  | "memory.NewF56JrMemory", "true" => some (.f256 0x140000)
  | _, _ => none

/-- the machine `NewCpu` builds for a MemSpec as the code is now (default arm for anything unlisted) -/
def builtMachine (spec : String) : Option MemKind :=
  match memSpecSwitch.find? (·.1 == spec) with
  | some (_, ctor, args) => kindOfCtor ctor args
  | none =>
    match memSpecSwitch.find? (·.1 == "default") with
    | some (_, ctor, args) => kindOfCtor ctor args
    | none => none

end Verif.Facts
