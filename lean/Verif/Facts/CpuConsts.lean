import Verif.Impl.Consts
import Verif.Generated.Cycles
/-
  REGENERATED-FACT OBLIGATION (tie 1): one of the few CPU files that mention `Verif.Generated.*`;
  re-checked (seconds) whenever the extractor output changes.  Each property imports only the
  facts it needs, so a changed cycle literal breaks C02 only and an opcode registered where the
  data sheets have none breaks C11 only.
-/
namespace Verif.Facts
open Verif Verif.Generated

/-- FACT (C02): every cycle literal of package cpu has the value the handler proofs expect -/
theorem consts_ok : consts = expectedConsts := rfl

end Verif.Facts
