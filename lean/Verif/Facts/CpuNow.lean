import Verif.Impl.Cpu
import Verif.Generated.OpTable
import Verif.Generated.Cycles
/-  The model of the code as it is now: the extracted opcode table and cycle literals. -/
namespace Verif.Facts
open Verif Verif.Impl Verif.Generated

def stepNow (model : CpuModel) : M StepOut := Impl.step (opTable model) consts model

end Verif.Facts
