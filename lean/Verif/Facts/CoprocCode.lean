import Verif.Generated.CoprocCode
import Verif.Impl.Wrapper
import Verif.Impl.MemBus
/-
  Tie 1 for the F256 math coprocessor (memory/f256_coproc.go).  `Generated/CoprocCode.lean` is the Lean
  translation of `WriteUMul` / `WriteUDiv`, regenerated from the Go source on every run, as programs over the
  bus (`f.mem.Load` / `f.mem.Store`).  Run on any of the memory models they are the model's `writeUMul` /
  `writeUDiv` (Impl/Wrapper.lean) the C16 theorems are about: same accesses in the same order, same stored
  values, same behaviour when an access faults — for every memory state, base, address and data byte.
-/
namespace Verif.Facts.CoprocCode
open Verif Verif.Impl Verif.Spec

/-- run a program on a memory model; `none` = some access faulted -/
def runP {α : Type} (k : MemKind) (p : Prog α) (s : MemState) : Option MemState :=
  match p.run (memBus k) s with
  | (.ok _, s') => some s'
  | (.error _, _) => none

/-- ... a handler that does not use the registers -/
def runMem (k : MemKind) (p : M Unit) (s : MemState) : Option MemState := runP k (p default) s

theorem run_ret {α : Type} (k : MemKind) (x : α) (s : MemState) : runP k (Prog.ret x) s = some s := rfl

theorem run_store {α : Type} (k : MemKind) (a : Addr) (v : Byte) (r : Regs) (kont : Regs → Prog α) (s : MemState) :
    runP k (Prog.store a v r kont) s = (storeB k s a v).bind (fun s' => runP k (kont r) s') := by
  simp only [runP, Prog.run, memBus, storeB]
  cases h : store k s a v with
  | mk ok s1 => cases ok <;> simp [Option.bind]

theorem run_load {α : Type} (k : MemKind) (a : Addr) (kont : Byte → Prog α) (s : MemState) :
    runP k (Prog.load a kont) s = (loadB k s a).bind (fun x => runP k (kont x.1) x.2) := by
  simp only [runP, Prog.run, memBus, loadB]
  cases h : load k s a with
  | mk ov s1 => cases ov <;> simp [Option.bind]

theorem and255 (x : Nat) : x &&& 255 = x % 256 := Nat.and_two_pow_sub_one_eq_mod x 8
theorem shr8 (x : Nat) : x >>> 8 = x / 256 := by rw [Nat.shiftRight_eq_div_pow]
theorem hiByte (x : Nat) : (x &&& 65280) >>> 8 = x / 256 % 256 := by
  rw [Nat.shiftRight_and_distrib, shr8, show (65280 : Nat) >>> 8 = 255 by decide, and255]
theorem div3 (x : Nat) : x / 256 / 256 = x / 65536 := by rw [Nat.div_div_eq_div_mul]
theorem div4 (x : Nat) : x / 65536 / 256 = x / 16777216 := by rw [Nat.div_div_eq_div_mul]

theorem ite_app {α β : Type} (c : Prop) [Decidable c] (f g : α → β) (a : α) :
    (if c then f else g) a = if c then f a else g a := by split <;> rfl
theorem ite_appS {α : Type} (c : Prop) [Decidable c] (f g : StateT Regs Prog α) (r : Regs) :
    (if c then f else g) r = if c then f r else g r := by split <;> rfl
theorem hiByte' (x : Nat) : (x &&& 65280) / 256 = x / 256 % 256 := by rw [← shr8, hiByte]
theorem runP_ite {α : Type} (k : MemKind) (c : Prop) [Decidable c] (p q : Prog α) (s : MemState) :
    runP k (if c then p else q) s = if c then runP k p s else runP k q s := by split <;> rfl

/-- both sides as chains of `storeB` / `loadB` in the option monad -/
macro "runNorm" : tactic => `(tactic|
  simp only [runMem, ld, st, bind, StateT.bind, pure, StateT.pure, Prog.bind, ite_app, ite_appS, runP_ite, run_store, run_load, run_ret,
    and255, shr8, hiByte, hiByte', div3, div4, BitVec.add_zero, bne_iff_ne, ne_eq, ite_not, Option.bind_eq_bind])

theorem WriteUMul_code (k : MemKind) (base : Addr) (s : MemState) (a : Addr) (v : Byte) :
    runMem k (GenCoproc.WriteUMul base a v) s = writeUMul k base s a v := by
  unfold GenCoproc.WriteUMul writeUMul
  runNorm
  try simp

theorem WriteUDiv_code (k : MemKind) (base : Addr) (s : MemState) (a : Addr) (v : Byte) :
    runMem k (GenCoproc.WriteUDiv base a v) s = writeUDiv k base s a v := by
  unfold GenCoproc.WriteUDiv writeUDiv
  runNorm
  try simp

end Verif.Facts.CoprocCode
