import Verif.Facts.CpuCodeBase
/-
  Handlers of the opcode table, part 4 of 4: each translated Go function is the model's handler
  (see Facts/CpuCodeBase.lean for the statement and the tactic).
-/
namespace Verif.Facts.CpuCode
open Verif Verif.Impl
set_option linter.unusedSimpArgs false
set_option linter.unusedVariables false

theorem rorAbsoluteX_code_RCA (model : CpuModel) : evalS (Gen.rorAbsoluteX model) = Impl.handler Generated.consts model .rorAbsoluteX := by
  codeEq [Gen.rorAbsoluteX]
theorem rorAbsoluteX65C02_code_RCA (model : CpuModel) : evalS (Gen.rorAbsoluteX65C02 model) = Impl.handler Generated.consts model .rorAbsoluteX65C02 := by
  codeEq [Gen.rorAbsoluteX65C02]
theorem rorZeroPage_code_RCA (model : CpuModel) : evalS (Gen.rorZeroPage model) = Impl.handler Generated.consts model .rorZeroPage := by
  codeEq [Gen.rorZeroPage]
theorem rorZeroPageX_code_RCA (model : CpuModel) : evalS (Gen.rorZeroPageX model) = Impl.handler Generated.consts model .rorZeroPageX := by
  codeEq [Gen.rorZeroPageX]
theorem rts_code_RCA (model : CpuModel) : evalS (Gen.rts model) = Impl.handler Generated.consts model .rts := by
  codeEq [Gen.rts]
theorem sec_code_RCA (model : CpuModel) : evalS (Gen.sec model) = Impl.handler Generated.consts model .sec := by
  codeEq [Gen.sec]
theorem sed_code_RCA (model : CpuModel) : evalS (Gen.sed model) = Impl.handler Generated.consts model .sed := by
  codeEq [Gen.sed]
theorem sei_code_RCA (model : CpuModel) : evalS (Gen.sei model) = Impl.handler Generated.consts model .sei := by
  codeEq [Gen.sei]
theorem smb0_code_RCA (model : CpuModel) : evalS (Gen.smb0 model) = Impl.handler Generated.consts model .smb0 := by
  codeEq [Gen.smb0]
theorem smb1_code_RCA (model : CpuModel) : evalS (Gen.smb1 model) = Impl.handler Generated.consts model .smb1 := by
  codeEq [Gen.smb1]
theorem smb2_code_RCA (model : CpuModel) : evalS (Gen.smb2 model) = Impl.handler Generated.consts model .smb2 := by
  codeEq [Gen.smb2]
theorem smb3_code_RCA (model : CpuModel) : evalS (Gen.smb3 model) = Impl.handler Generated.consts model .smb3 := by
  codeEq [Gen.smb3]
theorem smb4_code_RCA (model : CpuModel) : evalS (Gen.smb4 model) = Impl.handler Generated.consts model .smb4 := by
  codeEq [Gen.smb4]
theorem smb5_code_RCA (model : CpuModel) : evalS (Gen.smb5 model) = Impl.handler Generated.consts model .smb5 := by
  codeEq [Gen.smb5]
theorem smb6_code_RCA (model : CpuModel) : evalS (Gen.smb6 model) = Impl.handler Generated.consts model .smb6 := by
  codeEq [Gen.smb6]
theorem smb7_code_RCA (model : CpuModel) : evalS (Gen.smb7 model) = Impl.handler Generated.consts model .smb7 := by
  codeEq [Gen.smb7]
theorem staAbsolute_code_RCA (model : CpuModel) : evalS (Gen.staAbsolute model) = Impl.handler Generated.consts model .staAbsolute := by
  codeEq [Gen.staAbsolute]
theorem staAbsoluteX_code_RCA (model : CpuModel) : evalS (Gen.staAbsoluteX model) = Impl.handler Generated.consts model .staAbsoluteX := by
  codeEq [Gen.staAbsoluteX]
theorem staAbsoluteY_code_RCA (model : CpuModel) : evalS (Gen.staAbsoluteY model) = Impl.handler Generated.consts model .staAbsoluteY := by
  codeEq [Gen.staAbsoluteY]
theorem staIndirect_code_RCA (model : CpuModel) : evalS (Gen.staIndirect model) = Impl.handler Generated.consts model .staIndirect := by
  codeEq [Gen.staIndirect]
theorem staIndirectY_code_RCA (model : CpuModel) : evalS (Gen.staIndirectY model) = Impl.handler Generated.consts model .staIndirectY := by
  codeEq [Gen.staIndirectY]
theorem staXIndirect_code_RCA (model : CpuModel) : evalS (Gen.staXIndirect model) = Impl.handler Generated.consts model .staXIndirect := by
  codeEq [Gen.staXIndirect]
theorem staZeroPage_code_RCA (model : CpuModel) : evalS (Gen.staZeroPage model) = Impl.handler Generated.consts model .staZeroPage := by
  codeEq [Gen.staZeroPage]
theorem staZeroPageX_code_RCA (model : CpuModel) : evalS (Gen.staZeroPageX model) = Impl.handler Generated.consts model .staZeroPageX := by
  codeEq [Gen.staZeroPageX]
theorem stxAbsolute_code_RCA (model : CpuModel) : evalS (Gen.stxAbsolute model) = Impl.handler Generated.consts model .stxAbsolute := by
  codeEq [Gen.stxAbsolute]
theorem stxZeroPage_code_RCA (model : CpuModel) : evalS (Gen.stxZeroPage model) = Impl.handler Generated.consts model .stxZeroPage := by
  codeEq [Gen.stxZeroPage]
theorem stxZeroPageY_code_RCA (model : CpuModel) : evalS (Gen.stxZeroPageY model) = Impl.handler Generated.consts model .stxZeroPageY := by
  codeEq [Gen.stxZeroPageY]
theorem styAbsolute_code_RCA (model : CpuModel) : evalS (Gen.styAbsolute model) = Impl.handler Generated.consts model .styAbsolute := by
  codeEq [Gen.styAbsolute]
theorem styZeroPage_code_RCA (model : CpuModel) : evalS (Gen.styZeroPage model) = Impl.handler Generated.consts model .styZeroPage := by
  codeEq [Gen.styZeroPage]
theorem styZeroPageX_code_RCA (model : CpuModel) : evalS (Gen.styZeroPageX model) = Impl.handler Generated.consts model .styZeroPageX := by
  codeEq [Gen.styZeroPageX]
theorem stzAbsolute_code_RCA (model : CpuModel) : evalS (Gen.stzAbsolute model) = Impl.handler Generated.consts model .stzAbsolute := by
  codeEq [Gen.stzAbsolute]
theorem stzAbsoluteX_code_RCA (model : CpuModel) : evalS (Gen.stzAbsoluteX model) = Impl.handler Generated.consts model .stzAbsoluteX := by
  codeEq [Gen.stzAbsoluteX]
theorem stzZeroPage_code_RCA (model : CpuModel) : evalS (Gen.stzZeroPage model) = Impl.handler Generated.consts model .stzZeroPage := by
  codeEq [Gen.stzZeroPage]
theorem stzZeroPageX_code_RCA (model : CpuModel) : evalS (Gen.stzZeroPageX model) = Impl.handler Generated.consts model .stzZeroPageX := by
  codeEq [Gen.stzZeroPageX]
theorem subAbsolute_code_RCA (model : CpuModel) : evalS (Gen.subAbsolute model) = Impl.handler Generated.consts model .subAbsolute := by
  codeEq [Gen.subAbsolute]
theorem subAbsoluteX_code_RCA (model : CpuModel) : evalS (Gen.subAbsoluteX model) = Impl.handler Generated.consts model .subAbsoluteX := by
  codeEq [Gen.subAbsoluteX]
theorem subAbsoluteY_code_RCA (model : CpuModel) : evalS (Gen.subAbsoluteY model) = Impl.handler Generated.consts model .subAbsoluteY := by
  codeEq [Gen.subAbsoluteY]
theorem subIdxXIndirect_code_RCA (model : CpuModel) : evalS (Gen.subIdxXIndirect model) = Impl.handler Generated.consts model .subIdxXIndirect := by
  codeEq [Gen.subIdxXIndirect]
theorem subImmediate_code_RCA (model : CpuModel) : evalS (Gen.subImmediate model) = Impl.handler Generated.consts model .subImmediate := by
  codeEq [Gen.subImmediate]
theorem subIndirect_code_RCA (model : CpuModel) : evalS (Gen.subIndirect model) = Impl.handler Generated.consts model .subIndirect := by
  codeEq [Gen.subIndirect]
theorem subIndirectIdxY_code_RCA (model : CpuModel) : evalS (Gen.subIndirectIdxY model) = Impl.handler Generated.consts model .subIndirectIdxY := by
  codeEq [Gen.subIndirectIdxY]
theorem subZeroPage_code_RCA (model : CpuModel) : evalS (Gen.subZeroPage model) = Impl.handler Generated.consts model .subZeroPage := by
  codeEq [Gen.subZeroPage]
theorem subZeroPageX_code_RCA (model : CpuModel) : evalS (Gen.subZeroPageX model) = Impl.handler Generated.consts model .subZeroPageX := by
  codeEq [Gen.subZeroPageX]
theorem tax_code_RCA (model : CpuModel) : evalS (Gen.tax model) = Impl.handler Generated.consts model .tax := by
  codeEq [Gen.tax]
theorem tay_code_RCA (model : CpuModel) : evalS (Gen.tay model) = Impl.handler Generated.consts model .tay := by
  codeEq [Gen.tay]
theorem trbAbsolute_code_RCA (model : CpuModel) : evalS (Gen.trbAbsolute model) = Impl.handler Generated.consts model .trbAbsolute := by
  codeEq [Gen.trbAbsolute]
theorem trbZeroPage_code_RCA (model : CpuModel) : evalS (Gen.trbZeroPage model) = Impl.handler Generated.consts model .trbZeroPage := by
  codeEq [Gen.trbZeroPage]
theorem tsbAbsolute_code_RCA (model : CpuModel) : evalS (Gen.tsbAbsolute model) = Impl.handler Generated.consts model .tsbAbsolute := by
  codeEq [Gen.tsbAbsolute]
theorem tsbZeroPage_code_RCA (model : CpuModel) : evalS (Gen.tsbZeroPage model) = Impl.handler Generated.consts model .tsbZeroPage := by
  codeEq [Gen.tsbZeroPage]
theorem tsx_code_RCA (model : CpuModel) : evalS (Gen.tsx model) = Impl.handler Generated.consts model .tsx := by
  codeEq [Gen.tsx]
theorem txa_code_RCA (model : CpuModel) : evalS (Gen.txa model) = Impl.handler Generated.consts model .txa := by
  codeEq [Gen.txa]
theorem txs_code_RCA (model : CpuModel) : evalS (Gen.txs model) = Impl.handler Generated.consts model .txs := by
  codeEq [Gen.txs]
theorem tya_code_RCA (model : CpuModel) : evalS (Gen.tya model) = Impl.handler Generated.consts model .tya := by
  codeEq [Gen.tya]

end Verif.Facts.CpuCode
