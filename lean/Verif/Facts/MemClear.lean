import Verif.Facts.MemNow
/-
  REGENERATED-FACT OBLIGATION for the memory models (tie 1); one module per fact so that each
  property depends only on the facts it needs.
-/
namespace Verif.Facts
open Verif Verif.Impl Verif.Spec Verif.Generated

theorem clear_covers_tag : ∀ t : Tag, ∀ r ∈ regionsOfTag t, r ∈ clearedOf t := by
  intro t; cases t <;> decide

/-- FACT (C06): ClearStatistics of every model zeroes the counters of every region it has -/
theorem clear_covers (k : MemKind) : ∀ r ∈ regionsOf k, r ∈ (cfgNow k).cleared :=
  clear_covers_tag (tagOf k)

end Verif.Facts
