import Verif.Proofs.Step
import Verif.Generated.OpTable
/-
  REGENERATED-FACT OBLIGATION (tie 1): one of the few CPU files that mention `Verif.Generated.*`;
  re-checked (seconds) whenever the extractor output changes.  Each property imports only the
  facts it needs, so a changed cycle literal breaks C02 only and an opcode registered where the
  data sheets have none breaks C11 only.
-/
namespace Verif.Facts
open Verif Verif.Impl Verif.Spec Verif.Generated

/-- Bool form of "the table entry of an implemented opcode is a handler of its data-sheet line" -/
def entryOkB (model : CpuModel) (opc : Byte) : Bool :=
  match Spec.decode model opc with
  | none => true
  | some i =>
    match opTable model opc with
    | none => false
    | some h => decide (specOf h = i) &&
        (Ok model h || (decide (h = .bitImmediate) && decide (knownDev model opc = flagN ||| flagV)))

theorem entries_6502 : ∀ opc : Byte, entryOkB .m6502 opc = true := by decide
theorem entries_65C02 : ∀ opc : Byte, entryOkB .m65C02 opc = true := by decide

/-- FACT (C01, C02, C03): every opcode the data sheets define is registered with a handler of its
    data-sheet line, on both models -/
theorem implemented_entry (model : CpuModel) (opc : Byte) (i : Instr) (hd : Spec.decode model opc = some i) :
    ∃ h, EntryOk (opTable model) model opc i h := by
  have hb : entryOkB model opc = true := by
    cases model
    · exact entries_6502 opc
    · exact entries_65C02 opc
  unfold entryOkB at hb
  rw [hd] at hb
  cases ht : opTable model opc with
  | none => simp [ht] at hb
  | some h =>
    simp only [ht, Bool.and_eq_true, Bool.or_eq_true, decide_eq_true_eq] at hb
    exact ⟨h, ⟨ht, hb.1, hb.2⟩⟩

end Verif.Facts
