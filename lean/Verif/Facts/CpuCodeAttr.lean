import Lean
/-
  Simp set of the bridge lemmas of Facts/CpuCode.lean: "the translated Go helper IS the model's helper".
  (An attribute has to be registered in a module other than the one that uses it.)
-/
register_simp_attr codeBridge
