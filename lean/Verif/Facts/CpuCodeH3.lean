import Verif.Facts.CpuCodeBase
/-
  Handlers of the opcode table, part 3 of 4: each translated Go function is the model's handler
  (see Facts/CpuCodeBase.lean for the statement and the tactic).
-/
namespace Verif.Facts.CpuCode
open Verif Verif.Impl
set_option linter.unusedSimpArgs false
set_option linter.unusedVariables false

theorem ldaIndIdxY_code_RCA (model : CpuModel) : evalS (Gen.ldaIndIdxY model) = Impl.handler Generated.consts model .ldaIndIdxY := by
  codeEq [Gen.ldaIndIdxY]
theorem ldaIndirect_code_RCA (model : CpuModel) : evalS (Gen.ldaIndirect model) = Impl.handler Generated.consts model .ldaIndirect := by
  codeEq [Gen.ldaIndirect]
theorem ldaZeroPage_code_RCA (model : CpuModel) : evalS (Gen.ldaZeroPage model) = Impl.handler Generated.consts model .ldaZeroPage := by
  codeEq [Gen.ldaZeroPage]
theorem ldaZeroPageIdxX_code_RCA (model : CpuModel) : evalS (Gen.ldaZeroPageIdxX model) = Impl.handler Generated.consts model .ldaZeroPageIdxX := by
  codeEq [Gen.ldaZeroPageIdxX]
theorem ldxAbsolute_code_RCA (model : CpuModel) : evalS (Gen.ldxAbsolute model) = Impl.handler Generated.consts model .ldxAbsolute := by
  codeEq [Gen.ldxAbsolute]
theorem ldxAbsoluteY_code_RCA (model : CpuModel) : evalS (Gen.ldxAbsoluteY model) = Impl.handler Generated.consts model .ldxAbsoluteY := by
  codeEq [Gen.ldxAbsoluteY]
theorem ldxImmediate_code_RCA (model : CpuModel) : evalS (Gen.ldxImmediate model) = Impl.handler Generated.consts model .ldxImmediate := by
  codeEq [Gen.ldxImmediate]
theorem ldxZeroPage_code_RCA (model : CpuModel) : evalS (Gen.ldxZeroPage model) = Impl.handler Generated.consts model .ldxZeroPage := by
  codeEq [Gen.ldxZeroPage]
theorem ldxZeroPageIdxY_code_RCA (model : CpuModel) : evalS (Gen.ldxZeroPageIdxY model) = Impl.handler Generated.consts model .ldxZeroPageIdxY := by
  codeEq [Gen.ldxZeroPageIdxY]
theorem ldyAbsolute_code_RCA (model : CpuModel) : evalS (Gen.ldyAbsolute model) = Impl.handler Generated.consts model .ldyAbsolute := by
  codeEq [Gen.ldyAbsolute]
theorem ldyAbsoluteX_code_RCA (model : CpuModel) : evalS (Gen.ldyAbsoluteX model) = Impl.handler Generated.consts model .ldyAbsoluteX := by
  codeEq [Gen.ldyAbsoluteX]
theorem ldyImmediate_code_RCA (model : CpuModel) : evalS (Gen.ldyImmediate model) = Impl.handler Generated.consts model .ldyImmediate := by
  codeEq [Gen.ldyImmediate]
theorem ldyZeroPage_code_RCA (model : CpuModel) : evalS (Gen.ldyZeroPage model) = Impl.handler Generated.consts model .ldyZeroPage := by
  codeEq [Gen.ldyZeroPage]
theorem ldyZeroPageIdxX_code_RCA (model : CpuModel) : evalS (Gen.ldyZeroPageIdxX model) = Impl.handler Generated.consts model .ldyZeroPageIdxX := by
  codeEq [Gen.ldyZeroPageIdxX]
theorem lsr_code_RCA (model : CpuModel) : evalS (Gen.lsr model) = Impl.handler Generated.consts model .lsr := by
  codeEq [Gen.lsr]
theorem lsrAbsolute_code_RCA (model : CpuModel) : evalS (Gen.lsrAbsolute model) = Impl.handler Generated.consts model .lsrAbsolute := by
  codeEq [Gen.lsrAbsolute]
theorem lsrAbsoluteX_code_RCA (model : CpuModel) : evalS (Gen.lsrAbsoluteX model) = Impl.handler Generated.consts model .lsrAbsoluteX := by
  codeEq [Gen.lsrAbsoluteX]
theorem lsrAbsoluteX65C02_code_RCA (model : CpuModel) : evalS (Gen.lsrAbsoluteX65C02 model) = Impl.handler Generated.consts model .lsrAbsoluteX65C02 := by
  codeEq [Gen.lsrAbsoluteX65C02]
theorem lsrZeroPage_code_RCA (model : CpuModel) : evalS (Gen.lsrZeroPage model) = Impl.handler Generated.consts model .lsrZeroPage := by
  codeEq [Gen.lsrZeroPage]
theorem lsrZeroPageX_code_RCA (model : CpuModel) : evalS (Gen.lsrZeroPageX model) = Impl.handler Generated.consts model .lsrZeroPageX := by
  codeEq [Gen.lsrZeroPageX]
theorem oraAbsolute_code_RCA (model : CpuModel) : evalS (Gen.oraAbsolute model) = Impl.handler Generated.consts model .oraAbsolute := by
  codeEq [Gen.oraAbsolute]
theorem oraAbsoluteX_code_RCA (model : CpuModel) : evalS (Gen.oraAbsoluteX model) = Impl.handler Generated.consts model .oraAbsoluteX := by
  codeEq [Gen.oraAbsoluteX]
theorem oraAbsoluteY_code_RCA (model : CpuModel) : evalS (Gen.oraAbsoluteY model) = Impl.handler Generated.consts model .oraAbsoluteY := by
  codeEq [Gen.oraAbsoluteY]
theorem oraIdxIndirect_code_RCA (model : CpuModel) : evalS (Gen.oraIdxIndirect model) = Impl.handler Generated.consts model .oraIdxIndirect := by
  codeEq [Gen.oraIdxIndirect]
theorem oraImmediate_code_RCA (model : CpuModel) : evalS (Gen.oraImmediate model) = Impl.handler Generated.consts model .oraImmediate := by
  codeEq [Gen.oraImmediate]
theorem oraIndirect_code_RCA (model : CpuModel) : evalS (Gen.oraIndirect model) = Impl.handler Generated.consts model .oraIndirect := by
  codeEq [Gen.oraIndirect]
theorem oraIndirectIdxY_code_RCA (model : CpuModel) : evalS (Gen.oraIndirectIdxY model) = Impl.handler Generated.consts model .oraIndirectIdxY := by
  codeEq [Gen.oraIndirectIdxY]
theorem oraZeroPage_code_RCA (model : CpuModel) : evalS (Gen.oraZeroPage model) = Impl.handler Generated.consts model .oraZeroPage := by
  codeEq [Gen.oraZeroPage]
theorem oraZeroPageX_code_RCA (model : CpuModel) : evalS (Gen.oraZeroPageX model) = Impl.handler Generated.consts model .oraZeroPageX := by
  codeEq [Gen.oraZeroPageX]
theorem pha_code_RCA (model : CpuModel) : evalS (Gen.pha model) = Impl.handler Generated.consts model .pha := by
  codeEq [Gen.pha]
theorem php_code_RCA (model : CpuModel) : evalS (Gen.php model) = Impl.handler Generated.consts model .php := by
  codeEq [Gen.php]
theorem phx_code_RCA (model : CpuModel) : evalS (Gen.phx model) = Impl.handler Generated.consts model .phx := by
  codeEq [Gen.phx]
theorem phy_code_RCA (model : CpuModel) : evalS (Gen.phy model) = Impl.handler Generated.consts model .phy := by
  codeEq [Gen.phy]
theorem pla_code_RCA (model : CpuModel) : evalS (Gen.pla model) = Impl.handler Generated.consts model .pla := by
  codeEq [Gen.pla]
theorem plp_code_RCA (model : CpuModel) : evalS (Gen.plp model) = Impl.handler Generated.consts model .plp := by
  codeEq [Gen.plp]
theorem plx_code_RCA (model : CpuModel) : evalS (Gen.plx model) = Impl.handler Generated.consts model .plx := by
  codeEq [Gen.plx]
theorem ply_code_RCA (model : CpuModel) : evalS (Gen.ply model) = Impl.handler Generated.consts model .ply := by
  codeEq [Gen.ply]
theorem rmb0_code_RCA (model : CpuModel) : evalS (Gen.rmb0 model) = Impl.handler Generated.consts model .rmb0 := by
  codeEq [Gen.rmb0]
theorem rmb1_code_RCA (model : CpuModel) : evalS (Gen.rmb1 model) = Impl.handler Generated.consts model .rmb1 := by
  codeEq [Gen.rmb1]
theorem rmb2_code_RCA (model : CpuModel) : evalS (Gen.rmb2 model) = Impl.handler Generated.consts model .rmb2 := by
  codeEq [Gen.rmb2]
theorem rmb3_code_RCA (model : CpuModel) : evalS (Gen.rmb3 model) = Impl.handler Generated.consts model .rmb3 := by
  codeEq [Gen.rmb3]
theorem rmb4_code_RCA (model : CpuModel) : evalS (Gen.rmb4 model) = Impl.handler Generated.consts model .rmb4 := by
  codeEq [Gen.rmb4]
theorem rmb5_code_RCA (model : CpuModel) : evalS (Gen.rmb5 model) = Impl.handler Generated.consts model .rmb5 := by
  codeEq [Gen.rmb5]
theorem rmb6_code_RCA (model : CpuModel) : evalS (Gen.rmb6 model) = Impl.handler Generated.consts model .rmb6 := by
  codeEq [Gen.rmb6]
theorem rmb7_code_RCA (model : CpuModel) : evalS (Gen.rmb7 model) = Impl.handler Generated.consts model .rmb7 := by
  codeEq [Gen.rmb7]
theorem rol_code_RCA (model : CpuModel) : evalS (Gen.rol model) = Impl.handler Generated.consts model .rol := by
  codeEq [Gen.rol]
theorem rolAbsolute_code_RCA (model : CpuModel) : evalS (Gen.rolAbsolute model) = Impl.handler Generated.consts model .rolAbsolute := by
  codeEq [Gen.rolAbsolute]
theorem rolAbsoluteX_code_RCA (model : CpuModel) : evalS (Gen.rolAbsoluteX model) = Impl.handler Generated.consts model .rolAbsoluteX := by
  codeEq [Gen.rolAbsoluteX]
theorem rolAbsoluteX65C02_code_RCA (model : CpuModel) : evalS (Gen.rolAbsoluteX65C02 model) = Impl.handler Generated.consts model .rolAbsoluteX65C02 := by
  codeEq [Gen.rolAbsoluteX65C02]
theorem rolZeroPage_code_RCA (model : CpuModel) : evalS (Gen.rolZeroPage model) = Impl.handler Generated.consts model .rolZeroPage := by
  codeEq [Gen.rolZeroPage]
theorem rolZeroPageX_code_RCA (model : CpuModel) : evalS (Gen.rolZeroPageX model) = Impl.handler Generated.consts model .rolZeroPageX := by
  codeEq [Gen.rolZeroPageX]
theorem ror_code_RCA (model : CpuModel) : evalS (Gen.ror model) = Impl.handler Generated.consts model .ror := by
  codeEq [Gen.ror]
theorem rorAbsolute_code_RCA (model : CpuModel) : evalS (Gen.rorAbsolute model) = Impl.handler Generated.consts model .rorAbsolute := by
  codeEq [Gen.rorAbsolute]

end Verif.Facts.CpuCode
