import Verif.Facts.MemNow
/-
  REGENERATED-FACT OBLIGATION: buffer sizes.  `copy(dst, src)` silently truncates to the shorter slice, so the
  copy lists of TakeSnapshot / RestoreSnapshot only cover a region if the snapshot buffer is as long as the
  live one; likewise a counter array shorter than its data array would fault or miss accesses.  The fact: in
  every constructor the snapshot buffer and the counter array of a region are allocated with the SAME length
  expression as the live buffer (scalar registers have no allocation on either side).
-/
namespace Verif.Facts
open Verif Verif.Generated

def allocOf (t f : String) : Option String :=
  (allocLens.find? fun e => e.1 == t && e.2.1 == f).map (·.2.2)

/-- snapshot buffers: every (snapshot field, live field) pair of the copy list has equal length expressions -/
def pairsSized (t : String) (ps : List (String × String)) : Bool :=
  ps.all fun p => allocOf t p.1 == allocOf t p.2

/-- the live field of the region a counter field belongs to, from the TakeSnapshot list -/
def liveFieldOf (ps : List (String × String)) (stat : String) : Option String :=
  match fieldRole stat with
  | some (r, .stat) =>
    (ps.find? fun p => match fieldRole p.2 with
      | some (r', .data) => r' == r
      | _ => false).map (·.2)
  | _ => none

/-- counter arrays: every array-valued counter field is as long as the live buffer of its region -/
def countersSized (t : String) (ps : List (String × String)) (stats : List String) : Bool :=
  stats.all fun f => match liveFieldOf ps f with
    | some live => allocOf t f == allocOf t live
    | none => false

end Verif.Facts
