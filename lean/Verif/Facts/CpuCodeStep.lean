import Verif.Facts.CpuCode
import Verif.Facts.CpuNow
import Verif.Impl.Run
/-
  `executeInstruction` over the TRANSLATED handlers: fetch, look the opcode up in the extracted table,
  fault before `c.PC++` when absent, otherwise `c.PC++` and run the translated Go function registered
  for it; the symbolic cycle count is evaluated at the extracted literals.  `codeStep_eq_stepNow` says
  that this is the step of the hand-written model the static proofs are about — by `code_handler`,
  i.e. by the per-function equalities re-checked against the source on every run.
-/
namespace Verif.Facts
open Verif Verif.Impl Verif.Generated

def codeStepS (model : CpuModel) : M StepOutS := do
  let pc := (← get).pc
  let opCode ← ld pc
  match opTable model opCode with
  | none => failM (.illegal opCode pc)
  | some h => do
    incPC
    Gen.handlerS model h

/-- one instruction of the code as translated from the source on this run -/
def codeStep (model : CpuModel) : M StepOut := do
  let o ← codeStepS model
  return o.eval consts

theorem codeStep_eq_stepNow (model : CpuModel) : codeStep model = stepNow model := by
  funext r
  simp only [codeStep, codeStepS, stepNow, Impl.step, Impl.stepS]
  simp only [ld, failM, bind, StateT.bind, get, getThe, MonadStateOf.get, StateT.get, pure, StateT.pure, Prog.bind, incPC,
    modify, modifyGet, MonadStateOf.modifyGet, StateT.modifyGet]
  apply CpuCode.load_congr
  intro b
  cases hb : opTable model b with
  | none => simp only [failM, Prog.bind]
  | some h =>
    have e := congrFun (CpuCode.code_handler model h) { r with pc := r.pc + 1 }
    simp only [CpuCode.evalS, Impl.handler, bind, StateT.bind, pure, StateT.pure] at e
    simp only [Prog.bind, StateT.bind, bind]
    exact e

/-- `RunExt`'s loop over the translated code: fetch, dispatch to the translated handler, add its cycles unless it halts -/
def codeRunLoop {σ : Type} (model : CpuModel) (bus : Bus σ) : Nat → Machine σ → Stop × Machine σ
  | 0, m => (.fuel, m)
  | n + 1, m =>
    match (codeStep model m.regs).run bus m.mem with
    | (.error e, mem') => (.error e, { m with mem := mem' })
    | (.ok (out, regs'), mem') =>
      if out.halt then (.halted, { m with regs := regs', mem := mem' })
      else codeRunLoop model bus n { regs := regs', cycles := m.cycles + out.cycles, mem := mem' }

/-- a run of the translated code is the run of the model the run-level theorems are about -/
theorem codeRunLoop_eq {σ : Type} (model : CpuModel) (bus : Bus σ) (n : Nat) (m : Machine σ) :
    codeRunLoop model bus n m = runLoop (opTable model) consts model bus n m := by
  induction n generalizing m with
  | zero => rfl
  | succ n ih =>
    simp only [codeRunLoop, runLoop, codeStep_eq_stepNow, stepNow, ih]
    rfl

end Verif.Facts
