import Verif.Facts.CpuCode
import Verif.Facts.CpuNow
/-
  `executeInstruction` over the TRANSLATED handlers: fetch, look the opcode up in the extracted table,
  fault before `c.PC++` when absent, otherwise `c.PC++` and run the translated Go function registered
  for it; the symbolic cycle count is evaluated at the extracted literals.  `codeStep_eq_stepNow` says
  that this is the step of the hand-written model the static proofs are about — by `code_handler`,
  i.e. by the per-function equalities re-checked against the source on every run.
-/
namespace Verif.Facts
open Verif Verif.Impl Verif.Generated

def codeStepS (model : CpuModel) : M StepOutS := do
  let pc := (← get).pc
  let opCode ← ld pc
  match opTable model opCode with
  | none => failM (.illegal opCode pc)
  | some h => do
    incPC
    Gen.handlerS model h

/-- one instruction of the code as translated from the source on this run -/
def codeStep (model : CpuModel) : M StepOut := do
  let o ← codeStepS model
  return o.eval consts

theorem codeStep_eq_stepNow (model : CpuModel) : codeStep model = stepNow model := by
  funext r
  simp only [codeStep, codeStepS, stepNow, Impl.step, Impl.stepS]
  simp only [ld, failM, bind, StateT.bind, get, getThe, MonadStateOf.get, StateT.get, pure, StateT.pure, Prog.bind, incPC,
    modify, modifyGet, MonadStateOf.modifyGet, StateT.modifyGet]
  apply CpuCode.load_congr
  intro b
  cases hb : opTable model b with
  | none => simp only [failM, Prog.bind]
  | some h =>
    have e := congrFun (CpuCode.code_handler model h) { r with pc := r.pc + 1 }
    simp only [CpuCode.evalS, Impl.handler, bind, StateT.bind, pure, StateT.pure] at e
    simp only [Prog.bind, StateT.bind, bind]
    exact e

end Verif.Facts
