import Verif.Facts.CpuCodeBase
/-
  Handlers of the opcode table, part 1 of 4: each translated Go function is the model's handler
  (see Facts/CpuCodeBase.lean for the statement and the tactic).
-/
namespace Verif.Facts.CpuCode
open Verif Verif.Impl
set_option linter.unusedSimpArgs false
set_option linter.unusedVariables false

theorem addAbsolute_code_RCA (model : CpuModel) : evalS (Gen.addAbsolute model) = Impl.handler Generated.consts model .addAbsolute := by
  codeEq [Gen.addAbsolute]
theorem addAbsoluteX_code_RCA (model : CpuModel) : evalS (Gen.addAbsoluteX model) = Impl.handler Generated.consts model .addAbsoluteX := by
  codeEq [Gen.addAbsoluteX]
theorem addAbsoluteY_code_RCA (model : CpuModel) : evalS (Gen.addAbsoluteY model) = Impl.handler Generated.consts model .addAbsoluteY := by
  codeEq [Gen.addAbsoluteY]
theorem addIdxXIndirect_code_RCA (model : CpuModel) : evalS (Gen.addIdxXIndirect model) = Impl.handler Generated.consts model .addIdxXIndirect := by
  codeEq [Gen.addIdxXIndirect]
theorem addImmediate_code_RCA (model : CpuModel) : evalS (Gen.addImmediate model) = Impl.handler Generated.consts model .addImmediate := by
  codeEq [Gen.addImmediate]
theorem addIndirect_code_RCA (model : CpuModel) : evalS (Gen.addIndirect model) = Impl.handler Generated.consts model .addIndirect := by
  codeEq [Gen.addIndirect]
theorem addIndirectIdxY_code_RCA (model : CpuModel) : evalS (Gen.addIndirectIdxY model) = Impl.handler Generated.consts model .addIndirectIdxY := by
  codeEq [Gen.addIndirectIdxY]
theorem addZeroPage_code_RCA (model : CpuModel) : evalS (Gen.addZeroPage model) = Impl.handler Generated.consts model .addZeroPage := by
  codeEq [Gen.addZeroPage]
theorem addZeroPageX_code_RCA (model : CpuModel) : evalS (Gen.addZeroPageX model) = Impl.handler Generated.consts model .addZeroPageX := by
  codeEq [Gen.addZeroPageX]
theorem andAbsolute_code_RCA (model : CpuModel) : evalS (Gen.andAbsolute model) = Impl.handler Generated.consts model .andAbsolute := by
  codeEq [Gen.andAbsolute]
theorem andAbsoluteX_code_RCA (model : CpuModel) : evalS (Gen.andAbsoluteX model) = Impl.handler Generated.consts model .andAbsoluteX := by
  codeEq [Gen.andAbsoluteX]
theorem andAbsoluteY_code_RCA (model : CpuModel) : evalS (Gen.andAbsoluteY model) = Impl.handler Generated.consts model .andAbsoluteY := by
  codeEq [Gen.andAbsoluteY]
theorem andIdxIndirect_code_RCA (model : CpuModel) : evalS (Gen.andIdxIndirect model) = Impl.handler Generated.consts model .andIdxIndirect := by
  codeEq [Gen.andIdxIndirect]
theorem andImmediate_code_RCA (model : CpuModel) : evalS (Gen.andImmediate model) = Impl.handler Generated.consts model .andImmediate := by
  codeEq [Gen.andImmediate]
theorem andIndirect_code_RCA (model : CpuModel) : evalS (Gen.andIndirect model) = Impl.handler Generated.consts model .andIndirect := by
  codeEq [Gen.andIndirect]
theorem andIndirectIdxY_code_RCA (model : CpuModel) : evalS (Gen.andIndirectIdxY model) = Impl.handler Generated.consts model .andIndirectIdxY := by
  codeEq [Gen.andIndirectIdxY]
theorem andZeroPage_code_RCA (model : CpuModel) : evalS (Gen.andZeroPage model) = Impl.handler Generated.consts model .andZeroPage := by
  codeEq [Gen.andZeroPage]
theorem andZeroPageX_code_RCA (model : CpuModel) : evalS (Gen.andZeroPageX model) = Impl.handler Generated.consts model .andZeroPageX := by
  codeEq [Gen.andZeroPageX]
theorem asl_code_RCA (model : CpuModel) : evalS (Gen.asl model) = Impl.handler Generated.consts model .asl := by
  codeEq [Gen.asl]
theorem aslAbsolute_code_RCA (model : CpuModel) : evalS (Gen.aslAbsolute model) = Impl.handler Generated.consts model .aslAbsolute := by
  codeEq [Gen.aslAbsolute]
theorem aslAbsoluteX_code_RCA (model : CpuModel) : evalS (Gen.aslAbsoluteX model) = Impl.handler Generated.consts model .aslAbsoluteX := by
  codeEq [Gen.aslAbsoluteX]
theorem aslAbsoluteX65C02_code_RCA (model : CpuModel) : evalS (Gen.aslAbsoluteX65C02 model) = Impl.handler Generated.consts model .aslAbsoluteX65C02 := by
  codeEq [Gen.aslAbsoluteX65C02]
theorem aslZeroPage_code_RCA (model : CpuModel) : evalS (Gen.aslZeroPage model) = Impl.handler Generated.consts model .aslZeroPage := by
  codeEq [Gen.aslZeroPage]
theorem aslZeroPageX_code_RCA (model : CpuModel) : evalS (Gen.aslZeroPageX model) = Impl.handler Generated.consts model .aslZeroPageX := by
  codeEq [Gen.aslZeroPageX]
theorem bbr0_code_RCA (model : CpuModel) : evalS (Gen.bbr0 model) = Impl.handler Generated.consts model .bbr0 := by
  codeEq [Gen.bbr0]
theorem bbr1_code_RCA (model : CpuModel) : evalS (Gen.bbr1 model) = Impl.handler Generated.consts model .bbr1 := by
  codeEq [Gen.bbr1]
theorem bbr2_code_RCA (model : CpuModel) : evalS (Gen.bbr2 model) = Impl.handler Generated.consts model .bbr2 := by
  codeEq [Gen.bbr2]
theorem bbr3_code_RCA (model : CpuModel) : evalS (Gen.bbr3 model) = Impl.handler Generated.consts model .bbr3 := by
  codeEq [Gen.bbr3]
theorem bbr4_code_RCA (model : CpuModel) : evalS (Gen.bbr4 model) = Impl.handler Generated.consts model .bbr4 := by
  codeEq [Gen.bbr4]
theorem bbr5_code_RCA (model : CpuModel) : evalS (Gen.bbr5 model) = Impl.handler Generated.consts model .bbr5 := by
  codeEq [Gen.bbr5]
theorem bbr6_code_RCA (model : CpuModel) : evalS (Gen.bbr6 model) = Impl.handler Generated.consts model .bbr6 := by
  codeEq [Gen.bbr6]
theorem bbr7_code_RCA (model : CpuModel) : evalS (Gen.bbr7 model) = Impl.handler Generated.consts model .bbr7 := by
  codeEq [Gen.bbr7]
theorem bbs0_code_RCA (model : CpuModel) : evalS (Gen.bbs0 model) = Impl.handler Generated.consts model .bbs0 := by
  codeEq [Gen.bbs0]
theorem bbs1_code_RCA (model : CpuModel) : evalS (Gen.bbs1 model) = Impl.handler Generated.consts model .bbs1 := by
  codeEq [Gen.bbs1]
theorem bbs2_code_RCA (model : CpuModel) : evalS (Gen.bbs2 model) = Impl.handler Generated.consts model .bbs2 := by
  codeEq [Gen.bbs2]
theorem bbs3_code_RCA (model : CpuModel) : evalS (Gen.bbs3 model) = Impl.handler Generated.consts model .bbs3 := by
  codeEq [Gen.bbs3]
theorem bbs4_code_RCA (model : CpuModel) : evalS (Gen.bbs4 model) = Impl.handler Generated.consts model .bbs4 := by
  codeEq [Gen.bbs4]
theorem bbs5_code_RCA (model : CpuModel) : evalS (Gen.bbs5 model) = Impl.handler Generated.consts model .bbs5 := by
  codeEq [Gen.bbs5]
theorem bbs6_code_RCA (model : CpuModel) : evalS (Gen.bbs6 model) = Impl.handler Generated.consts model .bbs6 := by
  codeEq [Gen.bbs6]
theorem bbs7_code_RCA (model : CpuModel) : evalS (Gen.bbs7 model) = Impl.handler Generated.consts model .bbs7 := by
  codeEq [Gen.bbs7]
theorem bcc_code_RCA (model : CpuModel) : evalS (Gen.bcc model) = Impl.handler Generated.consts model .bcc := by
  codeEq [Gen.bcc]
theorem bcs_code_RCA (model : CpuModel) : evalS (Gen.bcs model) = Impl.handler Generated.consts model .bcs := by
  codeEq [Gen.bcs]
theorem beq_code_RCA (model : CpuModel) : evalS (Gen.beq model) = Impl.handler Generated.consts model .beq := by
  codeEq [Gen.beq]
theorem bitAbsolute_code_RCA (model : CpuModel) : evalS (Gen.bitAbsolute model) = Impl.handler Generated.consts model .bitAbsolute := by
  codeEq [Gen.bitAbsolute]
theorem bitAbsoluteX_code_RCA (model : CpuModel) : evalS (Gen.bitAbsoluteX model) = Impl.handler Generated.consts model .bitAbsoluteX := by
  codeEq [Gen.bitAbsoluteX]
theorem bitImmediate_code_RCA (model : CpuModel) : evalS (Gen.bitImmediate model) = Impl.handler Generated.consts model .bitImmediate := by
  codeEq [Gen.bitImmediate]
theorem bitZeroPage_code_RCA (model : CpuModel) : evalS (Gen.bitZeroPage model) = Impl.handler Generated.consts model .bitZeroPage := by
  codeEq [Gen.bitZeroPage]
theorem bitZeroPageX_code_RCA (model : CpuModel) : evalS (Gen.bitZeroPageX model) = Impl.handler Generated.consts model .bitZeroPageX := by
  codeEq [Gen.bitZeroPageX]
theorem bmi_code_RCA (model : CpuModel) : evalS (Gen.bmi model) = Impl.handler Generated.consts model .bmi := by
  codeEq [Gen.bmi]
theorem bne_code_RCA (model : CpuModel) : evalS (Gen.bne model) = Impl.handler Generated.consts model .bne := by
  codeEq [Gen.bne]
theorem bpl_code_RCA (model : CpuModel) : evalS (Gen.bpl model) = Impl.handler Generated.consts model .bpl := by
  codeEq [Gen.bpl]
theorem bra_code_RCA (model : CpuModel) : evalS (Gen.bra model) = Impl.handler Generated.consts model .bra := by
  codeEq [Gen.bra]
theorem bvc_code_RCA (model : CpuModel) : evalS (Gen.bvc model) = Impl.handler Generated.consts model .bvc := by
  codeEq [Gen.bvc]

end Verif.Facts.CpuCode
