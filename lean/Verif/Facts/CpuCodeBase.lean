import Verif.Generated.CpuCode
import Verif.Generated.Cycles
import Verif.Facts.CpuCodeAttr
import Verif.Proofs.AddrLemmas
/-
  Tie 1 for the instruction handlers themselves.  `Generated/CpuCode.lean` is package cpu translated
  function by function from the Go source on every run (harness/cmd/extract/gotolean.go).  This file
  proves that every translated function IS the corresponding definition of the hand-written model
  `Impl` — as programs over the bus: same loads and stores in the same order at the same addresses with
  the same values, same registers, same symbolic cycle expression — for all register states and all
  bytes the bus may return.  With that, every theorem about `Impl.handlerS` is a theorem about the code
  as it is now (`code_handler`); the property theorems are restated for `Gen.handlerS` in Props.

  Statements are fixed here; only `Generated/CpuCode.lean` changes with the source.  A theorem that
  stops checking names the Go function whose translation no longer is the model's.
-/
namespace Verif.Facts.CpuCode
open Verif Verif.Impl
set_option linter.unusedSimpArgs false
set_option linter.unusedVariables false

theorem ite_app {α β : Type} (c : Prop) [Decidable c] (f g : α → β) (a : α) :
    (if c then f else g) a = if c then f a else g a := by split <;> rfl

/-- `uint16(hi)<<8 | uint16(lo)` is `uint16(hi)*256 + uint16(lo)` -/
theorem shl8_or (h l : Byte) : ((u16 h <<< 8) ||| u16 l) = u16 h * 256 + u16 l := by
  apply BitVec.eq_of_toNat_eq
  have hl := l.isLt
  have hh := h.isLt
  have e0 : BitVec.toNat (256 : BitVec 16) = 256 := rfl
  simp only [u16, BitVec.toNat_or, BitVec.toNat_shiftLeft, BitVec.toNat_setWidth, BitVec.toNat_add, BitVec.toNat_mul,
    Nat.shiftLeft_eq, e0]
  have e1 : h.toNat % 2 ^ 16 = h.toNat := Nat.mod_eq_of_lt (by omega)
  have e2 : l.toNat % 2 ^ 16 = l.toNat := Nat.mod_eq_of_lt (by omega)
  rw [e1, e2]
  have e3 : h.toNat * 2 ^ 8 % 2 ^ 16 = h.toNat * 2 ^ 8 := Nat.mod_eq_of_lt (by omega)
  have e4 : h.toNat * 2 ^ 8 ||| l.toNat = h.toNat * 2 ^ 8 + l.toNat := by
    rw [← Nat.shiftLeft_eq, Nat.shiftLeft_add_eq_or_of_lt (by omega)]
  rw [e3, e4]
  omega

/-- "same page" spelled with a mask or with a shift -/
theorem page_eq_shift (a b : Addr) : (a &&& 0xFF00 = b &&& 0xFF00) ↔ (a >>> 8 = b >>> 8) := by
  rw [Verif.and_FF00, Verif.and_FF00, Verif.shift_eq_iff]
  constructor
  · intro h
    apply BitVec.eq_of_toNat_eq
    simp only [BitVec.toNat_ushiftRight, Nat.shiftRight_eq_div_pow]
    exact h
  · intro h
    have := congrArg BitVec.toNat h
    simp only [BitVec.toNat_ushiftRight, Nat.shiftRight_eq_div_pow] at this
    exact this

theorem page_eq_shift' (a b : Addr) : (a &&& 65280#16 = b &&& 65280#16) ↔ (a >>> 8 = b >>> 8) := page_eq_shift a b

/-- a `ModifierOp` of the Go code as a function on the register state -/
def GenMod (m : Modifier) : CpuModel → Byte → M Byte := fun _ a r =>
  Prog.ret ((m.apply r.p a).1, { r with p := (m.apply r.p a).2 })

/-- bring a monadic term applied to a register state into tree form -/
macro "normM" : tactic => `(tactic|
  simp only [ld, st, failM, bind, StateT.bind, get, getThe, MonadStateOf.get, StateT.get,
    set, MonadStateOf.set, StateT.set, modify, modifyGet, MonadStateOf.modifyGet, StateT.modifyGet, pure, StateT.pure,
    Prog.bind, GenMod, getReg, setReg, incPC, setPC, setP, setA, setX, setY, setSP, setIf, mkAddr, ite_app, Bool.cond_eq_ite, ite_true, ite_false,
    reduceIte, Nat.add_zero, Nat.zero_add, StepOutS.eval, shl8_or, Bool.and_eq_true, Bool.or_eq_true, decide_eq_true_eq, bne_iff_ne, beq_iff_eq, ne_eq])

theorem load_congr {α : Type} {a : Addr} {k k' : Byte → Prog α} (h : ∀ b, k b = k' b) :
    Prog.load a k = Prog.load a k' := by
  have : k = k' := funext h
  rw [this]
theorem store_congr {α : Type} {a : Addr} {v : Byte} {r : Regs} {k k' : Regs → Prog α} (h : ∀ r', k r' = k' r') :
    Prog.store a v r k = Prog.store a v r k' := by
  have : k = k' := funext h
  rw [this]

open Lean Elab Tactic Meta in
/-- revert every local of type `BitVec 8` (and with it every hypothesis about it) -/
elab "revertBytes" : tactic => withMainContext do
  let lctx ← getLCtx
  let byteT := mkApp (mkConst ``BitVec) (mkNatLit 8)
  let mut ids : Array FVarId := #[]
  for d in lctx do
    if d.isImplementationDetail then continue
    if (← isDefEq d.type byteT) then ids := ids.push d.fvarId
  let g ← getMainGoal
  let (_, g') ← g.revert ids (preserveOrder := true)
  replaceMainGoal [g']

open Lean Elab Tactic Meta in
/-- revert the bytes some hypothesis talks about (used after `exfalso`: contradictory conditions on one byte) -/
elab "revertHypBytes" : tactic => withMainContext do
  let lctx ← getLCtx
  let byteT := mkApp (mkConst ``BitVec) (mkNatLit 8)
  let mut ids : Array FVarId := #[]
  for d in lctx do
    if d.isImplementationDetail then continue
    if (← isDefEq d.type byteT) then
      let mut used := false
      for h in lctx do
        if h.isImplementationDetail then continue
        if (← isProp h.type) && (← instantiateMVars h.type).containsFVar d.fvarId then used := true
      if used then ids := ids.push d.fvarId
  if ids.size > 1 then throwError "more than one byte"
  let g ← getMainGoal
  let (_, g') ← g.revert ids (preserveOrder := true)
  replaceMainGoal [g']

open Lean Elab Tactic Meta in
/-- split every hypothesis that is a conjunction -/
elab "splitAnds" : tactic => do
  for _ in [0:12] do
    let found ← withMainContext do
      let lctx ← getLCtx
      for d in lctx do
        if d.isImplementationDetail then continue
        let t ← instantiateMVars d.type
        if t.isAppOfArity ``And 2 then
          let g ← getMainGoal
          let subgoals ← g.cases d.fvarId
          replaceMainGoal (subgoals.toList.map (·.mvarId))
          return true
      return false
    if !found then break

/-- last resort for a leaf that is a statement about ONE byte (a different but equivalent bit-level spelling in
    the source, e.g. `in >> 4` for `(in & 0xF0) >> 4`): decide it for all 256 values -/
macro "byteFinish" : tactic => `(tactic|
  (splitAnds; (try subst_vars); first | (revertBytes; decide) | (exfalso; revertHypBytes; decide)))

/-- compare two trees: normalise, descend below equal bus accesses, split every conditional, close the leaves -/
macro "eqM" : tactic => `(tactic|
  ((try normM);
   repeat' (first | (apply load_congr; intro _) | (apply store_congr; intro _) | (split <;> (try normM)));
   all_goals (try subst_vars); all_goals (try simp_all); all_goals (try normM);
   all_goals (try subst_vars); all_goals (try (simp_all [BitVec.not_le, BitVec.not_lt, page_eq_shift, page_eq_shift']));
   all_goals (try (exact Verif.pageCross_comm _ _));
   all_goals (try (intros; bv_omega)); all_goals (try byteFinish)))

/-- the model's definitions a handler is made of -/
macro "implDefs" : tactic => `(tactic|
  try simp only [handlerS, readOp, storeOp, modOp, modImplied, testBitsOp, Impl.rmbBase, Impl.smbBase,
    pushOp, pullOp, Impl.plp, regOp, Impl.jsr, Impl.rts, Impl.jmp, Impl.jmpIndirect6502, Impl.jmpIndirect65C02,
    Impl.jmpIndexXIndirect, Impl.bra, Impl.push, Impl.pop, Impl.branchOnFlagClear, Impl.branchOnFlagSet,
    Impl.branchOnBitClear, Impl.branchOnBitSet,
    getAddr, Impl.getAddrAbsolute, Impl.getAddrZeroPage, Impl.getAddrAbsoluteX, Impl.getAddrAbsoluteY, Impl.getAddrZeroPageX,
    Impl.getAddrZeroPageY, Impl.getAddrIndirect, Impl.getAddrIndirectJmp6502, Impl.getAddrRelative, Impl.getAddrIndirectIdxY,
    Impl.getAddrIdxIndirectX, Impl.getAddrZp65C02, Impl.getAddrIdxIndirect65C02, Impl.getAddressesBitBranchRelative,
    ReadOp.run, Src.get, relTarget])

/-- the shared handler bodies of the Go code (`logicalXxx(c, op)`, `c.modXxx(op)`, `branchOnXxx`, `rmbBase`, `smbBase`):
    always unfolded, like helper functions that are new in the source (`unfoldNewGen`, generated) -/
macro "genBodies" : tactic => `(tactic|
  try simp only [Gen.logicalImmediate, Gen.logicalZeroPage, Gen.logicalZeroPageX, Gen.logicalAbsolute, Gen.logicalAbsoluteX,
    Gen.logicalAbsoluteY, Gen.logicalIdxXIndirect, Gen.logicalIndirectIdxY, Gen.logicalIndirect,
    Gen.modImplied, Gen.modZeroPage, Gen.modZeroPageX, Gen.modAbsolute, Gen.modAbsoluteX, Gen.modAbsoluteX65C02,
    Gen.branchOnFlagClear, Gen.branchOnFlagSet, Gen.branchOnBitClear, Gen.branchOnBitSet, Gen.rmbBase, Gen.smbBase,
    Gen.ldaBase, Gen.ldxBase, Gen.ldyBase])

/-- a handler's symbolic cycle count evaluated at the literals extracted from the source on this run -/
def evalS (m : M StepOutS) : M StepOut := do
  let o ← m
  return o.eval Generated.consts

/-- `codeEq [Gen.f]`: unfold the translated function, the shared bodies and every helper that is new in the
    source, replace the translated helpers the obligations name by the model's (bridge lemmas proved above),
    unfold the model's side, compare the trees; where the source has a cycle literal in a place the model has a
    named one, compare their values -/
macro "codeEq" "[" ts:Lean.Parser.Tactic.simpLemma,* "]" : tactic => `(tactic|
  (funext r; (try simp only [evalS, Impl.handler, $ts,*, codeBridge]);
   unfoldNewGen; genBodies; (try simp only [codeBridge]); unfoldNewGen; genBodies; (try simp only [codeBridge]);
   implDefs; eqM;
   all_goals (try rfl); all_goals (try (simp only [Generated.consts])); all_goals (try simp_all); all_goals (try omega); all_goals (try ac_rfl);
   all_goals (try (simp only [Nat.add_assoc, Nat.add_comm, Nat.add_left_comm]))))

-- ---------------------------------------------------------------------------------------
-- helpers: flags and ALU (property C01)

@[codeBridge] theorem nzFlags_code_R (model : CpuModel) (v : Byte) :
    Gen.nzFlags model v = modify fun r => { r with p := Impl.nzFlags r.p v } := by
  codeEq [Gen.nzFlags, Impl.nzFlags]

@[codeBridge] theorem pageCrossCycles_code_C (model : CpuModel) (a b : Addr) :
    Gen.pageCrossCycles model a b = pure (Impl.pageCrossCycles a b) := by
  codeEq [Gen.pageCrossCycles, Impl.pageCrossCycles]

@[codeBridge] theorem addBaseBin_code_R (model : CpuModel) (a b : Byte) :
    Gen.addBaseBin model a b =
      fun r => Prog.ret ((Impl.addBaseBin r.p a b).1, { r with p := (Impl.addBaseBin r.p a b).2 }) := by
  codeEq [Gen.addBaseBin, Impl.addBaseBin]

@[codeBridge] theorem subBaseBin_code_R (model : CpuModel) (a b : Byte) :
    Gen.subBaseBin model a b =
      fun r => Prog.ret ((Impl.subBaseBin r.p a b).1, { r with p := (Impl.subBaseBin r.p a b).2 }) := by
  codeEq [Gen.subBaseBin, Impl.subBaseBin]

@[codeBridge] theorem fromBCD_code_R (model : CpuModel) (v : Byte) :
    Gen.fromBCD model v = fun r => match Impl.fromBCD v with
      | none => Prog.fail .bcd
      | some x => Prog.ret (x, r) := by
  codeEq [Gen.fromBCD, Impl.fromBCD]

@[codeBridge] theorem toBCD_code_R (model : CpuModel) (v : Byte) :
    Gen.toBCD model v = pure (Impl.toBCD v) := by
  codeEq [Gen.toBCD, Impl.toBCD]

@[codeBridge] theorem prepBCD_code_R (model : CpuModel) (a b : Byte) :
    Gen.prepBCD model a b = fun r => match Impl.prepBCD r.p a b with
      | none => Prog.fail .bcd
      | some x => Prog.ret (x, r) := by
  codeEq [Gen.prepBCD, Impl.prepBCD]

@[codeBridge] theorem addBaseBcd6502_code_R (model : CpuModel) (a b : Byte) :
    Gen.addBaseBcd6502 model a b = fun r => match Impl.addBaseBcd6502 r.p a b with
      | none => Prog.fail .bcd
      | some x => Prog.ret (x.1, { r with p := x.2 }) := by
  codeEq [Gen.addBaseBcd6502, Impl.addBaseBcd6502]

@[codeBridge] theorem subBaseBcd_code_R (model : CpuModel) (a b : Byte) :
    Gen.subBaseBcd model a b = fun r => match Impl.subBaseBcd r.p a b with
      | none => Prog.fail .bcd
      | some x => Prog.ret (x.1, { r with p := x.2 }) := by
  codeEq [Gen.subBaseBcd, Impl.subBaseBcd]

@[codeBridge] theorem addBase_code_RC (model : CpuModel) (a b : Byte) :
    Gen.addBase model a b = fun r => match Impl.addBase model r.p a b with
      | none => Prog.fail .bcd
      | some x => Prog.ret ((x.1, x.2.2), { r with p := x.2.1 }) := by
  codeEq [Gen.addBase, Impl.addBase]

@[codeBridge] theorem subBase_code_RC (model : CpuModel) (a b : Byte) :
    Gen.subBase model a b = fun r => match Impl.subBase model r.p a b with
      | none => Prog.fail .bcd
      | some x => Prog.ret ((x.1, x.2.2), { r with p := x.2.1 }) := by
  codeEq [Gen.subBase, Impl.subBase]

@[codeBridge] theorem cmpBase_code_R (model : CpuModel) (a b : Byte) :
    Gen.cmpBase model a b = modify fun r => { r with p := Impl.cmpBase r.p a b } := by
  codeEq [Gen.cmpBase, Impl.cmpBase]

@[codeBridge] theorem bitBase_code_R (model : CpuModel) (v : Byte) :
    Gen.bitBase model v = modify fun r => { r with p := Impl.bitBase r.p r.a v } := by
  codeEq [Gen.bitBase, Impl.bitBase]

@[codeBridge] theorem trbBase_code_R (model : CpuModel) (v : Byte) :
    Gen.trbBase model v =
      fun r => Prog.ret ((Impl.trbBase r.p r.a v).1, { r with p := (Impl.trbBase r.p r.a v).2 }) := by
  codeEq [Gen.trbBase, Impl.trbBase]

@[codeBridge] theorem tsbBase_code_R (model : CpuModel) (v : Byte) :
    Gen.tsbBase model v =
      fun r => Prog.ret ((Impl.tsbBase r.p r.a v).1, { r with p := (Impl.tsbBase r.p r.a v).2 }) := by
  codeEq [Gen.tsbBase, Impl.tsbBase]

@[codeBridge] theorem Xor_code_R : Gen.Xor = Logical.apply .Xor := by funext a b; rfl
@[codeBridge] theorem And_code_R : Gen.And = Logical.apply .And := by funext a b; rfl
@[codeBridge] theorem Or_code_R : Gen.Or = Logical.apply .Or := by funext a b; rfl

@[codeBridge] theorem Rol_code_R : Gen.Rol = GenMod .Rol := by
  funext model a; codeEq [Gen.Rol, GenMod, Modifier.apply]
@[codeBridge] theorem Ror_code_R : Gen.Ror = GenMod .Ror := by
  funext model a; codeEq [Gen.Ror, GenMod, Modifier.apply]
@[codeBridge] theorem Lsr_code_R : Gen.Lsr = GenMod .Lsr := by
  funext model a; codeEq [Gen.Lsr, GenMod, Modifier.apply]
@[codeBridge] theorem Asl_code_R : Gen.Asl = GenMod .Asl := by
  funext model a; codeEq [Gen.Asl, GenMod, Modifier.apply]
@[codeBridge] theorem Inc_code_R : Gen.Inc = GenMod .Inc := by
  funext model a; codeEq [Gen.Inc, GenMod, Modifier.apply]
@[codeBridge] theorem Dec_code_R : Gen.Dec = GenMod .Dec := by
  funext model a; codeEq [Gen.Dec, GenMod, Modifier.apply]

-- ---------------------------------------------------------------------------------------
-- helpers: addressing, stack (bus accesses: C01, C02, C03)

@[codeBridge] theorem getAddrAbsolute_code_RCA (model : CpuModel) : Gen.getAddrAbsolute model = Impl.getAddrAbsolute := by
  codeEq [Gen.getAddrAbsolute]
@[codeBridge] theorem getAddrZeroPage_code_RCA (model : CpuModel) : Gen.getAddrZeroPage model = Impl.getAddrZeroPage := by
  codeEq [Gen.getAddrZeroPage]
@[codeBridge] theorem getAddrAbsoluteY_code_RCA (model : CpuModel) : Gen.getAddrAbsoluteY model = Impl.getAddrAbsoluteY := by
  codeEq [Gen.getAddrAbsoluteY]
@[codeBridge] theorem getAddrAbsoluteX_code_RCA (model : CpuModel) : Gen.getAddrAbsoluteX model = Impl.getAddrAbsoluteX := by
  codeEq [Gen.getAddrAbsoluteX]
@[codeBridge] theorem getAddrZeroPageY_code_RCA (model : CpuModel) : Gen.getAddrZeroPageY model = Impl.getAddrZeroPageY := by
  codeEq [Gen.getAddrZeroPageY]
@[codeBridge] theorem getAddrZeroPageX_code_RCA (model : CpuModel) : Gen.getAddrZeroPageX model = Impl.getAddrZeroPageX := by
  codeEq [Gen.getAddrZeroPageX]
@[codeBridge] theorem getAddrIndirect_code_RCA (model : CpuModel) : Gen.getAddrIndirect model = Impl.getAddrIndirect := by
  codeEq [Gen.getAddrIndirect]
@[codeBridge] theorem getAddrIndirectJmp6502_code_RCA (model : CpuModel) : Gen.getAddrIndirectJmp6502 model = Impl.getAddrIndirectJmp6502 := by
  codeEq [Gen.getAddrIndirectJmp6502]
@[codeBridge] theorem getAddrRelative_code_RCA (model : CpuModel) : Gen.getAddrRelative model = Impl.getAddrRelative := by
  codeEq [Gen.getAddrRelative]
@[codeBridge] theorem getAddrIndirectIdxY_code_RCA (model : CpuModel) : Gen.getAddrIndirectIdxY model = Impl.getAddrIndirectIdxY := by
  codeEq [Gen.getAddrIndirectIdxY]
@[codeBridge] theorem getAddrIdxIndirectX_code_RCA (model : CpuModel) : Gen.getAddrIdxIndirectX model = Impl.getAddrIdxIndirectX := by
  codeEq [Gen.getAddrIdxIndirectX]
@[codeBridge] theorem getAddrZp65C02_code_RCA (model : CpuModel) : Gen.getAddrZp65C02 model = Impl.getAddrZp65C02 := by
  codeEq [Gen.getAddrZp65C02]
@[codeBridge] theorem getAddrIdxIndirect65C02_code_RCA (model : CpuModel) : Gen.getAddrIdxIndirect65C02 model = Impl.getAddrIdxIndirect65C02 := by
  codeEq [Gen.getAddrIdxIndirect65C02]
@[codeBridge] theorem getAddressesBitBranchRelative_code_RCA (model : CpuModel) : Gen.getAddressesBitBranchRelative model = Impl.getAddressesBitBranchRelative := by
  codeEq [Gen.getAddressesBitBranchRelative]
@[codeBridge] theorem push_code_RCA (model : CpuModel) (v : Byte) : Gen.push model v = Impl.push v := by
  codeEq [Gen.push]
@[codeBridge] theorem pop_code_RCA (model : CpuModel) : Gen.pop model = Impl.pop := by
  codeEq [Gen.pop]

end Verif.Facts.CpuCode
