import Verif.Facts.MemNow
/-
  REGENERATED-FACT OBLIGATION for the memory models (tie 1); one module per fact so that each
  property depends only on the facts it needs.
-/
namespace Verif.Facts
open Verif Verif.Impl Verif.Spec Verif.Generated

theorem snapshot_covers_tag : ∀ t : Tag, ∀ r ∈ regionsOfTag t, r ∈ takenOf t ∧ r ∈ restoredOf t := by
  intro t; cases t <;> decide

/-- FACT (C07): TakeSnapshot and RestoreSnapshot of every model copy every region it has
    (registers and LUTs of the F256 included; X16/GeoRAM registers live in base RAM) -/
theorem snapshot_covers (k : MemKind) :
    ∀ r ∈ regionsOf k, r ∈ (cfgNow k).taken ∧ r ∈ (cfgNow k).restored :=
  snapshot_covers_tag (tagOf k)

/-- FACT (C07): no two statements of a TakeSnapshot write the same buffer (two regions sharing one snapshot buffer
    would overwrite each other) -/
theorem take_targets_distinct :
    (LinearMemory_TakeSnapshot.map (·.1)).Nodup ∧ (X16Memory_TakeSnapshot.map (·.1)).Nodup ∧
    (NeoGeoRam_TakeSnapshot.map (·.1)).Nodup ∧ (F256RevBMemory_TakeSnapshot.map (·.1)).Nodup := by decide

/-- FACT (C07): the wrapper layers forward all three calls to the wrapped memory -/
theorem wrapper_forwards :
    WrappingMemory_TakeSnapshot = [("->", "<Memory>.TakeSnapshot")] ∧
    WrappingMemory_RestoreSnapshot = [("->", "<Memory>.RestoreSnapshot")] ∧
    WrappingMemory_ClearStatistics = ["-><Memory>.ClearStatistics"] := by decide

end Verif.Facts
