import Verif.Facts.MemNow
/-
  REGENERATED-FACT OBLIGATION for the memory models (tie 1); one module per fact so that each
  property depends only on the facts it needs.
-/
namespace Verif.Facts
open Verif Verif.Impl Verif.Spec Verif.Generated

/-- FACT (C04/C17): each of the ten documented MemSpecs builds its documented machine -/
theorem memspec_builds : ∀ s ∈ ["Linear16K", "Linear32K", "Linear48K", "Linear64K", "XSixteen512K", "XSixteen2048K",
    "GeoRam_512K", "GeoRam_2048K", "F256_512K", "F256_768K"], builtMachine s = docMachine s := by decide

end Verif.Facts
