import Verif.Spec.Banking
/-
  Code-shaped model of package memory: the four memory models (`LinearMemory`, `X16Memory`,
  `NeoGeoRam`, `F256RevBMemory`), their `calcIndex` / `calcLongIndex` in the machine arithmetic of
  the Go code (uint16 / uint32 / uint), `loadGen` / `storeGen` / `statGen`, `ClearStatistics`,
  `TakeSnapshot`, `RestoreSnapshot`.

  State: contents, access counters and snapshot as functions of the cell.  A Go index out of
  range (a recovered panic) is `none`: the indexer runs before anything is modified, so a fault
  changes nothing.
-/
namespace Verif.Impl
open Verif Verif.Spec

structure MemState where
  data : Cell → Byte
  stat : Cell → Nat
  snap : Cell → Byte

def upd {β : Type} (f : Cell → β) (c : Cell) (v : β) : Cell → β := fun c' => if c' = c then v else f c'

/-- `&slice[i]` with Go's bounds check -/
def idx (r : Region) (i : Nat) (len : Nat) : Option Cell := if i < len then some (r, i) else none

-- -------- LinearMemory --------

def linearCalcIndex (size : Nat) (address : Addr) : Option Cell := idx .main address.toNat size

/-- `LoadLarge`: `l.Load(uint16(address & 0xFFFF))` -/
def linearCalcLongIndex (size : Nat) (address : BitVec 32) : Option Cell :=
  linearCalcIndex size ((address &&& 0xFFFF).truncate 16)

-- -------- X16Memory --------

def x16CalcIndex (ramBlocks : Nat) (d : Cell → Byte) (address : Addr) : Option Cell :=
  if address < 0xA000 then idx .main address.toNat (40 * 1024)
  else if address ≥ 0xC000 then
    let i : BitVec 32 := (address - 0xC000).zeroExtend 32 + ((d (.main, 1)) &&& 0x1f).zeroExtend 32 * 16384
    idx .rom i.toNat (32 * 16384)
  else
    let i : BitVec 32 := (address - 0xA000).zeroExtend 32 + (d (.main, 0)).zeroExtend 32 * 8192
    idx .ram i.toNat (ramBlocks * 8192)

def x16CalcLongIndex (ramBlocks : Nat) (address : BitVec 32) : Option Cell :=
  let ramLen : BitVec 32 := BitVec.ofNat 32 (ramBlocks * 8192 + 0xA000)
  if address < 0xA000 then idx .main address.toNat (40 * 1024)
  else if address ≥ 0xA000 ∧ address < ramLen then idx .ram (address - 0xA000).toNat (ramBlocks * 8192)
  else idx .rom (address - ramLen).toNat (32 * 16384)

-- -------- NeoGeoRam --------

def checkSectorBits (sectorBits : Nat) : Nat := if sectorBits = 0 ∨ sectorBits > 8 then 8 else sectorBits

def calcSectorMask (sectorBits : Nat) : Byte := ((1 : Byte) <<< (checkSectorBits sectorBits)) - 1

/-- `calcIndexRaw`.  Go computes in `uint` (64 bit); all values stay below 2^22, so the shifts
    and ors are modelled on Nat -/
def geoCalcIndexRaw (sectorBits : Nat) (d : Cell → Byte) (address : Addr) : Nat :=
  let byteOffset : Nat := (address &&& 0xFF).toNat
  let geoAddr : Nat := ((d (.main, 0xDFFE)) &&& 0x3F).toNat
  let geoAddr := geoAddr <<< (checkSectorBits sectorBits)
  let geoAddr := geoAddr ||| ((d (.main, 0xDFFF)) &&& calcSectorMask sectorBits).toNat
  let geoAddr := geoAddr <<< 8
  geoAddr ||| byteOffset

def geoCalcIndex (sectorBits : Nat) (d : Cell → Byte) (address : Addr) : Option Cell :=
  if address < 0xDE00 ∨ address ≥ 0xDF00 then idx .main address.toNat 65536
  else idx .geo (geoCalcIndexRaw sectorBits d address) (2 ^ (checkSectorBits sectorBits + 14))

def geoCalcLongIndex (sectorBits : Nat) (address : BitVec 32) : Option Cell :=
  if address ≤ 0xFFFF then idx .main address.toNat 65536
  else idx .geo (address - 0x10000).toNat (2 ^ (checkSectorBits sectorBits + 14))

-- -------- F256RevBMemory --------

def f256CalcDefault (memSize : Nat) (d : Cell → Byte) (activeLutNum : Byte) (loBits hiBits : Addr) : Option Cell :=
  -- activeLut := f.mLut[activeLutNum*lutSize : (activeLutNum+1)*lutSize]; activeLut[hiBits]
  -- `uint(activeLut[hiBits]) << numLoBits | uint(loBits)`: below 2^21, modelled on Nat
  let lutIdx := (activeLutNum * 8).toNat + hiBits.toNat
  let upper : Nat := (d (.lut, lutIdx)).toNat <<< 13
  idx .main (upper ||| loBits.toNat) memSize

def f256CalcIndex (memSize : Nat) (d : Cell → Byte) (addr : Addr) : Option Cell :=
  let loBits := addr &&& 0x1FFF
  let hiBits := addr >>> 13
  let memCtrl := d (.memCtrl, 0)
  let ioCtrl := d (.ioCtrl, 0)
  let activeLutNum := memCtrl &&& 0x03
  if addr = 0 then some (.memCtrl, 0)
  else if addr = 1 then some (.ioCtrl, 0)
  else if addr ≥ 8 ∧ addr ≤ 15 then
    if (memCtrl &&& 0x80) != 0 then
      let editLut : Addr := ((memCtrl &&& 0x30) >>> 4).zeroExtend 16
      idx .lut (editLut * 8 + (addr - 8)).toNat 32
    else f256CalcDefault memSize d activeLutNum loBits hiBits
  else if addr ≥ 0xC000 ∧ addr ≤ 0xDFFF then
    if (ioCtrl &&& 0x04) == 0 then
      let ioBank : Addr := (ioCtrl &&& 0x03).zeroExtend 16
      idx .io (ioBank * 8192 + addr - 0xC000).toNat (4 * 8192)
    else f256CalcDefault memSize d activeLutNum loBits hiBits
  else f256CalcDefault memSize d activeLutNum loBits hiBits

def f256CalcLongIndex (memSize : Nat) (d : Cell → Byte) (addr : BitVec 32) : Option Cell :=
  if addr < 16 then f256CalcIndex memSize d (addr.truncate 16)
  else if addr < BitVec.ofNat 32 memSize then idx .main addr.toNat memSize
  else idx .io (addr - BitVec.ofNat 32 memSize).toNat (4 * 8192)

-- -------- the Memory / LargeMemory interface --------

def calcIndex : MemKind → (Cell → Byte) → Addr → Option Cell
  | .linear n, _, a => linearCalcIndex n a
  | .x16 b, d, a => x16CalcIndex b d a
  | .geo sb, d, a => geoCalcIndex sb d a
  | .f256 n, d, a => f256CalcIndex n d a

def calcLongIndex : MemKind → (Cell → Byte) → BitVec 32 → Option Cell
  | .linear n, _, a => linearCalcLongIndex n a
  | .x16 b, _, a => x16CalcLongIndex b a
  | .geo sb, _, a => geoCalcLongIndex sb a
  | .f256 n, d, a => f256CalcLongIndex n d a

/-- `loadGen`: `none` = fault, nothing changed -/
def loadCell (s : MemState) (c : Option Cell) : Option Byte × MemState :=
  match c with
  | none => (none, s)
  | some c => (some (s.data c), { s with stat := upd s.stat c (s.stat c + 1) })

/-- `storeGen` -/
def storeCell (s : MemState) (c : Option Cell) (b : Byte) : Bool × MemState :=
  match c with
  | none => (false, s)
  | some c => (true, { s with stat := upd s.stat c (s.stat c + 1), data := upd s.data c b })

/-- `statGen` -/
def statCell (s : MemState) (c : Option Cell) : Option Nat := c.map s.stat

def load (k : MemKind) (s : MemState) (a : Addr) := loadCell s (calcIndex k s.data a)
def store (k : MemKind) (s : MemState) (a : Addr) (b : Byte) := storeCell s (calcIndex k s.data a) b
def getStatistics (k : MemKind) (s : MemState) (a : Addr) := statCell s (calcIndex k s.data a)
def loadLarge (k : MemKind) (s : MemState) (a : BitVec 32) := loadCell s (calcLongIndex k s.data a)
def storeLarge (k : MemKind) (s : MemState) (a : BitVec 32) (b : Byte) := storeCell s (calcLongIndex k s.data a) b
def getStatisticsLarge (k : MemKind) (s : MemState) (a : BitVec 32) := statCell s (calcLongIndex k s.data a)

/-- `ClearStatistics`: zeroes the counters of the listed regions (the list is a regenerated fact) -/
def clearStatistics (cleared : List Region) (s : MemState) : MemState :=
  { s with stat := fun c => if c.1 ∈ cleared then 0 else s.stat c }

/-- `TakeSnapshot`: copies the listed regions into the snapshot -/
def takeSnapshot (copied : List Region) (s : MemState) : MemState :=
  { s with snap := fun c => if c.1 ∈ copied then s.data c else s.snap c }

/-- `RestoreSnapshot`: copies the listed regions back -/
def restoreSnapshot (copied : List Region) (s : MemState) : MemState :=
  { s with data := fun c => if c.1 ∈ copied then s.snap c else s.data c }

/-- contents after the constructor (`NewX16Memory` sets the RAM bank register to 1, `NewF56JrMemory`
    fills the four LUTs with 0..7) -/
def initData : MemKind → Cell → Byte
  | .x16 _, c => if c = (.main, 0) then 1 else 0
  | .f256 _, c => if c.1 = .lut ∧ c.2 < 32 then BitVec.ofNat 8 (c.2 % 8) else 0
  | _, _ => 0

def initState (k : MemKind) : MemState := { data := initData k, stat := fun _ => 0, snap := fun _ => 0 }

end Verif.Impl
