import Verif.Basic.Prog
/-
  Code-shaped model of the pure (bit-level) parts of package cpu:
  `pageCrossCycles`, `nzFlags`, `addBaseBin`, `subBaseBin`, `fromBCD`, `toBCD`, `addBaseBcd6502`,
  `subBaseBcd`, `addBase`, `subBase`, `cmpBase`, `bitBase`, `trbBase`, `tsbBase`,
  `Rol/Ror/Lsr/Asl/Inc/Dec`, and the address arithmetic of cpu/adressing.go.
  Machine arithmetic on BitVec with the same conversions as the Go code.
  Functions that modify `c.Flags` take the old P and return the new P.
-/
namespace Verif.Impl
open Verif

/-- `uint16(b)` -/
@[inline] def u16 (b : Byte) : Addr := b.zeroExtend 16
/-- `uint8(w)` -/
@[inline] def u8 (w : Addr) : Byte := w.truncate 8

/-- `uint16(hi)*256 + uint16(lo)` -/
def mkAddr (hi lo : Byte) : Addr := u16 hi * 256 + u16 lo

/-- `c.Flags |= f` / `c.Flags &= ^f` chosen by a condition -/
def setIf (p : Byte) (f : Byte) (c : Bool) : Byte := if c then p ||| f else p &&& ~~~f

def pageCrossCycles (addr1 addr2 : Addr) : Nat :=
  if (addr1 &&& 0xFF00) != (addr2 &&& 0xFF00) then 1 else 0

def nzFlags (p v : Byte) : Byte :=
  let p := setIf p flagZ (v == 0)
  setIf p flagN ((v &&& 0x80) != 0)

/-- result, new P -/
def addBaseBin (p val1 val2 : Byte) : Byte × Byte :=
  let v1 := u16 val1
  let v2 := u16 val2
  let carry : Addr := if (p &&& flagC) != 0 then 1 else 0
  let t := v1 + v2 + carry
  let r := u8 (t &&& 0xFF)
  let p := nzFlags p r
  let p := setIf p flagC (decide (t ≥ 256))
  let p := setIf p flagV ((((val1 ^^^ r) &&& (val2 ^^^ r)) &&& 0x80) != 0)
  (r, p)

def subBaseBin (p val1 val2 : Byte) : Byte × Byte := addBaseBin p val1 (val2 ^^^ 0xFF)

/-- `none` = `panic("Invalid BCD data")` -/
def fromBCD (i : Byte) : Option Byte :=
  let loNibble := i &&& 0x0F
  let hiNibble := (i &&& 0xF0) >>> 4
  if decide (loNibble > 9) || decide (hiNibble > 9) then none else some (hiNibble * 10 + loNibble)

def toBCD (res : Byte) : Byte :=
  let res := res % 100
  let loDigit := res % 10
  let hiDigit := res / 10
  (hiDigit <<< 4) ||| loDigit

def prepBCD (p val1 val2 : Byte) : Option (Byte × Byte × Byte) :=
  match fromBCD val1 with
  | none => none
  | some b1 =>
    match fromBCD val2 with
    | none => none
    | some b2 => some (b1, b2, if (p &&& flagC) != 0 then 1 else 0)

def addBaseBcd6502 (p val1 val2 : Byte) : Option (Byte × Byte) :=
  match prepBCD p val1 val2 with
  | none => none
  | some (b1, b2, carry) =>
    let cr := b1 + b2 + carry
    let res := toBCD cr
    let p := nzFlags p res
    let p := setIf p flagC (decide (cr ≥ 100))
    some (res, p)

def subBaseBcd (p val1 val2 : Byte) : Option (Byte × Byte) :=
  match prepBCD p val1 val2 with
  | none => none
  | some (t1, t2, carry) =>
    let b1 : BitVec 16 := u16 t1          -- int16(t1)
    let b2 : BitVec 16 := u16 t2
    let cr : BitVec 16 := u16 (1 - carry) -- int16(1 - carry)
    let temp := b1 - b2 - cr
    if temp.slt 0 then
      let p := setIf p flagC false
      let res := toBCD (u8 (temp + 100))
      some (res, nzFlags p res)
    else
      let p := setIf p flagC true
      let res := toBCD (u8 temp)
      some (res, nzFlags p res)

/-- result, new P, additional cycles -/
def addBase (model : CpuModel) (p val1 val2 : Byte) : Option (Byte × Byte × Nat) :=
  let additionalCycles := if model == .m65C02 && (p &&& flagD) != 0 then 1 else 0
  if (p &&& flagD) == 0 then
    let (r, p) := addBaseBin p val1 val2
    some (r, p, additionalCycles)
  else
    match addBaseBcd6502 p val1 val2 with
    | none => none
    | some (r, p) => some (r, p, additionalCycles)

def subBase (model : CpuModel) (p val1 val2 : Byte) : Option (Byte × Byte × Nat) :=
  let additionalCycles := if model == .m65C02 && (p &&& flagD) != 0 then 1 else 0
  if (p &&& flagD) == 0 then
    let (r, p) := subBaseBin p val1 val2
    some (r, p, additionalCycles)
  else
    match subBaseBcd p val1 val2 with
    | none => none
    | some (r, p) => some (r, p, additionalCycles)

def cmpBase (p val1 val2 : Byte) : Byte :=
  if val1 == val2 then
    setIf (setIf (setIf p flagZ true) flagC true) flagN false
  else
    let t := val1 - val2
    let p := setIf p flagN ((t &&& 0x80) != 0)
    if decide (val1 > val2) then
      setIf (setIf p flagZ false) flagC true
    else
      setIf (setIf p flagZ false) flagC false

def bitBase (p a val : Byte) : Byte :=
  let p := setIf p flagZ ((a &&& val) == 0)
  let p := setIf p flagN ((val &&& 0x80) != 0)
  setIf p flagV ((val &&& 0x40) != 0)

/-- result, new P -/
def trbBase (p a val : Byte) : Byte × Byte := ((~~~a) &&& val, setIf p flagZ ((a &&& val) == 0))
def tsbBase (p a val : Byte) : Byte × Byte := (a ||| val, setIf p flagZ ((a &&& val) == 0))

/-- `ModifierOp`: result, new P -/
inductive Modifier where
  | Rol | Ror | Lsr | Asl | Inc | Dec
deriving DecidableEq, Repr

def Modifier.apply : Modifier → Byte → Byte → Byte × Byte
  | .Rol, p, a =>
    let val : Byte := if (p &&& flagC) != 0 then 0x01 else 0
    let p := setIf p flagC ((a &&& 0x80) != 0)
    ((a <<< 1) ||| val, p)
  | .Ror, p, a =>
    let val : Byte := if (p &&& flagC) != 0 then 0x80 else 0
    let p := setIf p flagC ((a &&& 1) != 0)
    ((a >>> 1) ||| val, p)
  | .Lsr, p, a => (a >>> 1, setIf p flagC ((a &&& 1) != 0))
  | .Asl, p, a => (a <<< 1, setIf p flagC ((a &&& 0x80) != 0))
  | .Inc, p, a => (a + 1, p)
  | .Dec, p, a => (a + 0xFF, p)

/-- `LogicalOp` -/
inductive Logical where
  | Xor | And | Or
deriving DecidableEq, Repr

def Logical.apply : Logical → Byte → Byte → Byte
  | .Xor, a, b => a ^^^ b
  | .And, a, b => a &&& b
  | .Or, a, b => a ||| b

/-- `getAddrRelative`: `uint16(int16(c.PC+1) + int16(int8(offset)))` -/
def relTarget (pc : Addr) (offset : Byte) : Addr := (pc + 1) + offset.signExtend 16

end Verif.Impl
