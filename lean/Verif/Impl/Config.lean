import Verif.Impl.Ports
import Verif.Spec.Banking
/-
  Code-shaped model of emuconfig: acceptance of a configuration file (`NewConfigFromFile`) and the
  machine `NewCpu` builds.  The allow-lists, the MemSpec switch, the parser order and the CPU model test
  are parameters (regenerated facts, see Facts/Config.lean).
-/
namespace Verif.Impl
open Verif Verif.Spec

structure RawConfig where
  model : String
  memSpec : String
  asmType : String
  ioMask : Nat
  ioAddr : List (Nat × List Char)   -- IoAddrConfig: low byte ↦ specification
  flags : Nat                        -- F256MCoprocFlags
  base : Nat                         -- F256MCoprocBase

structure MachineDesc where
  cpu : CpuModel
  mem : MemKind
  mul : Bool
  div : Bool
  coprocBase : Nat
  ports : List (Nat × Port)   -- port address ↦ kind
deriving DecidableEq, Repr

def accept (memModels cpuModels asmTypes : List String) (c : RawConfig) : Bool :=
  memModels.contains c.memSpec && cpuModels.contains c.model && asmTypes.contains c.asmType

/-- `AddIoWrapper`: every entry must be recognised by one of the parsers; the port address is
    `uint16(IoMask) << 8 | uint16(key)` -/
def parsePorts (ioMask : Nat) : List (Nat × List Char) → Option (List (Nat × Port))
  | [] => some []
  | e :: es =>
    match parsePort e.2 with
    | none => none
    | some p => (parsePorts ioMask es).map (((ioMask * 256 + e.1) % 65536, p) :: ·)

/-- `NewCpu`; `none` = error (an IoAddrConfig entry that no parser recognises) -/
def build (machineOf : String → Option MemKind) (is65C02 : String → Bool) (c : RawConfig) : Option MachineDesc :=
  match machineOf c.memSpec with
  | none => none
  | some k =>
    match parsePorts c.ioMask c.ioAddr with
    | none => none
    | some ports =>
      some { cpu := if is65C02 c.model then .m65C02 else .m6502, mem := k,
             mul := c.flags % 2 = 1, div := c.flags / 4 % 2 = 1, coprocBase := c.base, ports := ports }

end Verif.Impl
