import Verif.Impl.MemOps
/-
  The machine a test case is given (caseexec.go): the snapshot provider used with `-prexec` and the
  statements of `cpu.Reset`.  The statement lists themselves are regenerated from the source on every
  run (Generated/Flow.lean); this file gives each statement its meaning.
-/
namespace Verif.Impl
open Verif

/-- the statements that may occur in `CPU6502.Reset` -/
inductive ResetStep where
  | zeroCycles | zeroFlags | zeroX | zeroA | zeroY | zeroPC | spFF | clearStats
  | unknown (s : String)
deriving Repr

/-- the statements that may occur in `snapshotCpuProvider.NewCpu` and `newSnapshotProvider` -/
inductive ProvStep where
  | restore | reset | takeSnap | usePlaceholder | ifPlaceholder | clearHandler | endIf | ret
  | noPlaceholder | ifTrap | newPlaceholder | wrapMem
  | unknown (s : String)
deriving Repr

/-- everything of the simulated machine a test case can observe -/
structure CaseMachine where
  regs : Regs
  cycles : Nat
  mem : MemState
  /-- a Lua trap function is installed in the placeholder wrapper -/
  handler : Bool
  /-- a statement without a meaning in this model was executed -/
  poisoned : Bool

def resetStep (cfg : MemCfg) (m : CaseMachine) : ResetStep → CaseMachine
  | .zeroCycles => { m with cycles := 0 }
  | .zeroFlags => { m with regs := { m.regs with p := 0 } }
  | .zeroX => { m with regs := { m.regs with x := 0 } }
  | .zeroA => { m with regs := { m.regs with a := 0 } }
  | .zeroY => { m with regs := { m.regs with y := 0 } }
  | .zeroPC => { m with regs := { m.regs with pc := 0 } }
  | .spFF => { m with regs := { m.regs with sp := 0xFF } }
  | .clearStats => { m with mem := applyOp cfg m.mem .clear }
  | .unknown _ => { m with poisoned := true }

def runReset (cfg : MemCfg) (rs : List ResetStep) (m : CaseMachine) : CaseMachine := rs.foldl (resetStep cfg) m

/-- one statement of the provider; the flag says that we are inside an `if` whose condition is false.
    `trap`: a trap address is configured, i.e. the placeholder wrapper exists. -/
def provStep (cfg : MemCfg) (rs : List ResetStep) (trap : Bool) : CaseMachine × Bool → ProvStep → CaseMachine × Bool
  | (m, _), .endIf => (m, false)
  | (m, true), _ => (m, true)
  | (m, false), .restore => ({ m with mem := applyOp cfg m.mem .restore }, false)
  | (m, false), .reset => (runReset cfg rs m, false)
  | (m, false), .takeSnap => ({ m with mem := applyOp cfg m.mem .snap }, false)
  | (m, false), .ifPlaceholder => (m, !trap)
  | (m, false), .ifTrap => (m, !trap)
  | (m, false), .clearHandler => ({ m with handler := false }, false)
  -- pointer bookkeeping: which wrapper object the case executor talks to; a wrapper without a handler
  -- forwards every access unchanged (C10), so the observable machine is the same
  | (m, false), .usePlaceholder => (m, false)
  | (m, false), .noPlaceholder => (m, false)
  | (m, false), .newPlaceholder => (m, false)
  | (m, false), .wrapMem => (m, false)
  | (m, false), .ret => (m, false)
  | (m, false), .unknown _ => ({ m with poisoned := true }, false)

def runProv (cfg : MemCfg) (rs : List ResetStep) (trap : Bool) (steps : List ProvStep) (m : CaseMachine) : CaseMachine :=
  (steps.foldl (provStep cfg rs trap) (m, false)).1

/-- what a test case (arrange script, driver program, trap function, assert script) may do to the machine
    it is given: any history of memory operations except taking a snapshot (no script or program can reach
    TakeSnapshot), any register values, any cycle count, and — when a trap address is configured — install
    its trap function -/
structure Body where
  ops : List MemOp
  noSnap : ∀ op ∈ ops, op ≠ .snap
  regs : Regs
  cycles : Nat
  handler : Bool

def applyBody (cfg : MemCfg) (trap : Bool) (m : CaseMachine) (b : Body) : CaseMachine :=
  { m with regs := b.regs, cycles := b.cycles, mem := runOps cfg m.mem b.ops, handler := trap && b.handler }

/-- the machines handed to the cases of a suite, in order -/
def starts (newCpu : CaseMachine → CaseMachine) (cfg : MemCfg) (trap : Bool) : CaseMachine → List Body → List CaseMachine
  | _, [] => []
  | m, b :: bs => newCpu m :: starts newCpu cfg trap (applyBody cfg trap (newCpu m) b) bs

def resetRegs : Regs := { pc := 0, sp := 0xFF, a := 0, x := 0, y := 0, p := 0 }

end Verif.Impl
