/-
  Code-shaped model of verifier.TestCase.Execute (verifier/test_case.go) and of the suite loop
  (simpleCaseRepo.IterateTestCases with caseexec.CaseExec.ExecuteCase): everything that decides whether a
  test is reported OK, over abstract script behaviours.
-/
namespace Verif.Impl

/-- what `ctx.CallNumIterations()` yields: an error of the call (function absent or raising), or the value
    converted with `uint(retIter)` after the type assertion `.(lua.LNumber)` (0 for anything that is not a number) -/
inductive NumIters where
  | callError
  | value (n : Nat)
deriving DecidableEq, Repr

/-- behaviour of one iteration -/
structure Iter where
  arrangeOk : Bool     -- arrange() returned without error
  runOk : Bool         -- the driver ran to its BRK (no illegal opcode, invalid BCD, memory fault, trap error)
  assertOk : Bool      -- assert() returned without error
  assertTrue : Bool    -- the first value returned by assert() is the boolean true
deriving DecidableEq, Repr

structure Outcome where
  ok : Bool            -- Execute returned nil: the case is reported OK
  ran : Nat            -- for an OK case: how many times the driver was run to its BRK
  asserts : Nat        -- for an OK case: how many assert() calls returned
deriving DecidableEq, Repr

/-- an iteration that lets the loop go on: arrange, driver and assert without fault, assert returned true -/
def iterOk (it : Iter) : Bool := it.arrangeOk && it.runOk && it.assertOk && it.assertTrue

/-- the loop `for i = 0; (i < numIters) && testRes; i++` with its early returns: does it reach the end with
    `testRes` still true? -/
def loopOk (iters : Nat → Iter) : Nat → Nat → Bool
  | _, 0 => true
  | i, fuel + 1 => iterOk (iters i) && loopOk iters (i + 1) fuel

def iterCount : NumIters → Nat
  | .callError => 1        -- `if err != nil { numIters = 1 }`
  | .value n => n

/-- `Execute`.  An iteration count below 1 is an error of the test case (repair 824f97b). -/
def execute (asmOk loadOk scriptOk : Bool) (ni : NumIters) (iters : Nat → Iter) : Outcome :=
  if asmOk && loadOk && scriptOk && decide (1 ≤ iterCount ni) && loopOk iters 0 (iterCount ni)
  then ⟨true, iterCount ni, iterCount ni⟩ else ⟨false, 0, 0⟩

/-- `IterateTestCases(caseExec.ExecuteCase)`: stops at the first failing case; the count only includes
    cases that returned nil.  Result: (all passed, count printed on success) -/
def suite : List Bool → Bool × Nat
  | [] => (true, 0)
  | ok :: rest => if ok then let (a, n) := suite rest; (a, n + 1) else (false, 0)

end Verif.Impl
