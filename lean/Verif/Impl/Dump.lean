import Verif.Basic.Bits
import Verif.Impl.Loops
/-
  Code-shaped model of `memory.Dump` and `commands.parseDumpParams`.

  The Go loop prints while it iterates.  The model separates the two concerns: `dumpRows` is the loop
  (which addresses are visited, how they are grouped into lines: `byteCount` runs 0..15), `renderRow`
  / `renderDump` produce the exact text (compared byte for byte with the Go output by the driver).
-/
namespace Verif.Impl
open Verif

/-- rows of at most 16 addresses, in visiting order (`byteCount == 15` ends a line);
    structural recursion on a fuel that the list length always covers -/
def chunkF : Nat → List Nat → List (List Nat)
  | 0, _ => []
  | _ + 1, [] => []
  | f + 1, a :: as => (a :: as).take 16 :: chunkF f ((a :: as).drop 16)

def chunk16 (l : List Nat) : List (List Nat) := chunkF l.length l

/-- the lines of a dump: `none` when the loop does not terminate within the fuel -/
def dumpRows (bits : Nat) (start stop : Nat) (fuel : Nat) : Option (List (List Nat)) :=
  (counterLoop bits stop start fuel).map chunk16

def hexDigitC (n : Nat) : Char := if n < 10 then Char.ofNat (48 + n) else Char.ofNat (87 + n)
def hex2 (b : Nat) : List Char := [hexDigitC (b / 16 % 16), hexDigitC (b % 16)]
def hex4 (a : Nat) : List Char := hex2 (a / 256 % 256) ++ hex2 (a % 256)

/-- `(data < 128) && strconv.IsPrint(rune(data))` -/
def printable (b : Nat) : Bool := 0x20 ≤ b && b ≤ 0x7E

def printChar (b : Nat) : Char := if printable b then Char.ofNat b else '.'

/-- one printed line: `$%04x  `, the bytes as `%02x ` with an extra blank before the ninth, padding
    for a short line, ` |`, the character column, `|` -/
def renderRow (mem : Nat → Nat) (row : List Nat) : List Char :=
  let n := row.length
  let hexPart := (row.zipIdx.map fun (a, i) => (if i = 8 then [' '] else []) ++ hex2 (mem a) ++ [' ']).flatten
  let pad := if n < 16 then List.replicate ((16 - n) * 3 + (if n ≤ 8 then 1 else 0)) ' ' else []
  ['$'] ++ hex4 (row.headD 0) ++ [' ', ' '] ++ hexPart ++ pad ++ [' ', '|'] ++ row.map (fun a => printChar (mem a)) ++ ['|', '\n']

/-- the whole output, including the trailing `$%04x` line with `end + 1` (a uint16: wraps to 0) -/
def renderDump (mem : Nat → Nat) (rows : List (List Nat)) (stop : Nat) : List Char :=
  (rows.map (renderRow mem)).flatten ++ ['$'] ++ hex4 ((stop + 1) % 65536) ++ ['\n']

-- -------- parseDumpParams --------

def isDigitC (c : Char) : Bool := '0' ≤ c && c ≤ '9'
def allDigits (cs : List Char) : Bool := !cs.isEmpty && cs.all isDigitC
def decVal (cs : List Char) : Nat := cs.foldl (fun n c => n * 10 + (c.toNat - 48)) 0

/-- the numeric part: `ParseUint(.., 10, 16)` range, length ≠ 0, and the uint16 wrap test
    `(dumpAddress16 + dumpLen16 - 1) < dumpAddress16` -/
def validateDump (addr len : Nat) : Option (Nat × Nat) :=
  if addr > 65535 ∨ len > 65535 then none
  else if len = 0 then none
  else if (addr + len + 65535) % 65536 < addr then none
  else some (addr, len)

/-- `^([0-9]+):([0-9]+)$` followed by the numeric validation.  The empty string means "no dump" and
    is handled by the callers before this point. -/
def notColon (c : Char) : Bool := c != ':'

def parseDumpParams (s : List Char) : Option (Nat × Nat) :=
  match s.dropWhile notColon with
  | c :: b =>
    if c = ':' then
      if allDigits (s.takeWhile notColon) && allDigits b then validateDump (decVal (s.takeWhile notColon)) (decVal b)
      else none
    else none
  | [] => none

end Verif.Impl
