import Verif.Impl.MemOps
/-
  Code-shaped model of `CPU6502.CopyToMem`, `CPU6502.Load` (cpu/cpu_6502.go) and
  `Config.PreloadRoms` (emuconfig/config.go) on the memory models of Impl/Mem.lean.
-/
namespace Verif.Impl
open Verif Verif.Spec

/-- `CopyToMem`: `for _, j := range binary { c.Mem.Store(copyAddress, j); copyAddress++ }` with the
    uint16 address wrapping; a faulting store (recovered panic) ends the loop and is reported.
    Returns (ok, state): the stores made before a fault stay. -/
def copyToMem (k : MemKind) : MemState → Addr → List Byte → Bool × MemState
  | s, _, [] => (true, s)
  | s, a, b :: rest =>
    match store k s a b with
    | (false, s') => (false, s')
    | (true, s') => copyToMem k s' (a + 1) rest

inductive LoadResult where
  | error
  | ok (loadAddress : Nat) (progLen : Nat)
deriving DecidableEq, Repr

/-- `Load` after `os.ReadFile` succeeded.  `checksCopyError` is a regenerated fact: whether the
    error returned by CopyToMem is assigned (and tested) or dropped. -/
def loadFile (checksCopyError : Bool) (k : MemKind) (s : MemState) (file : List Byte) : LoadResult × MemState :=
  match file with
  | lo :: hi :: b :: rest =>
    let loadAddress : Addr := hi.zeroExtend 16 * 256 + lo.zeroExtend 16
    let (ok, s') := copyToMem k s loadAddress (b :: rest)
    if checksCopyError && !ok then (.error, s')
    else (.ok loadAddress.toNat ((b :: rest).length % 65536), s')
  | _ => (.error, s)

/-- one entry of `PreLoad`: `cpu.CopyToMem(data, address)`, error propagated -/
def preload (k : MemKind) (s : MemState) (address : Addr) (data : List Byte) : Bool × MemState :=
  copyToMem k s address data

end Verif.Impl
