import Verif.Impl.Dump
/-
  Code-shaped model of the output ports (memory/stdout_processor.go, memory/printer_processor.go,
  util/petscii.go) and of the recognition of port specifications (`tryParseWrapperLine`).
-/
namespace Verif.Impl

inductive Port where
  | hex (lineLength : Nat)   -- `stdout:<n>`
  | petscii                  -- `printer:petscii`
  | bin                      -- `stdout:bin`
deriving DecidableEq, Repr

def isAlnum (c : Char) : Bool := isDigitC c || ('a' ≤ c && c ≤ 'z') || ('A' ≤ c && c ≤ 'Z')

/-- the three parsers of `confParsers` in order: `^stdout:([0-9]+)$` (ParseUint(.., 10, 32), error ignored:
    a number that does not fit yields the maximum), `^printer:([0-9a-zA-Z]+)$` with the only encoding
    `petscii`, and the literal `stdout:bin` -/
def parsePort (s : List Char) : Option Port :=
  match stripPre "stdout:".toList s with
  | some rest =>
    if allDigits rest then some (.hex (if decVal rest > 4294967295 then 4294967295 else decVal rest))
    else if rest = "bin".toList then some .bin else none
  | none =>
    match stripPre "printer:".toList s with
    | some rest => if rest = "petscii".toList then some .petscii else none
    | none => none
where
  stripPre : List Char → List Char → Option (List Char)
    | [], r => some r
    | _ :: _, [] => none
    | p :: ps, c :: cs => if p = c then stripPre ps cs else none

/-- `util.PetsciiToAscii` -/
def petsciiToAscii (t : Nat) : Nat :=
  if (32 ≤ t ∧ t ≤ 90) ∨ (97 ≤ t ∧ t ≤ 122) ∨ t = 0x0A ∨ t = 0x0D then t
  else if 193 ≤ t ∧ t ≤ 218 then t - 96
  else 63

/-- output of one port for the byte sequence written to it (as byte values).
    hex: `%02X ` per byte, a newline before byte k when k > 0 and lineLength divides k;
    petscii: the converted character; bin: the byte itself -/
def portOutput : Port → List Nat → List Nat
  | .hex len, bs => (bs.zipIdx.map fun (b, k) =>
      (if k ≠ 0 ∧ k % len = 0 then [10] else []) ++ ((hex2 b).map fun c => c.toUpper.toNat) ++ [32]).flatten
  | .petscii, bs => bs.map petsciiToAscii
  | .bin, bs => bs

end Verif.Impl
