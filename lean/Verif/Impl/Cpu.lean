import Verif.Impl.Alu
import Verif.Impl.HandlerNames
import Verif.Impl.Consts
/-
  Code-shaped model of the monadic part of package cpu: addressing helpers (cpu/adressing.go),
  the handler shapes of cpu/instructions_*.go, `executeInstruction`, `push`/`pop`.
  Same order of `Mem.Load` / `Mem.Store` calls and the same placement of `c.PC++` as the Go code.

  Go has one function per opcode; most of them are instances of a few shapes.  The model keeps
  one definition per *shape* (`readOp`, `storeOp`, `modOp`, ...) and a table `handlerS : H → …`
  that instantiates it per Go function.  Handlers return their cycle count symbolically in the
  literals of the Go source (`StepOutS`, a function of `CycleConsts`); `handler k` evaluates it for
  a record `k` of literals — `Generated.consts` for the code as it is now.  Neither this file nor
  the proofs about it import the regenerated facts.
-/
namespace Verif.Impl
open Verif

def incPC : M Unit := modify fun r => { r with pc := r.pc + 1 }
def setPC (a : Addr) : M Unit := modify fun r => { r with pc := a }
def setP (p : Byte) : M Unit := modify fun r => { r with p := p }
def setA (v : Byte) : M Unit := modify fun r => { r with a := v }
def setX (v : Byte) : M Unit := modify fun r => { r with x := v }
def setY (v : Byte) : M Unit := modify fun r => { r with y := v }
def setSP (v : Byte) : M Unit := modify fun r => { r with sp := v }

/-- `&c.A`, `&c.X`, ...: a pointer to one of the byte registers, as a value (used by the translation of Go helper
    functions that take `*uint8`) -/
inductive RegSel where
  | a | x | y | sp | p
deriving DecidableEq, Repr

def getReg : RegSel → M Byte
  | .a => do return (← get).a
  | .x => do return (← get).x
  | .y => do return (← get).y
  | .sp => do return (← get).sp
  | .p => do return (← get).p

def setReg : RegSel → Byte → M Unit
  | .a, v => setA v
  | .x, v => setX v
  | .y, v => setY v
  | .sp, v => setSP v
  | .p, v => setP v

-- -------- Addressing modes (cpu/adressing.go) --------

def getAddrAbsolute : M Addr := do
  let loByte ← ld (← get).pc
  incPC
  let hi ← ld (← get).pc
  return mkAddr hi loByte

def getAddrZeroPage : M Addr := do
  let loByte ← ld (← get).pc
  return u16 loByte

def getAddrAbsoluteY : M (Addr × Nat) := do
  let loByte ← ld (← get).pc
  incPC
  let hi ← ld (← get).pc
  let addr := mkAddr hi loByte
  let res := addr + u16 (← get).y
  return (res, pageCrossCycles addr res)

def getAddrAbsoluteX : M (Addr × Nat) := do
  let loByte ← ld (← get).pc
  incPC
  let hi ← ld (← get).pc
  let addr := mkAddr hi loByte
  let res := addr + u16 (← get).x
  return (res, pageCrossCycles res addr)

def getAddrZeroPageY : M Addr := do
  let loByte ← ld (← get).pc
  return u16 (loByte + (← get).y)

def getAddrZeroPageX : M Addr := do
  let loByte ← ld (← get).pc
  return u16 (loByte + (← get).x)

def getAddrIndirect : M Addr := do
  let loByte ← ld (← get).pc
  incPC
  let hi ← ld (← get).pc
  let addr := mkAddr hi loByte
  let h ← ld (addr + 1)
  let l ← ld addr
  return mkAddr h l

def getAddrIndirectJmp6502 : M Addr := do
  let loByte ← ld (← get).pc
  incPC
  let hiByte ← ld (← get).pc
  let addr := mkAddr hiByte loByte
  let addr2 := mkAddr hiByte (loByte + 1)
  let h ← ld addr2
  let l ← ld addr
  return mkAddr h l

def getAddrRelative : M (Addr × Nat) := do
  let pc := (← get).pc
  let offset ← ld pc
  let res := relTarget pc offset
  return (res, pageCrossCycles (pc + 1) res)

def getAddrIndirectIdxY : M (Addr × Nat) := do
  let zpAddrLo ← ld (← get).pc
  let zpAddrHi := zpAddrLo + 1
  let h ← ld (u16 zpAddrHi)
  let l ← ld (u16 zpAddrLo)
  let addr := mkAddr h l
  let res := addr + u16 (← get).y
  return (res, pageCrossCycles addr res)

def getAddrIdxIndirectX : M Addr := do
  let b ← ld (← get).pc
  let zpAddrLo := b + (← get).x
  let zpAddrHi := zpAddrLo + 1
  let h ← ld (u16 zpAddrHi)
  let l ← ld (u16 zpAddrLo)
  return mkAddr h l

def getAddrZp65C02 : M Addr := do
  let zpAddrLo ← ld (← get).pc
  let zpAddrHi := zpAddrLo + 1
  let h ← ld (u16 zpAddrHi)
  let l ← ld (u16 zpAddrLo)
  return mkAddr h l

def getAddrIdxIndirect65C02 : M Addr := do
  let baseAddrLo ← ld (← get).pc
  incPC
  let hi ← ld (← get).pc
  let baseAddr := mkAddr hi baseAddrLo + u16 (← get).x
  let h ← ld (baseAddr + 1)
  let l ← ld baseAddr
  return mkAddr h l

/-- which Go addressing helper a handler calls for its data operand; `imm` is `c.Mem.Load(c.PC)` -/
inductive AM where
  | imm | zp | zpx | zpy | abs | absx | absy | indx | indy | zpind
deriving DecidableEq, Repr

/-- effective address and the page-cross cycle the helper reports (0 for helpers that report none) -/
def getAddr : AM → M (Addr × Nat)
  | .imm => do return ((← get).pc, 0)
  | .zp => do return (← getAddrZeroPage, 0)
  | .zpx => do return (← getAddrZeroPageX, 0)
  | .zpy => do return (← getAddrZeroPageY, 0)
  | .abs => do return (← getAddrAbsolute, 0)
  | .absx => getAddrAbsoluteX
  | .absy => getAddrAbsoluteY
  | .indx => do return (← getAddrIdxIndirectX, 0)
  | .indy => getAddrIndirectIdxY
  | .zpind => do return (← getAddrZp65C02, 0)

-- -------- stack --------

def push (val : Byte) : M Unit := do
  st (0x100 + u16 (← get).sp) val
  modify fun r => { r with sp := r.sp - 1 }

def pop : M Byte := do
  modify fun r => { r with sp := r.sp + 1 }
  ld (0x100 + u16 (← get).sp)

-- -------- operations on a loaded operand (`ldaBase`, `cmpBase`, `addBase`, `bitBase`, logical) --------

inductive ReadOp where
  | lda | ldx | ldy | cmp | cpx | cpy | add | sub | bit
  | logical (op : Logical)
deriving DecidableEq, Repr

/-- applies the operation, returns the additional cycles it reports (ADC/SBC only) -/
def ReadOp.run (model : CpuModel) : ReadOp → Byte → M Nat
  | .lda, v => do modify fun r => { r with a := v, p := nzFlags r.p v }; return 0
  | .ldx, v => do modify fun r => { r with x := v, p := nzFlags r.p v }; return 0
  | .ldy, v => do modify fun r => { r with y := v, p := nzFlags r.p v }; return 0
  | .cmp, v => do modify fun r => { r with p := cmpBase r.p r.a v }; return 0
  | .cpx, v => do modify fun r => { r with p := cmpBase r.p r.x v }; return 0
  | .cpy, v => do modify fun r => { r with p := cmpBase r.p r.y v }; return 0
  | .bit, v => do modify fun r => { r with p := bitBase r.p r.a v }; return 0
  | .logical op, v => do
      modify fun r => let a := op.apply r.a v; { r with a := a, p := nzFlags r.p a }
      return 0
  | .add, v => do
      let r ← get
      match addBase model r.p r.a v with
      | none => failM .bcd
      | some (res, p, extra) => do set { r with a := res, p := p }; return extra
  | .sub, v => do
      let r ← get
      match subBase model r.p r.a v with
      | none => failM .bcd
      | some (res, p, extra) => do set { r with a := res, p := p }; return extra

/-- `xxxYyy()` handlers that load one operand: address, load, operate, `c.PC++`.
    `usePage`: whether the handler adds the helper's page-cross cycle to its result. -/
def readOp (model : CpuModel) (am : AM) (base : CycleConsts → Nat) (op : ReadOp) : M StepOutS := do
  let (addr, moreCycles) ← getAddr am
  let operand ← ld addr
  let additionalCycles ← op.run model operand
  incPC
  return ⟨fun k => base k + additionalCycles + moreCycles, false⟩

inductive Src where
  | a | x | y | zero
deriving DecidableEq, Repr

def Src.get (r : Regs) : Src → Byte
  | .a => r.a | .x => r.x | .y => r.y | .zero => 0

/-- STA/STX/STY/STZ: the page-cross cycle of the helper is discarded (`addr, _ :=`) -/
def storeOp (am : AM) (base : CycleConsts → Nat) (src : Src) : M StepOutS := do
  let (addr, _) ← getAddr am
  st addr (src.get (← get))
  incPC
  return ⟨fun k => base k, false⟩

def modImplied (base : CycleConsts → Nat) (m : Modifier) : M StepOutS := do
  modify fun r =>
    let (res, p) := m.apply r.p r.a
    { r with a := res, p := nzFlags p res }
  return ⟨fun k => base k, false⟩

/-- `modZeroPage` .. `modAbsoluteX65C02`; `usePage` only for the 65C02 abs,X variant -/
def modOp (am : AM) (base : CycleConsts → Nat) (usePage : Bool) (m : Modifier) : M StepOutS := do
  let (operAddr, extra) ← getAddr am
  let oper ← ld operAddr
  let r ← get
  let (res, p) := m.apply r.p oper
  set { r with p := p }
  st operAddr res
  modify fun r => { r with p := nzFlags r.p res }
  incPC
  return ⟨fun k => base k + (if usePage then extra else 0), false⟩

/-- TRB / TSB -/
def testBitsOp (am : AM) (base : CycleConsts → Nat) (set? : Bool) : M StepOutS := do
  let (addr, _) ← getAddr am
  let oper ← ld addr
  let r ← get
  let (res, p) := if set? then tsbBase r.p r.a oper else trbBase r.p r.a oper
  set { r with p := p }
  st addr res
  incPC
  return ⟨fun k => base k, false⟩

def rmbBase (base : CycleConsts → Nat) (bit : Byte) : M StepOutS := do
  let addr ← getAddrZeroPage
  let oper ← ld addr
  st addr (oper &&& (bit ^^^ 0xFF))
  incPC
  return ⟨fun k => base k, false⟩

def smbBase (base : CycleConsts → Nat) (bit : Byte) : M StepOutS := do
  let addr ← getAddrZeroPage
  let oper ← ld addr
  st addr (oper ||| bit)
  incPC
  return ⟨fun k => base k, false⟩

-- -------- branches --------

def branchOnFlagClear (flag : Byte) : M StepOutS := do
  let r ← get
  cond ((r.p &&& flag) != 0)
    (do incPC; return ⟨fun k => k.branchOnFlagClear_0, false⟩)
    (do let (branchAddress, additionalCycle) ← getAddrRelative
        setPC branchAddress
        return ⟨fun k => k.branchOnFlagClear_1 + additionalCycle, false⟩)

def branchOnFlagSet (flag : Byte) : M StepOutS := do
  let r ← get
  cond ((r.p &&& flag) == 0)
    (do incPC; return ⟨fun k => k.branchOnFlagSet_0, false⟩)
    (do let (branchAddress, additionalCycle) ← getAddrRelative
        setPC branchAddress
        return ⟨fun k => k.branchOnFlagSet_1 + additionalCycle, false⟩)

def bra : M StepOutS := do
  let (branchAddress, additionalCycle) ← getAddrRelative
  setPC branchAddress
  return ⟨fun k => k.bra_0 + additionalCycle, false⟩

def getAddressesBitBranchRelative : M (Addr × Addr × Nat) := do
  let zpAddr ← getAddrZeroPage
  incPC
  let (branchAddress, additionalCycle) ← getAddrRelative
  return (zpAddr, branchAddress, additionalCycle)

def branchOnBitClear (bit : Byte) : M StepOutS := do
  let (zpAddr, branchAddr, additionalCycle) ← getAddressesBitBranchRelative
  let v ← ld zpAddr
  cond ((v &&& bit) != 0)
    (do incPC; return ⟨fun k => k.branchOnBitClear_0, false⟩)
    (do setPC branchAddr; return ⟨fun k => k.branchOnBitClear_1 + additionalCycle, false⟩)

def branchOnBitSet (bit : Byte) : M StepOutS := do
  let (zpAddr, branchAddr, additionalCycle) ← getAddressesBitBranchRelative
  let v ← ld zpAddr
  cond ((v &&& bit) == 0)
    (do incPC; return ⟨fun k => k.branchOnBitSet_0, false⟩)
    (do setPC branchAddr; return ⟨fun k => k.branchOnBitSet_1 + additionalCycle, false⟩)

-- -------- jumps --------

def jsr : M StepOutS := do
  let addr ← getAddrAbsolute
  let pc := (← get).pc
  push (u8 ((pc &&& 0xFF00) >>> 8))
  let pc := (← get).pc
  push (u8 (pc &&& 0x00FF))
  setPC addr
  return ⟨fun k => k.jsr_0, false⟩

def rts : M StepOutS := do
  let loByte ← pop
  let hiByte ← pop
  setPC (mkAddr hiByte loByte + 1)
  return ⟨fun k => k.rts_0, false⟩

def jmp : M StepOutS := do
  let addr ← getAddrAbsolute
  setPC addr
  return ⟨fun k => k.jmp_0, false⟩

def jmpIndirect6502 : M StepOutS := do
  let addr ← getAddrIndirectJmp6502
  setPC addr
  return ⟨fun k => k.jmpIndirect6502_0, false⟩

def jmpIndirect65C02 : M StepOutS := do
  let addr ← getAddrIndirect
  setPC addr
  return ⟨fun k => k.jmpIndirect65C02_0, false⟩

def jmpIndexXIndirect : M StepOutS := do
  let addr ← getAddrIdxIndirect65C02
  setPC addr
  return ⟨fun k => k.jmpIndexXIndirect_0, false⟩

-- -------- stack, flags, transfers, register inc/dec --------

def pushOp (base : CycleConsts → Nat) (f : Regs → Byte) : M StepOutS := do
  push (f (← get))
  return ⟨fun k => base k, false⟩

/-- PLA / PLX / PLY (`nzFlags`) -/
def pullOp (base : CycleConsts → Nat) (setReg : Byte → Regs → Regs) : M StepOutS := do
  let v ← pop
  modify fun r => let r := setReg v r; { r with p := nzFlags r.p v }
  return ⟨fun k => base k, false⟩

def plp : M StepOutS := do
  let v ← pop
  setP v
  return ⟨fun k => k.plp_0, false⟩

def regOp (base : CycleConsts → Nat) (f : Regs → Regs) : M StepOutS := do
  modify f
  return ⟨fun k => base k, false⟩

def handlerS (model : CpuModel) : H → M StepOutS
  -- function literals
  | .lit7true => pure ⟨fun _ => 7, true⟩
  | .lit2false => pure ⟨fun _ => 2, false⟩
  | .other => failM .script
  -- LDA
  | .ldaImmediate => readOp model .imm (·.ldaImmediate_0) .lda
  | .ldaZeroPage => readOp model .zp (·.ldaZeroPage_0) .lda
  | .ldaZeroPageIdxX => readOp model .zpx (·.ldaZeroPageIdxX_0) .lda
  | .ldaAbsolute => readOp model .abs (·.ldaAbsolute_0) .lda
  | .ldaAbsoluteX => readOp model .absx (·.ldaAbsoluteX_0) .lda
  | .ldaAbsoluteY => readOp model .absy (·.ldaAbsoluteY_0) .lda
  | .ldaIdxIndirectX => readOp model .indx (·.ldaIdxIndirectX_0) .lda
  | .ldaIndIdxY => readOp model .indy (·.ldaIndIdxY_0) .lda
  | .ldaIndirect => readOp model .zpind (·.ldaIndirect_0) .lda
  -- LDX
  | .ldxImmediate => readOp model .imm (·.ldxImmediate_0) .ldx
  | .ldxZeroPage => readOp model .zp (·.ldxZeroPage_0) .ldx
  | .ldxZeroPageIdxY => readOp model .zpy (·.ldxZeroPageIdxY_0) .ldx
  | .ldxAbsolute => readOp model .abs (·.ldxAbsolute_0) .ldx
  | .ldxAbsoluteY => readOp model .absy (·.ldxAbsoluteY_0) .ldx
  -- LDY
  | .ldyImmediate => readOp model .imm (·.ldyImmediate_0) .ldy
  | .ldyZeroPage => readOp model .zp (·.ldyZeroPage_0) .ldy
  | .ldyZeroPageIdxX => readOp model .zpx (·.ldyZeroPageIdxX_0) .ldy
  | .ldyAbsolute => readOp model .abs (·.ldyAbsolute_0) .ldy
  | .ldyAbsoluteX => readOp model .absx (·.ldyAbsoluteX_0) .ldy
  -- CMP / CPX / CPY
  | .cmpImmediate => readOp model .imm (·.cmpImmediate_0) .cmp
  | .cmpZeroPage => readOp model .zp (·.cmpZeroPage_0) .cmp
  | .cmpZeroPageX => readOp model .zpx (·.cmpZeroPageX_0) .cmp
  | .cmpAbsolute => readOp model .abs (·.cmpAbsolute_0) .cmp
  | .cmpAbsoluteX => readOp model .absx (·.cmpAbsoluteX_0) .cmp
  | .cmpAbsoluteY => readOp model .absy (·.cmpAbsoluteY_0) .cmp
  | .cmpIdxXIndirect => readOp model .indx (·.cmpIdxXIndirect_0) .cmp
  | .cmpIndIdxY => readOp model .indy (·.cmpIndIdxY_0) .cmp
  | .cmpIndirect => readOp model .zpind (·.cmpIndirect_0) .cmp
  | .cpxImmediate => readOp model .imm (·.cpxImmediate_0) .cpx
  | .cpxZeroPage => readOp model .zp (·.cpxZeroPage_0) .cpx
  | .cpxAbsolute => readOp model .abs (·.cpxAbsolute_0) .cpx
  | .cpyImmediate => readOp model .imm (·.cpyImmediate_0) .cpy
  | .cpyZeroPage => readOp model .zp (·.cpyZeroPage_0) .cpy
  | .cpyAbsolute => readOp model .abs (·.cpyAbsolute_0) .cpy
  -- ADC
  | .addImmediate => readOp model .imm (·.addImmediate_0) .add
  | .addZeroPage => readOp model .zp (·.addZeroPage_0) .add
  | .addZeroPageX => readOp model .zpx (·.addZeroPageX_0) .add
  | .addAbsolute => readOp model .abs (·.addAbsolute_0) .add
  | .addAbsoluteX => readOp model .absx (·.addAbsoluteX_0) .add
  | .addAbsoluteY => readOp model .absy (·.addAbsoluteY_0) .add
  | .addIdxXIndirect => readOp model .indx (·.addIdxXIndirect_0) .add
  | .addIndirectIdxY => readOp model .indy (·.addIndirectIdxY_0) .add
  | .addIndirect => readOp model .zpind (·.addIndirect_0) .add
  -- SBC
  | .subImmediate => readOp model .imm (·.subImmediate_0) .sub
  | .subZeroPage => readOp model .zp (·.subZeroPage_0) .sub
  | .subZeroPageX => readOp model .zpx (·.subZeroPageX_0) .sub
  | .subAbsolute => readOp model .abs (·.subAbsolute_0) .sub
  | .subAbsoluteX => readOp model .absx (·.subAbsoluteX_0) .sub
  | .subAbsoluteY => readOp model .absy (·.subAbsoluteY_0) .sub
  | .subIdxXIndirect => readOp model .indx (·.subIdxXIndirect_0) .sub
  | .subIndirectIdxY => readOp model .indy (·.subIndirectIdxY_0) .sub
  | .subIndirect => readOp model .zpind (·.subIndirect_0) .sub
  -- EOR / ORA / AND  (delegate to logicalXxx(c, op))
  | .eorImmediate => readOp model .imm (·.logicalImmediate_0) (.logical .Xor)
  | .eorZeroPage => readOp model .zp (·.logicalZeroPage_0) (.logical .Xor)
  | .eorZeroPageX => readOp model .zpx (·.logicalZeroPageX_0) (.logical .Xor)
  | .eorAbsolute => readOp model .abs (·.logicalAbsolute_0) (.logical .Xor)
  | .eorAbsoluteX => readOp model .absx (·.logicalAbsoluteX_0) (.logical .Xor)
  | .eorAbsoluteY => readOp model .absy (·.logicalAbsoluteY_0) (.logical .Xor)
  | .eorIdxIndirect => readOp model .indx (·.logicalIdxXIndirect_0) (.logical .Xor)
  | .eorIndirectIdxY => readOp model .indy (·.logicalIndirectIdxY_0) (.logical .Xor)
  | .eorIndirect => readOp model .zpind (·.logicalIndirect_0) (.logical .Xor)
  | .oraImmediate => readOp model .imm (·.logicalImmediate_0) (.logical .Or)
  | .oraZeroPage => readOp model .zp (·.logicalZeroPage_0) (.logical .Or)
  | .oraZeroPageX => readOp model .zpx (·.logicalZeroPageX_0) (.logical .Or)
  | .oraAbsolute => readOp model .abs (·.logicalAbsolute_0) (.logical .Or)
  | .oraAbsoluteX => readOp model .absx (·.logicalAbsoluteX_0) (.logical .Or)
  | .oraAbsoluteY => readOp model .absy (·.logicalAbsoluteY_0) (.logical .Or)
  | .oraIdxIndirect => readOp model .indx (·.logicalIdxXIndirect_0) (.logical .Or)
  | .oraIndirectIdxY => readOp model .indy (·.logicalIndirectIdxY_0) (.logical .Or)
  | .oraIndirect => readOp model .zpind (·.logicalIndirect_0) (.logical .Or)
  | .andImmediate => readOp model .imm (·.logicalImmediate_0) (.logical .And)
  | .andZeroPage => readOp model .zp (·.logicalZeroPage_0) (.logical .And)
  | .andZeroPageX => readOp model .zpx (·.logicalZeroPageX_0) (.logical .And)
  | .andAbsolute => readOp model .abs (·.logicalAbsolute_0) (.logical .And)
  | .andAbsoluteX => readOp model .absx (·.logicalAbsoluteX_0) (.logical .And)
  | .andAbsoluteY => readOp model .absy (·.logicalAbsoluteY_0) (.logical .And)
  | .andIdxIndirect => readOp model .indx (·.logicalIdxXIndirect_0) (.logical .And)
  | .andIndirectIdxY => readOp model .indy (·.logicalIndirectIdxY_0) (.logical .And)
  | .andIndirect => readOp model .zpind (·.logicalIndirect_0) (.logical .And)
  -- BIT
  | .bitImmediate => readOp model .imm (·.bitImmediate_0) .bit
  | .bitZeroPage => readOp model .zp (·.bitZeroPage_0) .bit
  | .bitZeroPageX => readOp model .zpx (·.bitZeroPageX_0) .bit
  | .bitAbsolute => readOp model .abs (·.bitAbsolute_0) .bit
  | .bitAbsoluteX => readOp model .absx (·.bitAbsoluteX_0) .bit
  -- STA / STX / STY / STZ
  | .staZeroPage => storeOp .zp (·.staZeroPage_0) .a
  | .staZeroPageX => storeOp .zpx (·.staZeroPageX_0) .a
  | .staAbsolute => storeOp .abs (·.staAbsolute_0) .a
  | .staAbsoluteX => storeOp .absx (·.staAbsoluteX_0) .a
  | .staAbsoluteY => storeOp .absy (·.staAbsoluteY_0) .a
  | .staXIndirect => storeOp .indx (·.staXIndirect_0) .a
  | .staIndirectY => storeOp .indy (·.staIndirectY_0) .a
  | .staIndirect => storeOp .zpind (·.staIndirect_0) .a
  | .stxZeroPage => storeOp .zp (·.stxZeroPage_0) .x
  | .stxZeroPageY => storeOp .zpy (·.stxZeroPageY_0) .x
  | .stxAbsolute => storeOp .abs (·.stxAbsolute_0) .x
  | .styZeroPage => storeOp .zp (·.styZeroPage_0) .y
  | .styZeroPageX => storeOp .zpx (·.styZeroPageX_0) .y
  | .styAbsolute => storeOp .abs (·.styAbsolute_0) .y
  | .stzZeroPage => storeOp .zp (·.stzZeroPage_0) .zero
  | .stzZeroPageX => storeOp .zpx (·.stzZeroPageX_0) .zero
  | .stzAbsolute => storeOp .abs (·.stzAbsolute_0) .zero
  | .stzAbsoluteX => storeOp .absx (·.stzAbsoluteX_0) .zero
  -- read-modify-write (delegate to c.modXxx(op))
  | .asl => modImplied (·.modImplied_0) .Asl
  | .aslZeroPage => modOp .zp (·.modZeroPage_0) false .Asl
  | .aslZeroPageX => modOp .zpx (·.modZeroPageX_0) false .Asl
  | .aslAbsolute => modOp .abs (·.modAbsolute_0) false .Asl
  | .aslAbsoluteX => modOp .absx (·.modAbsoluteX_0) false .Asl
  | .aslAbsoluteX65C02 => modOp .absx (·.modAbsoluteX65C02_0) true .Asl
  | .lsr => modImplied (·.modImplied_0) .Lsr
  | .lsrZeroPage => modOp .zp (·.modZeroPage_0) false .Lsr
  | .lsrZeroPageX => modOp .zpx (·.modZeroPageX_0) false .Lsr
  | .lsrAbsolute => modOp .abs (·.modAbsolute_0) false .Lsr
  | .lsrAbsoluteX => modOp .absx (·.modAbsoluteX_0) false .Lsr
  | .lsrAbsoluteX65C02 => modOp .absx (·.modAbsoluteX65C02_0) true .Lsr
  | .rol => modImplied (·.modImplied_0) .Rol
  | .rolZeroPage => modOp .zp (·.modZeroPage_0) false .Rol
  | .rolZeroPageX => modOp .zpx (·.modZeroPageX_0) false .Rol
  | .rolAbsolute => modOp .abs (·.modAbsolute_0) false .Rol
  | .rolAbsoluteX => modOp .absx (·.modAbsoluteX_0) false .Rol
  | .rolAbsoluteX65C02 => modOp .absx (·.modAbsoluteX65C02_0) true .Rol
  | .ror => modImplied (·.modImplied_0) .Ror
  | .rorZeroPage => modOp .zp (·.modZeroPage_0) false .Ror
  | .rorZeroPageX => modOp .zpx (·.modZeroPageX_0) false .Ror
  | .rorAbsolute => modOp .abs (·.modAbsolute_0) false .Ror
  | .rorAbsoluteX => modOp .absx (·.modAbsoluteX_0) false .Ror
  | .rorAbsoluteX65C02 => modOp .absx (·.modAbsoluteX65C02_0) true .Ror
  | .inc65C02 => modImplied (·.modImplied_0) .Inc
  | .incZeroPage => modOp .zp (·.modZeroPage_0) false .Inc
  | .incZeroPageX => modOp .zpx (·.modZeroPageX_0) false .Inc
  | .incAbsolute => modOp .abs (·.modAbsolute_0) false .Inc
  | .incAbsoluteX => modOp .absx (·.modAbsoluteX_0) false .Inc
  | .dec65C02 => modImplied (·.modImplied_0) .Dec
  | .decZeroPage => modOp .zp (·.modZeroPage_0) false .Dec
  | .decZeroPageX => modOp .zpx (·.modZeroPageX_0) false .Dec
  | .decAbsolute => modOp .abs (·.modAbsolute_0) false .Dec
  | .decAbsoluteX => modOp .absx (·.modAbsoluteX_0) false .Dec
  -- TRB / TSB / RMB / SMB
  | .trbZeroPage => testBitsOp .zp (·.trbZeroPage_0) false
  | .trbAbsolute => testBitsOp .abs (·.trbAbsolute_0) false
  | .tsbZeroPage => testBitsOp .zp (·.tsbZeroPage_0) true
  | .tsbAbsolute => testBitsOp .abs (·.tsbAbsolute_0) true
  | .rmb0 => rmbBase (·.rmbBase_0) 0x01
  | .rmb1 => rmbBase (·.rmbBase_0) 0x02
  | .rmb2 => rmbBase (·.rmbBase_0) 0x04
  | .rmb3 => rmbBase (·.rmbBase_0) 0x08
  | .rmb4 => rmbBase (·.rmbBase_0) 0x10
  | .rmb5 => rmbBase (·.rmbBase_0) 0x20
  | .rmb6 => rmbBase (·.rmbBase_0) 0x40
  | .rmb7 => rmbBase (·.rmbBase_0) 0x80
  | .smb0 => smbBase (·.smbBase_0) 0x01
  | .smb1 => smbBase (·.smbBase_0) 0x02
  | .smb2 => smbBase (·.smbBase_0) 0x04
  | .smb3 => smbBase (·.smbBase_0) 0x08
  | .smb4 => smbBase (·.smbBase_0) 0x10
  | .smb5 => smbBase (·.smbBase_0) 0x20
  | .smb6 => smbBase (·.smbBase_0) 0x40
  | .smb7 => smbBase (·.smbBase_0) 0x80
  -- branches
  | .bpl => branchOnFlagClear flagN
  | .bmi => branchOnFlagSet flagN
  | .bne => branchOnFlagClear flagZ
  | .beq => branchOnFlagSet flagZ
  | .bcc => branchOnFlagClear flagC
  | .bcs => branchOnFlagSet flagC
  | .bvc => branchOnFlagClear flagV
  | .bvs => branchOnFlagSet flagV
  | .bra => bra
  | .bbr0 => branchOnBitClear 0x01
  | .bbr1 => branchOnBitClear 0x02
  | .bbr2 => branchOnBitClear 0x04
  | .bbr3 => branchOnBitClear 0x08
  | .bbr4 => branchOnBitClear 0x10
  | .bbr5 => branchOnBitClear 0x20
  | .bbr6 => branchOnBitClear 0x40
  | .bbr7 => branchOnBitClear 0x80
  | .bbs0 => branchOnBitSet 0x01
  | .bbs1 => branchOnBitSet 0x02
  | .bbs2 => branchOnBitSet 0x04
  | .bbs3 => branchOnBitSet 0x08
  | .bbs4 => branchOnBitSet 0x10
  | .bbs5 => branchOnBitSet 0x20
  | .bbs6 => branchOnBitSet 0x40
  | .bbs7 => branchOnBitSet 0x80
  -- jumps
  | .jsr => jsr
  | .rts => rts
  | .jmp => jmp
  | .jmpIndirect6502 => jmpIndirect6502
  | .jmpIndirect65C02 => jmpIndirect65C02
  | .jmpIndexXIndirect => jmpIndexXIndirect
  -- stack
  | .pha => pushOp (·.pha_0) (·.a)
  | .phx => pushOp (·.phx_0) (·.x)
  | .phy => pushOp (·.phy_0) (·.y)
  | .php => pushOp (·.php_0) (·.p)
  | .pla => pullOp (·.pla_0) (fun v r => { r with a := v })
  | .plx => pullOp (·.plx_0) (fun v r => { r with x := v })
  | .ply => pullOp (·.ply_0) (fun v r => { r with y := v })
  | .plp => plp
  -- flags
  | .clc => regOp (·.clc_0) (fun r => { r with p := r.p &&& ~~~flagC })
  | .cli => regOp (·.cli_0) (fun r => { r with p := r.p &&& ~~~flagI })
  | .clv => regOp (·.clv_0) (fun r => { r with p := r.p &&& ~~~flagV })
  | .cld => regOp (·.cld_0) (fun r => { r with p := r.p &&& ~~~flagD })
  | .sec => regOp (·.sec_0) (fun r => { r with p := r.p ||| flagC })
  | .sei => regOp (·.sei_0) (fun r => { r with p := r.p ||| flagI })
  | .sed => regOp (·.sed_0) (fun r => { r with p := r.p ||| flagD })
  -- transfers
  | .tax => regOp (·.tax_0) (fun r => { r with p := nzFlags r.p r.a, x := r.a })
  | .txa => regOp (·.txa_0) (fun r => { r with p := nzFlags r.p r.x, a := r.x })
  | .tay => regOp (·.tay_0) (fun r => { r with p := nzFlags r.p r.a, y := r.a })
  | .tya => regOp (·.tya_0) (fun r => { r with p := nzFlags r.p r.y, a := r.y })
  | .txs => regOp (·.txs_0) (fun r => { r with sp := r.x })
  | .tsx => regOp (·.tsx_0) (fun r => { r with p := nzFlags r.p r.sp, x := r.sp })
  -- register increment / decrement
  | .dey => regOp (·.dey_0) (fun r => let y := r.y - 1; { r with y := y, p := nzFlags r.p y })
  | .iny => regOp (·.iny_0) (fun r => let y := r.y + 1; { r with y := y, p := nzFlags r.p y })
  | .dex => regOp (·.dex_0) (fun r => let x := r.x - 1; { r with x := x, p := nzFlags r.p x })
  | .inx => regOp (·.inx_0) (fun r => let x := r.x + 1; { r with x := x, p := nzFlags r.p x })

/-- the handler for a given record of cycle literals -/
def handler (k : CycleConsts) (model : CpuModel) (h : H) : M StepOut := do
  let o ← handlerS model h
  return o.eval k

/-- `executeInstruction`: fetch, table lookup (panic before `c.PC++` when absent), dispatch.
    `tbl` is the opcode table (`c.opCodes`). -/
def stepS (tbl : Byte → Option H) (model : CpuModel) : M StepOutS := do
  let pc := (← get).pc
  let opCode ← ld pc
  match tbl opCode with
  | none => failM (.illegal opCode pc)
  | some h => do
    incPC
    handlerS model h

def step (tbl : Byte → Option H) (k : CycleConsts) (model : CpuModel) : M StepOut := do
  let o ← stepS tbl model
  return o.eval k

end Verif.Impl
