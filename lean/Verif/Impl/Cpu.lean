import Verif.Impl.Alu
import Verif.Impl.HandlerNames
import Verif.Generated.OpTable
import Verif.Generated.Cycles
/-
  Code-shaped model of the monadic part of package cpu: addressing helpers (cpu/adressing.go),
  the handler shapes of cpu/instructions_*.go, `executeInstruction`, `push`/`pop`.
  Same order of `Mem.Load` / `Mem.Store` calls and the same placement of `c.PC++` as the Go code.

  Go has one function per opcode; most of them are instances of a few shapes.  The model keeps
  one definition per *shape* (`readOp`, `storeOp`, `modOp`, ...) and a table `handler : H → …`
  that instantiates it per Go function.  The cycle literals come from `Generated.Cycles`.
-/
namespace Verif.Impl
open Verif
open Verif.Generated

def incPC : M Unit := modify fun r => { r with pc := r.pc + 1 }
def setPC (a : Addr) : M Unit := modify fun r => { r with pc := a }
def setP (p : Byte) : M Unit := modify fun r => { r with p := p }
def setA (v : Byte) : M Unit := modify fun r => { r with a := v }
def setX (v : Byte) : M Unit := modify fun r => { r with x := v }
def setY (v : Byte) : M Unit := modify fun r => { r with y := v }
def setSP (v : Byte) : M Unit := modify fun r => { r with sp := v }

-- -------- Addressing modes (cpu/adressing.go) --------

def getAddrAbsolute : M Addr := do
  let loByte ← ld (← get).pc
  incPC
  let hi ← ld (← get).pc
  return mkAddr hi loByte

def getAddrZeroPage : M Addr := do
  let loByte ← ld (← get).pc
  return u16 loByte

def getAddrAbsoluteY : M (Addr × Nat) := do
  let loByte ← ld (← get).pc
  incPC
  let hi ← ld (← get).pc
  let addr := mkAddr hi loByte
  let res := addr + u16 (← get).y
  return (res, pageCrossCycles addr res)

def getAddrAbsoluteX : M (Addr × Nat) := do
  let loByte ← ld (← get).pc
  incPC
  let hi ← ld (← get).pc
  let addr := mkAddr hi loByte
  let res := addr + u16 (← get).x
  return (res, pageCrossCycles res addr)

def getAddrZeroPageY : M Addr := do
  let loByte ← ld (← get).pc
  return u16 (loByte + (← get).y)

def getAddrZeroPageX : M Addr := do
  let loByte ← ld (← get).pc
  return u16 (loByte + (← get).x)

def getAddrIndirect : M Addr := do
  let loByte ← ld (← get).pc
  incPC
  let hi ← ld (← get).pc
  let addr := mkAddr hi loByte
  let h ← ld (addr + 1)
  let l ← ld addr
  return mkAddr h l

def getAddrIndirectJmp6502 : M Addr := do
  let loByte ← ld (← get).pc
  incPC
  let hiByte ← ld (← get).pc
  let addr := mkAddr hiByte loByte
  let addr2 := mkAddr hiByte (loByte + 1)
  let h ← ld addr2
  let l ← ld addr
  return mkAddr h l

def getAddrRelative : M (Addr × Nat) := do
  let pc := (← get).pc
  let offset ← ld pc
  let res := relTarget pc offset
  return (res, pageCrossCycles (pc + 1) res)

def getAddrIndirectIdxY : M (Addr × Nat) := do
  let zpAddrLo ← ld (← get).pc
  let zpAddrHi := zpAddrLo + 1
  let h ← ld (u16 zpAddrHi)
  let l ← ld (u16 zpAddrLo)
  let addr := mkAddr h l
  let res := addr + u16 (← get).y
  return (res, pageCrossCycles addr res)

def getAddrIdxIndirectX : M Addr := do
  let b ← ld (← get).pc
  let zpAddrLo := b + (← get).x
  let zpAddrHi := zpAddrLo + 1
  let h ← ld (u16 zpAddrHi)
  let l ← ld (u16 zpAddrLo)
  return mkAddr h l

def getAddrZp65C02 : M Addr := do
  let zpAddrLo ← ld (← get).pc
  let zpAddrHi := zpAddrLo + 1
  let h ← ld (u16 zpAddrHi)
  let l ← ld (u16 zpAddrLo)
  return mkAddr h l

def getAddrIdxIndirect65C02 : M Addr := do
  let baseAddrLo ← ld (← get).pc
  incPC
  let hi ← ld (← get).pc
  let baseAddr := mkAddr hi baseAddrLo + u16 (← get).x
  let h ← ld (baseAddr + 1)
  let l ← ld baseAddr
  return mkAddr h l

/-- which Go addressing helper a handler calls for its data operand; `imm` is `c.Mem.Load(c.PC)` -/
inductive AM where
  | imm | zp | zpx | zpy | abs | absx | absy | indx | indy | zpind
deriving DecidableEq, Repr

/-- effective address and the page-cross cycle the helper reports (0 for helpers that report none) -/
def getAddr : AM → M (Addr × Nat)
  | .imm => do return ((← get).pc, 0)
  | .zp => do return (← getAddrZeroPage, 0)
  | .zpx => do return (← getAddrZeroPageX, 0)
  | .zpy => do return (← getAddrZeroPageY, 0)
  | .abs => do return (← getAddrAbsolute, 0)
  | .absx => getAddrAbsoluteX
  | .absy => getAddrAbsoluteY
  | .indx => do return (← getAddrIdxIndirectX, 0)
  | .indy => getAddrIndirectIdxY
  | .zpind => do return (← getAddrZp65C02, 0)

-- -------- stack --------

def push (val : Byte) : M Unit := do
  st (0x100 + u16 (← get).sp) val
  modify fun r => { r with sp := r.sp - 1 }

def pop : M Byte := do
  modify fun r => { r with sp := r.sp + 1 }
  ld (0x100 + u16 (← get).sp)

-- -------- operations on a loaded operand (`ldaBase`, `cmpBase`, `addBase`, `bitBase`, logical) --------

inductive ReadOp where
  | lda | ldx | ldy | cmp | cpx | cpy | add | sub | bit
  | logical (op : Logical)
deriving DecidableEq, Repr

/-- applies the operation, returns the additional cycles it reports (ADC/SBC only) -/
def ReadOp.run (model : CpuModel) : ReadOp → Byte → M Nat
  | .lda, v => do modify fun r => { r with a := v, p := nzFlags r.p v }; return 0
  | .ldx, v => do modify fun r => { r with x := v, p := nzFlags r.p v }; return 0
  | .ldy, v => do modify fun r => { r with y := v, p := nzFlags r.p v }; return 0
  | .cmp, v => do modify fun r => { r with p := cmpBase r.p r.a v }; return 0
  | .cpx, v => do modify fun r => { r with p := cmpBase r.p r.x v }; return 0
  | .cpy, v => do modify fun r => { r with p := cmpBase r.p r.y v }; return 0
  | .bit, v => do modify fun r => { r with p := bitBase r.p r.a v }; return 0
  | .logical op, v => do
      modify fun r => let a := op.apply r.a v; { r with a := a, p := nzFlags r.p a }
      return 0
  | .add, v => do
      let r ← get
      match addBase model r.p r.a v with
      | none => failM .bcd
      | some (res, p, extra) => do set { r with a := res, p := p }; return extra
  | .sub, v => do
      let r ← get
      match subBase model r.p r.a v with
      | none => failM .bcd
      | some (res, p, extra) => do set { r with a := res, p := p }; return extra

/-- `xxxYyy()` handlers that load one operand: address, load, operate, `c.PC++`.
    `usePage`: whether the handler adds the helper's page-cross cycle to its result. -/
def readOp (model : CpuModel) (am : AM) (base : Nat) (op : ReadOp) : M StepOut := do
  let (addr, moreCycles) ← getAddr am
  let operand ← ld addr
  let additionalCycles ← op.run model operand
  incPC
  return ⟨base + additionalCycles + moreCycles, false⟩

inductive Src where
  | a | x | y | zero
deriving DecidableEq, Repr

def Src.get (r : Regs) : Src → Byte
  | .a => r.a | .x => r.x | .y => r.y | .zero => 0

/-- STA/STX/STY/STZ: the page-cross cycle of the helper is discarded (`addr, _ :=`) -/
def storeOp (am : AM) (base : Nat) (src : Src) : M StepOut := do
  let (addr, _) ← getAddr am
  st addr (src.get (← get))
  incPC
  return ⟨base, false⟩

def modImplied (base : Nat) (m : Modifier) : M StepOut := do
  modify fun r =>
    let (res, p) := m.apply r.p r.a
    { r with a := res, p := nzFlags p res }
  return ⟨base, false⟩

/-- `modZeroPage` .. `modAbsoluteX65C02`; `usePage` only for the 65C02 abs,X variant -/
def modOp (am : AM) (base : Nat) (usePage : Bool) (m : Modifier) : M StepOut := do
  let (operAddr, extra) ← getAddr am
  let oper ← ld operAddr
  let r ← get
  let (res, p) := m.apply r.p oper
  set { r with p := p }
  st operAddr res
  modify fun r => { r with p := nzFlags r.p res }
  incPC
  return ⟨base + (if usePage then extra else 0), false⟩

/-- TRB / TSB -/
def testBitsOp (am : AM) (base : Nat) (set? : Bool) : M StepOut := do
  let (addr, _) ← getAddr am
  let oper ← ld addr
  let r ← get
  let (res, p) := if set? then tsbBase r.p r.a oper else trbBase r.p r.a oper
  set { r with p := p }
  st addr res
  incPC
  return ⟨base, false⟩

def rmbBase (base : Nat) (bit : Byte) : M StepOut := do
  let addr ← getAddrZeroPage
  let oper ← ld addr
  st addr (oper &&& (bit ^^^ 0xFF))
  incPC
  return ⟨base, false⟩

def smbBase (base : Nat) (bit : Byte) : M StepOut := do
  let addr ← getAddrZeroPage
  let oper ← ld addr
  st addr (oper ||| bit)
  incPC
  return ⟨base, false⟩

-- -------- branches --------

def branchOnFlagClear (flag : Byte) : M StepOut := do
  let r ← get
  cond ((r.p &&& flag) != 0)
    (do incPC; return ⟨ret_branchOnFlagClear_0, false⟩)
    (do let (branchAddress, additionalCycle) ← getAddrRelative
        setPC branchAddress
        return ⟨ret_branchOnFlagClear_1 + additionalCycle, false⟩)

def branchOnFlagSet (flag : Byte) : M StepOut := do
  let r ← get
  cond ((r.p &&& flag) == 0)
    (do incPC; return ⟨ret_branchOnFlagSet_0, false⟩)
    (do let (branchAddress, additionalCycle) ← getAddrRelative
        setPC branchAddress
        return ⟨ret_branchOnFlagSet_1 + additionalCycle, false⟩)

def bra : M StepOut := do
  let (branchAddress, additionalCycle) ← getAddrRelative
  setPC branchAddress
  return ⟨ret_bra_0 + additionalCycle, false⟩

def getAddressesBitBranchRelative : M (Addr × Addr × Nat) := do
  let zpAddr ← getAddrZeroPage
  incPC
  let (branchAddress, additionalCycle) ← getAddrRelative
  return (zpAddr, branchAddress, additionalCycle)

def branchOnBitClear (bit : Byte) : M StepOut := do
  let (zpAddr, branchAddr, additionalCycle) ← getAddressesBitBranchRelative
  let v ← ld zpAddr
  cond ((v &&& bit) != 0)
    (do incPC; return ⟨ret_branchOnBitClear_0, false⟩)
    (do setPC branchAddr; return ⟨ret_branchOnBitClear_1 + additionalCycle, false⟩)

def branchOnBitSet (bit : Byte) : M StepOut := do
  let (zpAddr, branchAddr, additionalCycle) ← getAddressesBitBranchRelative
  let v ← ld zpAddr
  cond ((v &&& bit) == 0)
    (do incPC; return ⟨ret_branchOnBitSet_0, false⟩)
    (do setPC branchAddr; return ⟨ret_branchOnBitSet_1 + additionalCycle, false⟩)

-- -------- jumps --------

def jsr : M StepOut := do
  let addr ← getAddrAbsolute
  let pc := (← get).pc
  push (u8 ((pc &&& 0xFF00) >>> 8))
  let pc := (← get).pc
  push (u8 (pc &&& 0x00FF))
  setPC addr
  return ⟨ret_jsr_0, false⟩

def rts : M StepOut := do
  let loByte ← pop
  let hiByte ← pop
  setPC (mkAddr hiByte loByte + 1)
  return ⟨ret_rts_0, false⟩

def jmp : M StepOut := do
  let addr ← getAddrAbsolute
  setPC addr
  return ⟨ret_jmp_0, false⟩

def jmpIndirect6502 : M StepOut := do
  let addr ← getAddrIndirectJmp6502
  setPC addr
  return ⟨ret_jmpIndirect6502_0, false⟩

def jmpIndirect65C02 : M StepOut := do
  let addr ← getAddrIndirect
  setPC addr
  return ⟨ret_jmpIndirect65C02_0, false⟩

def jmpIndexXIndirect : M StepOut := do
  let addr ← getAddrIdxIndirect65C02
  setPC addr
  return ⟨ret_jmpIndexXIndirect_0, false⟩

-- -------- stack, flags, transfers, register inc/dec --------

def pushOp (base : Nat) (f : Regs → Byte) : M StepOut := do
  push (f (← get))
  return ⟨base, false⟩

/-- PLA / PLX / PLY (`nzFlags`) -/
def pullOp (base : Nat) (setReg : Byte → Regs → Regs) : M StepOut := do
  let v ← pop
  modify fun r => let r := setReg v r; { r with p := nzFlags r.p v }
  return ⟨base, false⟩

def plp : M StepOut := do
  let v ← pop
  setP v
  return ⟨ret_plp_0, false⟩

def regOp (base : Nat) (f : Regs → Regs) : M StepOut := do
  modify f
  return ⟨base, false⟩

def handler (model : CpuModel) : H → M StepOut
  -- function literals
  | .lit7true => pure ⟨7, true⟩
  | .lit2false => pure ⟨2, false⟩
  -- LDA
  | .ldaImmediate => readOp model .imm ret_ldaImmediate_0 .lda
  | .ldaZeroPage => readOp model .zp ret_ldaZeroPage_0 .lda
  | .ldaZeroPageIdxX => readOp model .zpx ret_ldaZeroPageIdxX_0 .lda
  | .ldaAbsolute => readOp model .abs ret_ldaAbsolute_0 .lda
  | .ldaAbsoluteX => readOp model .absx ret_ldaAbsoluteX_0 .lda
  | .ldaAbsoluteY => readOp model .absy ret_ldaAbsoluteY_0 .lda
  | .ldaIdxIndirectX => readOp model .indx ret_ldaIdxIndirectX_0 .lda
  | .ldaIndIdxY => readOp model .indy ret_ldaIndIdxY_0 .lda
  | .ldaIndirect => readOp model .zpind ret_ldaIndirect_0 .lda
  -- LDX
  | .ldxImmediate => readOp model .imm ret_ldxImmediate_0 .ldx
  | .ldxZeroPage => readOp model .zp ret_ldxZeroPage_0 .ldx
  | .ldxZeroPageIdxY => readOp model .zpy ret_ldxZeroPageIdxY_0 .ldx
  | .ldxAbsolute => readOp model .abs ret_ldxAbsolute_0 .ldx
  | .ldxAbsoluteY => readOp model .absy ret_ldxAbsoluteY_0 .ldx
  -- LDY
  | .ldyImmediate => readOp model .imm ret_ldyImmediate_0 .ldy
  | .ldyZeroPage => readOp model .zp ret_ldyZeroPage_0 .ldy
  | .ldyZeroPageIdxX => readOp model .zpx ret_ldyZeroPageIdxX_0 .ldy
  | .ldyAbsolute => readOp model .abs ret_ldyAbsolute_0 .ldy
  | .ldyAbsoluteX => readOp model .absx ret_ldyAbsoluteX_0 .ldy
  -- CMP / CPX / CPY
  | .cmpImmediate => readOp model .imm ret_cmpImmediate_0 .cmp
  | .cmpZeroPage => readOp model .zp ret_cmpZeroPage_0 .cmp
  | .cmpZeroPageX => readOp model .zpx ret_cmpZeroPageX_0 .cmp
  | .cmpAbsolute => readOp model .abs ret_cmpAbsolute_0 .cmp
  | .cmpAbsoluteX => readOp model .absx ret_cmpAbsoluteX_0 .cmp
  | .cmpAbsoluteY => readOp model .absy ret_cmpAbsoluteY_0 .cmp
  | .cmpIdxXIndirect => readOp model .indx ret_cmpIdxXIndirect_0 .cmp
  | .cmpIndIdxY => readOp model .indy ret_cmpIndIdxY_0 .cmp
  | .cmpIndirect => readOp model .zpind ret_cmpIndirect_0 .cmp
  | .cpxImmediate => readOp model .imm ret_cpxImmediate_0 .cpx
  | .cpxZeroPage => readOp model .zp ret_cpxZeroPage_0 .cpx
  | .cpxAbsolute => readOp model .abs ret_cpxAbsolute_0 .cpx
  | .cpyImmediate => readOp model .imm ret_cpyImmediate_0 .cpy
  | .cpyZeroPage => readOp model .zp ret_cpyZeroPage_0 .cpy
  | .cpyAbsolute => readOp model .abs ret_cpyAbsolute_0 .cpy
  -- ADC
  | .addImmediate => readOp model .imm ret_addImmediate_0 .add
  | .addZeroPage => readOp model .zp ret_addZeroPage_0 .add
  | .addZeroPageX => readOp model .zpx ret_addZeroPageX_0 .add
  | .addAbsolute => readOp model .abs ret_addAbsolute_0 .add
  | .addAbsoluteX => readOp model .absx ret_addAbsoluteX_0 .add
  | .addAbsoluteY => readOp model .absy ret_addAbsoluteY_0 .add
  | .addIdxXIndirect => readOp model .indx ret_addIdxXIndirect_0 .add
  | .addIndirectIdxY => readOp model .indy ret_addIndirectIdxY_0 .add
  | .addIndirect => readOp model .zpind ret_addIndirect_0 .add
  -- SBC
  | .subImmediate => readOp model .imm ret_subImmediate_0 .sub
  | .subZeroPage => readOp model .zp ret_subZeroPage_0 .sub
  | .subZeroPageX => readOp model .zpx ret_subZeroPageX_0 .sub
  | .subAbsolute => readOp model .abs ret_subAbsolute_0 .sub
  | .subAbsoluteX => readOp model .absx ret_subAbsoluteX_0 .sub
  | .subAbsoluteY => readOp model .absy ret_subAbsoluteY_0 .sub
  | .subIdxXIndirect => readOp model .indx ret_subIdxXIndirect_0 .sub
  | .subIndirectIdxY => readOp model .indy ret_subIndirectIdxY_0 .sub
  | .subIndirect => readOp model .zpind ret_subIndirect_0 .sub
  -- EOR / ORA / AND  (delegate to logicalXxx(c, op))
  | .eorImmediate => readOp model .imm ret_logicalImmediate_0 (.logical .Xor)
  | .eorZeroPage => readOp model .zp ret_logicalZeroPage_0 (.logical .Xor)
  | .eorZeroPageX => readOp model .zpx ret_logicalZeroPageX_0 (.logical .Xor)
  | .eorAbsolute => readOp model .abs ret_logicalAbsolute_0 (.logical .Xor)
  | .eorAbsoluteX => readOp model .absx ret_logicalAbsoluteX_0 (.logical .Xor)
  | .eorAbsoluteY => readOp model .absy ret_logicalAbsoluteY_0 (.logical .Xor)
  | .eorIdxIndirect => readOp model .indx ret_logicalIdxXIndirect_0 (.logical .Xor)
  | .eorIndirectIdxY => readOp model .indy ret_logicalIndirectIdxY_0 (.logical .Xor)
  | .eorIndirect => readOp model .zpind ret_logicalIndirect_0 (.logical .Xor)
  | .oraImmediate => readOp model .imm ret_logicalImmediate_0 (.logical .Or)
  | .oraZeroPage => readOp model .zp ret_logicalZeroPage_0 (.logical .Or)
  | .oraZeroPageX => readOp model .zpx ret_logicalZeroPageX_0 (.logical .Or)
  | .oraAbsolute => readOp model .abs ret_logicalAbsolute_0 (.logical .Or)
  | .oraAbsoluteX => readOp model .absx ret_logicalAbsoluteX_0 (.logical .Or)
  | .oraAbsoluteY => readOp model .absy ret_logicalAbsoluteY_0 (.logical .Or)
  | .oraIdxIndirect => readOp model .indx ret_logicalIdxXIndirect_0 (.logical .Or)
  | .oraIndirectIdxY => readOp model .indy ret_logicalIndirectIdxY_0 (.logical .Or)
  | .oraIndirect => readOp model .zpind ret_logicalIndirect_0 (.logical .Or)
  | .andImmediate => readOp model .imm ret_logicalImmediate_0 (.logical .And)
  | .andZeroPage => readOp model .zp ret_logicalZeroPage_0 (.logical .And)
  | .andZeroPageX => readOp model .zpx ret_logicalZeroPageX_0 (.logical .And)
  | .andAbsolute => readOp model .abs ret_logicalAbsolute_0 (.logical .And)
  | .andAbsoluteX => readOp model .absx ret_logicalAbsoluteX_0 (.logical .And)
  | .andAbsoluteY => readOp model .absy ret_logicalAbsoluteY_0 (.logical .And)
  | .andIdxIndirect => readOp model .indx ret_logicalIdxXIndirect_0 (.logical .And)
  | .andIndirectIdxY => readOp model .indy ret_logicalIndirectIdxY_0 (.logical .And)
  | .andIndirect => readOp model .zpind ret_logicalIndirect_0 (.logical .And)
  -- BIT
  | .bitImmediate => readOp model .imm ret_bitImmediate_0 .bit
  | .bitZeroPage => readOp model .zp ret_bitZeroPage_0 .bit
  | .bitZeroPageX => readOp model .zpx ret_bitZeroPageX_0 .bit
  | .bitAbsolute => readOp model .abs ret_bitAbsolute_0 .bit
  | .bitAbsoluteX => readOp model .absx ret_bitAbsoluteX_0 .bit
  -- STA / STX / STY / STZ
  | .staZeroPage => storeOp .zp ret_staZeroPage_0 .a
  | .staZeroPageX => storeOp .zpx ret_staZeroPageX_0 .a
  | .staAbsolute => storeOp .abs ret_staAbsolute_0 .a
  | .staAbsoluteX => storeOp .absx ret_staAbsoluteX_0 .a
  | .staAbsoluteY => storeOp .absy ret_staAbsoluteY_0 .a
  | .staXIndirect => storeOp .indx ret_staXIndirect_0 .a
  | .staIndirectY => storeOp .indy ret_staIndirectY_0 .a
  | .staIndirect => storeOp .zpind ret_staIndirect_0 .a
  | .stxZeroPage => storeOp .zp ret_stxZeroPage_0 .x
  | .stxZeroPageY => storeOp .zpy ret_stxZeroPageY_0 .x
  | .stxAbsolute => storeOp .abs ret_stxAbsolute_0 .x
  | .styZeroPage => storeOp .zp ret_styZeroPage_0 .y
  | .styZeroPageX => storeOp .zpx ret_styZeroPageX_0 .y
  | .styAbsolute => storeOp .abs ret_styAbsolute_0 .y
  | .stzZeroPage => storeOp .zp ret_stzZeroPage_0 .zero
  | .stzZeroPageX => storeOp .zpx ret_stzZeroPageX_0 .zero
  | .stzAbsolute => storeOp .abs ret_stzAbsolute_0 .zero
  | .stzAbsoluteX => storeOp .absx ret_stzAbsoluteX_0 .zero
  -- read-modify-write (delegate to c.modXxx(op))
  | .asl => modImplied ret_modImplied_0 .Asl
  | .aslZeroPage => modOp .zp ret_modZeroPage_0 false .Asl
  | .aslZeroPageX => modOp .zpx ret_modZeroPageX_0 false .Asl
  | .aslAbsolute => modOp .abs ret_modAbsolute_0 false .Asl
  | .aslAbsoluteX => modOp .absx ret_modAbsoluteX_0 false .Asl
  | .aslAbsoluteX65C02 => modOp .absx ret_modAbsoluteX65C02_0 true .Asl
  | .lsr => modImplied ret_modImplied_0 .Lsr
  | .lsrZeroPage => modOp .zp ret_modZeroPage_0 false .Lsr
  | .lsrZeroPageX => modOp .zpx ret_modZeroPageX_0 false .Lsr
  | .lsrAbsolute => modOp .abs ret_modAbsolute_0 false .Lsr
  | .lsrAbsoluteX => modOp .absx ret_modAbsoluteX_0 false .Lsr
  | .lsrAbsoluteX65C02 => modOp .absx ret_modAbsoluteX65C02_0 true .Lsr
  | .rol => modImplied ret_modImplied_0 .Rol
  | .rolZeroPage => modOp .zp ret_modZeroPage_0 false .Rol
  | .rolZeroPageX => modOp .zpx ret_modZeroPageX_0 false .Rol
  | .rolAbsolute => modOp .abs ret_modAbsolute_0 false .Rol
  | .rolAbsoluteX => modOp .absx ret_modAbsoluteX_0 false .Rol
  | .rolAbsoluteX65C02 => modOp .absx ret_modAbsoluteX65C02_0 true .Rol
  | .ror => modImplied ret_modImplied_0 .Ror
  | .rorZeroPage => modOp .zp ret_modZeroPage_0 false .Ror
  | .rorZeroPageX => modOp .zpx ret_modZeroPageX_0 false .Ror
  | .rorAbsolute => modOp .abs ret_modAbsolute_0 false .Ror
  | .rorAbsoluteX => modOp .absx ret_modAbsoluteX_0 false .Ror
  | .rorAbsoluteX65C02 => modOp .absx ret_modAbsoluteX65C02_0 true .Ror
  | .inc65C02 => modImplied ret_modImplied_0 .Inc
  | .incZeroPage => modOp .zp ret_modZeroPage_0 false .Inc
  | .incZeroPageX => modOp .zpx ret_modZeroPageX_0 false .Inc
  | .incAbsolute => modOp .abs ret_modAbsolute_0 false .Inc
  | .incAbsoluteX => modOp .absx ret_modAbsoluteX_0 false .Inc
  | .dec65C02 => modImplied ret_modImplied_0 .Dec
  | .decZeroPage => modOp .zp ret_modZeroPage_0 false .Dec
  | .decZeroPageX => modOp .zpx ret_modZeroPageX_0 false .Dec
  | .decAbsolute => modOp .abs ret_modAbsolute_0 false .Dec
  | .decAbsoluteX => modOp .absx ret_modAbsoluteX_0 false .Dec
  -- TRB / TSB / RMB / SMB
  | .trbZeroPage => testBitsOp .zp ret_trbZeroPage_0 false
  | .trbAbsolute => testBitsOp .abs ret_trbAbsolute_0 false
  | .tsbZeroPage => testBitsOp .zp ret_tsbZeroPage_0 true
  | .tsbAbsolute => testBitsOp .abs ret_tsbAbsolute_0 true
  | .rmb0 => rmbBase ret_rmbBase_0 0x01
  | .rmb1 => rmbBase ret_rmbBase_0 0x02
  | .rmb2 => rmbBase ret_rmbBase_0 0x04
  | .rmb3 => rmbBase ret_rmbBase_0 0x08
  | .rmb4 => rmbBase ret_rmbBase_0 0x10
  | .rmb5 => rmbBase ret_rmbBase_0 0x20
  | .rmb6 => rmbBase ret_rmbBase_0 0x40
  | .rmb7 => rmbBase ret_rmbBase_0 0x80
  | .smb0 => smbBase ret_smbBase_0 0x01
  | .smb1 => smbBase ret_smbBase_0 0x02
  | .smb2 => smbBase ret_smbBase_0 0x04
  | .smb3 => smbBase ret_smbBase_0 0x08
  | .smb4 => smbBase ret_smbBase_0 0x10
  | .smb5 => smbBase ret_smbBase_0 0x20
  | .smb6 => smbBase ret_smbBase_0 0x40
  | .smb7 => smbBase ret_smbBase_0 0x80
  -- branches
  | .bpl => branchOnFlagClear flagN
  | .bmi => branchOnFlagSet flagN
  | .bne => branchOnFlagClear flagZ
  | .beq => branchOnFlagSet flagZ
  | .bcc => branchOnFlagClear flagC
  | .bcs => branchOnFlagSet flagC
  | .bvc => branchOnFlagClear flagV
  | .bvs => branchOnFlagSet flagV
  | .bra => bra
  | .bbr0 => branchOnBitClear 0x01
  | .bbr1 => branchOnBitClear 0x02
  | .bbr2 => branchOnBitClear 0x04
  | .bbr3 => branchOnBitClear 0x08
  | .bbr4 => branchOnBitClear 0x10
  | .bbr5 => branchOnBitClear 0x20
  | .bbr6 => branchOnBitClear 0x40
  | .bbr7 => branchOnBitClear 0x80
  | .bbs0 => branchOnBitSet 0x01
  | .bbs1 => branchOnBitSet 0x02
  | .bbs2 => branchOnBitSet 0x04
  | .bbs3 => branchOnBitSet 0x08
  | .bbs4 => branchOnBitSet 0x10
  | .bbs5 => branchOnBitSet 0x20
  | .bbs6 => branchOnBitSet 0x40
  | .bbs7 => branchOnBitSet 0x80
  -- jumps
  | .jsr => jsr
  | .rts => rts
  | .jmp => jmp
  | .jmpIndirect6502 => jmpIndirect6502
  | .jmpIndirect65C02 => jmpIndirect65C02
  | .jmpIndexXIndirect => jmpIndexXIndirect
  -- stack
  | .pha => pushOp ret_pha_0 (·.a)
  | .phx => pushOp ret_phx_0 (·.x)
  | .phy => pushOp ret_phy_0 (·.y)
  | .php => pushOp ret_php_0 (·.p)
  | .pla => pullOp ret_pla_0 (fun v r => { r with a := v })
  | .plx => pullOp ret_plx_0 (fun v r => { r with x := v })
  | .ply => pullOp ret_ply_0 (fun v r => { r with y := v })
  | .plp => plp
  -- flags
  | .clc => regOp ret_clc_0 (fun r => { r with p := r.p &&& ~~~flagC })
  | .cli => regOp ret_cli_0 (fun r => { r with p := r.p &&& ~~~flagI })
  | .clv => regOp ret_clv_0 (fun r => { r with p := r.p &&& ~~~flagV })
  | .cld => regOp ret_cld_0 (fun r => { r with p := r.p &&& ~~~flagD })
  | .sec => regOp ret_sec_0 (fun r => { r with p := r.p ||| flagC })
  | .sei => regOp ret_sei_0 (fun r => { r with p := r.p ||| flagI })
  | .sed => regOp ret_sed_0 (fun r => { r with p := r.p ||| flagD })
  -- transfers
  | .tax => regOp ret_tax_0 (fun r => { r with p := nzFlags r.p r.a, x := r.a })
  | .txa => regOp ret_txa_0 (fun r => { r with p := nzFlags r.p r.x, a := r.x })
  | .tay => regOp ret_tay_0 (fun r => { r with p := nzFlags r.p r.a, y := r.a })
  | .tya => regOp ret_tya_0 (fun r => { r with p := nzFlags r.p r.y, a := r.y })
  | .txs => regOp ret_txs_0 (fun r => { r with sp := r.x })
  | .tsx => regOp ret_tsx_0 (fun r => { r with p := nzFlags r.p r.sp, x := r.sp })
  -- register increment / decrement
  | .dey => regOp ret_dey_0 (fun r => let y := r.y - 1; { r with y := y, p := nzFlags r.p y })
  | .iny => regOp ret_iny_0 (fun r => let y := r.y + 1; { r with y := y, p := nzFlags r.p y })
  | .dex => regOp ret_dex_0 (fun r => let x := r.x - 1; { r with x := x, p := nzFlags r.p x })
  | .inx => regOp ret_inx_0 (fun r => let x := r.x + 1; { r with x := x, p := nzFlags r.p x })

def opTable : CpuModel → Byte → Option H
  | .m6502 => opTable6502
  | .m65C02 => opTable65C02

/-- `executeInstruction`: fetch, table lookup (panic before `c.PC++` when absent), dispatch -/
def step (model : CpuModel) : M StepOut := do
  let pc := (← get).pc
  let opCode ← ld pc
  match opTable model opCode with
  | none => failM (.illegal opCode pc)
  | some h => do
    incPC
    handler model h

end Verif.Impl
