import Verif.Impl.Mem
/-
  Code-shaped model of memory.WrappingMemory (the dispatch of `Store`), memory.PlaceholderWrapper and
  memory.F256UnsignedCoproc (memory/wrapper_memory.go, memory/f256_coproc.go), on a memory model `k`.
  `none` = a memory fault inside the handler (a Go panic that travels up to RunExt's recover).
-/
namespace Verif.Impl
open Verif Verif.Spec

/-- `WrappingMemory.Store`: is the store handed to a registered function?  `ioMask` is `mask & 0xFF00`
    as stored by `NewMemWrapper`; `special` is the key set of `specialWriteAddresses`. -/
def wrapIntercepts (ioMask : Addr) (special : Addr → Bool) (address : Addr) : Bool :=
  if (address &&& 0xFF00) != (ioMask &&& 0xFF00) then false else special address

def loadB (k : MemKind) (s : MemState) (a : Addr) : Option (Byte × MemState) :=
  match load k s a with
  | (some v, s') => some (v, s')
  | (none, _) => none

def storeB (k : MemKind) (s : MemState) (a : Addr) (v : Byte) : Option MemState :=
  match store k s a v with
  | (true, s') => some s'
  | (false, _) => none

/-- `WriteUMul` -/
def writeUMul (k : MemKind) (base : Addr) (s : MemState) (address : Addr) (data : Byte) : Option MemState := do
  let s ← storeB k s address data
  let (h1, s) ← loadB k s (base + 1)
  let (l1, s) ← loadB k s base
  let (h2, s) ← loadB k s (base + 3)
  let (l2, s) ← loadB k s (base + 2)
  let oper1 := h1.toNat * 256 + l1.toNat
  let oper2 := h2.toNat * 256 + l2.toNat
  let res := oper1 * oper2
  let s ← storeB k s (base + 0x10) (BitVec.ofNat 8 (res % 256))
  let s ← storeB k s (base + 0x10 + 1) (BitVec.ofNat 8 (res / 256 % 256))
  let s ← storeB k s (base + 0x10 + 2) (BitVec.ofNat 8 (res / 65536 % 256))
  storeB k s (base + 0x10 + 3) (BitVec.ofNat 8 (res / 16777216 % 256))

/-- `WriteUDiv`: `oper1` (at base+4) is the divisor, `oper2` (at base+6) the numerator -/
def writeUDiv (k : MemKind) (base : Addr) (s : MemState) (address : Addr) (data : Byte) : Option MemState := do
  let s ← storeB k s address data
  let (h1, s) ← loadB k s (base + 5)
  let (l1, s) ← loadB k s (base + 4)
  let (h2, s) ← loadB k s (base + 7)
  let (l2, s) ← loadB k s (base + 6)
  let oper1 := h1.toNat * 256 + l1.toNat
  let oper2 := h2.toNat * 256 + l2.toNat
  if oper1 ≠ 0 then
    let resDiv := oper2 / oper1
    let resMod := oper2 % oper1
    let s ← storeB k s (base + 0x14) (BitVec.ofNat 8 (resDiv % 256))
    let s ← storeB k s (base + 0x15) (BitVec.ofNat 8 (resDiv / 256 % 256))
    let s ← storeB k s (base + 0x16) (BitVec.ofNat 8 (resMod % 256))
    storeB k s (base + 0x17) (BitVec.ofNat 8 (resMod / 256 % 256))
  else some s

/-- `Config.AddF256Func`: which addresses the coprocessor registers (flags: UMul = 1, UDiv = 4) -/
def coprocSpecial (flags : Byte) (base : Addr) (a : Addr) : Option Bool :=   -- some false = multiplier, some true = divider
  if (flags &&& 1) != 0 && decide (a - base < 4) then some false
  else if (flags &&& 4) != 0 && decide (4 ≤ a - base) && decide (a - base < 8) then some true
  else none

/-- a store through the coprocessor layer (the wrapper exists only when a unit is enabled) -/
def coprocStore (k : MemKind) (flags : Byte) (base : Addr) (s : MemState) (a : Addr) (v : Byte) : Option MemState :=
  if wrapIntercepts base (fun x => (coprocSpecial flags base x).isSome) a then
    match coprocSpecial flags base a with
    | some false => writeUMul k base s a v
    | some true => writeUDiv k base s a v
    | none => storeB k s a v
  else storeB k s a v

end Verif.Impl
