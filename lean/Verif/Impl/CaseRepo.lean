/-
  Code-shaped model of verifier.simpleCaseRepo (verifier/case_repo.go) on a directory modelled as a
  finite map from names to files.  A name with a `/` is an entry inside the sub directory named before the `/`;
  the only thing the model knows about sub directories is what `os.Remove` knows: a directory that still has
  entries cannot be removed.
-/
namespace Verif.Impl

inductive File where
  | case (driver script : String)   -- a test case file (the description does not matter here)
  | other (tag : Nat)                -- any other file; the tag stands for its content (0 planted, 1 script skeleton, 2 default driver)
  | badJson                          -- a file that json.Unmarshal rejects
  | dir                              -- a sub directory
deriving DecidableEq, Repr

abbrev Dir := List (String × File)

def Dir.get : Dir → String → Option File
  | [], _ => none
  | (k, f) :: es, n => if k = n then some f else Dir.get es n
def Dir.has (d : Dir) (n : String) : Bool := (d.get n).isSome
def Dir.erase : Dir → String → Dir
  | [], _ => []
  | (k, f) :: es, n => if k = n then Dir.erase es n else (k, f) :: Dir.erase es n
/-- `os.Remove` succeeds: the name exists and is not a directory that still has entries -/
def Dir.removable (d : Dir) (n : String) : Bool := d.has n && !d.any (fun e => e.1.startsWith (n ++ "/"))
/-- create or truncate -/
def Dir.put (d : Dir) (n : String) (f : File) : Dir := (n, f) :: d.erase n

/-- `^(.+)\.json$`: a non-empty stem followed by the extension -/
def isCaseName (n : String) : Bool := n.endsWith ".json" && n.length > 5

/-- `Get`: read and parse a case file -/
def getCase (d : Dir) (n : String) : Option (String × String) :=
  match d.get n with
  | some (.case dr sc) => some (dr, sc)
  | _ => none

/-- `IterateTestCases` with a processor that cannot fail: the case files in directory order, or `none`
    when one of them cannot be read -/
def iterate : Dir → Option (List (String × String × String))
  | [] => some []
  | (k, f) :: es =>
    if isCaseName k then
      match f with
      | .case dr sc => (iterate es).map ((k, dr, sc) :: ·)
      | _ => none
    else iterate es

/-- `Add(caseName, t, createDriver)` with `t.TestScript = script`, `t.TestDriverSource = driver` -/
def add (d : Dir) (caseName driver script : String) (createDriver : Bool) : Bool × Dir :=
  if d.has (caseName ++ ".json") then (false, d)
  else if d.has script then (false, d)
  else if createDriver && d.has driver then (false, d)
  else
    let d := d.put (caseName ++ ".json") (.case driver script)
    let d := d.put script (.other 1)
    let d := if createDriver then d.put driver (.other 2) else d
    (true, d)

/-- number of references to a file name, in either role, over all cases -/
def refCount (cases : List (String × String × String)) (name : String) : Nat :=
  (cases.map fun c => (if c.2.1 == name then 1 else 0) + (if c.2.2 == name then 1 else 0)).sum

/-- `Del(caseName)`: (ok, directory afterwards).  A failing `os.Remove` (file not there, or a directory that is not empty) ends the
    operation with an error; what was removed before stays removed. -/
def del (d : Dir) (caseName : String) : Bool × Dir :=
  let n := if caseName.endsWith ".json" then caseName else caseName ++ ".json"
  match getCase d n with
  | none => (false, d)
  | some (driver, script) =>
    match iterate d with
    | none => (false, d)
    | some cases =>
      let asmUnique := refCount cases driver == 1
      let luaUnique := refCount cases script == 1
      if !d.has n then (false, d) else
      let d := d.erase n
      if asmUnique && !d.removable driver then (false, d) else
      let d := if asmUnique then d.erase driver else d
      if luaUnique && !d.removable script then (false, d) else
      let d := if luaUnique then d.erase script else d
      (true, d)

end Verif.Impl
