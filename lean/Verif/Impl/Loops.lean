/-
  The address loops `for c := T(start); c <= T(end); c++` of memory.Dump, profiler.DumpStatistics and
  the two cut-off functions, for a counter type of `bits` bits (a regenerated fact: the declared type of
  the counter).  `none` = the loop is still running when the fuel of the definition runs out.
-/
namespace Verif.Impl

/-- the counter values the loop body is executed for -/
def counterLoop (bits : Nat) (stop : Nat) : Nat → Nat → Option (List Nat)
  | _, 0 => none
  | c, fuel + 1 =>
    if c ≤ stop then (counterLoop bits stop ((c + 1) % 2 ^ bits) fuel).map (c :: ·) else some []

/-- with a counter that can hold `stop + 1` the loop visits start, start+1, ..., stop and exits -/
theorem counterLoop_terminates (bits stop : Nat) (hb : stop + 1 < 2 ^ bits) :
    ∀ (n start : Nat), start + n = stop + 1 →
      counterLoop bits stop start (n + 1) = some (List.range' start n) := by
  intro n
  induction n with
  | zero =>
    intro start h
    have : ¬ start ≤ stop := by omega
    simp [counterLoop, this]
  | succ n ih =>
    intro start h
    have h1 : start ≤ stop := by omega
    have h2 : (start + 1) % 2 ^ bits = start + 1 := Nat.mod_eq_of_lt (by omega)
    have e : counterLoop bits stop start (n + 1 + 1) =
        (counterLoop bits stop ((start + 1) % 2 ^ bits) (n + 1)).map (start :: ·) := by
      rw [counterLoop]; simp [h1]
    rw [e, h2, ih (start + 1) (by omega)]
    simp [List.range'_succ]

/-- a 16-bit counter never leaves the guard when the range ends at $FFFF (the defect the `fix:` commit
    6d65067 repaired; kept as the reason the width is an obligation) -/
theorem counterLoop_diverges_16 : ∀ (fuel start : Nat), start ≤ 65535 →
    counterLoop 16 65535 start fuel = none := by
  intro fuel
  induction fuel with
  | zero => intro start _; rfl
  | succ n ih =>
    intro start h
    have : (start + 1) % 2 ^ 16 ≤ 65535 := by omega
    simp [counterLoop, h, ih _ this]

end Verif.Impl
