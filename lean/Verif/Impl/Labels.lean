/-
  Code-shaped model of assembler.parseOneLineAcme, assembler.parseOneLineTass and
  assembler.ParseLabelFile: hand-written recognisers for the three regular expressions

    ACME    ^\s+([[:word:]]+)\s+= [$]([[:xdigit:]]{1,4})(\s.*)?$
    64tass  ^\s*[[:word:]]+\s*= [$].*$                       (hex or not)
            ^\s*([[:word:]]+)\s*= [$]([[:xdigit:]]{1,4})(\s.*)?$
            ^\s*([[:word:]]+)\s*= ([[:digit:]]{1,5})(\s.*)?$   + ParseUint(.., 10, 16)

  (RE2: `\s` = [\t\n\f\r ], `[[:word:]]` = [0-9A-Za-z_], `.` = anything but \n, `$` = end of text.)
  The regex literals themselves are regenerated facts pinned in Facts; the equivalence of recogniser and
  Go's regexp engine is established by the differential, not by proof.
-/
namespace Verif.Impl

def isWs (c : Char) : Bool := c == ' ' || c == '\t' || c == '\n' || c == '\x0c' || c == '\r'
def isDigit10 (c : Char) : Bool := '0' ≤ c && c ≤ '9'
def isWord (c : Char) : Bool := isDigit10 c || ('a' ≤ c && c ≤ 'z') || ('A' ≤ c && c ≤ 'Z') || c == '_'
def isHex (c : Char) : Bool := isDigit10 c || ('a' ≤ c && c ≤ 'f') || ('A' ≤ c && c ≤ 'F')

def hexDigitVal (c : Char) : Nat :=
  if isDigit10 c then c.toNat - 48 else if 'a' ≤ c && c ≤ 'f' then c.toNat - 87 else c.toNat - 55
def hexVal (cs : List Char) : Nat := cs.foldl (fun n c => n * 16 + hexDigitVal c) 0
def decValue (cs : List Char) : Nat := cs.foldl (fun n c => n * 10 + (c.toNat - 48)) 0

/-- `(\s.*)?$`: end of line, or a white-space character followed by anything without a newline -/
def tailOk : List Char → Bool
  | [] => true
  | c :: rest => isWs c && !rest.contains '\n'

/-- `([[:xdigit:]]{1,4})(\s.*)?$` -/
def hexTail (r : List Char) : Option Nat :=
  if 1 ≤ (r.takeWhile isHex).length ∧ (r.takeWhile isHex).length ≤ 4 ∧ tailOk (r.dropWhile isHex) = true
  then some (hexVal (r.takeWhile isHex)) else none

/-- `([[:digit:]]{1,5})(\s.*)?$` and `ParseUint(.., 10, 16)` -/
def decTail (r : List Char) : Option Nat :=
  if 1 ≤ (r.takeWhile isDigit10).length ∧ (r.takeWhile isDigit10).length ≤ 5 ∧ tailOk (r.dropWhile isDigit10) = true ∧
      decValue (r.takeWhile isDigit10) ≤ 65535
  then some (decValue (r.takeWhile isDigit10)) else none

/-- strips a literal prefix -/
def stripPrefix : List Char → List Char → Option (List Char)
  | [], r => some r
  | _ :: _, [] => none
  | p :: ps, c :: cs => if p = c then stripPrefix ps cs else none

def parseAcme (line : List Char) : Option (Nat × List Char) :=
  let lead := line.takeWhile isWs
  let r1 := line.dropWhile isWs
  let label := r1.takeWhile isWord
  let r2 := r1.dropWhile isWord
  let mid := r2.takeWhile isWs
  if lead.isEmpty || label.isEmpty || mid.isEmpty then none
  else match stripPrefix ['=', ' ', '$'] (r2.dropWhile isWs) with
    | some r4 => (hexTail r4).map (·, label)
    | none => none

/-- the value field of a 64tass line: `$` + hex field (the "hex or not" expression also needs the rest of
    the line to be free of newlines), else a decimal field -/
def tassValue (r4 : List Char) : Option Nat :=
  match stripPrefix ['$'] r4 with
  | some r5 => if r5.contains '\n' then none else hexTail r5
  | none => decTail r4

def parseTass (line : List Char) : Option (Nat × List Char) :=
  let r1 := line.dropWhile isWs
  let label := r1.takeWhile isWord
  let r2 := r1.dropWhile isWord
  if label.isEmpty then none
  else match stripPrefix ['=', ' '] (r2.dropWhile isWs) with
    | some r4 => (tassValue r4).map (·, label)
    | none => none

/-- `ParseLabelFile` on the lines the scanner delivers: first error aborts; labels of one address are
    kept in file order.  `tooLong` tells whether the scanner gave up on a line (bufio.Scanner's token
    limit); `checksScannerError` is the regenerated fact whether that error is consulted. -/
def parseFile (parse : List Char → Option (Nat × List Char)) (checksScannerError : Bool) (tooLong : List Char → Bool) :
    List (List Char) → Option (List (Nat × List Char))
  | [] => some []
  | l :: rest =>
    if tooLong l then (if checksScannerError then none else some [])
    else match parse l with
      | none => none
      | some d => (parseFile parse checksScannerError tooLong rest).map (d :: ·)

/-- the result map: for each address the labels defined with that value, in file order -/
def labelsOf (defs : List (Nat × List Char)) (a : Nat) : List (List Char) :=
  (defs.filter (·.1 == a)).map (·.2)

end Verif.Impl
