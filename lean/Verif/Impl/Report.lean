import Verif.Impl.Loops
import Verif.Impl.Cutoff
import Verif.Impl.Dump
/-
  Code-shaped model of profiler.DumpStatistics (profiler/profiler.go): the address loop, the labels
  before each address line, the reduced count, the flag.
-/
namespace Verif.Impl

inductive ReportLine where
  | label (s : String)
  | addr (flag : Bool) (a : Nat) (value : Nat) (num : Nat)
deriving DecidableEq, Repr

/-- what the loop body writes for one address -/
def reportAt (labels : Nat → List String) (raw value : Nat → Nat) (cut : Nat) (a : Nat) : List ReportLine :=
  (labels a).map .label ++ [.addr (flagged cut (raw a)) a (value a) (shown (raw a))]

/-- the whole report; `none` when the loop does not terminate within the fuel -/
def report (bits : Nat) (labels : Nat → List String) (raw value : Nat → Nat) (cut : Nat) (start stop fuel : Nat) :
    Option (List ReportLine) :=
  (counterLoop bits stop start fuel).map fun addrs => addrs.flatMap (reportAt labels raw value cut)

def hexU2 (b : Nat) : List Char := (hex2 b).map Char.toUpper

def decChars (n : Nat) : List Char := (Nat.toDigits 10 n)

/-- `fmt.Fprintln(f, label)` / `fmt.Fprintf(f, "%s%04x: %02X %d\n", prefix, count, value, numAccess)` -/
def renderLine : ReportLine → List Char
  | .label s => s.toList ++ ['\n']
  | .addr flag a v n =>
    (if flag then "###  ".toList else "     ".toList) ++ hex4 a ++ [':', ' '] ++ hexU2 v ++ [' '] ++ decChars n ++ ['\n']

def renderReport (ls : List ReportLine) : List Char := (ls.map renderLine).flatten

end Verif.Impl
