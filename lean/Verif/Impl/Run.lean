import Verif.Basic.Bus
import Verif.Impl.Cpu
/-
  `RunExt`: the fetch/execute loop of cpu/cpu_6502.go on an arbitrary bus.
-/
namespace Verif.Impl
open Verif

structure Machine (σ : Type) where
  regs : Regs
  cycles : Nat
  mem : σ

inductive Stop where
  | halted            -- BRK
  | error (e : Err)   -- recovered panic
  | fuel              -- model-only: the step budget of the definition ran out
deriving DecidableEq, Repr

/-- the `for halt := false; !halt;` loop.  The cycles of the halting instruction are not added.
    On a fault the registers are those at the beginning of the faulting instruction (the Go
    object keeps partially updated registers; only the illegal-opcode case is compared). -/
def runLoop {σ : Type} (tbl : Byte → Option H) (k : CycleConsts) (model : CpuModel) (bus : Bus σ) :
    Nat → Machine σ → Stop × Machine σ
  | 0, m => (.fuel, m)
  | n + 1, m =>
    match (step tbl k model m.regs).run bus m.mem with
    | (.error e, mem') => (.error e, { m with mem := mem' })
    | (.ok (out, regs'), mem') =>
      if out.halt then (.halted, { m with regs := regs', mem := mem' })
      else runLoop tbl k model bus n { regs := regs', cycles := m.cycles + out.cycles, mem := mem' }

/-- `RunExt(startAddress, resetCycleCount)` -/
def runExt {σ : Type} (tbl : Byte → Option H) (k : CycleConsts) (model : CpuModel) (bus : Bus σ) (fuel : Nat) (start : Addr) (reset : Bool)
    (m : Machine σ) : Stop × Machine σ :=
  runLoop tbl k model bus fuel { m with regs := { m.regs with pc := start }, cycles := if reset then 0 else m.cycles }

end Verif.Impl
