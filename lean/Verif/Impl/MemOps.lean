import Verif.Impl.Mem
/-  Operation alphabet of the memory models and their effect on the model state. -/
namespace Verif
open Verif.Impl Verif.Spec

/-- the operations of the `Memory` / `LargeMemory` interfaces -/
inductive MemOp where
  | load (a : Addr)
  | store (a : Addr) (v : Byte)
  | loadL (l : BitVec 32)
  | storeL (l : BitVec 32) (v : Byte)
  | stat (a : Addr)
  | statL (l : BitVec 32)
  | clear
  | snap
  | restore
deriving DecidableEq, Repr

/-- which regions `ClearStatistics`, `TakeSnapshot`, `RestoreSnapshot` of a model touch
    (regenerated facts, see Facts/Mem.lean) -/
structure MemCfg where
  kind : MemKind
  cleared : List Region
  taken : List Region
  restored : List Region

/-- the cell an access resolves to, in the state it is made in (`none`: not an access, or fault) -/
def MemOp.cell (cfg : MemCfg) (s : MemState) : MemOp → Option Cell
  | .load a | .store a _ => calcIndex cfg.kind s.data a
  | .loadL l | .storeL l _ => calcLongIndex cfg.kind s.data l
  | _ => none

/-- the value a (successful) store writes -/
def MemOp.written : MemOp → Option Byte
  | .store _ v | .storeL _ v => some v
  | _ => none

def applyOp (cfg : MemCfg) (s : MemState) : MemOp → MemState
  | .load a => (load cfg.kind s a).2
  | .store a v => (store cfg.kind s a v).2
  | .loadL l => (loadLarge cfg.kind s l).2
  | .storeL l v => (storeLarge cfg.kind s l v).2
  | .stat _ => s
  | .statL _ => s
  | .clear => clearStatistics cfg.cleared s
  | .snap => takeSnapshot cfg.taken s
  | .restore => restoreSnapshot cfg.restored s

def runOps (cfg : MemCfg) (s : MemState) (h : List MemOp) : MemState := h.foldl (applyOp cfg) s

end Verif
