/-
  Code-shaped model of profiler.CutOffMedian / CutOffAbsoluteValue (profiler/statistics.go) and of the
  flag rule of profiler.DumpStatistics.

  The index `int(l * (1.0 - p))` is float64 arithmetic, opaque to the kernel: it is an INPUT `raw`
  of the model, constrained by `IdxOk` (an integer envelope plus monotonicity); the envelope is
  validated exhaustively by execution (65 536 lengths x 101 percentages) on every run of the check.
-/
namespace Verif.Impl

def sortAsc (l : List Nat) : List Nat := l.mergeSort (fun a b => decide (a ≤ b))

/-- the set of values (Go: keys of a map) -/
def dedup : List Nat → List Nat
  | [] => []
  | a :: as => if a ∈ dedup as then dedup as else a :: dedup as

/-- `if cutOffIndex >= len { cutOffIndex = len - 1 }` -/
def clampIdx (raw n : Nat) : Nat := if raw ≥ n then n - 1 else raw

/-- `CutOffMedian`: the statistics of all addresses, sorted, at the (clamped) index -/
def cutOffMedian (vals : List Nat) (raw : Nat) : Nat := (sortAsc vals).getD (clampIdx raw vals.length) 0

/-- `CutOffAbsoluteValue`: the distinct statistics, sorted, at the (clamped) index -/
def cutOffAbsolute (vals : List Nat) (raw : Nat) : Nat :=
  (sortAsc (dedup vals)).getD (clampIdx raw (dedup vals).length) 0

/-- `DumpStatistics`: an address is flagged iff its raw count reaches the cut-off value -/
def flagged (cut raw : Nat) : Bool := decide (raw ≥ cut)

/-- the number shown in the report: accesses without the one that loaded the byte -/
def shown (raw : Nat) : Nat := if raw ≠ 0 then raw - 1 else 0

/-- what is assumed about the float index for n items and percentage p (0..100):
    never above ⌊n(100−p)/100⌋ (so at least the top p percent are flagged) -/
def IdxOk (idx : Nat → Nat → Nat) : Prop :=
  (∀ n p, p ≤ 100 → idx n p ≤ n * (100 - p) / 100) ∧
  (∀ n p q, p ≤ q → q ≤ 100 → idx n q ≤ idx n p)

end Verif.Impl
