import Verif.Impl.Mem
import Verif.Basic.Bus
/-  The memory models of Impl/Mem.lean as buses (what `c.Mem` is for the run loop). -/
namespace Verif.Impl
open Verif Verif.Spec

/-- a machine's memory as a bus: a fault (Go panic on an index out of range) is an error of the access -/
def memBus (k : MemKind) : Bus MemState where
  load s a :=
    match load k s a with
    | (some v, s') => (.ok v, s')
    | (none, s') => (.error .mem, s')
  store s a v r :=
    match store k s a v with
    | (true, s') => (.ok r, s')
    | (false, s') => (.error .mem, s')

end Verif.Impl
