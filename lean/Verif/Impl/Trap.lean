import Verif.Basic.Bus
import Verif.Impl.Wrapper
import Verif.Impl.Ports
/-
  Code-shaped model of the trap and port layers: memory.WrappingMemory with one registered address
  (run/profile: luabridge.TrapProcessor.Write; verify: memory.PlaceholderWrapper.Write with or without a
  write function) and with the configured output ports (emuconfig.AddIoWrapper).
  The layers are buses on top of an arbitrary inner bus, so everything holds for every memory model.
-/
namespace Verif.Impl
open Verif

/-- what a script's `trap(code)` does: it runs between two bus operations of the program, sees and may
    change the live registers and the memory below the wrapper; an error raised by the script is a Go panic -/
abbrev Script (σ : Type) := Byte → Regs → σ → Except Err Regs × σ

structure Trapped (σ : Type) where
  inner : σ
  /-- the codes `trap` was called with, oldest first -/
  log : List Byte

/-- the wrapper layer for a trap address `t`; `handler = none`: PlaceholderWrapper without write function -/
def trapBus {σ : Type} (inner : Bus σ) (t : Addr) (handler : Option (Script σ)) : Bus (Trapped σ) where
  load s a :=
    match inner.load s.inner a with
    | (res, m) => (res, { s with inner := m })
  store s a v r :=
    if wrapIntercepts (t &&& 0xFF00) (fun x => x == t) a then
      match handler with
      | some f =>
        match f v r s.inner with
        | (res, m) => (res, { inner := m, log := s.log ++ [v] })
      | none =>
        match inner.store s.inner t v r with
        | (res, m) => (res, { s with inner := m })
    else
      match inner.store s.inner a v r with
      | (res, m) => (res, { s with inner := m })

/-- the stores a run issues, in order (every store node reached, whether or not the bus accepts it) -/
def storesIssued {σ α : Type} (bus : Bus σ) : Prog α → σ → List (Addr × Byte)
  | .ret _, _ => []
  | .fail _, _ => []
  | .load a k, s =>
    match bus.load s a with
    | (.error _, _) => []
    | (.ok b, s') => storesIssued bus (k b) s'
  | .store a v r k, s =>
    (a, v) :: match bus.store s a v r with
    | (.error _, _) => []
    | (.ok r', s') => storesIssued bus (k r') s'

/-- the loads a run issues, in order -/
def loadsIssued {σ α : Type} (bus : Bus σ) : Prog α → σ → List Addr
  | .ret _, _ => []
  | .fail _, _ => []
  | .load a k, s =>
    a :: match bus.load s a with
    | (.error _, _) => []
    | (.ok b, s') => loadsIssued bus (k b) s'
  | .store a v r k, s =>
    match bus.store s a v r with
    | (.error _, _) => []
    | (.ok r', s') => loadsIssued bus (k r') s'

/-! ### output ports -/

structure PortState (σ : Type) where
  inner : σ
  /-- bytes written to each port so far (by offset in the I/O page) -/
  count : Nat → Nat
  /-- everything written to stdout, as byte values -/
  out : List Nat

/-- `Write` of the three processors, given the number of bytes the port has seen -/
def portWrite : Port → Nat → Nat → List Nat
  | .hex len, k, b => (if len ≠ 0 ∧ k ≠ 0 ∧ k % len = 0 then [10] else []) ++ ((hex2 b).map fun c => c.toUpper.toNat) ++ [32]
  | .petscii, _, b => [petsciiToAscii b]
  | .bin, _, b => [b]

/-- the port layer: `ioMask` is the `IoMask` byte, `ports off` the port configured at offset `off` -/
def portBus {σ : Type} (inner : Bus σ) (ioMask : Byte) (ports : Nat → Option Port) : Bus (PortState σ) where
  load s a :=
    match inner.load s.inner a with
    | (res, m) => (res, { s with inner := m })
  store s a v r :=
    if wrapIntercepts (BitVec.ofNat 16 (ioMask.toNat * 256)) (fun x => (ports (x.toNat % 256)).isSome) a then
      match ports (a.toNat % 256) with
      | some p => (.ok r, { s with count := fun o => if o = a.toNat % 256 then s.count o + 1 else s.count o,
                                    out := s.out ++ portWrite p (s.count (a.toNat % 256)) v.toNat })
      | none =>
        match inner.store s.inner a v r with
        | (res, m) => (res, { s with inner := m })
    else
      match inner.store s.inner a v r with
      | (res, m) => (res, { s with inner := m })

end Verif.Impl
