import Verif.Impl.Run
/-
  The run loop with the cycle counter visible to the bus: `c.cycleCount` is a field of the same CPU object the
  Lua API reads, so a trap function called in the middle of a run sees the cycles of all instructions that
  completed before the one that triggered it (`c.cycleCount += cyclesUsed` happens after each instruction).
  `setCyc` publishes the counter to the bus state before every instruction.
-/
namespace Verif.Impl
open Verif

def runLoopC {σ : Type} (tbl : Byte → Option H) (k : CycleConsts) (model : CpuModel) (bus : Bus σ) (setCyc : Nat → σ → σ) :
    Nat → Machine σ → Stop × Machine σ
  | 0, m => (.fuel, m)
  | n + 1, m =>
    match (step tbl k model m.regs).run bus (setCyc m.cycles m.mem) with
    | (.error e, mem') => (.error e, { m with mem := mem' })
    | (.ok (out, regs'), mem') =>
      if out.halt then (.halted, { m with regs := regs', mem := mem' })
      else runLoopC tbl k model bus setCyc n { regs := regs', cycles := m.cycles + out.cycles, mem := mem' }

def runExtC {σ : Type} (tbl : Byte → Option H) (k : CycleConsts) (model : CpuModel) (bus : Bus σ) (setCyc : Nat → σ → σ)
    (fuel : Nat) (start : Addr) (reset : Bool) (m : Machine σ) : Stop × Machine σ :=
  runLoopC tbl k model bus setCyc fuel { m with regs := { m.regs with pc := start }, cycles := if reset then 0 else m.cycles }

/-- publishing nothing gives the run loop of Impl/Run.lean: it is the same loop -/
theorem runLoopC_id {σ : Type} (tbl : Byte → Option H) (k : CycleConsts) (model : CpuModel) (bus : Bus σ) :
    ∀ (n : Nat) (m : Machine σ), runLoopC tbl k model bus (fun _ s => s) n m = runLoop tbl k model bus n m := by
  intro n
  induction n with
  | zero => intro m; rfl
  | succ n ih =>
    intro m
    simp only [runLoopC, runLoop]
    cases h : (step tbl k model m.regs).run bus m.mem with
    | mk res mem' =>
      cases res with
      | error e => rfl
      | ok v =>
        obtain ⟨out, regs'⟩ := v
        by_cases hh : out.halt = true
        · simp [hh]
        · simp [hh, ih]

end Verif.Impl
