import Verif.Impl.Run
/-
  Code-shaped model of the script API of luabridge/lua_ctx.go: every function acts on the live
  `*cpu.CPU6502` (registers, cycle counter) and on `cpu.Mem` — the same bus the program runs on.
  Arguments are the values after gopher-lua's `L.ToInt` and Go's `uint8(..)` / `uint16(..)` conversions.
-/
namespace Verif.Impl
open Verif

/-- `GetFlags`: N V - B D I Z C, a dash for a clear flag; position 3 (bit 5) is always a dash -/
def getFlags (p : Byte) : List Char :=
  [ if p &&& flagN != 0 then 'N' else '-',
    if p &&& flagV != 0 then 'V' else '-',
    '-',
    if p &&& flagB != 0 then 'B' else '-',
    if p &&& flagD != 0 then 'D' else '-',
    if p &&& flagI != 0 then 'I' else '-',
    if p &&& flagZ != 0 then 'Z' else '-',
    if p &&& flagC != 0 then 'C' else '-' ]

def flagOfLetter (c : Char) : Byte :=
  if c = 'N' then flagN else if c = 'V' then flagV else if c = 'B' then flagB else if c = 'D' then flagD
  else if c = 'I' then flagI else if c = 'Z' then flagZ else if c = 'C' then flagC else 0

/-- `SetFlags`: more than eight characters panic (none); every known letter sets its bit wherever it stands,
    everything else is ignored; the result REPLACES the flag register -/
def setFlags (s : List Char) : Option Byte :=
  if s.length > 8 then none else some (s.foldl (fun acc c => acc ||| flagOfLetter c) 0)

inductive ApiCall where
  | setA (v : Byte) | getA | setX (v : Byte) | getX | setY (v : Byte) | getY | setSP (v : Byte) | getSP
  | setPC (v : Addr) | getPC
  | setFlags (s : List Char) | getFlags
  | writeByte (a : Addr) (v : Byte) | readByte (a : Addr)
  | setMemory (a : Addr) (data : List Byte) | getMemory (a : Addr) (len : Nat)
  | getCycles

inductive ApiRet where
  | unit
  | num (n : Nat)
  | str (s : List Char)
  | bytes (l : List Byte)
  | fault
deriving DecidableEq, Repr

variable {σ : Type}

/-- `CopyToMem` on a bus: stores at start, start+1, ... with the uint16 address wrapping -/
def copyToBus (bus : Bus σ) (r : Regs) : σ → Addr → List Byte → Bool × σ
  | s, _, [] => (true, s)
  | s, a, b :: rest =>
    match bus.store s a b r with
    | (.error _, s') => (false, s')
    | (.ok _, s') => copyToBus bus r s' (a + 1) rest

/-- `CopyFromMem(start, length)`: `length` loads at start, start+1, ... wrapping -/
def copyFromBus (bus : Bus σ) : σ → Addr → Nat → Option (List Byte) × σ
  | s, _, 0 => (some [], s)
  | s, a, n + 1 =>
    match bus.load s a with
    | (.error _, s') => (none, s')
    | (.ok b, s') =>
      match copyFromBus bus s' (a + 1) n with
      | (some l, s'') => (some (b :: l), s'')
      | (none, s'') => (none, s'')

/-- one API call on the live machine -/
def apiStep (bus : Bus σ) (m : Machine σ) : ApiCall → ApiRet × Machine σ
  | .setA v => (.unit, { m with regs := { m.regs with a := v } })
  | .getA => (.num m.regs.a.toNat, m)
  | .setX v => (.unit, { m with regs := { m.regs with x := v } })
  | .getX => (.num m.regs.x.toNat, m)
  | .setY v => (.unit, { m with regs := { m.regs with y := v } })
  | .getY => (.num m.regs.y.toNat, m)
  | .setSP v => (.unit, { m with regs := { m.regs with sp := v } })
  | .getSP => (.num m.regs.sp.toNat, m)
  | .setPC v => (.unit, { m with regs := { m.regs with pc := v } })
  | .getPC => (.num m.regs.pc.toNat, m)
  | .setFlags s =>
    match setFlags s with
    | some p => (.unit, { m with regs := { m.regs with p := p } })
    | none => (.fault, m)
  | .getFlags => (.str (getFlags m.regs.p), m)
  | .writeByte a v =>
    match bus.store m.mem a v m.regs with
    | (.ok r', s') => (.unit, { m with regs := r', mem := s' })
    | (.error _, s') => (.fault, { m with mem := s' })
  | .readByte a =>
    match bus.load m.mem a with
    | (.ok b, s') => (.num b.toNat, { m with mem := s' })
    | (.error _, s') => (.fault, { m with mem := s' })
  | .setMemory a data =>
    match copyToBus bus m.regs m.mem a data with
    | (true, s') => (.unit, { m with mem := s' })
    | (false, s') => (.fault, { m with mem := s' })
  | .getMemory a len =>
    match copyFromBus bus m.mem a len with
    | (some l, s') => (.bytes l, { m with mem := s' })
    | (none, s') => (.fault, { m with mem := s' })
  | .getCycles => (.num m.cycles, m)

/-- flat 64K RAM as a bus (Linear64K; every plain RAM cell of the other models behaves like this: C04) -/
def ramBus : Bus (Addr → Byte) where
  load s a := (.ok (s a), s)
  store s a v r := (.ok r, fun x => if x = a then v else s x)

end Verif.Impl
