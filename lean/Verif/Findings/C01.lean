import Verif.Props.C01
/-
  OPEN FINDING (C01): the 65C02 `BIT #imm` (opcode $89) copies bits 7 and 6 of the operand into
  N and V; the WDC data sheet says the immediate form affects Z only.
  `cpu.TestBITImmediate` of the repository asserts the implemented behaviour, so it is recorded in
  /verif/known_findings.json rather than repaired.

  Witness: A = $0F, P = $00, `BIT #$F0`.  The implementation leaves P = $C2, the data sheet $02.
-/
namespace Verif.Findings.C01
open Verif Verif.Impl Verif.Spec Verif.Props.C01 Verif.Facts

theorem Rel_next {α β : Type} {R : α → β → Prop} (p : SProg α) (q : SProg β) (b : Byte)
    (h : SProg.Rel R p q) : SProg.Rel R (p.next b) (q.next b) := by
  cases p <;> cases q <;> simp_all [SProg.Rel, SProg.next]

def r0 : Regs := ⟨0x0800, 0xFF, 0x0F, 0, 0, 0⟩

theorem impl_leaf : ((plainM (stepNow .m65C02) r0).next 0x89).next 0xF0 =
    .ret (⟨2, false⟩, ⟨0x0802, 0xFF, 0x0F, 0, 0, 0xC2⟩) := by rfl

theorem spec_leaf : ((Spec.step .m65C02 r0).next 0x89).next 0xF0 =
    .ret (⟨2, false, 0⟩, ⟨0x0802, 0xFF, 0x0F, 0, 0, 0x02⟩) := by rfl

/-- the full statement of C01 is false of the current code: concrete witness -/
theorem C01_full_is_false : ¬ C01_full := by
  intro h
  have h1 := Rel_next _ _ 0xF0 (h .m65C02 r0 0x89 _ rfl)
  rw [impl_leaf, spec_leaf] at h1
  simp [SProg.Rel, RegsRel, RegsEqMod] at h1

end Verif.Findings.C01
