import Verif.Impl.Mem
/-
  The address decoders of the four memory models (machine arithmetic) are the documented maps
  (Nat arithmetic): for ALL 65 536 CPU addresses, all 2^32 linear addresses and ALL values of the
  banking registers / LUT entries.
-/
namespace Verif
open Verif.Impl Verif.Spec

/-- contents as numbers, for the specification -/
def nat (d : Cell → Byte) : Cell → Nat := fun c => (d c).toNat

theorem lt_iff (a b : Addr) : a < b ↔ a.toNat < b.toNat := Iff.rfl
theorem ge_iff (a b : Addr) : a ≥ b ↔ a.toNat ≥ b.toNat := Iff.rfl
theorem le_iff (a b : Addr) : a ≤ b ↔ a.toNat ≤ b.toNat := Iff.rfl
theorem lt32_iff (a b : BitVec 32) : a < b ↔ a.toNat < b.toNat := Iff.rfl
theorem ge32_iff (a b : BitVec 32) : a ≥ b ↔ a.toNat ≥ b.toNat := Iff.rfl
theorem le32_iff (a b : BitVec 32) : a ≤ b ↔ a.toNat ≤ b.toNat := Iff.rfl
theorem eq_iff (a b : Addr) : a = b ↔ a.toNat = b.toNat :=
  ⟨fun h => by rw [h], fun h => BitVec.eq_of_toNat_eq h⟩

theorem or_eq_add (a b k : Nat) (hb : b < 2 ^ k) : (a <<< k) ||| b = a * 2 ^ k + b := by
  rw [← Nat.shiftLeft_add_eq_or_of_lt hb, Nat.shiftLeft_eq]

-- ---------------------------------------------------------------------------------------
-- Linear

theorem linear_decode (n : Nat) (d : Cell → Byte) (a : Addr) :
    calcIndex (.linear n) d a = docMap (.linear n) (nat d) a.toNat := rfl

theorem linear_long (n : Nat) (d : Cell → Byte) (l : BitVec 32) :
    calcLongIndex (.linear n) d l = linDoc (.linear n) (nat d) l.toNat := by
  unfold calcLongIndex linearCalcLongIndex linearCalcIndex linDoc docMap idx
  have : ((l &&& 0xFFFF).truncate 16 : Addr).toNat = l.toNat % 65536 := by
    simp only [BitVec.truncate, BitVec.toNat_setWidth, BitVec.toNat_and]
    have : (0xFFFF : BitVec 32).toNat = 65535 := rfl
    rw [this, Nat.and_two_pow_sub_one_eq_mod l.toNat 16]
    omega
  simp only [this]

-- ---------------------------------------------------------------------------------------
-- X16

theorem x16_decode (b : Nat) (d : Cell → Byte) (a : Addr) :
    calcIndex (.x16 b) d a = docMap (.x16 b) (nat d) a.toNat := by
  unfold calcIndex x16CalcIndex docMap idx nat
  simp only [lt_iff, ge_iff]
  have ha := a.isLt
  have e1 : (0xA000 : Addr).toNat = 0xA000 := rfl
  have e2 : (0xC000 : Addr).toNat = 0xC000 := rfl
  rw [e1, e2]
  by_cases c1 : a.toNat < 0xA000
  · have : a.toNat < 40 * 1024 := by omega
    simp only [c1, this, if_true]
  · by_cases c2 : a.toNat ≥ 0xC000
    · have c2' : ¬ a.toNat < 0xC000 := by omega
      simp only [c1, c2, c2', if_true, if_false]
      have hr := (d (.main, 1)).isLt
      have : ((a - 0xC000).zeroExtend 32 + ((d (.main, 1)) &&& 0x1f).zeroExtend 32 * 16384 : BitVec 32).toNat
          = ((d (.main, 1)).toNat % 32) * 16384 + (a.toNat - 0xC000) := by
        simp only [BitVec.toNat_add, BitVec.toNat_mul, BitVec.toNat_setWidth, BitVec.toNat_sub, BitVec.toNat_and]
        have : (0x1f : Byte).toNat = 31 := rfl
        rw [this, e2]
        have h31 : ∀ x : Nat, x &&& 31 = x % 32 := fun x => Nat.and_two_pow_sub_one_eq_mod x 5
        rw [h31]
        have : (16384 : BitVec 32).toNat = 16384 := rfl
        rw [this]
        omega
      rw [this]
      have : (d (.main, 1)).toNat % 32 * 16384 + (a.toNat - 0xC000) < 32 * 16384 := by omega
      simp only [this, if_true]
    · have c2' : a.toNat < 0xC000 := by omega
      simp only [c1, c2, c2', if_true, if_false]
      have hr := (d (.main, 0)).isLt
      have : ((a - 0xA000).zeroExtend 32 + (d (.main, 0)).zeroExtend 32 * 8192 : BitVec 32).toNat
          = (d (.main, 0)).toNat * 8192 + (a.toNat - 0xA000) := by
        simp only [BitVec.toNat_add, BitVec.toNat_mul, BitVec.toNat_setWidth, BitVec.toNat_sub]
        have : (8192 : BitVec 32).toNat = 8192 := rfl
        rw [this, e1]
        omega
      rw [this]
      by_cases hb : (d (.main, 0)).toNat < b
      · have : (d (.main, 0)).toNat * 8192 + (a.toNat - 0xA000) < b * 8192 := by omega
        simp only [hb, this, if_true]
      · have : ¬ (d (.main, 0)).toNat * 8192 + (a.toNat - 0xA000) < b * 8192 := by omega
        simp only [hb, this, if_false]

/-- X16 linear view (needs the machine to fit in 32 bits: 64 or 256 blocks) -/
theorem x16_long (b : Nat) (hb : b ≤ 256) (d : Cell → Byte) (l : BitVec 32) :
    calcLongIndex (.x16 b) d l = linDoc (.x16 b) (nat d) l.toNat := by
  unfold calcLongIndex x16CalcLongIndex linDoc idx
  simp only [lt32_iff, ge32_iff]
  have hl := l.isLt
  have e1 : (0xA000 : BitVec 32).toNat = 0xA000 := rfl
  have e3 : (BitVec.ofNat 32 (b * 8192 + 0xA000)).toNat = b * 8192 + 0xA000 := by
    simp only [BitVec.toNat_ofNat]; omega
  rw [e1, e3]
  by_cases c1 : l.toNat < 0xA000
  · have : l.toNat < 40 * 1024 := by omega
    simp only [c1, this, if_true]
  · by_cases c2 : l.toNat < 0xA000 + b * 8192
    · have c2' : l.toNat ≥ 0xA000 ∧ l.toNat < b * 8192 + 0xA000 := by omega
      have : (l - 0xA000).toNat = l.toNat - 0xA000 := by
        rw [BitVec.toNat_sub, e1]; omega
      have h3 : l.toNat - 0xA000 < b * 8192 := by omega
      simp only [c1, c2, c2', this, h3, and_self, if_true, if_false]
    · have c2' : ¬ (l.toNat ≥ 0xA000 ∧ l.toNat < b * 8192 + 0xA000) := by omega
      have : (l - BitVec.ofNat 32 (b * 8192 + 0xA000)).toNat = l.toNat - (0xA000 + b * 8192) := by
        rw [BitVec.toNat_sub, e3]; omega
      simp only [c1, c2, c2', this, if_false]
      by_cases c3 : l.toNat < 0xA000 + b * 8192 + 32 * 16384
      · have : l.toNat - (0xA000 + b * 8192) < 32 * 16384 := by omega
        simp only [c3, this, if_true]
      · have : ¬ l.toNat - (0xA000 + b * 8192) < 32 * 16384 := by omega
        simp only [c3, this, if_false]

-- ---------------------------------------------------------------------------------------
-- GeoRAM

theorem checkSectorBits_id (sb : Nat) (h : 1 ≤ sb ∧ sb ≤ 8) : checkSectorBits sb = sb := by
  unfold checkSectorBits; split <;> omega

theorem sectorMask_toNat (sb : Nat) (h : 1 ≤ sb ∧ sb ≤ 8) : (calcSectorMask sb).toNat = 2 ^ sb - 1 := by
  have : sb = 1 ∨ sb = 2 ∨ sb = 3 ∨ sb = 4 ∨ sb = 5 ∨ sb = 6 ∨ sb = 7 ∨ sb = 8 := by omega
  rcases this with h | h | h | h | h | h | h | h <;> subst h <;> rfl

theorem geo_raw (sb : Nat) (h : 1 ≤ sb ∧ sb ≤ 8) (d : Cell → Byte) (a : Addr) :
    geoCalcIndexRaw sb d a =
      (((d (.main, 0xDFFE)).toNat % 64) * 2 ^ sb + (d (.main, 0xDFFF)).toNat % 2 ^ sb) * 256 + a.toNat % 256 := by
  unfold geoCalcIndexRaw
  rw [checkSectorBits_id sb h]
  have h63 : ∀ x : Nat, x &&& 63 = x % 64 := fun x => Nat.and_two_pow_sub_one_eq_mod x 6
  have h255 : ∀ x : Nat, x &&& 255 = x % 256 := fun x => Nat.and_two_pow_sub_one_eq_mod x 8
  have hmask : ∀ x : Nat, x &&& (2 ^ sb - 1) = x % 2 ^ sb := fun x => Nat.and_two_pow_sub_one_eq_mod x sb
  simp only [BitVec.toNat_and, sectorMask_toNat sb h]
  have e1 : (0x3F : Byte).toNat = 63 := rfl
  have e2 : (0xFF : Addr).toNat = 255 := rfl
  rw [e1, e2, h63, h255, hmask]
  have hS : (d (.main, 0xDFFF)).toNat % 2 ^ sb < 2 ^ sb := Nat.mod_lt _ (Nat.two_pow_pos sb)
  have hA : a.toNat % 256 < 2 ^ 8 := Nat.mod_lt _ (by decide)
  rw [or_eq_add _ _ sb hS, or_eq_add _ _ 8 hA]

theorem geo_decode (sb : Nat) (h : 1 ≤ sb ∧ sb ≤ 8) (d : Cell → Byte) (a : Addr) :
    calcIndex (.geo sb) d a = docMap (.geo sb) (nat d) a.toNat := by
  unfold calcIndex geoCalcIndex docMap idx nat
  simp only [lt_iff, ge_iff, geo_raw sb h, checkSectorBits_id sb h]
  have ha := a.isLt
  have e1 : (0xDE00 : Addr).toNat = 0xDE00 := rfl
  have e2 : (0xDF00 : Addr).toNat = 0xDF00 := rfl
  rw [e1, e2]
  by_cases c : 0xDE00 ≤ a.toNat ∧ a.toNat < 0xDF00
  · have c' : ¬ (a.toNat < 0xDE00 ∨ a.toNat ≥ 0xDF00) := by omega
    simp only [c, c', and_self, if_true, if_false]
    have hS : (d (.main, 0xDFFF)).toNat % 2 ^ sb < 2 ^ sb := Nat.mod_lt _ (Nat.two_pow_pos sb)
    have hb : ((d (.main, 0xDFFE)).toNat % 64 * 2 ^ sb + (d (.main, 0xDFFF)).toNat % 2 ^ sb) * 256 + a.toNat % 256
        < 2 ^ (sb + 14) := by
      have h1 : (d (.main, 0xDFFE)).toNat % 64 * 2 ^ sb + (d (.main, 0xDFFF)).toNat % 2 ^ sb < 64 * 2 ^ sb := by
        have : (d (.main, 0xDFFE)).toNat % 64 ≤ 63 := by omega
        have := Nat.mul_le_mul_right (2 ^ sb) this
        omega
      have h2 : 2 ^ (sb + 14) = 64 * 2 ^ sb * 256 := by
        rw [Nat.pow_add]; omega
      rw [h2]
      omega
    simp only [hb, if_true]
  · have c' : a.toNat < 0xDE00 ∨ a.toNat ≥ 0xDF00 := by omega
    simp only [c, c', ha, if_true, if_false]

theorem geo_long (sb : Nat) (h : 1 ≤ sb ∧ sb ≤ 8) (d : Cell → Byte) (l : BitVec 32) :
    calcLongIndex (.geo sb) d l = linDoc (.geo sb) (nat d) l.toNat := by
  unfold calcLongIndex geoCalcLongIndex linDoc idx
  simp only [le32_iff, checkSectorBits_id sb h]
  have hl := l.isLt
  have e1 : (0xFFFF : BitVec 32).toNat = 0xFFFF := rfl
  have e2 : (0x10000 : BitVec 32).toNat = 0x10000 := rfl
  rw [e1]
  by_cases c1 : l.toNat ≤ 0xFFFF
  · have : l.toNat < 65536 := by omega
    simp only [c1, this, if_true]
  · have c1' : ¬ l.toNat < 65536 := by omega
    have : (l - 0x10000).toNat = l.toNat - 65536 := by
      rw [BitVec.toNat_sub, e2]; omega
    simp only [c1, c1', this, if_false]
    by_cases c2 : l.toNat < 65536 + 2 ^ (sb + 14)
    · have : l.toNat - 65536 < 2 ^ (sb + 14) := by omega
      simp only [c2, this, if_true]
    · have : ¬ l.toNat - 65536 < 2 ^ (sb + 14) := by omega
      simp only [c2, this, if_false]

-- ---------------------------------------------------------------------------------------
-- F256

theorem f_edit : ∀ m : Byte, ((m &&& 0x80) != 0) = decide (m.toNat / 128 % 2 = 1) := by decide
theorem f_editLut : ∀ m : Byte, (((m &&& 0x30) >>> 4).zeroExtend 16 : Addr).toNat = m.toNat / 16 % 4 := by decide
theorem f_active : ∀ m : Byte, ((m &&& 0x03) * 8).toNat = m.toNat % 4 * 8 := by decide
theorem f_ioDis : ∀ m : Byte, ((m &&& 0x04) == 0) = decide (m.toNat / 4 % 2 = 0) := by decide
theorem f_ioBank : ∀ m : Byte, ((m &&& 0x03).zeroExtend 16 : Addr).toNat = m.toNat % 4 := by decide

theorem f256_default (n : Nat) (d : Cell → Byte) (m : Byte) (a : Addr) :
    f256CalcDefault n d (m &&& 0x03) (a &&& 0x1FFF) (a >>> 13) =
      (let phys := (d (.lut, (m.toNat % 4) * 8 + a.toNat / 8192)).toNat * 8192 + a.toNat % 8192
       if phys < n then some (.main, phys) else none) := by
  unfold f256CalcDefault idx
  have h1 : (a >>> 13).toNat = a.toNat / 8192 := by
    rw [BitVec.toNat_ushiftRight, Nat.shiftRight_eq_div_pow]
  have h2 : (a &&& 0x1FFF).toNat = a.toNat % 8192 := by
    rw [BitVec.toNat_and]
    have : (0x1FFF : Addr).toNat = 8191 := rfl
    rw [this, Nat.and_two_pow_sub_one_eq_mod a.toNat 13]
  have h3 : a.toNat % 8192 < 2 ^ 13 := Nat.mod_lt _ (by decide)
  simp only [f_active, h1, h2, or_eq_add _ _ 13 h3]

theorem f256_decode (n : Nat) (d : Cell → Byte) (a : Addr) :
    calcIndex (.f256 n) d a = docMap (.f256 n) (nat d) a.toNat := by
  unfold calcIndex f256CalcIndex docMap nat
  simp only [f256_default, lt_iff, ge_iff, le_iff, eq_iff, f_edit, f_ioDis]
  have ha := a.isLt
  have e0 : (0 : Addr).toNat = 0 := rfl
  have e1 : (1 : Addr).toNat = 1 := rfl
  have e8 : (8 : Addr).toNat = 8 := rfl
  have e15 : (15 : Addr).toNat = 15 := rfl
  have eC : (0xC000 : Addr).toNat = 0xC000 := rfl
  have eD : (0xDFFF : Addr).toNat = 0xDFFF := rfl
  rw [e0, e1, e8, e15, eC, eD]
  by_cases c0 : a.toNat = 0
  · simp only [c0, if_true]
  · by_cases c1 : a.toNat = 1
    · simp only [c0, c1, if_true, if_false]
    · by_cases c8 : a.toNat ≥ 8 ∧ a.toNat ≤ 15
      · have c8' : 8 ≤ a.toNat ∧ a.toNat ≤ 15 := c8
        simp only [c0, c1, c8, c8', and_self, if_true, if_false]
        by_cases ce : (d (.memCtrl, 0)).toNat / 128 % 2 = 1
        · simp only [ce, decide_true, if_true]
          have h4 := f_editLut (d (.memCtrl, 0))
          have : ((((d (.memCtrl, 0)) &&& 0x30) >>> 4).zeroExtend 16 * 8 + (a - 8) : Addr).toNat
              = (d (.memCtrl, 0)).toNat / 16 % 4 * 8 + (a.toNat - 8) := by
            rw [BitVec.toNat_add, BitVec.toNat_mul, BitVec.toNat_sub, h4, e8]
            omega
          simp only [idx, this]
          have : (d (.memCtrl, 0)).toNat / 16 % 4 * 8 + (a.toNat - 8) < 32 := by omega
          simp only [this, if_true]
        · simp only [ce, decide_false, Bool.false_eq_true, if_false]
      · have c8' : ¬ (8 ≤ a.toNat ∧ a.toNat ≤ 15) := c8
        by_cases cio : a.toNat ≥ 0xC000 ∧ a.toNat ≤ 0xDFFF
        · have cio' : 0xC000 ≤ a.toNat ∧ a.toNat ≤ 0xDFFF := cio
          simp only [c0, c1, c8, c8', cio, cio', and_self, if_true, if_false]
          by_cases cd : (d (.ioCtrl, 0)).toNat / 4 % 2 = 0
          · simp only [cd, decide_true, if_true]
            have h5 := f_ioBank (d (.ioCtrl, 0))
            have : (((d (.ioCtrl, 0)) &&& 0x03).zeroExtend 16 * 8192 + a - 0xC000 : Addr).toNat
                = (d (.ioCtrl, 0)).toNat % 4 * 8192 + (a.toNat - 0xC000) := by
              rw [BitVec.toNat_sub, BitVec.toNat_add, BitVec.toNat_mul, h5, eC]
              have : (8192 : Addr).toNat = 8192 := rfl
              rw [this]
              omega
            simp only [idx, this]
            have : (d (.ioCtrl, 0)).toNat % 4 * 8192 + (a.toNat - 0xC000) < 4 * 8192 := by omega
            simp only [this, if_true]
          · simp only [cd, decide_false, Bool.false_eq_true, if_false]
        · have cio' : ¬ (0xC000 ≤ a.toNat ∧ a.toNat ≤ 0xDFFF) := cio
          simp only [c0, c1, c8, c8', cio, cio', if_false]

theorem f256_long (n : Nat) (hn : 16 ≤ n ∧ n + 4 * 8192 < 2 ^ 32) (d : Cell → Byte) (l : BitVec 32) :
    calcLongIndex (.f256 n) d l = linDoc (.f256 n) (nat d) l.toNat := by
  unfold calcLongIndex f256CalcLongIndex linDoc
  simp only [lt32_iff]
  have hl := l.isLt
  have e16 : (16 : BitVec 32).toNat = 16 := rfl
  have en : (BitVec.ofNat 32 n).toNat = n := by
    simp only [BitVec.toNat_ofNat]; omega
  rw [e16, en]
  by_cases c1 : l.toNat < 16
  · simp only [c1, if_true]
    have : (l.truncate 16 : Addr).toNat = l.toNat := by
      simp only [BitVec.truncate, BitVec.toNat_setWidth]; omega
    have h := f256_decode n d (l.truncate 16)
    rw [this] at h
    exact h
  · by_cases c2 : l.toNat < n
    · simp only [c1, c2, idx, if_true, if_false]
    · have : (l - BitVec.ofNat 32 n).toNat = l.toNat - n := by
        rw [BitVec.toNat_sub, en]; omega
      simp only [c1, c2, idx, this, if_false]
      by_cases c3 : l.toNat < n + 4 * 8192
      · have : l.toNat - n < 4 * 8192 := by omega
        simp only [c3, this, if_true]
      · have : ¬ l.toNat - n < 4 * 8192 := by omega
        simp only [c3, this, if_false]

end Verif
