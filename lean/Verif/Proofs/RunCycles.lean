import Verif.Impl.Run
/-  The cycle counter of the run loop (static: no regenerated facts). Used by C02 and C12. -/
namespace Verif.Proofs
open Verif Verif.Impl

variable {σ : Type}

/-- Σ of the cycles of the non-halting instructions along the executed path (a function of the
    start registers and memory only) -/
def pathCycles (tbl : Byte → Option H) (kc : CycleConsts) (model : CpuModel) (bus : Bus σ) : Nat → Regs → σ → Nat
  | 0, _, _ => 0
  | n + 1, regs, mem =>
    match (Impl.step tbl kc model regs).run bus mem with
    | (.error _, _) => 0
    | (.ok (out, regs'), mem') =>
      if out.halt then 0 else out.cycles + pathCycles tbl kc model bus n regs' mem'

theorem runLoop_cycles (tbl : Byte → Option H) (kc : CycleConsts) (model : CpuModel) (bus : Bus σ) (n : Nat) (m : Machine σ) :
    (runLoop tbl kc model bus n m).2.cycles = m.cycles + pathCycles tbl kc model bus n m.regs m.mem := by
  induction n generalizing m with
  | zero => simp [runLoop, pathCycles]
  | succ n ih =>
    cases h : (Impl.step tbl kc model m.regs).run bus m.mem with
    | mk res mem' =>
      cases res with
      | error e => simp [runLoop, pathCycles, h]
      | ok v =>
        obtain ⟨out, regs'⟩ := v
        by_cases hh : out.halt = true
        · simp [runLoop, pathCycles, h, hh]
        · simp [runLoop, pathCycles, h, hh, ih, Nat.add_assoc]

end Verif.Proofs
