import Verif.Proofs.HandlersA
import Verif.Proofs.HandlersB
import Verif.Proofs.HandlersC
import Verif.Proofs.HandlersD
/-
  From handlers to one instruction step.  STATIC: nothing here depends on the regenerated facts.
  The opcode table `tbl` is a parameter; what is proved is conditional on the table entry of the
  opcode at hand being a handler of the data-sheet line of that opcode.  The (regenerated) facts that
  the current table satisfies the condition are in Verif/Facts/Cpu.lean.
-/
namespace Verif
open Verif.Impl Verif.Spec

/-- handler/model pairs covered by `handler_refines`: the two JMP (ind) variants only on their
    own CPU model; `bitImmediate` is the open finding (see `bitImmediate_partial`) -/
def Ok (model : CpuModel) : H → Bool
  | .jmpIndirect6502 => model == .m6502
  | .jmpIndirect65C02 => model == .m65C02
  | .bitImmediate => false
  | .other => false
  | _ => true

theorem handler_refines (model : CpuModel) (h : H) (hok : Ok model h = true) : Refines model h := by
  cases h with
  | addAbsolute => exact h_addAbsolute model
  | addAbsoluteX => exact h_addAbsoluteX model
  | addAbsoluteY => exact h_addAbsoluteY model
  | addIdxXIndirect => exact h_addIdxXIndirect model
  | addImmediate => exact h_addImmediate model
  | addIndirect => exact h_addIndirect model
  | addIndirectIdxY => exact h_addIndirectIdxY model
  | addZeroPage => exact h_addZeroPage model
  | addZeroPageX => exact h_addZeroPageX model
  | andAbsolute => exact h_andAbsolute model
  | andAbsoluteX => exact h_andAbsoluteX model
  | andAbsoluteY => exact h_andAbsoluteY model
  | andIdxIndirect => exact h_andIdxIndirect model
  | andImmediate => exact h_andImmediate model
  | andIndirect => exact h_andIndirect model
  | andIndirectIdxY => exact h_andIndirectIdxY model
  | andZeroPage => exact h_andZeroPage model
  | andZeroPageX => exact h_andZeroPageX model
  | asl => exact h_asl model
  | aslAbsolute => exact h_aslAbsolute model
  | aslAbsoluteX => exact h_aslAbsoluteX model
  | aslAbsoluteX65C02 => exact h_aslAbsoluteX65C02 model
  | aslZeroPage => exact h_aslZeroPage model
  | aslZeroPageX => exact h_aslZeroPageX model
  | bbr0 => exact h_bbr0 model
  | bbr1 => exact h_bbr1 model
  | bbr2 => exact h_bbr2 model
  | bbr3 => exact h_bbr3 model
  | bbr4 => exact h_bbr4 model
  | bbr5 => exact h_bbr5 model
  | bbr6 => exact h_bbr6 model
  | bbr7 => exact h_bbr7 model
  | bbs0 => exact h_bbs0 model
  | bbs1 => exact h_bbs1 model
  | bbs2 => exact h_bbs2 model
  | bbs3 => exact h_bbs3 model
  | bbs4 => exact h_bbs4 model
  | bbs5 => exact h_bbs5 model
  | bbs6 => exact h_bbs6 model
  | bbs7 => exact h_bbs7 model
  | bcc => exact h_bcc model
  | bcs => exact h_bcs model
  | beq => exact h_beq model
  | bitAbsolute => exact h_bitAbsolute model
  | bitAbsoluteX => exact h_bitAbsoluteX model
  | bitImmediate => simp [Ok] at hok
  | bitZeroPage => exact h_bitZeroPage model
  | bitZeroPageX => exact h_bitZeroPageX model
  | bmi => exact h_bmi model
  | bne => exact h_bne model
  | bpl => exact h_bpl model
  | bra => exact h_bra model
  | bvc => exact h_bvc model
  | bvs => exact h_bvs model
  | clc => exact h_clc model
  | cld => exact h_cld model
  | cli => exact h_cli model
  | clv => exact h_clv model
  | cmpAbsolute => exact h_cmpAbsolute model
  | cmpAbsoluteX => exact h_cmpAbsoluteX model
  | cmpAbsoluteY => exact h_cmpAbsoluteY model
  | cmpIdxXIndirect => exact h_cmpIdxXIndirect model
  | cmpImmediate => exact h_cmpImmediate model
  | cmpIndIdxY => exact h_cmpIndIdxY model
  | cmpIndirect => exact h_cmpIndirect model
  | cmpZeroPage => exact h_cmpZeroPage model
  | cmpZeroPageX => exact h_cmpZeroPageX model
  | cpxAbsolute => exact h_cpxAbsolute model
  | cpxImmediate => exact h_cpxImmediate model
  | cpxZeroPage => exact h_cpxZeroPage model
  | cpyAbsolute => exact h_cpyAbsolute model
  | cpyImmediate => exact h_cpyImmediate model
  | cpyZeroPage => exact h_cpyZeroPage model
  | dec65C02 => exact h_dec65C02 model
  | decAbsolute => exact h_decAbsolute model
  | decAbsoluteX => exact h_decAbsoluteX model
  | decZeroPage => exact h_decZeroPage model
  | decZeroPageX => exact h_decZeroPageX model
  | dex => exact h_dex model
  | dey => exact h_dey model
  | eorAbsolute => exact h_eorAbsolute model
  | eorAbsoluteX => exact h_eorAbsoluteX model
  | eorAbsoluteY => exact h_eorAbsoluteY model
  | eorIdxIndirect => exact h_eorIdxIndirect model
  | eorImmediate => exact h_eorImmediate model
  | eorIndirect => exact h_eorIndirect model
  | eorIndirectIdxY => exact h_eorIndirectIdxY model
  | eorZeroPage => exact h_eorZeroPage model
  | eorZeroPageX => exact h_eorZeroPageX model
  | inc65C02 => exact h_inc65C02 model
  | incAbsolute => exact h_incAbsolute model
  | incAbsoluteX => exact h_incAbsoluteX model
  | incZeroPage => exact h_incZeroPage model
  | incZeroPageX => exact h_incZeroPageX model
  | inx => exact h_inx model
  | iny => exact h_iny model
  | jmp => exact h_jmp model
  | jmpIndexXIndirect => exact h_jmpIndexXIndirect model
  | jmpIndirect6502 => cases model <;> simp [Ok] at hok; exact h_jmpIndirect6502
  | jmpIndirect65C02 => cases model <;> simp [Ok] at hok; exact h_jmpIndirect65C02
  | jsr => exact h_jsr model
  | ldaAbsolute => exact h_ldaAbsolute model
  | ldaAbsoluteX => exact h_ldaAbsoluteX model
  | ldaAbsoluteY => exact h_ldaAbsoluteY model
  | ldaIdxIndirectX => exact h_ldaIdxIndirectX model
  | ldaImmediate => exact h_ldaImmediate model
  | ldaIndIdxY => exact h_ldaIndIdxY model
  | ldaIndirect => exact h_ldaIndirect model
  | ldaZeroPage => exact h_ldaZeroPage model
  | ldaZeroPageIdxX => exact h_ldaZeroPageIdxX model
  | ldxAbsolute => exact h_ldxAbsolute model
  | ldxAbsoluteY => exact h_ldxAbsoluteY model
  | ldxImmediate => exact h_ldxImmediate model
  | ldxZeroPage => exact h_ldxZeroPage model
  | ldxZeroPageIdxY => exact h_ldxZeroPageIdxY model
  | ldyAbsolute => exact h_ldyAbsolute model
  | ldyAbsoluteX => exact h_ldyAbsoluteX model
  | ldyImmediate => exact h_ldyImmediate model
  | ldyZeroPage => exact h_ldyZeroPage model
  | ldyZeroPageIdxX => exact h_ldyZeroPageIdxX model
  | lit2false => exact h_lit2false model
  | lit7true => exact h_lit7true model
  | lsr => exact h_lsr model
  | lsrAbsolute => exact h_lsrAbsolute model
  | lsrAbsoluteX => exact h_lsrAbsoluteX model
  | lsrAbsoluteX65C02 => exact h_lsrAbsoluteX65C02 model
  | lsrZeroPage => exact h_lsrZeroPage model
  | lsrZeroPageX => exact h_lsrZeroPageX model
  | oraAbsolute => exact h_oraAbsolute model
  | oraAbsoluteX => exact h_oraAbsoluteX model
  | oraAbsoluteY => exact h_oraAbsoluteY model
  | oraIdxIndirect => exact h_oraIdxIndirect model
  | oraImmediate => exact h_oraImmediate model
  | oraIndirect => exact h_oraIndirect model
  | oraIndirectIdxY => exact h_oraIndirectIdxY model
  | oraZeroPage => exact h_oraZeroPage model
  | oraZeroPageX => exact h_oraZeroPageX model
  | pha => exact h_pha model
  | php => exact h_php model
  | phx => exact h_phx model
  | phy => exact h_phy model
  | pla => exact h_pla model
  | plp => exact h_plp model
  | plx => exact h_plx model
  | ply => exact h_ply model
  | rmb0 => exact h_rmb0 model
  | rmb1 => exact h_rmb1 model
  | rmb2 => exact h_rmb2 model
  | rmb3 => exact h_rmb3 model
  | rmb4 => exact h_rmb4 model
  | rmb5 => exact h_rmb5 model
  | rmb6 => exact h_rmb6 model
  | rmb7 => exact h_rmb7 model
  | rol => exact h_rol model
  | rolAbsolute => exact h_rolAbsolute model
  | rolAbsoluteX => exact h_rolAbsoluteX model
  | rolAbsoluteX65C02 => exact h_rolAbsoluteX65C02 model
  | rolZeroPage => exact h_rolZeroPage model
  | rolZeroPageX => exact h_rolZeroPageX model
  | ror => exact h_ror model
  | rorAbsolute => exact h_rorAbsolute model
  | rorAbsoluteX => exact h_rorAbsoluteX model
  | rorAbsoluteX65C02 => exact h_rorAbsoluteX65C02 model
  | rorZeroPage => exact h_rorZeroPage model
  | rorZeroPageX => exact h_rorZeroPageX model
  | rts => exact h_rts model
  | sec => exact h_sec model
  | sed => exact h_sed model
  | sei => exact h_sei model
  | smb0 => exact h_smb0 model
  | smb1 => exact h_smb1 model
  | smb2 => exact h_smb2 model
  | smb3 => exact h_smb3 model
  | smb4 => exact h_smb4 model
  | smb5 => exact h_smb5 model
  | smb6 => exact h_smb6 model
  | smb7 => exact h_smb7 model
  | staAbsolute => exact h_staAbsolute model
  | staAbsoluteX => exact h_staAbsoluteX model
  | staAbsoluteY => exact h_staAbsoluteY model
  | staIndirect => exact h_staIndirect model
  | staIndirectY => exact h_staIndirectY model
  | staXIndirect => exact h_staXIndirect model
  | staZeroPage => exact h_staZeroPage model
  | staZeroPageX => exact h_staZeroPageX model
  | stxAbsolute => exact h_stxAbsolute model
  | stxZeroPage => exact h_stxZeroPage model
  | stxZeroPageY => exact h_stxZeroPageY model
  | styAbsolute => exact h_styAbsolute model
  | styZeroPage => exact h_styZeroPage model
  | styZeroPageX => exact h_styZeroPageX model
  | stzAbsolute => exact h_stzAbsolute model
  | stzAbsoluteX => exact h_stzAbsoluteX model
  | stzZeroPage => exact h_stzZeroPage model
  | stzZeroPageX => exact h_stzZeroPageX model
  | subAbsolute => exact h_subAbsolute model
  | subAbsoluteX => exact h_subAbsoluteX model
  | subAbsoluteY => exact h_subAbsoluteY model
  | subIdxXIndirect => exact h_subIdxXIndirect model
  | subImmediate => exact h_subImmediate model
  | subIndirect => exact h_subIndirect model
  | subIndirectIdxY => exact h_subIndirectIdxY model
  | subZeroPage => exact h_subZeroPage model
  | subZeroPageX => exact h_subZeroPageX model
  | tax => exact h_tax model
  | tay => exact h_tay model
  | trbAbsolute => exact h_trbAbsolute model
  | trbZeroPage => exact h_trbZeroPage model
  | tsbAbsolute => exact h_tsbAbsolute model
  | tsbZeroPage => exact h_tsbZeroPage model
  | tsx => exact h_tsx model
  | txa => exact h_txa model
  | txs => exact h_txs model
  | tya => exact h_tya model
  | other => simp [Ok] at hok

/-- the open finding: 65C02 `BIT #imm` also writes N and V -/
def knownDev : Dev := fun model opc =>
  match model with
  | .m65C02 => if opc = 0x89 then flagN ||| flagV else 0
  | .m6502 => 0

theorem nv_mask : ∀ (x : Byte) (b c : Bool),
    setFlag (setFlag x flagN b) flagV c &&& ~~~(flagN ||| flagV) = x &&& ~~~(flagN ||| flagV) := by decide

def LeafRelSDev (extra : PMask) (i : StepOutS × Regs) (s : Spec.Out × Regs) : Prop :=
  i.1.cycles expectedConsts = s.1.cycles ∧ i.1.halt = s.1.halt ∧ RegsEqMod (s.1.pmask ||| extra) i.2 s.2

/-- `BIT #imm` refines its specification once N and V are masked out -/
theorem bitImmediate_partial (model : CpuModel) (r : Regs) :
    SProg.Rel (LeafRelSDev (flagN ||| flagV))
      (plainM (handlerS model .bitImmediate) r) (Spec.exec model (specOf .bitImmediate) r) := by
  defs; unfoldM; lemmas
  simp only [Spec.bit]
  simp [SProg.rel_load_load, SProg.rel_ret_ret, LeafRelSDev, expectedConsts, RegsEqMod, nv_mask]

theorem RegsEqMod.weaken {m m' : Byte} {a b : Regs} (h : RegsEqMod m a b) : RegsEqMod (m ||| m') a b := by
  obtain ⟨h1, h2, h3, h4, h5, h6⟩ := h
  refine ⟨h1, h2, h3, h4, h5, ?_⟩
  have : ∀ x y m m' : Byte, x &&& ~~~m = y &&& ~~~m → x &&& ~~~(m ||| m') = y &&& ~~~(m ||| m') := by
    intro x y m m' h
    have e : ∀ z : Byte, z &&& ~~~(m ||| m') = (z &&& ~~~m) &&& ~~~m' := by
      intro z; ext i; simp [Bool.and_assoc]
    rw [e, e, h]
  exact this _ _ _ _ h6

/-- continuation of a specification tree after its first load returned `b` -/
def SProg.next {α : Type} (p : SProg α) (b : Byte) : SProg α :=
  match p with
  | .load _ k => k b
  | p => p

/-- the handler's entry condition for an opcode: it is registered for this opcode, it is a handler
    of the data-sheet line of this opcode, and it is one the refinement covers (or the known deviation) -/
structure EntryOk (tbl : Byte → Option H) (model : CpuModel) (opc : Byte) (i : Instr) (h : H) : Prop where
  entry : tbl opc = some h
  line : specOf h = i
  covered : Ok model h = true ∨ (h = .bitImmediate ∧ knownDev model opc = flagN ||| flagV)

/-- One step below an implemented opcode: for EVERY register state and every byte the bus returns
    afterwards, the implementation refines the specification (registers, stores, accesses, cycles at the
    expected literals). -/
theorem stepS_next_refines (tbl : Byte → Option H) (model : CpuModel) (r : Regs) (opc : Byte) (i : Instr) (h : H)
    (hd : Spec.decode model opc = some i) (he : EntryOk tbl model opc i h) :
    SProg.Rel LeafRelS ((plainM (stepS tbl model) r).next opc) ((Spec.stepDev knownDev model r).next opc) := by
  simp only [Impl.stepS, Spec.stepDev]
  unfoldM
  simp only [SProg.next, he.entry, hd]
  unfoldM
  show SProg.Rel LeafRelS (plainM (handlerS model h) { r with pc := r.pc + 1 }) _
  have hl := he.line
  subst hl
  rcases he.covered with hok | ⟨h1, h2⟩
  · refine SProg.Rel.map_right _ _ _ (handler_refines model h hok _) ?_
    intro a b hab
    obtain ⟨c1, c2, c3⟩ := hab
    exact ⟨c1, c2, c3.weaken⟩
  · subst h1
    refine SProg.Rel.map_right _ _ _ (bitImmediate_partial _ _) ?_
    intro a b hab
    simpa [LeafRelS, LeafRelSDev, h2] using hab

/-- below an opcode the table has no entry for: the single fetch, then the illegal-opcode error
    naming the opcode and the PC still pointing at it; no store, no register change -/
theorem stepS_next_illegal (tbl : Byte → Option H) (model : CpuModel) (r : Regs) (opc : Byte)
    (ht : tbl opc = none) :
    (plainM (stepS tbl model) r).next opc = .fail (.illegal opc r.pc) := by
  simp only [Impl.stepS]
  unfoldM
  simp only [SProg.next, ht]
  rfl

/-- two `stepDev`s differ only in the leaf masks -/
theorem stepDev_sim (d1 d2 : Dev) (model : CpuModel) (r : Regs) :
    SProg.Sim (fun a b => a.1.cycles = b.1.cycles ∧ a.1.halt = b.1.halt ∧ a.2 = b.2)
      (Spec.stepDev d1 model r) (Spec.stepDev d2 model r) := by
  simp only [Spec.stepDev]
  unfoldM
  simp only [SProg.Sim, true_and]
  intro opc
  cases decode model opc with
  | none => simp [SProg.Sim, sfail]
  | some i =>
    simp only []
    unfoldM
    refine SProg.Sim.bind _ _ _ _ (SProg.Sim.refl (S := fun a b => a = b) (fun _ => rfl) _) ?_
    intro a b hab
    subst hab
    simp [SProg.Sim]

theorem Sim_next {β γ : Type} {S : β → γ → Prop} (p : SProg β) (q : SProg γ) (b : Byte)
    (h : SProg.Sim S p q) : SProg.Sim S (p.next b) (q.next b) := by
  cases p <;> cases q <;> simp_all [SProg.Sim, SProg.next]

/-- below an opcode on which two deviations agree the two specifications are the same tree -/
theorem stepDev_next_eq (d1 d2 : Dev) (model : CpuModel) (r : Regs) (opc : Byte)
    (h : d1 model opc = d2 model opc) :
    (Spec.stepDev d1 model r).next opc = (Spec.stepDev d2 model r).next opc := by
  simp only [Spec.stepDev]
  unfoldM
  simp only [SProg.next, h]

/-- evaluating the symbolic cycle count at a record of literals is a relabelling of the leaves -/
theorem plain_step_eval (tbl : Byte → Option H) (k : CycleConsts) (model : CpuModel) (r : Regs) :
    plainM (Impl.step tbl k model) r =
      (plainM (stepS tbl model) r).bind (fun x => .ret (x.1.eval k, x.2)) := by
  simp only [Impl.step, plainM, bind, StateT.bind, pure, StateT.pure]
  rw [Prog.plain_bind]
  rfl

theorem next_bind {α β : Type} (p : SProg α) (f : α → SProg β) (b : Byte) (a : Addr) (k : Byte → SProg α)
    (hp : p = .load a k) : (p.bind f).next b = (p.next b).bind f := by
  subst hp; rfl

theorem stepS_is_load (tbl : Byte → Option H) (model : CpuModel) (r : Regs) :
    ∃ k, plainM (stepS tbl model) r = .load r.pc k := by
  simp only [Impl.stepS]
  unfoldM
  exact ⟨_, rfl⟩

/-- relabelling the implementation's leaves -/
theorem Rel.map_left {α α' β : Type} {R : α → β → Prop} {R' : α' → β → Prop} (f : α → α') :
    ∀ (p : SProg α) (q : SProg β), SProg.Rel R p q → (∀ a b, R a b → R' (f a) b) →
      SProg.Rel R' (p.bind fun a => .ret (f a)) q := by
  intro p
  induction p with
  | ret a => intro q; cases q <;> simp [SProg.Rel, SProg.bind]; intro h hk; exact hk _ _ h
  | fail e => intro q; cases q <;> simp [SProg.Rel, SProg.bind]; intro h _; exact h
  | unspecified => intro q; cases q <;> simp [SProg.Rel, SProg.bind]
  | load a k ih =>
    intro q; cases q <;> simp [SProg.Rel, SProg.bind]
    intro h1 h2 hk; exact ⟨h1, fun b => ih b _ (h2 b) hk⟩
  | store a v m k ih =>
    intro q; cases q <;> simp [SProg.Rel, SProg.bind]
    intro h1 h2 h3 hk; exact ⟨h1, h2, ih _ h3 hk⟩

/-- One step of the model with literals `k`, below an implemented opcode, against the specification
    with the known deviation: registers and halt flag for ANY `k`; cycles when `k` are the expected
    literals. -/
theorem step_next_refines (tbl : Byte → Option H) (k : CycleConsts) (model : CpuModel) (r : Regs) (opc : Byte)
    (i : Instr) (h : H) (hd : Spec.decode model opc = some i) (he : EntryOk tbl model opc i h) :
    SProg.Rel (fun a b => (k = expectedConsts → a.1.cycles = b.1.cycles) ∧ a.1.halt = b.1.halt ∧ RegsEqMod b.1.pmask a.2 b.2)
      ((plainM (Impl.step tbl k model) r).next opc) ((Spec.stepDev knownDev model r).next opc) := by
  rw [plain_step_eval]
  obtain ⟨kk, hk⟩ := stepS_is_load tbl model r
  rw [next_bind _ _ _ _ _ hk]
  refine Rel.map_left _ _ _ (stepS_next_refines tbl model r opc i h hd he) ?_
  intro a b hab
  obtain ⟨c1, c2, c3⟩ := hab
  refine ⟨?_, c2, c3⟩
  intro hke
  subst hke
  exact c1

end Verif
