import Verif.Proofs.Rel
/-
  Stores along a path.  A tree branches over the bytes the bus returns; fixing those answers (an
  "oracle": the list of bytes returned by the successive loads, 0 once it is exhausted) selects one
  path, and `pathStores` lists the stores made along it.  `Rel` — the refinement relation of C01 —
  forces the implementation's path to make the specification's stores: same number, same order, same
  addresses, same values outside the specification's don't-care mask.
-/
namespace Verif
namespace SProg

variable {α β : Type}

/-- (address, value, mask) of the stores along the path selected by `o` -/
def pathStores : List Byte → SProg α → List (Addr × Byte × Byte)
  | _, .ret _ => []
  | _, .fail _ => []
  | _, .unspecified => []
  | o, .load _ k => pathStores o.tail (k (o.headD 0))
  | o, .store a v m k => (a, v, m) :: pathStores o k

/-- the path selected by `o` ends in a leaf the specification defines (not in `unspecified`) -/
def pathDefined : List Byte → SProg α → Bool
  | _, .ret _ => true
  | _, .fail _ => true
  | _, .unspecified => false
  | o, .load _ k => pathDefined o.tail (k (o.headD 0))
  | o, .store _ _ _ k => pathDefined o k

/-- store `x` of the implementation is store `y` of the specification -/
def StoreEq (x y : Addr × Byte × Byte) : Prop := x.1 = y.1 ∧ x.2.1 &&& ~~~y.2.2 = y.2.1 &&& ~~~y.2.2

/-- the two store lists agree entry by entry (and so have the same length) -/
def storesMatch : List (Addr × Byte × Byte) → List (Addr × Byte × Byte) → Prop
  | [], [] => True
  | x :: xs, y :: ys => StoreEq x y ∧ storesMatch xs ys
  | _, _ => False

theorem storesMatch_length : ∀ (l l' : List (Addr × Byte × Byte)), storesMatch l l' → l.length = l'.length
  | [], [], _ => rfl
  | _ :: xs, _ :: ys, h => by simp only [List.length_cons]; rw [storesMatch_length xs ys h.2]
  | [], _ :: _, h => by simp [storesMatch] at h
  | _ :: _, [], h => by simp [storesMatch] at h

theorem Rel.stores_match {R : α → β → Prop} :
    ∀ (p : SProg α) (q : SProg β) (o : List Byte), Rel R p q → pathDefined o q = true →
      storesMatch (pathStores o p) (pathStores o q) := by
  intro p
  induction p with
  | ret a =>
    intro q o h hd
    cases q <;> simp_all [Rel, SProg.pathStores, SProg.pathDefined, storesMatch]
  | fail e =>
    intro q o h hd
    cases q <;> simp_all [Rel, SProg.pathStores, SProg.pathDefined, storesMatch]
  | unspecified =>
    intro q o h hd
    cases q <;> simp_all [Rel, SProg.pathStores, SProg.pathDefined, storesMatch]
  | load a k ih =>
    intro q o h hd
    cases q with
    | load a' k' =>
      simp only [rel_load_load] at h
      simp only [SProg.pathStores, SProg.pathDefined] at hd ⊢
      exact ih _ _ _ (h.2 _) hd
    | unspecified => simp [SProg.pathDefined] at hd
    | ret b => simp [Rel] at h
    | fail e => simp [Rel] at h
    | store a' v' m' k' => simp [Rel] at h
  | store a v m k ih =>
    intro q o h hd
    cases q with
    | store a' v' m' k' =>
      simp only [rel_store_store] at h
      simp only [SProg.pathStores, SProg.pathDefined] at hd ⊢
      exact ⟨⟨h.1, h.2.1⟩, ih _ _ h.2.2 hd⟩
    | unspecified => simp [SProg.pathDefined] at hd
    | ret b => simp [Rel] at h
    | fail e => simp [Rel] at h
    | load a' k' => simp [Rel] at h

/-- in particular the two paths make the same NUMBER of stores -/
theorem Rel.stores_length {R : α → β → Prop} (p : SProg α) (q : SProg β) (o : List Byte)
    (h : Rel R p q) (hd : pathDefined o q = true) :
    (SProg.pathStores o p).length = (SProg.pathStores o q).length :=
  storesMatch_length _ _ (Rel.stores_match p q o h hd)

end SProg
end Verif
