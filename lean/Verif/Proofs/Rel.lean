import Verif.Basic.Prog
/-
  Refinement between trees: same bus accesses in the same order at the same addresses,
  stored values equal outside the specification's mask, leaves related by `R`;
  everything refines `unspecified`.
-/
namespace Verif

namespace SProg

def Rel {α β : Type} (R : α → β → Prop) : SProg α → SProg β → Prop
  | .ret a, q => match q with
      | .ret b => R a b
      | .unspecified => True
      | _ => False
  | .fail e, q => match q with
      | .fail e' => e = e'
      | .unspecified => True
      | _ => False
  | .unspecified, q => match q with
      | .unspecified => True
      | _ => False
  | .load a k, q => match q with
      | .load a' k' => a = a' ∧ ∀ b, Rel R (k b) (k' b)
      | .unspecified => True
      | _ => False
  | .store a v _ k, q => match q with
      | .store a' v' m k' => a = a' ∧ v &&& ~~~m = v' &&& ~~~m ∧ Rel R k k'
      | .unspecified => True
      | _ => False

variable {α β : Type} {R : α → β → Prop}

@[simp] theorem rel_unspec (p : SProg α) : Rel R p .unspecified := by
  cases p <;> simp [Rel]
@[simp] theorem rel_ret_ret (a : α) (b : β) : Rel R (.ret a) (.ret b) ↔ R a b := by simp [Rel]
@[simp] theorem rel_fail_fail (e e' : Err) : Rel R (.fail e : SProg α) (.fail e' : SProg β) ↔ e = e' := by simp [Rel]
@[simp] theorem rel_load_load (a a' : Addr) (k : Byte → SProg α) (k' : Byte → SProg β) :
    Rel R (.load a k) (.load a' k') ↔ a = a' ∧ ∀ b, Rel R (k b) (k' b) := by simp [Rel]
@[simp] theorem rel_store_store (a a' : Addr) (v v' m0 m : Byte) (k : SProg α) (k' : SProg β) :
    Rel R (.store a v m0 k) (.store a' v' m k') ↔ a = a' ∧ v &&& ~~~m = v' &&& ~~~m ∧ Rel R k k' := by
  simp [Rel]

theorem Rel.mono {R' : α → β → Prop} (h : ∀ a b, R a b → R' a b) :
    ∀ (p : SProg α) (q : SProg β), Rel R p q → Rel R' p q := by
  intro p
  induction p with
  | ret a => intro q; cases q <;> simp [Rel]; exact h _ _
  | fail e => intro q; cases q <;> simp [Rel]
  | unspecified => intro q; cases q <;> simp [Rel]
  | load a k ih =>
    intro q; cases q <;> simp [Rel]
    intro h1 h2; exact ⟨h1, fun b => ih b _ (h2 b)⟩
  | store a v m k ih =>
    intro q; cases q <;> simp [Rel]
    intro h1 h2 h3; exact ⟨h1, h2, ih _ h3⟩

/-- compositionality: related prefixes followed by related continuations -/
theorem Rel.bind {γ δ : Type} {S : γ → δ → Prop} :
    ∀ (p : SProg α) (q : SProg β) (f : α → SProg γ) (g : β → SProg δ),
      Rel R p q → (∀ a b, R a b → Rel S (f a) (g b)) → Rel S (p.bind f) (q.bind g) := by
  intro p
  induction p with
  | ret a => intro q f g; cases q <;> simp [Rel, SProg.bind]; intro h hk; exact hk _ _ h
  | fail e => intro q f g; cases q <;> simp [Rel, SProg.bind]; intro h _; exact h
  | unspecified => intro q f g; cases q <;> simp [Rel, SProg.bind]
  | load a k ih =>
    intro q f g; cases q <;> simp [Rel, SProg.bind]
    intro h1 h2 hk; exact ⟨h1, fun b => ih b _ f g (h2 b) hk⟩
  | store a v m k ih =>
    intro q f g; cases q <;> simp [Rel, SProg.bind]
    intro h1 h2 h3 hk; exact ⟨h1, h2, ih _ f g h3 hk⟩

/-- post-processing the specification's leaves -/
theorem Rel.map_right {γ : Type} {R' : α → γ → Prop} (f : β → γ) :
    ∀ (p : SProg α) (q : SProg β), Rel R p q → (∀ a b, R a b → R' a (f b)) →
      Rel R' p (q.bind fun b => .ret (f b)) := by
  intro p
  induction p with
  | ret a => intro q; cases q <;> simp [Rel, SProg.bind]; intro h hk; exact hk _ _ h
  | fail e => intro q; cases q <;> simp [Rel, SProg.bind]; intro h _; exact h
  | unspecified => intro q; cases q <;> simp [Rel, SProg.bind]
  | load a k ih =>
    intro q; cases q <;> simp [Rel, SProg.bind]
    intro h1 h2 hk; exact ⟨h1, fun b => ih b _ (h2 b) hk⟩
  | store a v m k ih =>
    intro q; cases q <;> simp [Rel, SProg.bind]
    intro h1 h2 h3 hk; exact ⟨h1, h2, ih _ h3 hk⟩

theorem Rel.of_eq {p : SProg α} (hR : ∀ a, R' a a) : Rel (R := R') p p := by
  induction p with
  | ret a => simp [Rel]; exact hR a
  | fail e => simp [Rel]
  | unspecified => simp [Rel]
  | load a k ih => simp [Rel]; exact ih
  | store a v m k ih => simp [Rel]; exact ih

end SProg

-- ---------------------------------------------------------------------------------------
-- `plainM` distributes over the monad operations

theorem Prog.plain_bind {α β : Type} (p : Prog α) (f : α → Prog β) :
    (p.bind f).plain = p.plain.bind (fun a => (f a).plain) := by
  induction p with
  | ret a => rfl
  | fail e => rfl
  | load a k ih => simp [Prog.bind, Prog.plain, SProg.bind, ih]
  | store a v r k ih => simp [Prog.bind, Prog.plain, SProg.bind, ih]

end Verif

namespace Verif
namespace SProg

/-- two specification trees of the same shape (same accesses, same stored values and masks)
    whose leaves are related by `S` -/
def Sim {β γ : Type} (S : β → γ → Prop) : SProg β → SProg γ → Prop
  | .ret a, q => match q with
      | .ret b => S a b
      | _ => False
  | .fail e, q => match q with
      | .fail e' => e = e'
      | _ => False
  | .unspecified, q => match q with
      | .unspecified => True
      | _ => False
  | .load a k, q => match q with
      | .load a' k' => a = a' ∧ ∀ b, Sim S (k b) (k' b)
      | _ => False
  | .store a v m k, q => match q with
      | .store a' v' m' k' => a = a' ∧ v = v' ∧ m = m' ∧ Sim S k k'
      | _ => False

theorem Rel.trans_sim {α β γ : Type} {R : α → β → Prop} {S : β → γ → Prop} {R' : α → γ → Prop}
    (h : ∀ a b c, R a b → S b c → R' a c) :
    ∀ (p : SProg α) (q : SProg β) (q' : SProg γ), Rel R p q → Sim S q q' → Rel R' p q' := by
  intro p
  induction p with
  | ret a =>
    intro q q'; cases q <;> cases q' <;> simp [Rel, Sim]
    intro h1 h2; exact h _ _ _ h1 h2
  | fail e =>
    intro q q'; cases q <;> cases q' <;> simp [Rel, Sim]
    intro h1 h2; exact h1.trans h2
  | unspecified => intro q q'; cases q <;> cases q' <;> simp [Rel, Sim]
  | load a k ih =>
    intro q q'; cases q <;> cases q' <;> simp [Rel, Sim]
    intro h1 h2 h3 h4; exact ⟨h1.trans h3, fun b => ih b _ _ (h2 b) (h4 b)⟩
  | store a v m k ih =>
    intro q q'; cases q <;> cases q' <;> simp [Rel, Sim]
    intro h1 h2 h3 h4 h5 h6 h7
    subst h5; subst h6
    exact ⟨h1.trans h4, h2, ih _ _ h3 h7⟩

theorem Sim.bind {β γ β' γ' : Type} {S : β → γ → Prop} {S' : β' → γ' → Prop} :
    ∀ (p : SProg β) (q : SProg γ) (f : β → SProg β') (g : γ → SProg γ'),
      Sim S p q → (∀ a b, S a b → Sim S' (f a) (g b)) → Sim S' (p.bind f) (q.bind g) := by
  intro p
  induction p with
  | ret a => intro q f g; cases q <;> simp [Sim, SProg.bind]; intro h hk; exact hk _ _ h
  | fail e => intro q f g; cases q <;> simp [Sim, SProg.bind]; intro h _; exact h
  | unspecified => intro q f g; cases q <;> simp [Sim, SProg.bind]
  | load a k ih =>
    intro q f g; cases q <;> simp [Sim, SProg.bind]
    intro h1 h2 hk; exact ⟨h1, fun b => ih b _ f g (h2 b) hk⟩
  | store a v m k ih =>
    intro q f g; cases q <;> simp [Sim, SProg.bind]
    intro h1 h2 h3 h4 hk; exact ⟨h1, h2, h3, ih _ f g h4 hk⟩

theorem Sim.refl {β : Type} {S : β → β → Prop} (hS : ∀ a, S a a) : ∀ p : SProg β, Sim S p p := by
  intro p
  induction p with
  | ret a => simp [Sim]; exact hS a
  | fail e => simp [Sim]
  | unspecified => simp [Sim]
  | load a k ih => simp [Sim]; exact ih
  | store a v m k ih => simp [Sim]; exact ih

end SProg
end Verif
