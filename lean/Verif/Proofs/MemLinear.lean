import Verif.Spec.Banking
/-
  The documented linear layout (`linDoc`) is a bank-independent bijection between the linear
  addresses below `linTotal` and the cells of the machine (F256: from address 16 on, onto all
  system and I/O cells; addresses 0..15 are the CPU-view aliases).
-/
namespace Verif
open Verif.Spec

/-- linear addresses whose meaning does not depend on the banking state -/
def plainLin (k : MemKind) (l : Nat) : Prop :=
  match k with
  | .f256 _ => 16 ≤ l
  | .linear _ => False
  | _ => True

theorem linDoc_toLin (k : MemKind) (d : Cell → Nat) (l : Nat) (c : Cell) (hp : plainLin k l)
    (h : linDoc k d l = some c) : toLin k c = some l ∧ validCell k c ∧ l < linTotal k := by
  cases k with
  | linear n => exact absurd hp (by simp [plainLin])
  | x16 b =>
    simp only [linDoc] at h
    split at h
    · cases h; simp [toLin, validCell, regionSize, linTotal]; omega
    · split at h
      · cases h; simp [toLin, validCell, regionSize, linTotal]; omega
      · split at h
        · cases h; simp [toLin, validCell, regionSize, linTotal]; omega
        · cases h
  | geo sb =>
    simp only [linDoc] at h
    generalize hG : 2 ^ (sb + 14) = G at h
    split at h
    · cases h; simp [toLin, validCell, regionSize, linTotal]; omega
    · split at h
      · cases h; simp [toLin, validCell, regionSize, linTotal, hG]; omega
      · cases h
  | f256 n =>
    simp only [plainLin] at hp
    simp only [linDoc] at h
    split at h
    · omega
    · split at h
      · cases h; simp [toLin, validCell, regionSize, linTotal]; omega
      · split at h
        · cases h; simp [toLin, validCell, regionSize, linTotal]; omega
        · cases h

theorem toLin_linDoc (k : MemKind) (d : Cell → Nat) (l : Nat) (c : Cell) (hv : validCell k c)
    (h : toLin k c = some l) (hp : plainLin k l) : linDoc k d l = some c := by
  obtain ⟨r, i⟩ := c
  cases k with
  | linear n => exact absurd hp (by simp [plainLin])
  | x16 b =>
    cases r <;> simp [toLin] at h <;> simp [validCell, regionSize] at hv <;> subst h <;> simp only [linDoc]
    · have h1 : i < 0xA000 := hv
      simp only [h1, if_true]
    · have h1 : ¬ (0xA000 + i < 0xA000) := by omega
      have h2 : 0xA000 + i < 0xA000 + b * 8192 := by omega
      have h3 : 0xA000 + i - 0xA000 = i := by omega
      simp only [h1, h2, h3, if_true, if_false]
    · have h1 : ¬ (0xA000 + b * 8192 + i < 0xA000) := by omega
      have h2 : ¬ (0xA000 + b * 8192 + i < 0xA000 + b * 8192) := by omega
      have h3 : 0xA000 + b * 8192 + i < 0xA000 + b * 8192 + 32 * 16384 := by omega
      have h4 : 0xA000 + b * 8192 + i - (0xA000 + b * 8192) = i := by omega
      simp only [h1, h2, h3, h4, if_true, if_false]
  | geo sb =>
    cases r <;> simp [toLin] at h <;> simp [validCell, regionSize] at hv <;> subst h <;> simp only [linDoc]
    · have h1 : i < 65536 := hv
      simp only [h1, if_true]
    · have h1 : ¬ (65536 + i < 65536) := by omega
      have h2 : 65536 + i < 65536 + 2 ^ (sb + 14) := by omega
      have h3 : 65536 + i - 65536 = i := by omega
      simp only [h1, h2, h3, if_true, if_false]
  | f256 n =>
    simp only [plainLin] at hp
    cases r <;> simp [toLin] at h <;> simp [validCell, regionSize] at hv <;> subst h <;> simp only [linDoc]
    · have h1 : ¬ (i < 16) := by omega
      simp only [h1, hv, if_true, if_false]
    · have h1 : ¬ (n + i < 16) := by omega
      have h2 : ¬ (n + i < n) := by omega
      have h3 : n + i < n + 4 * 8192 := by omega
      have h4 : n + i - n = i := by omega
      simp only [h1, h2, h3, h4, if_true, if_false]

end Verif
